(* C07_zone.v — where the walker's result lies relative to the envelope loops (GS_LOOP, ST_LOOP),
   from walker_entry' / walker_match and envelope_shape. *)
From Coq Require Import String.
From PX.Lib Require Import Base PyStr PyInt Regex Xml.
From PX.Model Require Import Path Segment Syntax MapLoad MapTree Element Counter Walker Driver.
From PX.Spec Require Import C07_walker_wf C07_valid_wf C07_spec.
From PX.Proofs Require Import C07_walker_lemmas C07_walker.

Local Definition l (x : string) : str := list_ascii_of_string x.

(* ---- node_at and prefixes ---- *)
Lemma node_at_prefix : forall p ns q n, p <> [] -> node_at ns (p ++ q) = Some n -> exists n', node_at ns p = Some n'.
Proof.
  induction p as [|i p IH]; intros ns q n NE H; [congruence|].
  cbn [app node_at] in *. destruct (nth_error ns i) as [n0|]; [|discriminate].
  destruct p as [|k p'].
  - eauto.
  - cbn [app] in H. apply (IH (node_children n0) q n); [discriminate | exact H].
Qed.

Lemma node_at_app_seg ns p q sn n :
  node_at ns p = Some (NSeg sn) -> node_at ns (p ++ q) = Some n -> q = [].
Proof.
  intros Hp Hq. destruct q as [|j q']; [reflexivity|]. exfalso.
  replace (p ++ j :: q') with ((p ++ [j]) ++ q') in Hq by (rewrite <- app_assoc; reflexivity).
  destruct (node_at_prefix (p ++ [j]) ns q' n (snoc_not_nil p j) Hq) as [n' Hn'].
  rewrite (node_at_snoc _ _ _ _ Hp) in Hn'. cbn [node_children] in Hn'. destruct j; discriminate.
Qed.

(* ---- some enclosing loop has id X ---- *)
Definition in_loop (m : xmap) (X : string) (r : nref) : Prop :=
  exists p q, r = p ++ q /\ q <> [] /\ loop_id_at m p = Some (l X).

Lemma anc_has_iff m r X : anc_has m r X = true <-> in_loop m X r.
Proof.
  unfold anc_has, in_loop. rewrite existsb_exists. split.
  - intros [k [Hk E]]. apply in_seq in Hk. apply ostr_eqb_eq in E.
    exists (firstn k r), (skipn k r). split; [symmetry; apply firstn_skipn|]. split; [|exact E].
    intros N. pose proof (f_equal (@length nat) N) as L. rewrite skipn_length in L. cbn in L. lia.
  - intros (p & q & -> & NE & E). exists (length p). split.
    + apply in_seq. rewrite app_length. destruct q; [congruence|]. cbn [length].
      destruct p as [|a p]; [cbn in E; discriminate|]. cbn [length]. lia.
    + rewrite firstn_app, Nat.sub_diag, firstn_all. cbn [firstn]. rewrite app_nil_r.
      change (C07_spec.l X) with (l X). rewrite E. unfold ostr_eqb, opt_eqb. apply str_eqb_refl.
Qed.

Lemma loop_id_at_node m p x :
  loop_id_at m p = Some x -> exists n, node_at (root_nodes m) p = Some n /\ node_is_loop n = true.
Proof.
  unfold loop_id_at. destruct (node_at (root_nodes m) p) as [[i t nm u ps rp pm|sn]|]; try discriminate.
  intros _. eauto.
Qed.

(* ---- what envelope_shape says about one node ---- *)
Lemma shape_at m r n :
  walker_wf m = true -> envelope_shape m = true -> node_at (root_nodes m) r = Some n -> shape_ref m r n = true.
Proof.
  unfold walker_wf, envelope_shape. intros W S H. apply andb_true_iff in W as [D _].
  rewrite forallb_forall in S. specialize (S r (all_refs_complete m r n D H)). rewrite H in S. exact S.
Qed.

Lemma is_id_eq o X : is_id o X = true -> o = Some (l X).
Proof. unfold is_id. intros H. apply ostr_eqb_eq in H. exact H. Qed.

Lemma is_id_refl X : is_id (Some (l X)) X = true.
Proof. unfold is_id, ostr_eqb, opt_eqb. apply str_eqb_refl. Qed.

Section Shape.
Variable m : xmap.
Hypothesis WF : walker_wf m = true.
Hypothesis SH : envelope_shape m = true.
Notation ns := (root_nodes m).

Lemma seg_id_at_node r x : seg_id_at m r = Some x -> exists sn, node_at ns r = Some (NSeg sn) /\ s_id sn = Some x.
Proof.
  unfold seg_id_at. destruct (node_at ns r) as [[i t nm u ps rp pm|sn]|]; try discriminate. eauto.
Qed.

(* (a) the first child of a GS_LOOP is the segment GS *)
Lemma gs_loop_first G : loop_id_at m G = Some (l "GS_LOOP") ->
  exists sn, node_at ns (G ++ [0]) = Some (NSeg sn) /\ s_id sn = Some (l "GS").
Proof.
  intros E. unfold loop_id_at in E.
  destruct (node_at ns G) as [[i t nm u ps rp pm|sn]|] eqn:HG; try discriminate. subst i.
  pose proof (shape_at m G _ WF SH HG) as S. cbn [shape_ref] in S.
  apply andb_true_iff in S as [S _]. rewrite (is_id_refl "GS_LOOP") in S. cbn [negb orb] in S.
  apply is_id_eq in S. apply seg_id_at_node in S. exact S.
Qed.

(* (b) the first child of an ST_LOOP is the segment ST *)
Lemma st_loop_first T : loop_id_at m T = Some (l "ST_LOOP") ->
  exists sn, node_at ns (T ++ [0]) = Some (NSeg sn) /\ s_id sn = Some (l "ST").
Proof.
  intros E. unfold loop_id_at in E.
  destruct (node_at ns T) as [[i t nm u ps rp pm|sn]|] eqn:HT; try discriminate. subst i.
  pose proof (shape_at m T _ WF SH HT) as S. cbn [shape_ref] in S.
  apply andb_true_iff in S as [_ S]. rewrite (is_id_refl "ST_LOOP") in S. cbn [negb orb] in S.
  apply is_id_eq in S. apply seg_id_at_node in S. exact S.
Qed.

(* (c), (d), (e) *)
Lemma seg_shape r sn : node_at ns r = Some (NSeg sn) ->
  (s_id sn = Some (l "GE") \/ s_id sn = Some (l "ST") -> anc_has m r "GS_LOOP" = true) /\
  (s_id sn = Some (l "SE") -> anc_has m r "ST_LOOP" = true) /\
  (s_id sn = Some (l "BHT") -> anc_has m r "ST_LOOP" = true /\ anc_has m r "GS_LOOP" = true).
Proof.
  intros H. pose proof (shape_at m r _ WF SH H) as S. cbn [shape_ref] in S.
  apply andb_true_iff in S as [S S3]. apply andb_true_iff in S as [S1 S2]. split; [|split].
  - intros E.
    assert (X : is_id (s_id sn) "GE" || is_id (s_id sn) "ST" = true).
    { destruct E as [E|E]; rewrite E; [rewrite (is_id_refl "GE") | rewrite (is_id_refl "ST"), orb_true_r]; reflexivity. }
    rewrite X in S1. cbn [negb orb] in S1. exact S1.
  - intros E. rewrite E, (is_id_refl "SE") in S2. cbn [negb orb] in S2. exact S2.
  - intros E. rewrite E, (is_id_refl "BHT") in S3. cbn [negb orb] in S3. apply andb_true_iff in S3. exact S3.
Qed.

(* ---- a reference reached from `start` by leaving loops, then one child, then first children ---- *)
Lemma chain_in_loop X anc rest i k :
  rest <> [] -> in_loop m X ((anc ++ [i]) ++ repeat 0 k) ->
  in_loop m X (anc ++ rest) \/
  exists G q', loop_id_at m G = Some (l X) /\ (anc ++ [i]) ++ repeat 0 k = (G ++ [0]) ++ q'.
Proof.
  intros NR (p & q & E & NQ & L).
  apply app_eq_app in E as [c [[E1 E2] | [E1 E2]]]; [|cycle 0].
  2:{
    (* p = (anc ++ [i]) ++ c, repeat 0 k = c ++ q *)
    right. destruct q as [|z q'']; [congruence|].
    assert (z = 0) as ->.
    { apply (repeat_spec k 0 z). rewrite E2. apply in_or_app. right. left. reflexivity. }
    exists p, q''. split; [exact L|]. rewrite E2, E1. rewrite <- !app_assoc. reflexivity. }
  - (* anc ++ [i] = p ++ c, q = c ++ repeat 0 k *)
    destruct c as [|c0 c'] using rev_ind.
    + right. rewrite app_nil_r in E1. cbn [app] in E2. subst q.
      destruct k as [|k']; [cbn in NQ; congruence|]. exists p, (repeat 0 k'). split; [exact L|].
      rewrite E1. cbn [repeat]. rewrite <- !app_assoc. reflexivity.
    + left. clear IHc'. rewrite app_assoc in E1. apply app_inj_tail in E1 as [E1 _].
      exists p, (c' ++ rest). split; [rewrite E1, app_assoc; reflexivity|]. split; [|exact L].
      destruct c'; [exact NR | discriminate].
Qed.

End Shape.

(* ------------------------------------------------------------------ *)
Lemma full_ok_parts m : full_ok m = true ->
  walker_wf m = true /\ walker_first_wf m = true /\ valid_wf m = true /\ envelope_shape m = true /\
  path_ok m "/ISA_LOOP/ISA" (isa_good m) = true /\
  path_ok m "/ISA_LOOP/GS_LOOP/GS" (gs_good m) = true /\
  path_ok m "/ISA_LOOP/GS_LOOP/ST_LOOP/HEADER/BHT" (bht_good m) = true.
Proof.
  unfold full_ok. intros H.
  apply andb_true_iff in H as [H H7]. apply andb_true_iff in H as [H H6]. apply andb_true_iff in H as [H H5].
  apply andb_true_iff in H as [H H4]. apply andb_true_iff in H as [H H3]. apply andb_true_iff in H as [H1 H2].
  repeat split; assumption.
Qed.

Lemma seg_match_id d de sn sg : seg_is_match d de sn sg = Ok true -> s_id sn = sid sg.
Proof.
  unfold seg_is_match. destruct (ostr_eqb (sid sg) (s_id sn)) eqn:E; cbn [negb].
  - intros _. apply ostr_eqb_eq in E. congruence.
  - discriminate.
Qed.

Lemma str_neq_by_eqb (a b : str) : str_eqb a b = false -> Some a <> Some b.
Proof. intros H E. injection E as E. apply str_eqb_eq in E. congruence. Qed.

(* the normal form of walker_entry' *)
Lemma entry_normal m w start d sg sc cl ls r' pop push :
  walker_wf m = true -> walker_first_wf m = true -> seg_ref m start ->
  snd (walk_st m w start d sg sc cl ls) = Ok (Some r', pop, push) ->
  exists anc rest i k, start = anc ++ rest /\ rest <> [] /\ r' = (anc ++ [i]) ++ repeat 0 k.
Proof.
  intros WF FW Hs E.
  destruct (walker_entry' m w start d sg sc cl ls r' pop push WF FW Hs E) as (anc & (n & Hn & Ha) & R).
  assert (NE : start <> []) by (destruct Hs as [sn Hsn]; destruct start; [discriminate Hsn | discriminate]).
  exists anc, (skipn (length anc) (removelast start) ++ [last start 0]).
  assert (ES : start = anc ++ skipn (length anc) (removelast start) ++ [last start 0]).
  { rewrite app_assoc. rewrite Ha at 1. rewrite firstn_skipn. apply app_removelast_last. exact NE. }
  destruct R as [[i R] | [i [k R]]].
  - exists i, 0. split; [exact ES|]. split; [apply snoc_not_nil|]. cbn [repeat]. rewrite app_nil_r. exact R.
  - exists i, (S k). split; [exact ES|]. split; [apply snoc_not_nil | exact R].
Qed.

Theorem walker_zone m w start d sg sc cl ls r' pop push :
  full_ok m = true -> seg_ref m start ->
  snd (walk_st m w start d sg sc cl ls) = Ok (Some r', pop, push) ->
  seg_ref m r' /\
  (anc_has m r' "GS_LOOP" = true -> anc_has m start "GS_LOOP" = true \/ sid sg = Some (l "GS")) /\
  (anc_has m r' "ST_LOOP" = true -> anc_has m start "ST_LOOP" = true \/ sid sg = Some (l "ST")) /\
  (sid sg = Some (l "GE") -> anc_has m start "GS_LOOP" = true) /\
  (sid sg = Some (l "SE") -> anc_has m start "ST_LOOP" = true) /\
  (sid sg = Some (l "ST") -> anc_has m start "GS_LOOP" = true) /\
  (sid sg = Some (l "BHT") -> anc_has m r' "ST_LOOP" = true /\ anc_has m r' "GS_LOOP" = true).
Proof.
  intros MO Hs E. destruct (full_ok_parts m MO) as (WF & FW & _ & SH & _).
  destruct (walker_match m w start d sg sc cl ls r' pop push WF Hs E) as (sn & Hr' & M).
  apply seg_match_id in M.
  destruct (entry_normal m w start d sg sc cl ls r' pop push WF FW Hs E) as (anc & rest & i & k & ES & NR & R).
  split; [exists sn; exact Hr'|].
  (* a chain that passes through the first child of a loop X whose first child is a segment ends there *)
  assert (CH : forall X Y, (forall G, loop_id_at m G = Some (l X) ->
                              exists s0, node_at (root_nodes m) (G ++ [0]) = Some (NSeg s0) /\ s_id s0 = Some (l Y)) ->
                 anc_has m r' X = true -> anc_has m start X = true \/ sid sg = Some (l Y)).
  { intros X Y FC A. apply anc_has_iff in A. rewrite R in A.
    destruct (chain_in_loop m X anc rest i k NR A) as [A' | (G & q' & LG & EG)].
    - left. apply anc_has_iff. rewrite ES. exact A'.
    - right. destruct (FC G LG) as (s0 & H0 & I0). rewrite <- R in EG. rewrite EG in Hr'.
      pose proof (node_at_app_seg _ _ _ _ _ H0 Hr') as ->. rewrite app_nil_r in Hr'.
      rewrite H0 in Hr'. injection Hr' as <-. congruence. }
  pose proof (CH "GS_LOOP"%string "GS"%string (gs_loop_first m WF SH)) as CG.
  pose proof (CH "ST_LOOP"%string "ST"%string (st_loop_first m WF SH)) as CS.
  destruct (seg_shape m WF SH r' sn Hr') as (SGS & SSE & SBHT).
  rewrite M in SGS, SSE, SBHT.
  split; [exact CG|]. split; [exact CS|]. split; [|split; [|split]].
  - intros EG. destruct (CG (SGS (or_introl EG))) as [A|A]; [exact A|].
    rewrite EG in A. vm_compute in A. discriminate A.
  - intros EG. destruct (CS (SSE EG)) as [A|A]; [exact A|].
    rewrite EG in A. vm_compute in A. discriminate A.
  - intros EG. destruct (CG (SGS (or_intror EG))) as [A|A]; [exact A|].
    rewrite EG in A. vm_compute in A. discriminate A.
  - exact SBHT.
Qed.
