(* C03_doc.v — document level of C03 (Spec/C03_doc_spec.v): what the map walker does when ONE structural
   fault is injected into a conformant instance of a loop (Spec/C02_doc_spec.v, Proofs/C02_doc.v). *)
From Coq Require Import String Lia.
From PX.Lib Require Import Base PyStr PyInt Regex Xml.
From PX.Model Require Import Path Segment Syntax MapLoad MapTree Element Counter Walker.
From PX.Spec Require Import C07_walker_wf C02_doc_spec C03_doc_spec.
From PX.Proofs Require Import Counter_keys C07_walker_lemmas C07_walker C02_doc_counter C02_doc_walk C02_doc C03_doc_walk C03_doc_inv.

Local Definition l (x : string) : str := list_ascii_of_string x.

Section Doc.
Variable m : xmap.
Variable d : delims.
Hypothesis WF : walker_wf m = true.
Hypothesis KO : keys_ok m = true.

Notation ns := (root_nodes m).

(* ------------------------------------------------------------------ *)
(* runs                                                                 *)

Lemma run_split w p pre post w' :
  run m d w p (pre ++ post) w' -> exists wk, run m d w p pre wk /\ run m d wk (last_ref pre p) post w'.
Proof.
  revert w p. induction pre as [|it pre IH]; intros w p R.
  - exists w. split; [apply run_nil | exact R].
  - cbn [app] in R. inversion R as [|w0 p0 it0 w1 rest w2 S1 S2 R']; subst.
    destruct (IH _ _ R') as [wk [R1 R2]]. exists wk. split.
    + exact (run_cons m d w p it w1 pre wk S1 S2 R1).
    + rewrite last_ref_cons. exact R2.
Qed.

(* every node a run goes through is a segment node *)
Lemma step_ok_vseg w p it w1 : vseg m p -> step_ok m d w p it w1 -> vseg m (fst it).
Proof.
  intros Hp S. destruct (S 0%Z 0%Z None) as [pop [push E]].
  pose proof (walker_total m w p d (snd it) 0%Z 0%Z None WF Hp) as T. rewrite E in T. exact T.
Qed.

Lemma run_vseg w p items w' : run m d w p items w' -> vseg m p -> vseg m (last_ref items p).
Proof.
  induction 1 as [w p | w p it w1 rest w' S1 S2 R IH]; intros Hp; [exact Hp|].
  rewrite last_ref_cons. apply IH. exact (step_ok_vseg _ _ _ _ Hp S1).
Qed.

(* a run only reads the counter of the state it starts from *)
Lemma step_ok_counter_only w1 w2 p it w' : w_counter w1 = w_counter w2 -> step_ok m d w1 p it w' -> step_ok m d w2 p it w'.
Proof.
  intros E S sc cl ls. destruct (S sc cl ls) as [pop [push H]]. exists pop, push.
  rewrite <- (walk_st_counter_only m w1 w2 _ _ _ _ _ _ E). exact H.
Qed.

Lemma run_counter_only w1 w2 p items w' :
  w_counter w1 = w_counter w2 -> run m d w1 p items w' ->
  exists w'', run m d w2 p items w'' /\ w_counter w'' = w_counter w' /\ (items <> [] -> w'' = w').
Proof.
  intros E R. destruct R as [w p | w p it w1' rest w' S1 S2 R].
  - exists w2. split; [apply run_nil|]. split; [symmetry; exact E | congruence].
  - exists w'. split; [|split; reflexivity].
    apply (run_cons m d w2 p it w1' rest w'); [exact (step_ok_counter_only _ _ _ _ _ E S1) | | exact R].
    intros r n Hr. rewrite <- E. exact (S2 r n Hr).
Qed.

(* ------------------------------------------------------------------ *)
(* 1. unknown segment                                                   *)

Lemma unknown_seg_nomatch z :
  unknown_seg m d z = true ->
  forall r sn, node_at ns r = Some (NSeg sn) -> seg_is_match d (m_dataele m) sn z = Ok false.
Proof.
  intros U r sn Hr. unfold unknown_seg in U. rewrite forallb_forall in U.
  assert (Hin : In r (seg_refs m)).
  { unfold seg_refs. apply filter_In. split; [|rewrite Hr; reflexivity].
    unfold walker_wf in WF. apply andb_true_iff in WF as [D _]. exact (all_refs_complete m r _ D Hr). }
  specialize (U r Hin). unfold nomatch_b in U. rewrite Hr in U.
  destruct (seg_is_match d (m_dataele m) sn z) as [[|]|e]; try discriminate. reflexivity.
Qed.

(* a segment whose id is the id of no segment node is unknown *)
Lemma unknown_id_unknown z : unknown_id m z = true -> unknown_seg m d z = true.
Proof.
  intros U. unfold unknown_seg. apply forallb_forall. intros r Hin.
  unfold unknown_id in U. rewrite forallb_forall in U. specialize (U r Hin).
  unfold seg_refs in Hin. apply filter_In in Hin as [_ Hs]. unfold nomatch_b.
  destruct (node_at ns r) as [[|sn]|]; try discriminate.
  unfold seg_is_match. rewrite U. reflexivity.
Qed.

(* the walk of an unknown segment, from any segment node and in any state *)
Lemma unknown_step w p z : vseg m p -> unknown_seg m d z = true -> step_unknown m d w p z.
Proof.
  intros [sn Hp] U sc cl ls.
  exact (walk_st_unknown m WF w p d z sc cl ls sn Hp (unknown_seg_nomatch z U)).
Qed.

(* THEOREM 1, on a run.  A segment z that no segment node matches is put after the items `pre` of a run that
   finds every item at its node and reports nothing.  Then: the items before z are found as before; at z the
   walker answers None with the report of _seg_not_found_error (code '1') and nothing else, its counter is
   unchanged; whatever it left in mandatory_segs_missing, the items after z are found at their nodes with
   nothing reported, and the final counts are the same. *)
Theorem unknown_segment_run :
  forall w p pre post w' z,
    vseg m p -> run m d w p (pre ++ post) w' -> unknown_seg m d z = true ->
    exists wk,
      run m d w p pre wk /\
      step_unknown m d wk (last_ref pre p) z /\
      forall wz, same_counter wk wz ->
        exists w'', run m d wz (last_ref pre p) post w'' /\ same_counter w' w''.
Proof.
  intros w p pre post w' z Hp R U.
  destruct (run_split _ _ _ _ _ R) as [wk [R1 R2]]. exists wk. split; [exact R1|]. split.
  - apply unknown_step; [exact (run_vseg _ _ _ _ R1 Hp) | exact U].
  - intros wz E. destruct (run_counter_only wk wz _ _ _ (eq_sym E) R2) as [w'' [R3 [E3 _]]].
    exists w''. split; [exact R3 | exact E3].
Qed.

(* THEOREM 1, on a conformant instance of the seg-first loop C, entered in state w (first segment found):
   body = pre ++ post is the rest of the instance, z is put between pre and post. *)
Theorem C03_unknown_segment :
  forall C sg0 pre post w z,
    conf_inst m d C ((C ++ [0], sg0) :: pre ++ post) ->
    (exists s0 rest, children_of m C = NSeg s0 :: rest) ->
    opened m w C ->
    unknown_seg m d z = true ->
    exists wk,
      (* the items before z: found, nothing reported *)
      run m d w (C ++ [0]) pre wk /\
      (* z: not found, one report with code '1', counter unchanged *)
      step_unknown m d wk (last_ref pre (C ++ [0])) z /\
      (* the items after z, from the same node and whatever z left in mandatory_segs_missing: found, nothing
         reported, and the counts at the end are those of the instance without z *)
      forall wz, same_counter wk wz ->
        exists w'', run m d wz (last_ref pre (C ++ [0])) post w'' /\
          forall r n, node_at ns r = Some n ->
            cnt m (w_counter w'') r = predicted (pre ++ post) (cnt m (w_counter w)) r.
Proof.
  intros C sg0 pre post w z CI K O U.
  destruct (conformant_instance_accepted m d WF KO C sg0 (pre ++ post) w CI K O) as [w' [R P]].
  assert (Hp : vseg m (C ++ [0])).
  { destruct K as [s0 [rest K]]. exists s0. unfold children_of in K.
    destruct C as [|i C']; [inversion CI; congruence|].
    destruct (node_at ns (i :: C')) as [nC|] eqn:HC; [|discriminate].
    rewrite (node_at_snoc _ _ _ _ HC), K. reflexivity. }
  destruct (unknown_segment_run w (C ++ [0]) pre post w' z Hp R U) as [wk [R1 [SU F]]].
  exists wk. split; [exact R1|]. split; [exact SU|].
  intros wz E. destruct (F wz E) as [w'' [R3 E3]]. exists w''. split; [exact R3|].
  intros r n Hr. rewrite E3. exact (P r n Hr).
Qed.

(* ------------------------------------------------------------------ *)
(* 2-4. structural faults inside an instance                            *)

Hypothesis FPL : first_pos_least m = true.

(* THE GENERAL THEOREM.  An instance of the seg-first loop C with structural faults (Spec/C03_doc_spec.v:
   finst — required children left out, units beyond max_use / repeat, instances cut short and started again),
   entered in state w (first segment found): the walker finds every further item at its node, reports at
   every item EXACTLY the faults annotated at that item (in that order, nothing else), and ends with the
   predicted counts of the items actually present. *)
Theorem faulty_instance_located :
  forall C sg0 fs0 body w,
    finst m d C (((C ++ [0], sg0), fs0) :: body) ->
    (exists s0 rest, children_of m C = NSeg s0 :: rest) ->
    opened m w C ->
    exists w',
      erun m d w (C ++ [0]) body w' /\
      (forall r n, node_at ns r = Some n ->
         cnt m (w_counter w') r = predicted (items_of body) (cnt m (w_counter w)) r).
Proof.
  intros C sg0 fs0 body w FI [s0 [rest K]] [O1 [O2 O3]].
  assert (HC : exists nC, node_at ns C = Some nC).
  { unfold children_of in K. destruct C; [inversion FI; congruence|]. destruct (node_at ns (n :: C)); [eauto | discriminate]. }
  destruct HC as [nC HC].
  destruct (finst_shape m d _ _ FI nC HC) as [z [sg [fs [U' [EU Sh]]]]].
  assert (z = 0) as ->.
  { apply (shape_seg_first m d _ _ _ _ s0 rest Sh). rewrite <- (children_of_node m _ _ HC). exact K. }
  destruct (proj1 (fault_run m d WF KO FPL) C _ FI nC 0 sg fs U' HC EU Sh w) as [w' [R _]].
  { unfold PreInst. cbn [repeat]. rewrite app_nil_r. split; [exact O2|]. split; [exact O1|]. split; [lia|].
    intros r n Hr SP N1 N2. apply (O3 r n); assumption. }
  cbn [repeat] in EU. injection EU as <- <- <-. exists w'. split; [exact R|]. exact (erun_predicted m d _ _ _ _ R).
Qed.

(* the conformant instances are the instances without annotation *)
Definition plain (U : list item) : list aitem := map (fun it => (it, @nil fault)) U.

Lemma items_of_plain U : items_of (plain U) = U.
Proof. unfold items_of, plain. rewrite map_map. cbn [fst]. apply map_id. Qed.

Lemma plain_app U V : plain (U ++ V) = plain U ++ plain V.
Proof. apply map_app. Qed.

Lemma conf_finst :
  (forall C U, conf_inst m d C U -> finst m d C (plain U)) /\
  (forall L p i c B, conf_body m d L p i c B -> fbody m d L p i c (plain B)).
Proof.
  apply conf_mutind.
  - intros C s0 rest sg body HC HK M _ IH. cbn [plain map]. exact (FI_seg m d C s0 rest sg [] (plain body) HC HK M IH).
  - intros W c0 rest U0 body HW HK L0 EP _ IH1 _ IH2. rewrite plain_app.
    apply (FI_wrap m d W c0 rest (plain U0) (plain body) HW HK L0 EP IH1). rewrite items_of_plain. exact IH2.
  - intros L p i c RS. exact (FB_end m d L p i c RS).
  - intros L p i c j sn mx sg body Le Hj0 Hj Hpos B Wp U MX Lmx M RF _ IH. cbn [plain map].
    apply (FB_seg m d L p i c j sn mx sg NoGap [] (plain body) Le Hj0 Hj Hpos); try assumption.
    + intros k n K1 K2 _ Hk. exact (B k n K1 K2 Hk).
    + exact Logic.I.
    + unfold seg_limit_faults. replace (next_count i j c <=? mx)%Z with true by (symmetry; apply Z.leb_le; exact Lmx). reflexivity.
  - intros L p i c j n t sg U' body Le Hj Ln Hpos B Prem _ IH1 RF _ IH2. rewrite plain_app. cbn [plain map].
    cbn [plain map] in IH1.
    apply (FB_loop m d L p i c j n t sg NoGap [] [] (plain U') (plain body) Le Hj Ln Hpos); try assumption.
    + intros k n' K1 K2 _ Hk. exact (B k n' K1 K2 Hk).
    + exact Logic.I.
    + destruct n as [id ty nm u q rep pm | sx]; [|exact Prem]. destruct (seg_first _); [|exact Prem].
      destruct Prem as [U [mx [MX _]]]. split; [exact U | eauto].
    + unfold loop_limit_faults. destruct n as [id ty nm u q rep pm | sx]; [|reflexivity].
      destruct (seg_first _); [|reflexivity]. destruct Prem as [U [mx [MX Lmx]]]. rewrite MX.
      replace (next_count i j c <=? mx)%Z with true by (symmetry; apply Z.leb_le; exact Lmx). reflexivity.
    + unfold items_of. cbn [map fst]. fold (items_of (plain U')). rewrite items_of_plain. exact IH2.
Qed.

(* ---- one fault ---- *)

Lemma faults_of_app (U V : list aitem) : faults_of (U ++ V) = faults_of U ++ faults_of V.
Proof. unfold faults_of. apply flat_map_app. Qed.

Lemma single_fault (U : list aitem) f :
  faults_of U = [f] ->
  exists pre it post, U = pre ++ (it, [f]) :: post /\ faults_of pre = [] /\ faults_of post = [].
Proof.
  induction U as [|[it fs] U IH]; intros H; [discriminate|].
  unfold faults_of in H. cbn [flat_map snd] in H. fold (faults_of U) in H.
  destruct fs as [|f1 fs].
  - cbn [app] in H. destruct (IH H) as [pre [it' [post [-> [P1 P2]]]]].
    exists ((it, []) :: pre), it', post. split; [reflexivity|]. split; [exact P1 | exact P2].
  - cbn [app] in H. injection H as -> H. apply app_eq_nil in H as [-> H].
    exists [], it, U. split; [reflexivity|]. split; [reflexivity | exact H].
Qed.

Lemma erun_split w p pre post w' :
  erun m d w p (pre ++ post) w' -> exists wk, erun m d w p pre wk /\ erun m d wk (last_ref (items_of pre) p) post w'.
Proof.
  revert w p. induction pre as [|[it fs] pre IH]; intros w p R.
  - exists w. split; [apply erun_nil | exact R].
  - cbn [app] in R. inversion R as [|w0 p0 it0 fs0 w1 rest w2 S1 S2 R']; subst.
    destruct (IH _ _ R') as [wk [R1 R2]]. exists wk. split.
    + exact (erun_cons m d w p it fs w1 pre wk S1 S2 R1).
    + unfold items_of. cbn [map fst]. rewrite last_ref_cons. exact R2.
Qed.

(* ONE fault f, annotated at one item: the items before it are found with nothing reported; at that item
   the walker finds the item's node and reports f and nothing else; the items after it are found with nothing
   reported; the counts are the predicted ones *)
Theorem single_fault_located :
  forall C sg0 fs0 body w f,
    finst m d C (((C ++ [0], sg0), fs0) :: body) ->
    (exists s0 rest, children_of m C = NSeg s0 :: rest) ->
    opened m w C ->
    faults_of body = [f] ->
    exists pre it post wk wk' w',
      body = pre ++ (it, [f]) :: post /\ faults_of pre = [] /\ faults_of post = [] /\
      run m d w (C ++ [0]) (items_of pre) wk /\
      step_ev m d wk (last_ref (items_of pre) (C ++ [0])) it (fault_ev m d (snd it) f) wk' /\
      run m d wk' (fst it) (items_of post) w' /\
      (forall r n, node_at ns r = Some n ->
         cnt m (w_counter w') r = predicted (items_of body) (cnt m (w_counter w)) r).
Proof.
  intros C sg0 fs0 body w f FI K O F1.
  destruct (faulty_instance_located C sg0 fs0 body w FI K O) as [w' [R P]].
  destruct (single_fault body f F1) as [pre [it [post [E [P1 P2]]]]].
  rewrite E in R. destruct (erun_split _ _ _ _ _ R) as [wk [R1 R2]].
  inversion R2 as [|w0 p0 it0 fs1 wk' rest w2 S1 S2 R3]; subst.
  exists pre, it, post, wk, wk', w'. split; [reflexivity|]. split; [exact P1|]. split; [exact P2|].
  split; [exact (erun_plain m d _ _ _ _ R1 P1)|]. split; [|split; [exact (erun_plain m d _ _ _ _ R3 P2) | exact P]].
  refine (step_ev_ext m d _ _ _ _ _ _ _ S1). intros sc cl ls. unfold faults_ev. cbn [flat_map]. apply app_nil_r.
Qed.

(* ---- the four kinds, one by one ---- *)

(* THEOREM 2 (missing required segment).  The only fault of the instance is that the required segment child at
   r0 (node sn) was left out.  The walker finds every item; it reports
       add_seg(node sn, Segment('<id>'), seg_count / cur_line / ls_id of the CURRENT segment)
       seg_error('3', 'Mandatory segment "<name>" (<id>) missing', None)
   at ONE item and nothing else anywhere: by the rules of finst that item is the first segment of the first
   unit after the gap in the same loop instance (FB_seg / FB_loop with GapSeg), or — when the instance that
   lacks r0 consists of its first segment only and its loop starts again at once (FB_cut) — the first segment of
   the next instance. *)
Theorem C03_missing_segment :
  forall C sg0 fs0 body w r0 sn,
    finst m d C (((C ++ [0], sg0), fs0) :: body) ->
    (exists s0 rest, children_of m C = NSeg s0 :: rest) ->
    opened m w C ->
    faults_of body = [MissingSeg r0] -> node_at ns r0 = Some (NSeg sn) ->
    exists pre it post wk wk' w',
      body = pre ++ (it, [MissingSeg r0]) :: post /\ faults_of pre = [] /\ faults_of post = [] /\
      run m d w (C ++ [0]) (items_of pre) wk /\
      step_ev m d wk (last_ref (items_of pre) (C ++ [0])) it
        (fun sc cl ls =>
           [WAddSeg (Some (info_of (NSeg sn))) (fake_seg (s_id sn)) sc cl ls;
            WSegErr (l "3") (l "Mandatory segment """ ++ ostr0 (s_name sn) ++ l """ (" ++ ostr0 (s_id sn) ++ l ") missing") None])
        wk' /\
      run m d wk' (fst it) (items_of post) w' /\
      (forall r n, node_at ns r = Some n ->
         cnt m (w_counter w') r = predicted (items_of body) (cnt m (w_counter w)) r).
Proof.
  intros C sg0 fs0 body w r0 sn FI K O F1 H0.
  destruct (single_fault_located C sg0 fs0 body w _ FI K O F1) as [pre [it [post [wk [wk' [w' [E [P1 [P2 [R1 [S [R2 P]]]]]]]]]]]].
  exists pre, it, post, wk, wk', w'. repeat (split; [assumption|]). split; [|split; assumption].
  refine (step_ev_ext m d _ _ _ _ _ _ _ S). intros sc cl ls. cbn [fault_ev]. rewrite H0. reflexivity.
Qed.

(* THEOREM 3a (segment repeated beyond max_use).  The only fault is that one item is the found-th unit of the
   segment child at r0 (node sn) with max_use = limit < found.  At that item — the surplus item itself — the
   walker reports
       add_seg(node sn, the surplus segment, its seg_count / cur_line / ls_id)
       seg_error('5', 'Segment <id> exceeded max count.  Found <found>, should have <limit>', None)
   and nothing else anywhere; the surplus item is counted (predicted counts of the items present). *)
Theorem C03_surplus_segment :
  forall C sg0 fs0 body w r0 sn found limit,
    finst m d C (((C ++ [0], sg0), fs0) :: body) ->
    (exists s0 rest, children_of m C = NSeg s0 :: rest) ->
    opened m w C ->
    faults_of body = [SurplusSeg r0 found limit] -> node_at ns r0 = Some (NSeg sn) ->
    exists pre it post wk wk' w',
      body = pre ++ (it, [SurplusSeg r0 found limit]) :: post /\ faults_of pre = [] /\ faults_of post = [] /\
      run m d w (C ++ [0]) (items_of pre) wk /\
      step_ev m d wk (last_ref (items_of pre) (C ++ [0])) it
        (fun sc cl ls =>
           [WAddSeg (Some (info_of (NSeg sn))) {| xg_d := d; xg_s := snd it |} sc cl ls;
            WSegErr (l "5") (l "Segment " ++ show_sid (sid (snd it)) ++ l " exceeded max count.  Found " ++ fmt_i found ++
                             l ", should have " ++ fmt_i limit) None])
        wk' /\
      run m d wk' (fst it) (items_of post) w' /\
      (forall r n, node_at ns r = Some n ->
         cnt m (w_counter w') r = predicted (items_of body) (cnt m (w_counter w)) r).
Proof.
  intros C sg0 fs0 body w r0 sn found limit FI K O F1 H0.
  destruct (single_fault_located C sg0 fs0 body w _ FI K O F1) as [pre [it [post [wk [wk' [w' [E [P1 [P2 [R1 [S [R2 P]]]]]]]]]]]].
  exists pre, it, post, wk, wk', w'. repeat (split; [assumption|]). split; [|split; assumption].
  refine (step_ev_ext m d _ _ _ _ _ _ _ S). intros sc cl ls. cbn [fault_ev]. rewrite H0. reflexivity.
Qed.

(* THEOREM 3b (loop repeated beyond its repeat count).  The only fault is that one instance is the found-th
   instance of the loop child at r0 (node n0) with repeat = limit < found.  At the FIRST SEGMENT of the surplus
   instance the walker reports
       add_seg(node n0 — the LOOP node —, that segment, its seg_count / cur_line / ls_id)
       seg_error('4', 'Loop <id> exceeded max count.  Found <found>, should have <limit>', None)
   and nothing else anywhere; the other segments of the surplus instance are found and accepted. *)
Theorem C03_surplus_loop :
  forall C sg0 fs0 body w r0 n0 found limit,
    finst m d C (((C ++ [0], sg0), fs0) :: body) ->
    (exists s0 rest, children_of m C = NSeg s0 :: rest) ->
    opened m w C ->
    faults_of body = [SurplusLoop r0 found limit] -> node_at ns r0 = Some n0 ->
    exists pre it post wk wk' w',
      body = pre ++ (it, [SurplusLoop r0 found limit]) :: post /\ faults_of pre = [] /\ faults_of post = [] /\
      run m d w (C ++ [0]) (items_of pre) wk /\
      step_ev m d wk (last_ref (items_of pre) (C ++ [0])) it
        (fun sc cl ls =>
           [WAddSeg (Some (info_of n0)) {| xg_d := d; xg_s := snd it |} sc cl ls;
            WSegErr (l "4") (l "Loop " ++ ostr0 (node_id n0) ++ l " exceeded max count.  Found " ++ fmt_i found ++
                             l ", should have " ++ fmt_i limit) None])
        wk' /\
      run m d wk' (fst it) (items_of post) w' /\
      (forall r n, node_at ns r = Some n ->
         cnt m (w_counter w') r = predicted (items_of body) (cnt m (w_counter w)) r).
Proof.
  intros C sg0 fs0 body w r0 n0 found limit FI K O F1 H0.
  destruct (single_fault_located C sg0 fs0 body w _ FI K O F1) as [pre [it [post [wk [wk' [w' [E [P1 [P2 [R1 [S [R2 P]]]]]]]]]]]].
  exists pre, it, post, wk, wk', w'. repeat (split; [assumption|]). split; [|split; assumption].
  refine (step_ev_ext m d _ _ _ _ _ _ _ S). intros sc cl ls. cbn [fault_ev]. rewrite H0. reflexivity.
Qed.

(* THEOREM 4 (missing required loop).  The only fault is that the required seg-first loop child at r0 (first
   segment s0) was left out.  The walker reports, at ONE item (placed as in theorem 2),
       add_seg(node s0 — the FIRST SEGMENT of the missing loop —, Segment('<id of s0>'), position of the CURRENT segment)
       seg_error('3', 'Mandatory loop "<name>" (<id>) missing', None)
   and nothing else anywhere. *)
Theorem C03_missing_loop :
  forall C sg0 fs0 body w r0 id ty nm u q rep pm s0 rest0,
    finst m d C (((C ++ [0], sg0), fs0) :: body) ->
    (exists s0 rest, children_of m C = NSeg s0 :: rest) ->
    opened m w C ->
    faults_of body = [MissingLoop r0] ->
    node_at ns r0 = Some (NLoop id ty nm u q rep pm) -> pm_nodes pm = NSeg s0 :: rest0 ->
    exists pre it post wk wk' w',
      body = pre ++ (it, [MissingLoop r0]) :: post /\ faults_of pre = [] /\ faults_of post = [] /\
      run m d w (C ++ [0]) (items_of pre) wk /\
      step_ev m d wk (last_ref (items_of pre) (C ++ [0])) it
        (fun sc cl ls =>
           [WAddSeg (Some (info_of (NSeg s0))) (fake_seg (s_id s0)) sc cl ls;
            WSegErr (l "3") (l "Mandatory loop """ ++ ostr0 nm ++ l """ (" ++ ostr0 id ++ l ") missing") None])
        wk' /\
      run m d wk' (fst it) (items_of post) w' /\
      (forall r n, node_at ns r = Some n ->
         cnt m (w_counter w') r = predicted (items_of body) (cnt m (w_counter w)) r).
Proof.
  intros C sg0 fs0 body w r0 id ty nm u q rep pm s0 rest0 FI K O F1 H0 E0.
  destruct (single_fault_located C sg0 fs0 body w _ FI K O F1) as [pre [it [post [wk [wk' [w' [E [P1 [P2 [R1 [S [R2 P]]]]]]]]]]]].
  exists pre, it, post, wk, wk', w'. repeat (split; [assumption|]). split; [|split; assumption].
  refine (step_ev_ext m d _ _ _ _ _ _ _ S). intros sc cl ls. cbn [fault_ev]. rewrite H0, E0. reflexivity.
Qed.

End Doc.

Print Assumptions C03_missing_segment.
Print Assumptions C03_surplus_segment.
Print Assumptions C03_surplus_loop.
Print Assumptions C03_missing_loop.
Print Assumptions unknown_segment_run.
Print Assumptions C03_unknown_segment.
Print Assumptions unknown_id_unknown.
Print Assumptions faulty_instance_located.
Print Assumptions conf_finst.
Print Assumptions single_fault_located.
