(* C02_doc_walk.v — what the functions of the map walker (Model/Walker.v) DO, as equations on the
   walker state, in the situations a conformant document puts them in:
     - a child that does not match and is not missing is passed without a trace (is_loop_match, scan);
     - a loop whose first segment matches is entered (is_loop_match, goto_seg_match through wrappers);
     - a matching segment child is counted and returned;
     - a loop all of whose remaining children are passed is left (walk_loop pops). *)
From Coq Require Import String Lia.
From PX.Lib Require Import Base PyStr PyInt Regex Xml.
From PX.Model Require Import Path Segment Syntax MapLoad MapTree Element Counter Walker.
From PX.Spec Require Import C07_walker_wf C02_doc_spec.
From PX.Proofs Require Import Counter_keys C07_walker_lemmas C07_walker C02_doc_counter.

(* ------------------------------------------------------------------ *)
(* the W monad, equationally                                            *)

Definition St (c : counter) (ms : list mentry) (lg : list wev) : wst :=
  {| ws := {| w_counter := c; w_missing := ms |}; wlog := lg |}.

Lemma bind_eq {A B} (c : W A) (k : A -> W B) s s' x : c s = (s', Ok x) -> w_bind c k s = k x s'.
Proof. intros H. unfold w_bind. rewrite H. reflexivity. Qed.

Lemma bind_lift_ok {A B} (r : result A) x (k : A -> W B) s : r = Ok x -> w_bind (w_lift r) k s = k x s.
Proof. intros ->. reflexivity. Qed.

Lemma bind_ret {A B} (x : A) (k : A -> W B) s : w_bind (w_ret x) k s = k x s.
Proof. reflexivity. Qed.

Lemma bind_cget {B} (k : counter -> W B) c ms lg : w_bind w_counter_get k (St c ms lg) = k c (St c ms lg).
Proof. reflexivity. Qed.

Lemma bind_cset {B} (k : unit -> W B) c c' ms lg : w_bind (w_counter_set c') k (St c ms lg) = k tt (St c' ms lg).
Proof. reflexivity. Qed.

Lemma bind_mget {B} (k : list mentry -> W B) c ms lg : w_bind w_missing_get k (St c ms lg) = k ms (St c ms lg).
Proof. reflexivity. Qed.

Lemma bind_mset {B} (k : unit -> W B) c ms ms' lg : w_bind (w_missing_set ms') k (St c ms lg) = k tt (St c ms' lg).
Proof. reflexivity. Qed.

(* ------------------------------------------------------------------ *)
(* lists and references                                                 *)

Lemma node_at_app ns a b :
  a <> [] -> b <> [] ->
  node_at ns (a ++ b) = match node_at ns a with Some n => node_at (node_children n) b | None => None end.
Proof.
  revert ns. induction a as [|i a IH]; intros ns Ha Hb; [congruence|].
  destruct a as [|k a'].
  - cbn [app node_at]. destruct (nth_error ns i); [|reflexivity]. destruct b; [congruence | reflexivity].
  - change ((i :: k :: a') ++ b) with (i :: (k :: a') ++ b).
    cbn [node_at]. destruct (nth_error ns i) as [c|]; [|reflexivity].
    change ((k :: a') ++ b) with (k :: a' ++ b). cbv iota.
    change (k :: a' ++ b) with ((k :: a') ++ b).
    apply IH; [discriminate | exact Hb].
Qed.

(* every proper prefix of a valid reference is a loop *)
Lemma node_at_prefix ns a x b n :
  a <> [] -> node_at ns (a ++ x :: b) = Some n ->
  exists na, node_at ns a = Some na /\ node_is_loop na = true.
Proof.
  intros Ha H. rewrite node_at_app in H; [|exact Ha | discriminate].
  destruct (node_at ns a) as [na|]; [|discriminate]. exists na. split; [reflexivity|].
  destruct na; [reflexivity|]. cbn [node_children node_at nth_error] in H. destruct x; discriminate.
Qed.

Lemma removelast_app_firstn {A} (L y : list A) n :
  S n <= length y -> removelast (L ++ firstn (S n) y) = L ++ firstn n y.
Proof.
  intros H. destruct (nth_error y n) as [x|] eqn:E; [|apply nth_error_None in E; lia].
  assert (F : firstn (S n) y = firstn n y ++ [x]).
  { clear H. revert n E. induction y as [|z y IH]; intros [|n] E; try discriminate.
    - injection E as ->. reflexivity.
    - cbn [nth_error] in E. change (firstn (S (S n)) (z :: y)) with (z :: firstn (S n) y).
      rewrite (IH _ E). reflexivity. }
  rewrite F, app_assoc. apply removelast_last.
Qed.

Lemma firstn_S_snoc {A} (y : list A) n x : nth_error y n = Some x -> firstn (S n) y = firstn n y ++ [x].
Proof.
  revert n. induction y as [|z y IH]; intros [|n] E; try discriminate.
  - injection E as ->. reflexivity.
  - cbn [nth_error] in E. change (firstn (S (S n)) (z :: y)) with (z :: firstn (S n) y).
    rewrite (IH _ E). reflexivity.
Qed.

(* ------------------------------------------------------------------ *)
(* usage                                                                *)

Lemma used_facts u : used u = true -> usage_ok u = true /\ usage_is u "N" = false.
Proof.
  unfold used. intros H. apply orb_true_iff in H as [H|H]; unfold usage_is in H; apply ostr_eqb_eq in H; subst u;
    split; reflexivity.
Qed.

Section Walk.
Variable m : xmap.
Hypothesis WF : walker_wf m = true.
Variable a : wargs.

Notation ns := (root_nodes m).
Notation smatch s0 := (seg_is_match (xg_d (a_x a)) (m_dataele m) s0 (xg_s (a_x a))).
Notation nomatch h := (nomatch_b m (xg_d (a_x a)) (xg_s (a_x a)) h = true).

Lemma nomatch_seg h sn : node_at ns h = Some (NSeg sn) -> nomatch h -> smatch sn = Ok false.
Proof.
  intros H N. unfold nomatch_b in N. rewrite H in N.
  destruct (smatch sn) as [[|]|e]; try discriminate. reflexivity.
Qed.

(* ------------------------------------------------------------------ *)
(* small functions                                                      *)

Lemma flush_empty cp c lg : flush_mandatory_segs cp (St c [] lg) = (St c [] lg, Ok tt).
Proof. reflexivity. Qed.

Lemma check_seg_usage_eq r sn xp mx c ms lg :
  used (s_usage sn) = true -> node_x12path m r = Ok xp -> seg_max_repeat sn = Ok mx ->
  (get_count c xp <= mx)%Z ->
  check_seg_usage m r sn a (St c ms lg) = (St c ms lg, Ok tt).
Proof.
  intros U X M Le. destruct (used_facts _ U) as [U1 U2]. unfold check_seg_usage.
  rewrite U1, U2. cbn [negb]. rewrite (bind_lift_ok _ _ _ _ X), bind_cget, (bind_lift_ok _ _ _ _ M).
  replace (mx <? get_count c xp)%Z with false by (symmetry; apply Z.ltb_ge; exact Le). reflexivity.
Qed.

Lemma check_loop_usage_eq r id ty nm u p rep pm xp mx c ms lg :
  used u = true -> node_x12path m r = Ok xp -> loop_max_repeat rep = Ok mx ->
  (get_count (increment (reset_to_node c xp) xp) xp <= mx)%Z ->
  check_loop_usage m r (NLoop id ty nm u p rep pm) a (St c ms lg) = (St (increment (reset_to_node c xp) xp) ms lg, Ok tt).
Proof.
  intros U X M Le. destruct (used_facts _ U) as [U1 U2]. unfold check_loop_usage.
  rewrite U1, U2. cbn [negb]. rewrite (bind_lift_ok _ _ _ _ X), bind_cget. cbv zeta. rewrite bind_cset, (bind_lift_ok _ _ _ _ M).
  replace (mx <? get_count (increment (reset_to_node c xp) xp) xp)%Z with false by (symmetry; apply Z.ltb_ge; exact Le).
  reflexivity.
Qed.

(* ------------------------------------------------------------------ *)
(* a child that is not missing                                          *)

(* count-quiet: nothing would be recorded as missing when the child is passed *)
Fixpoint cq (fuel : nat) (c : counter) (r : nref) (n : node) : Prop :=
  match fuel with
  | 0 => False
  | S f =>
      match n with
      | NSeg sn => usage_is (s_usage sn) "R" = true -> (1 <= cnt m c r)%Z
      | NLoop _ _ _ u _ _ pm =>
          match pm_nodes pm with
          | [] => True
          | NSeg _ :: _ => usage_is u "R" = true -> (1 <= cnt m c r)%Z
          | NLoop _ _ _ _ _ _ _ :: _ =>
              forall i ch, nth_error (pm_nodes pm) i = Some ch -> node_is_loop ch = true -> cq f c (r ++ [i]) ch
          end
      end
  end.

Lemma skippable_cq f c r n : skippable f n = true -> cq f c r n.
Proof.
  revert r n. induction f as [|f IH]; intros r n H; [discriminate|].
  destruct n as [id ty nm u p rep pm | sn]; cbn [skippable cq] in *.
  - destruct (pm_nodes pm) as [|[id1 ty1 nm1 u1 p1 rep1 pm1 | s0] rest] eqn:E; [exact I | |].
    + intros i ch Hi Li. apply IH. rewrite forallb_forall in H. specialize (H _ (nth_error_In _ _ Hi)).
      rewrite Li in H. exact H.
    + intros R. rewrite R in H. discriminate.
  - intros R. rewrite R in H. discriminate.
Qed.

(* cq only reads the counts of the node and of the nodes below it *)
Lemma cq_frame f c c' r n :
  node_at ns r = Some n ->
  (forall x nx, node_at ns (r ++ x) = Some nx -> cnt m c' (r ++ x) = cnt m c (r ++ x)) -> cq f c r n -> cq f c' r n.
Proof.
  revert r n. induction f as [|f IH]; intros r n Hr Fr H; [exact H|].
  assert (Fr0 : cnt m c' r = cnt m c r) by (specialize (Fr [] n); rewrite app_nil_r in Fr; apply Fr, Hr).
  destruct n as [id ty nm u p rep pm | sn]; cbn [cq] in *.
  - destruct (pm_nodes pm) as [|[id1 ty1 nm1 u1 p1 rep1 pm1 | s0] rest] eqn:E; [exact I | |].
    + intros i ch Hi Li.
      assert (Hch : node_at ns (r ++ [i]) = Some ch) by (rewrite (node_at_snoc _ _ _ _ Hr); cbn [node_children]; rewrite E; exact Hi).
      apply IH; [exact Hch | | apply (H i ch Hi Li)].
      intros x nx. rewrite <- !app_assoc. apply Fr.
    + intros R. rewrite Fr0. apply H, R.
  - intros R. rewrite Fr0. apply H, R.
Qed.

(* the fuel does not matter below the nesting depth *)
Lemma cq_fuel f c r n : depth_ok f n = true -> (cq f c r n <-> cq (S f) c r n).
Proof.
  revert r n. induction f as [|f IH]; intros r n D; [discriminate|].
  destruct n as [id ty nm u p rep pm | sn]; [|cbn [cq]; tauto].
  cbn [depth_ok node_children] in D. rewrite forallb_forall in D.
  change (cq (S (S f)) c r (NLoop id ty nm u p rep pm)) with
    (match pm_nodes pm with
     | [] => True
     | NSeg _ :: _ => usage_is u "R" = true -> (1 <= cnt m c r)%Z
     | NLoop _ _ _ _ _ _ _ :: _ =>
         forall i ch, nth_error (pm_nodes pm) i = Some ch -> node_is_loop ch = true -> cq (S f) c (r ++ [i]) ch
     end).
  cbn [cq]. destruct (pm_nodes pm) as [|[id1 ty1 nm1 u1 p1 rep1 pm1 | s0] rest] eqn:E; [tauto | | tauto].
  split; intros H i ch Hi Li; specialize (H i ch Hi Li); apply (IH _ _ (D _ (nth_error_In _ _ Hi))); exact H.
Qed.

(* ------------------------------------------------------------------ *)
(* _is_loop_match answers False without a trace                         *)

Lemma is_loop_match_S f r id ty nm u p rep pm :
  is_loop_match (S f) m a r (NLoop id ty nm u p rep pm) =
  match pm_nodes pm with
  | [] => w_ret false
  | first :: _ =>
      match first with
      | NLoop _ _ _ _ _ _ _ => ilm_go m a f r 0 (pm_nodes pm)
      | NSeg s0 =>
          dow b <- w_lift (smatch s0);
          if b then w_ret true
          else if usage_is u "R" then
            dow xp <- w_lift (node_x12path m r);
            dow c <- w_counter_get;
            if (get_count c xp <? 1)%Z then
              dow_ append_missing m (r ++ [0]) first
                                  (Walker.l "Mandatory loop """ ++ ostr0 nm ++ Walker.l """ (" ++ ostr0 id ++ Walker.l ") missing") a;
              w_ret false
            else w_ret false
          else w_ret false
      end
  end.
Proof. reflexivity. Qed.

Lemma ilm_go_quiet f r s :
  forall cs i,
    (forall k ch, nth_error cs k = Some ch -> node_is_loop ch = true ->
                  is_loop_match f m a (r ++ [i + k]) ch s = (s, Ok false)) ->
    ilm_go m a f r i cs s = (s, Ok false).
Proof.
  induction cs as [|ch cs IH]; intros i H; [reflexivity|].
  assert (T : ilm_go m a f r (S i) cs s = (s, Ok false)).
  { apply IH. intros k ch' Hk L. replace (S i + k) with (i + S k) by lia. apply H; assumption. }
  destruct ch as [id ty nm u p rep pm | s0]; [|exact T].
  change (ilm_go m a f r i (NLoop id ty nm u p rep pm :: cs) s) with
    ((dow b <- is_loop_match f m a (r ++ [i]) (NLoop id ty nm u p rep pm);
      if b then w_ret true else ilm_go m a f r (S i) cs) s).
  rewrite (bind_eq _ _ s s false); [exact T|]. specialize (H 0 _ eq_refl eq_refl). rewrite Nat.add_0_r in H. exact H.
Qed.

Lemma in_enumerate_nth {A} (xs : list A) k i c : In (i, c) (enumerate k xs) -> k <= i /\ nth_error xs (i - k) = Some c.
Proof. apply enumerate_nth. Qed.

Lemma ilm_quiet c ms lg :
  forall f r n,
    node_at ns r = Some n -> node_is_loop n = true -> depth_ok f n = true ->
    cq f c r n -> (forall h, In h (heads f r n) -> nomatch h) ->
    is_loop_match f m a r n (St c ms lg) = (St c ms lg, Ok false).
Proof.
  induction f as [|f IH]; intros r n Hr Ln D Q Hh; [discriminate|].
  destruct n as [id ty nm u p rep pm | sn]; [|discriminate].
  rewrite is_loop_match_S. cbn [cq heads depth_ok node_children] in *.
  destruct (pm_nodes pm) as [|first rest] eqn:E; [reflexivity|].
  destruct first as [id1 ty1 nm1 u1 p1 rep1 pm1 | s0].
  - rewrite <- E in *. apply ilm_go_quiet. intros k ch Hk Lk. cbn [Nat.add].
    assert (Hch : node_at ns (r ++ [k]) = Some ch).
    { rewrite (node_at_snoc _ _ _ _ Hr). exact Hk. }
    apply IH; [exact Hch | exact Lk | | apply (Q k ch Hk Lk) |].
    + rewrite forallb_forall in D. apply D, (nth_error_In _ _ Hk).
    + intros h Hin. apply Hh. apply in_flat_map. exists (k, ch). split.
      * apply (enumerate_In _ 0 k ch Hk).
      * cbn [fst snd]. rewrite Lk. exact Hin.
  - assert (H0 : node_at ns (r ++ [0]) = Some (NSeg s0)).
    { rewrite (node_at_snoc _ _ _ _ Hr). cbn [node_children]. rewrite E. reflexivity. }
    rewrite (bind_lift_ok _ false); [|apply (nomatch_seg _ _ H0), Hh; left; reflexivity].
    destruct (usage_is u "R") eqn:ER; [|reflexivity].
    destruct (wf_loop_seg m WF _ _ _ _ _ _ _ _ _ _ Hr E) as [_ N].
    destruct (N (usage_R_not_N _ ER)) as [[xp Hxp] _].
    rewrite (bind_lift_ok _ _ _ _ Hxp), bind_cget.
    specialize (Q eq_refl). unfold cnt in Q. rewrite Hxp in Q.
    replace (get_count c xp <? 1)%Z with false by (symmetry; apply Z.ltb_ge; lia). reflexivity.
Qed.

(* ------------------------------------------------------------------ *)
(* entering a loop through its first segment, possibly through wrappers *)

(* what _goto_seg_match does to the counter when it enters the seg-first loop C: forget what is below
   C, count C, count its first segment; allowed when C is used and within its repeat limit *)
Definition enter_ok (c : counter) (C : nref) (n : node) (c2 : counter) : Prop :=
  match n with
  | NLoop _ _ _ u _ rep pm =>
      exists s0 rest xC x0 mx,
        pm_nodes pm = NSeg s0 :: rest /\ smatch s0 = Ok true /\ used u = true /\
        node_x12path m C = Ok xC /\ node_x12path m (C ++ [0]) = Ok x0 /\ loop_max_repeat rep = Ok mx /\
        (get_count (increment (reset_to_node c xC) xC) xC <= mx)%Z /\
        c2 = increment (increment (reset_to_node c xC) xC) x0
  | NSeg _ => False
  end.

(* the loop at r is entered z wrappers down: r ++ 0^z is a seg-first loop whose first segment matches *)
Inductive echain (c c2 : counter) : nat -> nref -> node -> Prop :=
| ec_seg r n : enter_ok c r n c2 -> echain c c2 0 r n
| ec_wrap z r id ty nm u p rep pm c0 rest :
    pm_nodes pm = c0 :: rest -> node_is_loop c0 = true -> echain c c2 z (r ++ [0]) c0 ->
    echain c c2 (S z) r (NLoop id ty nm u p rep pm).

Lemma echain_loop c c2 z r n : echain c c2 z r n -> node_is_loop n = true.
Proof. intros H. destruct H as [r n H | ]; [|reflexivity]. destruct n; [reflexivity | destruct H]. Qed.

Lemma ilm_hit c c2 z r n :
  echain c c2 z r n -> forall f, depth_ok f n = true ->
  forall ms lg, is_loop_match f m a r n (St c ms lg) = (St c ms lg, Ok true).
Proof.
  induction 1 as [r n H | z r id ty nm u p rep pm c0 rest E L0 H IH]; intros [|f] D ms lg; try discriminate.
  - destruct n as [id ty nm u p rep pm | sn]; [|destruct H].
    destruct H as [s0 [rest [xC [x0 [mx [E [M _]]]]]]].
    rewrite is_loop_match_S, E, (bind_lift_ok _ _ _ _ M). reflexivity.
  - rewrite is_loop_match_S, E. destruct c0 as [id1 ty1 nm1 u1 p1 rep1 pm1 | sx]; [|discriminate].
    change (ilm_go m a f r 0 (NLoop id1 ty1 nm1 u1 p1 rep1 pm1 :: rest) (St c ms lg)) with
      ((dow b <- is_loop_match f m a (r ++ [0]) (NLoop id1 ty1 nm1 u1 p1 rep1 pm1);
        if b then w_ret true else ilm_go m a f r 1 rest) (St c ms lg)).
    rewrite (bind_eq _ _ _ (St c ms lg) true); [reflexivity|]. apply IH.
    cbn [depth_ok node_children] in D. rewrite E in D. cbn [forallb] in D. apply andb_true_iff in D as [D _]. exact D.
Qed.

Lemma goto_seg_match_S f r id ty nm u p rep pm :
  goto_seg_match (S f) m a r (NLoop id ty nm u p rep pm) =
  match pm_nodes pm with
  | [] => w_raise AttributeError
  | first :: _ =>
      dow hit <- (match first with NSeg s0 => w_lift (smatch s0) | NLoop _ _ _ _ _ _ _ => w_ret false end);
      if hit then
        dow_ check_loop_usage m r (NLoop id ty nm u p rep pm) a;
        dow xp <- w_lift (node_x12path m (r ++ [0]));
        dow c <- w_counter_get;
        dow_ w_counter_set (increment c xp);
        dow_ flush_mandatory_segs None;
        w_ret (Some (r ++ [0]), [r])
      else goto_go m a f r 0 (pm_nodes pm)
  end.
Proof. reflexivity. Qed.

Lemma goto_hit c c2 z r n :
  echain c c2 z r n -> forall f, node_at ns r = Some n -> depth_ok f n = true -> forall lg,
  exists push s1,
    goto_seg_match f m a r n (St c [] lg) = (St c2 [] lg, Ok (Some (r ++ repeat 0 (S z)), push)) /\
    node_at ns (r ++ repeat 0 (S z)) = Some (NSeg s1).
Proof.
  induction 1 as [r n H | z r id ty nm u p rep pm c0 rest E L0 H IH]; intros [|f] Hr D lg; try discriminate.
  - destruct n as [id ty nm u p rep pm | sn]; [|destruct H].
    destruct H as [s0 [rest [xC [x0 [mx [E [M [U [XC [X0 [MX [Le ->]]]]]]]]]]]].
    exists [r], s0. split.
    + rewrite goto_seg_match_S, E, (bind_lift_ok _ _ _ _ M).
      rewrite (bind_eq _ _ _ _ _ (check_loop_usage_eq _ _ _ _ _ _ _ _ _ _ _ _ _ U XC MX Le)).
      rewrite (bind_lift_ok _ _ _ _ X0), bind_cget, bind_cset.
      rewrite (bind_eq _ _ _ _ _ (flush_empty _ _ _)). reflexivity.
    + cbn [repeat]. rewrite (node_at_snoc _ _ _ _ Hr). cbn [node_children]. rewrite E. reflexivity.
  - destruct c0 as [id1 ty1 nm1 u1 p1 rep1 pm1 | sx]; [|discriminate].
    assert (H0 : node_at ns (r ++ [0]) = Some (NLoop id1 ty1 nm1 u1 p1 rep1 pm1)).
    { rewrite (node_at_snoc _ _ _ _ Hr). cbn [node_children]. rewrite E. reflexivity. }
    assert (D0 : depth_ok f (NLoop id1 ty1 nm1 u1 p1 rep1 pm1) = true).
    { cbn [depth_ok node_children] in D. rewrite E in D. cbn [forallb] in D. apply andb_true_iff in D as [D _]. exact D. }
    destruct (IH f H0 D0 lg) as [push [s1 [G N1]]].
    exists (r :: push), s1. split.
    + rewrite goto_seg_match_S, E, bind_ret.
      change (goto_go m a f r 0 (NLoop id1 ty1 nm1 u1 p1 rep1 pm1 :: rest) (St c [] lg)) with
        ((dow res <- goto_seg_match f m a (r ++ [0]) (NLoop id1 ty1 nm1 u1 p1 rep1 pm1);
          match fst res with
          | Some r1 => dow t <- w_lift (node_truthy m r1);
                       if t then w_ret (Some r1, r :: snd res) else goto_go m a f r 1 rest
          | None => goto_go m a f r 1 rest
          end) (St c [] lg)).
      rewrite (bind_eq _ _ _ _ _ G). cbn [fst snd].
      rewrite (bind_lift_ok _ _ _ _ (node_truthy_seg m WF _ _ N1)).
      rewrite <- app_assoc. reflexivity.
    + rewrite <- app_assoc in N1. exact N1.
Qed.

(* ------------------------------------------------------------------ *)
(* the scan of the children of a loop                                   *)

Lemma wl_scan_nil orig ol cur pop : wl_scan m a orig ol cur pop [] = w_ret None.
Proof. reflexivity. Qed.

Lemma wl_scan_loop orig ol cur pop i id ty nm u p rep pm rest :
  wl_scan m a orig ol cur pop ((i, NLoop id ty nm u p rep pm) :: rest) =
  (dow lm <- is_loop_match 40 m a (cur ++ [i]) (NLoop id ty nm u p rep pm);
   if lm then
     dow g <- goto_seg_match 40 m a (cur ++ [i]) (NLoop id ty nm u p rep pm);
     w_ret (Some (fst g, pop, snd g))
   else wl_scan m a orig ol cur pop rest).
Proof. reflexivity. Qed.

Lemma wl_scan_seg orig ol cur pop i s0 rest :
  wl_scan m a orig ol cur pop ((i, NSeg s0) :: rest) =
  (dow b <- w_lift (smatch s0);
   if b then
     dow lm <- (match cur with
                | [] => w_ret false
                | _ => dow n <- w_lift (get_node m cur); is_loop_match 40 m a cur n
                end);
     if lm then
       dow_ (if orig_is_segment m orig then note_missing_children m a cur else w_ret tt);
       dow n <- w_lift (get_node m cur);
       dow g <- goto_seg_match 40 m a cur n;
       dow same <- w_lift (node_eq m cur ol);
       if same then w_ret (Some (fst g, [cur], [cur]))
       else w_ret (Some (fst g, pop, snd g))
     else
       dow xp <- w_lift (node_x12path m (cur ++ [i]));
       dow cn <- w_counter_get;
       dow_ w_counter_set (increment cn xp);
       dow_ check_seg_usage m (cur ++ [i]) s0 a;
       dow pid <- w_lift (parent_id m (cur ++ [i]));
       dow ms <- w_missing_get;
       dow_ w_missing_set (filter (fun e => negb (ostr_eqb (me_id e) (s_id s0) && ostr_eqb (me_pid e) pid)) ms);
       dow_ flush_mandatory_segs (Some (s_pos s0));
       w_ret (Some (Some (cur ++ [i]), pop, []))
   else if usage_is (s_usage s0) "R" then
     dow xp <- w_lift (node_x12path m (cur ++ [i]));
     dow cn <- w_counter_get;
     dow_ (if (get_count cn xp <? 1)%Z
           then append_missing m (cur ++ [i]) (NSeg s0) (Walker.l "Mandatory segment """ ++ ostr0 (s_name s0) ++ Walker.l """ (" ++
                                       ostr0 (s_id s0) ++ Walker.l ") missing") a
           else w_ret tt);
     wl_scan m a orig ol cur pop rest
   else wl_scan m a orig ol cur pop rest).
Proof. reflexivity. Qed.

(* a child that is passed without a trace: it is not missing and the segment matches none of its heads *)
Definition child_quiet (c : counter) (cur : nref) (ic : nat * node) : Prop :=
  nth_error (kids m cur) (fst ic) = Some (snd ic) /\ cq 40 c (cur ++ [fst ic]) (snd ic) /\
  (forall h, In h (heads 40 (cur ++ [fst ic]) (snd ic)) -> nomatch h).

Lemma scan_skip orig ol cur pop c ms lg pre rest :
  lref m cur -> Forall (child_quiet c cur) pre ->
  wl_scan m a orig ol cur pop (pre ++ rest) (St c ms lg) = wl_scan m a orig ol cur pop rest (St c ms lg).
Proof.
  intros Hl. induction pre as [|[i ch] pre IH]; intros Q; [reflexivity|].
  inversion Q as [|x xs [Hi [Qc Qm]] Q']; subst. cbn [fst snd] in *. specialize (IH Q').
  assert (Hcr : node_at ns (cur ++ [i]) = Some ch) by (rewrite (node_at_kids _ _ _ Hl); exact Hi).
  change (((i, ch) :: pre) ++ rest) with ((i, ch) :: pre ++ rest).
  destruct ch as [id ty nm u p rep pm | s0].
  - rewrite wl_scan_loop.
    rewrite (bind_eq _ _ _ (St c ms lg) false); [exact IH|].
    apply ilm_quiet; [exact Hcr | reflexivity | apply (wf_ref _ _ _ WF Hcr) | exact Qc | exact Qm].
  - rewrite wl_scan_seg.
    rewrite (bind_lift_ok _ false); [|apply (nomatch_seg _ _ Hcr), Qm; left; reflexivity].
    destruct (usage_is (s_usage s0) "R") eqn:ER; [|exact IH].
    destruct (wf_seg m WF _ _ Hcr) as [_ [[xp Hxp] _]].
    rewrite (bind_lift_ok _ _ _ _ Hxp), bind_cget.
    cbn [cq] in Qc. specialize (Qc ER). unfold cnt in Qc. rewrite Hxp in Qc.
    replace (get_count c xp <? 1)%Z with false by (symmetry; apply Z.ltb_ge; lia).
    rewrite bind_ret. exact IH.
Qed.

Lemma scan_quiet orig ol cur pop c ms lg cs :
  lref m cur -> Forall (child_quiet c cur) cs ->
  wl_scan m a orig ol cur pop cs (St c ms lg) = (St c ms lg, Ok None).
Proof.
  intros Hl Q. rewrite <- (app_nil_r cs). rewrite (scan_skip _ _ _ _ _ _ _ _ _ Hl Q). reflexivity.
Qed.

(* a matching segment child that does not open its own loop again is counted and returned *)
Lemma scan_found_seg orig ol cur pop c lg j sn rest xp mx :
  lref m cur -> nth_error (kids m cur) j = Some (NSeg sn) -> smatch sn = Ok true ->
  (forall n, node_at ns cur = Some n -> is_loop_match 40 m a cur n (St c [] lg) = (St c [] lg, Ok false)) ->
  used (s_usage sn) = true -> node_x12path m (cur ++ [j]) = Ok xp -> seg_max_repeat sn = Ok mx ->
  (get_count (increment c xp) xp <= mx)%Z ->
  wl_scan m a orig ol cur pop ((j, NSeg sn) :: rest) (St c [] lg) =
  (St (increment c xp) [] lg, Ok (Some (Some (cur ++ [j]), pop, []))).
Proof.
  intros Hl Hj M LM U X MX Le.
  rewrite wl_scan_seg, (bind_lift_ok _ _ _ _ M).
  assert (E : (match cur with
               | [] => w_ret false
               | _ => dow n <- w_lift (get_node m cur); is_loop_match 40 m a cur n
               end) (St c [] lg) = (St c [] lg, Ok false)).
  { destruct Hl as [-> | [n [Hn Ln]]]; [reflexivity|].
    assert (Hne : cur <> []) by (intros ->; discriminate).
    rewrite (list_case _ _ _ Hne). rewrite (bind_lift_ok _ _ _ _ (get_node_ok _ _ _ Hn)). apply LM, Hn. }
  rewrite (bind_eq _ _ _ _ _ E).
  rewrite (bind_lift_ok _ _ _ _ X), bind_cget, bind_cset.
  rewrite (bind_eq _ _ _ _ _ (check_seg_usage_eq _ _ _ _ _ _ _ U X MX Le)).
  destruct (parent_id_ok m (cur ++ [j])) as [pid Hpid]; [rewrite removelast_snoc; exact Hl|].
  rewrite (bind_lift_ok _ _ _ _ Hpid), bind_mget, bind_mset. cbn [filter].
  rewrite (bind_eq _ _ _ _ _ (flush_empty _ _ _)). reflexivity.
Qed.

(* a loop child whose head matches is entered *)
Lemma scan_found_loop orig ol cur pop c c2 lg j n z rest :
  lref m cur -> nth_error (kids m cur) j = Some n -> echain c c2 z (cur ++ [j]) n ->
  exists push s1,
    wl_scan m a orig ol cur pop ((j, n) :: rest) (St c [] lg) =
    (St c2 [] lg, Ok (Some (Some ((cur ++ [j]) ++ repeat 0 (S z)), pop, push))) /\
    node_at ns ((cur ++ [j]) ++ repeat 0 (S z)) = Some (NSeg s1).
Proof.
  intros Hl Hj EC.
  assert (Hcr : node_at ns (cur ++ [j]) = Some n) by (rewrite (node_at_kids _ _ _ Hl); exact Hj).
  pose proof (echain_loop _ _ _ _ _ EC) as Ln.
  destruct (wf_ref _ _ _ WF Hcr) as [_ D].
  destruct (goto_hit _ _ _ _ _ EC 40 Hcr D lg) as [push [s1 [G N1]]].
  exists push, s1. split; [|exact N1].
  destruct n as [id ty nm u p rep pm | sx]; [|discriminate].
  rewrite wl_scan_loop.
  rewrite (bind_eq _ _ _ _ _ (ilm_hit _ _ _ _ _ EC 40 D [] lg)).
  rewrite (bind_eq _ _ _ _ _ G). reflexivity.
Qed.

(* _note_missing_children (Model/Walker.v), with its local function and its loop body named *)
Definition nmc_try (ms0 : list mentry) (cr fr : nref) (nd : node) (msg : str) : W unit :=
  dow xp <- w_lift (node_x12path m cr);
  dow cn <- w_counter_get;
  if negb (get_count cn xp <? 1)%Z then w_ret tt
  else
    dow pid <- w_lift (parent_id m fr);
    if existsb (fun e => ostr_eqb (me_id e) (node_id nd) && ostr_eqb (me_pid e) pid) ms0 then w_ret tt
    else append_missing m fr nd msg a.

Definition nmc_step (cur : nref) (ms0 : list mentry) (ic : nat * node) : W unit :=
  let cr := cur ++ [fst ic] in
  let c := snd ic in
  if negb (usage_is (node_usage c) "R") then w_ret tt
  else
    match c with
    | NSeg s0 =>
        nmc_try ms0 cr cr c (Walker.l "Mandatory segment """ ++ ostr0 (s_name s0) ++ Walker.l """ (" ++ ostr0 (s_id s0) ++ Walker.l ") missing")
    | NLoop id _ name _ _ _ pm =>
        match pm_nodes pm with
        | (NSeg _ as first) :: _ =>
            nmc_try ms0 cr (cr ++ [0]) first (Walker.l "Mandatory loop """ ++ ostr0 name ++ Walker.l """ (" ++ ostr0 id ++ Walker.l ") missing")
        | _ => w_ret tt
        end
    end.

Lemma note_missing_children_eq cur :
  note_missing_children m a cur =
  (dow kids <- w_lift (container_children m cur);
   dow ms0 <- w_missing_get;
   w_iter (nmc_step cur ms0) (enumerate 0 kids)).
Proof. reflexivity. Qed.

(* every child of the loop cur is present as far as it is required (nothing would be recorded as missing
   for it): what _note_missing_children asks when cur starts again *)
Definition allq (c : counter) (cur : nref) : Prop :=
  forall k nk, nth_error (kids m cur) k = Some nk -> cq 40 c (cur ++ [k]) nk.

Lemma nmc_step_quiet cur ms0 c ms lg i ch :
  lref m cur -> nth_error (kids m cur) i = Some ch -> cq 40 c (cur ++ [i]) ch ->
  nmc_step cur ms0 (i, ch) (St c ms lg) = (St c ms lg, Ok tt).
Proof.
  intros Hl Hi Q. unfold nmc_step. cbn [fst snd].
  assert (Hcr : node_at ns (cur ++ [i]) = Some ch) by (rewrite (node_at_kids _ _ _ Hl); exact Hi).
  destruct (usage_is (node_usage ch) "R") eqn:ER; cbn [negb]; [|reflexivity].
  destruct ch as [id ty nm u p rep pm | s0].
  - cbn [node_usage] in ER. cbn [cq] in Q.
    destruct (pm_nodes pm) as [|[|sf] rest] eqn:E; [reflexivity | reflexivity |].
    destruct (wf_loop_seg m WF _ _ _ _ _ _ _ _ _ _ Hcr E) as [_ N].
    destruct (N (usage_R_not_N _ ER)) as [[xp Hxp] _].
    unfold nmc_try. rewrite (bind_lift_ok _ _ _ _ Hxp), bind_cget.
    specialize (Q ER). unfold cnt in Q. rewrite Hxp in Q.
    replace (get_count c xp <? 1)%Z with false by (symmetry; apply Z.ltb_ge; lia). reflexivity.
  - cbn [node_usage] in ER. cbn [cq] in Q.
    destruct (wf_seg m WF _ _ Hcr) as [_ [[xp Hxp] _]].
    unfold nmc_try. rewrite (bind_lift_ok _ _ _ _ Hxp), bind_cget.
    specialize (Q ER). unfold cnt in Q. rewrite Hxp in Q.
    replace (get_count c xp <? 1)%Z with false by (symmetry; apply Z.ltb_ge; lia). reflexivity.
Qed.

Lemma note_missing_quiet cur c ms lg :
  lref m cur -> allq c cur -> note_missing_children m a cur (St c ms lg) = (St c ms lg, Ok tt).
Proof.
  intros Hl Q. rewrite note_missing_children_eq.
  rewrite (bind_lift_ok _ _ _ _ (container_children_kids _ _ Hl)), bind_mget.
  assert (G : forall cs, (forall i ch, In (i, ch) cs -> nth_error (kids m cur) i = Some ch) ->
              w_iter (nmc_step cur ms) cs (St c ms lg) = (St c ms lg, Ok tt)).
  { induction cs as [|[i ch] cs IH]; intros Hc; [reflexivity|].
    cbn [w_iter]. rewrite (bind_eq _ _ _ _ _ (nmc_step_quiet cur ms c ms lg i ch Hl (Hc i ch (or_introl eq_refl))
                                                (Q _ _ (Hc i ch (or_introl eq_refl))))).
    apply IH. intros i' ch' Hin. apply Hc. right. exact Hin. }
  apply G. intros i ch Hin. apply enumerate_nth in Hin as [_ Hin]. rewrite Nat.sub_0_r in Hin. exact Hin.
Qed.

(* the first segment of the loop being scanned matches: the loop is entered again *)
Lemma scan_found_restart orig ol cur pop c c2 lg n s0 rest no so :
  cur <> [] -> node_at ns cur = Some n -> nth_error (kids m cur) 0 = Some (NSeg s0) ->
  node_at ns ol = Some no ->
  node_at ns orig = Some (NSeg so) -> allq c cur ->
  echain c c2 0 cur n ->
  exists pop' push,
    wl_scan m a orig ol cur pop ((0, NSeg s0) :: rest) (St c [] lg) =
    (St c2 [] lg, Ok (Some (Some (cur ++ [0]), pop', push))).
Proof.
  intros Hne Hn H0 Hol Hor AQ EC.
  pose proof (echain_loop _ _ _ _ _ EC) as Ln.
  destruct (wf_ref _ _ _ WF Hn) as [_ D].
  destruct (goto_hit _ _ _ _ _ EC 40 Hn D lg) as [push [s1 [G N1]]]. cbn [repeat] in G.
  assert (OS : orig_is_segment m orig = true).
  { unfold orig_is_segment. destruct orig; [discriminate Hor|]. rewrite Hor. reflexivity. }
  assert (M : smatch s0 = Ok true).
  { inversion EC as [r' n' EO|]; subst. destruct n as [id ty nm u p rep pm | sx]; [|destruct EO].
    destruct EO as [s0' [rest' [xC [x0 [mx [E [M _]]]]]]].
    unfold kids in H0. destruct cur; [congruence|]. rewrite Hn in H0. cbn [node_children] in H0. rewrite E in H0.
    injection H0 as <-. exact M. }
  destruct (node_eq_ok m _ _ _ _ Hn Hol) as [same Hsame].
  rewrite wl_scan_seg, (bind_lift_ok _ _ _ _ M).
  rewrite (list_case _ _ _ Hne).
  rewrite (bind_eq _ _ (St c [] lg) (St c [] lg) true).
  2:{ rewrite (bind_lift_ok _ _ _ _ (get_node_ok _ _ _ Hn)). apply (ilm_hit _ _ _ _ _ EC 40 D). }
  rewrite OS. rewrite (bind_eq _ _ _ _ _ (note_missing_quiet cur c [] lg ltac:(right; eauto) AQ)).
  rewrite (bind_lift_ok _ _ _ _ (get_node_ok _ _ _ Hn)).
  rewrite (bind_eq _ _ _ _ _ G). rewrite (bind_lift_ok _ _ _ _ Hsame). cbn [fst snd].
  destruct same; eexists; eexists; reflexivity.
Qed.

(* ------------------------------------------------------------------ *)
(* one turn of `while True`                                             *)

Lemma cands_kids cur npos :
  cands m cur npos = filter (fun ic : nat * node => (npos <=? node_pos (snd ic))%Z) (enumerate 0 (kids m cur)).
Proof. reflexivity. Qed.

Lemma walk_loop_found f orig ol cur npos pop s s' res :
  lref m cur ->
  wl_scan m a orig ol cur pop (cands m cur npos) s = (s', Ok (Some res)) ->
  walk_loop (S f) m a orig ol cur npos pop s = (s', Ok res).
Proof.
  intros Hl H. rewrite walk_loop_S. rewrite (bind_lift_ok _ _ _ _ (container_children_kids _ _ Hl)).
  rewrite cands_kids in H. rewrite (bind_eq _ _ _ _ _ H). reflexivity.
Qed.

Lemma walk_loop_pop f orig ol cur npos pop c ms lg n :
  cur <> [] -> node_at ns cur = Some n -> node_is_loop n = true ->
  Forall (child_quiet c cur) (cands m cur npos) ->
  walk_loop (S f) m a orig ol cur npos pop (St c ms lg) =
  walk_loop f m a orig ol (removelast cur) (node_pos n) (pop ++ [cur]) (St c ms lg).
Proof.
  intros Hne Hn Ln Q. assert (Hl : lref m cur) by (right; eauto).
  rewrite walk_loop_S. rewrite (bind_lift_ok _ _ _ _ (container_children_kids _ _ Hl)).
  rewrite <- cands_kids. rewrite (bind_eq _ _ _ _ _ (scan_quiet _ _ _ _ _ _ _ _ Hl Q)).
  rewrite (list_case _ _ _ Hne). rewrite (bind_lift_ok _ _ _ _ (get_node_ok _ _ _ Hn)). reflexivity.
Qed.

(* ------------------------------------------------------------------ *)
(* leaving the loops below L                                            *)

Lemma firstn_S_nonnil {A} (y : list A) n : y <> [] -> firstn (S n) y <> [].
Proof. destruct y; [congruence | discriminate]. Qed.

(* the levels L ++ firstn k y, 0 < k <= n, are all passed; y is the path from L to the start node *)
Lemma walk_pops orig ol L y nd c ms lg :
  node_at ns (L ++ y) = Some nd ->
  forall n, n < length y ->
    (forall k, 0 < k -> k <= n ->
       Forall (child_quiet c (L ++ firstn k y)) (cands m (L ++ firstn k y) (pos_at m (L ++ firstn (S k) y)))) ->
    forall f pop, exists pop',
      walk_loop (n + f) m a orig ol (L ++ firstn n y) (pos_at m (L ++ firstn (S n) y)) pop (St c ms lg) =
      walk_loop f m a orig ol L (pos_at m (L ++ firstn 1 y)) pop' (St c ms lg).
Proof.
  intros Hp. induction n as [|n IH]; intros Hn Q f pop.
  - exists pop. cbn [firstn Nat.add]. rewrite app_nil_r. reflexivity.
  - assert (Hy : y <> []) by (destruct y; [cbn [length] in Hn; lia | discriminate]).
    set (cur := L ++ firstn (S n) y).
    assert (Hne : cur <> []).
    { unfold cur. intros E. apply app_eq_nil in E as [_ E]. exact (firstn_S_nonnil y n Hy E). }
    assert (Hcur : exists nc, node_at ns cur = Some nc /\ node_is_loop nc = true).
    { destruct (skipn (S n) y) as [|x b] eqn:Es.
      - pose proof (f_equal (@length nat) Es) as Len. rewrite skipn_length in Len. cbn [length] in Len. lia.
      - apply (node_at_prefix ns cur x b nd Hne). unfold cur. rewrite <- app_assoc, <- Es, firstn_skipn. exact Hp. }
    destruct Hcur as [nc [Hnc Lnc]].
    change (S n + f) with (S (n + f)).
    rewrite (walk_loop_pop (n + f) orig ol cur _ pop c ms lg nc Hne Hnc Lnc (Q (S n) ltac:(lia) ltac:(lia))).
    unfold cur at 1. rewrite (removelast_app_firstn L y n ltac:(lia)).
    replace (node_pos nc) with (pos_at m (L ++ firstn (S n) y)) by (unfold pos_at; fold cur; rewrite Hnc; reflexivity).
    apply IH; [lia|]. intros k K1 K2. apply Q; lia.
Qed.

(* splitting the children looked at again at child j *)
Lemma enumerate_split {A} (xs : list A) j x :
  nth_error xs j = Some x -> forall k,
  enumerate k xs = enumerate k (firstn j xs) ++ (k + j, x) :: enumerate (S (k + j)) (skipn (S j) xs).
Proof.
  revert j. induction xs as [|z xs IH]; intros [|j] H k; try discriminate.
  - injection H as ->. cbn [firstn enumerate skipn app]. rewrite Nat.add_0_r. reflexivity.
  - cbn [nth_error] in H. cbn [firstn enumerate skipn app]. rewrite (IH _ H (S k)).
    replace (S k + j) with (k + S j) by lia. reflexivity.
Qed.

Lemma cands_split cur npos j ch :
  nth_error (kids m cur) j = Some ch -> (npos <= node_pos ch)%Z ->
  exists pre rest, cands m cur npos = pre ++ (j, ch) :: rest /\
                   forall ic, In ic pre -> In ic (cands m cur npos) /\ fst ic < j.
Proof.
  intros Hj Hp. rewrite cands_kids. rewrite (enumerate_split _ _ _ Hj 0). cbn [Nat.add].
  rewrite filter_app. cbn [filter snd]. replace (npos <=? node_pos ch)%Z with true by (symmetry; apply Z.leb_le; exact Hp).
  eexists; eexists; split; [reflexivity|].
  intros [i c0] Hin. split; [apply in_or_app; left; exact Hin|].
  apply filter_In in Hin as [Hin _]. apply enumerate_nth in Hin as [_ Hin]. rewrite Nat.sub_0_r in Hin.
  cbn [fst]. assert (L1 : i < length (firstn j (kids m cur))) by (apply nth_error_Some; congruence).
  rewrite firstn_length in L1. lia.
Qed.

(* ------------------------------------------------------------------ *)
(* found in loop L                                                      *)

Lemma found_seg_at orig ol L npos c lg j sn xp mx :
  lref m L -> nth_error (kids m L) j = Some (NSeg sn) -> (npos <= s_pos sn)%Z ->
  (forall ic, In ic (cands m L npos) -> fst ic < j -> child_quiet c L ic) ->
  smatch sn = Ok true ->
  (forall n, node_at ns L = Some n -> is_loop_match 40 m a L n (St c [] lg) = (St c [] lg, Ok false)) ->
  used (s_usage sn) = true -> node_x12path m (L ++ [j]) = Ok xp -> seg_max_repeat sn = Ok mx ->
  (get_count (increment c xp) xp <= mx)%Z ->
  forall f pop,
    walk_loop (S f) m a orig ol L npos pop (St c [] lg) =
    (St (increment c xp) [] lg, Ok (Some (L ++ [j]), pop, [])).
Proof.
  intros Hl Hj Hp Q M LM U X MX Le f pop.
  destruct (cands_split L npos j (NSeg sn) Hj Hp) as [pre [rest [E Hpre]]].
  apply walk_loop_found; [exact Hl|]. rewrite E.
  rewrite (scan_skip orig ol L pop c [] lg pre _ Hl).
  - apply scan_found_seg with (mx := mx); assumption.
  - apply Forall_forall. intros ic Hin. destruct (Hpre ic Hin) as [H1 H2]. apply Q; assumption.
Qed.

Lemma found_loop_at orig ol L npos c c2 lg j n z :
  lref m L -> nth_error (kids m L) j = Some n -> (npos <= node_pos n)%Z ->
  (forall ic, In ic (cands m L npos) -> fst ic < j -> child_quiet c L ic) ->
  echain c c2 z (L ++ [j]) n ->
  forall f pop, exists push s1,
    walk_loop (S f) m a orig ol L npos pop (St c [] lg) =
    (St c2 [] lg, Ok (Some ((L ++ [j]) ++ repeat 0 (S z)), pop, push)) /\
    node_at ns ((L ++ [j]) ++ repeat 0 (S z)) = Some (NSeg s1).
Proof.
  intros Hl Hj Hp Q EC f pop.
  destruct (cands_split L npos j n Hj Hp) as [pre [rest [E Hpre]]].
  destruct (scan_found_loop orig ol L pop c c2 lg j n z rest Hl Hj EC) as [push [s1 [G N1]]].
  exists push, s1. split; [|exact N1].
  apply walk_loop_found; [exact Hl|]. rewrite E.
  rewrite (scan_skip orig ol L pop c [] lg pre _ Hl); [exact G|].
  apply Forall_forall. intros ic Hin. destruct (Hpre ic Hin) as [H1 H2]. apply Q; assumption.
Qed.

Lemma found_restart_at orig ol C npos c c2 lg n s0 rest no so :
  C <> [] -> node_at ns C = Some n -> cands m C npos = (0, NSeg s0) :: rest ->
  node_at ns ol = Some no -> node_at ns orig = Some (NSeg so) -> allq c C -> echain c c2 0 C n ->
  forall f pop, exists pop' push,
    walk_loop (S f) m a orig ol C npos pop (St c [] lg) =
    (St c2 [] lg, Ok (Some (C ++ [0]), pop', push)).
Proof.
  intros Hne Hn E Hol Hor AQ EC f pop.
  assert (Hl : lref m C) by (right; exists n; split; [exact Hn | apply (echain_loop _ _ _ _ _ EC)]).
  assert (H0 : nth_error (kids m C) 0 = Some (NSeg s0)).
  { assert (Hin : In (0, NSeg s0) (cands m C npos)) by (rewrite E; left; reflexivity).
    rewrite cands_kids in Hin. apply filter_In in Hin as [Hin _]. apply enumerate_nth in Hin as [_ Hin]. exact Hin. }
  destruct (scan_found_restart orig ol C pop c c2 lg n s0 rest no so Hne Hn H0 Hol Hor AQ EC) as [pop' [push G]].
  exists pop', push. apply walk_loop_found; [exact Hl|]. rewrite E. exact G.
Qed.

End Walk.

(* ------------------------------------------------------------------ *)
(* walk                                                                 *)

Lemma walk_st_unfold m w p d sg sc cl ls sn :
  node_at (root_nodes m) p = Some (NSeg sn) ->
  walk_st m w p d sg sc cl ls =
  (let sr := walk_loop (S (length p)) m (mk_args d sg sc cl ls) p (removelast p) (removelast p) (s_pos sn) []
                       (St (w_counter w) [] []) in
   (ws (fst sr), wlog (fst sr), snd sr)).
Proof.
  intros H. unfold walk_st, walk_w.
  destruct p as [|i p']; [discriminate|].
  rewrite (bind_eq _ _ _ (St (w_counter w) [] []) tt); [|reflexivity].
  rewrite (bind_lift_ok _ _ _ _ (get_node_ok _ _ _ H)). cbn [node_is_loop node_pos]. cbv zeta.
  unfold pop_to_parent_loop, mk_args.
  destruct (walk_loop _ _ _ _ _ _ _ _ _) as [st r]. reflexivity.
Qed.

(* start at p = L ++ y; the loops strictly between L and p are left; what is looked for is found in L *)
Lemma walk_st_via m (WF : walker_wf m = true) w p d sg sc cl ls L y snp c' t :
  node_at (root_nodes m) p = Some (NSeg snp) -> p = L ++ y -> y <> [] ->
  (forall k, 0 < k -> k < length y ->
     Forall (child_quiet m (mk_args d sg sc cl ls) (w_counter w) (L ++ firstn k y))
            (cands m (L ++ firstn k y) (pos_at m (L ++ firstn (S k) y)))) ->
  (forall f pop, exists pop' push,
     walk_loop (S f) m (mk_args d sg sc cl ls) p (removelast p) L (pos_at m (L ++ firstn 1 y)) pop (St (w_counter w) [] []) =
     (St c' [] [], Ok (Some t, pop', push))) ->
  exists pop push,
    walk_st m w p d sg sc cl ls = ({| w_counter := c'; w_missing := [] |}, [], Ok (Some t, pop, push)).
Proof.
  intros Hp E Hy Q F. rewrite (walk_st_unfold _ _ _ _ _ _ _ _ _ Hp).
  assert (Ly : 0 < length y) by (destruct y; [congruence | cbn [length]; lia]).
  assert (Er : removelast p = L ++ firstn (length y - 1) y).
  { rewrite E. rewrite <- (removelast_app_firstn L y (length y - 1)) by lia.
    replace (S (length y - 1)) with (length y) by lia. rewrite firstn_all. reflexivity. }
  assert (Ep : s_pos snp = pos_at m (L ++ firstn (S (length y - 1)) y)).
  { replace (S (length y - 1)) with (length y) by lia. rewrite firstn_all, <- E. unfold pos_at. rewrite Hp. reflexivity. }
  rewrite E in Hp.
  destruct (walk_pops m WF (mk_args d sg sc cl ls) p (removelast p) L y _ (w_counter w) [] [] Hp (length y - 1) ltac:(lia)
              ltac:(intros k K1 K2; apply Q; lia) (S (S (length L))) []) as [pop' G].
  replace (S (length p)) with (length y - 1 + S (S (length L))) by (rewrite E, app_length; lia).
  rewrite <- Er, <- Ep in G. cbv zeta. rewrite G.
  destruct (F (S (length L)) pop') as [pop2 [push F']]. rewrite F'. cbn [fst snd ws wlog St]. eauto.
Qed.

Print Assumptions walk_st_via.
Print Assumptions found_seg_at.
Print Assumptions found_loop_at.
Print Assumptions found_restart_at.
Print Assumptions ilm_quiet.
Print Assumptions goto_hit.
