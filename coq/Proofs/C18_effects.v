(* C18_effects.v — no function reachable from the entry points (x12n_document,
   X12ContextReader.__init__/iter_segments, xmlx12_simple.convert) contains a
   write site to an object that outlives the call; clock and random numbers
   are read only by the acknowledgement visitors' envelope code and the HTML
   header. *)
From Coq Require Import String.
From PX.Lib Require Import Base.
From PX.Gen Require Import Effects.
From PX.Model Require Import Effects.

Lemma mem_nat_In x l : mem_nat x l = true <-> In x l.
Proof.
  unfold mem_nat. rewrite existsb_exists. split.
  - intros [y [Hy E]]. apply N.eqb_eq in E. subst. exact Hy.
  - intros H. exists x. split; [exact H | apply N.eqb_refl].
Qed.

(* a closed set contains every reachable function: so `reach` over-approximates reachability
   regardless of how it was computed *)
Lemma closed_sound R : closed R = true -> forall x, Reachable x -> In x R.
Proof.
  unfold closed. rewrite andb_true_iff, !forallb_forall. intros [HE HC] x Hx.
  induction Hx as [x Hin | x y _ IH Hedge].
  - apply mem_nat_In. apply HE. exact Hin.
  - specialize (HC (x, y) Hedge). cbn [fst snd] in HC. apply orb_true_iff in HC as [HC|HC].
    + apply negb_true_iff in HC. apply mem_nat_In in IH. congruence.
    + apply mem_nat_In. exact HC.
Qed.

Lemma reach_closed : closed reach = true.
Proof. vm_compute. reflexivity. Qed.

Theorem reach_complete x : Reachable x -> In x reach.
Proof. apply closed_sound, reach_closed. Qed.

Theorem no_reachable_write : reachable_writes = [].
Proof. vm_compute. reflexivity. Qed.

(* stated on the declarative notion of reachability *)
Theorem no_persistent_write f line what :
  Reachable f -> ~ In (f, line, what) write_sites.
Proof.
  intros Hr Hin.
  assert (In (f, line, what) reachable_writes).
  { unfold reachable_writes. apply filter_In. split; [exact Hin|]. cbn [fst]. apply mem_nat_In, reach_complete, Hr. }
  rewrite no_reachable_write in H. destruct H.
Qed.

Theorem no_reachable_order_leak : reachable_order_leaks = [].
Proof. vm_compute. reflexivity. Qed.

Theorem no_order_leak f line what :
  Reachable f -> ~ In (f, line, what) order_sites.
Proof.
  intros Hr Hin.
  assert (In (f, line, what) reachable_order_leaks).
  { unfold reachable_order_leaks. apply filter_In. split; [exact Hin|]. cbn [fst]. apply mem_nat_In, reach_complete, Hr. }
  rewrite no_reachable_order_leak in H. destruct H.
Qed.

Theorem clock_only_in_ack_and_html_header : clock_sites_ok = true.
Proof. vm_compute. reflexivity. Qed.
