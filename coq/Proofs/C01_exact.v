(* C01_exact.v — the exact class of segments that formatting and re-parsing
   returns unchanged.  `parse_format_exact` (C01_roundtrip.v) asks for
   `canon s = s`, which excludes every segment with an interior empty element
   ("N4*CITY**12345"); here the fixed points of parse∘format among the clean
   segments are characterised by a computable predicate, `parser_shape`, and
   the characterisation is proved in both directions. *)
From Coq Require Import String.
From PX.Lib Require Import Base PyStr.
From PX.Model Require Import Path Segment.
From PX.Spec Require Import C01_spec.
From PX.Proofs Require Import C01_roundtrip.

(* ------------------------------------------------------------------ *)
(* the predicate                                                       *)
(* ------------------------------------------------------------------ *)

(* the list is non-empty and its last member is not empty *)
Fixpoint last_ok {A} (emp : A -> bool) (xs : list A) : bool :=
  match xs with
  | [] => false
  | [x] => negb (emp x)
  | _ :: r => last_ok emp r
  end.

(* an element as the parser builds it: exactly one empty component ("**"), or
   a non-empty component list whose last component is not empty *)
Definition comp_shape (c : composite) : bool :=
  match c with
  | [[]] => true
  | _ => last_ok ele_empty c
  end.

(* a segment as the parser builds it: every element has the parser's shape,
   and either there is exactly ONE element (which may then be the empty one:
   "REF*~" is read as one empty element) or the last element is not empty.
   An empty element list is never produced.  No ISA clause is needed: a clean
   ISA has one component per element, and [v] has the shape for every v. *)
Definition els_shape (xs : list composite) : bool :=
  forallb comp_shape xs &&
  match xs with
  | [_] => true
  | _ => last_ok comp_empty xs
  end.

Definition parser_shape (s : seg) : bool := els_shape (els s).

(* ------------------------------------------------------------------ *)
(* keep emp xs = xs, decided                                           *)
(* ------------------------------------------------------------------ *)

Definition keep_fixb {A} (emp : A -> bool) (xs : list A) : bool :=
  match xs with
  | [] => true
  | [_] => true
  | _ => last_ok emp xs
  end.

Lemma last_ok_cons {A} (emp : A -> bool) x y r :
  last_ok emp (x :: y :: r) = last_ok emp (y :: r).
Proof. reflexivity. Qed.

Lemma last_ok_not_all {A} (emp : A -> bool) xs :
  last_ok emp xs = true -> forallb emp xs = false.
Proof.
  induction xs as [|x r IH]; [discriminate|].
  destruct r as [|y r].
  - cbn [last_ok forallb]. intros H. apply negb_true_iff in H. now rewrite H.
  - rewrite last_ok_cons. intros H. cbn [forallb]. cbn [forallb] in IH.
    rewrite (IH H). apply andb_false_r.
Qed.

Lemma last_ok_keep {A} (emp : A -> bool) xs :
  last_ok emp xs = true -> keep emp xs = xs.
Proof.
  induction xs as [|x r IH]; [discriminate|].
  destruct r as [|y r].
  - intros _. reflexivity.
  - rewrite last_ok_cons. intros H. rewrite keep_cons.
    rewrite (last_ok_not_all emp _ H). now rewrite (IH H).
Qed.

Lemma keep_fixb_keep {A} (emp : A -> bool) xs :
  keep_fixb emp xs = true -> keep emp xs = xs.
Proof.
  destruct xs as [|x [|y r]]; [reflexivity|reflexivity|].
  unfold keep_fixb. apply last_ok_keep.
Qed.

Lemma keep_keep_fixb {A} (emp : A -> bool) xs :
  keep emp xs = xs -> keep_fixb emp xs = true.
Proof.
  induction xs as [|x r IH]; [reflexivity|].
  rewrite keep_cons. destruct (forallb emp r) eqn:E.
  - intros H. injection H as H. subst r. reflexivity.
  - intros H. injection H as H. specialize (IH H).
    destruct r as [|y [|z r]].
    + discriminate E.
    + cbn [forallb] in E. rewrite andb_true_r in E.
      cbn [keep_fixb last_ok]. now rewrite E.
    + exact IH.
Qed.

Lemma keep_len_eq {A} (emp : A -> bool) xs :
  length (keep emp xs) = length xs -> keep emp xs = xs.
Proof.
  intros H. destruct (keep_split emp xs) as (tl & H1 & _).
  pose proof (f_equal (@length A) H1) as HL. rewrite app_length in HL.
  destruct tl as [|t tl].
  - rewrite app_nil_r in H1. auto.
  - cbn [length] in HL. lia.
Qed.

(* ------------------------------------------------------------------ *)
(* the shape is the fixed-point condition of rt_els                    *)
(* ------------------------------------------------------------------ *)

Lemma comp_shape_trim c : comp_shape c = true -> trim_comp c = c.
Proof.
  intros H. apply (keep_fixb_keep ele_empty).
  destruct c as [|v [|w r]]; [discriminate H|reflexivity|].
  destruct v; exact H.
Qed.

Lemma trim_comp_shape c : c <> [] -> trim_comp c = c -> comp_shape c = true.
Proof.
  intros Hn H. apply (keep_keep_fixb ele_empty) in H.
  destruct c as [|v [|w r]]; [congruence| |].
  - destruct v; reflexivity.
  - destruct v; exact H.
Qed.

Lemma els_shape_rt xs : els_shape xs = true -> rt_els xs = xs.
Proof.
  unfold els_shape. intros H. apply andb_true_iff in H as [Hall Hlast].
  assert (Hk : keep comp_empty xs = xs).
  { apply keep_fixb_keep. destruct xs as [|c [|c' r]]; [discriminate Hlast|reflexivity|exact Hlast]. }
  assert (Hr : rt_els xs = map trim_comp (keep comp_empty xs)).
  { destruct xs as [|c r]; [discriminate Hlast|reflexivity]. }
  rewrite Hr, Hk. rewrite <- (map_id xs) at 2. apply map_ext_in.
  intros c Hin. apply comp_shape_trim.
  rewrite forallb_forall in Hall. auto.
Qed.

Lemma rt_els_shape xs :
  (forall c, In c xs -> c <> []) -> rt_els xs = xs -> els_shape xs = true.
Proof.
  intros Hnn H.
  destruct xs as [|c0 r] eqn:Hxs; [discriminate H|].
  rewrite <- Hxs in *.
  assert (Hr : rt_els xs = map trim_comp (keep comp_empty xs)) by (rewrite Hxs; reflexivity).
  rewrite Hr in H.
  assert (Hk : keep comp_empty xs = xs).
  { apply keep_len_eq. rewrite <- H at 2. now rewrite map_length. }
  rewrite Hk in H.
  pose proof (map_id_in _ _ H) as Hid.
  unfold els_shape. apply andb_true_iff. split.
  - apply forallb_forall. intros c Hin. apply trim_comp_shape; auto.
  - apply (keep_keep_fixb comp_empty) in Hk.
    rewrite Hxs in *. destruct r as [|c1 r]; [reflexivity|exact Hk].
Qed.

Lemma clean_nonnil d s : cleanP d s -> forall c, In c (els s) -> c <> [].
Proof.
  intros (id & Hid & Hne & Hf & Hte & Hisa & Hnon) c Hin.
  destruct (str_eqb id (cs "ISA")) eqn:E.
  - apply str_eqb_eq in E. destruct (Hisa E c Hin) as (v & ->). discriminate.
  - assert (N : id <> cs "ISA").
    { intros ->. rewrite str_eqb_refl in E. discriminate. }
    exact (proj1 (Hnon N c Hin)).
Qed.

(* ------------------------------------------------------------------ *)
(* the theorems                                                        *)
(* ------------------------------------------------------------------ *)

(* a clean segment of the parser's shape is read back exactly *)
Theorem parse_format_exact_shape d s :
  distinct_delims d = true -> clean_seg d s = true -> parser_shape s = true ->
  parse_seg d (format_seg d s) = s.
Proof.
  intros Hd Hc Hs. apply clean_iff in Hc. rewrite (parse_format d s Hd Hc).
  destruct s as [i xs]. cbn [sid els] in *. f_equal.
  apply els_shape_rt. exact Hs.
Qed.

(* and nothing else is: the predicate is exact *)
Theorem parse_format_fixed_shape d s :
  distinct_delims d = true -> clean_seg d s = true ->
  parse_seg d (format_seg d s) = s -> parser_shape s = true.
Proof.
  intros Hd Hc Hfix. apply clean_iff in Hc. rewrite (parse_format d s Hd Hc) in Hfix.
  pose proof (clean_nonnil d s Hc) as Hnn.
  destruct s as [i xs]. cbn [sid els] in *. injection Hfix as Hfix.
  apply rt_els_shape; assumption.
Qed.

Corollary parse_format_exact_iff d s :
  distinct_delims d = true -> clean_seg d s = true ->
  (parse_seg d (format_seg d s) = s <-> parser_shape s = true).
Proof.
  intros Hd Hc. split.
  - now apply parse_format_fixed_shape.
  - now apply parse_format_exact_shape.
Qed.

(* the hypotheses of the old exact theorem are a special case *)
Lemma canon_fixed_is_shape d s :
  clean_seg d s = true -> canon s = s -> els s <> [] -> parser_shape s = true.
Proof.
  intros Hc Hcan Hne. apply clean_iff in Hc.
  pose proof (clean_nonnil d s Hc) as Hnn.
  destruct s as [i xs]. cbn [sid els] in *.
  unfold canon in Hcan. cbn [sid els] in Hcan. injection Hcan as Hcan.
  assert (Hlen : length (drop_trailing comp_empty (map (drop_trailing ele_empty) xs))
                 = length (map (drop_trailing ele_empty) xs)).
  { rewrite Hcan at 1. now rewrite map_length. }
  apply dt_len_eq in Hlen. rewrite Hlen in Hcan.
  rewrite Hcan in Hlen.
  pose proof (map_id_in _ _ Hcan) as Hid.
  apply dt_fix_keep in Hlen.
  unfold parser_shape. cbn [els].
  apply rt_els_shape; [exact Hnn|].
  destruct xs as [|c xs]; [congruence|].
  unfold rt_els. rewrite Hlen.
  rewrite <- (map_id (c :: xs)) at 2. apply map_ext_in.
  intros a Ha. apply (dt_fix_keep ele_empty). auto.
Qed.

(* everything that comes back from a round trip has the shape *)
Theorem parsed_has_shape d s :
  distinct_delims d = true -> clean_seg d s = true ->
  parser_shape (parse_seg d (format_seg d s)) = true.
Proof.
  intros Hd Hc. apply clean_iff in Hc. rewrite (parse_format d s Hd Hc).
  pose proof (rt_clean d s Hc) as Hc'.
  pose proof (clean_nonnil d _ Hc') as Hnn. cbn [els] in Hnn.
  unfold parser_shape. cbn [els].
  apply rt_els_shape; [exact Hnn|]. apply rt_els_idem.
Qed.

(* ------------------------------------------------------------------ *)
(* examples                                                            *)
(* ------------------------------------------------------------------ *)

Definition ex_d : delims := {| seg_term := "~"%char; ele_term := "*"%char; subele_term := ":"%char |}.

(* interior empty element (outside the reach of parse_format_exact: canon s <> s) *)
Definition ex_n4 : seg :=
  {| sid := Some (cs "N4"); els := [[cs "CITY"]; [[]]; [cs "12345"]] |}.

(* a composite with an interior empty component *)
Definition ex_sv1 : seg :=
  {| sid := Some (cs "SV1"); els := [[cs "HC"; []; cs "X"]; [cs "1"]] |}.

(* a real ISA: blank-filled middle elements, ISA16 is the component separator *)
Definition ex_isa : seg :=
  {| sid := Some (cs "ISA");
     els := [[cs "00"]; [cs "          "]; [cs "00"]; [cs "          "]; [cs "ZZ"]; [cs "ZZ000          "];
             [cs "ZZ"]; [cs "ZZ001          "]; [cs "030828"]; [cs "1128"]; [cs "U"]; [cs "00401"];
             [cs "000010121"]; [cs "0"]; [cs "T"]; [cs ":"]] |}.

Example ex_n4_hyps :
  ex_n4 = parse_seg ex_d (cs "N4*CITY**12345~") /\
  distinct_delims ex_d = true /\ clean_seg ex_d ex_n4 = true /\ parser_shape ex_n4 = true /\
  canon ex_n4 <> ex_n4 /\
  parse_seg ex_d (format_seg ex_d ex_n4) = ex_n4.
Proof. vm_compute. repeat split; try reflexivity. intros H; discriminate H. Qed.

Example ex_sv1_hyps :
  ex_sv1 = parse_seg ex_d (cs "SV1*HC::X*1~") /\
  distinct_delims ex_d = true /\ clean_seg ex_d ex_sv1 = true /\ parser_shape ex_sv1 = true /\
  parse_seg ex_d (format_seg ex_d ex_sv1) = ex_sv1.
Proof. vm_compute. repeat split; reflexivity. Qed.

Example ex_isa_hyps :
  ex_isa = parse_seg ex_d (cs "ISA*00*          *00*          *ZZ*ZZ000          *ZZ*ZZ001          *030828*1128*U*00401*000010121*0*T*:~") /\
  distinct_delims ex_d = true /\ clean_seg ex_d ex_isa = true /\ parser_shape ex_isa = true /\
  parse_seg ex_d (format_seg ex_d ex_isa) = ex_isa.
Proof. vm_compute. repeat split; reflexivity. Qed.

(* an ISA may have EMPTY elements in the middle (each is the one-component
   element [[]]); only the last one must not be empty *)
Definition ex_isa_holes : seg :=
  {| sid := Some (cs "ISA"); els := [[cs "00"]; [[]]; [cs "00"]; [[]]; [cs "ZZ"]] |}.

Example ex_isa_holes_hyps :
  ex_isa_holes = parse_seg ex_d (cs "ISA*00**00**ZZ~") /\
  distinct_delims ex_d = true /\ clean_seg ex_d ex_isa_holes = true /\ parser_shape ex_isa_holes = true /\
  parse_seg ex_d (format_seg ex_d ex_isa_holes) = ex_isa_holes.
Proof. vm_compute. repeat split; reflexivity. Qed.

(* ---- where the first guess at the predicate is wrong ---- *)

(* the guess: every element has the shape and the LAST element is not empty *)
Definition guessed_shape (s : seg) : bool :=
  forallb comp_shape (els s) && last_ok comp_empty (els s).

(* smallest counterexample: "REF*~" is read as ONE empty element, and that
   segment is clean and a fixed point although its last element is empty *)
Definition ex_lone_empty : seg := {| sid := Some (cs "REF"); els := [[[]]] |}.

Example guessed_shape_too_strong :
  ex_lone_empty = parse_seg ex_d (cs "REF*~") /\
  distinct_delims ex_d = true /\ clean_seg ex_d ex_lone_empty = true /\
  parse_seg ex_d (format_seg ex_d ex_lone_empty) = ex_lone_empty /\
  guessed_shape ex_lone_empty = false /\ parser_shape ex_lone_empty = true.
Proof. vm_compute. repeat split; reflexivity. Qed.

(* the two predicates differ on that one element list only *)
Lemma comp_shape_cases c : comp_shape c = true -> c = [[]] \/ comp_empty c = false.
Proof.
  intros H. destruct c as [|v [|w r]]; [discriminate H| |].
  - destruct v; [left; reflexivity|right; reflexivity].
  - right. apply (last_ok_not_all ele_empty). destruct v; exact H.
Qed.

Lemma guessed_shape_gap s :
  parser_shape s = guessed_shape s || match els s with [[[]]] => true | _ => false end.
Proof.
  unfold parser_shape, els_shape, guessed_shape.
  destruct (els s) as [|c [|c' r]]; [reflexivity| |].
  - cbn [forallb last_ok]. rewrite !andb_true_r.
    destruct (comp_shape c) eqn:E.
    2:{ destruct c as [|[|a v] [|w r]]; try reflexivity. discriminate E. }
    cbn [andb].
    destruct (comp_shape_cases c E) as [->|H]; [reflexivity|].
    rewrite H. reflexivity.
  - destruct c as [|[|a v] [|w r0]]; rewrite ?orb_false_r; reflexivity.
Qed.

(* an empty element list is clean but is NOT a fixed point: it comes back as
   the lone empty element *)
Example empty_els_not_fixed :
  let s := {| sid := Some (cs "REF"); els := [] |} in
  clean_seg ex_d s = true /\ parser_shape s = false /\
  parse_seg ex_d (format_seg ex_d s) = ex_lone_empty.
Proof. vm_compute. repeat split; reflexivity. Qed.

Print Assumptions parse_format_exact_shape.
Print Assumptions parse_format_fixed_shape.
Print Assumptions parse_format_exact_iff.
Print Assumptions canon_fixed_is_shape.
Print Assumptions parsed_has_shape.
Print Assumptions guessed_shape_gap.
Print Assumptions ex_n4_hyps.
Print Assumptions ex_sv1_hyps.
Print Assumptions ex_isa_hyps.
Print Assumptions ex_isa_holes_hyps.
Print Assumptions guessed_shape_too_strong.
Print Assumptions empty_els_not_fixed.
