(* C07_driver.v — the validator's main loop (Model/Driver.v) is total up to the two documented
   refusals: for every text whose first segment is an ISA, under `env_ok`, run_document_gen returns
   a verdict or raises X12Error / EngineError.  Statement: Spec/C07_spec.v. *)
From Coq Require Import String.
From PX.Lib Require Import Base PyStr PyInt Regex Xml.
From PX.Model Require Import Show Path Segment Raw Reader Syntax MapLoad MapTree Element Counter Walker MapEnv Driver.
From PX.Model Require Errh.
From PX.Spec Require Import C01_spec C07_walker_wf C07_valid_wf C07_spec.
From PX.Proofs Require Import C01_raw C04_reader C07_walker_lemmas C07_walker C07_valid C07_errh C07_zone C07_first_ev.

Local Definition l (x : string) : str := list_ascii_of_string x.

(* ------------------------------------------------------------------ *)
(* a Hoare logic for D                                                  *)

Definition dsafe {A} (c : D A) (s : dstate) (Q : A -> dstate -> Prop) : Prop :=
  match c s with (s', Ok a) => Q a s' | (_, Raise e) => allowed e = true end.

Lemma dsafe_ret {A} (a : A) s (Q : A -> dstate -> Prop) : Q a s -> dsafe (d_ret a) s Q.
Proof. intros H. exact H. Qed.

Lemma dsafe_bind {A B} (m : D A) (f : A -> D B) s (Q : B -> dstate -> Prop) :
  dsafe m s (fun a s' => dsafe (f a) s' Q) -> dsafe (d_bind m f) s Q.
Proof. unfold dsafe, d_bind. destruct (m s) as [s' [a|e]]; auto. Qed.

Lemma dsafe_get s (Q : dstate -> dstate -> Prop) : Q s s -> dsafe d_get s Q.
Proof. intros H. exact H. Qed.

Lemma dsafe_mod f s (Q : unit -> dstate -> Prop) : Q tt (f s) -> dsafe (d_mod f) s Q.
Proof. intros H. exact H. Qed.

Lemma dsafe_lift {A} (r : result A) s (Q : A -> dstate -> Prop) :
  match r with Ok a => Q a s | Raise e => allowed e = true end -> dsafe (d_lift r) s Q.
Proof. unfold dsafe, d_lift. destruct r; auto. Qed.

Lemma dsafe_raise {A} e s (Q : A -> dstate -> Prop) : allowed e = true -> dsafe (d_raise e) s Q.
Proof. intros H. exact H. Qed.

Lemma dsafe_conseq {A} (c : D A) s (Q Q' : A -> dstate -> Prop) :
  dsafe c s Q -> (forall a s', Q a s' -> Q' a s') -> dsafe c s Q'.
Proof. unfold dsafe. destruct (c s) as [s' [a|e]]; auto. Qed.

Lemma dsafe_iter {A} (f : A -> D unit) (I : dstate -> Prop) xs :
  (forall x s1, I s1 -> dsafe (f x) s1 (fun _ s2 => I s2)) ->
  forall s, I s -> dsafe (d_iter f xs) s (fun _ s' => I s').
Proof.
  intros Hf. induction xs as [|x xs IH]; intros s Hs; cbn [d_iter].
  - apply dsafe_ret. exact Hs.
  - apply dsafe_bind. eapply dsafe_conseq; [apply Hf; exact Hs|]. cbn beta. intros _ s1 H1. apply IH. exact H1.
Qed.

Ltac dstep :=
  cbn beta;
  lazymatch goal with
  | |- dsafe (d_bind _ _) _ _ => apply dsafe_bind
  | |- dsafe d_get _ _ => apply dsafe_get
  | |- dsafe (d_mod _) _ _ => apply dsafe_mod
  | |- dsafe (d_ret _) _ _ => apply dsafe_ret
  | |- dsafe (set_node _ _) _ _ => unfold set_node; apply dsafe_mod
  | |- dsafe (sel_upd _) _ _ => unfold sel_upd; apply dsafe_mod
  end.

(* ------------------------------------------------------------------ *)
(* handler calls                                                        *)

(* what a computation that only talks to the handler leaves behind *)
Definition Fr (s s' : dstate) : Prop :=
  HInv (ds_errh s') /\ mono (ds_errh s) (ds_errh s') /\ ds_node s' = ds_node s /\
  ms_cur (ds_sel s') = ms_cur (ds_sel s).

Lemma Fr_refl s : HInv (ds_errh s) -> Fr s s.
Proof. intros H. split; [exact H|]. split; [apply mono_refl | split; reflexivity]. Qed.

Lemma Fr_trans a b c : Fr a b -> Fr b c -> Fr a c.
Proof.
  intros (_ & M1 & N1 & S1) (H2 & M2 & N2 & S2). split; [exact H2|].
  split; [eapply mono_trans; eauto | split; congruence].
Qed.

Lemma dsafe_call ev s (Qh : Errh.errh -> Prop) (Q : unit -> dstate -> Prop) :
  hsafe (apply_dev ev) (ds_errh s) Qh ->
  (forall s', Fr s s' -> Qh (ds_errh s') -> Q tt s') ->
  dsafe (call_errh ev) s Q.
Proof.
  unfold hsafe, dsafe, call_errh. cbn [ds_errh with_trace].
  destruct (apply_dev ev (ds_errh s)) as [h' [u|e]]; [|auto].
  intros (I & M & P) HQ. destruct u. apply HQ; [|exact P].
  split; [exact I|]. split; [exact M | split; reflexivity].
Qed.

(* the calls that need nothing but the heap invariant *)
Lemma call_addseg s mn x sc cl ls :
  HInv (ds_errh s) ->
  dsafe (call_errh (DAddSeg mn x sc cl ls)) s (fun _ s' => Fr s s' /\ Errh.c_seg (ds_errh s') <> None).
Proof.
  intros I. eapply dsafe_call; [apply (add_seg_safe _ _ sc cl ls _ I)|]. cbn beta. auto.
Qed.

Lemma call_segerr s c m v ln :
  HInv (ds_errh s) -> dsafe (call_errh (DSegErr c m v ln)) s (fun _ s' => Fr s s').
Proof. intros I. eapply dsafe_call; [apply (seg_error_safe c m v ln _ I)|]. cbn beta. auto. Qed.

Lemma call_gserr s c m : HInv (ds_errh s) -> dsafe (call_errh (DGsErr c m)) s (fun _ s' => Fr s s').
Proof. intros I. eapply dsafe_call; [apply (gs_error_safe c m _ I)|]. cbn beta. auto. Qed.

Lemma call_sterr s c m : HInv (ds_errh s) -> dsafe (call_errh (DStErr c m)) s (fun _ s' => Fr s s').
Proof. intros I. eapply dsafe_call; [apply (st_error_safe c m _ I)|]. cbn beta. auto. Qed.

Lemma call_isaerr s c m :
  HInv (ds_errh s) -> Errh.c_isa (ds_errh s) <> None -> dsafe (call_errh (DIsaErr c m)) s (fun _ s' => Fr s s').
Proof. intros I C. eapply dsafe_call; [apply (isa_error_safe c m _ I C)|]. cbn beta. auto. Qed.

(* handle_errors(src.pop_errors()) *)
Lemma handle_popped_safe s :
  HInv (ds_errh s) -> (Errh.c_isa (ds_errh s) <> None \/ ds_pending s = []) ->
  dsafe handle_popped s (fun _ s' => Fr s s').
Proof.
  intros I C. unfold handle_popped. dstep. dstep. dstep. dstep.
  destruct C as [C | ->]; [|cbn [d_iter]; apply dsafe_ret; apply (Fr_refl (with_pending s []) I)].
  set (s0 := with_pending s []).
  apply (dsafe_conseq _ _ (fun _ s' => Fr s0 s' /\ Errh.c_isa (ds_errh s') <> None)); [|intros _ s' [F _]; exact F].
  apply (dsafe_iter _ (fun s' => Fr s0 s' /\ Errh.c_isa (ds_errh s') <> None)).
  2:{ split; [apply (Fr_refl s0 I) | exact C]. }
  intros e s1 [F1 C1]. destruct F1 as (I1 & M1 & N1).
  assert (K : forall s2, Fr s1 s2 -> Fr s0 s2 /\ Errh.c_isa (ds_errh s2) <> None).
  { intros s2 F2. split; [eapply Fr_trans; [split; [exact I1|split; [exact M1|exact N1]] | exact F2]|].
    destruct F2 as (_ & M2 & _). apply M2. exact C1. }
  unfold err_call.
  destruct (str_eqb (e_lvl e) (Driver.l "isa")).
  { eapply dsafe_conseq; [apply call_isaerr; assumption|]. intros u s2; apply K. }
  destruct (str_eqb (e_lvl e) (Driver.l "gs")).
  { eapply dsafe_conseq; [apply call_gserr; assumption|]. intros u s2; apply K. }
  destruct (str_eqb (e_lvl e) (Driver.l "st")).
  { eapply dsafe_conseq; [apply call_sterr; assumption|]. intros u s2; apply K. }
  destruct (str_eqb (e_lvl e) (Driver.l "seg")).
  { eapply dsafe_conseq; [apply call_segerr; assumption|]. intros u s2; apply K. }
  apply dsafe_ret. split; [split; [exact I1|split; [exact M1|exact N1]] | exact C1].
Qed.

(* ------------------------------------------------------------------ *)
(* the invariant of the main loop                                       *)

Definition Herr (h : Errh.errh) : Prop :=
  HInv h /\ Errh.c_isa h <> None /\ Errh.c_seg h <> None /\ Errh.ele_added h <> None.

Definition NodeOK (n : xmap * nref) : Prop := full_ok (fst n) = true /\ seg_ref (fst n) (snd n).

Definition Zone (h : Errh.errh) (n : xmap * nref) : Prop :=
  (anc_has (fst n) (snd n) "GS_LOOP" = true -> Errh.c_gs h <> None) /\
  (anc_has (fst n) (snd n) "ST_LOOP" = true -> Errh.c_st h <> None).

Definition SelOK (sel : mapsel) : Prop := forall mp, ms_cur sel = Some mp -> map_ok mp = true.

Definition Good (s : dstate) : Prop :=
  Herr (ds_errh s) /\ NodeOK (ds_node s) /\ Zone (ds_errh s) (ds_node s) /\ SelOK (ds_sel s).

Lemma Herr_Fr s s' : Herr (ds_errh s) -> Fr s s' -> Herr (ds_errh s').
Proof.
  intros (_ & a & b & c) (I & (m1 & m2 & m3 & m4 & m5) & _). split; [exact I|]. auto.
Qed.

Lemma Zone_mono h h' n : Zone h n -> mono h h' -> Zone h' n.
Proof. intros [a b] (m1 & m2 & m3 & m4 & m5). split; auto. Qed.

Lemma Good_Fr s s' : Good s -> Fr s s' -> Good s'.
Proof.
  intros (H & N & Z & SO) F. split; [eapply Herr_Fr; eauto|]. destruct F as (I & M & E & ES). rewrite E.
  split; [exact N | split; [eapply Zone_mono; eauto|]]. unfold SelOK. rewrite ES. exact SO.
Qed.

Record EnvOK (E : denv) : Prop := {
  eo_load : forall name m, de_load E name = Ok m -> map_ok m = true;
  eo_raise : forall name e, de_load E name = Raise e -> allowed e = true;
  eo_cm : full_ok (de_cm E) = true
}.

(* ------------------------------------------------------------------ *)
(* find_node                                                            *)

Lemma fw_ok w x c px pc :
  parse_path x = Ok px -> parse_path c = Ok pc -> exists w', forceWalkCounterToLoopStart w x c = Ok w'.
Proof.
  intros Hx Hc. unfold forceWalkCounterToLoopStart, reset_to_node_str, increment_str.
  rewrite Hx. cbn [bind]. rewrite Hc. cbn [bind]. eauto.
Qed.

Lemma fw_isa w : exists w', forceWalkCounterToLoopStart w (l "/ISA_LOOP") (l "/ISA_LOOP/ISA") = Ok w'.
Proof. eapply fw_ok; vm_compute; reflexivity. Qed.

Lemma fw_gs w : exists w', forceWalkCounterToLoopStart w (l "/ISA_LOOP/GS_LOOP") (l "/ISA_LOOP/GS_LOOP/GS") = Ok w'.
Proof. eapply fw_ok; vm_compute; reflexivity. Qed.

Lemma path_ok_cases m p good :
  path_ok m p good = true ->
  match getnode m p with Ok r => good r = true | Raise e => allowed e = true end.
Proof. unfold path_ok. destruct (getnode m p); auto. Qed.

Lemma map_ok_paths m : map_ok m = true ->
  match getnode m "/ISA_LOOP/ISA" with Ok r => full_ok m = true /\ isa_good m r = true | Raise e => allowed e = true end /\
  match getnode m "/ISA_LOOP/GS_LOOP/GS" with Ok r => full_ok m = true /\ gs_good m r = true | Raise e => allowed e = true end /\
  match getnode m "/ISA_LOOP/GS_LOOP/ST_LOOP/HEADER/BHT" with Ok r => full_ok m = true /\ bht_good m r = true | Raise e => allowed e = true end.
Proof.
  unfold map_ok. intros H. apply orb_true_iff in H as [H|H].
  - unfold unusable in H. apply andb_true_iff in H as [H H3]. apply andb_true_iff in H as [H1 H2].
    apply path_ok_cases in H1, H2, H3.
    destruct (getnode m "/ISA_LOOP/ISA"); [discriminate H1|].
    destruct (getnode m "/ISA_LOOP/GS_LOOP/GS"); [discriminate H2|].
    destruct (getnode m "/ISA_LOOP/GS_LOOP/ST_LOOP/HEADER/BHT"); [discriminate H3|]. auto.
  - destruct (full_ok_parts _ H) as (_ & _ & _ & _ & P1 & P2 & P3).
    apply path_ok_cases in P1, P2, P3.
    destruct (getnode m "/ISA_LOOP/ISA"); destruct (getnode m "/ISA_LOOP/GS_LOOP/GS");
      destruct (getnode m "/ISA_LOOP/GS_LOOP/ST_LOOP/HEADER/BHT"); auto.
Qed.

Lemma find_node_isa E sg s :
  EnvOK E -> sid_is sg "ISA" = true ->
  dsafe (find_node E sg) s (fun found s' =>
    found = true /\ ds_errh s' = ds_errh s /\ ds_pending s' = ds_pending s /\ ds_sel s' = ds_sel s /\
    exists r, ds_node s' = (de_cm E, r) /\ isa_good (de_cm E) r = true).
Proof.
  intros EO S. unfold find_node. rewrite S.
  destruct (full_ok_parts _ (eo_cm E EO)) as (_ & _ & _ & _ & PI & _).
  apply path_ok_cases in PI.
  dstep. apply dsafe_lift. destruct (getnode (de_cm E) "/ISA_LOOP/ISA") as [r|e]; [|exact PI].
  dstep. dstep. dstep. dstep. dstep.
  destruct (fw_isa (ds_w (with_node s (de_cm E, r)))) as [w' Ew].
  apply dsafe_lift. change (Driver.l "/ISA_LOOP") with (l "/ISA_LOOP"). change (Driver.l "/ISA_LOOP/ISA") with (l "/ISA_LOOP/ISA").
  rewrite Ew. dstep. dstep. dstep. cbn. repeat split. exists r. split; [reflexivity | exact PI].
Qed.

Lemma find_node_gs E sg s :
  EnvOK E -> sid_is sg "ISA" = false -> sid_is sg "GS" = true ->
  dsafe (find_node E sg) s (fun found s' =>
    found = true /\ ds_errh s' = ds_errh s /\ ds_pending s' = ds_pending s /\ ds_sel s' = ds_sel s).
Proof.
  intros EO S1 S2. unfold find_node. rewrite S1, S2.
  destruct (full_ok_parts _ (eo_cm E EO)) as (_ & _ & _ & _ & _ & PG & _).
  apply path_ok_cases in PG.
  dstep. apply dsafe_lift. destruct (getnode (de_cm E) "/ISA_LOOP/GS_LOOP/GS") as [r|e]; [|exact PG].
  dstep. dstep. dstep. dstep. dstep.
  destruct (fw_gs (ds_w (with_node s (de_cm E, r)))) as [w' Ew].
  apply dsafe_lift. change (Driver.l "/ISA_LOOP/GS_LOOP") with (l "/ISA_LOOP/GS_LOOP").
  change (Driver.l "/ISA_LOOP/GS_LOOP/GS") with (l "/ISA_LOOP/GS_LOOP/GS").
  rewrite Ew. dstep. dstep. dstep. cbn. repeat split.
Qed.

Lemma sid_is_true sg X : sid_is sg X = true -> sid sg = Some (l X).
Proof.
  unfold sid_is, opt_eqb. destruct (sid sg) as [x|]; [|discriminate]. intros H. apply str_eqb_eq in H. subst x. reflexivity.
Qed.

Lemma sid_is_false sg X : sid_is sg X = false -> sid sg <> Some (l X).
Proof.
  unfold sid_is, opt_eqb. destruct (sid sg) as [x|]; [|discriminate]. intros H E. injection E as ->.
  change (Reader.l X) with (l X) in H. rewrite str_eqb_refl in H. discriminate.
Qed.

(* where the found node lies, in terms of the handler's cursors *)
Definition WZ (sg : seg) (h : Errh.errh) (n : xmap * nref) : Prop :=
  (anc_has (fst n) (snd n) "GS_LOOP" = true -> Errh.c_gs h <> None) /\
  (anc_has (fst n) (snd n) "ST_LOOP" = true -> Errh.c_st h <> None \/ sid sg = Some (l "ST")) /\
  (sid sg = Some (l "GE") -> Errh.c_gs h <> None) /\
  (sid sg = Some (l "SE") -> Errh.c_st h <> None) /\
  (sid sg = Some (l "ST") -> Errh.c_gs h <> None) /\
  (sid sg = Some (l "BHT") -> anc_has (fst n) (snd n) "ST_LOOP" = true /\ anc_has (fst n) (snd n) "GS_LOOP" = true).

Lemma iter_wev evs s :
  HInv (ds_errh s) -> dsafe (d_iter (fun e => call_errh (dev_of_wev e)) evs) s (fun _ s' => Fr s s').
Proof.
  intros I. apply (dsafe_iter _ (fun s' => Fr s s')); [|apply Fr_refl; exact I].
  intros e s1 F1. pose proof F1 as (I1 & _).
  destruct e as [mn x sc cl ls|c m v]; cbn [dev_of_wev].
  - eapply dsafe_conseq; [apply call_addseg; exact I1|]. cbn beta. intros _ s2 [F2 _]. eapply Fr_trans; eauto.
  - eapply dsafe_conseq; [apply call_segerr; exact I1|]. cbn beta. intros _ s2 F2. eapply Fr_trans; eauto.
Qed.

Lemma find_node_walk E sg s :
  sid_is sg "ISA" = false -> sid_is sg "GS" = false -> Good s ->
  dsafe (find_node E sg) s (fun found s' =>
     if found then Herr (ds_errh s') /\ NodeOK (ds_node s') /\ WZ sg (ds_errh s') (ds_node s') /\ SelOK (ds_sel s')
     else Good s').
Proof.
  intros S1 S2 G. unfold find_node. rewrite S1, S2. dstep. dstep.
  pose proof G as (H & (MO & SR) & (Zg & Zs) & SO). destruct (ds_node s) as [mp r] eqn:EN. cbn [fst snd] in *.
  destruct (full_ok_parts _ MO) as (WF & _).
  pose proof (walker_total mp (ds_w s) r (de_d E) sg (seg_count (ds_x s)) (cur_line (ds_x s)) None WF SR) as WT.
  pose proof (walker_zone mp (ds_w s) r (de_d E) sg (seg_count (ds_x s)) (cur_line (ds_x s)) None) as WZn.
  destruct (walk_st mp (ds_w s) r (de_d E) sg (seg_count (ds_x s)) (cur_line (ds_x s)) None) as [[w' evs] res].
  cbn [snd] in WZn.
  dstep. dstep. dstep.
  eapply dsafe_conseq; [apply iter_wev; exact (proj1 H)|]. cbn beta. intros _ s1 F1.
  assert (F : Fr s s1) by exact F1.
  pose proof (Good_Fr s s1 G F) as G1.
  dstep. apply dsafe_lift. destruct res as [[[o pop] push]|e]; [|destruct WT].
  cbn [fst]. destruct o as [r'|].
  2:{ dstep. exact G1. }
  dstep. dstep. dstep. cbn [ds_errh ds_node ds_sel with_node fst snd].
  destruct (WZn r' pop push MO SR eq_refl) as (SR' & z1 & z2 & z3 & z4 & z5 & z6).
  destruct G1 as (H1 & _ & _ & SO1). split; [exact H1|]. split; [split; assumption|].
  split; [|exact SO1].
  destruct F as (_ & (_ & mg & mt & _) & _).
  apply sid_is_false in S2.
  unfold WZ; cbn [fst snd]. repeat split.
  - intros A. apply mg. destruct (z1 A) as [A'|A']; [auto | contradiction].
  - intros A. destruct (z2 A) as [A'|A']; [left; auto | right; exact A'].
  - intros A. auto.
  - intros A. auto.
  - intros A. auto.
  - apply z6; assumption.
  - apply z6; assumption.
Qed.

(* ------------------------------------------------------------------ *)
(* validate                                                             *)

Lemma iter_hev_good evs s :
  HInv (ds_errh s) -> Errh.c_seg (ds_errh s) <> None -> Errh.ele_added (ds_errh s) <> None ->
  dsafe (d_iter (fun h => call_errh (dev_of_hev h)) evs) s (fun _ s' => Fr s s').
Proof.
  intros I C A.
  apply (dsafe_conseq _ _ (fun _ s' => Fr s s' /\ Errh.c_seg (ds_errh s') <> None /\ Errh.ele_added (ds_errh s') <> None));
    [|intros u s' [F _]; exact F].
  apply (dsafe_iter _ (fun s' => Fr s s' /\ Errh.c_seg (ds_errh s') <> None /\ Errh.ele_added (ds_errh s') <> None)).
  2:{ split; [apply Fr_refl; exact I | split; assumption]. }
  intros e s1 (F1 & C1 & A1). pose proof F1 as (I1 & _).
  assert (K : forall s2, Fr s1 s2 -> Fr s s2 /\ Errh.c_seg (ds_errh s2) <> None /\ Errh.ele_added (ds_errh s2) <> None).
  { intros s2 F2. split; [eapply Fr_trans; eauto|]. destruct F2 as (_ & (_ & _ & _ & m4 & m5) & _). auto. }
  destruct e as [i|c m v rd]; cbn [dev_of_hev].
  - eapply dsafe_call; [apply (add_ele_safe (to_ele_info i) _ I1 C1)|]. cbn beta. intros s2 F2 _. apply K; exact F2.
  - eapply dsafe_call; [apply (ele_error_safe c m v _ I1 C1 A1)|]. cbn beta. intros s2 F2 _. apply K; exact F2.
Qed.

Lemma iter_hev_first i rest s :
  HInv (ds_errh s) -> Errh.c_seg (ds_errh s) <> None ->
  dsafe (d_iter (fun h => call_errh (dev_of_hev h)) (HAddEle i :: rest)) s
        (fun _ s' => Fr s s' /\ Errh.ele_added (ds_errh s') <> None).
Proof.
  intros I C. cbn [d_iter]. dstep. cbn [dev_of_hev].
  eapply dsafe_call; [apply (add_ele_safe (to_ele_info i) _ I C)|]. cbn beta. intros s1 F1 A1.
  pose proof F1 as (I1 & (_ & _ & _ & m4 & _) & _).
  eapply dsafe_conseq; [apply iter_hev_good; auto|]. cbn beta. intros _ s2 F2.
  split; [eapply Fr_trans; eauto|]. destruct F2 as (_ & (_ & _ & _ & _ & m5) & _). auto.
Qed.

Lemma isa_good_parts m r : isa_good m r = true ->
  exists sn e0, node_at (root_nodes m) r = Some (NSeg sn) /\
    anc_has m r "GS_LOOP" = false /\ anc_has m r "ST_LOOP" = false /\
    16 <= length (s_children sn) /\ child_by_idx sn 0 = Ok (SubE e0).
Proof.
  unfold isa_good. destruct (node_at (root_nodes m) r) as [[? ? ? ? ? ? ?|sn]|]; try discriminate.
  intros H. apply andb_true_iff in H as [H H4]. apply andb_true_iff in H as [H H3]. apply andb_true_iff in H as [H1 H2].
  destruct (child_by_idx sn 0) as [[e0|?]|?] eqn:CB; try discriminate.
  exists sn, e0. apply negb_true_iff in H1, H2. apply Nat.leb_le in H3. repeat split; assumption || reflexivity.
Qed.

Lemma validate_safe E sg s :
  NodeOK (ds_node s) -> HInv (ds_errh s) -> Errh.c_seg (ds_errh s) <> None ->
  (Errh.ele_added (ds_errh s) <> None \/
   (isa_good (fst (ds_node s)) (snd (ds_node s)) = true /\ length (els sg) = 16)) ->
  dsafe (validate E sg) s (fun _ s' => Fr s s' /\ Errh.ele_added (ds_errh s') <> None).
Proof.
  intros (MO & [sn Hsn]) I C A. unfold validate. dstep. dstep. dstep.
  apply dsafe_lift. unfold get_node. rewrite Hsn.
  destruct (full_ok_parts _ MO) as (_ & _ & VW & _).
  destruct (validation_total (fst (ds_node s)) sn (de_d E) sg VW (ex_intro _ _ Hsn)) as (b & evs & EV).
  dstep. apply dsafe_lift. rewrite EV. dstep. cbn [snd fst].
  apply (dsafe_conseq _ _ (fun _ s' => Fr s s' /\ Errh.ele_added (ds_errh s') <> None)).
  2:{ intros u s1 [F1 A1]. dstep. cbn [ds_errh ds_node with_valid]. split; assumption. }
  destruct A as [A | [IG L16]].
  - eapply dsafe_conseq; [apply iter_hev_good; assumption|]. cbn beta. intros _ s1 F1. split; [exact F1|].
    destruct F1 as (_ & (_ & _ & _ & _ & m5) & _). auto.
  - destruct (isa_good_parts _ _ IG) as (sn' & e0 & Hsn' & _ & _ & L & CB).
    rewrite Hsn in Hsn'. injection Hsn' as <-.
    destruct (first_event_is_add (de_d E) (ctx_of (fst (ds_node s))) sn sg b evs e0) as (i & rest & ->); [lia | | exact CB | exact EV |].
    { destruct (els sg); [discriminate L16 | discriminate]. }
    apply iter_hev_first; assumption.
Qed.

(* ------------------------------------------------------------------ *)
(* dispatch_seg                                                         *)

Lemma dsafe_lift_gv {A} (r : result A) s (Q : A -> dstate -> Prop) :
  ok_or_engine r -> (forall a, Q a s) -> dsafe (d_lift r) s Q.
Proof. intros H HQ. apply dsafe_lift. destruct r as [a|e]; [apply HQ|]. cbn in H. subst e. reflexivity. Qed.

Lemma src_line_some x : Errh.src_line (src_of x) <> None.
Proof. cbn. discriminate. Qed.

Lemma cur_info_safe s (Q : ninfo -> dstate -> Prop) :
  NodeOK (ds_node s) -> (forall i, Q i s) -> dsafe cur_info s Q.
Proof.
  intros (_ & [sn Hsn]) HQ. unfold cur_info. dstep. dstep. dstep. apply dsafe_lift.
  unfold get_node. rewrite Hsn. dstep. apply HQ.
Qed.

Lemma add_cur_seg_safe x s :
  NodeOK (ds_node s) -> HInv (ds_errh s) ->
  dsafe (add_cur_seg x) s (fun _ s' => Fr s s' /\ Errh.c_seg (ds_errh s') <> None).
Proof.
  intros N I. unfold add_cur_seg. dstep. apply cur_info_safe; [exact N|]. intros i.
  dstep. dstep. apply call_addseg. exact I.
Qed.

(* a state change that the handler does not see *)
Lemma Fr_same s s' :
  HInv (ds_errh s) -> ds_errh s' = ds_errh s -> ds_node s' = ds_node s -> ms_cur (ds_sel s') = ms_cur (ds_sel s) -> Fr s s'.
Proof. intros I E N C. unfold Fr. rewrite E. split; [exact I|]. split; [apply mono_refl | split; assumption]. Qed.

Lemma dispatch_isa E sg s :
  sid_is sg "ISA" = true -> HInv (ds_errh s) ->
  dsafe (dispatch_seg E sg) s (fun _ s' =>
    Fr s s' /\ Errh.c_isa (ds_errh s') <> None /\ Errh.c_seg (ds_errh s') <> None).
Proof.
  intros S I. unfold dispatch_seg. cbv zeta. rewrite S. dstep. dstep. dstep.
  eapply dsafe_call; [apply (add_isa_loop_safe _ _ _ I (src_line_some _))|]. cbn beta.
  intros s1 F1 [C1 G1]. dstep.
  apply dsafe_lift_gv; [apply gv_ISA12|]. intros v. dstep. dstep.
  set (s2 := with_sel s1 _).
  pose proof F1 as (I1 & (_ & _ & _ & _ & _) & _).
  eapply dsafe_conseq; [apply (handle_popped_safe s2); [exact I1 | left; exact C1]|]. cbn beta.
  intros _ s3 F3.
  assert (F : Fr s s3).
  { eapply Fr_trans; [exact F1|]. eapply Fr_trans; [|exact F3]. apply Fr_same; [exact I1 | reflexivity..]. }
  split; [exact F|]. destruct F3 as (_ & (m1 & _ & _ & m4 & _) & _). split; [apply m1; exact C1 | apply m4; exact G1].
Qed.

Lemma switch_map_safe E new s :
  EnvOK E ->
  dsafe (switch_map E new) s (fun mp s' =>
    ds_errh s' = ds_errh s /\ ds_node s' = ds_node s /\ ms_cur (ds_sel s') = Some mp /\ map_ok mp = true).
Proof.
  intros EO. unfold switch_map. dstep. dstep. destruct new as [f|]; [|apply dsafe_raise; reflexivity].
  dstep. apply dsafe_lift. destruct (de_load E f) as [mp|e] eqn:EL; [|exact (eo_raise E EO f e EL)].
  dstep. dstep. dstep. dstep. dstep. cbn. repeat split. exact (eo_load E EO f mp EL).
Qed.

Lemma gs_good_parts m r : gs_good m r = true -> seg_ref m r /\ anc_has m r "ST_LOOP" = false.
Proof.
  unfold gs_good, seg_ref. destruct (node_at (root_nodes m) r) as [[? ? ? ? ? ? ?|sn]|]; try discriminate.
  intros H. apply negb_true_iff in H. split; [eauto | exact H].
Qed.

Lemma dispatch_gs E sg s :
  EnvOK E -> sid_is sg "ISA" = false -> sid_is sg "IEA" = false -> sid_is sg "GS" = true ->
  Herr (ds_errh s) -> SelOK (ds_sel s) ->
  dsafe (dispatch_seg E sg) s (fun _ s' => Good s').
Proof.
  intros EO S1 S2 S3 H SO. unfold dispatch_seg. cbv zeta. rewrite S1, S2, S3.
  dstep. apply dsafe_lift_gv; [apply gv_GS01|]. intros fic.
  dstep. apply dsafe_lift_gv; [apply gv_GS08|]. intros vriic.
  dstep. dstep. dstep. dstep. dstep.
  set (s1 := with_sel s _).
  (* after the optional switch: the handler is untouched and the current map, if any, is good *)
  apply (dsafe_conseq _ _ (fun _ s2 => ds_errh s2 = ds_errh s /\ SelOK (ds_sel s2))).
  { destruct (negb _).
    - dstep. eapply dsafe_conseq; [apply switch_map_safe; exact EO|]. cbn beta.
      intros mp s2 (E2 & _ & C2 & M2). dstep. split; [exact E2|]. intros mp' Hmp. congruence.
    - dstep. split; [reflexivity | exact SO]. }
  intros _ s2 [E2 SO2]. dstep. dstep.
  destruct (ms_cur (ds_sel s2)) as [mp|] eqn:EC; [|apply dsafe_raise; reflexivity].
  destruct (map_ok_paths _ (SO2 mp EC)) as (_ & PG & _).
  dstep. apply dsafe_lift. destruct (getnode mp "/ISA_LOOP/GS_LOOP/GS") as [r|e]; [|exact PG].
  destruct PG as [MO PG].
  destruct (gs_good_parts _ _ PG) as [SR NST].
  dstep. dstep. dstep.
  set (s3 := with_node s2 (mp, r)).
  destruct H as (I & CI & CS & CE).
  assert (I3 : HInv (ds_errh s3)) by (cbn [s3 ds_errh with_node]; rewrite E2; exact I).
  assert (CI3 : Errh.c_isa (ds_errh s3) <> None) by (cbn [s3 ds_errh with_node]; rewrite E2; exact CI).
  eapply dsafe_call; [apply (add_gs_loop_safe _ _ _ I3 (src_line_some _) CI3)|]. cbn beta.
  intros s4 F4 [CG4 CS4].
  pose proof F4 as (I4 & (m1 & _) & _).
  eapply dsafe_conseq; [apply (handle_popped_safe s4); [exact I4 | left; apply m1; exact CI3]|]. cbn beta.
  intros _ s5 F5.
  pose proof (Fr_trans _ _ _ F4 F5) as F35.
  destruct F35 as (I5 & (n1 & n2 & n3 & n4 & n5) & N5 & C5).
  split; [|split; [|split]].
  - split; [exact I5|]. split; [apply n1; exact CI3|]. split.
    + destruct F5 as (_ & (_ & _ & _ & k4 & _) & _). apply k4. exact CS4.
    + apply n5. cbn [s3 ds_errh with_node]. rewrite E2. exact CE.
  - rewrite N5. split; assumption.
  - rewrite N5. cbn [s3 ds_node with_node fst snd]. split.
    + intros _. destruct F5 as (_ & (_ & k2 & _) & _). apply k2. exact CG4.
    + cbn [fst snd]. intros A. congruence.
  - unfold SelOK. rewrite C5. cbn [s3 ds_sel with_node]. exact SO2.
Qed.

Lemma WZ_Zone sg h n : WZ sg h n -> sid sg <> Some (l "ST") -> Zone h n.
Proof.
  intros (z1 & z2 & _) NS. split; [exact z1|]. intros A. destruct (z2 A) as [B|B]; [exact B | contradiction].
Qed.

Lemma bht_good_parts m r : bht_good m r = true -> seg_ref m r.
Proof.
  unfold bht_good, seg_ref. destruct (node_at (root_nodes m) r) as [[? ? ? ? ? ? ?|sn]|]; try discriminate. eauto.
Qed.

(* handle_popped; node info; one closing call *)
Lemma close_pattern (mk : ninfo -> Errh.src_info -> dev) s :
  Good s ->
  (forall i src s1, Fr s s1 -> dsafe (call_errh (mk i src)) s1 (fun _ s2 => Fr s1 s2)) ->
  dsafe (dod_ handle_popped; dod i <- cur_info; dod st <- d_get; call_errh (mk i (src_of (ds_x st)))) s
        (fun _ s' => Good s').
Proof.
  intros G HC. pose proof G as ((I & CI & _) & N & _).
  dstep. eapply dsafe_conseq; [apply handle_popped_safe; [exact I | left; exact CI]|]. cbn beta.
  intros _ s1 F1. dstep. apply cur_info_safe.
  { destruct F1 as (_ & _ & E & _). rewrite E. exact N. }
  intros i. dstep. dstep. eapply dsafe_conseq; [apply HC; exact F1|]. cbn beta.
  intros _ s2 F2. eapply Good_Fr; [exact G|]. eapply Fr_trans; eauto.
Qed.

Lemma dispatch_other E sg s :
  EnvOK E -> sid_is sg "ISA" = false -> sid_is sg "GS" = false ->
  Herr (ds_errh s) -> NodeOK (ds_node s) -> WZ sg (ds_errh s) (ds_node s) -> SelOK (ds_sel s) ->
  dsafe (dispatch_seg E sg) s (fun _ s' => Good s').
Proof.
  intros EO S1 S3 H N W SO. unfold dispatch_seg. cbv zeta. rewrite S1, S3.
  pose proof H as (I & CI & CS & CE).
  pose proof W as (w1 & w2 & w3 & w4 & w5 & w6).
  assert (GZ : sid sg <> Some (l "ST") -> Good s).
  { intros NS. split; [exact H|]. split; [exact N|]. split; [eapply WZ_Zone; eauto | exact SO]. }
  destruct (sid_is sg "IEA") eqn:S2.
  { (* IEA *)
    apply sid_is_true in S2.
    assert (G : Good s) by (apply GZ; rewrite S2; intros X; vm_compute in X; discriminate X).
    apply (close_pattern (fun i src => DCloseIsa i {| xg_d := de_d E; xg_s := sg |} src)); [exact G|].
    intros i src s1 F1. pose proof F1 as (I1 & (m1 & _) & _).
    eapply dsafe_call; [apply (close_isa_loop_safe src _ I1 (m1 CI))|]. cbn beta. auto. }
  destruct (sid_is sg "BHT") eqn:S4.
  { (* BHT *)
    apply sid_is_true in S4.
    assert (G : Good s) by (apply GZ; rewrite S4; intros X; vm_compute in X; discriminate X).
    destruct (w6 S4) as [BS BG].
    assert (CG : Errh.c_gs (ds_errh s) <> None) by (apply w1; exact BG).
    assert (CT : Errh.c_st (ds_errh s) <> None).
    { destruct (w2 BS) as [X|X]; [exact X|]. rewrite S4 in X. vm_compute in X. discriminate X. }
    dstep. dstep. dstep.
    apply (dsafe_conseq _ _ (fun _ s1 => Good s1)).
    2:{ intros _ s1 G1. pose proof G1 as ((I1 & CI1 & _) & N1 & _).
        dstep. eapply dsafe_conseq; [apply add_cur_seg_safe; assumption|]. cbn beta.
        intros _ s2 [F2 _]. pose proof F2 as (I2 & (m1 & _) & _).
        eapply dsafe_conseq; [apply handle_popped_safe; [exact I2 | left; exact (m1 CI1)]|]. cbn beta.
        intros _ s3 F3. eapply Good_Fr; [exact G1|]. eapply Fr_trans; eauto. }
    destruct (_ || _); [|dstep; exact G].
    dstep. apply dsafe_lift_gv; [apply gv_BHT02|]. intros tspc.
    destruct (negb _); [|dstep; exact G].
    dstep. eapply dsafe_conseq; [apply switch_map_safe; exact EO|]. cbn beta.
    intros mp s1 (E1 & N1 & C1 & MO).
    destruct (map_ok_paths _ MO) as (_ & _ & PB).
    dstep. apply dsafe_lift. destruct (getnode mp "/ISA_LOOP/GS_LOOP/ST_LOOP/HEADER/BHT") as [r|e]; [|exact PB].
    destruct PB as [FO PB].
    dstep. unfold Good. cbn [ds_errh ds_node ds_sel with_node fst snd]. rewrite E1.
    split; [exact H|]. split; [split; [exact FO | apply bht_good_parts; exact PB]|].
    split; [split; intros _; assumption|]. intros mp' Hmp. congruence. }
  destruct (sid_is sg "GE") eqn:S5.
  { apply sid_is_true in S5.
    assert (G : Good s) by (apply GZ; rewrite S5; intros X; vm_compute in X; discriminate X).
    apply (close_pattern (fun i src => DCloseGs i {| xg_d := de_d E; xg_s := sg |} src)); [exact G|].
    intros i src s1 F1. pose proof F1 as (I1 & (_ & m2 & _) & _).
    eapply dsafe_call; [apply (close_gs_loop_safe _ src _ I1 (m2 (w3 S5)))|]. cbn beta. auto. }
  destruct (sid_is sg "ST") eqn:S6.
  { (* ST *)
    apply sid_is_true in S6. dstep. dstep. dstep.
    eapply dsafe_call; [apply (add_st_loop_safe _ _ _ I (src_line_some _) (w5 S6))|]. cbn beta.
    intros s1 F1 [CT1 CS1]. pose proof F1 as (I1 & (m1 & m2 & _) & _).
    eapply dsafe_conseq; [apply handle_popped_safe; [exact I1 | left; exact (m1 CI)]|]. cbn beta.
    intros _ s2 F2. pose proof (Fr_trans _ _ _ F1 F2) as F.
    split; [eapply Herr_Fr; eauto|]. destruct F as (_ & (n1 & n2 & n3 & n4 & n5) & EN & ES). rewrite EN.
    split; [exact N|]. split.
    - split; [intros A; apply n2, w1, A|]. intros _. destruct F2 as (_ & (_ & _ & k3 & _) & _). apply k3. exact CT1.
    - unfold SelOK. rewrite ES. exact SO. }
  apply sid_is_false in S6.
  destruct (sid_is sg "SE") eqn:S7.
  { apply sid_is_true in S7.
    apply (close_pattern (fun i src => DCloseSt i {| xg_d := de_d E; xg_s := sg |} src)); [exact (GZ S6)|].
    intros i src s1 F1. pose proof F1 as (I1 & (_ & _ & m3 & _) & _).
    eapply dsafe_call; [apply (close_st_loop_safe src _ I1 (m3 (w4 S7)))|]. cbn beta. auto. }
  (* any other segment *)
  pose proof (GZ S6) as G.
  dstep. eapply dsafe_conseq; [apply add_cur_seg_safe; assumption|]. cbn beta.
  intros _ s2 [F2 _]. pose proof F2 as (I2 & (m1 & _) & _).
  eapply dsafe_conseq; [apply handle_popped_safe; [exact I2 | left; exact (m1 CI)]|]. cbn beta.
  intros _ s3 F3. eapply Good_Fr; [exact G|]. eapply Fr_trans; eauto.
Qed.

(* ------------------------------------------------------------------ *)
(* one segment                                                          *)

Lemma validate_good E sg s : Good s -> dsafe (validate E sg) s (fun _ s' => Good s').
Proof.
  intros G. pose proof G as ((I & _ & CS & CE) & N & _).
  eapply dsafe_conseq; [apply validate_safe; [exact N | exact I | exact CS | left; exact CE]|]. cbn beta.
  intros _ s1 [F1 _]. eapply Good_Fr; eauto.
Qed.

Lemma step_isa E sg s :
  EnvOK E -> sid_is sg "ISA" = true -> length (els sg) = 16 ->
  HInv (ds_errh s) -> SelOK (ds_sel s) ->
  dsafe (step E sg) s (fun _ s' => Good s').
Proof.
  intros EO S L I SO. unfold step. dstep.
  eapply dsafe_conseq; [apply find_node_isa; assumption|]. cbn beta.
  intros found s1 (-> & E1 & _ & ES1 & r & N1 & IG). dstep.
  assert (I1 : HInv (ds_errh s1)) by (rewrite E1; exact I).
  eapply dsafe_conseq; [apply dispatch_isa; assumption|]. cbn beta.
  intros _ s2 (F2 & CI2 & CS2). pose proof F2 as (I2 & _ & N2 & C2).
  destruct (isa_good_parts _ _ IG) as (sn & e0 & Hsn & NG & NS & _).
  assert (NO : NodeOK (ds_node s2)).
  { rewrite N2, N1. split; [exact (eo_cm E EO) | exists sn; exact Hsn]. }
  eapply dsafe_conseq; [apply validate_safe; [exact NO | exact I2 | exact CS2 |]|].
  { right. rewrite N2, N1. split; [exact IG | exact L]. }
  cbn beta. intros _ s3 (F3 & CE3). pose proof F3 as (I3 & (m1 & _ & _ & m4 & _) & N3 & C3).
  split; [split; [exact I3|]; auto|]. rewrite N3. split; [exact NO|]. split.
  - rewrite N2, N1. unfold Zone. cbn [fst snd]. split; intros A; congruence.
  - unfold SelOK. rewrite C3, C2, ES1. exact SO.
Qed.

Lemma sid_gs_not_iea sg : sid_is sg "GS" = true -> sid_is sg "IEA" = false.
Proof. intros H. apply sid_is_true in H. unfold sid_is. rewrite H. vm_compute. reflexivity. Qed.

Lemma step_good E sg s :
  EnvOK E -> (sid_is sg "ISA" = true -> length (els sg) = 16) -> Good s ->
  dsafe (step E sg) s (fun _ s' => Good s').
Proof.
  intros EO L G. pose proof G as (H & N & Z & SO).
  destruct (sid_is sg "ISA") eqn:S1.
  { apply step_isa; auto. exact (proj1 H). }
  unfold step. dstep.
  destruct (sid_is sg "GS") eqn:S2.
  - eapply dsafe_conseq; [apply find_node_gs; assumption|]. cbn beta.
    intros found s1 (-> & E1 & _ & ES1). dstep.
    eapply dsafe_conseq; [apply dispatch_gs; try assumption|].
    + apply sid_gs_not_iea; exact S2.
    + rewrite E1; exact H.
    + rewrite ES1; exact SO.
    + cbn beta. intros _ s2 G2. apply validate_good; exact G2.
  - eapply dsafe_conseq; [apply find_node_walk; assumption|]. cbn beta.
    intros [|] s1 P.
    + destruct P as (H1 & N1 & W1 & SO1). dstep.
      eapply dsafe_conseq; [apply dispatch_other; assumption|]. cbn beta.
      intros _ s2 G2. apply validate_good; exact G2.
    + pose proof P as ((I1 & CI1 & _) & _).
      eapply dsafe_conseq; [apply handle_popped_safe; [exact I1 | left; exact CI1]|]. cbn beta.
      intros _ s2 F2. eapply Good_Fr; eauto.
Qed.

(* ------------------------------------------------------------------ *)
(* the loop over the lines                                              *)

Lemma reader_isa16 d x ln x' sg es :
  reader_line_opt d x ln = Ok (x', Some sg, es) -> sid_is sg "ISA" = true -> length (els sg) = 16.
Proof.
  intros H S. unfold reader_line_opt in H. destruct (_ && _); [discriminate|].
  unfold reader_line in H. cbv zeta in H.
  match type of H with context [reader_step d x ?p] => set (s0 := p) in H end.
  destruct (reader_step d x s0) as [[x1 e3]|e] eqn:RS; cbn [bind] in H; [|discriminate].
  injection H as <- <- <-.
  unfold reader_step in RS. destruct (base_step d x s0) as [r|e] eqn:BS; cbn [bind] in RS; [|discriminate].
  unfold base_step in BS. cbv zeta in BS. rewrite S in BS.
  destruct (negb (length (els s0) =? 16)) eqn:L; [discriminate|].
  apply negb_false_iff, Nat.eqb_eq in L. exact L.
Qed.

Lemma reader_line_opt_raise d x ln e : reader_line_opt d x ln = Raise e -> e = X12Error.
Proof.
  unfold reader_line_opt. destruct (_ && _); [discriminate|].
  unfold reader_line. cbv zeta.
  match goal with |- context [reader_step d x ?p] => set (s0 := p) end.
  destruct (reader_step d x s0) as [[x1 e3]|e'] eqn:RS; cbn [bind]; [discriminate|].
  intros H. injection H as <-. eapply reader_raise; eauto.
Qed.

Lemma run_lines_good E : EnvOK E -> forall lines s, Good s -> dsafe (run_lines E lines) s (fun _ s' => Good s').
Proof.
  intros EO. induction lines as [|ln rest IH]; intros s G; cbn [run_lines].
  - dstep. exact G.
  - dstep. dstep. dstep. apply dsafe_lift.
    destruct (reader_line_opt (de_d E) (ds_x s) ln) as [[[x' os] es]|e] eqn:RL.
    2:{ apply reader_line_opt_raise in RL. subst e. reflexivity. }
    dstep. dstep.
    set (s1 := with_pending _ _).
    assert (G1 : Good s1) by exact G.
    dstep. destruct os as [sg|].
    + eapply dsafe_conseq; [apply step_good; [exact EO | | exact G1]|].
      * intros S. eapply reader_isa16; eauto.
      * cbn beta. intros _ s2 G2. apply IH. exact G2.
    + dstep. apply IH. exact G1.
Qed.

Lemma finish_safe s :
  HInv (ds_errh s) -> (Errh.c_isa (ds_errh s) <> None \/ (ds_pending s = [] /\ ds_x s = x_init)) ->
  dsafe finish s (fun _ _ => True).
Proof.
  intros I C. unfold finish. dstep. dstep. dstep.
  set (s1 := with_pending _ _).
  eapply dsafe_conseq; [apply (handle_popped_safe s1); [exact I|]|].
  - destruct C as [C | [P X]]; [left; exact C | right]. cbn [s1 ds_pending with_pending]. rewrite P, X. reflexivity.
  - cbn beta. intros _ s2 _. dstep. dstep. dstep. exact Logic.I.
Qed.

(* ------------------------------------------------------------------ *)
(* the theorem                                                          *)

Theorem driver_total : driver_total_stmt.
Proof.
  unfold driver_total_stmt. intros load idx text (EL & ER & EI) FI. unfold run_document_gen.
  destruct (header_ok text) eqn:HO.
  2:{ rewrite (raw_rejects text [] HO). exact Logic.I. }
  destruct (raw_chunk_independent text [] HO) as (r & RA & _).
  specialize (FI _ _ RA). rewrite RA. cbv zeta.
  set (lines := raw_spec _ _) in *.
  destruct (load (control_name (r_icvn r))) as [cm|e] eqn:LC; cbn [bind].
  2:{ exact (ER _ _ LC). }
  destruct idx as [ix|e] eqn:EX; cbn [bind].
  2:{ exact (EI e eq_refl). }
  destruct (map_ok_paths _ (EL _ _ LC)) as (PI & _).
  destruct (getnode cm "/ISA_LOOP/ISA") as [n0|e]; cbn [bind]; [|exact PI].
  destruct PI as [MC _].
  set (E := {| de_load := load; de_idx := ix; de_cm := cm; de_d := delims_of r |}).
  set (s0 := Build_dstate _ _ _ _ _ _ _ _).
  assert (EO : EnvOK E) by (constructor; [exact EL | exact ER | exact MC]).
  assert (I0 : HInv (ds_errh s0)) by exact HInv_init.
  assert (SO0 : SelOK (ds_sel s0)) by (intros mp Hmp; discriminate Hmp).
  assert (X : dsafe (dod_ run_lines E lines; finish) s0 (fun _ _ => True)).
  { dstep. destruct lines as [|ln rest].
    - cbn [run_lines]. dstep. apply finish_safe; [exact I0 | right; split; reflexivity].
    - cbn [run_lines]. dstep. dstep. dstep. apply dsafe_lift.
      destruct (reader_line_opt (de_d E) (ds_x s0) ln) as [[[x' os] es]|e] eqn:RL.
      2:{ apply reader_line_opt_raise in RL. subst e. reflexivity. }
      destruct (FI _ _ _ _ RL) as (sg & -> & SI).
      dstep. dstep. dstep.
      eapply dsafe_conseq; [apply step_isa; [exact EO | exact SI | eapply reader_isa16; eauto | exact I0 | exact SO0]|].
      cbn beta. intros _ s1 G1.
      eapply dsafe_conseq; [apply run_lines_good; [exact EO | exact G1]|]. cbn beta.
      intros _ s2 G2. destruct G2 as ((I2 & C2 & _) & _). apply finish_safe; [exact I2 | left; exact C2]. }
  unfold dsafe in X.
  destruct ((dod_ run_lines E lines; finish) s0) as [s1 [b|e]]; cbn [snd]; [exact Logic.I | exact X].
Qed.

(* the same with the computable condition on the delimiters (Proofs/C07_text.v) *)
From PX.Proofs Require Import C07_text.

Theorem driver_total_plain :
  forall load idx text,
    env_ok load idx -> plain_delims text = true ->
    match snd (run_document_gen load idx text) with Ok _ => True | Raise e => allowed e = true end.
Proof.
  intros load idx text EO P. apply driver_total; [exact EO | apply plain_delims_first_isa; exact P].
Qed.

Print Assumptions driver_total.
Print Assumptions driver_total_plain.
