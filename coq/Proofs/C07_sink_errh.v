(* C07_sink_errh.v — every call on the error handler (Model/Errh.v) that returns keeps the structural
   invariant H2 of the heap (Proofs/C07_sink_defs.v) and only extends the tree (ext). *)
From Coq Require Import String.
From PX.Lib Require Import Base PyStr PyInt.
From PX.Model Require Driver.
From PX.Model Require Import Path Segment Errh.
From PX.Proofs Require Import C07_errh C07_sink_defs.
Import Driver.
Import Errh.

(* ------------------------------------------------------------------ *)
(* lists                                                                *)

Lemma nth_upd {A} (f : A -> A) : forall xs i j,
  nth_error (upd_nth xs i f) j = if j =? i then option_map f (nth_error xs j) else nth_error xs j.
Proof.
  induction xs as [|x xs IH]; intros [|i] [|j]; cbn [upd_nth nth_error Nat.eqb option_map]; auto;
    match goal with |- context [if ?b then _ else _] => destruct b; reflexivity end.
Qed.

Lemma nth_upd_inv {A} (f : A -> A) xs i j n' :
  nth_error (upd_nth xs i f) j = Some n' ->
  exists n, nth_error xs j = Some n /\ ((j <> i /\ n' = n) \/ (j = i /\ n' = f n)).
Proof.
  rewrite nth_upd. destruct (j =? i) eqn:E.
  - apply Nat.eqb_eq in E. destruct (nth_error xs j) as [n|]; cbn [option_map]; intros H; [|discriminate].
    injection H as H. exists n. split; [reflexivity|]. right. split; congruence.
  - apply Nat.eqb_neq in E. intros H. exists n'. split; [exact H|]. left. split; [exact E | reflexivity].
Qed.

Lemma nth_upd_fwd {A} (f : A -> A) xs i j n :
  nth_error xs j = Some n -> exists n', nth_error (upd_nth xs i f) j = Some n' /\ (n' = n \/ n' = f n).
Proof.
  intros H. rewrite nth_upd, H. destruct (j =? i); cbn [option_map]; timeout 20 eauto.
Qed.

Lemma nth_snoc_inv {A} (xs : list A) a j n :
  nth_error (xs ++ [a]) j = Some n -> nth_error xs j = Some n \/ (j = length xs /\ n = a).
Proof.
  intros H. destruct (Nat.lt_ge_cases j (length xs)) as [L|L].
  - rewrite nth_error_app1 in H by exact L. left. exact H.
  - rewrite nth_error_app2 in H by exact L. right.
    destruct (j - length xs) as [|d] eqn:D; cbn [nth_error] in H.
    + split; [lia | congruence].
    + destruct d; discriminate.
Qed.

Lemma nth_snoc_fwd {A} (xs : list A) a j n : nth_error xs j = Some n -> nth_error (xs ++ [a]) j = Some n.
Proof.
  intros H. rewrite nth_error_app1; [exact H|]. apply nth_error_Some. congruence.
Qed.

Lemma Forall_lt_mono k k' xs : k <= k' -> Forall (fun x => x < k) xs -> Forall (fun x => x < k') xs.
Proof. intros L. apply Forall_impl. intros; lia. Qed.

Lemma incr_snoc xs k : incr xs -> Forall (fun x => x < k) xs -> incr (xs ++ [k]).
Proof.
  induction xs as [|x xs IH]; cbn [incr app]; intros I F.
  - split; [constructor | exact Logic.I].
  - destruct I as [I1 I2]. inversion F; subst. split.
    + apply Forall_snoc; assumption.
    + apply IH; assumption.
Qed.

Lemma incr_snoc_iff xs k : incr (xs ++ [k]) <-> incr xs /\ Forall (fun x => x < k) xs.
Proof.
  split; [|intros [A B]; apply incr_snoc; assumption].
  induction xs as [|x xs IH]; cbn [incr app]; intros I.
  - split; [exact Logic.I | constructor].
  - destruct I as [I1 I2]. apply Forall_app in I1. destruct I1 as [I1 I3]. inversion I3; subst.
    destruct (IH I2) as [J1 J2]. split; [split; assumption | constructor; assumption].
Qed.

(* ------------------------------------------------------------------ *)
(* one heap, one list-valued field                                      *)

Section Field.
  Context {A : Type} (ch : A -> list nat).

  Definition chk (b : nat) (xs : list A) : Prop :=
    forall i n, nth_error xs i = Some n -> incr (ch n) /\ idx_ok b (ch n).
  Definition ltk (b : nat) (xs : list A) : Prop :=
    forall i n, nth_error xs i = Some n -> Forall (fun x => x < b) (ch n).
  Definition park (xs : list A) : Prop :=
    forall p p' n n' g, nth_error xs p = Some n -> nth_error xs p' = Some n' ->
                        In g (ch n) -> In g (ch n') -> p = p'.
  Definition extk (xs xs' : list A) : Prop :=
    forall i n, nth_error xs i = Some n -> exists n', nth_error xs' i = Some n' /\ incl (ch n) (ch n').

  Lemma extk_refl xs : extk xs xs.
  Proof. intros i n H. exists n. split; [exact H | apply incl_refl]. Qed.

  Lemma extk_trans a b c : extk a b -> extk b c -> extk a c.
  Proof.
    intros X Y i n H. destruct (X i n H) as (n1 & H1 & I1). destruct (Y i n1 H1) as (n2 & H2 & I2).
    exists n2. split; [exact H2 | eapply incl_tran; eassumption].
  Qed.

  Lemma chk_mono b b' xs : b <= b' -> chk b xs -> chk b' xs.
  Proof. intros L C i n H. destruct (C i n H) as [C1 C2]. split; [exact C1 | eapply Forall_lt_mono; eassumption]. Qed.

  Lemma ltk_mono b b' xs : b <= b' -> ltk b xs -> ltk b' xs.
  Proof. intros L C i n H. eapply Forall_lt_mono; [exact L | exact (C i n H)]. Qed.

  Lemma chk_ltk b xs : chk b xs -> ltk b xs.
  Proof. intros C i n H. exact (proj2 (C i n H)). Qed.

  (* ---- an update that keeps the field ---- *)
  Section Same.
    Context (f : A -> A) (Hf : forall a, ch (f a) = ch a).

    Lemma same_inv xs i j n' :
      nth_error (upd_nth xs i f) j = Some n' -> exists n, nth_error xs j = Some n /\ ch n' = ch n.
    Proof.
      intros H. destruct (nth_upd_inv f xs i j n' H) as (n & E & [[_ ->]|[_ ->]]); exists n; auto.
    Qed.

    Lemma chk_same b xs i : chk b xs -> chk b (upd_nth xs i f).
    Proof. intros C j n' H. destruct (same_inv _ _ _ _ H) as (n & E & ->). exact (C j n E). Qed.

    Lemma ltk_same b xs i : ltk b xs -> ltk b (upd_nth xs i f).
    Proof. intros C j n' H. destruct (same_inv _ _ _ _ H) as (n & E & ->). exact (C j n E). Qed.

    Lemma park_same xs i : park xs -> park (upd_nth xs i f).
    Proof.
      intros C p p' n n' g H H' I I'.
      destruct (same_inv _ _ _ _ H) as (m & E & Q). destruct (same_inv _ _ _ _ H') as (m' & E' & Q').
      rewrite Q in I. rewrite Q' in I'. exact (C p p' m m' g E E' I I').
    Qed.

    Lemma extk_same xs i : extk xs (upd_nth xs i f).
    Proof.
      intros j n H. destruct (nth_upd_fwd f xs i j n H) as (n' & E & [->| ->]); eexists;
        (split; [exact E|]); [|rewrite Hf]; apply incl_refl.
    Qed.
  End Same.

  (* ---- a new node with an empty field ---- *)
  Section Snoc.
    Context (a : A) (Ha : ch a = []).

    Lemma snoc_inv xs j n' : nth_error (xs ++ [a]) j = Some n' -> nth_error xs j = Some n' \/ (j = length xs /\ ch n' = []).
    Proof. intros H. destruct (nth_snoc_inv _ _ _ _ H) as [E|[E ->]]; auto. Qed.

    Lemma chk_snoc b xs : chk b xs -> chk b (xs ++ [a]).
    Proof.
      intros C j n' H. destruct (snoc_inv _ _ _ H) as [E|[_ E]]; [exact (C j n' E)|].
      rewrite E. split; [exact Logic.I | constructor].
    Qed.

    Lemma ltk_snoc b xs : ltk b xs -> ltk b (xs ++ [a]).
    Proof.
      intros C j n' H. destruct (snoc_inv _ _ _ H) as [E|[_ E]]; [exact (C j n' E)|].
      rewrite E. constructor.
    Qed.

    Lemma park_snoc xs : park xs -> park (xs ++ [a]).
    Proof.
      intros C p p' n n' g H H' I I'.
      destruct (snoc_inv _ _ _ H) as [E|[_ E]]; [|rewrite E in I; destruct I].
      destruct (snoc_inv _ _ _ H') as [E'|[_ E']]; [|rewrite E' in I'; destruct I'].
      exact (C p p' n n' g E E' I I').
    Qed.
  End Snoc.

  Lemma extk_snoc xs a : extk xs (xs ++ [a]).
  Proof. intros j n H. exists n. split; [apply nth_snoc_fwd; exact H | apply incl_refl]. Qed.

  (* ---- an update that appends one index to the field ---- *)
  Section Attach.
    Context (f : A -> A) (id : nat) (Hf : forall a, ch (f a) = ch a ++ [id]).

    Lemma attach_inv xs i j n' :
      nth_error (upd_nth xs i f) j = Some n' ->
      exists n, nth_error xs j = Some n /\ ((j <> i /\ ch n' = ch n) \/ (j = i /\ ch n' = ch n ++ [id])).
    Proof.
      intros H. destruct (nth_upd_inv f xs i j n' H) as (n & E & [[N ->]|[N ->]]); exists n; auto.
    Qed.

    Lemma ltk_attach b xs i : id < b -> ltk b xs -> ltk b (upd_nth xs i f).
    Proof.
      intros L C j n' H. destruct (attach_inv _ _ _ _ H) as (n & E & [[_ ->]|[_ ->]]); [exact (C j n E)|].
      apply Forall_snoc; [exact (C j n E) | exact L].
    Qed.

    Lemma chk_attach b xs i : id < b -> ltk id xs -> chk b xs -> chk b (upd_nth xs i f).
    Proof.
      intros L F C j n' H. destruct (attach_inv _ _ _ _ H) as (n & E & [[_ ->]|[_ ->]]); [exact (C j n E)|].
      destruct (C j n E) as [C1 C2]. split.
      - apply incr_snoc; [exact C1 | exact (F j n E)].
      - apply Forall_snoc; [exact C2 | exact L].
    Qed.

    Lemma park_attach xs i : ltk id xs -> park xs -> park (upd_nth xs i f).
    Proof.
      intros F C p p' n n' g H H' I I'.
      destruct (attach_inv _ _ _ _ H) as (m & E & [[N Q]|[N Q]]);
        destruct (attach_inv _ _ _ _ H') as (m' & E' & [[N' Q']|[N' Q']]);
        rewrite Q in I; rewrite Q' in I'; try apply in_app_or in I; try apply in_app_or in I'.
      - exact (C p p' m m' g E E' I I').
      - destruct I' as [I'|[<-|[]]]; [exact (C p p' m m' g E E' I I')|].
        pose proof (F p m E) as G. rewrite Forall_forall in G. specialize (G _ I). lia.
      - destruct I as [I|[<-|[]]]; [exact (C p p' m m' g E E' I I')|].
        pose proof (F p' m' E') as G. rewrite Forall_forall in G. specialize (G _ I'). lia.
      - congruence.
    Qed.

    Lemma extk_attach xs i : extk xs (upd_nth xs i f).
    Proof.
      intros j n H. destruct (nth_upd_fwd f xs i j n H) as (n' & E & [->| ->]); eexists;
        (split; [exact E|]); [apply incl_refl | rewrite Hf; apply incl_appl, incl_refl].
    Qed.
  End Attach.
End Field.

(* ------------------------------------------------------------------ *)
(* ext                                                                  *)

Lemma ext_refl h : ext h h.
Proof. constructor; apply extk_refl. Qed.

Lemma ext_trans a b c : ext a b -> ext b c -> ext a c.
Proof.
  intros [X1 X2 X3] [Y1 Y2 Y3]. constructor.
  - exact (extk_trans in_children _ _ _ X1 Y1).
  - exact (extk_trans gn_children _ _ _ X2 Y2).
  - exact (extk_trans tn_children _ _ _ X3 Y3).
Qed.

Lemma H2_init : H2 errh_init.
Proof.
  constructor; cbn; intros; try discriminate;
    match goal with H : nth_error [] ?i = Some _ |- _ => destruct i; discriminate H end.
Qed.

Lemma chain h a b : H2 a /\ ext h a -> (H2 a -> H2 b /\ ext a b) -> H2 b /\ ext h b.
Proof.
  intros [Ha Xa] F. destruct (F Ha) as [Hb Xb]. split; [exact Hb | eapply ext_trans; eassumption].
Qed.

(* ------------------------------------------------------------------ *)
(* replacing one heap / the cursors                                     *)

Ltac proj_cbn :=
  cbn [h_isa h_gs h_st h_seg h_ele c_isa c_gs c_st c_seg seg_added c_ele ele_added
       set_heaps set_h_isa set_h_gs set_h_st set_h_seg set_h_ele set_cursors set_cur_seg ref_valid].

Ltac proj_cbn_in H :=
  cbn [h_isa h_gs h_st h_seg h_ele c_isa c_gs c_st c_seg seg_added c_ele ele_added
       set_heaps set_h_isa set_h_gs set_h_st set_h_seg set_h_ele set_cursors set_cur_seg ref_valid] in H.

Ltac rfin :=
  first
    [ assumption
    | apply extk_refl
    | eapply chk_mono; [|eassumption]; lia
    | eapply ltk_mono; [|eassumption]; lia
    | let i := fresh "i" in let Hi := fresh "Hi" in
      intros i Hi;
      match goal with H : forall j, _ = Some j -> _ |- _ => specialize (H i Hi); proj_cbn_in H; lia end
    | let r := fresh "r" in let Hr := fresh "Hr" in
      intros r Hr;
      match goal with H : forall j, _ = Some j -> ref_valid _ j |- _ =>
        specialize (H r Hr); destruct r; proj_cbn_in H; proj_cbn; lia end ].

Lemma R_isa h xs' :
  H2 h -> length (h_isa h) <= length xs' ->
  chk in_children (length (h_gs h)) xs' -> ltk in_elements (length (h_ele h)) xs' ->
  park in_children xs' -> extk in_children (h_isa h) xs' ->
  H2 (set_h_isa h xs') /\ ext h (set_h_isa h xs').
Proof.
  intros [A1 A2 A3 B1 B2 B3 B4 P1 P2 P3 C1 C2 C3 C4 C5 F] L C E P X.
  split; constructor; proj_cbn; rfin.
Qed.

Lemma R_gs h xs' :
  H2 h -> length (h_gs h) <= length xs' ->
  chk gn_children (length (h_st h)) xs' -> ltk gn_elements (length (h_ele h)) xs' ->
  park gn_children xs' -> extk gn_children (h_gs h) xs' ->
  H2 (set_h_gs h xs') /\ ext h (set_h_gs h xs').
Proof.
  intros [A1 A2 A3 B1 B2 B3 B4 P1 P2 P3 C1 C2 C3 C4 C5 F] L C E P X.
  split; constructor; proj_cbn; rfin.
Qed.

Lemma R_st h xs' :
  H2 h -> length (h_st h) <= length xs' ->
  chk tn_children (length (h_seg h)) xs' -> ltk tn_elements (length (h_ele h)) xs' ->
  park tn_children xs' -> extk tn_children (h_st h) xs' ->
  (seg_added h = false -> forall k, c_seg h = Some (NSeg k) -> ltk tn_children k xs') ->
  H2 (set_h_st h xs') /\ ext h (set_h_st h xs').
Proof.
  intros [A1 A2 A3 B1 B2 B3 B4 P1 P2 P3 C1 C2 C3 C4 C5 F] L C E P X F'.
  split; constructor; proj_cbn; rfin.
Qed.

Lemma R_seg h xs' :
  H2 h -> length (h_seg h) <= length xs' -> ltk sn_elements (length (h_ele h)) xs' ->
  H2 (set_h_seg h xs') /\ ext h (set_h_seg h xs').
Proof.
  intros [A1 A2 A3 B1 B2 B3 B4 P1 P2 P3 C1 C2 C3 C4 C5 F] L E.
  split; constructor; proj_cbn; rfin.
Qed.

Lemma R_ele h xs' :
  H2 h -> length (h_ele h) <= length xs' -> H2 (set_h_ele h xs') /\ ext h (set_h_ele h xs').
Proof.
  intros [A1 A2 A3 B1 B2 B3 B4 P1 P2 P3 C1 C2 C3 C4 C5 F] L.
  split; constructor; proj_cbn; rfin.
Qed.

Lemma R_cur h ci cg ct cs sa ce ea :
  H2 h ->
  (forall i, ci = Some i -> i < length (h_isa h)) ->
  (forall i, cg = Some i -> i < length (h_gs h)) ->
  (forall i, ct = Some i -> i < length (h_st h)) ->
  (forall r, cs = Some r -> ref_valid h r) ->
  (forall e, ce = Some e -> e < length (h_ele h)) ->
  (sa = false -> forall k, cs = Some (NSeg k) -> ltk tn_children k (h_st h)) ->
  H2 (set_cursors h ci cg ct cs sa ce ea) /\ ext h (set_cursors h ci cg ct cs sa ce ea).
Proof.
  intros [A1 A2 A3 B1 B2 B3 B4 P1 P2 P3 C1 C2 C3 C4 C5 F] D1 D2 D3 D4 D5 F'.
  split; constructor; proj_cbn; rfin.
Qed.

(* ------------------------------------------------------------------ *)
(* the constructors make nodes without children / elements              *)

Ltac mk_inv H :=
  repeat match type of H with
         | bind ?r _ = Ok _ => destruct r; cbn [bind] in H; [|discriminate H]
         end;
  injection H as H; subst; cbn; auto.

Lemma mk_isa_empty x src n : mk_isa x src = Ok n -> in_children n = [] /\ in_elements n = [].
Proof. unfold mk_isa. intros H. mk_inv H. Qed.

Lemma mk_gs_empty x src n : mk_gs x src = Ok n -> gn_children n = [] /\ gn_elements n = [].
Proof. unfold mk_gs. intros H. mk_inv H. Qed.

Lemma mk_st_empty x src n : mk_st x src = Ok n -> tn_children n = [] /\ tn_elements n = [].
Proof. unfold mk_st. intros H. mk_inv H. Qed.

(* reading the line of a node does not change the state *)
Lemma node_cur_line_st r h h' x : node_cur_line r h = (h', x) -> h' = h.
Proof.
  destruct r as [i|i|i|i];
    cbv [node_cur_line get_isa get_gs get_st get_seg se_bind se_get heap_get se_lift se_ret];
    match goal with |- context [nth_error ?xs ?i] => destruct (nth_error xs i) end; congruence.
Qed.

Ltac ok_inv E := injection E as E; subst.
Ltac len := proj_cbn; autorewrite with hlen; cbn [length]; lia.

(* ------------------------------------------------------------------ *)
(* the operations                                                       *)

(* side conditions on cursors: I is the invariant of a state whose cursors are used *)
Ltac norm_in H := proj_cbn_in H; autorewrite with hlen in H; cbn [length] in H.
Ltac cside I :=
  let i := fresh "i" in let Hi := fresh "Hi" in
  intros i Hi; inj_some;
  first
    [ discriminate
    | len
    | pose proof (h2_cisa _ I _ Hi) as Hi'; norm_in Hi'; len
    | pose proof (h2_cgs _ I _ Hi) as Hi'; norm_in Hi'; len
    | pose proof (h2_cst _ I _ Hi) as Hi'; norm_in Hi'; len
    | pose proof (h2_cele _ I _ Hi) as Hi'; norm_in Hi'; len
    | pose proof (h2_cseg _ I _ Hi) as Hi'; destruct i; norm_in Hi'; len ].

(* ---- updates that keep children and elements ---- *)
Lemma U_isa h i f :
  (forall a, in_children (f a) = in_children a) -> (forall a, in_elements (f a) = in_elements a) ->
  H2 h -> H2 (set_h_isa h (upd_nth (h_isa h) i f)) /\ ext h (set_h_isa h (upd_nth (h_isa h) i f)).
Proof.
  intros F1 F2 I. apply R_isa; [exact I | len | | | | ].
  - apply chk_same; [exact F1 | exact (h2_isa_ch _ I)].
  - apply ltk_same; [exact F2 | exact (h2_isa_el _ I)].
  - apply park_same; [exact F1 | exact (h2_gs_par _ I)].
  - apply extk_same; exact F1.
Qed.

Lemma U_gs h i f :
  (forall a, gn_children (f a) = gn_children a) -> (forall a, gn_elements (f a) = gn_elements a) ->
  H2 h -> H2 (set_h_gs h (upd_nth (h_gs h) i f)) /\ ext h (set_h_gs h (upd_nth (h_gs h) i f)).
Proof.
  intros F1 F2 I. apply R_gs; [exact I | len | | | | ].
  - apply chk_same; [exact F1 | exact (h2_gs_ch _ I)].
  - apply ltk_same; [exact F2 | exact (h2_gs_el _ I)].
  - apply park_same; [exact F1 | exact (h2_st_par _ I)].
  - apply extk_same; exact F1.
Qed.

Lemma U_st h i f :
  (forall a, tn_children (f a) = tn_children a) -> (forall a, tn_elements (f a) = tn_elements a) ->
  H2 h -> H2 (set_h_st h (upd_nth (h_st h) i f)) /\ ext h (set_h_st h (upd_nth (h_st h) i f)).
Proof.
  intros F1 F2 I. apply R_st; [exact I | len | | | | | ].
  - apply chk_same; [exact F1 | exact (h2_st_ch _ I)].
  - apply ltk_same; [exact F2 | exact (h2_st_el _ I)].
  - apply park_same; [exact F1 | exact (h2_seg_par _ I)].
  - apply extk_same; exact F1.
  - intros Ha k Hk. apply ltk_same; [exact F1 | exact (h2_fresh _ I Ha k Hk)].
Qed.

Lemma U_seg h i f :
  (forall a, sn_elements (f a) = sn_elements a) ->
  H2 h -> H2 (set_h_seg h (upd_nth (h_seg h) i f)) /\ ext h (set_h_seg h (upd_nth (h_seg h) i f)).
Proof.
  intros F2 I. apply R_seg; [exact I | len | ].
  apply ltk_same; [exact F2 | exact (h2_seg_el _ I)].
Qed.

Lemma U_ele h i f : H2 h -> H2 (set_h_ele h (upd_nth (h_ele h) i f)) /\ ext h (set_h_ele h (upd_nth (h_ele h) i f)).
Proof. intros I. apply R_ele; [exact I | len]. Qed.

Lemma add_isa_loop_H2 x src h h' : add_isa_loop x src h = (h', Ok tt) -> H2 h -> H2 h' /\ ext h h'.
Proof.
  intros E I. cbv [add_isa_loop se_bind se_lift se_mod] in E.
  destruct (mk_isa x src) as [n|e] eqn:M; [|discriminate E]. ok_inv E.
  destruct (mk_isa_empty _ _ _ M) as [M1 M2].
  eapply chain; cycle 1.
  - intros I1. apply R_cur; [exact I1 | cside I ..].
  - apply R_isa; [exact I | len | | | | ].
    + apply chk_snoc; [exact M1 | exact (h2_isa_ch _ I)].
    + apply ltk_snoc; [exact M2 | exact (h2_isa_el _ I)].
    + apply park_snoc; [exact M1 | exact (h2_gs_par _ I)].
    + apply extk_snoc.
Qed.

Lemma add_gs_loop_H2 x src h h' : add_gs_loop x src h = (h', Ok tt) -> H2 h -> H2 h' /\ ext h h'.
Proof.
  intros E I. cbv [add_gs_loop se_bind se_get deref se_lift se_mod mod_isa] in E.
  destruct (c_isa h) as [p|] eqn:Ep; [|discriminate E].
  destruct (mk_gs x src) as [n|e] eqn:M; [|discriminate E]. ok_inv E.
  destruct (mk_gs_empty _ _ _ M) as [M1 M2].
  eapply chain; cycle 1.
  { intros I2. apply R_cur; [exact I2 | cside I2 ..]. }
  eapply chain; cycle 1.
  { intros I1. apply R_isa; [exact I1 | len | | | | ].
    - apply chk_attach with (id := length (h_gs h)); [intro; reflexivity | len | | exact (h2_isa_ch _ I1)].
      exact (chk_ltk _ _ _ (h2_isa_ch _ I)).
    - apply ltk_same; [intro; reflexivity | exact (h2_isa_el _ I1)].
    - apply park_attach with (id := length (h_gs h)); [intro; reflexivity | | exact (h2_gs_par _ I1)].
      exact (chk_ltk _ _ _ (h2_isa_ch _ I)).
    - apply extk_attach with (id := length (h_gs h)). intro; reflexivity. }
  apply R_gs; [exact I | len | | | | ].
  - apply chk_snoc; [exact M1 | exact (h2_gs_ch _ I)].
  - apply ltk_snoc; [exact M2 | exact (h2_gs_el _ I)].
  - apply park_snoc; [exact M1 | exact (h2_st_par _ I)].
  - apply extk_snoc.
Qed.

Lemma add_st_loop_H2 x src h h' : add_st_loop x src h = (h', Ok tt) -> H2 h -> H2 h' /\ ext h h'.
Proof.
  intros E I. cbv [add_st_loop se_bind se_get deref se_lift se_mod mod_gs] in E.
  destruct (c_gs h) as [p|] eqn:Ep; [|discriminate E].
  destruct (mk_st x src) as [n|e] eqn:M; [|discriminate E]. ok_inv E.
  destruct (mk_st_empty _ _ _ M) as [M1 M2].
  eapply chain; cycle 1.
  { intros I2. apply R_cur; [exact I2 | cside I2 ..]. }
  eapply chain; cycle 1.
  { intros I1. apply R_gs; [exact I1 | len | | | | ].
    - apply chk_attach with (id := length (h_st h)); [intro; reflexivity | len | | exact (h2_gs_ch _ I1)].
      exact (chk_ltk _ _ _ (h2_gs_ch _ I)).
    - apply ltk_same; [intro; reflexivity | exact (h2_gs_el _ I1)].
    - apply park_attach with (id := length (h_st h)); [intro; reflexivity | | exact (h2_st_par _ I1)].
      exact (chk_ltk _ _ _ (h2_gs_ch _ I)).
    - apply extk_attach with (id := length (h_st h)). intro; reflexivity. }
  apply R_st; [exact I | len | | | | | ].
  - apply chk_snoc; [exact M1 | exact (h2_st_ch _ I)].
  - apply ltk_snoc; [exact M2 | exact (h2_st_el _ I)].
  - apply park_snoc; [exact M1 | exact (h2_seg_par _ I)].
  - apply extk_snoc.
  - intros Ha k Hk. apply ltk_snoc; [exact M1 | exact (h2_fresh _ I Ha k Hk)].
Qed.

Lemma add_seg_H2 mn x sc cl ls h h' : add_seg mn x sc cl ls h = (h', Ok tt) -> H2 h -> H2 h' /\ ext h h'.
Proof.
  intros E I. cbv [add_seg se_mod set_cur_seg] in E. ok_inv E.
  eapply chain; cycle 1.
  { intros I1. apply R_cur; [exact I1 | cside I1 .. | ].
    intros _ k Hk. injection Hk as <-. exact (chk_ltk _ _ _ (h2_st_ch _ I)). }
  apply R_seg; [exact I | len | ].
  apply ltk_snoc; [reflexivity | exact (h2_seg_el _ I)].
Qed.

Lemma add_ele_H2 mn h h' : add_ele mn h = (h', Ok tt) -> H2 h -> H2 h' /\ ext h h'.
Proof.
  intros E I. cbv [add_ele se_bind se_get deref se_lift se_mod] in E.
  destruct (c_seg h) as [r|] eqn:Er; [|discriminate E]. ok_inv E. rewrite <- Er.
  eapply chain; cycle 1.
  { intros I1. apply R_cur; [exact I1 | cside I .. | ].
    intros Ha k Hk. exact (h2_fresh _ I Ha k Hk). }
  apply R_ele; [exact I | len].
Qed.

(* _add_cur_seg: whatever it answers (it can raise), the state it leaves is good *)
Lemma add_cur_seg_any h h' r : add_cur_seg h = (h', r) -> H2 h -> H2 h' /\ ext h h'.
Proof.
  intros E I. cbv [add_cur_seg se_bind se_get se_ret mod_st se_mod se_raise set_cur_seg] in E.
  destruct (seg_added h) eqn:Ea.
  { injection E as <- <-. split; [exact I | apply ext_refl]. }
  destruct (c_st h) as [t|] eqn:Et.
  2:{ injection E as <- <-. split; [exact I | apply ext_refl]. }
  destruct (c_seg h) as [[k|k|k|k]|] eqn:Es;
    try (injection E as <- <-; split; [exact I | apply ext_refl]).
  injection E as <- <-.
  pose proof (h2_cseg _ I _ Es) as Lk. cbn [ref_valid] in Lk.
  (* first the flag, then the child: the state in between is good *)
  apply (chain h (set_cursors h (c_isa h) (c_gs h) (c_st h) (c_seg h) true (c_ele h) (ele_added h))).
  { apply R_cur; [exact I | cside I ..]. }
  intros I1.
  refine (R_st (set_cursors h (c_isa h) (c_gs h) (c_st h) (c_seg h) true (c_ele h) (ele_added h))
               (upd_nth (h_st h) t (fun n => st_set_children n (tn_children n ++ [k]))) I1 _ _ _ _ _ _).
  - len.
  - apply chk_attach with (id := k); [intro; reflexivity | exact Lk | | exact (h2_st_ch _ I)].
    exact (h2_fresh _ I Ea k Es).
  - apply ltk_same; [intro; reflexivity | exact (h2_st_el _ I)].
  - apply park_attach with (id := k); [intro; reflexivity | | exact (h2_seg_par _ I)].
    exact (h2_fresh _ I Ea k Es).
  - apply extk_attach with (id := k). intro; reflexivity.
  - intros Ha. discriminate Ha.
Qed.

Lemma add_cur_seg_H2 h h' : add_cur_seg h = (h', Ok tt) -> H2 h -> H2 h' /\ ext h h'.
Proof. apply add_cur_seg_any. Qed.

Lemma append_element_H2 r e h h' :
  append_element r e h = (h', Ok tt) -> H2 h -> e < length (h_ele h) -> H2 h' /\ ext h h'.
Proof.
  intros E I L. destruct r as [i|i|i|i]; cbv [append_element mod_isa mod_gs mod_st mod_seg se_mod] in E; ok_inv E.
  - apply R_isa; [exact I | len | | | | ].
    + apply chk_same; [intro; reflexivity | exact (h2_isa_ch _ I)].
    + apply ltk_attach with (id := e); [intro; reflexivity | exact L | exact (h2_isa_el _ I)].
    + apply park_same; [intro; reflexivity | exact (h2_gs_par _ I)].
    + apply extk_same. intro; reflexivity.
  - apply R_gs; [exact I | len | | | | ].
    + apply chk_same; [intro; reflexivity | exact (h2_gs_ch _ I)].
    + apply ltk_attach with (id := e); [intro; reflexivity | exact L | exact (h2_gs_el _ I)].
    + apply park_same; [intro; reflexivity | exact (h2_st_par _ I)].
    + apply extk_same. intro; reflexivity.
  - apply R_st; [exact I | len | | | | | ].
    + apply chk_same; [intro; reflexivity | exact (h2_st_ch _ I)].
    + apply ltk_attach with (id := e); [intro; reflexivity | exact L | exact (h2_st_el _ I)].
    + apply park_same; [intro; reflexivity | exact (h2_seg_par _ I)].
    + apply extk_same. intro; reflexivity.
    + intros Ha k Hk. apply ltk_same; [intro; reflexivity | exact (h2_fresh _ I Ha k Hk)].
  - apply R_seg; [exact I | len | ].
    apply ltk_attach with (id := e); [intro; reflexivity | exact L | exact (h2_seg_el _ I)].
Qed.

Lemma add_cur_ele_H2 h h' : add_cur_ele h = (h', Ok tt) -> H2 h -> H2 h' /\ ext h h'.
Proof.
  intros E I. cbv [add_cur_ele se_bind se_get deref se_lift se_ret se_raise se_mod] in E.
  destruct (add_cur_seg h) as [h1 [[]|e]] eqn:E1; [|discriminate E].
  destruct (add_cur_seg_any _ _ _ E1 I) as [I1 X1].
  destruct (ele_added h1) as [[|]|] eqn:Ea; cbn [negb] in E; try discriminate E.
  { ok_inv E. split; assumption. }
  destruct (c_seg h1) as [r|] eqn:Er.
  2:{ ok_inv E. split; assumption. }
  destruct (c_ele h1) as [e|] eqn:Ee; [|discriminate E].
  destruct (append_element r e h1) as [h2 [[]|e2]] eqn:E2; [|discriminate E].
  ok_inv E.
  destruct (append_element_H2 _ _ _ _ E2 I1 (h2_cele _ I1 _ Ee)) as [I2 X2].
  apply (chain h h2); [split; [exact I2 | eapply ext_trans; eassumption]|].
  intros _. apply R_cur; [exact I2 | cside I2 .. | exact (h2_fresh _ I2)].
Qed.

Lemma isa_error_H2 c m h h' : isa_error c m h = (h', Ok tt) -> H2 h -> H2 h' /\ ext h h'.
Proof.
  intros E I. cbv [isa_error se_bind se_get deref se_lift get_isa heap_get mod_isa se_mod] in E.
  destruct (c_isa h) as [i|]; [|discriminate E].
  destruct (nth_error (h_isa h) i) as [n|]; [|discriminate E].
  destruct (fmt_i (isa_cur_line n)); [|discriminate E]. ok_inv E.
  apply U_isa; [intro; reflexivity | intro; reflexivity | exact I].
Qed.

Lemma gs_error_H2 c m h h' : gs_error c m h = (h', Ok tt) -> H2 h -> H2 h' /\ ext h h'.
Proof.
  intros E I. cbv [gs_error se_bind se_get deref se_lift get_gs heap_get mod_gs se_mod se_ret] in E.
  destruct (c_gs h) as [i|].
  - destruct (nth_error (h_gs h) i) as [n|]; [|discriminate E].
    destruct (fmt_i (gs_cur_line n)); [|discriminate E]. ok_inv E.
    apply U_gs; [intro; reflexivity | intro; reflexivity | exact I].
  - destruct (c_isa h) as [j|].
    + eapply isa_error_H2; eassumption.
    + ok_inv E. split; [exact I | apply ext_refl].
Qed.

Lemma st_error_H2 c m h h' : st_error c m h = (h', Ok tt) -> H2 h -> H2 h' /\ ext h h'.
Proof.
  intros E I. cbv [st_error se_bind se_get deref se_lift get_st heap_get mod_st se_mod se_ret] in E.
  destruct (c_st h) as [i|].
  - destruct (nth_error (h_st h) i) as [n|]; [|discriminate E].
    destruct (fmt_i (st_cur_line n)); [|discriminate E]. ok_inv E.
    apply U_st; [intro; reflexivity | intro; reflexivity | exact I].
  - destruct (c_isa h) as [j|].
    + eapply isa_error_H2; eassumption.
    + ok_inv E. split; [exact I | apply ext_refl].
Qed.

(* the part of seg_error inside try/except: whatever it answers, the state it leaves is good *)
Definition seg_error_body (cde msg : str) (val : option str) : SE errh unit :=
  dos_ add_cur_seg;
  dos h <- se_get;
  dos r <- deref (c_seg h);
  match r with
  | NSeg k => mod_seg k (fun n => seg_set_errors n (sn_errors n ++ [(cde, msg, val)]))
  | _ => se_raise TypeError
  end.

Lemma seg_error_body_any c m v h h' r : seg_error_body c m v h = (h', r) -> H2 h -> H2 h' /\ ext h h'.
Proof.
  intros E I. cbv [seg_error_body se_bind se_get deref se_lift se_raise mod_seg se_mod] in E.
  destruct (add_cur_seg h) as [h1 [[]|e]] eqn:E1; destruct (add_cur_seg_any _ _ _ E1 I) as [I1 X1].
  2:{ injection E as <- <-. split; assumption. }
  destruct (c_seg h1) as [[k|k|k|k]|]; injection E as <- <-; try (split; assumption).
  apply (chain h h1); [split; assumption|]. intros _.
  apply U_seg; [intro; reflexivity | exact I1].
Qed.

Lemma seg_error_tail_st ln h h' x : seg_error_tail ln h = (h', x) -> h' = h.
Proof.
  cbv [seg_error_tail se_bind se_get se_ret se_lift]. intros E.
  destruct (truthy_Z ln); [congruence|].
  destruct (c_seg h) as [r|]; [|congruence].
  destruct (node_cur_line r h) as [hx [ln'|e]] eqn:EN; apply node_cur_line_st in EN; subst hx; [|congruence].
  destruct (fmt_i ln'); congruence.
Qed.

Lemma seg_error_H2 c m v ln h h' : seg_error c m v ln h = (h', Ok tt) -> H2 h -> H2 h' /\ ext h h'.
Proof.
  intros E I.
  change (seg_error c m v ln) with (dos _ <- se_try (seg_error_body c m v); seg_error_tail ln) in E.
  cbv [se_bind se_try] in E.
  destruct (seg_error_body c m v h) as [h1 [a|e]] eqn:E1;
    destruct (seg_error_body_any _ _ _ _ _ _ E1 I) as [I1 X1];
    apply seg_error_tail_st in E; subst h'; split; assumption.
Qed.

Lemma ele_error_H2 c m bad h h' : ele_error c m bad h = (h', Ok tt) -> H2 h -> H2 h' /\ ext h h'.
Proof.
  intros E I. cbv [ele_error se_bind se_get deref se_lift se_ret mod_ele se_mod] in E.
  destruct (add_cur_ele h) as [h1 [[]|e]] eqn:E1; [|discriminate E].
  destruct (add_cur_ele_H2 _ _ E1 I) as [I1 X1].
  destruct (c_ele h1) as [e|]; [|discriminate E].
  destruct (c_seg h1) as [r|]; [|discriminate E].
  match type of E with context [node_cur_line r ?s] =>
    destruct (node_cur_line r s) as [hx [ln|e']] eqn:EN; [|discriminate E] end.
  apply node_cur_line_st in EN. subst hx.
  destruct (fmt_i ln); [|discriminate E]. ok_inv E.
  apply (chain h h1); [split; assumption|]. intros _. apply U_ele. exact I1.
Qed.

Lemma close_isa_loop_H2 src h h' : close_isa_loop src h = (h', Ok tt) -> H2 h -> H2 h' /\ ext h h'.
Proof.
  intros E I. cbv [close_isa_loop se_bind se_get deref se_lift mod_isa se_mod set_cur_seg] in E.
  destruct (c_isa h) as [i|] eqn:Ei; [|discriminate E]. ok_inv E.
  pose proof (h2_cisa _ I _ Ei) as Li.
  eapply chain; cycle 1.
  { intros I1. apply R_cur; [exact I1 | cside I1 ..]. }
  apply U_isa; [intro; reflexivity | intro; reflexivity | exact I].
Qed.

Lemma close_gs_loop_H2 sd src h h' : close_gs_loop sd src h = (h', Ok tt) -> H2 h -> H2 h' /\ ext h h'.
Proof.
  intros E I. cbv [close_gs_loop se_bind se_get deref se_lift get_gs heap_get mod_gs se_mod set_cur_seg] in E.
  destruct (c_gs h) as [g|] eqn:Eg; [|discriminate E].
  destruct (nth_error (h_gs h) g) as [n|]; [|discriminate E].
  match type of E with context [match ?r with Ok _ => _ | Raise _ => _ end] =>
    destruct r as [z|e]; [|discriminate E] end.
  ok_inv E.
  pose proof (h2_cgs _ I _ Eg) as Lg.
  eapply chain; cycle 1.
  { intros I2. apply R_cur; [exact I2 | cside I2 ..]. }
  eapply chain; cycle 1.
  { intros I1. apply U_gs; [intro; reflexivity | intro; reflexivity | exact I1]. }
  apply U_gs; [intro; reflexivity | intro; reflexivity | exact I].
Qed.

Lemma close_st_loop_H2 src h h' : close_st_loop src h = (h', Ok tt) -> H2 h -> H2 h' /\ ext h h'.
Proof.
  intros E I. cbv [close_st_loop se_bind se_get deref se_lift get_st heap_get mod_st se_mod set_cur_seg] in E.
  destruct (c_st h) as [t|] eqn:Et; [|discriminate E].
  destruct (nth_error (h_st h) t) as [n|]; [|discriminate E]. ok_inv E.
  pose proof (h2_cst _ I _ Et) as Lt.
  eapply chain; cycle 1.
  { intros I1. apply R_cur; [exact I1 | cside I1 ..]. }
  apply U_st; [intro; reflexivity | intro; reflexivity | exact I].
Qed.

(* ------------------------------------------------------------------ *)
Theorem apply_dev_H2 ev h h' : apply_dev ev h = (h', Ok tt) -> H2 h -> H2 h' /\ ext h h'.
Proof.
  intros E I. destruct ev; cbn [apply_dev] in E.
  - eapply add_isa_loop_H2; eassumption.
  - eapply add_gs_loop_H2; eassumption.
  - eapply add_st_loop_H2; eassumption.
  - eapply add_seg_H2; eassumption.
  - eapply add_ele_H2; eassumption.
  - eapply isa_error_H2; eassumption.
  - eapply gs_error_H2; eassumption.
  - eapply st_error_H2; eassumption.
  - eapply seg_error_H2; eassumption.
  - eapply ele_error_H2; eassumption.
  - eapply close_isa_loop_H2; eassumption.
  - eapply close_gs_loop_H2; eassumption.
  - eapply close_st_loop_H2; eassumption.
Qed.

Print Assumptions apply_dev_H2.
