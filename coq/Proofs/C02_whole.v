(* C02_whole.v — C02 composed: Driver.run_document_gen on the text of a conformant document
   (Spec/C02_whole_spec.v: conformant_document) returns Ok true, calls no error method of the handler, and leaves
   an error tree that counts no error, in which every group and every set is accepted.
     whole_core              the run from the initial state, with the final state
     C02_whole_accepted      verdict and trace                       (LAYER (c))
     C02_whole_acknowledged  error count and acknowledgement codes   (LAYER (d), with C05) *)
From Coq Require Import String Lia.
From PX.Lib Require Import Base PyStr PyInt Regex Xml.
From PX.Model Require Import Path Segment Raw Reader Syntax MapLoad MapTree Element Counter Walker MapEnv Driver.
From PX.Model Require Errh.
From PX.Spec Require Import C01_spec C12_spec C12_doc_spec C07_walker_wf C07_valid_wf C07_spec C0203_spec C02_doc_spec
                            C04_spec C05_spec C02_whole_spec.
From PX.Proofs Require Import C01_roundtrip C12_lemmas C12_doc_step C12_doc_run C07_errh C04_reader C05_verdict
                              C02_doc_counter C02_doc
                              C02_whole_errh C02_whole_reader C02_whole_step C02_whole_head C02_whole_walk C02_whole_run.
Import Driver.

Local Definition l (x : string) : str := list_ascii_of_string x.

Lemma Forall_Wr d segs :
  forallb (clean_seg d) segs = true -> forallb id_plain segs = true -> Forall canonical segs -> Forall (Wr d) segs.
Proof.
  intros A B C. apply Forall_forall. intros s Hs. rewrite forallb_forall in A, B. rewrite Forall_forall in C.
  split; [apply A, Hs|]. split; [apply B, Hs | apply C, Hs].
Qed.

Section Whole.
Variables (load : str -> result xmap) (ix : list map_entry) (d : delims) (f : list str) (isal : nref).
Variables (gs : list cgroup) (gL : cgroup) (r_iea : nref) (iea : seg).
Hypothesis CD : conformant_document load (Ok ix) d f isal gs gL r_iea iea.
Notation icvn := (nth 11 f []).
Notation mL := (cg_map gL).

Lemma cd_groups : Forall (group_ok load ix d icvn isal) gs.
Proof. destruct (cd_idx _ _ _ _ _ _ _ _ _ CD) as (ix' & Ei & Fg). injection Ei as <-. exact Fg. Qed.

Lemma cd_gL_in : In gL gs.
Proof. destruct (cd_last _ _ _ _ _ _ _ _ _ CD) as [pre ->]. apply in_or_app. right. left. reflexivity. Qed.

Lemma cd_gL_ok : group_ok load ix d icvn isal gL.
Proof. pose proof cd_groups as F. rewrite Forall_forall in F. apply F, cd_gL_in. Qed.

Lemma cd_last_is g0 : last gs g0 = gL.
Proof. destruct (cd_last _ _ _ _ _ _ _ _ _ CD) as [pre ->]. apply last_last. Qed.

Lemma cd_ne : gs <> [].
Proof. destruct (cd_last _ _ _ _ _ _ _ _ _ CD) as [pre ->]. destruct pre; discriminate. Qed.

Theorem whole_core cm r_isa r_gs :
  load (control_name icvn) = Ok cm -> valid_wf cm = true -> fmt_wf cm = true ->
  getnode cm "/ISA_LOOP/ISA" = Ok r_isa -> getnode cm "/ISA_LOOP/GS_LOOP/GS" = Ok r_gs ->
  item_conf cm d (r_isa, isa_for d f) = true ->
  exists sF,
    (dod_ run_lines (C02_whole_step.mkE load ix cm d) (map (seg_body d) (isa_for d f :: doc_body gs iea)); finish)
      (s_init cm r_isa icvn) = (sF, Ok true) /\
    Tok (ds_trace sF) /\ AllEmpty (ds_errh sF) /\ ds_valid sF = true.
Proof.
  intros Lcm VWc FWc Gi Gg ICi.
  pose proof (cd_distinct _ _ _ _ _ _ _ _ _ CD) as Dd.
  pose proof (isa_fields_len f (cd_fields _ _ _ _ _ _ _ _ _ CD)) as Lf.
  destruct (cd_reader _ _ _ _ _ _ _ _ _ CD) as (x1 & x2 & x3 & R1 & Qg & R3 & Cu).
  pose proof cd_gL_ok as [_ _ _ WFL KOL VWL FWL TOPL _ _ _ _].
  (* the written segments *)
  assert (WB : Forall (Wr d) (doc_body gs iea)).
  { pose proof (cd_clean _ _ _ _ _ _ _ _ _ CD) as B. unfold body_ok in B. apply andb_true_iff in B as [B _].
    exact (Forall_Wr d _ B (cd_plain _ _ _ _ _ _ _ _ _ CD) (cd_canon _ _ _ _ _ _ _ _ _ CD)). }
  unfold doc_body in WB. apply Forall_app in WB as [WG WI]. inversion WI as [|? ? Wiea _]; subst.
  set (E := C02_whole_step.mkE load ix cm d).
  set (s0 := s_init cm r_isa icvn).
  assert (C0 : Clean s0).
  { constructor; try reflexivity. exact Hok_init. }
  (* ISA *)
  destruct (isa_step load ix cm d f r_isa s0 x1 Lf Gi VWc FWc ICi C0)
    as (s1 & St1 & C1 & X1 & W1 & Nd1 & I1 & F1 & U1 & M1 & Qi1 & Qs1).
  assert (L1 : run_lines E (map (seg_body d) (isa_for d f :: doc_body gs iea)) s0 =
               run_lines E (map (seg_body d) (doc_body gs iea)) s1).
  { cbn [map]. rewrite (run_lines_seg load ix cm d Dd (isa_for d f) _ s0 x1 (cd_isa_clean _ _ _ _ _ _ _ _ _ CD)
                          (isa_id_plain d f) (isa_P d f) (fun x => isa_seg1 d x f) R1).
    rewrite (bind_ok _ _ _ _ _ St1). reflexivity. }
  assert (B1 : Btw load isal icvn mL s1 x1 0).
  { constructor; try assumption.
    - (* no group, no set open after ISA *)
      destruct (reader_ISA d x_init (isa_for d f) eq_refl) as (xa & ea & Ra & _ & Fa).
      { unfold isa_for. cbn [els]. rewrite app_length, map_length, Lf. reflexivity. }
      change (ds_x s0) with x_init in R1. rewrite R1 in Ra. injection Ra as <- _. destruct Fa as (La & _).
      split; intros H; unfold has_kind in H; rewrite La in H; discriminate.
    - rewrite W1. apply (top_isa isal mL WFL KOL (top_okb_facts isal mL TOPL) counter_init). rewrite cnt_init. lia.
    - lia.
    - left. split; [reflexivity|]. rewrite F1. reflexivity. }
  (* the groups *)
  unfold doc_body in *. rewrite map_app in L1.
  destruct (groups_run load ix cm d isal icvn mL r_gs Dd WFL KOL TOPL Gg (map (seg_body d) [iea]) gs s1 x1 0 x2
              cd_ne cd_groups (cd_compat _ _ _ _ _ _ _ _ _ CD) WG B1 (fun _ => cd_first _ _ _ _ _ _ _ _ _ CD) Qg)
    as (s2 & R2 & B2 & LG).
  destruct (LG gL) as (Nd2 & nG & HnG & PI). rewrite (cd_last_is gL) in Nd2, HnG, PI.
  destruct B2 as [Bc Bx Bi Bl Bt Bn Bv Bs]. rewrite Z.add_0_l in Bt.
  (* IEA *)
  pose (TFL := top_okb_facts isal mL TOPL).
  assert (EnG : nG = tf_nG isal mL TFL).
  { pose proof (tf_gsl isal mL TFL) as H. rewrite HnG in H. injection H as H. exact H. }
  rewrite EnG in PI.
  assert (Pn : (1 <= Z.of_nat (length gs))%Z).
  { pose proof cd_ne as H. destruct gs; [congruence|]. cbn [length]. lia. }
  destruct (iea_walk isal d mL WFL KOL TFL _ _ _ r_iea iea (ds_w s2) Bt Pn PI (cd_iea _ _ _ _ _ _ _ _ _ CD) eq_refl)
    as (w3 & S3).
  pose proof (cd_iea_id _ _ _ _ _ _ _ _ _ CD) as Hiea. pose proof (sid_is_sid _ _ Hiea) as Hs.
  assert (Ni : sid_is iea "ISA" = false) by (unfold sid_is; rewrite Hs; reflexivity).
  assert (Ng : sid_is iea "GS" = false) by (unfold sid_is; rewrite Hs; reflexivity).
  assert (Nb : sid_is iea "BHT" = true -> is_278_switch (ms_vriic (ds_sel s2)) = false).
  { intros H. unfold sid_is in H. rewrite Hs in H. discriminate. }
  rewrite <- Bx in R3, Bl.
  destruct (item_step load ix cm d mL _ r_iea iea s2 x3 w3 VWL FWL (cd_iea_conf _ _ _ _ _ _ _ _ _ CD) Ni Ng Nb Nd2 Bc Bi Bl R3 S3)
    as (s3 & St3 & C3 & X3 & _ & _ & _ & _ & _ & _).
  destruct (Wr_P d _ Wiea) as [EPi S0i]. destruct Wiea as (Cli & Pli & _).
  assert (L3 : run_lines E (map (seg_body d) [iea]) s2 = (s3, Ok tt)).
  { unfold E. cbn [map]. rewrite (run_lines_seg load ix cm d Dd iea [] s2 x3 Cli Pli EPi S0i R3).
    rewrite (bind_ok _ _ _ _ _ St3). reflexivity. }
  (* finish *)
  destruct C3 as [P3 V3 H3 T3].
  set (sF := with_pending (with_pending s3 (ds_pending s3 ++ cleanup (ds_x s3))) []).
  exists sF. split.
  { assert (RL : run_lines E (map (seg_body d) (isa_for d f :: flat_map group_segs gs ++ [iea])) s0 = (s3, Ok tt)).
    { rewrite L1. unfold E. rewrite R2. exact L3. }
    rewrite (bind_ok _ _ _ _ _ RL). unfold finish. rewrite bind_mod.
    assert (Pe : ds_pending (with_pending s3 (ds_pending s3 ++ cleanup (ds_x s3))) = []).
    { cbn [with_pending ds_pending]. rewrite P3, X3, Cu. reflexivity. }
    rewrite (bind_ok _ _ _ _ _ (handle_popped_nil _ Pe)).
    rewrite bind_get. fold sF. unfold d_ret. f_equal. f_equal.
    change (ds_valid sF) with (ds_valid s3). change (ds_errh sF) with (ds_errh s3).
    rewrite V3, (all_empty_count _ (proj2 H3)). reflexivity. }
  split; [exact T3|]. split; [exact (proj2 H3) | exact V3].
Qed.

End Whole.

(* ------------------------------------------------------------------ *)
(* THE THEOREMS                                                         *)

Section Statement.
Variables (load : str -> result xmap) (idx : result (list map_entry)) (d : delims) (conv : str) (f : list str).
Variables (isal : nref) (gs : list cgroup) (gL : cgroup) (r_iea : nref) (iea : seg).
Hypothesis Kc : is_break conv = true.
Hypothesis CD : conformant_document load idx d f isal gs gL r_iea iea.

Definition doc_text : str := encode d conv (isa_for d f :: doc_body gs iea).

Lemma whole_final :
  exists sF, run_state load idx doc_text = Some sF /\
             run_document_gen load idx doc_text = (rev (ds_trace sF), Ok true) /\
             Tok (ds_trace sF) /\ AllEmpty (ds_errh sF) /\ ds_valid sF = true.
Proof.
  destruct (cd_idx _ _ _ _ _ _ _ _ _ CD) as (ix & Ei & _). subst idx.
  destruct (cd_cm _ _ _ _ _ _ _ _ _ CD) as (cm & r_isa & r_gs & Lcm & VWc & FWc & Gi & Gg & ICi).
  pose proof (cd_clean _ _ _ _ _ _ _ _ _ CD) as B. unfold body_ok in B. apply andb_true_iff in B as [B _].
  destruct (raw_all_encode d conv f (doc_body gs iea) (cd_distinct _ _ _ _ _ _ _ _ _ CD) (cd_nobreak _ _ _ _ _ _ _ _ _ CD) Kc
              (cd_fields _ _ _ _ _ _ _ _ _ CD) (cd_isa_clean _ _ _ _ _ _ _ _ _ CD) B (cd_plain _ _ _ _ _ _ _ _ _ CD))
    as (r & Rw & Dl & Vr).
  destruct (whole_core load ix d f isal gs gL r_iea iea CD cm r_isa r_gs Lcm VWc FWc Gi Gg ICi) as (sF & Run & T & A & V).
  exists sF. split; [|split; [|auto]].
  - unfold run_state, doc_text. rewrite (doc_start_raw load (Ok ix) _ r _ Rw). rewrite Vr, Dl, Lcm. cbn [bind]. rewrite Gi. cbn [bind].
    change (C12_doc_step.mkE load ix cm d) with (C02_whole_step.mkE load ix cm d). rewrite Run. reflexivity.
  - unfold doc_text. rewrite (run_document_gen_raw load (Ok ix) _ r _ Rw). rewrite Vr, Dl, Lcm. cbn [bind]. rewrite Gi. cbn [bind].
    cbv zeta. change (C12_doc_step.mkE load ix cm d) with (C02_whole_step.mkE load ix cm d). rewrite Run. reflexivity.
Qed.

(* LAYER (c): the verdict is True and no error method of the handler is called *)
Theorem C02_whole_accepted :
  snd (run_document_gen load idx doc_text) = Ok true /\ no_error_call (fst (run_document_gen load idx doc_text)).
Proof.
  destruct whole_final as (sF & _ & Run & T & _). rewrite Run. split; [reflexivity|].
  unfold no_error_call. cbn [fst]. rewrite forallb_rev. exact T.
Qed.

(* LAYER (d): the error tree at the end of the run counts no error; every functional group of it is acknowledged A
   and none of its sets has a counted error (C05_error_free_all_accepted) *)
Theorem C02_whole_acknowledged :
  exists sF, run_state load idx doc_text = Some sF /\ ds_valid sF = true /\
    Errh.get_error_count (ds_errh sF) = 0 /\
    Forall (fun g => Errh.gs_ack_code (ds_errh sF) g = l "A" /\
                     Forall (fun t => Errh.st_err_count (ds_errh sF) t = 0)
                            (nodes_at (Errh.h_st (ds_errh sF)) (Errh.gn_children g)))
           (visited_gs (ds_errh sF)).
Proof.
  destruct whole_final as (sF & Rs & _ & _ & A & V). exists sF. split; [exact Rs|]. split; [exact V|].
  pose proof (all_empty_count _ A) as Z0. split; [exact Z0|]. exact (error_free_all_accepted _ Z0).
Qed.

End Statement.

Print Assumptions C02_whole_accepted.
Print Assumptions C02_whole_acknowledged.
