(* C02_whole_examples.v — non-vacuity of Proofs/C02_whole.v on the SHIPPED environment (Proofs/C07_driver_maps.v):
   the 12-segment 997 set of Proofs/C02_doc_examples.v (nested and repeated loops) wrapped in ISA / GS / GE / IEA
   is a conformant_document; every hypothesis is checked by evaluation or built with the rules of conf_inst;
   the theorems are instantiated and the run itself is evaluated. *)
From Coq Require Import String Lia.
From PX.Lib Require Import Base PyStr PyInt Regex Xml.
From PX.Model Require Import Path Segment Raw Reader Syntax MapLoad MapTree Element Counter Walker MapEnv Driver.
From PX.Model Require Errh.
From PX.Spec Require Import C01_spec C12_spec C12_doc_spec C07_walker_wf C07_valid_wf C07_spec C0203_spec C02_doc_spec
                            C04_spec C05_spec C02_whole_spec.
From PX.Proofs Require Import C07_driver_maps C12_reader C02_doc_examples C02_whole_walk C02_whole_compat C02_whole_sets C02_whole_c04 C02_whole.
Import Driver.

Local Definition l (x : string) : str := list_ascii_of_string x.

Module W997.
  Import M997.

  Ltac cb_seg jj :=
    match goal with |- conf_body ?m ?d ?L ?p ?i ?c _ => eapply (CB_seg m d L p i c jj) end;
    [ side | side | vm_compute; reflexivity | side | side | side | side | vm_compute; reflexivity | side | side | side | ].
  Ltac cb_loop jj :=
    match goal with |- conf_body ?m ?d ?L ?p ?i ?c _ => eapply (CB_loop m d L p i c jj) end;
    [ side | vm_compute; reflexivity | side | side | side
    | apply loop_prem_dec; vm_compute; reflexivity | | side | ].
  Ltac ci_seg := eapply CI_seg; [ side | vm_compute; reflexivity | side | ].
  Ltac cb_end := apply CB_end; side.

  Definition isal : nref := [0].
  Definition gs : seg := P "GS*FA*SS*RR*20030828*1128*17*X*004010~".
  Definition st : seg := P "ST*997*0001~".
  Definition ge : seg := P "GE*1*17~".
  Definition iea : seg := P "IEA*1*000000017~".
  Definition r_ge : nref := [0; 1; 2].
  Definition r_iea : nref := [0; 3].

  (* the set of M997 with AK303 shortened (2010BA is too long for AK303 of the 4010 map: the segment would not
     conform): ST AK1 (AK2 (AK3 AK4 AK4) (AK3) AK5) (AK2 AK5) AK9 SE *)
  Definition body : list item :=
    ((r_ak1, P "AK1*HC*17~") ::
       (((r_ak2, P "AK2*837*0001~") ::
           (((r_ak3, P "AK3*NM1*8*2010*8~") :: [(r_ak4, P "AK4*8*66*7*XX~"); (r_ak4, P "AK4*9*67*1~")]) ++
            (((r_ak3, P "AK3*REF*10**3~") :: []) ++
             [(r_ak5, P "AK5*R*5~")]))) ++
        (((r_ak2, P "AK2*837*0002~") :: [(r_ak5, P "AK5*A~")]) ++
         [(r_ak9, P "AK9*P*2*2*1~")]))) ++
    [(r_se, P "SE*12*0001~")].

  Example set_instance : conf_inst mp d0 stl ((r_st, st) :: body).
  Proof.
    unfold body. ci_seg.
    cb_loop 1.                                   (* HEADER *)
    { ci_seg. cb_loop 1.                         (* 2000, first instance *)
      { ci_seg. cb_loop 1.                       (* 2100, first instance: AK3 AK4 AK4 *)
        { ci_seg. cb_seg 1. cb_seg 1. cb_end. }
        cb_loop 1.                               (* 2100, second instance: AK3 *)
        { ci_seg. cb_end. }
        cb_seg 2. cb_end. }
      cb_loop 1.                                 (* 2000, second instance: AK2 AK5 *)
      { ci_seg. cb_seg 2. cb_end. }
      cb_seg 2. cb_end. }
    cb_seg 4. cb_end.
  Qed.

  Definition items : list item := ((r_st, st) :: body) ++ [(r_ge, ge)].
  Definition g : cgroup := {| cg_file := l "997.4010.xml"; cg_map := mp; cg_gs := gs; cg_items := items |}.
  Definition ix : list map_entry := load_index PX.Gen.Maps.M_maps.tree.

  Example loads : shipped_load (l "997.4010.xml") = Ok mp /\ shipped_idx = Ok ix.
  Proof. split; [vm_compute; reflexivity | reflexivity]. Qed.

  (* GS, one set, GE: ONE conformant instance of GS_LOOP *)
  Example group_instance : conf_inst mp d0 (gsl_of isal) ((gsl_of isal ++ [0], gs) :: items).
  Proof.
    unfold items. ci_seg.
    cb_loop 1.                                   (* ST_LOOP *)
    { exact set_instance. }
    cb_seg 2.                                    (* GE *)
    cb_end.
  Qed.

  (* the same through group_of_sets: the set given as a conformant instance of ST_LOOP, then GE *)
  Example group_instance_from_sets : conf_inst mp d0 (gsl_of isal) ((gsl_of isal ++ [0], gs) :: items).
  Proof.
    change items with (concat [(r_st, st) :: body] ++ [(gsl_of isal ++ [2], ge)]).
    eapply (group_of_sets mp d0 (gsl_of isal)); try (vm_compute; reflexivity);
      match goal with
      | |- between_skippable _ _ _ _ => side
      | |- rest_skippable _ _ _ => side
      | |- (_ <= _)%Z => apply Z.leb_le; vm_compute; reflexivity
      | |- _ <> [] => vm_compute; discriminate
      | |- Forall _ _ => constructor; [exact set_instance | constructor]
      | |- st_chain _ _ _ _ _ => split; [vm_compute; reflexivity | exact I]
      end.
  Qed.

  Example iea_body : conf_body mp d0 isal (last_node isal g) 1 (Z.of_nat (length [g])) [(r_iea, iea)].
  Proof. cb_seg 3. cb_end. Qed.

  Example group_is_ok : group_ok shipped_load ix d0 (nth 11 ex_fields []) isal g.
  Proof.
    constructor.
    - reflexivity.
    - vm_compute. reflexivity.
    - exact (proj1 loads).
    - exact (proj1 statics).
    - exact (proj2 statics).
    - vm_compute. reflexivity.
    - vm_compute. reflexivity.
    - vm_compute. reflexivity.
    - exact group_instance.
    - vm_compute. reflexivity.
    - vm_compute. reflexivity.
    - left. vm_compute. reflexivity.
  Qed.

  Definition xs1 : xstate := match reader_step d0 x_init (isa_for d0 ex_fields) with Ok (x, _) => x | Raise _ => x_init end.
  Definition xs2 : xstate := match quiet_groups d0 xs1 [g] with Some x => x | None => x_init end.
  Definition xs3 : xstate := match reader_step d0 xs2 iea with Ok (x, _) => x | Raise _ => x_init end.

  Theorem conformant_997 : conformant_document shipped_load shipped_idx d0 ex_fields isal [g] g r_iea iea.
  Proof.
    constructor.
    - vm_compute. reflexivity.
    - vm_compute. reflexivity.
    - vm_compute. reflexivity.
    - vm_compute. reflexivity.
    - vm_compute. reflexivity.
    - vm_compute. reflexivity.
    - repeat constructor; vm_compute; reflexivity.
    - exists ix. split; [reflexivity|]. constructor; [exact group_is_ok | constructor].
    - eexists _, _, _. split; [vm_compute; reflexivity|]. split; [vm_compute; reflexivity|].
      split; [vm_compute; reflexivity|]. split; [vm_compute; reflexivity|]. split; vm_compute; reflexivity.
    - exists []. reflexivity.
    - vm_compute. discriminate.
    - constructor; [apply top_compat_refl | constructor].
    - vm_compute. reflexivity.
    - exact iea_body.
    - vm_compute. reflexivity.
    - exists xs1, xs2, xs3. split; [vm_compute; reflexivity|]. split; [vm_compute; reflexivity|].
      split; vm_compute; reflexivity.
  Qed.

  (* the reader hypothesis through C04: the envelope tree of the document is well formed and consistent *)
  Definition tree : inter :=
    {| i_isa := isa_for d0 ex_fields;
       i_groups := [ {| g_gs := gs; g_sets := [ {| t_st := st; t_body := map snd (removelast body); t_se := Some (P "SE*12*0001~") |} ];
                        g_ge := Some ge |} ];
       i_iea := Some iea |}.

  Example reader_silent_via_c04 : reader_silent d0 (isa_for d0 ex_fields) [g] iea.
  Proof.
    apply (reader_silent_of_consistent d0 _ [g] iea tree).
    - vm_compute. reflexivity.
    - vm_compute. reflexivity.
    - split; [vm_compute; repeat constructor | vm_compute; reflexivity].
    - vm_compute. reflexivity.
    - constructor; [vm_compute; reflexivity | constructor].
  Qed.

  Definition text : str := doc_text d0 [] ex_fields [g] iea.

  (* the theorems apply ... *)
  Theorem accepted_997 :
    snd (run_document_gen shipped_load shipped_idx text) = Ok true /\
    no_error_call (fst (run_document_gen shipped_load shipped_idx text)).
  Proof. exact (C02_whole_accepted shipped_load shipped_idx d0 [] ex_fields isal [g] g r_iea iea eq_refl conformant_997). Qed.

  Theorem acknowledged_997 :
    exists sF, run_state shipped_load shipped_idx text = Some sF /\ ds_valid sF = true /\
      Errh.get_error_count (ds_errh sF) = 0 /\
      Forall (fun gn => Errh.gs_ack_code (ds_errh sF) gn = l "A" /\
                        Forall (fun t => Errh.st_err_count (ds_errh sF) t = 0)
                               (nodes_at (Errh.h_st (ds_errh sF)) (Errh.gn_children gn)))
             (visited_gs (ds_errh sF)).
  Proof. exact (C02_whole_acknowledged shipped_load shipped_idx d0 [] ex_fields isal [g] g r_iea iea eq_refl conformant_997). Qed.

  (* ... and this is the run, evaluated: the text, the verdict, the number of handler calls, none of them an error,
     one group node and one set node in the error tree *)
  Example text_is : text = l ("ISA*00*          *00*          *ZZ*SENDER         *ZZ*RECEIVER       *030828*1128*U*00401*000000017*0*T*:~" ++
    "GS*FA*SS*RR*20030828*1128*17*X*004010~ST*997*0001~AK1*HC*17~AK2*837*0001~AK3*NM1*8*2010*8~AK4*8*66*7*XX~AK4*9*67*1~" ++
    "AK3*REF*10**3~AK5*R*5~AK2*837*0002~AK5*A~AK9*P*2*2*1~SE*12*0001~GE*1*17~IEA*1*000000017~").
  Proof. vm_compute. reflexivity. Qed.

  Example run_evaluated :
    let out := run_document_gen shipped_load shipped_idx text in
    snd out = Ok true /\ length (fst out) = 93 /\ existsb err_dev (fst out) = false /\
    match run_state shipped_load shipped_idx text with
    | Some sF => (Errh.get_error_count (ds_errh sF), length (visited_gs (ds_errh sF)), length (Errh.h_st (ds_errh sF)))
    | None => (1, 0, 0)
    end = (0, 1, 1).
  Proof. vm_compute. repeat split. Qed.
End W997.


(* ------------------------------------------------------------------ *)
(* two functional groups with two different maps in one interchange: the 997 group above, then an 835
   (Proofs/C02_doc_examples.v, M835: wrapper DETAIL, nested repeats; the state code of N4 replaced by a valid one) *)
Module W2.
  Import M835.

  Ltac cb_seg jj :=
    match goal with |- conf_body ?m ?d ?L ?p ?i ?c _ => eapply (CB_seg m d L p i c jj) end;
    [ side | side | vm_compute; reflexivity | side | side | side | side | vm_compute; reflexivity | side | side | side | ].
  Ltac cb_loop jj :=
    match goal with |- conf_body ?m ?d ?L ?p ?i ?c _ => eapply (CB_loop m d L p i c jj) end;
    [ side | vm_compute; reflexivity | side | side | side
    | apply loop_prem_dec; vm_compute; reflexivity | | side | ].
  Ltac ci_seg := eapply CI_seg; [ side | vm_compute; reflexivity | side | ].
  Ltac ci_wrap :=
    match goal with
    | |- conf_inst ?m ?d ?W (?a :: (?X ++ ?Y)) => change (conf_inst m d W ((a :: X) ++ Y)); eapply (CI_wrap m d W)
    end;
    [ side | vm_compute; reflexivity | side | apply entry_prem_dec; vm_compute; reflexivity | | ].
  Ltac cb_end := apply CB_end; side.

  Definition isal : nref := [0].
  Definition gs : seg := P "GS*HP*SS*RR*20030828*1128*18*X*004010X091A1~".
  Definition st : seg := P "ST*835*0001~".
  Definition ge : seg := P "GE*1*18~".
  Definition iea : seg := P "IEA*2*000000017~".
  Definition r_ge : nref := [0; 1; 2].
  Definition r_iea : nref := [0; 3].

  Definition body : list item :=
    ((r_bpr, P "BPR*I*150*C*CHK************20200101~") ::
       ((r_trn, P "TRN*1*12345*1512345678~") ::
          (((r_n1a, P "N1*PR*INSURER~") :: [(r_n3a, P "N3*1 MAIN ST~"); (r_n4a, P "N4*CITY*MI*12345~")]) ++
           (((r_n1b, P "N1*PE*PROVIDER*FI*123456789~") :: []) ++ [])))) ++
    (((r_lx, P "LX*1~") ::
        ((((r_clp, P "CLP*CLAIM1*1*100*100**12*ICN1~") ::
             ((r_nm1, P "NM1*QC*1*DOE*JOHN~") ::
                (((r_svc, P "SVC*HC:99213*60*60~") :: [(r_dtm, P "DTM*472*20200101~")]) ++
                 (((r_svc, P "SVC*HC:99214*40*40~") :: []) ++ [])))) ++
          (((r_clp, P "CLP*CLAIM2*1*50*50**12*ICN2~") :: [(r_nm1, P "NM1*QC*1*ROE*JANE~")]) ++ [])) ++
         (((r_lx, P "LX*2~") :: (((r_clp, P "CLP*CLAIM3*1*10*10**12*ICN3~") :: [(r_nm1, P "NM1*QC*1*POE*JIM~")]) ++ [])) ++
          []))) ++
     (((r_plb, P "PLB*123456789*20201231*CV:X*-10~") :: []) ++
      [(r_se, P "SE*20*0001~")])).

  Example set_instance : conf_inst mp d0 stl ((r_st, st) :: body).
  Proof.
    unfold body. ci_seg.
    cb_loop 1.                                     (* HEADER *)
    { ci_seg. cb_seg 1.
      cb_loop 6. { ci_seg. cb_seg 1. cb_seg 2. cb_end. }       (* 1000A *)
      cb_loop 7. { ci_seg. cb_end. }                           (* 1000B *)
      cb_end. }
    cb_loop 2.                                     (* DETAIL: entered through 2000 *)
    { ci_wrap.
      { ci_seg.                                    (* 2000, first instance *)
        cb_loop 3.                                 (* 2100, first instance *)
        { ci_seg. cb_seg 2.
          cb_loop 16. { ci_seg. cb_seg 1. cb_end. }            (* 2110 *)
          cb_loop 16. { ci_seg. cb_end. }                      (* 2110 again *)
          cb_end. }
        cb_loop 3. { ci_seg. cb_seg 2. cb_end. }               (* 2100 again *)
        cb_end. }
      cb_loop 0.                                   (* 2000 again, inside the wrapper *)
      { ci_seg. cb_loop 3. { ci_seg. cb_seg 2. cb_end. } cb_end. }
      cb_end. }
    cb_loop 3. { ci_seg. cb_end. }                 (* FOOTER *)
    cb_seg 4. cb_end.
  Qed.

  Definition items : list item := ((r_st, st) :: body) ++ [(r_ge, ge)].
  Definition g : cgroup := {| cg_file := l "835.4010.X091.A1.xml"; cg_map := mp; cg_gs := gs; cg_items := items |}.
  Definition groups : list cgroup := [W997.g; g].

  Example loads : shipped_load (l "835.4010.X091.A1.xml") = Ok mp.
  Proof. vm_compute. reflexivity. Qed.

  Example group_instance : conf_inst mp d0 (gsl_of isal) ((gsl_of isal ++ [0], gs) :: items).
  Proof.
    change items with (concat [(r_st, st) :: body] ++ [(gsl_of isal ++ [2], ge)]).
    eapply (group_of_sets mp d0 (gsl_of isal)); try (vm_compute; reflexivity);
      match goal with
      | |- between_skippable _ _ _ _ => side
      | |- rest_skippable _ _ _ => side
      | |- (_ <= _)%Z => apply Z.leb_le; vm_compute; reflexivity
      | |- _ <> [] => vm_compute; discriminate
      | |- Forall _ _ => constructor; [exact set_instance | constructor]
      | |- st_chain _ _ _ _ _ => split; [vm_compute; reflexivity | exact I]
      end.
  Qed.

  Example iea_body : conf_body mp d0 isal (last_node isal g) 1 (Z.of_nat (length groups)) [(r_iea, iea)].
  Proof. cb_seg 3. cb_end. Qed.

  Example group_is_ok : group_ok shipped_load W997.ix d0 (nth 11 ex_fields []) isal g.
  Proof.
    constructor.
    - vm_compute. reflexivity.
    - vm_compute. reflexivity.
    - exact loads.
    - exact (proj1 statics).
    - exact (proj2 statics).
    - vm_compute. reflexivity.
    - vm_compute. reflexivity.
    - vm_compute. reflexivity.
    - exact group_instance.
    - vm_compute. reflexivity.
    - vm_compute. reflexivity.
    - left. vm_compute. reflexivity.
  Qed.

  (* the two maps share the keys of TA1 and IEA *)
  Example maps_compatible : top_compat isal M997.mp mp.
  Proof. apply top_compat_dec; [exact (proj1 statics) | vm_compute; reflexivity]. Qed.

  Definition xs1 : xstate := match reader_step d0 x_init (isa_for d0 ex_fields) with Ok (x, _) => x | Raise _ => x_init end.
  Definition xs2 : xstate := match quiet_groups d0 xs1 groups with Some x => x | None => x_init end.
  Definition xs3 : xstate := match reader_step d0 xs2 iea with Ok (x, _) => x | Raise _ => x_init end.

  Theorem conformant_two_groups : conformant_document shipped_load shipped_idx d0 ex_fields isal groups g r_iea iea.
  Proof.
    constructor.
    - vm_compute. reflexivity.
    - vm_compute. reflexivity.
    - vm_compute. reflexivity.
    - vm_compute. reflexivity.
    - vm_compute. reflexivity.
    - vm_compute. reflexivity.
    - repeat constructor; vm_compute; reflexivity.
    - exists W997.ix. split; [reflexivity|]. constructor; [exact W997.group_is_ok | constructor; [exact group_is_ok | constructor]].
    - eexists _, _, _. split; [vm_compute; reflexivity|]. split; [vm_compute; reflexivity|].
      split; [vm_compute; reflexivity|]. split; [vm_compute; reflexivity|]. split; vm_compute; reflexivity.
    - exists [W997.g]. reflexivity.
    - vm_compute. discriminate.
    - constructor; [exact maps_compatible | constructor; [apply top_compat_refl | constructor]].
    - vm_compute. reflexivity.
    - exact iea_body.
    - vm_compute. reflexivity.
    - exists xs1, xs2, xs3. split; [vm_compute; reflexivity|]. split; [vm_compute; reflexivity|].
      split; vm_compute; reflexivity.
  Qed.

  Definition text : str := doc_text d0 [] ex_fields groups iea.

  Theorem accepted_two_groups :
    snd (run_document_gen shipped_load shipped_idx text) = Ok true /\
    no_error_call (fst (run_document_gen shipped_load shipped_idx text)).
  Proof. exact (C02_whole_accepted shipped_load shipped_idx d0 [] ex_fields isal groups g r_iea iea eq_refl conformant_two_groups). Qed.

  Example run_evaluated :
    let out := run_document_gen shipped_load shipped_idx text in
    snd out = Ok true /\ existsb err_dev (fst out) = false /\
    match run_state shipped_load shipped_idx text with
    | Some sF => (Errh.get_error_count (ds_errh sF), length (visited_gs (ds_errh sF)), length (Errh.h_st (ds_errh sF)))
    | None => (1, 0, 0)
    end = (0, 2, 2).
  Proof. vm_compute. repeat split. Qed.
End W2.

Print Assumptions W997.conformant_997.
Print Assumptions W997.accepted_997.
Print Assumptions W997.acknowledged_997.
Print Assumptions W2.conformant_two_groups.
Print Assumptions W2.accepted_two_groups.
