(* C09_order_run.v — the premise of C09 (children_in_allocation_order of the final store) discharged from
   a MAP-LEVEL condition (Spec/C09_order_spec.v): every loadable map satisfies ctx_order_ok; the ISA and GS
   nodes of every loadable map lie outside the loop asked for or start it (lid_ok); the maps between which
   the BHT of a 278 can switch agree along the path to BHT (bht_compat).

   The invariant of `for seg in self.src` (Inv2): the store is in allocation order, and while a tree is
   open, the loop objects along its open branch carry, from the deepest one up, exactly the enclosing loops
   of the reader's current map node (FI ... (mn_anc (cs_node s))), the last child of the deepest one being
   the node of the current segment.  Then (Proofs/C09_order_heap.v: asn_order) every _add_loop_node of
   _add_segment appends.  The map changes on ISA and GS only, which by lid_ok are outside every tree or start
   a new one, and on the BHT of a 278, where the frame objects made from the old map match (xrel: same
   position, same path) the enclosing loops of the BHT node of the new one. *)
From Coq Require Import String List ZArith Lia Sorted Permutation.
From PX.Lib Require Import Base PyStr PyInt Regex Xml.
From PX.Model Require Import Show Path Segment Raw Reader Syntax MapLoad MapTree Element Counter Walker MapEnv Driver Context CtxReader.
From PX.Spec Require Import C07_walker_wf C09_spec C09_order_spec.
From PX.Proofs Require Import C07_walker_lemmas C09_reader C09_heap C09_addseg C09_ctx Counter_keys C09_order_walker C09_order_heap.
Import ListNotations.

(* ------------------------------------------------------------------ *)
(* from the computable predicates to what asn_order asks for *)

Lemma pairwise_ne_inj {A} (f : A -> result xpath) : forall l,
  pairwise_ne (map f l) = true ->
  forall r1 r2 p, In r1 l -> In r2 l -> f r1 = Ok p -> f r2 = Ok p -> r1 = r2.
Proof.
  induction l as [|a l IH]; intros H r1 r2 p I1 I2 E1 E2; [destruct I1|].
  cbn [map pairwise_ne] in H. apply andb_true_iff in H as [H1 H2]. rewrite forallb_forall in H1.
  assert (forall r, In r l -> f a = Ok p -> f r = Ok p -> False) as No.
  { intros r Ir Ea Er. specialize (H1 (f r) (in_map f _ _ Ir)). rewrite Ea, Er, C09_order_heap.path_eqb_refl in H1. discriminate H1. }
  destruct I1 as [<-|I1], I2 as [<-|I2]; auto.
  - destruct (No _ I2 E1 E2).
  - destruct (No _ I1 E2 E1).
  - eapply IH; eauto.
Qed.

Lemma lref_in_loop_refs m r : forallb (depth_ok 40) (root_nodes m) = true -> lref m r -> In r (loop_refs m).
Proof.
  intros D [->|[n [Hn Ln]]]; [left; reflexivity|]. right. apply filter_In. split.
  - eapply all_refs_complete; eauto.
  - rewrite Hn. exact Ln.
Qed.

Lemma ctx_order_ok_parts m : ctx_order_ok m = true ->
  forallb (depth_ok 40) (root_nodes m) = true /\ paths_distinct m = true /\ shape_ok m = true.
Proof.
  unfold ctx_order_ok. intros H. apply andb_true_iff in H as [H H3]. apply andb_true_iff in H as [H1 H2]. auto.
Qed.

Lemma ctx_order_ok_PD m : ctx_order_ok m = true -> PD m.
Proof.
  intros H. destruct (ctx_order_ok_parts _ H) as (D & P & _). intros r1 r2 p L1 L2 E1 E2.
  eapply (pairwise_ne_inj (node_x12path m) (loop_refs m) P); eauto using lref_in_loop_refs.
Qed.

Lemma mn_pos_of m r n : node_at (root_nodes m) r = Some n -> mn_pos (mn_of m r) = Ok (node_pos n).
Proof.
  intros H. unfold mn_pos, mn_view, mn_of. cbn [mn_ref mn_map]. destruct r as [|i r]; [discriminate H|].
  rewrite (get_node_ok _ _ _ H). reflexivity.
Qed.

Lemma mn_anc_of m r : mn_anc (mn_of m r) = map (mn_of m) (ancs r).
Proof. reflexivity. Qed.

Lemma wshape_wk m start sn r' pop push :
  node_at (root_nodes m) start = Some (NSeg sn) ->
  wshape m start (NSeg sn) (Some r', pop, push) ->
  wk (mn_of m start) (mn_of m r') (map (mn_of m) pop) (map (mn_of m) push).
Proof.
  intros Hs (tail & Ea & Ea' & Pp). right. split; [reflexivity|].
  exists (map (mn_of m) tail). rewrite !mn_anc_of. split; [rewrite Ea, map_app; reflexivity|].
  split; [rewrite Ea', map_app, map_rev; reflexivity|].
  destruct push as [|q push']; [exact I|]. cbn [map].
  destruct Pp as (nq & base & Hq & Hb & Le). exists (node_pos nq), base. split; [apply mn_pos_of; exact Hq|]. split; [exact Le|].
  unfold base_of in Hb. rewrite <- map_rev. destruct (rev pop) as [|p ps]; cbn [map].
  - subst base. apply (mn_pos_of _ _ _ Hs).
  - destruct Hb as (np & Hp & ->). apply mn_pos_of. exact Hp.
Qed.

(* ------------------------------------------------------------------ *)
(* the enclosing loops as the specification computes them, and xrel_b / bht_compat *)

Lemma enclosing_anc a : enclosing a = mn_anc a.
Proof.
  unfold enclosing, mn_anc, ancs, mn_of.
  generalize (length (mn_ref a)) as k. generalize (mn_ref a) as r. intros r k. revert r.
  induction k as [|k IH]; intros r; cbn [prefixes_f ancs_f map]; [reflexivity | rewrite IH; reflexivity].
Qed.

Lemma xrel_b_xrel a b : xrel_b a b = true -> xrel a b.
Proof.
  unfold xrel_b, xrel. destruct (mn_ref a) as [|i r] eqn:Ea, (mn_ref b) as [|j q] eqn:Eb.
  - intros _. unfold mn_pos, mn_x12path, mn_view, node_x12path, node_path. rewrite Ea, Eb. cbn [path_from bind]. split; reflexivity.
  - destruct (mn_pos a), (mn_pos b), (mn_x12path a), (mn_x12path b); try discriminate.
    intros H. apply andb_true_iff in H as [H1 H2]. apply Z.eqb_eq in H1. apply path_eqb_eq in H2. subst. split; reflexivity.
  - destruct (mn_pos a), (mn_pos b), (mn_x12path a), (mn_x12path b); try discriminate.
    intros H. apply andb_true_iff in H as [H1 H2]. apply Z.eqb_eq in H1. apply path_eqb_eq in H2. subst. split; reflexivity.
  - destruct (mn_pos a), (mn_pos b), (mn_x12path a), (mn_x12path b); try discriminate.
    intros H. apply andb_true_iff in H as [H1 H2]. apply Z.eqb_eq in H1. apply path_eqb_eq in H2. subst. split; reflexivity.
Qed.

Lemma all2_Forall2 {A} (f : A -> A -> bool) (R : A -> A -> Prop) : (forall x y, f x y = true -> R x y) ->
  forall xs ys, all2 f xs ys = true -> Forall2 R xs ys.
Proof.
  intros H. induction xs as [|x xs IH]; intros [|y ys] E; cbn [all2] in E; try discriminate; constructor.
  - apply H. apply andb_true_iff in E. tauto.
  - apply IH. apply andb_true_iff in E. tauto.
Qed.

Lemma bht_xanc_at p m1 m2 r1 r2 s1 :
  forallb (depth_ok 40) (root_nodes m1) = true -> bht_compat_at p m1 m2 = true ->
  getnode m2 p = Ok r2 ->
  node_at (root_nodes m1) r1 = Some (NSeg s1) -> ostr_eqb (Some (list_ascii_of_string "BHT")) (s_id s1) = true ->
  Forall2 xrel (mn_anc (mn_of m2 r2)) (mn_anc (mn_of m1 r1)).
Proof.
  intros D C G H1 Hid. unfold bht_compat_at in C. rewrite G in C. rewrite forallb_forall in C.
  specialize (C r1 (all_refs_complete _ _ _ D H1)). rewrite H1, Hid in C. cbn [negb orb] in C.
  rewrite (enclosing_anc {| mn_map := m2; mn_ref := r2 |}), (enclosing_anc {| mn_map := m1; mn_ref := r1 |}) in C.
  exact (all2_Forall2 xrel_b xrel xrel_b_xrel _ _ C).
Qed.

Lemma bht_xanc m1 m2 r1 r2 s1 :
  forallb (depth_ok 40) (root_nodes m1) = true -> bht_compat m1 m2 = true ->
  getnode m2 "/ISA_LOOP/GS_LOOP/ST_LOOP/HEADER/BHT" = Ok r2 ->
  node_at (root_nodes m1) r1 = Some (NSeg s1) -> ostr_eqb (Some (list_ascii_of_string "BHT")) (s_id s1) = true ->
  Forall2 xrel (mn_anc (mn_of m2 r2)) (mn_anc (mn_of m1 r1)).
Proof. apply bht_xanc_at. Qed.

Lemma off_path_false m p i r xp :
  off_path m p i = true -> getnode m p = Ok r -> node_x12path m r = Ok xp -> mem_str i (loop_list xp) = false.
Proof. unfold off_path. intros H Hr Hx. rewrite Hr, Hx in H. apply Bool.negb_true_iff in H. exact H. Qed.

Lemma get_filename_278 ix icvn v fic tspc f :
  get_filename ix icvn v fic tspc = Some (Some f) -> is_vriic_278 v = true -> In f (files_278 ix).
Proof.
  intros H V. induction ix as [|e ix IH]; cbn [get_filename] in H; [discriminate H|].
  unfold files_278. cbn [flat_map]. apply in_or_app.
  match type of H with (if ?c then _ else _) = _ => destruct c eqn:Ec end.
  - left. injection H as Hf. apply andb_true_iff in Ec as [Ec _]. apply andb_true_iff in Ec as [Ec _].
    apply andb_true_iff in Ec as [_ Ev]. apply ostr_eqb_eq in Ev. rewrite Ev, V, Hf. left. reflexivity.
  - right. apply IH. exact H.
Qed.

(* ------------------------------------------------------------------ *)
(* the environment *)

Section Run.
Variable load : str -> result xmap.
Variable lid : option str.
Hypothesis ENV : forall f m, load f = Ok m -> ctx_order_ok m = true /\ lid_ok lid m = true.
Variable E : cenv.
Hypothesis Eload : de_load (ce_d E) = load.
Hypothesis Elid : ce_loop E = lid.
Hypothesis Ecm : exists v, load (control_name v) = Ok (de_cm (ce_d E)).

(* the maps that can be current while GS08 names a 278 guide: the control map, and the maps of the index for it *)
Definition src_file (f : str) : Prop := (exists v, f = control_name v) \/ In f (files_278 (de_idx (ce_d E))).
(* the BHT of a 278: the fixed-path BHT node of every loadable map lies outside the loop asked for, or the maps
   of the index for the 278 guides agree along the path to BHT *)
Definition off_bht (m : xmap) : bool :=
  match lid with Some i => off_path m "/ISA_LOOP/GS_LOOP/ST_LOOP/HEADER/BHT" i | None => true end.
Hypothesis BHT : (forall f m, load f = Ok m -> off_bht m = true) \/
  (forall f1 f2 m1 m2, load f1 = Ok m1 -> load f2 = Ok m2 -> src_file f1 ->
     In f2 (files_278 (de_idx (ce_d E))) -> bht_compat m1 m2 = true).

Definition loaded (m : xmap) : Prop := exists f, load f = Ok m.
Definition src278 (m : xmap) : Prop := exists f, load f = Ok m /\ src_file f.

Definition nodeinv (s : cstate) : Prop :=
  loaded (mn_map (cs_node s)) /\
  match cs_cur_map s with Some mp => exists f, cs_file s = Some f /\ load f = Ok mp | None => True end /\
  (forall v, cs_vriic s = Some v -> is_vriic_278 v = true -> src278 (mn_map (cs_node s))).

Lemma nodeinv_same s s' : cs_node s' = cs_node s -> cs_cur_map s' = cs_cur_map s -> cs_file s' = cs_file s ->
  cs_vriic s' = cs_vriic s -> nodeinv s -> nodeinv s'.
Proof. unfold nodeinv. intros -> -> -> ->. auto. Qed.

(* the node lies outside the loop asked for, or starts a new tree *)
Definition start_b (xp : xpath) (i : str) (first : bool) : bool :=
  match rev (loop_list xp) with lst :: _ => str_eqb lst i && first | [] => false end.

Definition special (a : mnode) : Prop :=
  forall i xp first, lid = Some i -> mn_x12path a = Ok xp -> mn_is_first_seg a = Ok first ->
    mem_str i (loop_list xp) = false \/ start_b xp i first = true.

Lemma off_or_start_special m p r : loaded m -> In p ["/ISA_LOOP/ISA"; "/ISA_LOOP/GS_LOOP/GS"]%string ->
  getnode m p = Ok r -> special (mn_of m r).
Proof.
  intros [f Hf] Hp Hr i xp first Hi Hx Hfirst. destruct (ENV _ _ Hf) as [_ Li]. rewrite Hi in Li. cbn [lid_ok] in Li.
  apply andb_true_iff in Li as [L1 L2].
  unfold mn_x12path, mn_of in Hx. cbn [mn_map mn_ref] in Hx.
  assert (off_or_start m p i = true) as Op by (destruct Hp as [<-|[<-|[]]]; assumption).
  unfold off_or_start in Op. rewrite Hr, Hx in Op. unfold mn_of in Hfirst. rewrite Hfirst in Op.
  apply orb_true_iff in Op as [Op|Op]; [left; apply Bool.negb_true_iff; exact Op | right; exact Op].
Qed.

(* ---- the small computations of the map selection ---- *)
Lemma reset_counter_nm a b s s' u : reset_counter a b s = (s', Ok u) ->
  cs_node s' = cs_node s /\ cs_cur_map s' = cs_cur_map s /\ cs_file s' = cs_file s /\ cs_vriic s' = cs_vriic s.
Proof.
  unfold reset_counter. intros H. apply c_bind_ok in H. destruct H as (s1 & st & H1 & H). apply c_get_ok in H1. destruct H1 as [-> ->].
  apply c_bind_ok in H. destruct H as (s1 & w' & H1 & H). apply c_lift_ok in H1. destruct H1 as [-> _].
  apply c_mod_ok in H. subst s'. repeat split.
Qed.

Lemma switch_map_nm new s s' mp : ctx_switch_map E new s = (s', Ok mp) ->
  cs_node s' = cs_node s /\ cs_cur_map s' = Some mp /\ cs_vriic s' = cs_vriic s /\
  exists f, new = Some f /\ cs_file s' = Some f /\ load f = Ok mp.
Proof.
  unfold ctx_switch_map. intros H. apply c_bind_ok in H. destruct H as (s1 & u & H1 & H). apply c_mod_ok in H1. subst s1.
  destruct new as [f|]; [|discriminate H].
  apply c_bind_ok in H. destruct H as (s1 & mp' & H1 & H). apply c_lift_ok in H1. destruct H1 as [-> Hl].
  apply c_bind_ok in H. destruct H as (s1 & u1 & H1 & H). apply c_mod_ok in H1. subst s1.
  apply c_bind_ok in H. destruct H as (s1 & u2 & H1 & H). apply c_mod_ok in H1. subst s1.
  apply c_ret_ok in H. destruct H as [-> ->]. repeat split. exists f. repeat split. rewrite <- Eload. exact Hl.
Qed.

Lemma index_filename_278 icvn v fic tspc f :
  index_filename (de_idx (ce_d E)) icvn v fic tspc = Some f -> is_vriic_278 v = true -> In f (files_278 (de_idx (ce_d E))).
Proof.
  unfold index_filename. intros H V. destruct (get_filename (de_idx (ce_d E)) icvn v fic tspc) as [o|] eqn:Eg; [|discriminate H].
  subst o. eapply get_filename_278; eauto.
Qed.

(* what finding the node and selecting the map do to self.x12_map_node: N the node before, Nb the node after.
   Either Nb lies outside the loop asked for (or starts a new tree), or the walker went from N to Nb, or — the
   BHT of a 278 — the walker went from N to some N1 whose enclosing loops match those of Nb, level by level. *)
Lemma find_select sg s sa sb ok pop push werrs u :
  nodeinv s ->
  ctx_find_node E sg s = (sa, Ok (ok, pop, push, werrs)) ->
  (if ok then ctx_select_map E sg else c_mod (fun st => set_mnode st (cs_node s))) sa = (sb, Ok u) ->
  nodeinv sb /\
  (special (cs_node sb) \/
   (sref (mn_map (cs_node s)) (mn_ref (cs_node s)) ->
    exists N1, wk (cs_node s) N1 pop push /\ sref (mn_map N1) (mn_ref N1) /\ Forall2 xrel (mn_anc (cs_node sb)) (mn_anc N1))).
Proof.
  intros NI Hf Hs. pose proof NI as (Ln & Lc & Lj). unfold ctx_find_node in Hf. unfold ctx_select_map in Hs.
  assert (loaded (de_cm (ce_d E))) as Lcm by (destruct Ecm as [v Hv]; eexists; exact Hv).
  assert (src278 (de_cm (ce_d E))) as Scm by (destruct Ecm as [v Hv]; eexists; split; [exact Hv | left; eauto]).
  destruct (sid_is sg "ISA") eqn:Eisa.
  { apply c_bind_ok in Hf. destruct Hf as (s1 & r & H1 & Hf). apply c_lift_ok in H1. destruct H1 as [-> Hr].
    apply c_bind_ok in Hf. destruct Hf as (s1 & u1 & H1 & Hf). apply c_mod_ok in H1. subst s1.
    apply c_ret_ok in Hf. destruct Hf as [-> Hf]. injection Hf as -> -> -> ->.
    apply c_bind_ok in Hs. destruct Hs as (s1 & v & H1 & Hs). apply c_lift_ok in H1. destruct H1 as [-> _].
    apply c_mod_ok in Hs. subst sb. unfold nodeinv. cbn [cs_node set_icvn set_mnode cs_cur_map cs_file cs_vriic mn_of mn_map].
    split; [split; [exact Lcm | split; [exact Lc | intros; exact Scm]]|].
    left. eapply off_or_start_special; [exact Lcm | | exact Hr]. left. reflexivity. }
  destruct (sid_is sg "GS") eqn:Egs.
  { apply c_bind_ok in Hf. destruct Hf as (s1 & r & H1 & Hf). apply c_lift_ok in H1. destruct H1 as [-> Hr].
    apply c_bind_ok in Hf. destruct Hf as (s1 & u1 & H1 & Hf). apply c_mod_ok in H1. subst s1.
    apply c_ret_ok in Hf. destruct Hf as [-> Hf]. injection Hf as -> -> -> ->.
    apply c_bind_ok in Hs. destruct Hs as (s1 & fic & H1 & Hs). apply c_lift_ok in H1. destruct H1 as [-> _].
    apply c_bind_ok in Hs. destruct Hs as (s1 & vriic & H1 & Hs). apply c_lift_ok in H1. destruct H1 as [-> _].
    apply c_bind_ok in Hs. destruct Hs as (s1 & u2 & H1 & Hs). apply c_mod_ok in H1. subst s1.
    apply c_bind_ok in Hs. destruct Hs as (s1 & st & H1 & Hs). apply c_get_ok in H1. destruct H1 as [-> ->].
    set (sB := set_fic_vriic (set_mnode s (mn_of (de_cm (ce_d E)) r)) (Some fic) (Some vriic)) in *.
    apply c_bind_ok in Hs. destruct Hs as (s1 & icvn & H1 & Hs).
    assert (s1 = sB) as ->.
    { unfold c_local in H1. destruct (cs_icvn sB); [apply c_ret_ok in H1; tauto | discriminate H1]. }
    clear H1.
    set (new := index_filename (de_idx (ce_d E)) icvn vriic fic None) in *.
    apply c_bind_ok in Hs. destruct Hs as (s2 & u3 & H1 & Hs).
    assert (cs_file s2 = new /\ cs_vriic s2 = Some vriic /\
            match cs_cur_map s2 with Some mp => exists f, cs_file s2 = Some f /\ load f = Ok mp | None => True end) as (Ef2 & Ev2 & Lc2).
    { match type of H1 with (if ?c then _ else _) _ = _ => destruct c eqn:Ecmp end.
      - apply c_bind_ok in H1. destruct H1 as (s3 & mp & H2 & H1).
        destruct (switch_map_nm _ _ _ _ H2) as (_ & Ec3 & Ev3 & f & Enew & Ef3 & Lmp).
        destruct (reset_counter_nm _ _ _ _ _ H1) as (_ & Ec2 & Ef2 & Ev2). rewrite Ec2, Ef2, Ev2, Ec3, Ef3, Ev3.
        split; [symmetry; exact Enew|]. split; [reflexivity|]. exists f. auto.
      - apply c_ret_ok in H1. destruct H1 as [-> _]. apply Bool.negb_false_iff, ostr_eqb_eq in Ecmp.
        split; [exact Ecmp|]. split; [reflexivity|]. exact Lc. }
    clear H1.
    apply c_bind_ok in Hs. destruct Hs as (s3 & u4 & H1 & Hs). destruct (reset_counter_nm _ _ _ _ _ H1) as (_ & Ec3 & Ef3 & Ev3). clear H1.
    apply c_bind_ok in Hs. destruct Hs as (s4 & st & H1 & Hs). apply c_get_ok in H1. destruct H1 as [-> ->].
    apply c_bind_ok in Hs. destruct Hs as (s4 & mp & H1 & Hs).
    destruct (cs_cur_map s3) as [mp'|] eqn:Ecm3; [|discriminate H1]. apply c_ret_ok in H1. destruct H1 as [-> ->].
    apply c_bind_ok in Hs. destruct Hs as (s4 & r2 & H1 & Hs). apply c_lift_ok in H1. destruct H1 as [-> Hr2].
    apply c_mod_ok in Hs. subst sb.
    rewrite <- Ec3 in Lc2. destruct Lc2 as (f & Ef & Lf).
    assert (loaded mp') as Lmp by (eexists; exact Lf).
    unfold nodeinv. cbn [cs_node set_mnode cs_cur_map cs_file cs_vriic mn_of mn_map]. rewrite Ecm3, Ef3, Ev3, Ev2.
    split; [split; [exact Lmp | split; [exists f; auto|]]|].
    - intros v Hv V. injection Hv as <-. exists f. split; [exact Lf|]. right.
      rewrite Ef2 in Ef. eapply index_filename_278; eauto.
    - left. eapply off_or_start_special; [exact Lmp | | exact Hr2]. right. left. reflexivity. }
  (* an ordinary segment: the walker *)
  apply c_bind_ok in Hf. destruct Hf as (s1 & st & H1 & Hf). apply c_get_ok in H1. destruct H1 as [-> ->].
  destruct (walk_st (mn_map (cs_node s)) (cs_w s) (mn_ref (cs_node s)) (de_d (ce_d E)) sg (seg_count (cs_x s)) (cur_line (cs_x s)) None)
    as [[w' evs] res] eqn:Ew.
  apply c_bind_ok in Hf. destruct Hf as (s1 & u1 & H1 & Hf). apply c_mod_ok in H1. subst s1.
  apply c_bind_ok in Hf. destruct Hf as (s1 & out & H1 & Hf). apply c_lift_ok in H1. destruct H1 as [-> ->].
  destruct out as [[[r'|] popr] pushr].
  2:{ (* not found: node = orig_node *)
      apply c_ret_ok in Hf. destruct Hf as [-> Hf]. injection Hf as -> -> -> ->.
      apply c_mod_ok in Hs. subst sb.
      split; [eapply nodeinv_same; [| | | |exact NI]; reflexivity|]. right. intros SN.
      cbn [cs_node set_mnode]. exists (cs_node s). split; [left; reflexivity|]. split; [exact SN|].
      apply Forall2_refl. apply xrel_refl. }
  apply c_bind_ok in Hf. destruct Hf as (s1 & u2 & H1 & Hf). apply c_mod_ok in H1. subst s1.
  apply c_ret_ok in Hf. destruct Hf as [-> Hf]. injection Hf as -> -> -> ->.
  set (m1 := mn_map (cs_node s)) in *.
  set (s1 := set_mnode (set_w s w') (mn_of m1 r')) in *.
  assert (NI1 : nodeinv s1) by (unfold nodeinv, s1; cbn [cs_node set_mnode set_w cs_cur_map cs_file cs_vriic mn_of mn_map]; exact NI).
  assert (Found : sref m1 (mn_ref (cs_node s)) ->
                  wk (cs_node s) (mn_of m1 r') (map (mn_of m1) popr) (map (mn_of m1) pushr) /\
                  exists s1', node_at (root_nodes m1) r' = Some (NSeg s1') /\
                              seg_is_match (de_d (ce_d E)) (m_dataele m1) s1' sg = Ok true).
  { intros [sn Hsn]. destruct Ln as [f Hfm]. destruct (ENV _ _ Hfm) as [Ok1 _]. destruct (ctx_order_ok_parts _ Ok1) as (D & _ & Sh).
    pose proof (walk_shape _ _ _ _ _ _ _ _ _ _ _ _ _ _ D Sh Hsn Ew) as W.
    pose proof (wshape_wk _ _ _ _ _ _ Hsn W) as K. split; [|exact (walk_found _ _ _ _ _ _ _ _ _ _ _ _ _ _ Hsn Ew)].
    unfold m1. destruct (cs_node s) as [m0 r0]. exact K. }
  assert (Plain : special (cs_node s1) \/
                  (sref m1 (mn_ref (cs_node s)) ->
                   exists N1, wk (cs_node s) N1 (map (mn_of m1) popr) (map (mn_of m1) pushr) /\
                              sref (mn_map N1) (mn_ref N1) /\ Forall2 xrel (mn_anc (cs_node s1)) (mn_anc N1))).
  { right. intros SN. destruct (Found SN) as (K & s1' & Hs1 & _). exists (mn_of m1 r'). split; [exact K|].
    split; [exists s1'; exact Hs1|]. apply Forall2_refl. apply xrel_refl. }
  destruct (sid_is sg "BHT") eqn:Ebht.
  2:{ apply c_ret_ok in Hs. destruct Hs as [-> _]. split; [exact NI1 | exact Plain]. }
  apply c_bind_ok in Hs. destruct Hs as (s2 & st & H1 & Hs). apply c_get_ok in H1. destruct H1 as [-> ->].
  apply c_bind_ok in Hs. destruct Hs as (s2 & vriic & H1 & Hs).
  assert (s2 = s1 /\ cs_vriic s1 = Some vriic) as [-> Evr].
  { unfold c_local in H1. destruct (cs_vriic s1); [apply c_ret_ok in H1; destruct H1 as [-> ->]; auto | discriminate H1]. }
  clear H1.
  match type of Hs with (if ?c then _ else _) _ = _ => destruct c eqn:Ev278 end.
  2:{ apply c_ret_ok in Hs. destruct Hs as [-> _]. split; [exact NI1 | exact Plain]. }
  apply c_bind_ok in Hs. destruct Hs as (s2 & tspc & H1 & Hs). apply c_lift_ok in H1. destruct H1 as [-> _].
  apply c_bind_ok in Hs. destruct Hs as (s2 & icvn & H1 & Hs).
  assert (s2 = s1) as -> by (unfold c_local in H1; destruct (cs_icvn s1); [apply c_ret_ok in H1; tauto | discriminate H1]).
  clear H1.
  apply c_bind_ok in Hs. destruct Hs as (s2 & fic & H1 & Hs).
  assert (s2 = s1) as -> by (unfold c_local in H1; destruct (cs_fic s1); [apply c_ret_ok in H1; tauto | discriminate H1]).
  clear H1.
  match type of Hs with (if ?c then _ else _) _ = _ => destruct c end.
  2:{ apply c_ret_ok in Hs. destruct Hs as [-> _]. split; [exact NI1 | exact Plain]. }
  (* the map of the transaction purpose *)
  apply c_bind_ok in Hs. destruct Hs as (s2 & mp & H1 & Hs).
  destruct (switch_map_nm _ _ _ _ H1) as (_ & Ec2 & Ev2 & f2 & Enew & Ef2 & Lmp).
  apply c_bind_ok in Hs. destruct Hs as (s3 & r2 & H2 & Hs). apply c_lift_ok in H2. destruct H2 as [-> Hr2].
  apply c_mod_ok in Hs. subst sb.
  assert (In f2 (files_278 (de_idx (ce_d E)))) as Tgt by (eapply index_filename_278; eauto).
  split.
  - unfold nodeinv. cbn [cs_node set_mnode cs_cur_map cs_file cs_vriic mn_of mn_map]. rewrite Ec2, Ef2, Ev2.
    split; [eexists; exact Lmp|]. split; [exists f2; auto|]. intros v _ _. exists f2. split; [exact Lmp | right; exact Tgt].
  - destruct BHT as [Off|BHTC].
    { left. cbn [cs_node set_mnode]. intros i xp first Hi Hx _. left.
      specialize (Off _ _ Lmp). unfold off_bht in Off. rewrite Hi in Off.
      exact (off_path_false _ _ _ _ _ Off Hr2 Hx). }
    right. intros SN. destruct (Found SN) as (K & s1' & Hs1 & Hm).
    exists (mn_of m1 r'). split; [exact K|]. split; [exists s1'; exact Hs1|].
    cbn [cs_node set_mnode].
    destruct (Lj vriic) as (f1 & Lf1 & Sf1); [exact Evr | exact Ev278|].
    destruct (ENV _ _ Lf1) as [Ok1 _]. destruct (ctx_order_ok_parts _ Ok1) as (D & _ & _).
    eapply bht_xanc; [exact D | eapply BHTC; eauto | exact Hr2 | exact Hs1|].
    apply seg_is_match_id in Hm. unfold sid_is in Ebht.
    assert (sid sg = Some (list_ascii_of_string "BHT")) as Esid by (apply ostr_eqb_eq; exact Ebht).
    rewrite Esid in Hm. exact Hm.
Qed.

(* ------------------------------------------------------------------ *)
(* the invariant *)

Definition Inv2 (s : cstate) : Prop :=
  all_live (cs_heap s) /\ children_in_allocation_order (cs_heap s) /\ nodeinv s /\
  match cs_tree s with
  | None => match cs_data s with None => True | Some cd => plain (cs_heap s) cd end
  | Some t => exists lv d L cd r x,
       Zopen (cs_heap s) t lv ((d, L ++ [TSeg cd]) :: r) /\ cs_data s = Some cd /\
       nth_error (cs_heap s) cd = Some x /\ o_parent x = RObj d /\ o_map x = Some (cs_node s) /\
       FI (cs_heap s) ((d, L ++ [TSeg cd]) :: r) (mn_anc (cs_node s)) /\
       sref (mn_map (cs_node s)) (mn_ref (cs_node s))
  end.

Lemma sorted_new h y : children_in_allocation_order h -> o_children y = [] -> children_in_allocation_order (h ++ [y]).
Proof. intros S EE. apply Forall_app. split; [exact S|]. constructor; [rewrite EE; constructor | constructor]. Qed.

Lemma sorted_set h n y y' : children_in_allocation_order h -> nth_error h n = Some y -> o_children y' = o_children y ->
  children_in_allocation_order (set_nth h n y').
Proof. intros S EE C. apply Forall_set_nth; [exact S|]. rewrite C. eapply sorted_at; eauto. Qed.

Lemma live_set h n y' : all_live h -> o_live y' = true -> all_live (set_nth h n y').
Proof. intros L EE. apply Forall_set_nth; assumption. Qed.

Lemma fmap_set h n y y' o : nth_error h n = Some y -> o_map y' = o_map y -> fmap (set_nth h n y') o = fmap h o.
Proof.
  intros EE M. unfold fmap. destruct (Nat.eq_dec n o) as [<-|Ne].
  - rewrite nth_set_nth_eq by (eapply nth_lt; eauto). rewrite EE. exact M.
  - rewrite nth_set_nth_ne by exact Ne. reflexivity.
Qed.

Lemma Forall2_fmap_set h n y y' (ds : list oid) (ms : list mnode) : nth_error h n = Some y -> o_map y' = o_map y ->
  Forall2 (fx h) ds ms -> Forall2 (fx (set_nth h n y')) ds ms.
Proof.
  intros EE M F. induction F as [|d a ds' ms' Hd F IH]; constructor; [|exact IH].
  destruct Hd as (a' & E1 & E2). exists a'. rewrite (fmap_set _ _ _ _ _ EE M). auto.
Qed.

Lemma FI_set h n y y' fs ms : nth_error h n = Some y -> o_map y' = o_map y -> FI h fs ms -> FI (set_nth h n y') fs ms.
Proof.
  intros EE M (ms1 & ms2 & Em & F). exists ms1, ms2. split; [exact Em|]. eapply Forall2_fmap_set; eauto.
Qed.

Lemma asn_is_seg cdn N x pop push h h' n : add_segment_node cdn N x pop push h = (h', Ok n) -> mn_is_segment N = Ok true.
Proof.
  rewrite asn_unfold. intros H. apply h_bind_ok in H. destruct H as (h1 & b & H1 & H). apply h_lift_ok in H1. destruct H1 as [-> Hb].
  destruct b; [exact Hb | discriminate H].
Qed.

(* _add_segment, then the two assignments to the new node: the invariant of an open tree *)
Lemma add_stamp2 h t lv fs cdn N N1 N' x pop push h1 n sc cl :
  Zopen h t lv fs -> all_live h -> children_in_allocation_order h -> FI h fs (mn_anc N) -> TL h fs N ->
  sref (mn_map N) (mn_ref N) -> loaded (mn_map N) -> wk N N1 pop push -> sref (mn_map N1) (mn_ref N1) ->
  Forall2 xrel (mn_anc N') (mn_anc N1) ->
  (exists cdx, nth_error h cdn = Some cdx /\ (if is_seg_typed cdx then o_parent cdx else RObj cdn) = RObj (ftop fs)) ->
  add_segment_node cdn N' x pop push h = (h1, Ok n) ->
  exists y, nth_error h1 n = Some y /\
  let h2 := set_nth h1 n (stampf sc cl y) in
  all_live h2 /\ children_in_allocation_order h2 /\
  exists lv' d L r x',
    Zopen h2 t lv' ((d, L ++ [TSeg n]) :: r) /\ nth_error h2 n = Some x' /\ o_parent x' = RObj d /\ o_map x' = Some N' /\
    FI h2 ((d, L ++ [TSeg n]) :: r) (mn_anc N') /\ sref (mn_map N') (mn_ref N').
Proof.
  intros ZO L S F Tl SN [f Hf] W SN1 XA Cur EE.
  destruct (ENV _ _ Hf) as [Ok1 _].
  destruct (asn_order _ _ _ _ _ _ _ _ _ _ _ _ _ ZO L S F Tl SN (ctx_order_ok_PD _ Ok1) W SN1 XA Cur EE)
    as (d & Ls & r & ZO1 & Len & En & L1 & S1 & F1 & Sg).
  eexists. split; [exact En|]. cbv zeta.
  pose proof (nth_lt _ _ _ En) as Ln.
  assert (osame (new_seg (Some N') x (RObj d) [] []) (stampf sc cl (new_seg (Some N') x (RObj d) [] []))) as Os by (repeat split).
  split; [apply live_set; [exact L1 | reflexivity]|].
  split; [eapply sorted_set; [exact S1 | exact En | reflexivity]|].
  exists (lv ++ [n]), d, Ls, r, (stampf sc cl (new_seg (Some N') x (RObj d) [] [])).
  split; [|split; [|split; [|split; [|split]]]].
  - destruct ZO1 as (Z1 & N1' & R1 & Lv1). split; [|auto].
    eapply ZInv_agree; [| |exact Z1]; [intros o _; eapply agree_set_nth; eauto | rewrite set_nth_length; lia].
  - apply nth_set_nth_eq. exact Ln.
  - reflexivity.
  - reflexivity.
  - eapply FI_set; [exact En | reflexivity | exact F1].
  - apply mn_is_segment_sref. exact Sg.
Qed.

(* one segment of the loop *)
Lemma step_inv2 sg s s' : ctx_step E sg s = (s', Ok tt) -> Inv2 s -> Inv2 s'.
Proof.
  intros H (L & S & NI & IT). unfold ctx_step in H.
  apply c_bind_ok in H. destruct H as (s1 & st0 & H1 & H). apply c_get_ok in H1. destruct H1 as [-> ->].
  apply c_bind_ok in H. destruct H as (sa & found & Hf & H).
  pose proof (Cframe_find_node _ _ _ _ _ Hf) as Ca.
  destruct found as [[[ok pop] push] werrs].
  apply c_bind_ok in H. destruct H as (sb & u & Hs & H).
  assert (core sb = core s) as Cb.
  { rewrite <- Ca. destruct ok; [eapply Cframe_select_map; eauto | apply c_mod_ok in Hs; subst; reflexivity]. }
  destruct (find_select _ _ _ _ _ _ _ _ _ NI Hf Hs) as [NIb Wk].
  clear Hf Hs Ca.
  unfold core in Cb. injection Cb as Eh _ Et Ed _ _.
  apply c_bind_ok in H. destruct H as (s1 & st & H1 & H). apply c_get_ok in H1. destruct H1 as [-> ->].
  apply c_bind_ok in H. destruct H as (s1 & xp & H1 & H). apply c_lift_ok in H1. destruct H1 as [-> Exp].
  cbv zeta in H.
  match type of H with (if ?c then _ else _) _ = _ => destruct c eqn:Hin end.
  - (* inside the loop asked for *)
    apply c_bind_ok in H. destruct H as (s1 & first & H1 & H). apply c_lift_ok in H1. destruct H1 as [-> Efirst].
    match type of H with (if ?c then _ else _) _ = _ => destruct c eqn:Hst end.
    + (* a new tree starts *)
      apply c_bind_ok in H. destruct H as (sc & u1 & H1 & H).
      assert (cs_heap sc = cs_heap sb /\ cs_x sc = cs_x sb /\ cs_node sc = cs_node sb /\ cs_cur_map sc = cs_cur_map sb /\
              cs_file sc = cs_file sb /\ cs_vriic sc = cs_vriic sb) as (Hh & Hx & Hn & Hc & Hfl & Hvr).
      { destruct (cs_tree sb); [apply c_yield_ok in H1 | apply c_ret_ok in H1; destruct H1 as [H1 _]]; subst sc; repeat split. }
      clear H1.
      apply c_bind_ok in H. destruct H as (sd & t & H1 & H). apply c_heap_ok in H1. destruct H1 as (h1 & H1 & ->).
      unfold h_new in H1. injection H1 as <- <-.
      apply c_bind_ok in H. destruct H as (se & u2 & H1 & H). apply c_mod_ok in H1. subst se.
      apply c_bind_ok in H. destruct H as (sf & n & H1 & H). apply c_heap_ok in H1. destruct H1 as (h2 & H1 & ->).
      apply c_bind_ok in H. destruct H as (sg' & u3 & H2 & H). apply c_mod_ok in H2. subst sg'.
      apply stamp_ok in H. destruct H as (y & Ey & ->). simpl in H1, Ey.
      rewrite Hh, Eh in *.
      set (root := new_loop (Some (mn_parent (cs_node sb))) pop RNone) in *.
      pose proof (Zopen_fresh (cs_heap s) (Some (mn_parent (cs_node sb))) pop) as ZOf. fold root in ZOf.
      assert (all_live (cs_heap s ++ [root])) as Lf by (apply Forall_app; split; auto).
      assert (children_in_allocation_order (cs_heap s ++ [root])) as Sf by (apply sorted_new; [exact S | reflexivity]).
      pose proof (mn_is_segment_sref _ (asn_is_seg _ _ _ _ _ _ _ _ H1)) as SNb.
      destruct (sref_parent_lref _ _ SNb) as [_ NeNb].
      assert (FI (cs_heap s ++ [root]) [(length (cs_heap s), [])] (mn_anc (cs_node sb))) as Ff.
      { exists [mn_parent (cs_node sb)], (mn_anc (mn_parent (cs_node sb))). split; [apply mn_anc_cons; exact NeNb|].
        cbn [map fst]. constructor; [|constructor]. exists (mn_parent (cs_node sb)). split; [|apply xrel_refl].
        unfold fmap. rewrite nth_app_new. reflexivity. }
      assert (TL (cs_heap s ++ [root]) [(length (cs_heap s), [])] (cs_node sb)) as Tlf by exact Logic.I.
      assert (wk (cs_node sb) (cs_node sb) pop push) as Wkf by (left; reflexivity).
      assert (exists cdx, nth_error (cs_heap s ++ [root]) (length (cs_heap s)) = Some cdx /\
                (if is_seg_typed cdx then o_parent cdx else RObj (length (cs_heap s))) = RObj (ftop [(length (cs_heap s), [])])) as Curf
        by (eexists; split; [apply nth_app_new | reflexivity]).
      destruct (add_stamp2 _ _ _ _ _ (cs_node sb) (cs_node sb) (cs_node sb) _ pop push _ _ (seg_count (cs_x sb)) (cur_line (cs_x sb))
                  ZOf Lf Sf Ff Tlf SNb (proj1 NIb) Wkf SNb (Forall2_refl _ _ xrel_refl) Curf H1)
        as (y' & Ey' & L2 & S2 & lv' & d & Ls & r & x' & ZO & En & Pn & Mn & F2 & SN2).
      rewrite Ey in Ey'. injection Ey' as <-.
      unfold Inv2.
      cbn [cs_heap cs_tree cs_data cs_node cs_x set_heap set_data set_tree]. rewrite Hx, Hn.
      split; [exact L2|]. split; [exact S2|]. split; [eapply nodeinv_same; [| | | |exact NIb]; assumption|].
      exists lv', d, Ls, n, r, x'. repeat split; auto; apply ZO.
    + (* the tree goes on *)
      destruct (cs_data sb) as [cd|] eqn:Ecd; [|discriminate].
      apply c_bind_ok in H. destruct H as (sf & n & H1 & H). apply c_heap_ok in H1. destruct H1 as (h2 & H1 & ->).
      apply c_bind_ok in H. destruct H as (sg' & u3 & H2 & H). apply c_mod_ok in H2. subst sg'.
      apply stamp_ok in H. destruct H as (y & Ey & ->). simpl in Ey. simpl.
      rewrite Eh in *.
      destruct (cs_tree s) as [t|] eqn:Ets.
      * destruct IT as (lv & d & Ls & cd' & r & x & ZO & Ecd' & Ex & Px & Mx & F & SN).
        rewrite <- Ed in Ecd'. injection Ecd' as <-.
        destruct Wk as [Sp|Wk].
        { exfalso. pose proof Elid as El0. destruct (ce_loop E) as [i|]; [|discriminate Hin].
          destruct (Sp i xp first (eq_sym El0) Exp Efirst) as [Sp1|Sp1]; [rewrite Sp1 in Hin; discriminate Hin|].
          unfold start_b in Sp1. rewrite Sp1 in Hst. discriminate Hst. }
        destruct (Wk SN) as (N1 & Wk1 & SN1 & XA).
        assert (TL (cs_heap s) ((d, Ls ++ [TSeg cd]) :: r) (cs_node s)) as Tl0.
        { cbn [TL]. rewrite rev_app_distr. cbn [rev app troot]. unfold fmap. rewrite Ex. exact Mx. }
        assert (exists cdx, nth_error (cs_heap s) cd = Some cdx /\
                  (if is_seg_typed cdx then o_parent cdx else RObj cd) = RObj (ftop ((d, Ls ++ [TSeg cd]) :: r))) as Cur0.
        { exists x. split; [exact Ex|]. rewrite (Zopen_cd _ _ _ _ _ _ _ _ ZO Ex). exact Px. }
        destruct (add_stamp2 _ _ _ _ _ (cs_node s) N1 (cs_node sb) _ pop push _ _ (seg_count (cs_x sb)) (cur_line (cs_x sb))
                    ZO L S F Tl0 SN (proj1 NI) Wk1 SN1 XA Cur0 H1)
          as (y' & Ey' & L2 & S2 & lv' & d' & Ls' & r' & x' & ZO' & En & Pn & Mn & F2 & SN2).
        rewrite Ey in Ey'. injection Ey' as <-.
        unfold Inv2.
        cbn [cs_heap cs_tree cs_data cs_node cs_x set_heap set_data set_tree]. rewrite Et.
        split; [exact L2|]. split; [exact S2|]. split; [eapply nodeinv_same; [| | | |exact NIb]; reflexivity|].
        exists lv', d', Ls', n, r', x'. repeat split; auto; apply ZO'.
      * exfalso. rewrite <- Ed in IT. eapply asn_plain_fails; eauto.
  - (* a segment outside the loop: the tree is closed, a plain node is made *)
    apply c_bind_ok in H. destruct H as (sc & u1 & H1 & H).
    assert (cs_heap sc = cs_heap sb /\ cs_x sc = cs_x sb /\ cs_node sc = cs_node sb /\ cs_cur_map sc = cs_cur_map sb /\
            cs_tree sc = None /\ cs_data sc = cs_data sb /\ cs_file sc = cs_file sb /\ cs_vriic sc = cs_vriic sb)
      as (Hh & Hx & Hn & Hc & Ht & Hd & Hfl & Hvr).
    { destruct (cs_tree sb) eqn:Etb.
      - apply c_bind_ok in H1. destruct H1 as (s1 & u0 & H0 & H1). apply c_yield_ok in H0. subst s1.
        apply c_mod_ok in H1. subst sc. repeat split.
      - apply c_ret_ok in H1. destruct H1 as [-> _]. repeat split. exact Etb. }
    clear H1.
    apply c_bind_ok in H. destruct H as (sd & n & H1 & H).
    assert (exists par stl, (forall o, par <> RObj o) /\ n = length (cs_heap sc) /\
              sd = set_heap sc (cs_heap sc ++ [new_seg (Some (cs_node sb)) {| xg_d := de_d (ce_d E); xg_s := sg |} par stl []]))
      as (par & stl & Par & -> & ->).
    { destruct (cs_data sb).
      - apply c_bind_ok in H1. destruct H1 as (s1 & pop' & H0 & H1).
        assert (s1 = sc) as ->
          by (destruct (ce_loop E) as [[|c r]|]; [apply c_ret_ok in H0|apply c_lift_ok in H0|apply c_ret_ok in H0]; tauto).
        apply c_bind_ok in H1. destruct H1 as (s1 & pids & H2 & H1). apply c_lift_ok in H2. destruct H2 as [-> _].
        apply c_bind_ok in H1. destruct H1 as (s1 & qids & H2 & H1). apply c_lift_ok in H2. destruct H2 as [-> _].
        match type of H1 with (if ?c then _ else _) _ = _ => destruct c end; [discriminate|].
        apply c_heap_ok in H1. destruct H1 as (h1 & H1 & ->). unfold h_new in H1. injection H1 as <- <-.
        exists (RList push), pop'. repeat split; auto. discriminate.
      - apply c_heap_ok in H1. destruct H1 as (h1 & H1 & ->). unfold h_new in H1. injection H1 as <- <-.
        exists RNone, []. repeat split; auto. discriminate. }
    clear H1.
    apply c_bind_ok in H. destruct H as (s1 & u2 & H1 & H). apply c_mod_ok in H1. subst s1.
    apply c_bind_ok in H. destruct H as (s1 & u3 & H1 & H). apply stamp_ok in H1. destruct H1 as (y & Ey & ->).
    apply c_bind_ok in H. destruct H as (s1 & u4 & H1 & H). apply attach_ok in H1. destruct H1 as (y1 & y2 & Ey1 & Sf & ->).
    apply c_bind_ok in H. destruct H as (s1 & nx & H1 & H). unfold c_obj in H1. apply c_heap_ok in H1.
    destruct H1 as (h1 & H1 & ->). apply h_obj_ok in H1. destruct H1 as [-> Enx].
    apply c_bind_ok in H. destruct H as (s1 & i & H1 & H). apply c_lift_ok in H1. destruct H1 as [-> Ei].
    apply c_bind_ok in H. destruct H as (s1 & u5 & H1 & H).
    match type of H1 with (if ?c then _ else _) _ = _ => destruct c end; [discriminate|].
    apply c_ret_ok in H1. destruct H1 as [-> _].
    apply c_yield_ok in H. subst s'. simpl in Ey, Ey1, Enx. simpl. rewrite Hh, Hx, Eh in *.
    rewrite nth_app_new in Ey. injection Ey as <-.
    rewrite nth_set_nth_eq in Ey1 by (rewrite app_length; simpl; lia). injection Ey1 as <-.
    destruct Sf as (F1 & F2 & F3 & F4 & F5 & F6 & F7 & F8). simpl in F1, F2, F3, F4, F5, F6, F7, F8.
    set (nd := new_seg (Some (cs_node sb)) {| xg_d := de_d (ce_d E); xg_s := sg |} par stl []) in *.
    set (h3 := set_nth _ (length (cs_heap s)) y2).
    assert (nth_error h3 (length (cs_heap s)) = Some y2) as E3
      by (apply nth_set_nth_eq; rewrite set_nth_length, app_length; simpl; lia).
    assert (all_live h3) as L3.
    { apply live_set; [apply live_set; [apply Forall_app; split; auto | reflexivity] | rewrite F2; reflexivity]. }
    assert (children_in_allocation_order h3) as S3.
    { eapply sorted_set with (y := stampf (seg_count (cs_x sb)) (cur_line (cs_x sb)) nd).
      - eapply sorted_set with (y := nd); [apply sorted_new; [exact S | reflexivity] | apply nth_app_new | reflexivity].
      - apply nth_set_nth_eq. rewrite app_length. simpl. lia.
      - exact F6. }
    unfold Inv2.
    cbn [cs_heap cs_tree cs_data cs_x set_heap set_data set_tree set_pending set_out].
    split; [exact L3|]. split; [exact S3|]. split.
    { eapply nodeinv_same; [| | | |exact NIb]; assumption. }
    rewrite Ht. exists y2. split; [exact E3|]. split; [unfold is_seg_typed; rewrite F1, F2; reflexivity|]. rewrite F5. exact Par.
Qed.

(* the loop *)
Lemma run_inv2 : forall lines s s1, ctx_run_lines E lines s = (s1, Ok tt) -> Inv2 s -> Inv2 s1.
Proof.
  induction lines as [|ln rest IH]; intros s s1 H I.
  - simpl in H. apply c_bind_ok in H. destruct H as (s0 & st & H1 & H). apply c_get_ok in H1. destruct H1 as [-> ->].
    assert (cs_heap s1 = cs_heap s /\ cs_tree s1 = cs_tree s /\ cs_data s1 = cs_data s /\ cs_node s1 = cs_node s /\ cs_cur_map s1 = cs_cur_map s /\
            cs_file s1 = cs_file s /\ cs_vriic s1 = cs_vriic s)
      as (E1 & E2 & E3 & E4 & E5 & E6 & E7).
    { destruct (cs_tree s) eqn:Ets; [apply c_yield_ok in H | apply c_ret_ok in H; destruct H as [H _]]; subst s1; repeat split; auto. }
    unfold Inv2, nodeinv in *. rewrite E1, E2, E3, E4, E5, E6, E7. exact I.
  - change (ctx_run_lines E (ln :: rest)) with
      (doc st <- c_get;
       doc r <- c_lift (reader_line_opt (de_d (ce_d E)) (cs_x st) ln);
       match r with
       | (x', os, es) =>
           doc_ c_mod (fun st => set_pending (set_x st x') (cs_pending st ++ es));
           doc_ (match os with Some s => ctx_step E s | None => c_ret tt end);
           ctx_run_lines E rest
       end) in H.
    apply c_bind_ok in H. destruct H as (s0 & st & H1 & H). apply c_get_ok in H1. destruct H1 as [-> ->].
    apply c_bind_ok in H. destruct H as (s0 & [[x' os] es] & H1 & H). apply c_lift_ok in H1. destruct H1 as [-> Erl].
    apply c_bind_ok in H. destruct H as (sp & u1 & H1 & H). apply c_mod_ok in H1.
    apply c_bind_ok in H. destruct H as (s2 & u2 & Hstep & H).
    assert (Inv2 sp) as Ip by (subst sp; exact I).
    destruct os as [sg|].
    + destruct u2. apply (IH _ _ H). eapply step_inv2; eauto.
    + apply c_ret_ok in Hstep. destruct Hstep as [-> _]. apply (IH _ _ H Ip).
Qed.

End Run.

(* ------------------------------------------------------------------ *)
(* the theorems *)

Lemma off_path_off_or_start m p i : off_path m p i = true -> off_or_start m p i = true.
Proof.
  unfold off_path, off_or_start. destruct (getnode m p) as [r|e]; [|auto].
  destruct (node_x12path m r) as [xp|e]; [|auto]. intros ->. reflexivity.
Qed.

Lemma lid_inner_lid_ok lid m : lid_inner lid m = true -> lid_ok lid m = true.
Proof.
  destruct lid as [i|]; [|auto]. cbn [lid_inner lid_ok]. intros H.
  apply andb_true_iff in H as [H _]. apply andb_true_iff in H as [H1 H2].
  rewrite (off_path_off_or_start _ _ _ H1), (off_path_off_or_start _ _ _ H2). reflexivity.
Qed.

(* the maps between which the BHT of a 278 can switch agree along the path to BHT *)
Definition bht_env_ok (load : str -> result xmap) (ix : list map_entry) : Prop :=
  forall f1 f2 m1 m2, load f1 = Ok m1 -> load f2 = Ok m2 ->
    ((exists v, f1 = control_name v) \/ In f1 (files_278 ix)) -> In f2 (files_278 ix) -> bht_compat m1 m2 = true.

(* A. every loadable map satisfies the map-level condition, and the loop id lies on none of its fixed paths *)
Definition env_order_ok (load : str -> result xmap) (loop_id : option str) : Prop :=
  forall f m, load f = Ok m -> ctx_order_ok m = true /\ lid_inner loop_id m = true.

(* B. every loadable map satisfies the map-level condition, its ISA and GS nodes lie outside the loop asked for or
      start it, and the maps of the 278 guides agree along the path to BHT *)
Definition env_order_ok_x (load : str -> result xmap) (idx : result (list map_entry)) (loop_id : option str) : Prop :=
  (forall f m, load f = Ok m -> ctx_order_ok m = true /\ lid_ok loop_id m = true) /\
  (forall ix, idx = Ok ix -> bht_env_ok load ix).

Lemma ctx_allocation_order_gen :
  forall load idx loop_id text r,
    (forall f m, load f = Ok m -> ctx_order_ok m = true /\ lid_ok loop_id m = true) ->
    ((forall f m, load f = Ok m ->
        match loop_id with Some i => off_path m "/ISA_LOOP/GS_LOOP/ST_LOOP/HEADER/BHT" i | None => true end = true) \/
     (forall ix, idx = Ok ix -> bht_env_ok load ix)) ->
    r = iter_segments_gen load idx loop_id text -> ir_res r = Ok tt ->
    children_in_allocation_order (ir_heap r).
Proof.
  intros load idx loop_id text r ENV BH -> Hres. unfold iter_segments_gen in *.
  destruct (raw_all {| rest := text; sched := [] |}) as [[r0 lines]|e]; [|discriminate].
  destruct (load (control_name (r_icvn r0))) as [cm|e] eqn:Ecm; cbn [bind] in *; [|discriminate].
  destruct idx as [ix|e]; cbn [bind] in *; [|discriminate].
  destruct (getnode cm "/ISA_LOOP/ISA") as [n0|e] eqn:En0; cbn [bind] in *; [|discriminate].
  match type of Hres with context [ctx_run_lines ?E ?l ?s] => destruct (ctx_run_lines E l s) as [s1 res] eqn:Er end.
  simpl in Hres. subst res. simpl.
  match type of Er with ctx_run_lines ?E _ ?s0 = _ =>
    assert (Inv2 load E s0) as I0
  end.
  { split; [constructor|]. split; [constructor|]. split; [|exact I].
    split; [exists (control_name (r_icvn r0)); exact Ecm|]. split; [exact I | discriminate]. }
  match type of Er with ctx_run_lines ?E _ ?s0 = _ =>
    assert ((forall f m, load f = Ok m -> off_bht loop_id m = true) \/
            (forall f1 f2 m1 m2, load f1 = Ok m1 -> load f2 = Ok m2 -> src_file E f1 ->
               In f2 (files_278 (de_idx (ce_d E))) -> bht_compat m1 m2 = true)) as BH'
  end.
  { destruct BH as [Off|Cp]; [left; exact Off | right]. intros f1 f2 m1 m2 L1 L2 S1 S2. eapply (Cp ix eq_refl); eauto. }
  match type of Er with ctx_run_lines ?E _ ?s0 = _ =>
    pose proof (run_inv2 load loop_id ENV E eq_refl eq_refl (ex_intro _ (r_icvn r0) Ecm) BH' lines s0 s1 Er I0) as I1
  end.
  apply I1.
Qed.

Theorem ctx_allocation_order :
  forall load idx loop_id text r,
    env_order_ok load loop_id ->
    r = iter_segments_gen load idx loop_id text -> ir_res r = Ok tt ->
    children_in_allocation_order (ir_heap r).
Proof.
  intros load idx loop_id text r ENV Er Hres. eapply ctx_allocation_order_gen; [| |exact Er|exact Hres].
  - intros f m L. destruct (ENV f m L) as [H1 H2]. split; [exact H1 | apply lid_inner_lid_ok; exact H2].
  - left. intros f m L. destruct (ENV f m L) as [_ H2]. destruct loop_id as [i|]; [|reflexivity].
    cbn [lid_inner] in H2. apply andb_true_iff in H2 as [_ H2]. exact H2.
Qed.

Theorem ctx_allocation_order_x :
  forall load idx loop_id text r,
    env_order_ok_x load idx loop_id ->
    r = iter_segments_gen load idx loop_id text -> ir_res r = Ok tt ->
    children_in_allocation_order (ir_heap r).
Proof.
  intros load idx loop_id text r [ENV BH] Er Hres. eapply ctx_allocation_order_gen; [exact ENV | right; exact BH | exact Er | exact Hres].
Qed.

(* the conclusion of C09_no_loss_no_reorder_partial without its premise *)
Theorem ctx_no_loss_no_reorder_inner :
  forall load idx loop_id text r,
    env_order_ok load loop_id ->
    r = iter_segments_gen load idx loop_id text -> ir_res r = Ok tt ->
    exists src yss,
      source_items text = Ok src /\
      Forall2 (fun y ys => yield_items y = Ok ys) (ir_yields r) yss /\
      concat yss = src.
Proof.
  intros load idx loop_id text r ENV Er Hres.
  eapply ctx_no_loss_no_reorder_partial; [exact Er | exact Hres |].
  eapply ctx_allocation_order; eauto.
Qed.

Theorem ctx_no_loss_no_reorder_x :
  forall load idx loop_id text r,
    env_order_ok_x load idx loop_id ->
    r = iter_segments_gen load idx loop_id text -> ir_res r = Ok tt ->
    exists src yss,
      source_items text = Ok src /\
      Forall2 (fun y ys => yield_items y = Ok ys) (ir_yields r) yss /\
      concat yss = src.
Proof.
  intros load idx loop_id text r ENV Er Hres.
  eapply ctx_no_loss_no_reorder_partial; [exact Er | exact Hres |].
  eapply ctx_allocation_order_x; eauto.
Qed.

Print Assumptions ctx_allocation_order.
Print Assumptions ctx_allocation_order_x.
Print Assumptions ctx_no_loss_no_reorder_inner.
Print Assumptions ctx_no_loss_no_reorder_x.
