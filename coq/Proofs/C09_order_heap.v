(* C09_order_heap.v — where _get_insert_idx puts a new loop node, and _add_segment on an open tree whose
   branch of open loops carries exactly the map nodes the walker talks about.

   1. get_insert_idx / add_loop_node: when the LAST child of the target has a map position <= that of the
      new loop's map node (or there is no child), the new node goes to the end, and a store whose children
      lists are in allocation order stays so                                   (add_loop_node_end: the
      single-step lemma; nothing about maps or walkers is assumed)
   2. the frames of an open tree (Proofs/C09_heap.v: ZInv) together with the map nodes of the frame
      objects (`FI`), through pops, pushes, the "same loop again" branch and the final append
   3. asn_order: one _add_segment keeps allocation order, the open tree and the correspondence between
      frame objects and the enclosing map loops of the current map node, given
        - what the walker guarantees about (node, pop_loops, push_loops)  (hypothesis `wk`, proved from
          the map predicate in Proofs/C09_order_walker.v / C09_order_run.v)
        - that loops of the map with equal x12 paths are the same loop                  (hypothesis PD) *)
From Coq Require Import String List ZArith Lia Sorted Permutation.
From PX.Lib Require Import Base PyStr.
From PX.Model Require Import Path Segment MapLoad MapTree Walker Context CtxReader.
From PX.Spec Require Import C09_spec.
From PX.Spec Require Import C07_walker_wf.
From PX.Proofs Require Import C09_heap C09_addseg Counter_keys C07_walker_lemmas C09_order_walker.
Import ListNotations.

(* ------------------------------------------------------------------ *)
(* 1. _get_insert_idx.  (With no child at a position <= the new one the model answers index 0 — the new node
   goes FIRST; the lemmas below only use: no child at all, or the LAST child at a position <= the new one.) *)

Definition gi_go (h : heap) (map_idx : Z) :=
  fix go (i : nat) (cs : list oid) (acc : option nat) : result (option nat) :=
    match cs with
    | [] => Ok acc
    | c :: r =>
        do cx <- h_get h c;
        match o_map cx with
        | None => Raise AttributeError
        | Some cm => do p <- mn_pos cm; go (S i) r (if (p <=? map_idx)%Z then Some i else acc)
        end
    end.

(* the last child (if any) has a map position <= pp *)
Definition last_pos_le (h : heap) (cs : list oid) (pp : Z) : Prop :=
  match rev cs with
  | [] => True
  | c :: _ => exists cx cm pc, nth_error h c = Some cx /\ o_map cx = Some cm /\ mn_pos cm = Ok pc /\ (pc <= pp)%Z
  end.

Lemma gi_go_last h pp : forall cs i acc r,
  gi_go h pp i cs acc = Ok r -> last_pos_le h cs pp -> cs <> [] -> r = Some (i + length cs - 1).
Proof.
  induction cs as [|c rest IH]; intros i acc r E L N; [congruence|].
  cbn [gi_go] in E. unfold h_get in E.
  destruct (nth_error h c) as [cx|] eqn:Ec; cbn [bind] in E; [|discriminate E].
  destruct (o_map cx) as [cm|] eqn:Em; [|discriminate E].
  destruct (mn_pos cm) as [p|e] eqn:Ep; cbn [bind] in E; [|discriminate E].
  destruct rest as [|c2 rest'].
  - cbn [gi_go] in E. unfold last_pos_le in L. cbn [rev app] in L.
    destruct L as (cx' & cm' & pc & E1 & E2 & E3 & Le).
    rewrite Ec in E1. injection E1 as <-. rewrite Em in E2. injection E2 as <-. rewrite Ep in E3. injection E3 as <-.
    assert ((p <=? pp)%Z = true) as Hle by (apply Z.leb_le; exact Le). rewrite Hle in E. injection E as <-.
    cbn [length]. f_equal. lia.
  - assert (r = Some (S i + length (c2 :: rest') - 1)) as ->.
    { eapply IH; [exact E | | discriminate]. unfold last_pos_le in *. cbn [rev] in *.
      destruct (rev rest' ++ [c2]) as [|z zs] eqn:Ez; [destruct (rev rest'); discriminate Ez|]. cbn [app] in L. exact L. }
    cbn [length]. f_equal. lia.
Qed.

Lemma get_insert_idx_unfold self mn :
  get_insert_idx self mn =
  (doh_ cleanup self;
   doh map_idx <- h_lift (mn_pos mn);
   doh x <- h_obj self;
   doh idx <- h_read (fun h => gi_go h map_idx 0 (o_children x) None);
   h_ret (match idx with Some i => S i | None => 0 end)).
Proof. reflexivity. Qed.

Lemma get_insert_idx_end d p h h' idx x pp :
  all_live h -> nth_error h d = Some x -> mn_pos p = Ok pp -> last_pos_le h (o_children x) pp ->
  get_insert_idx d p h = (h', Ok idx) -> h' = h /\ idx = length (o_children x).
Proof.
  intros L Ex Ep LP E. pose proof (get_insert_idx_live _ _ _ _ _ L E) as ->. split; [reflexivity|].
  rewrite get_insert_idx_unfold in E.
  apply h_bind_ok in E. destruct E as (h1 & u & E1 & E). apply cleanup_live in E1; [|exact L]. subst h1.
  apply h_bind_ok in E. destruct E as (h1 & mi & E1 & E). apply h_lift_ok in E1. destruct E1 as [-> E1].
  rewrite Ep in E1. injection E1 as <-.
  apply h_bind_ok in E. destruct E as (h1 & x1 & E1 & E). apply h_obj_ok in E1. destruct E1 as [-> E1].
  rewrite Ex in E1. injection E1 as <-.
  apply h_bind_ok in E. destruct E as (h1 & io & E1 & E). apply h_read_ok in E1. destruct E1 as [-> E1].
  apply h_ret_ok in E. destruct E as [_ ->].
  destruct (o_children x) as [|c cs] eqn:Ecs.
  - cbn [gi_go] in E1. injection E1 as <-. reflexivity.
  - rewrite (gi_go_last _ _ _ _ _ _ E1 LP) by discriminate. cbn [length]. lia.
Qed.

Lemma insert_at_end {A} (cs : list A) v : insert_at cs (length cs) v = cs ++ [v].
Proof. induction cs as [|c cs IH]; cbn [insert_at length app]; [reflexivity | rewrite IH; reflexivity]. Qed.

Lemma sorted_snoc cs v : StronglySorted lt cs -> Forall (fun c => c < v) cs -> StronglySorted lt (cs ++ [v]).
Proof.
  induction 1 as [|c cs S IH F]; intros B; cbn [app].
  - constructor; constructor.
  - inversion B; subst. constructor; [apply IH; assumption|]. apply Forall_app. split; [exact F|]. constructor; [assumption | constructor].
Qed.

Lemma last_pos_le_app h y cs pp : last_pos_le h cs pp -> last_pos_le (h ++ [y]) cs pp.
Proof.
  unfold last_pos_le. destruct (rev cs) as [|c r]; [auto|].
  intros (cx & cm & pc & E1 & R). exists cx, cm, pc. split; [apply nth_app_old; exact E1 | exact R].
Qed.

(* THE SINGLE-STEP LEMMA: one _add_loop_node whose target's last child is not positioned after the new
   node keeps every children list in allocation order *)
Lemma add_loop_node_end d p h h' n x :
  add_loop_node d p h = (h', Ok n) -> all_live h -> children_in_allocation_order h ->
  nth_error h d = Some x -> Forall (fun c => c < length h) (o_children x) ->
  (forall pp, mn_pos p = Ok pp -> last_pos_le h (o_children x) pp) ->
  children_in_allocation_order h'.
Proof.
  intros E L S Ex B LP. unfold add_loop_node in E.
  apply h_bind_ok in E. destruct E as (h1 & n1 & E1 & E). unfold h_new in E1. injection E1 as <- <-.
  apply h_bind_ok in E. destruct E as (h2 & idx & E2 & E).
  assert (exists pp, mn_pos p = Ok pp) as [pp Ep].
  { rewrite get_insert_idx_unfold in E2. apply h_bind_ok in E2. destruct E2 as (h3 & u & _ & E2).
    apply h_bind_ok in E2. destruct E2 as (h4 & mi & E3 & _). apply h_lift_ok in E3. destruct E3 as [_ E3]. eauto. }
  assert (all_live (h ++ [new_loop (Some p) [] (RObj d)])) as L1 by (apply Forall_app; split; auto).
  destruct (get_insert_idx_end _ _ _ _ _ _ _ L1 (nth_app_old _ _ _ _ Ex) Ep (last_pos_le_app _ _ _ _ (LP _ Ep)) E2) as [-> ->].
  apply h_bind_ok in E. destruct E as (h3 & u & E3 & E). apply h_ret_ok in E. destruct E as [-> ->].
  unfold insert_child, h_mod in E3. apply h_bind_ok in E3. destruct E3 as (h4 & x1 & E4 & E3).
  apply h_obj_ok in E4. destruct E4 as [-> E4]. rewrite (nth_app_old _ _ _ _ Ex) in E4. injection E4 as <-.
  unfold h_put in E3. injection E3 as <-.
  unfold children_in_allocation_order. apply Forall_set_nth.
  - apply Forall_app. split; [exact S|]. constructor; [cbn; constructor | constructor].
  - cbn [upd_children o_children]. rewrite insert_at_end. apply sorted_snoc; [eapply sorted_at; eauto | exact B].
Qed.

(* ------------------------------------------------------------------ *)
(* 2. frames with the map nodes of their objects *)

Definition fmap (h : heap) (o : oid) : option mnode :=
  match nth_error h o with Some x => o_map x | None => None end.

Definition omap_kept (h h' : heap) : Prop := forall o, o < length h -> fmap h' o = fmap h o.

Lemma omap_kept_refl h : omap_kept h h.
Proof. intros o _. reflexivity. Qed.
Lemma omap_kept_trans a b c : length a <= length b -> omap_kept a b -> omap_kept b c -> omap_kept a c.
Proof. intros Le H1 H2 o Lo. rewrite H2 by lia. apply H1. exact Lo. Qed.

Lemma graft_omap_kept h h' d n y : graft h h' d n y -> omap_kept h h'.
Proof.
  intros (Hn & Hl & Hy & (x & Ex & Ex') & Ho) o Lo. unfold fmap. destruct (Nat.eq_dec o d) as [->|N].
  - rewrite Ex, Ex'. reflexivity.
  - rewrite Ho by assumption. reflexivity.
Qed.

(* two map nodes (possibly of different maps) with the same position and the same x12 path: neither
   _get_insert_idx nor the path comparison of _add_segment can tell them apart *)
Definition xrel (a' a : mnode) : Prop := mn_pos a' = mn_pos a /\ mn_x12path a' = mn_x12path a.

Lemma xrel_refl a : xrel a a.
Proof. split; reflexivity. Qed.
Lemma xrel_sym a b : xrel a b -> xrel b a.
Proof. intros [H1 H2]. split; congruence. Qed.
Lemma xrel_trans a b c : xrel a b -> xrel b c -> xrel a c.
Proof. intros [H1 H2] [H3 H4]. split; congruence. Qed.

(* the object d carries a map node that matches a *)
Definition fx (h : heap) (d : oid) (a : mnode) : Prop := exists a', fmap h d = Some a' /\ xrel a' a.

(* the frame objects carry (up to xrel) a prefix of the list `ms` of map nodes *)
Definition FI (h : heap) (fs : list frame) (ms : list mnode) : Prop :=
  exists ms1 ms2, ms = ms1 ++ ms2 /\ Forall2 (fx h) (map fst fs) ms1.

Lemma Forall2_len {A B} (P : A -> B -> Prop) xs ys : Forall2 P xs ys -> length xs = length ys.
Proof. induction 1; cbn [length]; congruence. Qed.

Lemma Forall2_skipn {A B} (P : A -> B -> Prop) j : forall xs ys, Forall2 P xs ys -> Forall2 P (skipn j xs) (skipn j ys).
Proof.
  induction j as [|j IH]; intros xs ys F; [exact F|]. destruct F; cbn [skipn]; [constructor | apply IH; assumption].
Qed.

Lemma Forall2_nth {A B} (P : A -> B -> Prop) xs ys : Forall2 P xs ys ->
  forall j x, nth_error xs j = Some x -> exists y, nth_error ys j = Some y /\ P x y.
Proof.
  induction 1 as [|x0 y0 xs ys Pxy F IH]; intros j x E; [destruct j; discriminate E|].
  destruct j as [|j]; cbn [nth_error] in *; [injection E as <-; eauto | apply IH; exact E].
Qed.

Lemma Forall2_fmap_kept h h' (ds : list oid) (ms : list mnode) :
  (forall o, o < length h -> fmap h' o = fmap h o) -> Forall (fun o => o < length h) ds ->
  Forall2 (fx h) ds ms -> Forall2 (fx h') ds ms.
Proof.
  intros K B F. revert B. induction F as [|d a ds' ms' Hda F IH]; intros B; constructor; inversion B; subst.
  - destruct Hda as (a' & E1 & E2). exists a'. rewrite K by assumption. auto.
  - apply IH. assumption.
Qed.

Lemma FI_kept h h' fs ms : omap_kept h h' -> Forall (fun o => o < length h) (map fst fs) -> FI h fs ms -> FI h' fs ms.
Proof.
  intros K B (ms1 & ms2 & E & F). exists ms1, ms2. split; [exact E|]. eapply Forall2_fmap_kept; eauto.
Qed.

Lemma Zopen_bound h t lv fs : Zopen h t lv fs -> Forall (fun o => o < length h) (map fst fs).
Proof.
  intros ([_ _ _ Z4] & _). apply Forall_forall. intros o I. rewrite Forall_forall in Z4. apply Z4.
  clear -I. induction fs as [|f r IH]; cbn [map foids flat_map] in *; [destruct I|].
  destruct I as [<-|I]; [left; reflexivity | right; apply in_or_app; right; apply IH; exact I].
Qed.

(* closing j frames *)
Fixpoint close_n (j : nat) (fs : list frame) : list frame :=
  match j, fs with
  | S j', (d, L) :: (d', L') :: r => close_n j' ((d', L' ++ [TLoop d L]) :: r)
  | _, _ => fs
  end.

Lemma close_n_0 fs : close_n 0 fs = fs.
Proof. destruct fs as [|[d L] [|[d' L'] r]]; reflexivity. Qed.

Lemma close_n_fst : forall j fs, j < length fs -> map fst (close_n j fs) = skipn j (map fst fs).
Proof.
  induction j as [|j IH]; intros fs Lt; [destruct fs as [|[d L] [|[d' L'] r]]; reflexivity|].
  destruct fs as [|[d L] [|[d' L'] r]]; cbn [length] in Lt; try lia.
  cbn [close_n]. rewrite IH by (cbn [length]; lia). reflexivity.
Qed.

Lemma close_n_top : forall j fs, S j < length fs ->
  exists d L dj Lj r, close_n (S j) fs = (d, L ++ [TLoop dj Lj]) :: r /\ nth_error (map fst fs) j = Some dj.
Proof.
  induction j as [|j IH]; intros fs Lt; destruct fs as [|[d0 L0] [|[d1 L1] r]]; cbn [length] in Lt; try lia.
  - cbn [close_n]. destruct r as [|[d2 L2] r']; exists d1, L1, d0, L0; eexists; split; reflexivity.
  - change (close_n (S (S j)) ((d0, L0) :: (d1, L1) :: r)) with (close_n (S j) ((d1, L1 ++ [TLoop d0 L0]) :: r)).
    destruct (IH ((d1, L1 ++ [TLoop d0 L0]) :: r)) as (d & L & dj & Lj & r' & E1 & E2); [cbn [length]; lia|].
    exists d, L, dj, Lj, r'. split; [exact E1|]. cbn [map fst nth_error] in *. exact E2.
Qed.

Lemma pops_spec2 h t lv ps : forall fs cur1 h',
  Zopen h t lv fs -> pops_f (RObj (ftop fs)) ps h = (h', Ok cur1) ->
  h' = h /\ (cur1 = RNone \/
             (length ps < length fs /\ Zopen h t lv (close_n (length ps) fs) /\ cur1 = RObj (ftop (close_n (length ps) fs)))).
Proof.
  induction ps as [|p ps IH]; intros fs cur1 h' ZO E; simpl in E.
  - apply h_ret_ok in E. destruct E as [-> ->]. split; auto. right.
    destruct ZO as (Z & N & R & Lv). destruct fs as [|f fs']; [congruence|].
    cbn [length]. rewrite close_n_0. split; [lia|]. split; [|reflexivity]. split; auto.
  - destruct ZO as (Z & N & R & Lv). destruct fs as [|[d Ls] r]; [congruence|]. simpl ftop in E.
    destruct (ZInv_top _ _ _ _ Z) as (x & Ex & C1 & C2 & C3 & C4 & B).
    apply h_bind_ok in E. destruct E as (h1 & i & E1 & E). apply h_read_ok in E1. destruct E1 as [-> _].
    apply h_bind_ok in E. destruct E as (h1 & pi & E1 & E). apply h_lift_ok in E1. destruct E1 as [-> _].
    destruct (negb (ostr_eqb i pi)); [discriminate|].
    apply h_bind_ok in E. destruct E as (h1 & up & E1 & E). apply h_read_ok in E1. destruct E1 as [-> E1].
    simpl in E1. unfold h_get in E1. rewrite Ex in E1. simpl in E1. injection E1 as <-. rewrite C4 in E.
    destruct r as [|[d' L'] r'].
    + apply pops_none in E. destruct E as (-> & -> & ->). auto.
    + destruct (IH ((d', L' ++ [TLoop d Ls]) :: r') cur1 h') as [-> [->|(Lt & ZO' & ->)]]; auto.
      { split; [apply ZInv_close; auto|]. split; [discriminate|]. split; [rewrite froot_close; auto | rewrite fleaves_close; auto]. }
      split; auto. right. cbn [length] in *. split; [lia|]. split; [exact ZO' | reflexivity].
Qed.

Definition top_kids (fs : list frame) : list oid := match fs with (d, L) :: _ => map troot L | [] => [] end.

(* one `cur = cur._add_loop_node(p)` at the deepest frame, appended *)
Lemma ral_spec2 h t lv fs p h1 nxt :
  Zopen h t lv fs -> all_live h -> children_in_allocation_order h ->
  (forall pp, mn_pos p = Ok pp -> last_pos_le h (top_kids fs) pp) ->
  ref_add_loop_node (RObj (ftop fs)) p h = (h1, Ok nxt) ->
  exists n, nxt = RObj n /\ Zopen h1 t lv ((n, []) :: fs) /\ all_live h1 /\ children_in_allocation_order h1 /\
            length h <= length h1 /\ segs_kept h h1 /\ omap_kept h h1 /\ fmap h1 n = Some p.
Proof.
  intros ZO L S LP E. pose proof E as E0. destruct ZO as (Z & N & R & Lv). destruct fs as [|[d Ls] r]; [congruence|]. simpl in E.
  destruct (ZInv_top _ _ _ _ Z) as (x & Ex & C1 & C2 & C3 & C4 & B).
  apply h_bind_ok in E. destruct E as (h2 & x1 & E1 & E). apply h_obj_ok in E1. destruct E1 as [-> E1].
  rewrite Ex in E1. injection E1 as <-. rewrite C1 in E.
  apply h_bind_ok in E. destruct E as (h3 & n & E2 & E). apply h_ret_ok in E. destruct E as [Eh ->]. subst h3.
  assert (children_in_allocation_order h1) as S1.
  { eapply add_loop_node_end; eauto. cbn [top_kids] in LP. rewrite C3. exact LP. }
  pose proof (add_loop_node_spec _ _ _ _ _ _ E2 L S1 Ex B) as G.
  destruct (ral_spec h t lv ((d, Ls) :: r) p h1 (RObj n)) as (n' & En & ZO1 & L1 & Len1 & K1); auto.
  { split; auto. }
  injection En as <-. exists n. repeat split; auto; try apply ZO1.
  - eapply graft_omap_kept; eauto.
  - destruct G as (_ & _ & Hy & _). unfold fmap. rewrite Hy. reflexivity.
Qed.

Lemma pushes_spec2 t lv ps : forall h fs cur' h' ms,
  Zopen h t lv fs -> all_live h -> children_in_allocation_order h -> FI h fs ms ->
  (match ps with [] => True | q :: _ => forall pp, mn_pos q = Ok pp -> last_pos_le h (top_kids fs) pp end) ->
  pushes_f (RObj (ftop fs)) ps h = (h', Ok cur') ->
  exists fs', Zopen h' t lv fs' /\ cur' = RObj (ftop fs') /\ all_live h' /\ children_in_allocation_order h' /\
              length h <= length h' /\ segs_kept h h' /\ omap_kept h h' /\ FI h' fs' (rev ps ++ ms).
Proof.
  induction ps as [|p ps IH]; intros h fs cur' h' ms ZO L S F LP E.
  - simpl in E. apply h_ret_ok in E. destruct E as [-> ->]. exists fs. repeat split; auto; try apply ZO; try apply segs_kept_refl; try apply omap_kept_refl.
  - change (pushes_f (RObj (ftop fs)) (p :: ps)) with (doh nxt <- ref_add_loop_node (RObj (ftop fs)) p; pushes_f nxt ps) in E.
    apply h_bind_ok in E. destruct E as (h1 & nxt & E1 & E).
    destruct (ral_spec2 _ _ _ _ _ _ _ ZO L S LP E1) as (n & -> & ZO1 & L1 & S1 & Len1 & K1 & O1 & Mn).
    assert (FI h1 ((n, []) :: fs) (p :: ms)) as F1.
    { pose proof (FI_kept _ _ _ _ O1 (Zopen_bound _ _ _ _ ZO) F) as (ms1 & ms2 & Em & F2).
      exists (p :: ms1), ms2. split; [rewrite Em; reflexivity|]. constructor; auto. exists p. split; [exact Mn | apply xrel_refl]. }
    destruct (IH h1 ((n, []) :: fs) cur' h' (p :: ms) ZO1 L1 S1 F1) as (fs' & ZO' & -> & L' & S' & Len' & K' & O' & F'); auto.
    { destruct ps; [exact I|]. intros pp _. cbn [top_kids map]. exact I. }
    exists fs'. repeat split; auto; try apply ZO'; try lia.
    + eapply segs_kept_trans; eauto.
    + eapply omap_kept_trans; eauto.
    + cbn [rev]. rewrite <- app_assoc. exact F'.
Qed.

(* the new segment node at the deepest frame *)
Lemma tail_spec2 h t lv fs seg_mn x h' n ms :
  Zopen h t lv fs -> all_live h -> children_in_allocation_order h -> FI h fs ms ->
  asn_tail seg_mn x (RObj (ftop fs)) h = (h', Ok n) ->
  exists d L r, fs = (d, L) :: r /\ Zopen h' t (lv ++ [n]) ((d, L ++ [TSeg n]) :: r) /\ n = length h /\
                nth_error h' n = Some (new_seg (Some seg_mn) x (RObj d) [] []) /\
                all_live h' /\ children_in_allocation_order h' /\ FI h' ((d, L ++ [TSeg n]) :: r) ms.
Proof.
  intros ZO L S F E.
  destruct (tail_spec _ _ _ _ _ _ _ _ ZO L E) as (d & Ls & r & -> & ZO2 & -> & En & L2 & K2).
  exists d, Ls, r. repeat split; auto; try apply ZO2.
  - (* allocation order *)
    destruct ZO as (Z & N & R & Lv). simpl in E.
    destruct (ZInv_top _ _ _ _ Z) as (ox & Ex & C1 & C2 & C3 & C4 & B).
    apply h_bind_ok in E. destruct E as (h1 & ox1 & E1 & E). apply h_obj_ok in E1. destruct E1 as [-> E1].
    rewrite Ex in E1. injection E1 as <-. unfold obj_children in E. rewrite C1 in E.
    apply h_bind_ok in E. destruct E as (h1 & n1 & E1 & E). unfold h_new in E1. injection E1 as <- <-.
    apply h_bind_ok in E. destruct E as (h2 & u & E2 & E). apply h_ret_ok in E. destruct E as [-> _].
    unfold h_put in E2. injection E2 as <-.
    unfold children_in_allocation_order. apply Forall_set_nth.
    + apply Forall_app. split; [exact S|]. constructor; [cbn; constructor | constructor].
    + cbn [upd_children o_children]. apply sorted_snoc; [eapply sorted_at; eauto | exact B].
  - (* the map nodes of the frame objects *)
    destruct F as (ms1 & ms2 & Em & F). exists ms1, ms2. split; [exact Em|]. cbn [map fst] in *.
    pose proof (Zopen_bound _ _ _ _ ZO) as Bd. cbn [map fst] in Bd.
    assert (forall o, o < length h -> fmap h' o = fmap h o) as K.
    { intros o Lo. simpl in E. destruct ZO as (Z & _).
      destruct (ZInv_top _ _ _ _ Z) as (ox & Ex & C1 & C2 & C3 & C4 & B).
      apply h_bind_ok in E. destruct E as (h1 & ox1 & E1 & E). apply h_obj_ok in E1. destruct E1 as [-> E1].
      rewrite Ex in E1. injection E1 as <-. unfold obj_children in E. rewrite C1 in E.
      apply h_bind_ok in E. destruct E as (h1 & n1 & E1 & E). unfold h_new in E1. injection E1 as <- <-.
      apply h_bind_ok in E. destruct E as (h2 & u & E2 & E). apply h_ret_ok in E. destruct E as [-> _].
      unfold h_put in E2. injection E2 as <-. unfold fmap.
      destruct (Nat.eq_dec d o) as [<-|Nd].
      - rewrite nth_set_nth_eq by (rewrite app_length; simpl; lia). rewrite Ex. reflexivity.
      - rewrite nth_set_nth_ne by auto. rewrite nth_error_app1 by exact Lo. reflexivity. }
    eapply Forall2_fmap_kept; eauto.
Qed.

(* ------------------------------------------------------------------ *)
(* 3. _add_segment *)


Definition mn_anc (a : mnode) : list mnode := map (mn_of (mn_map a)) (ancs (mn_ref a)).

Lemma mn_anc_cons a : mn_ref a <> [] -> mn_anc a = mn_parent a :: mn_anc (mn_parent a).
Proof. intros H. unfold mn_anc. rewrite (ancs_nonnil _ H). reflexivity. Qed.

(* what the walker guarantees, in terms of map nodes: N the start node, N' the node of the new segment *)
Definition wk (N N' : mnode) (pop push : list mnode) : Prop :=
  N' = N \/
  (mn_map N' = mn_map N /\ exists tail, mn_anc N = pop ++ tail /\ mn_anc N' = rev push ++ tail /\
     match push with
     | [] => True
     | q :: _ => exists pq base, mn_pos q = Ok pq /\ (base <= pq)%Z /\
                   match rev pop with [] => mn_pos N = Ok base | p :: _ => mn_pos p = Ok base end
     end).

(* loops (and the root) of a map with equal x12 paths are the same *)
Definition PD (m : xmap) : Prop :=
  forall r1 r2 p, lref m r1 -> lref m r2 -> node_x12path m r1 = Ok p -> node_x12path m r2 = Ok p -> r1 = r2.

Definition sref (m : xmap) (r : nref) : Prop := exists sn, node_at (root_nodes m) r = Some (NSeg sn).

(* the last child of the deepest frame, if any, carries the map node N *)
Definition TL (h : heap) (fs : list frame) (N : mnode) : Prop :=
  match fs with
  | [] => False
  | (d, L) :: _ => match rev L with [] => True | k :: _ => fmap h (troot k) = Some N end
  end.

Lemma path_eqb_refl x : path_eqb x x = true.
Proof.
  unfold path_eqb.
  assert (forall l, list_eqb str_eqb l l = true) as LR
    by (induction l as [|y l IH]; cbn [list_eqb]; [reflexivity | rewrite str_eqb_refl, IH; reflexivity]).
  rewrite LR, Bool.eqb_reflx.
  destruct (seg_id x), (id_val x), (ele_idx x), (subele_idx x); cbn [opt_eqb];
    rewrite ?str_eqb_refl, ?N.eqb_refl; reflexivity.
Qed.

Lemma sref_parent_lref m r : sref m r -> lref m (removelast r) /\ r <> [].
Proof.
  intros [sn H]. split; [|intros ->; discriminate H].
  destruct (node_at_removelast _ _ _ H) as [E | [q [Hq Lq]]]; [left; exact E | right; eauto].
Qed.

Lemma mn_is_segment_sref a : mn_is_segment a = Ok true -> sref (mn_map a) (mn_ref a).
Proof.
  unfold mn_is_segment, mn_view. destruct (mn_ref a) as [|i r] eqn:E; cbn [bind]; [discriminate|].
  unfold get_node. destruct (node_at (root_nodes (mn_map a)) (i :: r)) as [n|] eqn:En; cbn [bind]; [|discriminate].
  destruct n as [? ? ? ? ? ? ? | sn]; [discriminate|]. intros _. exists sn. exact En.
Qed.

Lemma app_split_len {A} (p t a b : list A) : p ++ t = a ++ b -> length p <= length a ->
  p = firstn (length p) a /\ t = skipn (length p) a ++ b.
Proof.
  revert a. induction p as [|x p IH]; intros a E Le; cbn [length firstn skipn app] in *.
  - split; [reflexivity | exact E].
  - destruct a as [|y a]; cbn [length] in Le; [lia|]. cbn [app] in E. injection E as -> E.
    destruct (IH a E) as [E1 E2]; [lia|]. cbn [firstn skipn]. split; [f_equal; exact E1 | exact E2].
Qed.

Lemma firstn_S_nth {A} (l : list A) : forall j x, nth_error l j = Some x -> firstn (S j) l = firstn j l ++ [x].
Proof.
  induction l as [|y l IH]; intros j x E; [destruct j; discriminate E|].
  destruct j as [|j]; cbn [nth_error] in E.
  - injection E as <-. reflexivity.
  - cbn [firstn app]. f_equal. apply IH. exact E.
Qed.

Lemma fmap_some h o a : fmap h o = Some a -> exists x, nth_error h o = Some x /\ o_map x = Some a.
Proof. unfold fmap. destruct (nth_error h o) as [x|]; [eauto | discriminate]. Qed.

Lemma mn_parent_eq a b : mn_map a = mn_map b -> removelast (mn_ref a) = removelast (mn_ref b) -> mn_parent a = mn_parent b.
Proof. unfold mn_parent. intros -> ->. reflexivity. Qed.

Lemma Forall2_rel {A B} (P : A -> B -> Prop) (R : B -> B -> Prop) ds ms ms' :
  (forall d a a'', P d a -> R a'' a -> P d a'') -> Forall2 P ds ms -> Forall2 R ms' ms -> Forall2 P ds ms'.
Proof.
  intros C F. revert ms'. induction F as [|d a ds0 ms0 Hd F IH]; intros ms' G; inversion G; subst; constructor; eauto.
Qed.

Lemma Forall2_refl {A} (R : A -> A -> Prop) l : (forall x, R x x) -> Forall2 R l l.
Proof. intros H. induction l; constructor; auto. Qed.

(* the list of map nodes may be replaced by a matching one *)
Lemma FI_xrel h fs ms ms' : Forall2 xrel ms' ms -> FI h fs ms -> FI h fs ms'.
Proof.
  intros G (ms1 & ms2 & E & F). subst ms. apply Forall2_app_inv_r in G. destruct G as (ms1' & ms2' & G1 & G2 & ->).
  exists ms1', ms2'. split; [reflexivity|]. eapply Forall2_rel; [|exact F|exact G1].
  intros d a a'' (a' & E1 & E2) R. exists a'. split; [exact E1|]. eapply xrel_trans; [exact E2 | apply xrel_sym; exact R].
Qed.

(* where the new segment node is to be hung.
   N: the map node the walker started from (the node of the previous segment); N1: the node it found
   (N itself when it found none); N': the node _add_segment is called with — N1, except at the BHT of a
   278, where it is the fixed-path BHT node of the newly selected map, whose enclosing loop matches N1's *)
Lemma cur_spec2 h t lv fs N N1 N' pop push b h1 cur lm lp np :
  Zopen h t lv fs -> all_live h -> children_in_allocation_order h -> FI h fs (mn_anc N) -> TL h fs N ->
  sref (mn_map N) (mn_ref N) -> PD (mn_map N) -> wk N N1 pop push -> sref (mn_map N1) (mn_ref N1) ->
  xrel (mn_parent N') (mn_parent N1) ->
  fmap h (ftop fs) = Some lm -> mn_x12path lm = Ok lp -> mn_x12path (mn_parent N') = Ok np ->
  b = negb (path_eqb lp np) ->
  asn_cur N' (RObj (ftop fs)) pop push b h = (h1, Ok cur) ->
  cur = RNone \/
  exists fs', Zopen h1 t lv fs' /\ cur = RObj (ftop fs') /\ all_live h1 /\ children_in_allocation_order h1 /\
              length h <= length h1 /\ segs_kept h h1 /\ omap_kept h h1 /\ FI h1 fs' (mn_anc N1).
Proof.
  intros ZO L S F Tl SN Pd W SN1 XP Elm Elp Enp Eb E.
  destruct (sref_parent_lref _ _ SN) as [LrN NeN].
  destruct (sref_parent_lref _ _ SN1) as [LrN1 NeN1].
  assert (Zf : fs <> []) by apply ZO.
  destruct fs as [|[d Ls] r]; [congruence|]. cbn [ftop fst] in *.
  (* the deepest frame carries (a node matching) the enclosing loop of N *)
  assert (xrel lm (mn_parent N)) as Hlm.
  { destruct F as (ms1 & ms2 & Em & F). rewrite (mn_anc_cons _ NeN) in Em. cbn [map fst] in F.
    inversion F as [|? a1 ? ms1' Hd F']; subst. cbn [app] in Em. injection Em as <- _.
    destruct Hd as (a' & E1 & E2). rewrite Elm in E1. injection E1 as <-. exact E2. }
  assert (mn_x12path (mn_parent N) = Ok lp) as ElpN by (destruct Hlm as [_ <-]; exact Elp).
  assert (mn_x12path (mn_parent N1) = Ok np) as EnpN1 by (destruct XP as [_ <-]; exact Enp).
  (* when the paths agree, the enclosing loops of N and N1 agree *)
  assert (b = false -> mn_parent N1 = mn_parent N /\ mn_anc N1 = mn_anc N) as Same.
  { intros ->. destruct W as [->|[Em _]]; [auto|].
    symmetry in Eb. apply Bool.negb_false_iff, path_eqb_eq in Eb. subst np.
    assert (removelast (mn_ref N1) = removelast (mn_ref N)) as Er.
    { unfold mn_x12path, mn_parent in ElpN, EnpN1. cbn [mn_map mn_ref] in ElpN, EnpN1. rewrite Em in *.
      eapply Pd; eauto. }
    assert (mn_parent N1 = mn_parent N) as Ep by (apply mn_parent_eq; auto).
    split; [exact Ep|]. rewrite (mn_anc_cons _ NeN), (mn_anc_cons _ NeN1), Ep. reflexivity. }
  assert (N1 = N -> b = false) as NotFound.
  { intros ->. rewrite Eb. rewrite ElpN in EnpN1. injection EnpN1 as <-. rewrite path_eqb_refl. reflexivity. }
  unfold asn_cur in E. destruct b.
  - (* the paths differ: pops, then pushes *)
    destruct W as [->|[Em (tail & Ea & Ea' & Pp)]]; [specialize (NotFound eq_refl); discriminate|].
    apply h_bind_ok in E. destruct E as (h2 & cur1 & E1 & E).
    destruct (pops_spec2 _ _ _ _ _ _ _ ZO E1) as [-> [->|(Lt & ZO1 & ->)]].
    { apply pushes_none in E. left. tauto. }
    right.
    destruct F as (ms1 & ms2 & Ems & F).
    pose proof (Forall2_len _ _ _ F) as Len. rewrite map_length in Len.
    rewrite Ems in Ea. symmetry in Ea. destruct (app_split_len _ _ _ _ Ea) as [Epop Etail]; [rewrite <- Len; apply Nat.lt_le_incl; exact Lt|].
    assert (FI h (close_n (length pop) ((d, Ls) :: r)) tail) as F1.
    { exists (skipn (length pop) ms1), ms2. split; [exact Etail|]. rewrite close_n_fst by exact Lt. apply Forall2_skipn. exact F. }
    assert (match push with [] => True | q :: _ => forall pp, mn_pos q = Ok pp ->
              last_pos_le h (top_kids (close_n (length pop) ((d, Ls) :: r))) pp end) as LP.
    { destruct push as [|q push']; [exact I|]. intros pp Eq.
      destruct Pp as (pq & base & Eq' & Le & Hb). rewrite Eq in Eq'. injection Eq' as <-.
      destruct (length pop) as [|j'] eqn:Elen.
      * destruct pop; [|discriminate Elen]. cbn [rev] in Hb. rewrite close_n_0. cbn [top_kids].
        unfold last_pos_le. rewrite <- map_rev. cbn [TL] in Tl. destruct (rev Ls) as [|k ks]; [exact I|]. cbn [map].
        destruct (fmap_some _ _ _ Tl) as (cx & Ec & Eo). exists cx, N, base. auto.
      * destruct (close_n_top j' ((d, Ls) :: r) Lt) as (d0 & L0 & dj & Lj & r0 & Ec & Ej). rewrite Ec. cbn [top_kids].
        unfold last_pos_le. rewrite map_app, rev_app_distr. cbn [map rev app troot].
        destruct (Forall2_nth _ _ _ F _ _ Ej) as (aj & Eaj & (aj' & Hdj & [Xp _])).
        destruct (fmap_some _ _ _ Hdj) as (cx & Ecx & Eo).
        rewrite (firstn_S_nth _ _ _ Eaj) in Epop. rewrite Epop, rev_app_distr in Hb. cbn [rev app] in Hb.
        exists cx, aj', base. rewrite Xp. auto. }
    destruct (pushes_spec2 _ _ _ _ _ _ _ _ ZO1 L S F1 LP E) as (fs' & ZO' & -> & L' & S' & Len' & K' & O' & F').
    exists fs'. rewrite Ea'. repeat split; auto; apply ZO'.
  - (* the same loop again *)
    destruct (Same eq_refl) as [Ep Ea]. right.
    apply h_bind_ok in E. destruct E as (h2 & up & E1 & E). apply h_read_ok in E1. destruct E1 as [-> E1].
    apply h_bind_ok in E. destruct E as (h2 & first & E2 & E). apply h_lift_ok in E2. destruct E2 as [-> _].
    assert (exists fs', Zopen h t lv fs' /\ RObj d = RObj (ftop fs') /\ all_live h /\ children_in_allocation_order h /\
                        length h <= length h /\ segs_kept h h /\ omap_kept h h /\ FI h fs' (mn_anc N1)) as Stay.
    { exists ((d, Ls) :: r). rewrite Ea. repeat split; auto; try apply ZO; try apply segs_kept_refl; try apply omap_kept_refl. }
    destruct ZO as (Z & Nn & R & Lv).
    destruct (ZInv_top _ _ _ _ Z) as (x & Ex & C1 & C2 & C3 & C4 & B).
    simpl in E1. unfold h_get in E1. rewrite Ex in E1. simpl in E1. injection E1 as <-. rewrite C4 in E.
    destruct r as [|[d' L'] r'].
    + apply h_ret_ok in E. destruct E as [-> ->]. exact Stay.
    + destruct first.
      * simpl fst in E.
        assert (Zopen h t lv ((d', L' ++ [TLoop d Ls]) :: r')) as ZO1.
        { split; [apply ZInv_close; auto|]. split; [discriminate|]. split; [rewrite froot_close; auto | rewrite fleaves_close; auto]. }
        assert (forall pp, mn_pos (mn_parent N') = Ok pp -> last_pos_le h (top_kids ((d', L' ++ [TLoop d Ls]) :: r')) pp) as LP.
        { intros pp Epp. cbn [top_kids]. unfold last_pos_le. rewrite map_app, rev_app_distr. cbn [map rev app troot].
          exists x, lm, pp. split; [exact Ex|]. split; [unfold fmap in Elm; rewrite Ex in Elm; exact Elm|]. split; [|lia].
          destruct Hlm as [-> _]. rewrite <- Ep. destruct XP as [<- _]. exact Epp. }
        destruct (ral_spec2 _ _ _ _ _ _ _ ZO1 L S LP E) as (n & -> & ZO2 & L2 & S2 & Len2 & K2 & O2 & Mn).
        exists ((n, []) :: (d', L' ++ [TLoop d Ls]) :: r'). repeat split; auto; try apply ZO2.
        destruct F as (ms1 & ms2 & Ems & F). cbn [map fst] in F.
        inversion F as [|? a1 ? ms1' Hd F']; subst.
        exists (mn_parent N1 :: ms1'), ms2. split.
        -- rewrite Ea, Ep. rewrite (mn_anc_cons _ NeN) in Ems |- *. cbn [app] in Ems |- *. injection Ems as _ Ems. f_equal. exact Ems.
        -- cbn [map fst]. constructor; [exists (mn_parent N'); split; [exact Mn | exact XP]|].
           eapply Forall2_fmap_kept; [exact O2 | | exact F'].
           pose proof (Zopen_bound _ _ _ _ ZO1) as Bd. cbn [map fst] in Bd. exact Bd.
      * apply h_ret_ok in E. destruct E as [-> ->]. exact Stay.
Qed.

(* _add_segment on an open tree: allocation order, the tree, and the map nodes of the frames *)
Lemma asn_order h t lv fs cdn N N1 N' x pop push h' n :
  Zopen h t lv fs -> all_live h -> children_in_allocation_order h -> FI h fs (mn_anc N) -> TL h fs N ->
  sref (mn_map N) (mn_ref N) -> PD (mn_map N) -> wk N N1 pop push -> sref (mn_map N1) (mn_ref N1) ->
  Forall2 xrel (mn_anc N') (mn_anc N1) ->
  (exists cdx, nth_error h cdn = Some cdx /\ (if is_seg_typed cdx then o_parent cdx else RObj cdn) = RObj (ftop fs)) ->
  add_segment_node cdn N' x pop push h = (h', Ok n) ->
  exists d L r, Zopen h' t (lv ++ [n]) ((d, L ++ [TSeg n]) :: r) /\ length h <= n /\
                nth_error h' n = Some (new_seg (Some N') x (RObj d) [] []) /\
                all_live h' /\ children_in_allocation_order h' /\
                FI h' ((d, L ++ [TSeg n]) :: r) (mn_anc N') /\ mn_is_segment N' = Ok true.
Proof.
  intros ZO L S F Tl SN Pd W SN1 XA (cdx & Ecd & Ecur) E. rewrite asn_unfold in E.
  apply h_bind_ok in E. destruct E as (h1 & is_seg & E1 & E). apply h_lift_ok in E1. destruct E1 as [-> Eseg].
  destruct is_seg; simpl negb in E; cbv iota in E; [|discriminate].
  apply h_bind_ok in E. destruct E as (h1 & cd & E1 & E). apply h_obj_ok in E1. destruct E1 as [-> E1].
  rewrite Ecd in E1. injection E1 as <-. cbv zeta in E. rewrite Ecur in E.
  apply h_bind_ok in E. destruct E as (h1 & np & E1 & E). apply h_lift_ok in E1. destruct E1 as [-> Enp].
  apply h_bind_ok in E. destruct E as (h1 & lm & E1 & E). apply h_read_ok in E1. destruct E1 as [-> Elm].
  apply h_bind_ok in E. destruct E as (h1 & lp & E1 & E). apply h_lift_ok in E1. destruct E1 as [-> Elp].
  apply h_bind_ok in E. destruct E as (h1 & cur & E1 & E).
  assert (fmap h (ftop fs) = Some lm) as Efm.
  { simpl in Elm. unfold h_get in Elm. unfold fmap. destruct (nth_error h (ftop fs)) as [x0|]; simpl in Elm; [|discriminate].
    destruct (o_map x0); [injection Elm as ->; reflexivity | discriminate]. }
  assert (xrel (mn_parent N') (mn_parent N1)) as XP.
  { destruct (sref_parent_lref _ _ (mn_is_segment_sref _ Eseg)) as [_ Ne']. destruct (sref_parent_lref _ _ SN1) as [_ Ne1].
    rewrite (mn_anc_cons _ Ne'), (mn_anc_cons _ Ne1) in XA. inversion XA; subst. assumption. }
  destruct (cur_spec2 _ _ _ _ _ _ _ _ _ _ _ _ _ _ _ ZO L S F Tl SN Pd W SN1 XP Efm Elp Enp eq_refl E1)
    as [->|(fs' & ZO' & -> & L' & S' & Len' & K' & O' & F')]; [discriminate|].
  apply (FI_xrel _ _ _ _ XA) in F'.
  destruct (tail_spec2 _ _ _ _ _ _ _ _ _ ZO' L' S' F' E) as (d & Ls & r & -> & ZO2 & -> & En & L2 & S2 & F2).
  exists d, Ls, r. repeat split; auto; try apply ZO2.
Qed.

Print Assumptions add_loop_node_end.
Print Assumptions asn_order.
