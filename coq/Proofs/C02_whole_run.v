(* C02_whole_run.v — C02 composed: the induction over the segments of a conformant document.
     LAYER (b)  items_run   a list of items (a set ST .. SE, or all the sets of a group with its GE) walked by `run`
     LAYER (c)  group_run   a functional group GS .. GE from the state between two groups
                groups_run  all the groups
                whole_run   the text of the document through Driver.run_document_gen *)
From Coq Require Import String Lia.
From PX.Lib Require Import Base PyStr PyInt Regex Xml.
From PX.Model Require Import Path Segment Raw Reader Syntax MapLoad MapTree Element Counter Walker MapEnv Driver.
From PX.Model Require Errh.
From PX.Spec Require Import C01_spec C12_spec C12_doc_spec C07_walker_wf C07_valid_wf C07_spec C0203_spec C02_doc_spec C04_spec C02_whole_spec.
From PX.Proofs Require Import C01_roundtrip C12_lemmas C12_doc_step C12_doc_run C07_errh C04_reader C02_doc_counter C02_doc
                              C02_whole_errh C02_whole_reader C02_whole_step C02_whole_head C02_whole_walk.
Import Driver.

Local Definition l (x : string) : str := list_ascii_of_string x.

(* what is asked of a written segment *)
Definition Wr (d : delims) (s : seg) : Prop := clean_seg d s = true /\ id_plain s = true /\ canonical s.

Section Run.
Variables (load : str -> result xmap) (ix : list map_entry) (cm : xmap) (d : delims).
Hypothesis Dd : distinct_delims d = true.
Notation E := (C02_whole_step.mkE load ix cm d).

(* ------------------------------------------------------------------ *)
(* one line                                                             *)

Lemma run_lines_seg sg rest s x' :
  clean_seg d sg = true -> id_plain sg = true -> P sg = sg -> (forall x, seg1_err x sg = []) ->
  reader_step d (ds_x s) sg = Ok (x', []) ->
  run_lines E (seg_body d sg :: rest) s = (dod_ step E sg; run_lines E rest) (after_read s x').
Proof.
  intros Cl Pl EP S1 R. cbn [run_lines]. rewrite bind_get. cbn [de_d C02_whole_step.mkE].
  rewrite (reader_line_opt_body d (ds_x s) sg Dd Cl Pl), EP, R, S1. cbn [app].
  unfold d_bind at 1. unfold d_lift. rewrite bind_mod. reflexivity.
Qed.

Lemma Wr_P sg : Wr d sg -> P sg = sg /\ forall x, seg1_err x sg = [].
Proof.
  intros (_ & _ & EA & HD). split; [rewrite <- as_read_P; exact EA|].
  intros x. unfold seg1_err. unfold has_data in HD. apply negb_true_iff in HD. rewrite HD. reflexivity.
Qed.

(* ------------------------------------------------------------------ *)
(* LAYER (b): items located by `run`, one after the other               *)

Definition item_ok (m : xmap) (vriic : option str) (it : item) : Prop :=
  item_conf m d it = true /\ sid_is (snd it) "ISA" = false /\ sid_is (snd it) "GS" = false /\
  (sid_is (snd it) "BHT" = true -> is_278_switch vriic = false) /\ Wr d (snd it).

Theorem items_run m (VW : valid_wf m = true) (FW : fmt_wf m = true) rest w p items w' :
  C02_doc_spec.run m d w p items w' ->
  forall s x2,
  ds_w s = w -> ds_node s = (m, p) -> Clean s -> Errh.c_isa (ds_errh s) <> None -> Link (ds_x s) (ds_errh s) ->
  Forall (item_ok m (ms_vriic (ds_sel s))) items ->
  quiet_segs d (ds_x s) (map snd items) = Some x2 ->
  exists s', run_lines E (map (seg_body d) (map snd items) ++ rest) s = run_lines E rest s' /\
             Clean s' /\ ds_x s' = x2 /\ ds_w s' = w' /\ ds_node s' = (m, last_ref items p) /\ ds_sel s' = ds_sel s /\
             mono (ds_errh s) (ds_errh s') /\ Link x2 (ds_errh s').
Proof.
  induction 1 as [w p | w p it w1 items w' S1 S2 R IH]; intros s x2 Ew Nd C Ci Lk Fo Q.
  - cbn [map quiet_segs] in *. injection Q as <-. exists s. split; [reflexivity|].
    repeat (split; [first [assumption | reflexivity | apply mono_refl]|]). exact Lk.
  - destruct it as [t sg]. cbn [map quiet_segs snd] in *.
    destruct (reader_step d (ds_x s) sg) as [[x1 [|e es]]|ex] eqn:Rd; try discriminate.
    inversion Fo as [|? ? (IC & N1 & N2 & B & W) Fo']; subst. cbn [snd] in *.
    destruct (Wr_P sg W) as [EP S0]. destruct W as (Cl & Pl & _).
    destruct (item_step load ix cm d m p t sg s x1 w1 VW FW IC N1 N2 B Nd C Ci Lk Rd S1)
      as (s1 & St & C1 & X1 & W1 & Nd1 & Sel1 & M1 & L1 & Q1).
    destruct (IH s1 x2 W1 Nd1 C1) as (s2 & R2 & C2 & X2 & W2 & Nd2 & Sel2 & M2 & L2).
    { destruct M1 as (m1 & _). apply m1, Ci. }
    { rewrite X1. exact L1. }
    { rewrite Sel1. exact Fo'. }
    { rewrite X1. exact Q. }
    exists s2. split.
    { cbn [app]. rewrite (run_lines_seg sg _ s x1 Cl Pl EP S0 Rd). rewrite (bind_ok _ _ _ _ _ St). exact R2. }
    split; [exact C2|]. split; [exact X2|]. split; [exact W2|].
    split; [rewrite last_ref_cons; exact Nd2|]. split; [congruence|].
    split; [eapply mono_trans; eauto | exact L2].
Qed.

End Run.

(* ------------------------------------------------------------------ *)
(* LAYER (b), explicitly: the first part U (e.g. the first set ST .. SE) of a conformant instance of the seg-first
   loop C, from the state in which C has just been opened (after GS: C = GS_LOOP)                                *)

Lemma run_split m d : forall U V w p w2,
  C02_doc_spec.run m d w p (U ++ V) w2 ->
  exists w1, C02_doc_spec.run m d w p U w1 /\ C02_doc_spec.run m d w1 (last_ref U p) V w2.
Proof.
  induction U as [|it U IH]; intros V w p w2 R; cbn [app] in R.
  - exists w. split; [constructor | exact R].
  - inversion R as [|? ? ? w1 ? ? S1 S2 R']; subst. destruct (IH V w1 (fst it) w2 R') as (wm & Ra & Rb).
    exists wm. split; [econstructor; eauto|]. rewrite last_ref_cons. exact Rb.
Qed.

Theorem set_run load ix cm d (Dd : distinct_delims d = true) m
        (WF : walker_wf m = true) (KO : keys_ok m = true) (VW : valid_wf m = true) (FW : fmt_wf m = true)
        C sg0 U V rest s x2 :
  conf_inst m d C ((C ++ [0], sg0) :: U ++ V) ->
  (exists s0 rest0, children_of m C = NSeg s0 :: rest0) ->
  opened m (ds_w s) C -> ds_node s = (m, C ++ [0]) ->
  Clean s -> Errh.c_isa (ds_errh s) <> None -> Link (ds_x s) (ds_errh s) ->
  Forall (item_ok d m (ms_vriic (ds_sel s))) U ->
  quiet_segs d (ds_x s) (map snd U) = Some x2 ->
  exists s', run_lines (C02_whole_step.mkE load ix cm d) (map (seg_body d) (map snd U) ++ rest) s =
             run_lines (C02_whole_step.mkE load ix cm d) rest s' /\
             Clean s' /\ ds_x s' = x2 /\ ds_node s' = (m, last_ref U (C ++ [0])) /\ ds_sel s' = ds_sel s /\
             mono (ds_errh s) (ds_errh s') /\ Link x2 (ds_errh s').
Proof.
  intros CI K Op Nd Cl Ci Lk Fo Q.
  destruct (conformant_instance_accepted m d WF KO C sg0 (U ++ V) (ds_w s) CI K Op) as (w' & R & _).
  destruct (run_split m d U V _ _ _ R) as (w1 & RU & _).
  destruct (items_run load ix cm d Dd m VW FW rest _ _ _ _ RU s x2 eq_refl Nd Cl Ci Lk Fo Q)
    as (s' & A1 & A2 & A3 & _ & A5 & A6 & A7 & A8).
  exists s'. auto 10.
Qed.

(* ------------------------------------------------------------------ *)
(* small facts                                                          *)

Lemma quiet_segs_lx d segs : forall x x2, quiet_segs d x segs = Some x2 -> check_837_lx x2 = check_837_lx x.
Proof.
  induction segs as [|sg segs IH]; intros x x2 Q; cbn [quiet_segs] in Q.
  - injection Q as <-. reflexivity.
  - destruct (reader_step d x sg) as [[x1 [|e es]]|ex] eqn:R; try discriminate.
    rewrite (IH _ _ Q). exact (reader_step_lx _ _ _ _ _ R).
Qed.

Lemma Link_lx x b h : Link (with_lx x b) h <-> Link x h.
Proof. unfold Link. reflexivity. Qed.

Lemma forallb_rev {A} (f : A -> bool) xs : forallb f (rev xs) = forallb f xs.
Proof.
  induction xs as [|x xs IH]; [reflexivity|]. cbn [rev forallb]. rewrite forallb_app, IH. cbn [forallb].
  rewrite andb_true_r. apply andb_comm.
Qed.

(* ------------------------------------------------------------------ *)
(* LAYER (c): groups                                                    *)

Section Doc.
Variables (load : str -> result xmap) (ix : list map_entry) (cm : xmap) (d : delims).
Variables (isal : nref) (icvn : str) (mL : xmap) (r_gs_cm : nref).
Hypothesis Dd : distinct_delims d = true.
Hypothesis WFL : walker_wf mL = true.
Hypothesis KOL : keys_ok mL = true.
Hypothesis TOPL : top_okb mL isal = true.
Hypothesis Gcm : getnode cm "/ISA_LOOP/GS_LOOP/GS" = Ok r_gs_cm.
Notation E := (C02_whole_step.mkE load ix cm d).
Notation gsl := (gsl_of isal).
Notation ctl := (control_name icvn).

(* between two functional groups (n = the groups seen so far) *)
Record Btw (s : dstate) (x : xstate) (n : Z) : Prop := {
  bt_clean : Clean s;
  bt_x : ds_x s = x;
  bt_isa : Errh.c_isa (ds_errh s) <> None;
  bt_link : Link x (ds_errh s);
  bt_top : TopInv isal mL (w_counter (ds_w s)) n;
  bt_n : (0 <= n)%Z;
  bt_icvn : ms_icvn (ds_sel s) = Some icvn;
  bt_sel : (n = 0%Z /\ ms_file (ds_sel s) = Some ctl) \/
           (exists file m, ms_file (ds_sel s) = Some file /\ ms_cur (ds_sel s) = Some m /\ load file = Ok m /\
                           check_837_lx x = is837 m)
}.

Theorem group_run g rest s x n x1 x2 :
  group_ok load ix d icvn isal g -> top_compat isal (cg_map g) mL -> Forall (Wr d) (group_segs g) ->
  Btw s x n -> (n = 0%Z -> cg_file g <> ctl) ->
  reader_step d x (cg_gs g) = Ok (x1, []) ->
  quiet_segs d (with_lx x1 (is837 (cg_map g))) (map snd (cg_items g)) = Some x2 ->
  exists s', run_lines E (map (seg_body d) (group_segs g) ++ rest) s = run_lines E rest s' /\
             Btw s' x2 (n + 1) /\ ds_node s' = (cg_map g, last_node isal g) /\
             exists nG, node_at (root_nodes (cg_map g)) gsl = Some nG /\
                        PostInst (cg_map g) (w_counter (ds_w s')) gsl nG (last_node isal g).
Proof.
  intros [Ggs Gsel Gld Gwf Gko Gvw Gfw Gtop Ginst Gconf Gids G278] CP FW
         [Bc Bx Bi Bl Bt Bn Bv Bs] First Rgs Q.
  set (m := cg_map g) in *. set (file := cg_file g) in *.
  pose (TF := top_okb_facts isal m Gtop). pose (TFL := top_okb_facts isal mL TOPL).
  inversion FW as [|? ? Wgs Wit]; subst.
  destruct (Wr_P d _ Wgs) as [EPg S0g]. destruct Wgs as (Clg & Plg & _).
  cbn [forallb] in Gconf. apply andb_true_iff in Gconf as [Cgs Cit].
  (* GS *)
  assert (Cur : (ms_file (ds_sel s) = Some file /\ ms_cur (ds_sel s) = Some m /\ check_837_lx x1 = is837 m) \/
                ms_file (ds_sel s) <> Some file).
  { destruct Bs as [[N0 Fc] | (f0 & m0 & Ff & Fc & Fl & Fx)].
    - right. rewrite Fc. intros H. injection H as H. apply (First N0). symmetry. exact H.
    - destruct (str_eqb f0 file) eqn:Ef.
      + apply str_eqb_eq in Ef. subst f0. left. split; [exact Ff|].
        assert (m0 = m) as -> by (rewrite Gld in Fl; injection Fl as <-; reflexivity).
        split; [exact Fc|]. rewrite (reader_step_lx _ _ _ _ _ Rgs). exact Fx.
      + right. rewrite Ff. intros H. injection H as H. subst f0. rewrite str_eqb_refl in Ef. discriminate. }
  destruct (gs_step load ix cm d (cg_gs g) file m icvn r_gs_cm (gsl ++ [0]) s x1 Ggs Gcm Bv Gsel Gld Cur
              (tf_get isal m TF) Gvw Gfw Cgs Bc Bi Bl Rgs)
    as (s1 & St1 & C1 & X1 & W1 & Nd1 & I1 & F1 & U1 & V1 & M1 & L1 & Q1).
  (* the walker over the group *)
  destruct (group_walk isal d m mL Gwf Gko TF WFL KOL TFL CP (cg_gs g) (cg_items g) (ds_w s) n Ginst Bt Bn)
    as (w2 & Rn & T2 & PI).
  (* the items *)
  assert (Fo : Forall (item_ok d m (ms_vriic (ds_sel s1))) (cg_items g)).
  { rewrite V1. apply Forall_forall. intros it Hin. rewrite forallb_forall in Cit, Gids.
    specialize (Cit it Hin). specialize (Gids it Hin). unfold body_id in Gids.
    apply andb_true_iff in Gids as [Gi Ge]. apply andb_true_iff in Gi as [Gi Gg].
    apply negb_true_iff in Gi, Gg.
    split; [exact Cit|]. split; [exact Gi|]. split; [exact Gg|]. split.
    - intros Hb. destruct G278 as [G|G]; [exact G|]. rewrite forallb_forall in G. specialize (G it Hin).
      rewrite Hb in G. discriminate.
    - rewrite Forall_forall in Wit. apply Wit. apply in_map. exact Hin. }
  assert (Ci1 : Errh.c_isa (ds_errh s1) <> None) by (destruct M1 as (m1 & _); apply m1, Bi).
  assert (Lk1 : Link (ds_x s1) (ds_errh s1)) by (rewrite X1; apply Link_lx; exact L1).
  rewrite <- X1 in Q.
  destruct (items_run load ix cm d Dd m Gvw Gfw rest _ _ _ _ Rn s1 x2 W1 Nd1 C1 Ci1 Lk1 Fo Q)
    as (s2 & R2 & C2 & X2 & W2 & Nd2 & Sel2 & M2 & L2).
  exists s2. split.
  { unfold group_segs. cbn [map app]. rewrite (run_lines_seg load ix cm d Dd (cg_gs g) _ s x1 Clg Plg EPg S0g Rgs).
    rewrite (bind_ok _ _ _ _ _ St1). exact R2. }
  split.
  { constructor; try assumption.
    - destruct M2 as (m1 & _). apply m1, Ci1.
    - rewrite W2. exact T2.
    - lia.
    - rewrite Sel2. exact I1.
    - right. exists file, m. rewrite Sel2. split; [exact F1|]. split; [exact U1|]. split; [exact Gld|].
      rewrite (quiet_segs_lx _ _ _ _ Q), X1. reflexivity. }
  split; [exact Nd2|]. exists (tf_nG isal m TF). split; [apply tf_gsl|]. rewrite W2. exact PI.
Qed.

(* all the groups; what the last one leaves *)
Theorem groups_run rest : forall gs s x n x2,
  gs <> [] ->
  Forall (group_ok load ix d icvn isal) gs -> Forall (fun g => top_compat isal (cg_map g) mL) gs ->
  Forall (Wr d) (flat_map group_segs gs) ->
  Btw s x n -> (n = 0%Z -> match gs with g :: _ => cg_file g <> ctl | [] => True end) ->
  quiet_groups d x gs = Some x2 ->
  exists s', run_lines E (map (seg_body d) (flat_map group_segs gs) ++ rest) s = run_lines E rest s' /\
             Btw s' x2 (n + Z.of_nat (length gs)) /\
             forall g0, ds_node s' = (cg_map (last gs g0), last_node isal (last gs g0)) /\
               exists nG, node_at (root_nodes (cg_map (last gs g0))) gsl = Some nG /\
                          PostInst (cg_map (last gs g0)) (w_counter (ds_w s')) gsl nG (last_node isal (last gs g0)).
Proof.
  induction gs as [|g gs IH]; intros s x n x2 Ne Fg Fc Fw B First Q; [congruence|].
  inversion Fg as [|? ? Gok Fg']; subst. inversion Fc as [|? ? Gc Fc']; subst.
  cbn [flat_map] in Fw. apply Forall_app in Fw as [Fw1 Fw2].
  cbn [quiet_groups] in Q.
  destruct (reader_step d x (cg_gs g)) as [[x1 [|e es]]|ex] eqn:Rgs; try discriminate.
  destruct (quiet_segs d (with_lx x1 (is837 (cg_map g))) (map snd (cg_items g))) as [xm|] eqn:Qi; [|discriminate].
  cbn [flat_map]. rewrite map_app, <- app_assoc.
  destruct (group_run g (map (seg_body d) (flat_map group_segs gs) ++ rest) s x n x1 xm Gok Gc Fw1 B First Rgs Qi)
    as (s1 & R1 & B1 & Nd1 & PI1).
  destruct gs as [|g' gs'].
  - cbn [quiet_groups] in Q. injection Q as <-. exists s1. split; [exact R1|]. split.
    + cbn [length]. exact B1.
    + intros g0. cbn [last]. split; assumption.
  - destruct (IH s1 xm (n + 1)%Z x2 ltac:(discriminate) Fg' Fc' Fw2 B1) as (s2 & R2 & B2 & L2).
    { intros H. pose proof (bt_n _ _ _ B). lia. }
    { exact Q. }
    exists s2. split; [rewrite R1; exact R2|]. split.
    + replace (n + Z.of_nat (length (g :: g' :: gs')))%Z with (n + 1 + Z.of_nat (length (g' :: gs')))%Z; [exact B2|].
      cbn [length]. lia.
    + intros g0. exact (L2 g0).
Qed.

End Doc.

Print Assumptions items_run.
Print Assumptions set_run.
Print Assumptions groups_run.
