(* C08_lemmas.v — lemmas for C08_xml.v: escaping as a character-wise map, the event sequences of
   Spec/C08_spec.v (loops, balance, contexts), the XML writer against the serialiser, and the
   conversion of one segment tree back to a segment. *)
From Coq Require Import String Lia.
From PX.Lib Require Import Base PyStr Xml.
From PX.Model Require Import Path Segment MapLoad MapTree OutW XmlOut XmlIn.
From PX.Spec Require Import C01_spec C08_spec C17_spec.
From PX.Proofs Require Import C17_path C17_segment C17_link.

Local Notation l := C08_spec.l (only parsing).

(* ================================================================== *)
(* Part A: escaping                                                    *)

Definition sub1 (c : ascii) (r : str) (x : ascii) : str := if Ascii.eqb c x then r else [x].

Lemma replace_fuel_one c r : forall fuel s, length s < fuel ->
  replace_fuel fuel [c] r s = flat_map (sub1 c r) s.
Proof.
  induction fuel as [|f IH]; intros s L; [lia|].
  destruct s as [|x s]; [reflexivity|].
  cbn [replace_fuel starts_with length skipn flat_map]. unfold sub1 at 1.
  cbn [length] in L.
  destruct (Ascii.eqb c x); cbn [andb].
  - destruct s; rewrite IH by (cbn [length] in *; lia); reflexivity.
  - rewrite IH by lia. reflexivity.
Qed.

Lemma replace_one c r s : replace [c] r s = flat_map (sub1 c r) s.
Proof. unfold replace. apply replace_fuel_one. lia. Qed.

Lemma flat_map_flat_map {A B C} (f : A -> list B) (g : B -> list C) s :
  flat_map g (flat_map f s) = flat_map (fun x => flat_map g (f x)) s.
Proof.
  induction s as [|x s IH]; [reflexivity|]. cbn [flat_map]. rewrite flat_map_app, IH. reflexivity.
Qed.

Lemma forallb_flat_map {A B} (p : B -> bool) (f : A -> list B) s :
  forallb p (flat_map f s) = forallb (fun x => forallb p (f x)) s.
Proof.
  induction s as [|x s IH]; [reflexivity|]. cbn [flat_map forallb]. rewrite forallb_app, IH. reflexivity.
Qed.

Definition esc_cont_c (x : ascii) : str :=
  flat_map (sub1 ">"%char (l "&gt;")) (flat_map (sub1 "<"%char (l "&lt;")) (sub1 "&"%char (l "&amp;") x)).

Definition esc_attr_c (x : ascii) : str :=
  flat_map (sub1 ">"%char (l "&gt;")) (flat_map (sub1 "<"%char (l "&lt;"))
    (flat_map (sub1 "'"%char (l "&apos;")) (sub1 "&"%char (l "&amp;") x))).

Lemma escape_cont_flat t : escape_cont (Some t) = Some (flat_map esc_cont_c t).
Proof.
  unfold escape_cont. f_equal.
  change (XmlOut.l ">") with [">"%char]. change (XmlOut.l "<") with ["<"%char]. change (XmlOut.l "&") with ["&"%char].
  rewrite !replace_one, !flat_map_flat_map. apply flat_map_ext. intros a.
  unfold esc_cont_c, esc_attr_c. rewrite ?flat_map_flat_map. reflexivity.
Qed.

Lemma escape_attr_flat t : escape_attr (Some t) = Some (flat_map esc_attr_c t).
Proof.
  unfold escape_attr. f_equal.
  change (XmlOut.l ">") with [">"%char]. change (XmlOut.l "<") with ["<"%char]. change (XmlOut.l "&") with ["&"%char].
  change (XmlOut.l "'") with ["'"%char].
  rewrite !replace_one, !flat_map_flat_map. apply flat_map_ext. intros a.
  unfold esc_cont_c, esc_attr_c. rewrite ?flat_map_flat_map. reflexivity.
Qed.

(* ================================================================== *)
(* Part B: event sequences                                             *)

Lemma map_const {A B} (x : B) (xs : list A) : map (fun _ => x) xs = repeat x (length xs).
Proof. induction xs as [|y xs IH]; [reflexivity|]. cbn [map length repeat]. rewrite IH. reflexivity. Qed.

Lemma lcp_le_l a : forall b, lcp a b <= length a.
Proof. induction a as [|x a IH]; intros [|y b]; cbn [lcp length]; try lia. destruct (str_eqb x y); [specialize (IH b)|]; lia. Qed.

Lemma lcp_le_r a : forall b, lcp a b <= length b.
Proof. induction a as [|x a IH]; intros [|y b]; cbn [lcp length]; try lia. destruct (str_eqb x y); [specialize (IH b)|]; lia. Qed.

Lemma lcp_firstn a : forall b k, k <= lcp a b -> firstn k a = firstn k b.
Proof.
  induction a as [|x a IH]; intros [|y b] k H; cbn [lcp] in H; try (replace k with 0 by lia; reflexivity).
  destruct (str_eqb x y) eqn:E; [|replace k with 0 by lia; reflexivity].
  apply str_eqb_eq in E. subst y. destruct k as [|k]; [reflexivity|]. cbn [firstn]. f_equal. apply IH. lia.
Qed.

Lemma lcp_refl a : lcp a a = length a.
Proof. induction a as [|x a IH]; [reflexivity|]. cbn [lcp length]. rewrite str_eqb_refl, IH. reflexivity. Qed.

(* the number of loops kept open *)
Definition keep_n (first : bool) (last cur : list str) : nat :=
  let m := lcp last cur in if first && (m =? length cur) then m - 1 else m.

Lemma loop_events_keep first last cur :
  loop_events first last cur =
  repeat (XClose (l "loop")) (length last - keep_n first last cur) ++
  map (fun id => XOpen (l "loop") (Some (Some id))) (skipn (keep_n first last cur) cur).
Proof. unfold loop_events, keep_n. cbv zeta. rewrite map_const, seq_length. reflexivity. Qed.

Lemma keep_n_le first last cur : keep_n first last cur <= lcp last cur.
Proof. unfold keep_n. cbv zeta. destruct (first && _); lia. Qed.

Lemma keep_n_lt last cur : cur <> [] -> keep_n true last cur < length cur.
Proof.
  intros N. unfold keep_n. cbv zeta. cbn [andb]. pose proof (lcp_le_r last cur).
  destruct cur; [congruence|]. cbn [length] in *.
  destruct (Nat.eqb_spec (lcp last (s :: cur)) (S (length cur))); lia.
Qed.

Lemma keep_n_le_l first last cur : keep_n first last cur <= length last.
Proof. pose proof (keep_n_le first last cur). pose proof (lcp_le_l last cur). lia. Qed.

Lemma keep_n_le_r first last cur : keep_n first last cur <= length cur.
Proof. pose proof (keep_n_le first last cur). pose proof (lcp_le_r last cur). lia. Qed.

(* ---- first segment opens a fresh loop ---- *)
Lemma skipn_last {A} (d : A) k (xs : list A) : k < length xs -> exists pre, skipn k xs = pre ++ [List.last xs d].
Proof.
  intros H. assert (N : xs <> []) by (destruct xs; [cbn in H; lia | discriminate]).
  pose proof (app_removelast_last d N) as E.
  assert (L : length xs = length (removelast xs) + 1).
  { rewrite E at 1. rewrite app_length. reflexivity. }
  exists (skipn k (removelast xs)). rewrite E at 1. rewrite skipn_app.
  replace (k - length (removelast xs)) with 0 by lia. reflexivity.
Qed.

Lemma first_opens_fresh last cur : cur <> [] ->
  exists pre, loop_events true last cur = pre ++ [XOpen (l "loop") (Some (Some (List.last cur [])))].
Proof.
  intros N. rewrite loop_events_keep.
  destruct (@skipn_last str [] (keep_n true last cur) cur (keep_n_lt last cur N)) as [pre E].
  rewrite E, map_app. cbn [map]. rewrite app_assoc. eexists. reflexivity.
Qed.

(* ---- balance ---- *)
Definition LOOP : str := l "loop".
Definition X12S : str := l "x12simple".

Lemma repeat_snoc {A} (x : A) n : repeat x n ++ [x] = x :: repeat x n.
Proof. symmetry. apply repeat_cons. Qed.

Lemma repeat_mid {A} (x : A) n r : repeat x n ++ x :: r = x :: repeat x n ++ r.
Proof. change (x :: r) with ([x] ++ r). rewrite app_assoc, repeat_snoc. reflexivity. Qed.

Lemma balanced_closes n st r :
  balanced (repeat LOOP n ++ st) (repeat (XClose LOOP) n ++ r) = balanced st r.
Proof. induction n as [|n IH]; [reflexivity|]. cbn [repeat app balanced]. rewrite str_eqb_refl. exact IH. Qed.

Lemma balanced_opens ids : forall st r,
  balanced st (map (fun id => XOpen LOOP (Some (Some id))) ids ++ r) = balanced (repeat LOOP (length ids) ++ st) r.
Proof.
  induction ids as [|x ids IH]; intros st r; [reflexivity|].
  cbn [map app balanced length repeat]. rewrite IH, repeat_mid. reflexivity.
Qed.

Lemma balanced_subs c comp x st r :
  balanced (x :: st) (sub_events c comp ++ r) = balanced (x :: st) r.
Proof.
  unfold sub_events. induction (combine (seq 0 (length comp)) comp) as [|jv jvs IH]; [reflexivity|].
  cbn [map app balanced]. exact IH.
Qed.

Lemma balanced_child gi d i comp x st r :
  balanced (x :: st) (child_events gi d i comp ++ r) = balanced (x :: st) r.
Proof.
  unfold child_events. destruct (child_for gi i) as [c|]; [|reflexivity].
  destruct (not_used c || comp_empty comp); [reflexivity|].
  destruct (ci_kind c).
  - reflexivity.
  - cbn [app balanced]. rewrite <- app_assoc, balanced_subs. cbn [app balanced]. rewrite str_eqb_refl. reflexivity.
Qed.

Lemma balanced_children gi d x st r (ics : list (nat * composite)) :
  balanced (x :: st) (concat (map (fun ic => child_events gi d (fst ic) (snd ic)) ics) ++ r) = balanced (x :: st) r.
Proof.
  induction ics as [|ic ics IH]; [reflexivity|]. cbn [map concat]. rewrite <- app_assoc, balanced_child. exact IH.
Qed.

Lemma balanced_seg gi d s st r : balanced st (seg_events gi d s ++ r) = balanced st r.
Proof.
  unfold seg_events. cbn [app balanced]. rewrite <- app_assoc, balanced_children.
  cbn [app balanced]. rewrite str_eqb_refl. reflexivity.
Qed.

Lemma balanced_loops first last cur st r :
  balanced (repeat LOOP (length last) ++ st) (loop_events first last cur ++ r) =
  balanced (repeat LOOP (length cur) ++ st) r.
Proof.
  rewrite loop_events_keep. pose proof (keep_n_le_l first last cur). pose proof (keep_n_le_r first last cur).
  set (k := keep_n first last cur) in *.
  replace (length last) with ((length last - k) + k) at 1 by lia.
  rewrite repeat_app, <- !app_assoc. change (l "loop") with LOOP. rewrite balanced_closes, balanced_opens.
  rewrite skipn_length, app_assoc, <- repeat_app. f_equal. f_equal. f_equal. lia.
Qed.

Lemma balanced_body xs : forall last st r,
  balanced (repeat LOOP (length last) ++ st) (fst (body_events last xs) ++ r) =
  balanced (repeat LOOP (length (snd (body_events last xs))) ++ st) r.
Proof.
  induction xs as [|x xs IH]; intros last st r; [reflexivity|].
  cbn [body_events]. destruct (body_events (lc_path x) xs) as [more fin] eqn:E. cbn [fst snd].
  rewrite <- !app_assoc, balanced_loops, balanced_seg. specialize (IH (lc_path x) st r).
  rewrite E in IH. exact IH.
Qed.

Lemma doc_balanced xs : balanced [] (doc_events xs) = true.
Proof.
  unfold doc_events. destruct (body_events [] xs) as [body fin] eqn:E.
  cbn [balanced]. pose proof (balanced_body xs [] [X12S]) as H. rewrite E in H. cbn [fst snd length repeat app] in H.
  change (l "x12simple") with X12S. rewrite H. rewrite map_const. change (l "loop") with LOOP.
  rewrite balanced_closes. cbn [balanced]. rewrite str_eqb_refl. reflexivity.
Qed.

(* ---- contexts ---- *)
Ltac ceqb := repeat match goal with |- context [str_eqb ?a ?b] =>
  let v := eval vm_compute in (str_eqb a b) in
  match v with true => change (str_eqb a b) with true | false => change (str_eqb a b) with false end end; cbv iota.
Lemma ctx_closes n : forall ol r,
  seg_contexts ol (repeat (XClose LOOP) n ++ r) = seg_contexts (firstn (length ol - n) ol) r.
Proof.
  induction n as [|n IH]; intros ol r.
  - cbn [repeat app]. rewrite Nat.sub_0_r, firstn_all. reflexivity.
  - cbn [repeat app seg_contexts]. ceqb.
    rewrite IH. f_equal. rewrite removelast_firstn_len, firstn_length, firstn_firstn.
  f_equal. lia.
Qed.

Lemma ctx_opens ids : forall ol r,
  seg_contexts ol (map (fun id => XOpen LOOP (Some (Some id))) ids ++ r) = seg_contexts (ol ++ map (@Some str) ids) r.
Proof.
  induction ids as [|x ids IH]; intros ol r.
  - cbn [map app]. rewrite app_nil_r. reflexivity.
  - cbn [map app seg_contexts]. ceqb.
    rewrite IH, <- app_assoc. reflexivity.
Qed.

Lemma ctx_subs c comp ol r : seg_contexts ol (sub_events c comp ++ r) = seg_contexts ol r.
Proof.
  unfold sub_events. induction (combine (seq 0 (length comp)) comp) as [|jv jvs IH]; [reflexivity|].
  cbn [map app seg_contexts]. exact IH.
Qed.

Lemma ctx_child gi d i comp ol r : seg_contexts ol (child_events gi d i comp ++ r) = seg_contexts ol r.
Proof.
  unfold child_events. destruct (child_for gi i) as [c|]; [|reflexivity].
  destruct (not_used c || comp_empty comp); [reflexivity|].
  destruct (ci_kind c).
  - reflexivity.
  - cbn [app seg_contexts]. ceqb.
    rewrite <- app_assoc, ctx_subs. reflexivity.
Qed.

Lemma ctx_children gi d ol r (ics : list (nat * composite)) :
  seg_contexts ol (concat (map (fun ic => child_events gi d (fst ic) (snd ic)) ics) ++ r) = seg_contexts ol r.
Proof.
  induction ics as [|ic ics IH]; [reflexivity|]. cbn [map concat]. rewrite <- app_assoc, ctx_child. exact IH.
Qed.

Lemma ctx_seg gi d s ol r : seg_contexts ol (seg_events gi d s ++ r) = ol :: seg_contexts ol r.
Proof.
  unfold seg_events. cbn [app seg_contexts]. ceqb. f_equal.
  rewrite <- app_assoc, ctx_children. reflexivity.
Qed.

Lemma ctx_loops first last cur r :
  seg_contexts (map (@Some str) last) (loop_events first last cur ++ r) = seg_contexts (map (@Some str) cur) r.
Proof.
  rewrite loop_events_keep. pose proof (keep_n_le_l first last cur). pose proof (keep_n_le first last cur) as K.
  set (k := keep_n first last cur) in *. change (l "loop") with LOOP.
  rewrite <- app_assoc, ctx_closes, ctx_opens. f_equal.
  rewrite map_length. replace (length last - (length last - k)) with k by lia.
  rewrite firstn_map, (lcp_firstn last cur k K), <- map_app, firstn_skipn. reflexivity.
Qed.

Lemma ctx_body xs : forall last r,
  seg_contexts (map (@Some str) last) (fst (body_events last xs) ++ r) =
  map (fun x => map (@Some str) (lc_path x)) xs ++ seg_contexts (map (@Some str) (snd (body_events last xs))) r.
Proof.
  induction xs as [|x xs IH]; intros last r; [reflexivity|].
  cbn [body_events]. destruct (body_events (lc_path x) xs) as [more fin] eqn:E. cbn [fst snd map app].
  rewrite <- !app_assoc, ctx_loops, ctx_seg. f_equal. specialize (IH (lc_path x) r). rewrite E in IH. exact IH.
Qed.

Lemma doc_contexts xs : seg_contexts [] (doc_events xs) = map (fun x => map (@Some str) (lc_path x)) xs.
Proof.
  unfold doc_events. destruct (body_events [] xs) as [body fin] eqn:E.
  cbn [seg_contexts]. ceqb.
  pose proof (ctx_body xs [] (map (fun _ => XClose (l "loop")) fin ++ [XClose (l "x12simple")])) as H.
  rewrite E in H. cbn [fst snd map] in H. rewrite H. rewrite map_const. change (l "loop") with LOOP.
  rewrite ctx_closes. cbn [seg_contexts]. ceqb.
  apply app_nil_r.
Qed.

(* ================================================================== *)
(* Part C: the writer against the serialiser                           *)

(* ---- the serialiser is compositional ---- *)
Fixpoint dep (d : nat) (evs : list xev) : nat :=
  match evs with
  | [] => d
  | XOpen _ _ :: r => dep (S d) r
  | XClose _ :: r => dep (pred d) r
  | XLeaf _ _ _ :: r => dep d r
  end.

Lemma ser_app a : forall d b, ser d (a ++ b) = ser d a ++ ser (dep d a) b.
Proof.
  induction a as [|e a IH]; intros d b; [reflexivity|].
  destruct e; cbn [app ser dep]; rewrite IH, <- ?app_assoc; reflexivity.
Qed.

Lemma dep_app a : forall d b, dep d (a ++ b) = dep (dep d a) b.
Proof. induction a as [|e a IH]; intros d b; [reflexivity|]. destruct e; cbn [app dep]; apply IH. Qed.

(* ---- running a computation that cannot fail ---- *)
Definition runs (m : W xstate unit) (st st' : xstate) (t : str) : Prop :=
  exists out, m st = (st', out, Ok tt) /\ concat out = t.

Lemma runs_ret st : runs (w_ret tt) st st [].
Proof. exists []. split; reflexivity. Qed.

Lemma runs_bind m k st st1 st2 t1 t2 :
  runs m st st1 t1 -> runs k st1 st2 t2 -> runs (dow_ m; k) st st2 (t1 ++ t2).
Proof.
  intros (o1 & E1 & C1) (o2 & E2 & C2). exists (o1 ++ o2). split.
  - unfold w_bind. rewrite E1, E2. reflexivity.
  - rewrite concat_app, C1, C2. reflexivity.
Qed.

(* a successful run of a sequence: the first part is known to run, the rest succeeded *)
Lemma bind_runs_inv {B} m (k : W xstate B) st st1 st2 t1 out (b : B) :
  runs m st st1 t1 -> (dow_ m; k) st = (st2, out, Ok b) ->
  exists o2, k st1 = (st2, o2, Ok b) /\ concat out = t1 ++ concat o2.
Proof.
  intros (o1 & E1 & C1) H. unfold w_bind in H. rewrite E1 in H.
  destruct (k st1) as [[s2 o2] r] eqn:E2. injection H as <- <- ->.
  exists o2. split; [reflexivity|]. rewrite concat_app, C1. reflexivity.
Qed.

Lemma bind_inv {A B} (m : W xstate A) (k : A -> W xstate B) st st2 out (b : B) :
  w_bind m k st = (st2, out, Ok b) ->
  exists st1 o1 a o2, m st = (st1, o1, Ok a) /\ k a st1 = (st2, o2, Ok b) /\ out = o1 ++ o2.
Proof.
  unfold w_bind. destruct (m st) as [[s1 o1] [a|e]]; [|discriminate].
  destruct (k a s1) as [[s2 o2] r] eqn:E2. intros H. injection H as <- <- ->.
  exists s1, o1, a, o2. auto.
Qed.

Lemma lift_inv {A B} (r : result A) (k : A -> W xstate B) st st2 out (b : B) :
  w_bind (w_lift r) k st = (st2, out, Ok b) -> exists a, r = Ok a /\ k a st = (st2, out, Ok b).
Proof.
  unfold w_bind, w_lift. destruct r as [a|e]; [|discriminate].
  destruct (k a st) as [[s2 o2] r] eqn:E2. intros H. injection H as <- <- ->. exists a. auto.
Qed.

(* ---- the primitives ---- *)
Lemma str_times_one c n : str_times [c] n = repeat c n.
Proof. induction n as [|n IH]; [reflexivity|]. cbn [str_times repeat app]. rewrite IH. reflexivity. Qed.

Lemma indent_model n : str_times xw_indent_unit (n * 2) = indent n.
Proof. unfold indent. rewrite Nat.mul_comm. apply str_times_one. Qed.

Lemma attr_model v :
  XmlOut.l " " ++ l "id" ++ XmlOut.l "='" ++ fmt_o (escape_attr v) ++ XmlOut.l "'" = attr_text (Some v).
Proof. destruct v; reflexivity. Qed.

Lemma push_runs e v st :
  runs (xw_push e (id_attr v)) st (set_stack st (xw_stack st ++ [e])) (ser (length (xw_stack st)) [XOpen e (Some v)]).
Proof.
  eexists. split; [reflexivity|]. cbn [concat fst snd app ser]. rewrite indent_model.
  change (XmlOut.l "id") with (l "id"). rewrite <- attr_model. rewrite <- !app_assoc. reflexivity.
Qed.

Lemma push0_runs e st :
  runs (xw_push e []) st (set_stack st (xw_stack st ++ [e])) (ser (length (xw_stack st)) [XOpen e None]).
Proof.
  eexists. split; [reflexivity|]. cbn [concat fst snd app ser]. rewrite indent_model.
  rewrite <- !app_assoc. reflexivity.
Qed.

Lemma elem_runs e t v st :
  runs (xw_elem e (Some t) (id_attr v)) st st (ser (length (xw_stack st)) [XLeaf e v t]).
Proof.
  eexists. split; [reflexivity|]. cbn [concat fst snd app ser]. rewrite indent_model.
  change (XmlOut.l "id") with (l "id"). rewrite <- attr_model. rewrite <- !app_assoc. reflexivity.
Qed.

Lemma pop_runs e S0 st : xw_stack st = S0 ++ [e] ->
  runs xw_pop st (set_stack st S0) (ser (S (length S0)) [XClose e]).
Proof.
  intros E. unfold runs, xw_pop, w_bind, w_get. rewrite E, rev_app_distr. cbn [rev app].
  rewrite removelast_last. eexists. split; [reflexivity|].
  cbn [concat fst snd app ser set_stack xw_stack pred]. rewrite indent_model. rewrite <- !app_assoc. reflexivity.
Qed.

Lemma set_stack_set st a b : set_stack (set_stack st a) b = set_stack st b.
Proof. reflexivity. Qed.

Lemma set_stack_same st : set_stack st (xw_stack st) = st.
Proof. destruct st; reflexivity. Qed.

Lemma repeat_S_snoc {A} (x : A) n : repeat x (S n) = repeat x n ++ [x].
Proof. cbn [repeat]. apply repeat_cons. Qed.

Lemma pops_runs k : forall S0 st, xw_stack st = S0 ++ repeat LOOP k ->
  runs (w_times k xw_pop) st (set_stack st S0) (ser (length S0 + k) (repeat (XClose LOOP) k)).
Proof.
  induction k as [|k IH]; intros S0 st E.
  - cbn [repeat] in E. rewrite app_nil_r in E. subst S0. rewrite set_stack_same. apply runs_ret.
  - rewrite repeat_S_snoc, app_assoc in E. cbn [w_times].
    pose proof (pop_runs LOOP _ st E) as P.
    pose proof (IH S0 (set_stack st (S0 ++ repeat LOOP k)) eq_refl) as Q. rewrite set_stack_set in Q.
    pose proof (runs_bind _ _ _ _ _ _ _ P Q) as R.
    replace (length S0 + S k) with (S (length S0 + k)) by lia. cbn [repeat].
    change (XClose LOOP :: repeat (XClose LOOP) k) with ([XClose LOOP] ++ repeat (XClose LOOP) k).
    rewrite ser_app. cbn [dep pred]. rewrite app_length, repeat_length in R. exact R.
Qed.

Definition push_loop (id : str) : W xstate unit := xw_push (XmlOut.l "loop") (id_attr (Some id)).

Lemma pushes_runs ids : forall st,
  runs (w_iter push_loop ids) st (set_stack st (xw_stack st ++ repeat LOOP (length ids)))
       (ser (length (xw_stack st)) (map (fun id => XOpen LOOP (Some (Some id))) ids)).
Proof.
  induction ids as [|x ids IH]; intros st.
  - cbn [length repeat map w_iter]. rewrite app_nil_r, set_stack_same. apply runs_ret.
  - cbn [w_iter length map]. pose proof (push_runs LOOP (Some x) st) as P.
    pose proof (IH (set_stack st (xw_stack st ++ [LOOP]))) as Q.
    pose proof (runs_bind _ _ _ _ _ _ _ P Q) as R. clear P Q.
    cbn [set_stack xw_stack x_last] in R. rewrite <- app_assoc in R. cbn [app] in R.
    rewrite app_length in R. cbn [length] in R. rewrite Nat.add_1_r in R.
    match goal with |- runs _ _ _ (ser ?d (?e :: ?r)) => change (e :: r) with ([e] ++ r) end.
    rewrite ser_app. cbn [dep]. exact R.
Qed.


(* ---- iterating over indices = iterating over the elements ---- *)
Lemma w_bind_lift_ok {A B} (a : A) (k : A -> W xstate B) st : w_bind (w_lift (Ok a)) k st = k a st.
Proof. unfold w_bind, w_lift. destruct (k a st) as [[s2 o2] r]. reflexivity. Qed.

Lemma w_bind_ext {A B} (m : W xstate A) (k1 k2 : A -> W xstate B) st :
  (forall a s, k1 a s = k2 a s) -> w_bind m k1 st = w_bind m k2 st.
Proof. intros H. unfold w_bind. destruct (m st) as [[s1 o1] [a|e]]; [rewrite H|]; reflexivity. Qed.

Lemma w_bind_cong_l {A B} (m1 m2 : W xstate A) (k : A -> W xstate B) st :
  m1 st = m2 st -> w_bind m1 k st = w_bind m2 k st.
Proof. unfold w_bind. intros ->. reflexivity. Qed.

Lemma skipn_nth {A} (d : A) : forall k (xs : list A), k < length xs -> skipn k xs = nth k xs d :: skipn (S k) xs.
Proof.
  induction k as [|k IH]; intros [|x xs] H; cbn [length] in H; try lia; [reflexivity|].
  cbn [skipn nth]. rewrite IH by lia. reflexivity.
Qed.

Lemma iter_idx (cur : list str) (G : str -> W xstate unit) : forall n k st, k + n <= length cur ->
  w_iter (fun i => dow id <- w_lift (py_nth cur i); G id) (map Z.of_nat (seq k n)) st =
  w_iter G (firstn n (skipn k cur)) st.
Proof.
  induction n as [|n IH]; intros k st H; [reflexivity|].
  cbn [seq map w_iter]. rewrite (@skipn_nth str [] k cur) by lia. cbn [firstn w_iter].
  rewrite py_nth_nat, (@nth_res_ok str cur k []) by lia.
  transitivity ((dow_ G (nth k cur []); w_iter (fun i => dow id <- w_lift (py_nth cur i); G id) (map Z.of_nat (seq (S k) n))) st).
  - apply w_bind_cong_l, w_bind_lift_ok.
  - apply w_bind_ext. intros a0 s0. cbv beta. apply IH. lia.
Qed.

Lemma zrange_nat k n : zrange (Z.of_nat k) (Z.of_nat n) = map Z.of_nat (seq k (n - k)).
Proof.
  unfold zrange. replace (Z.to_nat (Z.of_nat n - Z.of_nat k)) with (n - k) by lia.
  assert (G : forall c s, map (fun j => (Z.of_nat k + Z.of_nat j)%Z) (seq s c) = map Z.of_nat (seq (k + s) c)).
  { induction c as [|c IH]; intros s; [reflexivity|]. cbn [seq map]. rewrite IH. f_equal; [lia|].
    rewrite Nat.add_succ_r. reflexivity. }
  rewrite G, Nat.add_0_r. reflexivity.
Qed.

(* ---- loops ---- *)
Lemma str_eqb_sym a b : str_eqb a b = str_eqb b a.
Proof.
  destruct (str_eqb a b) eqn:E.
  - apply str_eqb_eq in E. subst. symmetry. apply str_eqb_refl.
  - apply str_eqb_neq in E. symmetry. apply str_eqb_neq. congruence.
Qed.

Lemma path_match_lcp last : forall cur, path_match_idx last cur = lcp last cur.
Proof.
  induction last as [|p pr IH]; intros [|c cr]; try reflexivity.
  cbn [path_match_idx lcp]. rewrite (str_eqb_sym c p), IH. reflexivity.
Qed.

Lemma list_eqb_eq a : forall b, list_eqb str_eqb a b = true <-> a = b.
Proof.
  induction a as [|x a IH]; intros [|y b]; cbn [list_eqb]; split; try congruence; try discriminate.
  - intros H. apply andb_true_iff in H as [H1 H2]. apply str_eqb_eq in H1. apply IH in H2. congruence.
  - intros [= <- <-]. rewrite str_eqb_refl. apply IH. reflexivity.
Qed.

Lemma py_nth_last (cur : list str) : cur <> [] -> py_nth cur (-1) = Ok (List.last cur []).
Proof.
  intros N. unfold py_nth. change (-1 <? 0)%Z with true. cbv iota.
  assert (L : 0 < length cur) by (destruct cur; [congruence | cbn; lia]).
  destruct (Z.ltb_spec (-1 + Z.of_nat (length cur)) 0); [lia|].
  replace (Z.to_nat (-1 + Z.of_nat (length cur))) with (length cur - 1) by lia.
  rewrite (@nth_res_ok str cur _ []) by lia. f_equal.
  rewrite (@app_removelast_last str cur [] N) at 1 2. rewrite app_length. cbn [length].
  rewrite app_nth2 by lia. replace (_ - _) with 0 by lia. reflexivity.
Qed.

Lemma skipn_pred_last (cur : list str) : cur <> [] -> skipn (length cur - 1) cur = [List.last cur []].
Proof.
  intros N. rewrite (@app_removelast_last str cur [] N) at 1 2. rewrite app_length. cbn [length].
  rewrite skipn_app. replace (_ + 1 - 1 - _) with 0 by lia. rewrite skipn_all2 by lia. reflexivity.
Qed.

Lemma dep_closes x n : forall d, dep d (repeat (XClose x) n) = d - n.
Proof. induction n as [|n IH]; intros d; cbn [repeat dep]; [lia|]. rewrite IH. lia. Qed.

Lemma runs_eq m1 m2 st st' t : m1 st = m2 st -> runs m2 st st' t -> runs m1 st st' t.
Proof. unfold runs. intros ->. auto. Qed.

Lemma loop_step first last cur st :
  xw_stack st = X12S :: repeat LOOP (length last) -> x_last st = last -> cur <> [] ->
  prefix_safe last cur = true ->
  runs (if list_eqb str_eqb (x_last st) cur && first then loop_repeat cur else loop_change first (x_last st) cur)
       st (set_stack st (X12S :: repeat LOOP (length cur))) (ser (S (length last)) (loop_events first last cur)).
Proof.
  intros ES EL N PS. rewrite EL. clear EL. rewrite loop_events_keep.
  assert (LC : 0 < length cur) by (destruct cur; [congruence | cbn; lia]).
  destruct (list_eqb str_eqb last cur && first) eqn:C.
  - apply andb_true_iff in C as [C1 ->]. apply list_eqb_eq in C1. subst last.
    unfold keep_n. cbv zeta. rewrite lcp_refl, Nat.eqb_refl. cbn [andb].
    replace (length cur - (length cur - 1)) with 1 by lia. rewrite skipn_pred_last by exact N.
    cbn [repeat map app].
    unfold loop_repeat.
    assert (E : xw_stack st = (X12S :: repeat LOOP (length cur - 1)) ++ [LOOP]).
    { rewrite ES. cbn [app]. rewrite <- repeat_S_snoc. do 2 f_equal. lia. }
    pose proof (pop_runs LOOP _ st E) as P.
    pose proof (push_runs LOOP (Some (List.last cur [])) (set_stack st (X12S :: repeat LOOP (length cur - 1)))) as Q.
    pose proof (runs_bind _ _ _ _ _ _ _ P Q) as R. clear P Q.
    cbn [set_stack xw_stack x_last length app] in R. rewrite repeat_length in R.
    replace (S (length cur - 1)) with (length cur) in R by lia.
    apply runs_eq with (m2 := dow_ xw_pop; xw_push (XmlOut.l "loop") (id_attr (Some (List.last cur [])))).
    { apply w_bind_ext. intros a0 s0. cbv beta. rewrite py_nth_last by exact N. rewrite w_bind_lift_ok. reflexivity. }
    match goal with |- runs _ _ _ (ser ?d (?e :: ?r)) => change (e :: r) with ([e] ++ r) end.
    rewrite ser_app. cbn [dep pred].
    replace (repeat LOOP (length cur)) with (repeat LOOP (length cur - 1) ++ [LOOP]).
    + exact R.
    + rewrite <- repeat_S_snoc. f_equal. lia.
  - unfold loop_change. cbv zeta. rewrite path_match_lcp.
    unfold prefix_safe in PS. apply eqb_prop in PS. rewrite PS.
    pose proof (keep_n_le_l first last cur) as K1. pose proof (keep_n_le_r first last cur) as K2.
    assert (KZ : (if first && (lcp last cur =? length cur) then (Z.of_nat (lcp last cur) - 1)%Z else Z.of_nat (lcp last cur))
                 = Z.of_nat (keep_n first last cur)).
    { unfold keep_n. cbv zeta. destruct (first && (lcp last cur =? length cur)) eqn:F; [|reflexivity].
      apply andb_true_iff in F as [_ F]. apply Nat.eqb_eq in F. lia. }
    rewrite KZ. clear KZ PS C. set (k := keep_n first last cur) in *.
    replace (Z.to_nat (Z.of_nat (length last) - Z.of_nat k)) with (length last - k) by lia.
    rewrite zrange_nat.
    assert (E : xw_stack st = (X12S :: repeat LOOP k) ++ repeat LOOP (length last - k)).
    { rewrite ES. cbn [app]. rewrite <- repeat_app. do 2 f_equal. lia. }
    pose proof (pops_runs _ _ st E) as P.
    pose proof (pushes_runs (skipn k cur) (set_stack st (X12S :: repeat LOOP k))) as Q.
    pose proof (runs_bind _ _ _ _ _ _ _ P Q) as R. clear P Q.
    cbn [set_stack xw_stack x_last length app] in R. rewrite repeat_length, skipn_length, <- repeat_app in R.
    replace (k + (length cur - k)) with (length cur) in R by lia.
    replace (S k + (length last - k)) with (S (length last)) in R by lia.
    apply runs_eq with (m2 := dow_ w_times (length last - k) xw_pop; w_iter push_loop (skipn k cur)).
    { apply w_bind_ext. intros a0 s0. cbv beta. rewrite (iter_idx cur push_loop) by lia.
      rewrite firstn_all2 by (rewrite skipn_length; lia). reflexivity. }
    rewrite ser_app, dep_closes. replace (S (length last) - (length last - k)) with (S k) by lia. exact R.
Qed.


(* ---- reference designators of element positions ---- *)
Lemma fmt02_small_sweep :
  forallb (fun n => wf_ele (fmt_02 (N.of_nat n)) && N.eqb (dec_val (fmt_02 (N.of_nat n))) (N.of_nat n)) (seq 1 99) = true.
Proof. vm_compute. reflexivity. Qed.

Lemma fmt02_small n : 1 <= n <= 99 ->
  wf_ele (fmt_02 (N.of_nat n)) = true /\ dec_val (fmt_02 (N.of_nat n)) = N.of_nat n.
Proof.
  intros H. pose proof fmt02_small_sweep as S. rewrite forallb_forall in S.
  specialize (S n ltac:(apply in_seq; lia)). apply andb_true_iff in S as [S1 S2]. apply N.eqb_eq in S2. auto.
Qed.

Lemma digit_char_digit d : d < 10 -> is_digit (digit_char d) = true.
Proof. intros H. do 10 (destruct d as [|d]; [reflexivity|]). lia. Qed.

Lemma mod10_digit n : is_digit (digit_char (N.to_nat (n mod 10))) = true.
Proof. apply digit_char_digit. pose proof (N.mod_lt n 10 ltac:(lia)). lia. Qed.

Lemma show_digits f : forall n acc, exists pre, show_N_fuel f n acc = pre ++ acc /\ all_digits pre = true.
Proof.
  induction f as [|f IH]; intros n acc; [exists []; auto|].
  cbn [show_N_fuel]. pose proof (mod10_digit n) as D.
  destruct (N.eqb (n / 10) 0).
  - exists [digit_char (N.to_nat (n mod 10))]. cbn [app all_digits forallb]. rewrite D. auto.
  - destruct (IH (n / 10)%N (digit_char (N.to_nat (n mod 10)) :: acc)) as (pre & E & A).
    exists (pre ++ [digit_char (N.to_nat (n mod 10))]). rewrite E, <- app_assoc. split; [reflexivity|].
    unfold all_digits in *. rewrite forallb_app, A. cbn [forallb]. rewrite D. reflexivity.
Qed.

Lemma show_len f : forall n acc k, (10 ^ N.of_nat k <= n)%N -> k < f ->
  exists pre, show_N_fuel f n acc = pre ++ acc /\ all_digits pre = true /\ k < length pre.
Proof.
  induction f as [|f IH]; intros n acc k H L; [lia|].
  cbn [show_N_fuel]. pose proof (mod10_digit n) as D.
  destruct k as [|k].
  - destruct (N.eqb (n / 10) 0).
    + exists [digit_char (N.to_nat (n mod 10))]. cbn [app all_digits forallb length]. rewrite D. auto.
    + destruct (show_digits f (n / 10)%N (digit_char (N.to_nat (n mod 10)) :: acc)) as (pre & E & A).
      exists (pre ++ [digit_char (N.to_nat (n mod 10))]). rewrite E, <- app_assoc. split; [reflexivity|].
      unfold all_digits in *. rewrite forallb_app, A. cbn [forallb]. rewrite D, app_length. cbn [length].
      split; [reflexivity | lia].
  - assert (Q : (10 ^ N.of_nat k <= n / 10)%N).
    { apply N.div_le_lower_bound; [lia|]. rewrite Nat2N.inj_succ, N.pow_succ_r' in H. exact H. }
    assert (NZ : (n / 10 =? 0)%N = false).
    { apply N.eqb_neq. pose proof (N.pow_nonzero 10 (N.of_nat k) ltac:(lia)). lia. }
    rewrite NZ.
    destruct (IH (n / 10)%N (digit_char (N.to_nat (n mod 10)) :: acc) k Q ltac:(lia)) as (pre & E & A & Lp).
    exists (pre ++ [digit_char (N.to_nat (n mod 10))]). rewrite E, <- app_assoc. split; [reflexivity|].
    unfold all_digits in *. rewrite forallb_app, A. cbn [forallb]. rewrite D, app_length. cbn [length]. split; [reflexivity | lia].
Qed.

Lemma fmt02_big n : (100 <= n)%N -> all_digits (fmt_02 n) = true /\ 3 <= length (fmt_02 n).
Proof.
  intros H. unfold fmt_02, fmt_d.
  assert (L : (6 <= N.log2 n)%N) by (change 6%N with (N.log2 100); apply N.log2_le_mono; exact H).
  destruct (show_len (S (N.to_nat (N.log2 n))) n [] 2 ltac:(exact H) ltac:(lia)) as (pre & E & A & Lp).
  rewrite E, app_nil_r. destruct (Nat.ltb_spec (length pre) 2); [lia|]. split; [exact A | lia].
Qed.

Lemma digits_not_shaped w : all_digits w = true -> 3 <= length w -> ~ refdes_shaped w.
Proof.
  intros A L (r & W1 & W2 & W3 & W4 & E).
  assert (AD : all_digits (print_refdes r) = true).
  { destruct E as [E|E]; rewrite E in A; [exact A|]. unfold all_digits in *. rewrite forallb_app in A.
    apply andb_true_iff in A as [A _]. exact A. }
  unfold print_refdes in AD. unfold all_digits in AD. rewrite !forallb_app in AD.
  apply andb_true_iff in AD as [A1 AD]. apply andb_true_iff in AD as [A2 AD]. apply andb_true_iff in AD as [A3 A4].
  destruct (r_seg r) as [sg|] eqn:Es.
  { cbn [opt_ok opt_str] in *. destruct sg as [|a sg]; [discriminate|]. cbn [wf_segid forallb] in *.
    apply andb_true_iff in A1 as [A1 _]. apply andb_true_iff in W1 as [W1 _]. apply andb_true_iff in W1 as [W1 _].
    rewrite (digit_not_upper a A1) in W1. discriminate. }
  destruct (r_qual r) as [q|] eqn:Eq; [cbn in A2; discriminate|].
  destruct (r_sub r) as [u|] eqn:Eu; [cbn in A4; discriminate|].
  assert (Len : length (print_refdes r) <= 2).
  { unfold print_refdes. rewrite Es, Eq, Eu. cbn [opt_str app]. rewrite !app_nil_r.
    destruct (r_ele r) as [e|]; cbn [opt_ok opt_str length] in *; [|lia].
    apply andb_true_iff in W3 as [W3 _]. apply Nat.eqb_eq in W3. lia. }
  destruct E as [E|E]; rewrite E in *.
  - lia.
  - unfold all_digits in A. rewrite forallb_app in A. apply andb_true_iff in A as [_ A]. cbn in A. discriminate.
Qed.

Lemma digits_parse w : all_digits w = true -> 3 <= length w ->
  parse_path w = Ok {| relative := true; loop_list := [w]; seg_id := None; id_val := None; ele_idx := None; subele_idx := None |}.
Proof.
  intros A L.
  assert (NS : ~ In SL w).
  { intros I. unfold all_digits in A. rewrite forallb_forall in A. specialize (A _ I). discriminate. }
  destruct w as [|c0 rest]; [cbn in L; lia|]. unfold parse_path.
  assert (C0 : Ascii.eqb c0 SL = false) by (apply Ascii.eqb_neq; intros ->; apply NS; left; reflexivity).
  rewrite C0. cbn [negb]. rewrite (split_notin SL (c0 :: rest) NS). cbn [rev app].
  destruct (Regex.search Regexes.rec_path (c0 :: rest)) as [x|] eqn:S; [|reflexivity].
  exfalso. exact (digits_not_shaped _ A L (rec_path_shaped _ _ S)).
Qed.

Lemma seg_get_big s n : (100 <= n)%N -> seg_get s (fmt_02 n) = Raise IndexError.
Proof.
  intros H. destruct (fmt02_big n H) as [A L]. unfold seg_get, parse_refdes.
  rewrite (digits_parse _ A L). reflexivity.
Qed.

Lemma seg_get_small s i : i < 99 ->
  seg_get s (fmt_02 (N.of_nat (i + 1))) = get_ix s (Some (Z.of_nat i), None).
Proof.
  intros H. destruct (fmt02_small (i + 1) ltac:(lia)) as [W D].
  set (e := fmt_02 (N.of_nat (i + 1))) in *.
  pose proof (refdes_indices s {| r_seg := None; r_qual := None; r_ele := Some e; r_sub := None |} e) as R.
  cbn [r_seg r_qual r_ele r_sub] in R. unfold seg_get.
  assert (P : print_refdes {| r_seg := None; r_qual := None; r_ele := Some e; r_sub := None |} = e).
  { unfold print_refdes. cbn [r_seg r_qual r_ele r_sub opt_str app]. apply app_nil_r. }
  rewrite P in R. rewrite R; [| | reflexivity | left; reflexivity].
  - cbn [bind option_map]. unfold idx_of. rewrite D. do 3 f_equal. lia.
  - unfold wf_refdes. cbn [r_seg r_qual r_ele r_sub opt_ok is_some implb orb andb]. rewrite W. reflexivity.
Qed.

Lemma seg_get_pos s i g : i < length (els s) ->
  seg_get s (fmt_02 (N.of_nat (i + 1))) = Ok g -> g = GotComp (nth i (els s) []).
Proof.
  intros L H. destruct (le_lt_dec 99 i) as [B|B].
  - rewrite seg_get_big in H by lia. discriminate.
  - rewrite seg_get_small in H by exact B. unfold get_ix in H. cbn [fst snd] in H.
    destruct (Z.leb_spec (Z.of_nat (length (els s))) (Z.of_nat i)); [lia|].
    rewrite py_nth_nat, (nth_res_ok (els s) i []) in H by exact L. cbn [bind] in H. congruence.
Qed.

(* ---- the elements of one segment ---- *)
Lemma dep_leaves {A} (f : A -> xev) (xs : list A) d :
  (forall x, exists n i t, f x = XLeaf n i t) -> dep d (map f xs) = d.
Proof.
  intros H. induction xs as [|x xs IH]; [reflexivity|]. cbn [map]. destruct (H x) as (n & i & t & ->). exact IH.
Qed.

Lemma dep_subs c comp d : dep d (sub_events c comp) = d.
Proof. unfold sub_events. apply dep_leaves. intros x. eauto. Qed.

Lemma dep_child gi dl i comp d : dep d (child_events gi dl i comp) = d.
Proof.
  unfold child_events. destruct (child_for gi i) as [c|]; [|reflexivity].
  destruct (not_used c || comp_empty comp); [reflexivity|]. destruct (ci_kind c); [reflexivity|].
  cbn [dep]. rewrite dep_app, dep_subs. reflexivity.
Qed.

Lemma dep_children gi dl d (ics : list (nat * composite)) :
  dep d (concat (map (fun ic => child_events gi dl (fst ic) (snd ic)) ics)) = d.
Proof. induction ics as [|ic ics IH]; [reflexivity|]. cbn [map concat]. rewrite dep_app, dep_child. exact IH. Qed.

Lemma dep_seg gi dl s d : dep d (seg_events gi dl s) = d.
Proof. unfold seg_events. cbn [dep]. rewrite dep_app, dep_children. reflexivity. Qed.

Lemma dep_opens {A} (f : A -> option (option str)) n (xs : list A) d :
  dep d (map (fun x => XOpen n (f x)) xs) = d + length xs.
Proof. revert d; induction xs as [|x xs IH]; intros d; cbn [map dep length]; [lia|]. rewrite IH. lia. Qed.

Lemma dep_loops first last cur : dep (S (length last)) (loop_events first last cur) = S (length cur).
Proof.
  rewrite loop_events_keep, dep_app, dep_closes, (dep_opens (fun id => Some (Some id))), skipn_length.
  pose proof (keep_n_le_l first last cur). pose proof (keep_n_le_r first last cur). lia.
Qed.

Lemma raise_bind_inv {A B} e (k : A -> W xstate B) st st' out b :
  w_bind (w_raise e) k st = (st', out, Ok b) -> False.
Proof. unfold w_bind, w_raise. discriminate. Qed.

(* ---- fix f38f280: the writer stops at the first component without a sub-element node; the event description lists
   every component, so the two agree only for composites with at most as many components as the node has sub-ids ---- *)
Definition comp_fits (gi : seginfo) (i : nat) (comp : composite) : bool :=
  match child_for gi i with
  | None => true
  | Some c =>
      not_used c || comp_empty comp ||
      match ci_kind c with CEle => true | CComp => length comp <=? length (ci_subids c) end
  end.

(* every composite element that is WRITTEN (its node is found, it is used and not empty) has at most as many
   components as its node has sub-element nodes *)
Definition fits_node (gi : seginfo) (s : seg) : bool :=
  forallb (fun ic : nat * composite => comp_fits gi (fst ic) (snd ic)) (combine (seq 0 (length (els s))) (els s)).

Lemma write_subeles_ok c comp st st' out :
  length comp <= length (ci_subids c) ->
  write_subeles c comp st = (st', out, Ok tt) ->
  st' = st /\ concat out = ser (length (xw_stack st)) (sub_events c comp).
Proof.
  intros LE. unfold write_subeles, sub_events. rewrite (firstn_all2 comp LE).
  generalize (combine (seq 0 (length comp)) comp) as jvs.
  intros jvs. revert st out. induction jvs as [|jv jvs IH]; intros st out H.
  - cbn in H. injection H as <- <-. split; reflexivity.
  - cbn [w_iter map] in H. unfold comp_child_by_idx in H at 1.
    destruct (nth_error (ci_subids c) (fst jv)) as [sub_id|] eqn:E.
    + destruct (bind_runs_inv _ _ _ _ _ _ _ _ (elem_runs (XmlOut.l "subele") (snd jv) sub_id st) H) as (o2 & H2 & C).
      destruct (IH _ _ H2) as [-> C2]. split; [reflexivity|]. rewrite C, C2. cbn [map]. rewrite E.
      match goal with |- _ = ser ?d (?e :: ?r) => change (e :: r) with ([e] ++ r) end.
      rewrite ser_app. reflexivity.
    + exfalso. exact (raise_bind_inv _ _ _ _ _ _ H).
Qed.

Lemma child_by_idx_for gi i c : seg_child_by_idx (gi_children gi) i = Ok (Some c) -> child_for gi i = Some c.
Proof.
  unfold seg_child_by_idx, child_for. destruct (length (gi_children gi) <=? i); [discriminate|].
  destruct (filter _ _) as [|c1 [|c2 r]]; try discriminate. congruence.
Qed.

Lemma format_comp_nonempty sub c : comp_empty c = false -> format_comp sub c <> [].
Proof.
  unfold format_comp, comp_empty. induction c as [|x r IH]; [discriminate|]. intros H.
  cbn [last_nonempty_idx]. cbn [forallb] in H. destruct (forallb ele_empty r) eqn:R.
  - rewrite andb_true_r in H. cbn [firstn join]. destruct x; [discriminate | discriminate].
  - cbn [firstn]. destruct r as [|y r']; [discriminate|]. cbn [firstn join]. destruct x; discriminate.
Qed.

Lemma w_bind_get {B} (k : xstate -> W xstate B) st : w_bind w_get k st = k st st.
Proof. unfold w_bind, w_get. destruct (k st st) as [[s2 o2] r]. reflexivity. Qed.

Lemma ret_inv {A} (a b : A) (st st' : xstate) out : w_ret a st = (st', out, Ok b) -> st' = st /\ out = [] /\ b = a.
Proof. unfold w_ret. intros [= <- <- <-]. auto. Qed.

Lemma write_child_ok gi d s i st st' out : i < length (els s) ->
  comp_fits gi i (nth i (els s) []) = true ->
  write_child gi d s i st = (st', out, Ok tt) ->
  st' = st /\ concat out = ser (length (xw_stack st)) (child_events gi d i (nth i (els s) [])).
Proof.
  intros L FT H. unfold write_child in H.
  apply lift_inv in H as (child & CH & H). destruct child as [c|]; [|discriminate H].
  unfold comp_fits in FT. rewrite (child_by_idx_for _ _ _ CH) in FT.
  unfold child_events. rewrite (child_by_idx_for _ _ _ CH).
  assert (NU : not_used c = opt_eqb str_eqb (ci_usage c) (Some (XmlOut.l "N"))) by reflexivity.
  rewrite NU in FT |- *. set (comp := nth i (els s) []) in *.
  destruct (opt_eqb str_eqb (ci_usage c) (Some (XmlOut.l "N"))) eqn:U.
  - change (w_ret true) with (@w_lift xstate bool (Ok true)) in H. rewrite w_bind_lift_ok in H.
    apply ret_inv in H as (-> & -> & _). cbn [orb]. split; reflexivity.
  - cbn [orb].
    destruct (seg_get s (fmt_02 (N.of_nat (i + 1)))) as [g|e] eqn:SG.
    2:{ exfalso. unfold w_bind at 1 2 in H. unfold w_lift in H. discriminate H. }
    pose proof (seg_get_pos s i g L SG) as ->. fold comp in SG.
    rewrite (w_bind_cong_l _ (w_lift (Ok (comp_empty comp)))) in H by (rewrite w_bind_lift_ok; reflexivity).
    rewrite w_bind_lift_ok in H.
    destruct (comp_empty comp) eqn:CE.
    + apply ret_inv in H as (-> & -> & _). split; reflexivity.
    + cbn [orb] in FT. destruct (ci_kind c).
      * (* simple element *)
        assert (V : seg_get_value d s (fmt_02 (N.of_nat (i + 1))) = Ok (Some (format_comp (subele_term d) comp))).
        { unfold seg_get_value. rewrite SG. reflexivity. }
        rewrite V in H. rewrite w_bind_lift_ok in H. cbn [opt_eqb] in H.
        assert (F : str_eqb (format_comp (subele_term d) comp) [] = false).
        { apply str_eqb_neq. apply format_comp_nonempty. exact CE. }
        rewrite F in H. rewrite w_bind_lift_ok in H.
        destruct (elem_runs (XmlOut.l "ele") (format_comp (subele_term d) comp) (ci_id c) st) as (o & E & C).
        rewrite E in H. injection H as <- <-. split; [reflexivity | exact C].
      * (* composite *)
        destruct (bind_runs_inv _ _ _ _ _ _ _ _ (push_runs (XmlOut.l "comp") (gi_id gi) st) H) as (o2 & H2 & C).
        rewrite w_bind_lift_ok in H2. rewrite w_bind_lift_ok in H2.
        apply bind_inv in H2 as (st1 & o3 & [] & o4 & H3 & H4 & ->).
        apply Nat.leb_le in FT. apply (write_subeles_ok _ _ _ _ _ FT) in H3 as [-> C3].
        destruct (pop_runs (XmlOut.l "comp") (xw_stack st) (set_stack st (xw_stack st ++ [XmlOut.l "comp"])) eq_refl) as (o5 & E5 & C5).
        rewrite E5 in H4. injection H4 as <- <-. rewrite set_stack_set, set_stack_same. split; [reflexivity|].
        rewrite C, concat_app, C3, C5. cbn [set_stack xw_stack]. rewrite app_length. cbn [length]. rewrite Nat.add_1_r.
        match goal with |- _ = ser ?d (?e :: ?r) => change (e :: r) with ([e] ++ r) end.
        rewrite ser_app, ser_app, dep_subs. reflexivity.
Qed.

Lemma skipn_cons_inv {A} (d : A) : forall k (xs : list A) c r,
  skipn k xs = c :: r -> nth k xs d = c /\ skipn (S k) xs = r /\ k < length xs.
Proof.
  induction k as [|k IH]; intros [|x xs] c r H; cbn [skipn] in H; try discriminate.
  - injection H as -> ->. cbn. repeat split; lia.
  - destruct (IH xs c r H) as (H1 & H2 & H3). cbn [nth length]. repeat split; auto; lia.
Qed.

(* ---- fix f38f280: the loop stops at len(children).  When every index below len(children) found its node (exactly
   one child with that seq), the children's seqs are exactly 1..len(children), so no index beyond has a node ---- *)
Definition seq_in (n : nat) (c : child_info) : bool := (1 <=? ci_seq c)%Z && (ci_seq c <=? Z.of_nat n)%Z.

Lemma filter_or_length {A} (p q : A -> bool) : forall xs, (forall x, p x && q x = false) ->
  length (filter (fun x => p x || q x) xs) = length (filter p xs) + length (filter q xs).
Proof.
  induction xs as [|x xs IH]; intros D; [reflexivity|]. cbn [filter]. specialize (IH D). specialize (D x).
  destruct (p x), (q x); cbn [orb andb length] in *; try discriminate; lia.
Qed.

Lemma filter_ext_b {A} (p q : A -> bool) xs : (forall x, p x = q x) -> filter p xs = filter q xs.
Proof. intros E. induction xs as [|x xs IH]; [reflexivity|]. cbn [filter]. rewrite E, IH. reflexivity. Qed.

Lemma seqs_counted cs : forall n,
  (forall i, i < n -> length (filter (fun c => (ci_seq c =? Z.of_nat i + 1)%Z) cs) = 1) ->
  length (filter (seq_in n) cs) = n.
Proof.
  induction n as [|n IH]; intros H.
  - clear H. induction cs as [|c cs IHc]; [reflexivity|]. cbn [filter]. unfold seq_in at 1.
    destruct (Z.leb_spec 1 (ci_seq c)), (Z.leb_spec (ci_seq c) (Z.of_nat 0)); cbn [andb]; try exact IHc. lia.
  - rewrite (filter_ext_b (seq_in (S n)) (fun c => seq_in n c || (ci_seq c =? Z.of_nat n + 1)%Z)).
    + rewrite filter_or_length.
      * rewrite IH by (intros i Li; apply H; lia). rewrite (H n) by lia. lia.
      * intros c. unfold seq_in. destruct (Z.leb_spec 1 (ci_seq c)), (Z.leb_spec (ci_seq c) (Z.of_nat n)),
          (Z.eqb_spec (ci_seq c) (Z.of_nat n + 1)); cbn [andb]; try reflexivity; lia.
    + intros c. unfold seq_in. destruct (Z.leb_spec 1 (ci_seq c)), (Z.leb_spec (ci_seq c) (Z.of_nat n)),
        (Z.leb_spec (ci_seq c) (Z.of_nat (S n))), (Z.eqb_spec (ci_seq c) (Z.of_nat n + 1)); cbn [andb orb]; try reflexivity; lia.
Qed.

Lemma filter_length_le' {A} (p : A -> bool) xs : length (filter p xs) <= length xs.
Proof. induction xs as [|x xs IH]; [cbn; lia|]. cbn [filter]. destruct (p x); cbn [length]; lia. Qed.

Lemma filter_full {A} (p : A -> bool) : forall xs, length (filter p xs) = length xs -> forall x, In x xs -> p x = true.
Proof.
  induction xs as [|y xs IH]; intros E x I; [destruct I|]. cbn [filter] in E. destruct (p y) eqn:P.
  - cbn [length] in E. destruct I as [<-|I]; [exact P | apply IH; [lia | exact I]].
  - pose proof (filter_length_le' p xs). cbn [length] in E. lia.
Qed.

Lemma beyond_none gi :
  (forall i, i < length (gi_children gi) -> exists c, seg_child_by_idx (gi_children gi) i = Ok (Some c)) ->
  forall i, length (gi_children gi) <= i -> child_for gi i = None.
Proof.
  intros H i L. unfold child_for.
  assert (CNT : length (filter (seq_in (length (gi_children gi))) (gi_children gi)) = length (gi_children gi)).
  { apply seqs_counted. intros j Lj. destruct (H j Lj) as (c & E). unfold seg_child_by_idx in E.
    destruct (Nat.leb_spec (length (gi_children gi)) j); [lia|].
    destruct (filter _ _) as [|c1 [|c2 r]]; try discriminate. reflexivity. }
  pose proof (filter_full _ _ CNT) as ALL.
  assert (E : filter (fun c => (ci_seq c =? Z.of_nat i + 1)%Z) (gi_children gi) = []).
  { generalize ALL. generalize (gi_children gi) at 1 3 as cs. induction cs as [|c cs IH]; intros A; [reflexivity|].
    cbn [filter]. pose proof (A c (or_introl eq_refl)) as Q. unfold seq_in in Q. apply andb_true_iff in Q as [_ Q].
    apply Z.leb_le in Q. destruct (Z.eqb_spec (ci_seq c) (Z.of_nat i + 1)); [lia|].
    apply IH. intros x I. apply A. right. exact I. }
  rewrite E. reflexivity.
Qed.

Lemma children_none gi d : (forall i, length (gi_children gi) <= i -> child_for gi i = None) ->
  forall (suffix : list composite) k, length (gi_children gi) <= k ->
  concat (map (fun ic : nat * composite => child_events gi d (fst ic) (snd ic)) (combine (seq k (length suffix)) suffix)) = [].
Proof.
  intros BN. induction suffix as [|c r IH]; intros k L; [reflexivity|].
  cbn [length seq combine map concat fst snd]. unfold child_events at 1. rewrite (BN k L). cbn [app]. apply IH. lia.
Qed.

Lemma write_child_some gi d s i st st' out :
  write_child gi d s i st = (st', out, Ok tt) -> exists c, seg_child_by_idx (gi_children gi) i = Ok (Some c).
Proof.
  intros H. unfold write_child in H. apply lift_inv in H as (child & CH & H).
  destruct child as [c|]; [exists c; exact CH | discriminate H].
Qed.

Lemma children_ok gi d s : forall suffix k st st' out,
  skipn k (els s) = suffix ->
  forallb (fun ic : nat * composite => comp_fits gi (fst ic) (snd ic)) (combine (seq k (length suffix)) suffix) = true ->
  (forall i, i < k -> i < length (gi_children gi) -> exists c, seg_child_by_idx (gi_children gi) i = Ok (Some c)) ->
  w_iter (write_child gi d s) (seq k (Nat.min (length suffix) (length (gi_children gi) - k))) st = (st', out, Ok tt) ->
  st' = st /\
  concat out = ser (length (xw_stack st))
    (concat (map (fun ic : nat * composite => child_events gi d (fst ic) (snd ic)) (combine (seq k (length suffix)) suffix))).
Proof.
  induction suffix as [|c r IH]; intros k st st' out E FT PRE H.
  - cbn in H. injection H as <- <-. split; reflexivity.
  - destruct (@skipn_cons_inv composite [] _ _ _ _ E) as (N & E' & L).
    destruct (le_lt_dec (length (gi_children gi)) k) as [B|B].
    + replace (length (gi_children gi) - k) with 0 in H by lia. rewrite Nat.min_0_r in H.
      cbn in H. injection H as <- <-.
      rewrite (children_none gi d (beyond_none gi (fun i Li => PRE i ltac:(lia) Li)) (c :: r) k B). split; reflexivity.
    + replace (length (gi_children gi) - k) with (S (length (gi_children gi) - S k)) in H by lia.
      cbn [length] in H. rewrite <- Nat.succ_min_distr in H.
      cbn [length seq combine forallb fst snd] in FT. apply andb_true_iff in FT as [FT1 FT2].
      cbn [seq w_iter] in H. apply bind_inv in H as (st1 & o1 & [] & o2 & H1 & H2 & ->).
      pose proof (write_child_some _ _ _ _ _ _ _ H1) as SM. rewrite <- N in FT1.
      apply (write_child_ok _ _ _ _ _ _ _ L FT1) in H1 as [-> C1].
      assert (PRE' : forall i, i < S k -> i < length (gi_children gi) -> exists c0, seg_child_by_idx (gi_children gi) i = Ok (Some c0)).
      { intros i Li Lc. destruct (Nat.eq_dec i k) as [->|NE]; [exact SM | apply PRE; [lia | exact Lc]]. }
      destruct (IH _ _ _ _ E' FT2 PRE' H2) as [-> C2]. split; [reflexivity|].
      rewrite concat_app, C1, C2. cbn [length seq combine map concat fst snd]. rewrite ser_app, dep_child, N. reflexivity.
Qed.

(* ---- one segment ---- *)
Lemma seg_step gi d s last cur pp st st' out :
  xw_stack st = X12S :: repeat LOOP (length last) -> x_last st = last ->
  gi_parent_path gi = Ok pp -> path_list pp = cur -> cur <> [] -> prefix_safe last cur = true ->
  fits_node gi s = true ->
  simple_seg (TSeg gi) d s st = (st', out, Ok tt) ->
  (xw_stack st' = X12S :: repeat LOOP (length cur) /\ x_last st' = cur) /\
  concat out = ser (S (length last)) (loop_events (gi_first gi) last cur ++ seg_events gi d s).
Proof.
  intros ES EL PP PL N PS FT H. unfold simple_seg in H. rewrite PP, w_bind_lift_ok, w_bind_get, PL in H.
  destruct (bind_runs_inv _ _ _ _ _ _ _ _ (loop_step (gi_first gi) last cur st ES EL N PS) H) as (o2 & H2 & C2).
  clear H. set (st1 := set_stack st (X12S :: repeat LOOP (length cur))) in *.
  destruct (bind_runs_inv _ _ _ _ _ _ _ _ (push_runs (XmlOut.l "seg") (gi_id gi) st1) H2) as (o3 & H3 & C3).
  clear H2. apply bind_inv in H3 as (st2 & o4 & [] & o5 & H4 & H5 & ->).
  rewrite <- (Nat.sub_0_r (length (gi_children gi))) in H4.
  apply (children_ok gi d s (els s) 0 _ _ _ eq_refl FT ltac:(intros i Li; lia)) in H4 as [-> C4].
  set (st2 := set_stack st1 (xw_stack st1 ++ [XmlOut.l "seg"])) in *.
  destruct (bind_runs_inv _ _ _ _ _ _ _ _ (pop_runs (XmlOut.l "seg") (xw_stack st1) st2 eq_refl) H5) as (o6 & H6 & C6).
  unfold w_mod in H6. injection H6 as <- <-. split; [split; reflexivity|].
  rewrite C2, C3, concat_app, C4, C6. cbn [concat app]. rewrite app_nil_r.
  subst st2 st1. cbn [set_stack xw_stack length]. rewrite ?app_length. cbn [length].
  rewrite ?repeat_length, ?Nat.add_1_r. rewrite ser_app, dep_loops. f_equal. unfold seg_events.
  match goal with |- _ = ser ?d (?e :: ?r) => change (e :: r) with ([e] ++ r) end.
  rewrite ser_app, ser_app, dep_children. reflexivity.
Qed.

(* ---- the document ---- *)
Lemma dep_body xs : forall last,
  dep (S (length last)) (fst (body_events last xs)) = S (length (snd (body_events last xs))).
Proof.
  induction xs as [|x xs IH]; intros last; [reflexivity|].
  cbn [body_events]. specialize (IH (lc_path x)). destruct (body_events (lc_path x) xs) as [more fin].
  cbn [fst snd] in *. rewrite !dep_app, dep_loops, dep_seg. exact IH.
Qed.

Lemma body_ok xs : forall last st st' out,
  xw_stack st = X12S :: repeat LOOP (length last) -> x_last st = last ->
  (fix inputs_ok (last : list str) (xs : list located) : bool :=
     match xs with
     | [] => true
     | x :: r =>
         match gi_parent_path (lc_gi x) with
         | Ok pp => list_eqb str_eqb (path_list pp) (lc_path x)
         | Raise _ => false
         end && negb (match lc_path x with [] => true | _ => false end) && prefix_safe last (lc_path x) &&
         inputs_ok (lc_path x) r
     end) last xs = true ->
  forallb (fun x => fits_node (lc_gi x) (lc_seg x)) xs = true ->
  w_iter (fun x => simple_seg (TSeg (lc_gi x)) (lc_d x) (lc_seg x)) xs st = (st', out, Ok tt) ->
  (xw_stack st' = X12S :: repeat LOOP (length (snd (body_events last xs))) /\ x_last st' = snd (body_events last xs)) /\
  concat out = ser (S (length last)) (fst (body_events last xs)).
Proof.
  induction xs as [|x xs IH]; intros last st st' out ES EL OK FT H.
  - cbn in H. injection H as <- <-. cbn [body_events fst snd]. auto.
  - cbn [forallb] in FT. apply andb_true_iff in FT as [FT1 FT2]. apply andb_true_iff in OK as [OK OK4]. apply andb_true_iff in OK as [OK OK3]. apply andb_true_iff in OK as [OK1 OK2].
    destruct (gi_parent_path (lc_gi x)) as [pp|] eqn:PP; [|discriminate]. apply list_eqb_eq in OK1.
    assert (N : lc_path x <> []) by (destruct (lc_path x); [discriminate | discriminate]).
    cbn [w_iter] in H. apply bind_inv in H as (st1 & o1 & [] & o2 & H1 & H2 & ->).
    destruct (seg_step _ _ _ _ _ _ _ _ _ ES EL PP OK1 N OK3 FT1 H1) as [[ES1 EL1] C1].
    destruct (IH _ _ _ _ ES1 EL1 OK4 FT2 H2) as [[ES2 EL2] C2].
    cbn [body_events]. destruct (body_events (lc_path x) xs) as [more fin]. cbn [fst snd] in *.
    split; [split; assumption|]. rewrite concat_app, C1, C2.
    rewrite (ser_app (_ ++ _)), dep_app, dep_loops, dep_seg. reflexivity.
Qed.

Lemma del_runs n : forall st, xw_stack st = X12S :: repeat LOOP n ->
  runs (w_times (S n) xw_pop) st (set_stack st []) (ser (S n) (repeat (XClose LOOP) n ++ [XClose X12S])).
Proof.
  induction n as [|n IH]; intros st E.
  - cbn [repeat] in E. cbn [w_times repeat app].
    pose proof (runs_bind _ _ _ _ _ _ _ (pop_runs X12S [] st E) (runs_ret _)) as R. rewrite app_nil_r in R. exact R.
  - assert (E2 : xw_stack st = (X12S :: repeat LOOP n) ++ [LOOP]) by (rewrite E; cbn [app]; rewrite <- repeat_S_snoc; reflexivity).
    pose proof (pop_runs LOOP _ st E2) as P.
    pose proof (IH (set_stack st (X12S :: repeat LOOP n)) eq_refl) as Q.
    pose proof (runs_bind _ _ _ _ _ _ _ P Q) as R. cbn [length] in R. rewrite repeat_length in R.
    change (w_times (S (S n)) xw_pop) with (dow_ xw_pop; w_times (S n) xw_pop). cbn [repeat app].
    match goal with |- runs _ _ _ (ser ?d (?e :: ?r)) => change (e :: r) with ([e] ++ r) end.
    rewrite ser_app. exact R.
Qed.

Lemma init_runs : runs (simple_init None) x_empty {| xw_stack := [X12S]; x_last := [] |} (xml_decl ++ ser 0 [XOpen X12S None]).
Proof. eexists. split; [reflexivity|]. vm_compute. reflexivity. Qed.

Lemma model_refines xs st chunks :
  (fix inputs_ok (last : list str) (xs : list located) : bool :=
     match xs with
     | [] => true
     | x :: r =>
         match gi_parent_path (lc_gi x) with
         | Ok pp => list_eqb str_eqb (path_list pp) (lc_path x)
         | Raise _ => false
         end && negb (match lc_path x with [] => true | _ => false end) && prefix_safe last (lc_path x) &&
         inputs_ok (lc_path x) r
     end) [] xs = true ->
  forallb (fun x => fits_node (lc_gi x) (lc_seg x)) xs = true ->
  (dow_ simple_init None;
   dow_ w_iter (fun x => simple_seg (TSeg (lc_gi x)) (lc_d x) (lc_seg x)) xs;
   simple_del) x_empty = (st, chunks, Ok tt) ->
  concat chunks = xml_decl ++ ser 0 (doc_events xs).
Proof.
  intros OK FT H.
  destruct (bind_runs_inv _ _ _ _ _ _ _ _ init_runs H) as (o2 & H2 & C2). clear H.
  apply bind_inv in H2 as (st1 & o3 & [] & o4 & H3 & H4 & ->).
  destruct (body_ok xs [] {| xw_stack := [X12S]; x_last := [] |} _ _ eq_refl eq_refl OK FT H3) as [[ES EL] C3].
  unfold simple_del in H4. rewrite w_bind_get in H4. unfold xw_len in H4. rewrite ES in H4. cbn [length] in H4.
  rewrite repeat_length in H4. destruct (del_runs _ st1 ES) as (o5 & E5 & C5). rewrite E5 in H4. injection H4 as <- <-.
  rewrite C2, concat_app, C3, C5, <- app_assoc. f_equal. unfold doc_events.
  pose proof (dep_body xs []) as DB.
  destruct (body_events [] xs) as [body fin]. cbn [fst snd length] in *.
  rewrite map_const. change (C08_spec.l "loop") with LOOP. change (C08_spec.l "x12simple") with X12S.
  change (XOpen X12S None :: body ++ repeat (XClose LOOP) (length fin) ++ [XClose X12S])
    with ([XOpen X12S None] ++ body ++ repeat (XClose LOOP) (length fin) ++ [XClose X12S]).
  rewrite (ser_app [XOpen X12S None]). cbn [dep]. rewrite (ser_app body), DB. reflexivity.
Qed.

(* ================================================================== *)
(* Part D: one segment tree back to a segment                          *)

(* ---- the printed form of a segment depends on its cells only ---- *)
Section Canon.
Context {A : Type} (emp : A -> bool) (dflt : A) (g : A -> str).
Hypothesis emp_dflt : emp dflt = true.
Hypothesis g_emp : forall a, emp a = true -> g a = [].

Definition keepf (xs : list A) : list A := firstn (S (last_nonempty_idx emp xs)) xs.

Lemma keepf_cons x r : keepf (x :: r) = if forallb emp r then [x] else x :: keepf r.
Proof. unfold keepf. cbn [last_nonempty_idx]. destruct (forallb emp r); reflexivity. Qed.

Fixpoint can (xs : list A) : list str :=
  match xs with
  | [] => []
  | x :: r => if forallb emp (x :: r) then [] else g x :: can r
  end.

Lemma can_all xs : forallb emp xs = true -> can xs = [].
Proof. destruct xs as [|x r]; [reflexivity|]. intros H. cbn [can]. rewrite H. reflexivity. Qed.

Lemma can_not_all xs : forallb emp xs = false -> can xs <> [].
Proof. destruct xs as [|x r]; [discriminate|]. intros H. cbn [can]. rewrite H. discriminate. Qed.

Lemma join_cons_ne c a (L : list str) : L <> [] -> join c (a :: L) = a ++ c :: join c L.
Proof. destruct L; [congruence | reflexivity]. Qed.

Lemma join_keepf_can c xs : join c (map g (keepf xs)) = join c (can xs).
Proof.
  induction xs as [|x r IH]; [reflexivity|].
  rewrite keepf_cons. cbn [can forallb]. destruct (forallb emp r) eqn:R.
  - rewrite andb_true_r, (can_all r R). cbn [map join]. destruct (emp x) eqn:E; [apply g_emp; exact E | reflexivity].
  - rewrite andb_false_r. cbn [map]. rewrite !join_cons_ne, IH; [reflexivity | apply can_not_all; exact R |].
    destruct r as [|y r']; [discriminate|]. rewrite keepf_cons. destruct (forallb emp r'); discriminate.
Qed.

Lemma forallb_nth xs : forallb emp xs = true <-> forall i, emp (nth i xs dflt) = true.
Proof.
  split.
  - intros H i. rewrite forallb_forall in H. destruct (Nat.lt_ge_cases i (length xs)) as [L|L].
    + apply H, nth_In, L.
    + rewrite nth_overflow by exact L. exact emp_dflt.
  - intros H. apply forallb_forall. intros x I. destruct (In_nth _ _ dflt I) as (i & _ & <-). apply H.
Qed.

Lemma forallb_nth_eq xs ys : (forall i, emp (nth i xs dflt) = emp (nth i ys dflt)) -> forallb emp xs = forallb emp ys.
Proof.
  intros H. destruct (forallb emp xs) eqn:X; destruct (forallb emp ys) eqn:Y; try reflexivity.
  - rewrite forallb_nth in X. assert (Y' : forallb emp ys = true) by (apply forallb_nth; intros i; rewrite <- H; apply X). congruence.
  - rewrite forallb_nth in Y. assert (X' : forallb emp xs = true) by (apply forallb_nth; intros i; rewrite H; apply Y). congruence.
Qed.

Lemma can_ext xs : forall ys,
  (forall i, emp (nth i xs dflt) = emp (nth i ys dflt)) -> (forall i, g (nth i xs dflt) = g (nth i ys dflt)) ->
  can xs = can ys.
Proof.
  induction xs as [|x r IH]; intros ys HE HG.
  - symmetry. apply can_all. apply forallb_nth. intros i. rewrite <- HE. destruct i; exact emp_dflt.
  - destruct ys as [|y r'].
    + apply can_all. apply forallb_nth. intros i. rewrite HE. destruct i; exact emp_dflt.
    + cbn [can]. rewrite (forallb_nth_eq (x :: r) (y :: r') HE). destruct (forallb emp (y :: r')); [reflexivity|].
      f_equal; [exact (HG 0)|]. apply IH; intros i; [exact (HE (S i)) | exact (HG (S i))].
Qed.

Lemma join_keepf_ext c xs ys :
  (forall i, emp (nth i xs dflt) = emp (nth i ys dflt)) -> (forall i, g (nth i xs dflt) = g (nth i ys dflt)) ->
  join c (map g (keepf xs)) = join c (map g (keepf ys)).
Proof. intros HE HG. rewrite !join_keepf_can, (can_ext xs ys HE HG). reflexivity. Qed.
End Canon.

Lemma ele_empty_nil v : ele_empty v = true -> v = [].
Proof. destruct v; [reflexivity | discriminate]. Qed.

Lemma format_comp_keepf sub c : format_comp sub c = join sub (map (fun x => x) (keepf ele_empty c)).
Proof. rewrite map_id. reflexivity. Qed.

Lemma format_comp_cells sub (c1 c2 : composite) :
  (forall j, nth j c1 [] = nth j c2 []) -> format_comp sub c1 = format_comp sub c2.
Proof.
  intros H. rewrite !format_comp_keepf. apply (join_keepf_ext ele_empty [] (fun x => x)).
  - reflexivity.
  - exact ele_empty_nil.
  - intros i. rewrite H. reflexivity.
  - exact H.
Qed.

Lemma format_comp_empty sub c : comp_empty c = true -> format_comp sub c = [].
Proof.
  intros H. rewrite format_comp_keepf, (join_keepf_can ele_empty (fun x => x) ele_empty_nil).
  unfold comp_empty in H. rewrite (can_all ele_empty (fun x => x) c H). reflexivity.
Qed.

Lemma comp_empty_cells (c1 c2 : composite) :
  (forall j, nth j c1 [] = nth j c2 []) -> comp_empty c1 = comp_empty c2.
Proof. intros H. apply (forallb_nth_eq ele_empty []); [reflexivity|]. intros i. rewrite H. reflexivity. Qed.

Lemma format_seg_cells d s1 s2 :
  sid s1 = sid s2 -> (forall i j, cell s1 i j = cell s2 i j) -> format_seg d s1 = format_seg d s2.
Proof.
  intros HS HC. unfold format_seg. rewrite HS. do 2 f_equal. f_equal.
  apply (join_keepf_ext comp_empty [] (format_comp (subele_term d))).
  - reflexivity.
  - apply format_comp_empty.
  - intros i. apply comp_empty_cells. intros j. apply HC.
  - intros i. apply format_comp_cells. intros j. apply HC.
Qed.

(* ---- decimal numerals ---- *)
Lemma digit_char_props d : 1 <= d < 10 -> digit_char d <> "0"%char /\ digit_val (digit_char d) = d.
Proof. intros H. do 10 (destruct d as [|d]; [split; [try lia; discriminate | reflexivity]|]). lia. Qed.

Lemma digit_val_char d : d < 10 -> digit_val (digit_char d) = d.
Proof. intros H. do 10 (destruct d as [|d]; [reflexivity|]). lia. Qed.

Lemma show_spec f : forall n acc, (0 < n)%N -> (n < 2 ^ N.of_nat f)%N ->
  exists u, show_N_fuel f n acc = u ++ acc /\ canon u /\ dec_val u = n.
Proof.
  induction f as [|f IH]; intros n acc P B; [cbn in B; lia|].
  cbn [show_N_fuel]. pose proof (mod10_digit n) as D.
  pose proof (N.div_mod n 10 ltac:(lia)) as DM. pose proof (N.mod_lt n 10 ltac:(lia)) as ML.
  destruct (N.eqb_spec (n / 10) 0) as [Q|Q].
  - exists [digit_char (N.to_nat (n mod 10))]. split; [reflexivity|].
    destruct (digit_char_props (N.to_nat (n mod 10)) ltac:(lia)) as [NZ DV].
    split; [split; [cbn [all_digits forallb]; rewrite D; reflexivity | exact NZ]|].
    unfold dec_val. cbn [fold_left]. rewrite DV. lia.
  - assert (B2 : (n / 10 < 2 ^ N.of_nat f)%N).
    { rewrite Nat2N.inj_succ, N.pow_succ_r' in B. apply N.div_lt_upper_bound; lia. }
    destruct (IH (n / 10)%N (digit_char (N.to_nat (n mod 10)) :: acc) ltac:(lia) B2) as (u & E & C & V).
    exists (u ++ [digit_char (N.to_nat (n mod 10))]). rewrite E, <- app_assoc. split; [reflexivity|]. split.
    + destruct C as [C1 C2]. split.
      * unfold all_digits in *. rewrite forallb_app, C1. cbn [forallb]. rewrite D. reflexivity.
      * destruct u; [contradiction | exact C2].
    + rewrite dec_val_snoc, V, digit_val_char by lia. lia.
Qed.

Lemma fmt_d_spec n : (0 < n)%N -> wf_sub (fmt_d n) = true /\ dec_val (fmt_d n) = n.
Proof.
  intros P. unfold fmt_d.
  destruct (show_spec (S (N.to_nat (N.log2 n))) n [] P) as (u & E & [C1 C2] & V).
  { rewrite Nat2N.inj_succ, N2Nat.id. apply N.log2_spec. exact P. }
  rewrite E, app_nil_r. split; [|exact V]. unfold wf_sub. destruct u as [|a u]; [contradiction|].
  rewrite C1. apply Ascii.eqb_neq in C2. rewrite C2. reflexivity.
Qed.

(* ---- the ids of the element and sub-element nodes parse to their positions ---- *)
Lemma refdes_of_parse acc sid0 k : wf_segid sid0 = true -> k < 99 -> sid acc = Some sid0 ->
  parse_refdes acc (refdes_of sid0 k) = Ok (Some (Z.of_nat k), None).
Proof.
  intros W K S. destruct (fmt02_small (k + 1) ltac:(lia)) as [WE D].
  unfold refdes_of. set (e := fmt_02 (N.of_nat (k + 1))) in *.
  pose proof (refdes_indices acc {| r_seg := Some sid0; r_qual := None; r_ele := Some e; r_sub := None |} e) as R.
  cbn [r_seg r_qual r_ele r_sub option_map] in R.
  assert (P : print_refdes {| r_seg := Some sid0; r_qual := None; r_ele := Some e; r_sub := None |} = sid0 ++ e).
  { unfold print_refdes. cbn [r_seg r_qual r_ele r_sub opt_str app]. rewrite app_nil_r. reflexivity. }
  rewrite P in R. rewrite R; [| | reflexivity | right; symmetry; exact S].
  - unfold idx_of. rewrite D. do 3 f_equal. lia.
  - unfold wf_refdes. cbn [r_seg r_qual r_ele r_sub opt_ok is_some implb orb andb]. rewrite W, WE. reflexivity.
Qed.

Lemma subrefdes_of_parse acc sid0 k j : wf_segid sid0 = true -> k < 99 -> sid acc = Some sid0 ->
  parse_refdes acc (subrefdes_of sid0 k j) = Ok (Some (Z.of_nat k), Some (Z.of_nat j)).
Proof.
  intros W K S. destruct (fmt02_small (k + 1) ltac:(lia)) as [WE D].
  destruct (fmt_d_spec (N.of_nat (j + 1)) ltac:(lia)) as [WU DU].
  unfold subrefdes_of, refdes_of. set (e := fmt_02 (N.of_nat (k + 1))) in *. set (u := fmt_d (N.of_nat (j + 1))) in *.
  pose proof (refdes_indices acc {| r_seg := Some sid0; r_qual := None; r_ele := Some e; r_sub := Some u |} e) as R.
  cbn [r_seg r_qual r_ele r_sub option_map] in R.
  assert (P : print_refdes {| r_seg := Some sid0; r_qual := None; r_ele := Some e; r_sub := Some u |} = (sid0 ++ e) ++ C08_spec.l "-" ++ u).
  { unfold print_refdes. cbn [r_seg r_qual r_ele r_sub opt_str app]. rewrite <- app_assoc. reflexivity. }
  rewrite P in R. rewrite R; [| | reflexivity | right; symmetry; exact S].
  - unfold idx_of. rewrite D, DU. f_equal. f_equal; f_equal; lia.
  - unfold wf_refdes. cbn [r_seg r_qual r_ele r_sub opt_ok is_some implb orb andb]. rewrite W, WE, WU. reflexivity.
Qed.

(* ---- which elements appear in the tree, and when their ids can be read back ---- *)
Definition emitted (gi : seginfo) (ic : nat * composite) : bool :=
  match child_for gi (fst ic) with
  | Some c => negb (not_used c || comp_empty (snd ic))
  | None => false
  end.

(* every element that appears in the XML carries an id that IS a reference designator: the segment id has the
   documented form (an upper-case letter followed by one or two upper-case letters or digits) and the position
   is at most 99 (two digits) *)
Definition ids_parse (gi : seginfo) (s : seg) : bool :=
  match sid s with
  | Some sid0 =>
      forallb (fun ic : nat * composite => negb (emitted gi ic) || (wf_segid sid0 && (fst ic <? 99)))
              (combine (seq 0 (length (els s))) (els s))
  | None => false
  end.

Definition row_fit (sid0 : str) (gi : seginfo) (ic : nat * composite) : bool :=
  match child_for gi (fst ic) with
  | None => false
  | Some c =>
      opt_eqb str_eqb (ci_id c) (Some (refdes_of sid0 (fst ic))) &&
      match ci_kind c with
      | CEle => length (snd ic) =? 1
      | CComp => (length (snd ic) <=? length (ci_subids c)) && negb (length (snd ic) =? 0) &&
                 forallb (fun jo : nat * option str => opt_eqb str_eqb (snd jo) (Some (subrefdes_of sid0 (fst ic) (fst jo))))
                         (combine (seq 0 (length (ci_subids c))) (ci_subids c))
      end
  end.

Lemma x_get_leaf n id t : x_get (leaf_tree n id t) "id" = Some (unopt id).
Proof. reflexivity. Qed.

Lemma iter_all_leaf f n id t : iter_all (S f) (leaf_tree n id t) = [leaf_tree n id t].
Proof. reflexivity. Qed.

Lemma iter_all_S f e : iter_all (S f) e = e :: flat_map (iter_all f) (x_children e).
Proof. reflexivity. Qed.

Lemma in_combine_seq {A} (xs : list A) : forall j o start,
  nth_error xs j = Some o -> In (start + j, o) (combine (seq start (length xs)) xs).
Proof.
  induction xs as [|x xs IH]; intros [|j] o start H; cbn [nth_error] in H; try discriminate.
  - injection H as ->. left. rewrite Nat.add_0_r. reflexivity.
  - right. cbn [length seq combine]. rewrite Nat.add_succ_r. apply (IH j o (S start) H).
Qed.

Lemma opt_eqb_some a b : opt_eqb str_eqb a (Some b) = true -> a = Some b.
Proof. destruct a as [x|]; cbn [opt_eqb]; [|discriminate]. intros H. apply str_eqb_eq in H. congruence. Qed.

Lemma nth_unit_nil j : nth j [([] : str)] [] = [].
Proof. destruct j as [|[|j]]; reflexivity. Qed.

Section OneSeg.
Variables (gi : seginfo) (d : delims) (sid0 : str) (s : seg).
Hypothesis NISA : str_eqb sid0 (C08_spec.l "ISA") = false.

Definition Tcell (i j : nat) : str :=
  match child_for gi i with
  | Some c => if not_used c then [] else cell s i j
  | None => cell s i j
  end.

Definition InvD (acc : seg) (k : nat) : Prop :=
  sid acc = Some sid0 /\ forall i j, cell acc i j = if i <? k then Tcell i j else [].

Lemma not_isa16 acc i : sid acc = Some sid0 -> is_isa16 acc i = false.
Proof. intros E. unfold is_isa16. rewrite E. cbn [opt_eqb]. change (list_ascii_of_string "ISA") with (C08_spec.l "ISA"). rewrite NISA. reflexivity. Qed.

Lemma inv_skip acc k : InvD acc k -> (forall j, Tcell k j = []) -> InvD acc (S k).
Proof.
  intros [Hs C] T. split; [exact Hs|]. intros i j. rewrite C.
  destruct (Nat.ltb_spec i k), (Nat.ltb_spec i (S k)); try reflexivity; try lia.
  assert (i = k) by lia. subst i. symmetry. apply T.
Qed.

Lemma inv_step acc acc' k comp c :
  InvD acc k -> child_for gi k = Some c -> not_used c = false -> nth k (els s) [] = comp ->
  sid acc' = sid acc -> (forall i j, cell acc' i j = if i =? k then nth j comp [] else cell acc i j) ->
  InvD acc' (S k).
Proof.
  intros [Hs C] CF NU N S' C'. split; [congruence|]. intros i j. rewrite C', C.
  destruct (Nat.eqb_spec i k) as [->|NE].
  - destruct (Nat.ltb_spec k (S k)); [|lia]. unfold Tcell. rewrite CF, NU. unfold cell. rewrite N. reflexivity.
  - destruct (Nat.ltb_spec i k), (Nat.ltb_spec i (S k)); try reflexivity; lia.
Qed.

(* the sub-elements of one composite *)
Lemma subs_ok c k : forall (vs : list str) j acc,
  wf_segid sid0 = true -> k < 99 -> sid acc = Some sid0 ->
  (forall j', j' < j + length vs -> nth_error (ci_subids c) j' = Some (Some (subrefdes_of sid0 k j'))) ->
  (forall j', j <= j' -> cell acc k j' = []) ->
  exists acc',
    set_subeles acc (map (fun jv : nat * str =>
                            leaf_tree (C08_spec.l "subele")
                              (match nth_error (ci_subids c) (fst jv) with Some i => i | None => None end) (snd jv))
                         (combine (seq j (length vs)) vs)) = Ok acc' /\
    sid acc' = sid acc /\
    forall i j', cell acc' i j' = if (i =? k) && (j <=? j') then nth (j' - j) vs [] else cell acc i j'.
Proof.
  induction vs as [|v r IH]; intros j acc W K Hs HI HE.
  - exists acc. split; [reflexivity|]. split; [reflexivity|]. intros i j'.
    destruct ((i =? k) && (j <=? j')) eqn:B; [|reflexivity].
    apply andb_true_iff in B as [B1 B2]. apply Nat.eqb_eq in B1. apply Nat.leb_le in B2. subst i.
    rewrite HE by exact B2. destruct (j' - j); reflexivity.
  - cbn [length seq combine map set_subeles fst snd]. cbn [length] in HI.
    rewrite (HI j ltac:(lia)).
    destruct v as [|c0 v0].
    + (* empty component: no text, nothing is set *)
      cbn [leaf_tree x_text bind].
      destruct (IH (S j) acc W K Hs) as (acc' & E & S' & C').
      { intros j' L. apply HI. lia. }
      { intros j' L. apply HE. lia. }
      exists acc'. split; [exact E|]. split; [exact S'|]. intros i j'. rewrite C'.
      destruct (Nat.eqb_spec i k) as [->|NE]; cbn [andb]; [|reflexivity].
      destruct (Nat.leb_spec (S j) j'), (Nat.leb_spec j j'); try lia.
      * replace (j' - j) with (S (j' - S j)) by lia. reflexivity.
      * assert (j' = j) by lia. subst j'. rewrite Nat.sub_diag. cbn [nth]. apply HE. lia.
      * reflexivity.
    + cbn [leaf_tree x_text]. rewrite x_get_leaf. cbn [unopt seg_set_opt].
      rewrite (subrefdes_of_parse acc sid0 k j W K Hs). cbn [bind].
      pose proof (not_isa16 acc k Hs) as NI.
      destruct (set_get_comp XD acc k j (c0 :: v0) NI) as (acc1 & E1 & _).
      change (Some (Z.of_nat k), Some (Z.of_nat j)) with (zi k, zi j). rewrite E1.
      pose proof (set_frame_comp XD acc k j (c0 :: v0) acc1 NI E1) as F1.
      destruct (set_extends XD acc k (Some j) (c0 :: v0) acc1 E1) as [_ S1].
      destruct (IH (S j) acc1 W K ltac:(congruence)) as (acc' & E & S' & C').
      { intros j' L. apply HI. lia. }
      { intros j' L. rewrite F1. rewrite Nat.eqb_refl. cbn [andb]. destruct (Nat.eqb_spec j' j); [lia|]. apply HE. lia. }
      exists acc'. split; [exact E|]. split; [congruence|]. intros i j'. rewrite C', F1.
      destruct (Nat.eqb_spec i k) as [->|NE]; cbn [andb]; [|reflexivity].
      destruct (Nat.leb_spec (S j) j'), (Nat.leb_spec j j'); try lia.
      * replace (j' - j) with (S (j' - S j)) by lia. reflexivity.
      * assert (j' = j) by lia. subst j'. rewrite Nat.sub_diag, Nat.eqb_refl. reflexivity.
      * destruct (Nat.eqb_spec j' j); [lia | reflexivity].
Qed.

Lemma apply_nodes_app acc a : forall b, apply_nodes acc (a ++ b) = do s' <- apply_nodes acc a; apply_nodes s' b.
Proof.
  revert acc. induction a as [|n a IH]; intros acc b; [reflexivity|].
  cbn [app apply_nodes]. destruct (apply_node acc n) as [s1|e]; cbn [bind]; [apply IH | reflexivity].
Qed.

Lemma apply_nodes_subeles acc (L : list (nat * str)) (f : nat * str -> option str) :
  apply_nodes acc (map (fun jv => leaf_tree (C08_spec.l "subele") (f jv) (snd jv)) L) = Ok acc.
Proof. induction L as [|x L IH]; [reflexivity|]. cbn [map apply_nodes]. exact IH. Qed.

Lemma flat_map_leaves fu (L : list (nat * str)) (f : nat * str -> option str) :
  flat_map (iter_all (S fu)) (map (fun jv => leaf_tree (C08_spec.l "subele") (f jv) (snd jv)) L) =
  map (fun jv => leaf_tree (C08_spec.l "subele") (f jv) (snd jv)) L.
Proof. induction L as [|x L IH]; [reflexivity|]. cbn [map flat_map]. rewrite iter_all_leaf, IH. reflexivity. Qed.

Lemma filter_subeles (L : list (nat * str)) (f : nat * str -> option str) :
  filter (fun c => str_eqb (x_tag c) (Xml.s "subele")) (map (fun jv => leaf_tree (C08_spec.l "subele") (f jv) (snd jv)) L) =
  map (fun jv => leaf_tree (C08_spec.l "subele") (f jv) (snd jv)) L.
Proof. induction L as [|x L IH]; [reflexivity|]. cbn [map filter].
  match goal with |- context [str_eqb (x_tag (leaf_tree ?a ?b ?c)) ?t] => change (str_eqb (x_tag (leaf_tree a b c)) t) with true end.
  cbv iota. rewrite IH. reflexivity. Qed.

(* one element *)
Lemma row_ok k comp acc :
  nth k (els s) [] = comp -> row_fit sid0 gi (k, comp) = true -> forallb (free_of XD) comp = true ->
  negb (emitted gi (k, comp)) || (wf_segid sid0 && (k <? 99)) = true ->
  InvD acc k ->
  exists acc', apply_nodes acc (flat_map (iter_all 69) (child_tree gi d k comp)) = Ok acc' /\ InvD acc' (S k).
Proof.
  intros N RF FR IP I. unfold row_fit in RF. unfold emitted in IP. cbn [fst snd] in RF, IP. unfold child_tree.
  destruct (child_for gi k) as [c|] eqn:CF; [|discriminate].
  apply andb_true_iff in RF as [RID RK]. apply opt_eqb_some in RID.
  destruct (not_used c || comp_empty comp) eqn:SK.
  - exists acc. split; [reflexivity|]. apply inv_skip; [exact I|]. intros j. unfold Tcell. rewrite CF.
    destruct (not_used c); [reflexivity|]. cbn [orb] in SK. unfold cell. rewrite N.
    unfold comp_empty in SK. rewrite (forallb_nth ele_empty [] eq_refl) in SK. apply ele_empty_nil, SK.
  - cbn [negb orb] in IP. apply andb_true_iff in IP as [W K]. apply Nat.ltb_lt in K.
    apply orb_false_iff in SK as [NU CE]. destruct I as [Hs C].
    pose proof (not_isa16 acc k Hs) as NI.
    destruct (ci_kind c).
    + (* simple element *)
      apply Nat.eqb_eq in RK. destruct comp as [|v [|? ?]]; try discriminate RK. clear RK.
      cbn [comp_empty forallb] in CE. rewrite andb_true_r in CE. cbn [forallb] in FR. apply andb_true_iff in FR as [FR _].
      change (format_comp (subele_term d) [v]) with v. destruct v as [|c0 v0]; [discriminate CE|].
      change 69 with (S 68). cbn [flat_map]. rewrite iter_all_leaf. cbn [app apply_nodes].
      unfold apply_node. change (tag_is (leaf_tree (C08_spec.l "ele") (ci_id c) (c0 :: v0)) "ele") with true. cbv iota.
      cbn [leaf_tree x_text]. rewrite x_get_leaf, RID. cbn [unopt seg_set_opt].
      rewrite (refdes_of_parse acc sid0 k W K Hs). cbn [bind].
      assert (VO : value_ok XD acc k (c0 :: v0)).
      { unfold value_ok. rewrite NI. unfold free_of in FR. apply andb_true_iff in FR as [_ FR].
        apply negb_true_iff in FR. intros IN. apply mem_ascii_In in IN. congruence. }
      destruct (set_get_ele XD acc k (c0 :: v0) VO) as (acc1 & E1 & _).
      change (Some (Z.of_nat k), @None Z) with (zi k, @None Z). rewrite E1. cbn [bind].
      exists acc1. split; [reflexivity|].
      destruct (set_extends XD acc k None (c0 :: v0) acc1 E1) as [_ S1].
      apply (inv_step acc acc1 k [c0 :: v0] c); try assumption; [split; assumption|].
      intros i j. rewrite (set_frame_ele XD acc k (c0 :: v0) acc1 VO E1).
      destruct (i =? k); [|reflexivity]. destruct j as [|[|j]]; reflexivity.
    + (* composite *)
      apply andb_true_iff in RK as [RK RS]. apply andb_true_iff in RK as [RL _]. apply Nat.leb_le in RL.
      change 69 with (S 68). cbn [flat_map]. rewrite app_nil_r, iter_all_S. cbn [x_children].
      change 68 with (S 67). rewrite flat_map_leaves. cbn [apply_nodes].
      unfold apply_node at 1.
      match goal with |- context [tag_is ?n "ele"] => change (tag_is n "ele") with false end.
      match goal with |- context [tag_is ?n "comp"] => change (tag_is n "comp") with true end. cbv iota.
      unfold x_findall. cbn [x_children]. rewrite filter_subeles.
      destruct (subs_ok c k comp 0 acc W K Hs) as (acc' & E & S' & C').
      { intros j' L. cbn [Nat.add] in L. rewrite forallb_forall in RS.
        destruct (nth_error (ci_subids c) j') as [o|] eqn:NE.
        - pose proof (in_combine_seq _ _ _ 0 NE) as IN. cbn [Nat.add] in IN.
          specialize (RS _ IN). cbn [fst snd] in RS. apply opt_eqb_some in RS. congruence.
        - apply nth_error_None in NE. lia. }
      { intros j' _. rewrite C. rewrite Nat.ltb_irrefl. reflexivity. }
      rewrite E. cbn [bind]. rewrite apply_nodes_subeles.
      exists acc'. split; [reflexivity|].
      apply (inv_step acc acc' k comp c); try assumption; [split; assumption|].
      intros i j. rewrite C'. cbn [Nat.leb]. rewrite andb_true_r, Nat.sub_0_r. reflexivity.
Qed.
End OneSeg.

Lemma skipn_nth_error {A} : forall k (xs : list A) c r, skipn k xs = c :: r -> nth_error xs k = Some c.
Proof.
  induction k as [|k IH]; intros [|x xs] c r H; cbn [skipn] in H; try discriminate.
  - injection H as -> _. reflexivity.
  - exact (IH xs c r H).
Qed.

(* all elements *)
Lemma rows_ok gi d sid0 s :
  str_eqb sid0 (C08_spec.l "ISA") = false ->
  (forall ic, In ic (combine (seq 0 (length (els s))) (els s)) ->
     row_fit sid0 gi ic = true /\ negb (emitted gi ic) || (wf_segid sid0 && (fst ic <? 99)) = true) ->
  (forall comp, In comp (els s) -> forallb (free_of XD) comp = true) ->
  forall suffix k acc, skipn k (els s) = suffix -> InvD gi sid0 s acc k ->
  exists acc',
    apply_nodes acc (flat_map (iter_all 69)
      (concat (map (fun ic : nat * composite => child_tree gi d (fst ic) (snd ic)) (combine (seq k (length suffix)) suffix)))) = Ok acc' /\
    InvD gi sid0 s acc' (k + length suffix).
Proof.
  intros NISA HR HF. induction suffix as [|c r IH]; intros k acc E I.
  - exists acc. split; [reflexivity|]. cbn [length]. rewrite Nat.add_0_r. exact I.
  - pose proof (skipn_nth_error _ _ _ _ E) as NE.
    destruct (@skipn_cons_inv composite [] _ _ _ _ E) as (N & E' & L).
    pose proof (in_combine_seq _ _ _ 0 NE) as IN. cbn [Nat.add] in IN. destruct (HR _ IN) as [RF IP].
    cbn [fst] in IP.
    destruct (row_ok gi d sid0 s NISA k c acc N RF (HF c (nth_error_In _ _ NE)) IP I) as (acc1 & A1 & I1).
    destruct (IH (S k) acc1 E' I1) as (acc' & A2 & I2).
    exists acc'. cbn [length seq combine map concat fst snd]. rewrite flat_map_app, apply_nodes_app, A1. cbn [bind].
    split; [exact A2|]. replace (k + S (length r)) with (S k + length r) by lia. exact I2.
Qed.

Lemma parse_seg_id sid0 : sid0 <> [] -> free_of XD sid0 = true -> parse_seg XD sid0 = {| sid := Some sid0; els := [] |}.
Proof.
  intros NE FR. unfold free_of in FR. apply andb_true_iff in FR as [FR _]. apply andb_true_iff in FR as [F1 F2].
  apply negb_true_iff in F1, F2.
  assert (N1 : ~ In (seg_term XD) sid0) by (intros IN; apply mem_ascii_In in IN; congruence).
  assert (N2 : ~ In (ele_term XD) sid0) by (intros IN; apply mem_ascii_In in IN; congruence).
  destruct sid0 as [|c0 r0]; [congruence|]. unfold parse_seg. cbv iota. set (w := c0 :: r0) in *.
  destruct (rev w) as [|c r] eqn:R.
  - rewrite (split_notin _ _ N2). reflexivity.
  - destruct (Ascii.eqb_spec c (seg_term XD)) as [->|].
    + exfalso. apply N1. apply in_rev. rewrite R. left. reflexivity.
    + rewrite (split_notin _ _ N2). reflexivity.
Qed.

Lemma cell_blank gi s i j :
  cell (blank_unused gi s) i j = if i <? length (els s) then Tcell gi s i j else [].
Proof.
  unfold cell, blank_unused. cbn [els].
  set (bf := fun ic : nat * composite => match child_for gi (fst ic) with
                                         | Some c => if not_used c then [[]] else snd ic
                                         | None => snd ic
                                         end).
  destruct (Nat.ltb_spec i (length (els s))) as [L|L].
  - assert (LL : i < length (combine (seq 0 (length (els s))) (els s))) by (rewrite combine_length, seq_length; lia).
    rewrite (nth_indep _ [] (bf (0, [])) ) by (rewrite map_length; exact LL).
    rewrite map_nth, combine_nth by apply seq_length. rewrite seq_nth by exact L. cbn [Nat.add].
    unfold bf, Tcell. cbn [fst snd]. destruct (child_for gi i) as [c|]; [|reflexivity].
    destruct (not_used c); [apply nth_unit_nil | reflexivity].
  - rewrite (nth_overflow (map bf (combine (seq 0 (length (els s))) (els s)))) by (rewrite map_length, combine_length, seq_length; lia).
    destruct j; reflexivity.
Qed.

Theorem seg_tree_back gi d s sid0 :
  sid s = Some sid0 -> gi_id gi = Some sid0 ->
  str_eqb sid0 (C08_spec.l "ISA") = false -> free_of XD sid0 = true -> sid0 <> [] ->
  forallb (fun c => forallb (free_of XD) c) (els s) = true ->
  forallb (row_fit sid0 gi) (combine (seq 0 (length (els s))) (els s)) = true ->
  ids_parse gi s = true ->
  exists s', get_segment (seg_tree gi d s) = Ok s' /\ format_seg XD s' = format_seg XD (blank_unused gi s).
Proof.
  intros SID GID NISA FR NE FE RF IP. unfold ids_parse in IP. rewrite SID in IP.
  rewrite forallb_forall in FE, RF, IP.
  unfold get_segment, seg_tree.
  assert (G : x_get (X (C08_spec.l "seg") (id_attrs (gi_id gi)) None
     (concat (map (fun ic : nat * composite => child_tree gi d (fst ic) (snd ic)) (combine (seq 0 (length (els s))) (els s)))))
     "id" = Some sid0) by (rewrite GID; reflexivity).
  rewrite G. unfold segment_of. rewrite (parse_seg_id sid0 NE FR).
  unfold x_iter_all. change 70 with (S 69). rewrite iter_all_S. cbn [x_children apply_nodes].
  unfold apply_node at 1.
  match goal with |- context [tag_is ?n "ele"] => change (tag_is n "ele") with false end.
  match goal with |- context [tag_is ?n "comp"] => change (tag_is n "comp") with false end. cbv iota. cbn [bind].
  destruct (rows_ok gi d sid0 s NISA (fun ic IN => conj (RF ic IN) (IP ic IN)) FE (els s) 0 {| sid := Some sid0; els := [] |} eq_refl)
    as (acc' & A & [S' C']).
  { split; [reflexivity|]. intros i j. unfold cell. cbn [els]. destruct i, j; reflexivity. }
  exists acc'. split; [exact A|]. apply format_seg_cells.
  - rewrite S'. cbn [blank_unused sid]. symmetry. exact SID.
  - intros i j. rewrite C', cell_blank. cbn [Nat.add].
    destruct (Nat.ltb_spec i (length (els s))); reflexivity.
Qed.
