(* C02_whole_walk.v — C02 composed, the walker side.  The "root level" left open by Proofs/C02_doc.v:
   the counter operations forceWalkCounterToLoopStart performs with STRING paths on ISA and GS are those of an
   entry into ISA_LOOP / GS_LOOP of any map whose top nodes carry these paths (top_okb), so
     - after ISA the counters are those of a just-opened ISA_LOOP (TopInv ... 0),
     - after GS the walker state is `opened` for GS_LOOP of the group's map, the conformant instance of GS_LOOP is
       walked silently (conf_run of C02_doc) and the top counters are kept (TopInv ... (n+1)), also when the
       group's map is not the map in whose terms they are read (top_compat),
     - after the last group the invariant InvB of ISA_LOOP holds, so that IEA is found silently. *)
From Coq Require Import String Lia.
From PX.Lib Require Import Base PyStr PyInt Regex Xml.
From PX.Model Require Import Path Segment Syntax MapLoad MapTree Element Counter Walker MapEnv Driver.
From PX.Spec Require Import C07_walker_wf C02_doc_spec C02_whole_spec.
From PX.Proofs Require Import Counter_keys C07_walker_lemmas C02_doc_counter C02_doc_walk C02_doc C02_whole_head.

Local Definition l (x : string) : str := list_ascii_of_string x.

(* ------------------------------------------------------------------ *)
(* what top_okb says                                                    *)

Lemma path_is_eq m r s : path_is m r s = true -> node_x12path m r = Ok (pp s).
Proof.
  unfold path_is. destruct (node_x12path m r) as [a|e]; [|discriminate]. intros H. apply path_eqb_eq in H. congruence.
Qed.

Lemma cnt_same m1 m2 r1 r2 c : node_x12path m1 r1 = node_x12path m2 r2 -> cnt m1 c r1 = cnt m2 c r2.
Proof. intros H. unfold cnt. rewrite H. reflexivity. Qed.

Lemma cnt_init m r : cnt m counter_init r = 0%Z.
Proof. unfold cnt. destruct (node_x12path m r); reflexivity. Qed.

Section Top.
Variable isal : nref.
Notation gsl := (gsl_of isal).

Record top_facts (m : xmap) : Type := {
  tf_ne : isal <> [];
  tf_nI : node;  tf_sI : segm;  tf_nG : node;  tf_sG : segm;  tf_restG : list node;  tf_rest : list node;
  tf_isal : node_at (root_nodes m) isal = Some tf_nI;
  tf_loopI : node_is_loop tf_nI = true;
  tf_kids : children_of m isal = NSeg tf_sI :: tf_nG :: tf_rest;
  tf_loopG : node_is_loop tf_nG = true;
  tf_kidsG : node_children tf_nG = NSeg tf_sG :: tf_restG;
  tf_isa : node_at (root_nodes m) (isal ++ [0]) = Some (NSeg tf_sI);
  tf_gsl : node_at (root_nodes m) gsl = Some tf_nG;
  tf_gs : node_at (root_nodes m) (gsl ++ [0]) = Some (NSeg tf_sG);
  tf_p_isal : node_x12path m isal = Ok (pp "/ISA_LOOP");
  tf_p_isa : node_x12path m (isal ++ [0]) = Ok (pp "/ISA_LOOP/ISA");
  tf_p_gsl : node_x12path m gsl = Ok (pp "/ISA_LOOP/GS_LOOP");
  tf_p_gs : node_x12path m (gsl ++ [0]) = Ok (pp "/ISA_LOOP/GS_LOOP/GS");
  tf_get : getnode m "/ISA_LOOP/GS_LOOP/GS" = Ok (gsl ++ [0])
}.

Lemma top_okb_facts m : top_okb m isal = true -> top_facts m.
Proof.
  unfold top_okb. intros H. repeat (apply andb_true_iff in H; destruct H as [H ?]).
  assert (Ne : isal <> []).
  { intros E. rewrite E in H. discriminate. }
  destruct (children_of m isal) as [|[? ? ? ? ? ? ?|sI] [|[id ty nm u q rep pm|?] rest]] eqn:K; try discriminate.
  destruct (pm_nodes pm) as [|[? ? ? ? ? ? ?|sG] restG] eqn:KG; try discriminate.
  destruct (getnode m "/ISA_LOOP/GS_LOOP/GS") as [r|e] eqn:G; [|discriminate].
  match goal with H : nref_eqb r _ = true |- _ => apply nref_eqb_eq in H; subst r end.
  destruct (node_at (root_nodes m) isal) as [nI|] eqn:HI.
  2:{ exfalso. unfold children_of in K. destruct isal as [|a b]; [congruence|]. rewrite HI in K. discriminate. }
  assert (KI : node_children nI = NSeg sI :: NLoop id ty nm u q rep pm :: rest).
  { unfold children_of in K. destruct isal as [|a b]; [congruence|]. rewrite HI in K. exact K. }
  assert (LI : node_is_loop nI = true) by (destruct nI; [reflexivity | discriminate]).
  assert (Ha : node_at (root_nodes m) (isal ++ [0]) = Some (NSeg sI)) by (rewrite (node_at_snoc _ _ _ _ HI), KI; reflexivity).
  assert (Hb : node_at (root_nodes m) gsl = Some (NLoop id ty nm u q rep pm)).
  { unfold gsl_of. rewrite (node_at_snoc _ _ _ _ HI), KI. reflexivity. }
  assert (Hc : node_at (root_nodes m) (gsl ++ [0]) = Some (NSeg sG)).
  { rewrite (node_at_snoc _ _ _ _ Hb). cbn [node_children]. rewrite KG. reflexivity. }
  refine {| tf_nI := nI; tf_sI := sI; tf_nG := NLoop id ty nm u q rep pm; tf_sG := sG; tf_restG := restG; tf_rest := rest |};
    try assumption; try reflexivity; try (apply path_is_eq; assumption).
Qed.

(* ------------------------------------------------------------------ *)
(* the counters after an entry forced with the paths of loop C          *)

Lemma forced_counts m (WF : walker_wf m = true) (KO : keys_ok m = true) c0 C nC s0 rest xC x0 :
  node_at (root_nodes m) C = Some nC -> node_children nC = NSeg s0 :: rest ->
  node_x12path m C = Ok xC -> node_x12path m (C ++ [0]) = Ok x0 ->
  forall r n, node_at (root_nodes m) r = Some n ->
  cnt m (increment (increment (reset_to_node c0 xC) xC) x0) r =
  if nref_eqb r (C ++ [0]) then 1%Z else if nref_eqb r C then (cnt m c0 C + 1)%Z
  else if strict_prefix_b C r then 0%Z else cnt m c0 r.
Proof.
  intros HC E XC X0 r n Hr.
  assert (H0 : node_at (root_nodes m) (C ++ [0]) = Some (NSeg s0)).
  { rewrite (node_at_snoc _ _ _ _ HC), E. reflexivity. }
  set (c1 := reset_to_node c0 xC). set (c1' := increment c1 xC).
  assert (R1 : forall r n, node_at (root_nodes m) r = Some n -> cnt m c1 r = if strict_prefix_b C r then 0%Z else cnt m c0 r).
  { intros r' n' Hr'. apply (cnt_reset m WF KO c0 C _ xC r' n' HC XC Hr'). }
  assert (R2 : forall r n, node_at (root_nodes m) r = Some n ->
                 cnt m c1' r = if nref_eqb r C then (cnt m c1 C + 1)%Z else cnt m c1 r).
  { intros r' n' Hr'. apply (cnt_increment m WF KO c1 C _ xC r' n' HC XC Hr'). }
  assert (NE : nref_eqb (C ++ [0]) C = false).
  { apply nref_eqb_neq, len_ne. rewrite app_length. cbn [length]. lia. }
  rewrite (cnt_increment m WF KO c1' (C ++ [0]) _ x0 r n H0 X0 Hr).
  destruct (nref_eqb r (C ++ [0])) eqn:Q0.
  - rewrite (R2 _ _ H0), NE, (R1 _ _ H0), strict_prefix_app. reflexivity.
  - rewrite (R2 _ _ Hr). destruct (nref_eqb r C) eqn:Q1.
    + rewrite (R1 _ _ HC), strict_prefix_irrefl. reflexivity.
    + apply (R1 _ _ Hr).
Qed.

(* ------------------------------------------------------------------ *)
(* the counters of the top of the interchange, read in map m            *)

Definition TopInv (m : xmap) (c : counter) (n : Z) : Prop :=
  (1 <= cnt m c isal)%Z /\ cnt m c (isal ++ [0]) = 1%Z /\ cnt m c gsl = n /\
  forall k x nx, 1 < k -> node_at (root_nodes m) ((isal ++ [k]) ++ x) = Some nx -> cnt m c ((isal ++ [k]) ++ x) = 0%Z.

Lemma snoc_ne (L : nref) (a b : nat) : a <> b -> L ++ [a] <> L ++ [b].
Proof. intros H E. apply snoc_inj in E. congruence. Qed.

Lemma len_snoc (L : nref) a : length (L ++ [a]) = S (length L).
Proof. rewrite app_length. cbn. lia. Qed.

Ltac neq_len := apply nref_eqb_neq, len_ne; rewrite ?app_length; cbn [length]; lia.

Lemma top_isa m (WF : walker_wf m = true) (KO : keys_ok m = true) (TF : top_facts m) c0 :
  (0 <= cnt m c0 isal)%Z ->
  TopInv m (increment (increment (reset_to_node c0 (pp "/ISA_LOOP")) (pp "/ISA_LOOP")) (pp "/ISA_LOOP/ISA")) 0.
Proof.
  intros P0. destruct TF.
  assert (KI : node_children tf_nI0 = NSeg tf_sI0 :: tf_nG0 :: tf_rest0).
  { rewrite <- (children_of_node _ _ _ tf_isal0). exact tf_kids0. }
  pose proof (forced_counts m WF KO c0 isal _ _ _ _ _ tf_isal0 KI tf_p_isal0 tf_p_isa0) as FC.
  split; [|split; [|split]].
  - rewrite (FC _ _ tf_isal0). replace (nref_eqb isal (isal ++ [0])) with false by (symmetry; neq_len).
    rewrite nref_eqb_refl. lia.
  - rewrite (FC _ _ tf_isa0), nref_eqb_refl. reflexivity.
  - rewrite (FC _ _ tf_gsl0). unfold gsl_of.
    replace (nref_eqb (isal ++ [1]) (isal ++ [0])) with false by (symmetry; apply nref_eqb_neq, snoc_ne; lia).
    replace (nref_eqb (isal ++ [1]) isal) with false by (symmetry; neq_len).
    rewrite strict_prefix_app. reflexivity.
  - intros k x nx K Hx. rewrite (FC _ _ Hx).
    replace (nref_eqb ((isal ++ [k]) ++ x) (isal ++ [0])) with false by (symmetry; apply nref_eqb_neq, child_ne_sub; lia).
    replace (nref_eqb ((isal ++ [k]) ++ x) isal) with false by (symmetry; neq_len).
    rewrite <- app_assoc. cbn [app]. rewrite strict_prefix_app. reflexivity.
Qed.

Lemma top_gs m (WF : walker_wf m = true) (KO : keys_ok m = true) (TF : top_facts m) c0 n :
  TopInv m c0 n ->
  TopInv m (increment (increment (reset_to_node c0 (pp "/ISA_LOOP/GS_LOOP")) (pp "/ISA_LOOP/GS_LOOP")) (pp "/ISA_LOOP/GS_LOOP/GS")) (n + 1).
Proof.
  intros (T1 & T2 & T3 & T4). destruct TF.
  pose proof (forced_counts m WF KO c0 gsl _ _ _ _ _ tf_gsl0 tf_kidsG0 tf_p_gsl0 tf_p_gs0) as FC.
  split; [|split; [|split]].
  - rewrite (FC _ _ tf_isal0). unfold gsl_of.
    replace (nref_eqb isal ((isal ++ [1]) ++ [0])) with false by (symmetry; neq_len).
    replace (nref_eqb isal (isal ++ [1])) with false by (symmetry; neq_len).
    rewrite not_below_shorter by (rewrite len_snoc; lia). exact T1.
  - rewrite (FC _ _ tf_isa0). unfold gsl_of.
    replace (nref_eqb (isal ++ [0]) ((isal ++ [1]) ++ [0])) with false by (symmetry; neq_len).
    replace (nref_eqb (isal ++ [0]) (isal ++ [1])) with false by (symmetry; apply nref_eqb_neq, snoc_ne; lia).
    rewrite not_below_shorter by (rewrite !len_snoc; lia). exact T2.
  - rewrite (FC _ _ tf_gsl0).
    replace (nref_eqb gsl (gsl ++ [0])) with false by (symmetry; neq_len).
    rewrite nref_eqb_refl, T3. reflexivity.
  - intros k x nx K Hx. rewrite (FC _ _ Hx). unfold gsl_of.
    replace (nref_eqb ((isal ++ [k]) ++ x) ((isal ++ [1]) ++ [0])) with false by (symmetry; apply nref_eqb_neq, sibling_ne; lia).
    replace (nref_eqb ((isal ++ [k]) ++ x) (isal ++ [1])) with false by (symmetry; apply nref_eqb_neq, child_ne_sub; lia).
    rewrite sibling_not_below by lia. exact (T4 k x nx K Hx).
Qed.

(* ------------------------------------------------------------------ *)
(* one functional group                                                 *)

Section Group.
Variable d : delims.
Variables m mL : xmap.
Hypothesis WF : walker_wf m = true.
Hypothesis KO : keys_ok m = true.
Hypothesis TF : top_facts m.
Hypothesis WFL : walker_wf mL = true.
Hypothesis KOL : keys_ok mL = true.
Hypothesis TFL : top_facts mL.
Hypothesis CP : top_compat isal m mL.

Theorem group_walk gs items w n :
  conf_inst m d gsl ((gsl ++ [0], gs) :: items) ->
  TopInv mL (w_counter w) n -> (0 <= n)%Z ->
  exists w2,
    run m d (forced w "/ISA_LOOP/GS_LOOP" "/ISA_LOOP/GS_LOOP/GS") (gsl ++ [0]) items w2 /\
    TopInv mL (w_counter w2) (n + 1) /\
    PostInst m (w_counter w2) gsl (tf_nG m TF) (last_ref items (gsl ++ [0])).
Proof.
  intros CI TI Pn.
  set (w1 := forced w "/ISA_LOOP/GS_LOOP" "/ISA_LOOP/GS_LOOP/GS").
  pose proof (top_gs mL WFL KOL TFL _ _ TI) as TI1. change (TopInv mL (w_counter w1) (n + 1)) in TI1.
  destruct TI as (T1 & T2 & T3 & T4).
  assert (Pg : (0 <= cnt m (w_counter w) gsl)%Z).
  { rewrite (cnt_same m mL gsl gsl); [rewrite T3; exact Pn|]. rewrite (tf_p_gsl m TF), (tf_p_gsl mL TFL). reflexivity. }
  pose proof (opened_by_entry m WF KO (w_counter w) gsl _ _ _ _ _ (tf_gsl m TF) (tf_kidsG m TF) (tf_p_gsl m TF) (tf_p_gs m TF) Pg) as Op.
  destruct Op as (O1 & O2 & O3). cbn [Wc w_counter] in O1, O2, O3.
  destruct (inst_shape _ _ _ _ CI _ (tf_gsl m TF)) as [z [sg [U' [EU Sh]]]].
  assert (z = 0) as -> by (apply (shape_seg_first _ _ _ _ _ _ _ _ Sh (tf_kidsG m TF))).
  destruct (proj1 (conf_run m d WF KO) gsl _ CI _ 0 sg U' (tf_gsl m TF) EU Sh w1) as [w2 [R [PI FR]]].
  { unfold PreInst. cbn [repeat]. rewrite app_nil_r. split; [exact O2|]. split; [exact O1|]. split; [lia|].
    intros r nr Hr SP N1 N2. apply (O3 r nr); assumption. }
  injection EU as <- <-. cbn [repeat] in R, PI. exists w2. split; [exact R|]. split; [|exact PI].
  destruct TI1 as (A1 & A2 & A3 & A4).
  assert (tr : forall r, (r = isal \/ r = isal ++ [0] \/ r = gsl) -> node_x12path m r = node_x12path mL r).
  { intros r [->|[->| ->]].
    - rewrite (tf_p_isal m TF), (tf_p_isal mL TFL). reflexivity.
    - rewrite (tf_p_isa m TF), (tf_p_isa mL TFL). reflexivity.
    - rewrite (tf_p_gsl m TF), (tf_p_gsl mL TFL). reflexivity. }
  split; [|split; [|split]].
  - rewrite <- (cnt_same m mL isal isal) by (apply tr; auto).
    rewrite (FR _ _ (tf_isal m TF)) by (apply not_below_shorter; unfold gsl_of; rewrite len_snoc; lia).
    rewrite (cnt_same m mL isal isal) by (apply tr; auto). exact A1.
  - rewrite <- (cnt_same m mL (isal ++ [0]) (isal ++ [0])) by (apply tr; auto).
    rewrite (FR _ _ (tf_isa m TF)) by (apply not_below_shorter; unfold gsl_of; rewrite !len_snoc; lia).
    rewrite (cnt_same m mL (isal ++ [0]) (isal ++ [0])) by (apply tr; auto). exact A2.
  - rewrite <- (cnt_same m mL gsl gsl) by (apply tr; auto).
    rewrite (FR _ _ (tf_gsl m TF)) by apply strict_prefix_irrefl.
    rewrite (cnt_same m mL gsl gsl) by (apply tr; auto). exact A3.
  - intros k x nx K Hx. destruct (CP k x nx K Hx) as (r1 & n1 & H1 & NB & XP).
    rewrite <- (cnt_same m mL r1 _ _ XP). rewrite (FR _ _ H1 NB). rewrite (cnt_same m mL r1 _ _ XP).
    exact (A4 k x nx K Hx).
Qed.

End Group.

(* ------------------------------------------------------------------ *)
(* IEA after the last group                                             *)

Theorem iea_walk (d : delims) (mL : xmap) (WFL : walker_wf mL = true) (KOL : keys_ok mL = true) (TFL : top_facts mL)
        c n pL r_iea iea w :
  TopInv mL c n -> (1 <= n)%Z -> PostInst mL c gsl (tf_nG mL TFL) pL ->
  conf_body mL d isal pL 1 n [(r_iea, iea)] -> w_counter w = c ->
  exists w', step_ok mL d w pL (r_iea, iea) w'.
Proof.
  intros (T1 & T2 & T3 & T4) Pn (Vp & y & Hy & Ep & Cl & Q & AQ) CB Ew.
  assert (I : InvB mL c isal pL 1 n).
  { constructor.
    - exists (tf_nI mL TFL). split; [apply tf_isal | apply tf_loopI].
    - exact Vp.
    - exists (tf_nG mL TFL). split; [rewrite (tf_kids mL TFL); reflexivity|]. right.
      split; [apply tf_loopG|]. exists y. auto.
    - intros k nk K Hk. assert (k = 0) as -> by lia. rewrite (tf_kids mL TFL) in Hk. injection Hk as <-.
      cbn [cq]. intros _. rewrite T2. lia.
    - intros k x nx K Hx. exact (T4 k x nx K Hx).
    - intros ni Hni _. exact T3.
    - exact Pn.
    - intros nL HL _. exact T1. }
  subst c. destruct (proj2 (conf_run mL d WFL KOL) isal pL 1 n _ CB w (tf_ne mL TFL) I) as (w' & i' & cn' & R & _).
  inversion R; subst. eauto.
Qed.

End Top.

Print Assumptions group_walk.
Print Assumptions iea_walk.
Print Assumptions top_isa.
