(* NV_C01.v — non-vacuity of the hypotheses of the theorems of Props/C01.v:
   for every theorem with hypotheses a closed, non-trivial instance satisfying
   ALL of them at once (and the conclusion evaluated on it where cheap). *)
From Coq Require Import String.
From PX.Lib Require Import Base PyStr.
From PX.Model Require Import Path Segment Raw Reader.
From PX.Spec Require Import C01_spec.
From PX.Proofs Require Import C01_raw C01_roundtrip.

Definition nv_d : delims := {| seg_term := "~"%char; ele_term := "*"%char; subele_term := ":"%char |}.

Definition nv_nl : str := [ascii_of_nat 10].

(* a real two-line-per-segment interchange: ISA, GS, ST, a segment with a
   composite and empty elements, SE, GE, IEA, then an unterminated tail *)
Definition nv_text : str :=
  cs "ISA*00*          *00*          *ZZ*ZZ000          *ZZ*ZZ001          *030828*1128*U*00401*000010121*0*T*:~" ++ nv_nl ++
  cs "GS*HC*ZZ000*ZZ001*20030828*1128*17*X*004010X098A1~" ++ nv_nl ++
  cs "ST*837*11280001~" ++ nv_nl ++
  cs "SV1*HC:99213:25**40*UN*1***1:2~~" ++ nv_nl ++ nv_nl ++
  cs "SE*3*11280001~GE*1*17~" ++ nv_nl ++
  cs "IEA*1*000010121~" ++ nv_nl ++ cs "tail without terminator".

(* a read schedule that splits inside the ISA, returns single characters, and
   straddles segment boundaries *)
Definition nv_sched : list nat := [1; 7; 50; 3; 200; 1; 1; 13; 2; 5; 0; 9].

(* C01_chunk_independent: hypothesis and conclusion on the concrete text *)
Example nv_C01_chunk_independent :
  header_ok nv_text = true /\
  match raw_all {| rest := nv_text; sched := nv_sched |} with
  | Ok (r, ls) => ls = raw_spec (seg_term (header_delims nv_text)) nv_text /\ delims_of r = header_delims nv_text /\
                  length ls = 7
  | Raise _ => False
  end.
Proof. vm_compute. repeat split; reflexivity. Qed.

(* C01_any_buffer_size: buffer size 3 (smaller than every segment), a buffer
   already holding a partial segment, fuel well above the bound *)
Example nv_C01_any_buffer_size :
  let bufsize := 3 in
  let buffer := cs "GS*HC*ZZ0" in
  let st := {| rest := cs "00*ZZ001~" ++ nv_nl ++ cs "ST*837*0001~~SE*2*0001~GE*1"; sched := [2; 1; 5] |} in
  let fuel := 80 in
  1 <= bufsize /\ S (length buffer + length (rest st)) <= fuel /\
  raw_lines fuel bufsize "~"%char buffer st = raw_spec "~"%char (buffer ++ rest st) /\
  raw_lines fuel bufsize "~"%char buffer st = [cs "GS*HC*ZZ000*ZZ001"; cs "ST*837*0001"; cs "SE*2*0001"].
Proof.
  cbv zeta. split; [apply Nat.leb_le; vm_compute; reflexivity|].
  split; [apply Nat.leb_le; vm_compute; reflexivity|].
  split; vm_compute; reflexivity.
Qed.

(* C01_bad_header_refused: three different ways of failing header_ok (wrong
   tag, unknown version, too short), each refused *)
Definition nv_bad_tag : str :=
  cs "ISB*00*          *00*          *ZZ*ZZ000          *ZZ*ZZ001          *030828*1128*U*00401*000010121*0*T*:~GS*HC~".
Definition nv_bad_version : str :=
  cs "ISA*00*          *00*          *ZZ*ZZ000          *ZZ*ZZ001          *030828*1128*U*00301*000010121*0*T*:~GS*HC~".
Definition nv_too_short : str := cs "ISA*00*          *00*          *ZZ*ZZ000   ~".

Example nv_C01_bad_header_refused :
  header_ok nv_bad_tag = false /\ header_ok nv_bad_version = false /\ header_ok nv_too_short = false /\
  raw_all {| rest := nv_bad_tag; sched := [5; 200] |} = Raise X12Error /\
  raw_all {| rest := nv_bad_version; sched := [] |} = Raise X12Error /\
  raw_all {| rest := nv_too_short; sched := [1; 1; 1] |} = Raise X12Error.
Proof. vm_compute. repeat split; reflexivity. Qed.

(* C01_segment_construction: a raw line with leading blanks, a composite, empty
   elements and a trailing element separator, read in a reader state inside an
   open ISA/GS/ST at line 3 *)
Definition nv_x : xstate :=
  {| loops := [(cs "ST", Some (cs "0001")); (cs "GS", Some (cs "17")); (cs "ISA", Some (cs "000010121"))];
     hl_stack := []; gs_count := 1; st_count := 1; hl_count := 0; seg_count := 1; cur_line := 3;
     isa_ids := [Some (cs "000010121")]; gs_ids := [Some (cs "17")]; st_ids := [Some (cs "0001")];
     lx_count := 0; check_837_lx := false |}.
Definition nv_line : str := cs "  SV1*HC:99213:25**40*UN*1***1:2**".

Example nv_C01_segment_construction :
  ~ In (seg_term nv_d) nv_line /\
  has_trailing_sep nv_d nv_line = true /\ has_leading_blank nv_line = true /\
  match reader_line nv_d nv_x nv_line with
  | Ok (x', s, es) =>
      s = seg_of_line nv_d nv_line /\
      s = {| sid := Some (cs "SV1");
             els := [[cs "HC"; cs "99213"; cs "25"]; [[]]; [cs "40"]; [cs "UN"]; [cs "1"]; [[]]; [[]];
                     [cs "1"; cs "2"]; [[]]; [[]]] |} /\
      es = [mk_err "seg" "1" (Some 4%Z); mk_err "seg" "SEG1" (Some 4%Z)] /\ cur_line x' = 4%Z
  | Raise _ => False
  end.
Proof.
  split; [intros H; apply mem_ascii_In in H; vm_compute in H; discriminate|].
  vm_compute. repeat split; reflexivity.
Qed.

(* C01_format_parse_canon / C01_format_parse_idempotent: a segment with
   composites, empty elements in the middle, a composite with trailing empty
   components, and trailing empty elements (so canon really trims) *)
Definition nv_seg : seg :=
  {| sid := Some (cs "SV1");
     els := [[cs "HC"; cs "99213"; []; cs "25"; []; []]; [[]]; [cs "40.5"]; [[]; cs "X"]; [[]; []]; [[]]] |}.

Example nv_C01_format_parse_canon :
  distinct_delims nv_d = true /\ clean_seg nv_d nv_seg = true /\
  format_seg nv_d nv_seg = cs "SV1*HC:99213::25**40.5*:X~" /\
  canon nv_seg <> nv_seg /\
  canon (parse_seg nv_d (format_seg nv_d nv_seg)) = canon nv_seg.
Proof. vm_compute. repeat split; try reflexivity. intros H; discriminate H. Qed.

Example nv_C01_format_parse_idempotent :
  distinct_delims nv_d = true /\ clean_seg nv_d nv_seg = true /\
  let s' := parse_seg nv_d (format_seg nv_d nv_seg) in
  s' <> nv_seg /\ clean_seg nv_d s' = true /\ parse_seg nv_d (format_seg nv_d s') = s'.
Proof. vm_compute. repeat split; try reflexivity. intros H; discriminate H. Qed.

(* C01_format_parse_exact: a canonical non-ISA segment (composites with inner
   empty components); the ISA case is C01_roundtrip.isa_is_clean (distinct,
   clean, exact round trip of a real ISA) *)
Definition nv_seg_canon : seg :=
  {| sid := Some (cs "SV1");
     els := [[cs "HC"; cs "99213"; []; cs "25"]; [cs "40.5"]; [[]; cs "X"]; [cs "UN"]] |}.

Example nv_C01_format_parse_exact :
  distinct_delims nv_d = true /\ clean_seg nv_d nv_seg_canon = true /\
  canon nv_seg_canon = nv_seg_canon /\ els nv_seg_canon <> [] /\
  parse_seg nv_d (format_seg nv_d nv_seg_canon) = nv_seg_canon.
Proof. vm_compute. repeat split; try reflexivity. intros H; discriminate H. Qed.

(* FINDING (restricted hypothesis): `canon s = s` together with `clean_seg`
   excludes every segment that has an EMPTY ELEMENT anywhere, not only trailing
   ones: the parser represents an empty element as [[]], clean_seg demands a
   non-empty component list, and canon maps [[]] to [].  Such a segment
   ("N4*CITY**12345") nevertheless round-trips exactly, so the theorem does not
   speak about it although its conclusion holds. *)
Definition nv_seg_inner_empty : seg :=
  {| sid := Some (cs "N4"); els := [[cs "CITY"]; [[]]; [cs "12345"]] |}.
Example nv_C01_format_parse_exact_gap :
  nv_seg_inner_empty = parse_seg nv_d (cs "N4*CITY**12345~") /\
  clean_seg nv_d nv_seg_inner_empty = true /\ canon nv_seg_inner_empty <> nv_seg_inner_empty /\
  parse_seg nv_d (format_seg nv_d nv_seg_inner_empty) = nv_seg_inner_empty.
Proof. vm_compute. repeat split; try reflexivity. intros H; discriminate H. Qed.

(* C01_reread: a document of five segments including a real ISA (whose ISA16
   is the component separator), composites and trailing empties *)
Definition nv_segs : list seg :=
  [ parse_seg nv_d (cs "ISA*00*          *00*          *ZZ*ZZ000          *ZZ*ZZ001          *030828*1128*U*00401*000010121*0*T*:~");
    {| sid := Some (cs "GS"); els := [[cs "HC"]; [cs "ZZ000"]; [cs "ZZ001"]; [cs "20030828"]; [cs "1128"]; [cs "17"]; [cs "X"]; [cs "004010X098A1"]] |};
    nv_seg; nv_seg_canon;
    {| sid := Some (cs "IEA"); els := [[cs "1"]; [cs "000010121"]; [[]]] |} ].

Example nv_C01_reread :
  distinct_delims nv_d = true /\
  forallb (clean_seg nv_d) nv_segs = true /\ forallb id_starts_plain nv_segs = true /\
  map (seg_of_line nv_d) (raw_spec (seg_term nv_d) (concat (map (format_seg nv_d) nv_segs)))
  = map (fun s => parse_seg nv_d (format_seg nv_d s)) nv_segs.
Proof. vm_compute. repeat split; reflexivity. Qed.

(* C01_path_stream_agree: a file content of ASCII bytes with CR LF line ends *)
Example nv_C01_path_stream_agree :
  let b := nv_text ++ [ascii_of_nat 13; ascii_of_nat 10; ascii_of_nat 127; ascii_of_nat 0] in
  forallb (fun c => nat_of_ascii c <? 128) b = true /\
  open_path b = Ok {| rest := b; sched := [] |}.
Proof. vm_compute. repeat split; reflexivity. Qed.

(* C01_blank_line_dropped: a raw string of three blanks *)
Example nv_C01_blank_line_dropped :
  let line := cs "   " in
  is_segment_line line = false /\ line <> [] /\
  reader_line_opt nv_d nv_x line = Ok (nv_x, None, [mk_err "seg" "1" (Some 4%Z)]).
Proof. vm_compute. repeat split; try reflexivity. intros H; discriminate H. Qed.
