(* C07_text.v — a computable sufficient condition for `first_is_isa`: when neither the segment
   terminator nor the element separator declared by the header is one of the letters I, S, A, and
   they differ, the first segment the reader delivers is the ISA. *)
From Coq Require Import String.
From PX.Lib Require Import Base PyStr.
From PX.Model Require Import Path Segment Raw Reader Driver.
From PX.Spec Require Import C01_spec C07_spec.
From PX.Proofs Require Import C01_raw.

Local Definition l (x : string) : str := list_ascii_of_string x.

Lemma eqb_false_sym a b : Ascii.eqb a b = false -> Ascii.eqb b a = false.
Proof. intros H. apply Ascii.eqb_neq. apply Ascii.eqb_neq in H. congruence. Qed.

Lemma pieces_head T : forall s cur,
  match pieces_aux T s cur with [] => True | p :: _ => exists u, p = rev cur ++ u end.
Proof.
  induction s as [|x s IH]; intros cur; cbn [pieces_aux]; [exact I|].
  destruct (Ascii.eqb x T).
  - exists []. rewrite app_nil_r. reflexivity.
  - specialize (IH (x :: cur)). destruct (pieces_aux T s (x :: cur)) as [|p ps]; [exact I|].
    destruct IH as [u ->]. cbn [rev]. rewrite <- app_assoc. eauto.
Qed.

Section Plain.
Variables (T e : ascii).
Notation cI := "I"%char. Notation cS := "S"%char. Notation cA := "A"%char.
Hypothesis TI : Ascii.eqb cI T = false.
Hypothesis TS : Ascii.eqb cS T = false.
Hypothesis TA : Ascii.eqb cA T = false.
Hypothesis Te : Ascii.eqb e T = false.
Hypothesis eI : Ascii.eqb cI e = false.
Hypothesis eS : Ascii.eqb cS e = false.
Hypothesis eA : Ascii.eqb cA e = false.

(* the first raw line starts with ISA and the element separator *)
Lemma raw_spec_head rest :
  match raw_spec T (cI :: cS :: cA :: e :: rest) with
  | [] => True
  | ln :: _ => exists u, ln = cI :: cS :: cA :: e :: u
  end.
Proof.
  unfold raw_spec, terminated_pieces. cbn [pieces_aux]. rewrite TI, TS, TA, Te.
  pose proof (pieces_head T rest [e; cA; cS; cI]) as H.
  destruct (pieces_aux T rest [e; cA; cS; cI]) as [|p ps]; [exact I|].
  destruct H as [u ->]. cbn [rev app map lstrip_set].
  replace (mem_ascii cI CRLF) with false by reflexivity. cbn [filter nonempty]. eauto.
Qed.

Lemma parse_seg_isa d u :
  seg_term d = T -> ele_term d = e -> sid (parse_seg d (cI :: cS :: cA :: e :: u)) = Some (l "ISA").
Proof.
  intros DT De. unfold parse_seg. rewrite DT, De.
  set (line := cI :: cS :: cA :: e :: u).
  match goal with |- context [split e ?b] => assert (B : exists u', b = cI :: cS :: cA :: e :: u') end.
  { destruct (rev line) as [|c r] eqn:R; [exists u; reflexivity|].
    destruct (Ascii.eqb c T) eqn:EC; [|exists u; reflexivity]. apply Ascii.eqb_eq in EC. subst c.
    assert (L : line = rev r ++ [T]) by (rewrite <- (rev_involutive line), R; reflexivity).
    unfold line in L.
    destruct (rev r) as [|a0 [|a1 [|a2 [|a3 r']]]]; cbn [app] in L; injection L; intros;
      try (exists r'; congruence);
      exfalso;
      repeat match goal with H : _ = T |- _ => rewrite <- H in *; clear H end;
      rewrite ?Ascii.eqb_refl in *; discriminate. }
  destruct B as [u' ->]. unfold split. cbn [split_aux]. rewrite eI, eS, eA, Ascii.eqb_refl. reflexivity.
Qed.

End Plain.

Lemma mem3_false c : mem_ascii c (l "ISA") = false ->
  Ascii.eqb "I"%char c = false /\ Ascii.eqb "S"%char c = false /\ Ascii.eqb "A"%char c = false.
Proof.
  cbn [l list_ascii_of_string mem_ascii]. intros H.
  apply orb_false_iff in H as [H1 H]. apply orb_false_iff in H as [H2 H]. apply orb_false_iff in H as [H3 _].
  repeat split; apply eqb_false_sym; assumption.
Qed.

Theorem plain_delims_first_isa text : plain_delims text = true -> first_is_isa text.
Proof.
  unfold plain_delims. cbv zeta. intros P r lines RA.
  apply andb_true_iff in P as [P P3]. apply andb_true_iff in P as [P1 P2].
  apply negb_true_iff in P1, P2, P3.
  destruct (header_ok text) eqn:HO.
  2:{ rewrite (raw_rejects text [] HO) in RA. discriminate RA. }
  destruct (raw_chunk_independent text [] HO) as (r0 & RA0 & D0).
  rewrite RA0 in RA. injection RA as <- <-.
  (* the text starts with I S A e *)
  unfold header_ok in HO. apply andb_true_iff in HO as [HO _]. apply andb_true_iff in HO as [HL HI].
  apply Nat.leb_le in HL. apply str_eqb_eq in HI.
  destruct text as [|a [|b [|c [|e rest]]]]; cbn [length] in HL; try lia.
  cbn [firstn] in HI. change (cs "ISA") with ["I"%char; "S"%char; "A"%char] in HI. injection HI as -> -> ->.
  set (text := "I"%char :: "S"%char :: "A"%char :: e :: rest) in *.
  set (T := nth 105 text " "%char) in *.
  change (nth 3 text " "%char) with e in P2, P3.
  destruct (mem3_false _ P1) as (TI & TS & TA). destruct (mem3_false _ P2) as (eI & eS & eA).
  apply eqb_false_sym in P3.
  change (seg_term (header_delims text)) with T.
  pose proof (raw_spec_head T e TI TS TA P3 rest) as RH. fold text in RH.
  destruct (raw_spec T text) as [|ln lines']; [exact I|].
  destruct RH as [u ->]. intros x x' os es RL.
  unfold reader_line_opt in RL. cbn [andb] in RL.
  replace (Ascii.eqb "I"%char " "%char) with false in RL by reflexivity. cbn [andb] in RL.
  unfold reader_line in RL. cbv zeta in RL.
  replace (Ascii.eqb "I"%char " "%char) with false in RL by reflexivity.
  match type of RL with context [reader_step ?d x ?p] => set (s0 := p) in RL end.
  destruct (reader_step (delims_of r0) x s0) as [[x1 e3]|e'] eqn:RS; cbn [bind] in RL; [|discriminate RL].
  injection RL as <- <- <-. exists s0. split; [reflexivity|].
  unfold sid_is. unfold s0. rewrite (parse_seg_isa T e TI TS TA P3 eI eS eA); [apply str_eqb_refl | rewrite D0; reflexivity | rewrite D0; reflexivity].
Qed.

Print Assumptions plain_delims_first_isa.
