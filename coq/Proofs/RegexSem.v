(* RegexSem.v — a list-of-outcomes semantics of the backtracking matcher:
   `ms r pos s cs` enumerates, in the engine's priority order, every way r can
   match a prefix of s; the CPS matcher returns the first outcome on which its
   continuation succeeds.  Membership in `ms` is the declarative meaning of r,
   so "the engine finds exactly the intended parse" reduces to existence plus
   uniqueness of a parse. *)
From PX.Lib Require Import Base PyStr Regex.

Definition outcome := (nat * str * caps)%type.

Fixpoint down_from (n mn : nat) : list nat :=
  if n <? mn then [] else
  match n with
  | 0 => [0]
  | S n' => n :: down_from n' mn
  end.

Fixpoint ms (r : re) (pos : nat) (s : str) (cs : caps) : list outcome :=
  match r with
  | REps => [(pos, s, cs)]
  | RCls c => match s with x :: s' => if cls_mem c x then [(S pos, s', cs)] else [] | [] => [] end
  | RRep c mn mx => map (fun n => (pos + n, skipn n s, cs)) (down_from (span c mx s) mn)
  | RSeq a b => flat_map (fun o => match o with (p', s', cs') => ms b p' s' cs' end) (ms a pos s cs)
  | RAlt a b => ms a pos s cs ++ ms b pos s cs
  | ROpt a => ms a pos s cs ++ [(pos, s, cs)]
  | RGroup name a => map (fun o => match o with (p', s', cs') => (p', s', (name, firstn (p' - pos) s) :: cs') end)
                         (ms a pos s cs)
  | RBol => if pos =? 0 then [(pos, s, cs)] else []
  | REol => match s with
            | [] => [(pos, s, cs)]
            | [x] => if Ascii.eqb x NL then [(pos, s, cs)] else []
            | _ => []
            end
  end.

Fixpoint find_map {A B} (f : A -> option B) (l : list A) : option B :=
  match l with
  | [] => None
  | x :: l' => match f x with Some y => Some y | None => find_map f l' end
  end.

Lemma find_map_app {A B} (f : A -> option B) l1 l2 :
  find_map f (l1 ++ l2) = match find_map f l1 with Some y => Some y | None => find_map f l2 end.
Proof. induction l1 as [|x l1 IH]; simpl; [reflexivity|]. destruct (f x); [reflexivity | exact IH]. Qed.

Lemma find_map_map {A B C} (f : B -> option C) (g : A -> B) l :
  find_map f (map g l) = find_map (fun x => f (g x)) l.
Proof. induction l as [|x l IH]; simpl; [reflexivity|]. destruct (f (g x)); [reflexivity | exact IH]. Qed.

Lemma find_map_flat_map {A B C} (f : B -> option C) (g : A -> list B) l :
  find_map f (flat_map g l) = find_map (fun x => find_map f (g x)) l.
Proof.
  induction l as [|x l IH]; simpl; [reflexivity|]. rewrite find_map_app.
  destruct (find_map f (g x)); [reflexivity | exact IH].
Qed.

Lemma find_map_ext {A B} (f g : A -> option B) l :
  (forall x, f x = g x) -> find_map f l = find_map g l.
Proof. intros H. induction l as [|x l IH]; simpl; [reflexivity|]. rewrite H, IH. reflexivity. Qed.

Lemma try_down_find {R} n mn (f : nat -> option R) :
  try_down n mn f = find_map f (down_from n mn).
Proof.
  induction n as [|n IH]; cbn [try_down down_from]; destruct (_ <? mn); try reflexivity.
  simpl. rewrite IH. reflexivity.
Qed.

Definition ko {R} (k : nat -> str -> caps -> option R) : outcome -> option R :=
  fun o => match o with (p', s', cs') => k p' s' cs' end.

Theorem m_ms {R} r : forall pos s cs (k : nat -> str -> caps -> option R),
  m r pos s cs k = find_map (ko k) (ms r pos s cs).
Proof.
  induction r as [ | c | c mn mx | a IHa b IHb | a IHa b IHb | a IHa | name a IHa | | ];
    intros pos s cs k; cbn [m ms].
  - simpl. destruct (k pos s cs); reflexivity.
  - destruct s as [|x s']; [reflexivity|]. destruct (cls_mem c x); simpl; [destruct (k (S pos) s' cs)|]; reflexivity.
  - rewrite try_down_find, find_map_map. reflexivity.
  - rewrite IHa, find_map_flat_map. apply find_map_ext. intros [[p' s'] cs']. unfold ko at 1. apply IHb.
  - rewrite find_map_app, IHa, IHb. reflexivity.
  - rewrite find_map_app, IHa. simpl. destruct (find_map (ko k) (ms a pos s cs)); [reflexivity|].
    destruct (k pos s cs); reflexivity.
  - rewrite IHa, find_map_map. apply find_map_ext. intros [[p' s'] cs']. reflexivity.
  - destruct (pos =? 0); simpl; [destruct (k pos s cs)|]; reflexivity.
  - destruct s as [|x [|y s']]; simpl; try reflexivity.
    + destruct (k pos [] cs); reflexivity.
    + destruct (Ascii.eqb x NL); simpl; [destruct (k pos [x] cs)|]; reflexivity.
Qed.

(* the first success is determined by: some outcome succeeds with value y, and
   every succeeding outcome gives y *)
Lemma find_map_unique {A B} (f : A -> option B) l y :
  (exists x, In x l /\ f x = Some y) ->
  (forall x z, In x l -> f x = Some z -> z = y) ->
  find_map f l = Some y.
Proof.
  induction l as [|x l IH]; intros [x0 [Hin Hf]] U; [destruct Hin|].
  simpl. destruct (f x) eqn:E.
  - f_equal. apply (U x); [left; reflexivity | exact E].
  - apply IH.
    + destruct Hin as [<-|Hin]; [congruence | exists x0; auto].
    + intros x1 z H1 H2. apply (U x1); [right; exact H1 | exact H2].
Qed.

Lemma find_map_none {A B} (f : A -> option B) l :
  (forall x, In x l -> f x = None) -> find_map f l = None.
Proof.
  induction l as [|x l IH]; intros H; [reflexivity|]. simpl. rewrite (H x (or_introl eq_refl)).
  apply IH. intros x1 H1. apply H. right; exact H1.
Qed.

(* membership characterisations (the declarative reading) *)
Lemma in_down_from j n mn : In j (down_from n mn) <-> mn <= j <= n.
Proof.
  induction n as [|n IH]; cbn [down_from].
  - destruct (0 <? mn) eqn:E; [apply Nat.ltb_lt in E | apply Nat.ltb_ge in E]; simpl; lia.
  - destruct (S n <? mn) eqn:E; [apply Nat.ltb_lt in E | apply Nat.ltb_ge in E]; simpl; [lia|].
    rewrite IH. lia.
Qed.

Lemma in_ms_seq a b pos s cs o :
  In o (ms (RSeq a b) pos s cs) <->
  exists p' s' cs', In (p', s', cs') (ms a pos s cs) /\ In o (ms b p' s' cs').
Proof.
  cbn [ms]. rewrite in_flat_map. split.
  - intros [[[p' s'] cs'] [H1 H2]]. exists p', s', cs'. auto.
  - intros [p' [s' [cs' [H1 H2]]]]. exists (p', s', cs'). auto.
Qed.

Lemma in_ms_opt a pos s cs o :
  In o (ms (ROpt a) pos s cs) <-> In o (ms a pos s cs) \/ o = (pos, s, cs).
Proof. cbn [ms]. rewrite in_app_iff. simpl. intuition congruence. Qed.

Lemma in_ms_group name a pos s cs o :
  In o (ms (RGroup name a) pos s cs) <->
  exists p' s' cs', In (p', s', cs') (ms a pos s cs) /\ o = (p', s', (name, firstn (p' - pos) s) :: cs').
Proof.
  cbn [ms]. rewrite in_map_iff. split.
  - intros [[[p' s'] cs'] [H1 H2]]. exists p', s', cs'. auto.
  - intros [p' [s' [cs' [H1 H2]]]]. exists (p', s', cs'). auto.
Qed.

Lemma in_ms_cls c pos s cs o :
  In o (ms (RCls c) pos s cs) <-> exists x s', s = x :: s' /\ cls_mem c x = true /\ o = (S pos, s', cs).
Proof.
  cbn [ms]. destruct s as [|x s']; simpl.
  - split; [intros [] | intros [x [s' [H _]]]; discriminate].
  - destruct (cls_mem c x) eqn:E; simpl; split.
    + intros [<-|[]]. exists x, s'. auto.
    + intros [x0 [s0 [H [_ ->]]]]. injection H as <- <-. left; reflexivity.
    + intros [].
    + intros [x0 [s0 [H [H1 _]]]]. injection H as <- <-. congruence.
Qed.

Lemma in_ms_rep c mn mx pos s cs o :
  In o (ms (RRep c mn mx) pos s cs) <->
  exists n, mn <= n <= span c mx s /\ o = (pos + n, skipn n s, cs).
Proof.
  cbn [ms]. rewrite in_map_iff. split.
  - intros [n [H1 H2]]. exists n. apply in_down_from in H2. auto.
  - intros [n [H1 H2]]. exists n. split; [auto | apply in_down_from; exact H1].
Qed.
