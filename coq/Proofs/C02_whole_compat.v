(* C02_whole_compat.v — top_compat (Spec/C02_whole_spec.v: two maps used in one interchange share the counter keys
   of what follows GS_LOOP under ISA_LOOP) is reflexive, and is decided by evaluation for two given maps. *)
From Coq Require Import String Lia.
From PX.Lib Require Import Base PyStr PyInt Regex Xml.
From PX.Model Require Import Path Segment Syntax MapLoad MapTree Element Counter Walker.
From PX.Spec Require Import C07_walker_wf C02_doc_spec C02_whole_spec.
From PX.Proofs Require Import Counter_keys C07_walker_lemmas C02_doc_counter C02_doc.

Lemma top_compat_refl isal m : top_compat isal m m.
Proof.
  intros k x nx K Hx. exists ((isal ++ [k]) ++ x), nx. split; [exact Hx|]. split; [|reflexivity].
  apply sibling_not_below. lia.
Qed.

(* r lies under child k > 1 of isal *)
Definition after_gs (isal r : nref) : bool := strict_prefix_b isal r && (1 <? nth (length isal) r 0).

Definition same_key (a b : result xpath) : bool :=
  match a, b with Ok x, Ok y => path_eqb x y | _, _ => false end.

Definition top_compat_b (isal : nref) (m1 m2 : xmap) : bool :=
  forallb (fun r =>
     negb (after_gs isal r) ||
     existsb (fun r1 => match node_at (root_nodes m1) r1 with Some _ => true | None => false end &&
                        negb (strict_prefix_b (isal ++ [1]) r1) &&
                        same_key (node_x12path m1 r1) (node_x12path m2 r)) (all_refs m1))
    (all_refs m2).

Lemma top_compat_dec isal m1 m2 :
  walker_wf m2 = true -> top_compat_b isal m1 m2 = true -> top_compat isal m1 m2.
Proof.
  intros WF H k x nx K Hx. unfold top_compat_b in H. rewrite forallb_forall in H.
  assert (D : forallb (depth_ok 40) (root_nodes m2) = true).
  { unfold walker_wf in WF. apply andb_true_iff in WF as [D _]. exact D. }
  specialize (H _ (all_refs_complete m2 _ nx D Hx)).
  assert (A : after_gs isal ((isal ++ [k]) ++ x) = true).
  { unfold after_gs. rewrite <- app_assoc. cbn [app]. rewrite strict_prefix_app. cbn [andb].
    rewrite app_nth2 by lia. rewrite Nat.sub_diag. cbn [nth]. apply Nat.ltb_lt. exact K. }
  rewrite A in H. cbn [negb orb] in H. apply existsb_exists in H as (r1 & _ & H).
  apply andb_true_iff in H as [H SK]. apply andb_true_iff in H as [H1 H2].
  destruct (node_at (root_nodes m1) r1) as [n1|] eqn:E1; [|discriminate].
  exists r1, n1. split; [exact E1|]. split; [apply negb_true_iff; exact H2|].
  unfold same_key in SK. destruct (node_x12path m1 r1) as [a|]; [|discriminate].
  destruct (node_x12path m2 _) as [b|]; [|discriminate]. apply path_eqb_eq in SK. congruence.
Qed.

Print Assumptions top_compat_dec.
