(* C08_doc.v — the document-level round trip: the XML text written for a sequence of located segments, read back
   by xml_read (Spec/C08_parse_spec.v), is converted by the model of xmlx12_simple.convert into exactly one
   X12Writer.Write per source segment, each with the segment get_segment builds from the segment's element tree
   (seg_tree of Spec/C08_spec.v) — hence, by C08_segment_tree_roundtrip, with the source segment up to the
   blanking of not-used elements. *)
From Coq Require Import String Lia.
From PX.Lib Require Import Base PyStr Xml.
From PX.Model Require Import Path Segment MapLoad MapTree OutW XmlOut XmlIn.
From PX.Spec Require Import C01_spec C08_spec C08_parse_spec.
From PX.Proofs Require Import C08_lemmas C08_xml C08_parse.

Local Notation l := C08_spec.l (only parsing).

Definition SEG : str := l "seg".
Definition ELE : str := l "ele".
Definition COMP : str := l "comp".
Definition SUBELE : str := l "subele".

(* ================================================================== *)
(* 1. what the conversion sees of a tree                               *)

Definition is_seg (e : xml) : bool := tag_is e "seg".
Definition segs_f (fuel : nat) (e : xml) : list xml := filter is_seg (iter_all fuel e).
(* the `seg` elements of a document in document order: the nodes convert() handles *)
Definition seg_nodes (doc : xml) : list xml := filter is_seg (x_iter_all doc).

Lemma wb_ext {S A B} (m : W S A) (k1 k2 : A -> W S B) w :
  (forall a w', k1 a w' = k2 a w') -> w_bind m k1 w = w_bind m k2 w.
Proof. intros H. unfold w_bind. destruct (m w) as [[s1 o1] [a|e]]; [rewrite H|]; reflexivity. Qed.

Lemma wb_ret {S B} (k : unit -> W S B) w : w_bind (w_ret tt) k w = k tt w.
Proof. unfold w_bind, w_ret. destruct (k tt w) as [[s2 o2] r]. reflexivity. Qed.

Lemma w_iter_segs (L : list xml) : forall w,
  w_iter (fun node => if tag_is node "seg" then dow sg <- w_lift (get_segment node); do_write sg else w_ret tt) L w =
  w_iter write_back (filter is_seg L) w.
Proof.
  induction L as [|x L IH]; intros w; [reflexivity|].
  cbn [w_iter filter]. unfold is_seg at 1. destruct (tag_is x "seg") eqn:T.
  - cbn [w_iter]. apply wb_ext. intros _ w'. apply IH.
  - rewrite wb_ret. apply IH.
Qed.

Theorem convert_segs doc w : convert doc w = w_iter write_back (seg_nodes doc) w.
Proof. unfold convert, seg_nodes. apply w_iter_segs. Qed.

(* ---- drop_ctext ---- *)
Lemma dc_tag e : x_tag (drop_ctext e) = x_tag e. Proof. destruct e; reflexivity. Qed.
Lemma dc_attrs e : x_attrs (drop_ctext e) = x_attrs e. Proof. destruct e; reflexivity. Qed.
Lemma dc_children e : x_children (drop_ctext e) = map drop_ctext (x_children e). Proof. destruct e; reflexivity. Qed.
Lemma dc_get e a : x_get (drop_ctext e) a = x_get e a. Proof. unfold x_get. rewrite dc_attrs. reflexivity. Qed.
Lemma dc_tag_is e t : tag_is (drop_ctext e) t = tag_is e t. Proof. unfold tag_is. rewrite dc_tag. reflexivity. Qed.
Lemma dc_text_ele e : tag_is e "ele" = true -> x_text (drop_ctext e) = x_text e.
Proof.
  destruct e as [tag a t k]. unfold tag_is. cbn [x_tag drop_ctext x_text]. intros H.
  change (C08_parse_spec.l "ele") with (XmlIn.l "ele"). rewrite H. reflexivity.
Qed.
Lemma dc_text_subele e : str_eqb (x_tag e) (s "subele") = true -> x_text (drop_ctext e) = x_text e.
Proof. destruct e as [tag a t k]. cbn [x_tag drop_ctext x_text]. intros H. change (C08_parse_spec.l "subele") with (s "subele"). rewrite H, orb_true_r. reflexivity. Qed.

Lemma flat_map_map {A B C} (f : A -> B) (g : B -> list C) L : flat_map g (map f L) = flat_map (fun x => g (f x)) L.
Proof. induction L as [|x L IH]; [reflexivity|]. cbn [map flat_map]. rewrite IH. reflexivity. Qed.
Lemma map_flat_map {A B C} (f : B -> C) (g : A -> list B) L : map f (flat_map g L) = flat_map (fun x => map f (g x)) L.
Proof. induction L as [|x L IH]; [reflexivity|]. cbn [flat_map]. rewrite map_app, IH. reflexivity. Qed.
Lemma filter_flat_map {A B} (p : B -> bool) (g : A -> list B) L : filter p (flat_map g L) = flat_map (fun x => filter p (g x)) L.
Proof. induction L as [|x L IH]; [reflexivity|]. cbn [flat_map]. rewrite filter_app, IH. reflexivity. Qed.
Lemma filter_map_comm {A B} (p : B -> bool) (f : A -> B) L : filter p (map f L) = map f (filter (fun x => p (f x)) L).
Proof. induction L as [|x L IH]; [reflexivity|]. cbn [map filter]. rewrite IH. destruct (p (f x)); reflexivity. Qed.

Lemma dc_iter : forall f e, iter_all f (drop_ctext e) = map drop_ctext (iter_all f e).
Proof.
  induction f as [|f IH]; intros e; [reflexivity|]. rewrite !iter_all_S. cbn [map]. f_equal.
  rewrite dc_children, flat_map_map, map_flat_map. apply flat_map_ext. intros a. apply IH.
Qed.

Lemma dc_segs f e : segs_f f (drop_ctext e) = map drop_ctext (segs_f f e).
Proof.
  unfold segs_f. rewrite dc_iter, filter_map_comm. f_equal. apply filter_ext. intros a. unfold is_seg. apply dc_tag_is.
Qed.

Lemma dc_set_subeles : forall subs sg, forallb (fun e => str_eqb (x_tag e) (s "subele")) subs = true ->
  set_subeles sg (map drop_ctext subs) = set_subeles sg subs.
Proof.
  induction subs as [|e subs IH]; intros sg H; [reflexivity|]. cbn [forallb] in H. apply andb_true_iff in H as [H1 H2].
  cbn [map set_subeles]. rewrite (dc_text_subele e H1), dc_get.
  destruct (match x_text e with Some (c :: r) => seg_set_opt sg (x_get e "id") (Some (c :: r)) | _ => Ok sg end); cbn [bind]; [apply IH, H2|reflexivity].
Qed.

Lemma dc_apply_node sg e : apply_node sg (drop_ctext e) = apply_node sg e.
Proof.
  unfold apply_node. rewrite !dc_tag_is. destruct (tag_is e "ele") eqn:TE.
  - rewrite (dc_text_ele e TE), dc_get. reflexivity.
  - destruct (tag_is e "comp"); [|reflexivity].
    unfold x_findall. rewrite dc_children, filter_map_comm.
    rewrite (filter_ext (fun x => str_eqb (x_tag (drop_ctext x)) (s "subele")) (fun c => str_eqb (x_tag c) (s "subele")))
      by (intros a; rewrite dc_tag; reflexivity).
    apply dc_set_subeles. apply forallb_forall. intros x IN. apply filter_In in IN as [_ IN]. exact IN.
Qed.

Lemma dc_apply_nodes : forall ns sg, apply_nodes sg (map drop_ctext ns) = apply_nodes sg ns.
Proof.
  induction ns as [|n ns IH]; intros sg; [reflexivity|]. cbn [map apply_nodes]. rewrite dc_apply_node.
  destruct (apply_node sg n); cbn [bind]; [apply IH|reflexivity].
Qed.

(* get_segment cannot see the text of container elements *)
Theorem get_segment_drop_ctext e : get_segment (drop_ctext e) = get_segment e.
Proof. unfold get_segment, x_iter_all. rewrite dc_get, dc_iter. apply dc_apply_nodes. Qed.

Lemma write_back_drop e w : write_back (drop_ctext e) w = write_back e w.
Proof. unfold write_back. rewrite get_segment_drop_ctext. reflexivity. Qed.

Lemma w_iter_drop : forall ns w, w_iter write_back (map drop_ctext ns) w = w_iter write_back ns w.
Proof.
  induction ns as [|n ns IH]; intros w; [reflexivity|]. cbn [map w_iter].
  rewrite (wb_ext _ _ (fun _ => w_iter write_back ns) w (fun _ w' => IH w')).
  unfold w_bind. rewrite write_back_drop. reflexivity.
Qed.

(* ================================================================== *)
(* 2. the seg elements while the events are folded                     *)

Definition fname (f : tframe) : str := fst (fst f).
Definition fkids (f : tframe) : list xml := snd f.

(* the seg elements among the children already completed, outermost open element first; the children of the
   open element with k open ancestors are walked by x_iter_all with 69 - k levels left *)
Fixpoint pend (st : list tframe) : list xml :=
  match st with
  | [] => []
  | f :: st' => pend st' ++ flat_map (segs_f (69 - length st')) (rev (fkids f))
  end.

Lemma segs_f_S m n a t kids : str_eqb n SEG = false ->
  segs_f (S m) (X n a t kids) = flat_map (segs_f m) kids.
Proof.
  intros N. unfold segs_f. rewrite iter_all_S. cbn [filter x_children]. unfold is_seg at 1, tag_is. cbn [x_tag].
  change (XmlIn.l "seg") with SEG. rewrite N. apply filter_flat_map.
Qed.

Lemma close_tframe_X dep n a kids : exists t, close_tframe dep (n, a, kids) = X n a t (rev kids).
Proof. eexists. reflexivity. Qed.

(* closing an element that is not a seg moves its seg descendants into the parent, in place *)
Lemma pend_pop pn pa pk qn qa qk st'' dep : str_eqb pn SEG = false -> length st'' <= 68 ->
  pend ((qn, qa, close_tframe dep (pn, pa, pk) :: qk) :: st'') = pend ((pn, pa, pk) :: (qn, qa, qk) :: st'').
Proof.
  intros N L. cbn [pend fkids snd length rev]. rewrite flat_map_app. cbn [flat_map]. rewrite app_nil_r.
  destruct (close_tframe_X dep pn pa pk) as (t & ->).
  replace (69 - length st'') with (S (69 - S (length st''))) at 2 by lia.
  rewrite (segs_f_S _ _ _ _ _ N), <- app_assoc. reflexivity.
Qed.

Lemma pend_push n a st : pend ((n, a, []) :: st) = pend st.
Proof. cbn [pend fkids snd rev flat_map]. apply app_nil_r. Qed.

Lemma pend_kid pn pa pk st' e :
  pend ((pn, pa, e :: pk) :: st') = pend ((pn, pa, pk) :: st') ++ segs_f (69 - length st') e.
Proof. cbn [pend fkids snd rev]. rewrite flat_map_app. cbn [flat_map]. rewrite app_nil_r, app_assoc. reflexivity. Qed.

(* ---- the shape of the stack between segments: k loop elements inside the root ---- *)
Definition shape (k : nat) (st : list tframe) : Prop :=
  exists lfs rf, st = lfs ++ [rf] /\ length lfs = k /\ Forall (fun f => fname f = LOOP) lfs /\ fname rf = X12S.

Lemma shape_length k st : shape k st -> length st = S k.
Proof. intros (lfs & rf & -> & L & _). rewrite app_length. cbn [length]. lia. Qed.

(* one loop closed *)
Lemma close_loop_step k st : shape (S k) st -> k <= 67 ->
  exists st', shape k st' /\ pend st' = pend st /\ forall r, tree_of_aux st (XClose LOOP :: r) = tree_of_aux st' r.
Proof.
  intros (lfs & rf & -> & L & F & R) K. destruct lfs as [|[[pn pa] pk] lfs]; [discriminate L|].
  cbn [length] in L. injection L as L. inversion F as [|? ? F1 F2]; subst. unfold fname in F1. cbn [fst] in F1. subst pn.
  destruct (lfs ++ [rf]) as [|[[qn qa] qk] st''] eqn:E; [destruct lfs; discriminate E|].
  exists ((qn, qa, close_tframe (length ((qn, qa, qk) :: st'')) (LOOP, pa, pk) :: qk) :: st''). split; [|split].
  - destruct lfs as [|f lfs].
    + cbn [app] in E. injection E as E1 E2. subst rf st''. exists [], (qn, qa, close_tframe 1 (LOOP, pa, pk) :: qk).
      repeat split; [constructor | exact R].
    + cbn [app] in E. injection E as E1 E2. subst f st''. inversion F2 as [|? ? G1 G2]; subst.
      exists ((qn, qa, close_tframe (length ((qn, qa, qk) :: lfs ++ [rf])) (LOOP, pa, pk) :: qk) :: lfs), rf.
      repeat split; [constructor; assumption | exact R].
  - cbn [app]. rewrite E. apply pend_pop; [reflexivity|].
    assert (LL : length (lfs ++ [rf]) = length ((qn, qa, qk) :: st'')) by (rewrite E; reflexivity).
    rewrite app_length in LL. cbn [length] in LL. lia.
  - intros r. cbn [app]. rewrite E. cbn [tree_of_aux]. rewrite str_eqb_refl. reflexivity.
Qed.

Lemma close_loops j : forall k st, shape (j + k) st -> j + k <= 68 ->
  exists st', shape k st' /\ pend st' = pend st /\ forall r, tree_of_aux st (repeat (XClose LOOP) j ++ r) = tree_of_aux st' r.
Proof.
  induction j as [|j IH]; intros k st SH K.
  - exists st. split; [exact SH|split; [reflexivity|intros r; reflexivity]].
  - cbn [Nat.add] in SH. destruct (close_loop_step (j + k) st SH ltac:(lia)) as (st1 & S1 & P1 & T1).
    destruct (IH k st1 S1 ltac:(lia)) as (st2 & S2 & P2 & T2).
    exists st2. split; [exact S2|split; [congruence|]]. intros r. cbn [repeat app]. rewrite T1. apply T2.
Qed.

Lemma open_loops ids : forall k st, shape k st ->
  exists st', shape (k + length ids) st' /\ pend st' = pend st /\
              forall r, tree_of_aux st (map (fun id => XOpen LOOP (Some (Some id))) ids ++ r) = tree_of_aux st' r.
Proof.
  induction ids as [|id ids IH]; intros k st SH.
  - exists st. rewrite Nat.add_0_r. split; [exact SH|split; [reflexivity|intros r; reflexivity]].
  - assert (S1 : shape (S k) ((LOOP, ev_attrs (Some (Some id)), []) :: st)).
    { destruct SH as (lfs & rf & -> & L & F & R). exists ((LOOP, ev_attrs (Some (Some id)), []) :: lfs), rf.
      repeat split; [cbn [length]; lia | constructor; [reflexivity|exact F] | exact R]. }
    destruct (IH (S k) _ S1) as (st2 & S2 & P2 & T2). exists st2. split; [|split].
    + cbn [length]. replace (k + S (length ids)) with (S k + length ids) by lia. exact S2.
    + rewrite P2. apply pend_push.
    + intros r. cbn [map app tree_of_aux]. apply T2.
Qed.

Lemma loops_step first last cur st : shape (length last) st -> length last <= 68 ->
  exists st', shape (length cur) st' /\ pend st' = pend st /\
              forall r, tree_of_aux st (loop_events first last cur ++ r) = tree_of_aux st' r.
Proof.
  intros SH K. rewrite loop_events_keep. pose proof (keep_n_le_l first last cur). pose proof (keep_n_le_r first last cur).
  set (k := keep_n first last cur) in *.
  replace (length last) with ((length last - k) + k) in SH by lia.
  destruct (close_loops (length last - k) k st SH ltac:(lia)) as (st1 & S1 & P1 & T1).
  destruct (open_loops (skipn k cur) k st1 S1) as (st2 & S2 & P2 & T2).
  exists st2. split; [|split].
  - rewrite skipn_length in S2. replace (k + (length cur - k)) with (length cur) in S2 by lia. exact S2.
  - congruence.
  - intros r. rewrite <- app_assoc. change (C08_spec.l "loop") with LOOP. rewrite T1. apply T2.
Qed.

(* ---- one segment ---- *)
Lemma leaves_step {A} nm (f : A -> option str) (g : A -> str) (L : list A) : forall pn pa pk st r,
  tree_of_aux ((pn, pa, pk) :: st) (map (fun x => XLeaf nm (f x) (g x)) L ++ r) =
  tree_of_aux ((pn, pa, rev (map (fun x => leaf_tree nm (f x) (g x)) L) ++ pk) :: st) r.
Proof.
  induction L as [|x L IH]; intros pn pa pk st r; [reflexivity|].
  cbn [map app tree_of_aux rev]. rewrite IH, <- app_assoc. reflexivity.
Qed.

Lemma dc_leaves {A} nm (f : A -> option str) (g : A -> str) (L : list A) :
  str_eqb nm ELE || str_eqb nm SUBELE = true ->
  map drop_ctext (map (fun x => leaf_tree nm (f x) (g x)) L) = map (fun x => leaf_tree nm (f x) (g x)) L.
Proof.
  intros N. rewrite map_map. apply map_ext. intros x. unfold leaf_tree. cbn [drop_ctext map].
  change (C08_parse_spec.l "ele") with ELE. change (C08_parse_spec.l "subele") with SUBELE. rewrite N. reflexivity.
Qed.

Lemma child_step gi d i comp pn pa pk st :
  exists ts, map drop_ctext ts = child_tree gi d i comp /\
    forall r, tree_of_aux ((pn, pa, pk) :: st) (child_events gi d i comp ++ r) = tree_of_aux ((pn, pa, rev ts ++ pk) :: st) r.
Proof.
  unfold child_events, child_tree. destruct (child_for gi i) as [c|]; [|exists []; split; reflexivity].
  destruct (not_used c || comp_empty comp); [exists []; split; reflexivity|].
  destruct (ci_kind c).
  - eexists [_]. split; [|intros r; reflexivity]. reflexivity.
  - unfold sub_events.
    set (f := fun jv : nat * str => match nth_error (ci_subids c) (fst jv) with Some i0 => i0 | None => None end).
    set (L := combine (seq 0 (length comp)) comp).
    exists [close_tframe (length ((pn, pa, pk) :: st)) (COMP, id_attrs (gi_id gi), rev (map (fun jv => leaf_tree SUBELE (f jv) (snd jv)) L) ++ [])].
    split.
    + cbn [map]. f_equal. unfold close_tframe. cbn [drop_ctext]. rewrite app_nil_r, rev_involutive.
      rewrite (dc_leaves SUBELE f snd L eq_refl). reflexivity.
    + intros r. cbn [app tree_of_aux]. rewrite <- app_assoc.
      change (C08_spec.l "subele") with SUBELE.
      rewrite (leaves_step SUBELE f snd L). cbn [app tree_of_aux]. change (C08_spec.l "comp") with COMP.
      rewrite str_eqb_refl. reflexivity.
Qed.

Lemma children_step gi d pn pa st : forall (ics : list (nat * composite)) pk,
  exists ts, map drop_ctext ts = concat (map (fun ic : nat * composite => child_tree gi d (fst ic) (snd ic)) ics) /\
    forall r, tree_of_aux ((pn, pa, pk) :: st) (concat (map (fun ic : nat * composite => child_events gi d (fst ic) (snd ic)) ics) ++ r) =
              tree_of_aux ((pn, pa, rev ts ++ pk) :: st) r.
Proof.
  induction ics as [|ic ics IH]; intros pk; [exists []; split; reflexivity|].
  destruct (child_step gi d (fst ic) (snd ic) pn pa pk st) as (t1 & D1 & T1).
  destruct (IH (rev t1 ++ pk)) as (t2 & D2 & T2).
  exists (t1 ++ t2). split.
  - cbn [map concat]. rewrite map_app, D1, D2. reflexivity.
  - intros r. cbn [map concat]. rewrite <- app_assoc, T1, T2, rev_app_distr, <- app_assoc. reflexivity.
Qed.

Lemma seg_step_tree gi d sg pn pa pk st :
  exists e, drop_ctext e = seg_tree gi d sg /\
    forall r, tree_of_aux ((pn, pa, pk) :: st) (seg_events gi d sg ++ r) = tree_of_aux ((pn, pa, e :: pk) :: st) r.
Proof.
  unfold seg_events, seg_tree.
  destruct (children_step gi d SEG (id_attrs (gi_id gi)) ((pn, pa, pk) :: st) (combine (seq 0 (length (els sg))) (els sg)) [])
    as (ts & D & T).
  exists (close_tframe (length ((pn, pa, pk) :: st)) (SEG, id_attrs (gi_id gi), rev ts ++ [])). split.
  - unfold close_tframe. cbn [drop_ctext]. rewrite app_nil_r, rev_involutive, D. reflexivity.
  - intros r. cbn [app tree_of_aux]. rewrite <- app_assoc. change (C08_spec.l "seg") with SEG. cbn [ev_attrs].
    rewrite T. cbn [app tree_of_aux]. rewrite str_eqb_refl. reflexivity.
Qed.

(* the tree of a segment has one seg element: itself *)
Lemma segs_leaf f nm id t : str_eqb nm SEG = false -> segs_f f (leaf_tree nm id t) = [].
Proof.
  intros N. destruct f; [reflexivity|]. unfold segs_f. rewrite iter_all_leaf. cbn [filter]. unfold is_seg, tag_is, leaf_tree.
  cbn [x_tag]. change (XmlIn.l "seg") with SEG. rewrite N. reflexivity.
Qed.

Lemma segs_child gi d i comp f : flat_map (segs_f f) (child_tree gi d i comp) = [].
Proof.
  unfold child_tree. destruct (child_for gi i) as [c|]; [|reflexivity].
  destruct (not_used c || comp_empty comp); [reflexivity|]. destruct (ci_kind c); cbn [flat_map]; rewrite app_nil_r.
  - apply segs_leaf. reflexivity.
  - destruct f; [reflexivity|]. rewrite segs_f_S by reflexivity.
    induction (combine (seq 0 (length comp)) comp) as [|x L IH]; [reflexivity|]. cbn [map flat_map].
    rewrite segs_leaf by reflexivity. exact IH.
Qed.

Lemma segs_seg_tree gi d sg f : segs_f (S f) (seg_tree gi d sg) = [seg_tree gi d sg].
Proof.
  unfold segs_f at 1. rewrite iter_all_S. cbn [filter]. unfold is_seg at 1, tag_is, seg_tree at 1. cbn [x_tag].
  change (str_eqb (C08_spec.l "seg") (XmlIn.l "seg")) with true. cbv iota. f_equal.
  rewrite filter_flat_map. unfold seg_tree. cbn [x_children].
  induction (combine (seq 0 (length (els sg))) (els sg)) as [|ic L IH]; [reflexivity|].
  cbn [map concat]. rewrite flat_map_app, IH, app_nil_r. apply (segs_child gi d (fst ic) (snd ic) f).
Qed.

Lemma shape_kid k pn pa pk st e : shape k ((pn, pa, pk) :: st) -> shape k ((pn, pa, e :: pk) :: st).
Proof.
  intros (lfs & rf & E & L & F & R). destruct lfs as [|f lfs].
  - cbn [app] in E. injection E as E1 E2. subst rf st. exists [], (pn, pa, e :: pk). repeat split; [exact L|constructor|exact R].
  - cbn [app] in E. injection E as E1 E2. subst f st. exists ((pn, pa, e :: pk) :: lfs), rf.
    repeat split; [exact L| |exact R]. inversion F; subst. constructor; assumption.
Qed.

Lemma seg_step_shape gi d sg k st : shape k st -> k <= 68 ->
  exists st', shape k st' /\ map drop_ctext (pend st') = map drop_ctext (pend st) ++ [seg_tree gi d sg] /\
              forall r, tree_of_aux st (seg_events gi d sg ++ r) = tree_of_aux st' r.
Proof.
  intros SH K. pose proof (shape_length _ _ SH) as LN. destruct st as [|[[pn pa] pk] st']; [discriminate LN|].
  cbn [length] in LN. injection LN as LN.
  destruct (seg_step_tree gi d sg pn pa pk st') as (e & D & T).
  exists ((pn, pa, e :: pk) :: st'). split; [apply shape_kid, SH|split; [|exact T]].
  rewrite pend_kid, map_app. f_equal. rewrite <- dc_segs, D.
  match goal with |- segs_f ?n _ = _ => destruct n eqn:Q; [unfold tframe in *; lia|] end. apply segs_seg_tree.
Qed.

(* ---- all segments ---- *)
Definition seg_tree_of (x : located) : xml := seg_tree (lc_gi x) (lc_d x) (lc_seg x).

Lemma body_step : forall xs last st, shape (length last) st -> length last <= 68 -> doc_shallow xs = true ->
  exists st', shape (length (snd (body_events last xs))) st' /\ length (snd (body_events last xs)) <= 68 /\
              map drop_ctext (pend st') = map drop_ctext (pend st) ++ map seg_tree_of xs /\
              forall r, tree_of_aux st (fst (body_events last xs) ++ r) = tree_of_aux st' r.
Proof.
  induction xs as [|x xs IH]; intros last st SH K DS.
  - exists st. cbn [body_events fst snd map]. rewrite app_nil_r. split; [exact SH|split; [exact K|split; [reflexivity|intros r; reflexivity]]].
  - cbn [doc_shallow forallb] in DS. apply andb_true_iff in DS as [D1 DS]. fold (doc_shallow xs) in DS. apply Nat.leb_le in D1.
    cbn [body_events]. destruct (body_events (lc_path x) xs) as [more fin] eqn:E. cbn [fst snd].
    destruct (loops_step (gi_first (lc_gi x)) last (lc_path x) st SH K) as (st1 & S1 & P1 & T1).
    destruct (seg_step_shape (lc_gi x) (lc_d x) (lc_seg x) _ st1 S1 ltac:(lia)) as (st2 & S2 & P2 & T2).
    destruct (IH (lc_path x) st2 S2 ltac:(lia) DS) as (st3 & S3 & K3 & P3 & T3). rewrite E in S3, K3, T3. cbn [fst snd] in *.
    exists st3. split; [exact S3|split; [exact K3|split]].
    + rewrite P3, P2, P1, <- app_assoc. reflexivity.
    + intros r. rewrite <- !app_assoc, T1, T2. apply T3.
Qed.

(* the tree of the document's events, and its seg elements *)
Theorem doc_tree xs : doc_shallow xs = true ->
  exists doc, tree_of (doc_events xs) = Some doc /\ map drop_ctext (seg_nodes doc) = map seg_tree_of xs.
Proof.
  intros DS. unfold doc_events. destruct (body_events [] xs) as [body fin] eqn:E.
  assert (S0 : shape (length (@nil str)) [(X12S, ev_attrs None, [])]) by (exists [], (X12S, ev_attrs None, []); repeat split; constructor).
  destruct (body_step xs [] _ S0 ltac:(cbn [length]; lia) DS) as (st1 & S1 & K1 & P1 & T1). rewrite E in S1, K1, T1. cbn [fst snd] in *.
  rewrite map_const. change (C08_spec.l "loop") with LOOP.
  replace (length fin) with (length fin + 0) in S1 by lia.
  destruct (close_loops (length fin) 0 st1 S1 ltac:(lia)) as (st2 & S2 & P2 & T2).
  destruct S2 as (lfs & rf & -> & L & _ & R). destruct lfs; [|discriminate L]. cbn [app] in *.
  destruct rf as [[rn ra] rk]. unfold fname in R. cbn [fst] in R. subst rn.
  exists (close_tframe 0 (X12S, ra, rk)). split.
  - unfold tree_of. cbn [tree_of_aux]. change (C08_spec.l "x12simple") with X12S. rewrite T1, T2.
    cbn [tree_of_aux]. rewrite str_eqb_refl. reflexivity.
  - unfold seg_nodes, x_iter_all. fold (segs_f 70 (close_tframe 0 (X12S, ra, rk))).
    destruct (close_tframe_X 0 X12S ra rk) as (t & ->). rewrite segs_f_S by reflexivity.
    rewrite <- P2 in P1. cbn [pend fkids snd length app Nat.sub flat_map map rev] in P1. exact P1.
Qed.

(* ================================================================== *)
(* 3. the document's events can be carried by XML                      *)

Lemma forallb_repeat {A} (p : A -> bool) x n : p x = true -> forallb p (repeat x n) = true.
Proof. intros H. induction n as [|n IH]; [reflexivity|]. cbn [repeat forallb]. rewrite H, IH. reflexivity. Qed.

Lemma forallb_skipn {A} (p : A -> bool) : forall k L, forallb p L = true -> forallb p (skipn k L) = true.
Proof.
  induction k as [|k IH]; intros L H; [exact H|]. destruct L as [|x L]; [reflexivity|]. cbn [skipn].
  cbn [forallb] in H. apply andb_true_iff in H as [_ H]. apply IH, H.
Qed.

Lemma forallb_firstn {A} (p : A -> bool) : forall k L, forallb p L = true -> forallb p (firstn k L) = true.
Proof.
  induction k as [|k IH]; intros L H; [reflexivity|]. destruct L as [|x L]; [reflexivity|]. cbn [firstn forallb].
  cbn [forallb] in H. apply andb_true_iff in H as [H1 H]. rewrite H1, (IH _ H). reflexivity.
Qed.

Lemma forallb_map {A B} (p : B -> bool) (f : A -> B) L : forallb p (map f L) = forallb (fun x => p (f x)) L.
Proof. induction L as [|x L IH]; [reflexivity|]. cbn [map forallb]. rewrite IH. reflexivity. Qed.

Lemma forallb_concat {A} (p : A -> bool) (LL : list (list A)) : forallb (forallb p) LL = true -> forallb p (concat LL) = true.
Proof.
  induction LL as [|L LL IH]; intros H; [reflexivity|]. cbn [forallb] in H. apply andb_true_iff in H as [H1 H2].
  cbn [concat]. rewrite forallb_app, H1, (IH H2). reflexivity.
Qed.

Lemma join_text_ok sub : text_char_ok sub = true -> forall L, forallb text_ok L = true -> text_ok (join sub L) = true.
Proof.
  intros S. induction L as [|x L IH]; intros H; [reflexivity|]. cbn [forallb] in H. apply andb_true_iff in H as [H1 H2].
  destruct L as [|y L]; [exact H1|]. change (join sub (x :: y :: L)) with (x ++ sub :: join sub (y :: L)).
  unfold text_ok in *. rewrite forallb_app. cbn [forallb]. rewrite H1, S, (IH H2). reflexivity.
Qed.

Lemma format_comp_ok sub comp : text_char_ok sub = true -> forallb text_ok comp = true -> text_ok (format_comp sub comp) = true.
Proof. intros S H. unfold format_comp. apply join_text_ok; [exact S|]. apply forallb_firstn, H. Qed.

Lemma loop_events_ok first last cur : forallb attr_val_ok cur = true -> evs_ok (loop_events first last cur) = true.
Proof.
  intros H. rewrite loop_events_keep. unfold evs_ok. rewrite forallb_app. rewrite forallb_repeat by reflexivity.
  cbn [andb]. rewrite forallb_map. cbn [ev_ok unopt]. change (name_ok (C08_spec.l "loop")) with true. cbn [andb].
  apply forallb_skipn, H.
Qed.

Lemma child_for_In gi i c : child_for gi i = Some c -> In c (gi_children gi).
Proof.
  unfold child_for. destruct (filter _ (gi_children gi)) as [|c0 [|? ?]] eqn:F; try discriminate.
  intros E. injection E as <-. assert (IN : In c0 [c0]) by (left; reflexivity). rewrite <- F in IN. apply filter_In in IN. tauto.
Qed.

Lemma child_events_ok gi d i comp :
  attr_val_ok (unopt (gi_id gi)) = true ->
  forallb (fun c => attr_val_ok (unopt (ci_id c)) && forallb (fun o => attr_val_ok (unopt o)) (ci_subids c)) (gi_children gi) = true ->
  forallb text_ok comp = true -> text_char_ok (subele_term d) = true ->
  evs_ok (child_events gi d i comp) = true.
Proof.
  intros G C T S. unfold child_events. destruct (child_for gi i) as [c|] eqn:CF; [|reflexivity].
  destruct (not_used c || comp_empty comp); [reflexivity|].
  rewrite forallb_forall in C. specialize (C c (child_for_In _ _ _ CF)). apply andb_true_iff in C as [C1 C2].
  destruct (ci_kind c).
  - cbn [evs_ok forallb ev_ok]. change (name_ok (C08_spec.l "ele")) with true. rewrite C1, (format_comp_ok _ _ S T). reflexivity.
  - cbn [evs_ok forallb ev_ok]. change (name_ok (C08_spec.l "comp")) with true. rewrite G. cbn [andb].
    rewrite forallb_app. cbn [forallb ev_ok]. change (name_ok (C08_spec.l "comp")) with true. rewrite andb_true_r.
    unfold sub_events. rewrite forallb_map. apply forallb_forall. intros [j v] IN. cbn [ev_ok fst snd].
    change (name_ok (C08_spec.l "subele")) with true. cbn [andb].
    apply in_combine_r in IN. rewrite forallb_forall in T. rewrite (T v IN), andb_true_r.
    destruct (nth_error (ci_subids c) j) as [o|] eqn:N; [|reflexivity].
    rewrite forallb_forall in C2. exact (C2 o (nth_error_In _ _ N)).
Qed.

Lemma seg_events_ok x : seg_xml_ok x = true -> evs_ok (seg_events (lc_gi x) (lc_d x) (lc_seg x)) = true.
Proof.
  unfold seg_xml_ok. intros H. apply andb_true_iff in H as [H S]. apply andb_true_iff in H as [H T].
  apply andb_true_iff in H as [H C]. apply andb_true_iff in H as [G P].
  unfold seg_events. cbn [evs_ok forallb ev_ok]. change (name_ok (C08_spec.l "seg")) with true. rewrite G. cbn [andb].
  rewrite forallb_app. cbn [forallb ev_ok]. change (name_ok (C08_spec.l "seg")) with true. rewrite andb_true_r.
  apply forallb_concat. rewrite forallb_map. apply forallb_forall. intros [i comp] IN. cbn [fst snd].
  apply in_combine_r in IN. rewrite forallb_forall in T. exact (child_events_ok _ _ i comp G C (T comp IN) S).
Qed.

Lemma seg_path_ok x : seg_xml_ok x = true -> forallb attr_val_ok (lc_path x) = true.
Proof.
  unfold seg_xml_ok. intros H. apply andb_true_iff in H as [H _]. apply andb_true_iff in H as [H _].
  apply andb_true_iff in H as [H _]. apply andb_true_iff in H as [_ P]. exact P.
Qed.

Lemma body_events_ok : forall xs last, doc_xml_ok xs = true -> evs_ok (fst (body_events last xs)) = true.
Proof.
  induction xs as [|x xs IH]; intros last H; [reflexivity|]. cbn [doc_xml_ok forallb] in H. apply andb_true_iff in H as [H1 H2].
  cbn [body_events]. specialize (IH (lc_path x) H2). destruct (body_events (lc_path x) xs) as [more fin]. cbn [fst] in *.
  unfold evs_ok in *. rewrite !forallb_app, IH. fold (evs_ok (loop_events (gi_first (lc_gi x)) last (lc_path x))).
  fold (evs_ok (seg_events (lc_gi x) (lc_d x) (lc_seg x))).
  rewrite (loop_events_ok _ _ _ (seg_path_ok x H1)), (seg_events_ok x H1). reflexivity.
Qed.

Theorem doc_events_ok xs : doc_xml_ok xs = true -> evs_ok (doc_events xs) = true.
Proof.
  intros H. unfold doc_events. pose proof (body_events_ok xs [] H) as B. destruct (body_events [] xs) as [body fin]. cbn [fst] in B.
  unfold evs_ok in *. cbn [forallb ev_ok]. rewrite !forallb_app, B, map_const, forallb_repeat by reflexivity. reflexivity.
Qed.

(* ================================================================== *)
(* 4. the document round trip                                          *)

Lemma w_iter_map {A} (f : A -> xml) (L : list A) : forall w,
  w_iter write_back (map f L) w = w_iter (fun x => write_back (f x)) L w.
Proof. induction L as [|x L IH]; intros w; [reflexivity|]. cbn [map w_iter]. apply wb_ext. intros _ w'. apply IH. Qed.

(* C, structural part: the text written for xs is read back as the tree of its events; the seg elements of that tree
   are, in order and up to the text of container elements (line feed + indentation, which get_segment never
   reads), the element trees seg_tree of the source segments; convert performs exactly one get_segment +
   X12Writer.Write per source segment, in order, on those trees.  No hypothesis on the segments' contents beyond
   what XML can carry (doc_xml_ok) — ISA included. *)
Theorem document_read_back xs st chunks :
  inputs_ok [] xs = true -> inputs_fit xs = true -> doc_xml_ok xs = true -> doc_shallow xs = true ->
  run_model xs x_empty = (st, chunks, Ok tt) ->
  exists doc,
    xml_read (concat chunks) = Some doc /\
    tree_of (doc_events xs) = Some doc /\
    map drop_ctext (seg_nodes doc) = map seg_tree_of xs /\
    forall w, convert doc w = w_iter (fun x => write_back (seg_tree_of x)) xs w.
Proof.
  intros IO IF XO DS RUN. destruct (doc_tree xs DS) as (doc & T & SN). exists doc.
  split; [|split; [exact T|split; [exact SN|]]].
  - rewrite (xml_text_refines_corrected xs st chunks IO IF RUN). apply xml_read_serialised; [apply doc_events_ok, XO|exact T].
  - intros w. rewrite convert_segs, <- w_iter_drop, SN. apply w_iter_map.
Qed.

(* the per-segment premises of C08_segment_tree_roundtrip *)
Definition seg_back_ok (x : located) : bool :=
  node_fits (lc_gi x) (lc_seg x) && xd_free (lc_seg x) && ids_parse (lc_gi x) (lc_seg x).

(* what the XML can carry of a segment, as get_segment rebuilds it: same text under the delimiters ~ * : once the
   not-used elements are blanked (format_seg drops trailing empty elements and components) *)
Definition carried (x : located) (s' : seg) : Prop :=
  format_seg XD s' = format_seg XD (blank_unused (lc_gi x) (lc_seg x)).

Lemma wb_lift_ok {S A B} (a : A) (k : A -> W S B) w : w_bind (w_lift (Ok a)) k w = k a w.
Proof. unfold w_bind, w_lift. destruct (k a w) as [[s2 o2] r]. reflexivity. Qed.

Lemma segs_back : forall xs, forallb seg_back_ok xs = true ->
  exists segs', Forall2 carried xs segs' /\ forall w, w_iter (fun x => write_back (seg_tree_of x)) xs w = w_iter do_write segs' w.
Proof.
  induction xs as [|x xs IH]; intros H; [exists []; split; [constructor|reflexivity]|].
  cbn [forallb] in H. apply andb_true_iff in H as [H1 H2]. destruct (IH H2) as (segs' & F & E).
  unfold seg_back_ok in H1. apply andb_true_iff in H1 as [H1 IP]. apply andb_true_iff in H1 as [NF XF].
  destruct (seg_tree_roundtrip_corrected (lc_gi x) (lc_d x) (lc_seg x) NF XF IP) as (s' & G & FS).
  exists (s' :: segs'). split; [constructor; assumption|]. intros w. cbn [w_iter].
  rewrite (wb_ext _ _ (fun _ => w_iter do_write segs') w (fun _ w' => E w')).
  unfold w_bind at 1. unfold write_back, seg_tree_of. rewrite G, wb_lift_ok. reflexivity.
Qed.

(* C: X12 -> XML text -> (xml_read) -> tree -> (convert) -> X12Writer.Write of every source segment, in order,
   each carried as stated *)
Theorem document_roundtrip xs st chunks :
  inputs_ok [] xs = true -> inputs_fit xs = true -> doc_xml_ok xs = true -> doc_shallow xs = true ->
  forallb seg_back_ok xs = true ->
  run_model xs x_empty = (st, chunks, Ok tt) ->
  exists doc segs',
    xml_read (concat chunks) = Some doc /\
    Forall2 carried xs segs' /\
    forall w, convert doc w = w_iter do_write segs' w.
Proof.
  intros IO IF XO DS SB RUN. destruct (document_read_back xs st chunks IO IF XO DS RUN) as (doc & R & _ & _ & C).
  destruct (segs_back xs SB) as (segs' & F & E). exists doc, segs'. split; [exact R|split; [exact F|]].
  intros w. rewrite C. apply E.
Qed.

(* ================================================================== *)
(* 5. through X12Writer: the text convert() writes                     *)

(* the part of the writer state that formats a segment *)
Definition same_fmt (a b : Writer.wstate) : Prop := Writer.wd a = Writer.wd b /\ Writer.w_eol a = Writer.w_eol b.

Lemma close_loop_fmt w k id : same_fmt (fst (Writer.close_loop w k id)) w.
Proof. unfold Writer.close_loop. repeat destruct (str_eqb _ _); split; reflexivity. Qed.

Lemma pop_to_loop_fmt : forall lp w kind, same_fmt (fst (Writer.pop_to_loop w lp kind)) w.
Proof.
  induction lp as [|[k id] lp IH]; intros w kind; [split; reflexivity|]. cbn [Writer.pop_to_loop].
  pose proof (close_loop_fmt (Writer.with_x w (Reader.with_loops (Writer.wx w) lp)) k id) as C.
  destruct (Writer.close_loop (Writer.with_x w (Reader.with_loops (Writer.wx w) lp)) k id) as [w2 out]. cbn [fst] in C.
  destruct (str_eqb k kind); [exact C|].
  pose proof (IH w2 kind) as P. destruct (Writer.pop_to_loop w2 lp kind) as [w3 out']. cbn [fst] in *.
  destruct C as [C1 C2], P as [P1 P2]. cbn [Writer.with_x Writer.wd Writer.w_eol] in C1, C2. split; congruence.
Qed.

Lemma w_write_segs_fmt w ds sg w' es : Writer.w_write_segs w ds sg = Ok (w', es) -> same_fmt w' w.
Proof.
  unfold Writer.w_write_segs. destruct (Reader.base_step ds (Writer.wx w) sg) as [r|e]; [|discriminate]. cbn [bind].
  set (w1 := Writer.with_x w (fst r)).
  assert (P : forall kind, same_fmt (fst (Writer.pop_to w1 kind)) w) by (intros kind; apply (pop_to_loop_fmt _ w1)).
  destruct (Reader.sid_is sg "IEA"); [intros E; injection E as E; match type of E with ?p = _ => match p with Writer.pop_to _ ?kd => pose proof (P kd) as Q end end; rewrite E in Q; exact Q|].
  destruct (Reader.sid_is sg "GE"); [intros E; injection E as E; match type of E with ?p = _ => match p with Writer.pop_to _ ?kd => pose proof (P kd) as Q end end; rewrite E in Q; exact Q|].
  destruct (Reader.sid_is sg "SE"); [intros E; injection E as E; match type of E with ?p = _ => match p with Writer.pop_to _ ?kd => pose proof (P kd) as Q end end; rewrite E in Q; exact Q|].
  destruct (_ && _).
  - destruct (set_ix ds sg _ _); [|discriminate]. cbn [bind]. intros E. injection E as <- _. split; reflexivity.
  - destruct (Reader.sid_is sg "ISA").
    + destruct (if opt_eqb str_eqb _ _ then _ else _); [|discriminate]. cbn [bind].
      destruct (set_ix ds _ _ _); [|discriminate]. cbn [bind]. intros E. injection E as <- _. split; reflexivity.
    + intros E. injection E as <- _. split; reflexivity.
Qed.

Lemma emit_fmt a b sg : same_fmt a b -> Writer.emit a sg = Writer.emit b sg.
Proof. intros [A B]. unfold Writer.emit. rewrite A, B. reflexivity. Qed.

(* when the Write history succeeds (Writer.w_run_segs: the segments actually written, trailers regenerated, ISA11 /
   ISA16 set — characterised by property C11), convert writes exactly those segments, each formatted with ~ * :
   and followed by a line feed *)
Lemma writes_as_history : forall segs w w' es, Writer.w_run_segs w XD segs = Ok (w', es) ->
  w_iter do_write segs w = (w', map (Writer.emit w) es, Ok tt).
Proof.
  induction segs as [|sg segs IH]; intros w w' es H.
  - cbn [Writer.w_run_segs] in H. injection H as <- <-. reflexivity.
  - cbn [Writer.w_run_segs] in H. destruct (Writer.w_write_segs w XD sg) as [[w1 e1]|e] eqn:W1; [|discriminate H]. cbn [bind fst snd] in H.
    destruct (Writer.w_run_segs w1 XD segs) as [[w2 e2]|e] eqn:W2; [|discriminate H]. cbn [bind fst snd] in H.
    injection H as <- <-. cbn [w_iter]. unfold w_bind, do_write at 1, Writer.w_write. rewrite W1. cbn [bind fst snd].
    rewrite (IH w1 w2 e2 W2). rewrite map_app. f_equal. f_equal. f_equal. apply map_ext. intros a.
    apply emit_fmt. exact (w_write_segs_fmt _ _ _ _ _ W1).
Qed.

Theorem document_roundtrip_text xs st chunks :
  inputs_ok [] xs = true -> inputs_fit xs = true -> doc_xml_ok xs = true -> doc_shallow xs = true ->
  forallb seg_back_ok xs = true ->
  run_model xs x_empty = (st, chunks, Ok tt) ->
  exists doc segs',
    xml_read (concat chunks) = Some doc /\
    Forall2 carried xs segs' /\
    forall w' es, Writer.w_run_segs convert_writer XD segs' = Ok (w', es) ->
      convert doc convert_writer = (w', map (fun sg => format_seg XD sg ++ [ascii_of_nat 10]) es, Ok tt).
Proof.
  intros IO IF XO DS SB RUN. destruct (document_roundtrip xs st chunks IO IF XO DS SB RUN) as (doc & segs' & R & F & C).
  exists doc, segs'. split; [exact R|split; [exact F|]]. intros w' es H. rewrite C. apply (writes_as_history _ _ _ _ H).
Qed.

Print Assumptions convert_segs.
Print Assumptions get_segment_drop_ctext.
Print Assumptions doc_tree.
Print Assumptions doc_events_ok.
Print Assumptions document_read_back.
Print Assumptions document_roundtrip.
Print Assumptions writes_as_history.
Print Assumptions document_roundtrip_text.
