(* C06_ack.v — C06: the acknowledgement (997 / 999) a visitor writes when it completes is a complete,
   correctly counted interchange (Spec/C06_spec.v: envelope_ok).

   Proved in C06_ack997.v / C06_ack999.v (tools: C06_lemmas.v, C06_build.v):
     ack997_envelope_partial   for every handler state and clock satisfying gs06_ok / clock_ok
     ack999_envelope_partial   for every handler state, and every clock satisfying clock_ok9
   Here: the corollaries for a real clock (strftime gives digits), and the counterexamples showing that the
   unrestricted statements are false. *)
From Coq Require Import String Lia.
From PX.Lib Require Import Base PyStr PyInt.
From PX.Model Require Import Show Path Segment Reader Writer Errh Ack997 Ack999.
From PX.Spec Require Import C06_spec.
From PX.Proofs Require Import C01_roundtrip C11_writer C06_lemmas C06_ack997 C06_ack999.

Local Notation l := list_ascii_of_string.

(* ------------------------------------------------------------------ *)
(* a real clock: time.strftime('%y%m%d') and time.strftime('%H%M') are digits *)
(* ------------------------------------------------------------------ *)
Definition clock_digits (ck : clock) : bool := all_digits (ck_ymd6 ck ++ ck_hm ck).

Lemma skipn_digits n s : all_digits s = true -> all_digits (skipn n s) = true.
Proof.
  unfold all_digits. rewrite !forallb_forall. intros H x Hx. apply H.
  rewrite <- (firstn_skipn n s). apply in_or_app. right. exact Hx.
Qed.

Lemma digits_tail_ok s : all_digits s = true -> tail_ok s = true /\ echo s = s.
Proof.
  intros A. destruct (digits_free3 _ A) as (F1 & F2 & F3). split; [|apply echo_free; exact F3].
  unfold tail_ok. rewrite (ends_with_notin _ _ F1). destruct (mem_ascii "*"%char s) eqn:M; [|reflexivity].
  apply mem_ascii_In in M. contradiction.
Qed.

Lemma clock_digits_ok ck : clock_digits ck = true -> clock_ok ck = true /\ clock_ok9 ck = true.
Proof.
  intros H. unfold clock_ok, clock_ok9. destruct (digits_tail_ok (ctl_of ck) (skipn_digits 1 _ H)) as [A B].
  rewrite B. auto.
Qed.

Theorem ack997_envelope_real_clock ck h h' lines :
  clock_digits ck = true -> gs06_ok h = true ->
  render_997 ck h = (h', lines, None) ->
  exists segs, lines = map line_997 segs /\ envelope_ok segs = true.
Proof. intros C. apply ack997_envelope_partial. apply (clock_digits_ok ck C). Qed.

(* the 999 needs nothing of the handler state *)
Theorem ack999_envelope_real_clock ck h h' lines :
  clock_digits ck = true ->
  render_999 ck h = (h', lines, None) ->
  exists segs, lines = map line_999 segs /\ envelope_ok segs = true.
Proof. intros C. apply ack999_envelope_partial. apply (clock_digits_ok ck C). Qed.

(* ------------------------------------------------------------------ *)
(* the unrestricted statements are false                               *)
(* ------------------------------------------------------------------ *)
Local Notation LF := (ascii_of_nat 10).

Lemma has_sid_E s id : has_sid s id = true -> sid s = Some (l id).
Proof. unfold has_sid. destruct (sid s) as [i|]; cbn [opt_eqb]; [|discriminate]. intros H. apply str_eqb_eq in H. subst i. reflexivity. Qed.

Lemma line997_T s id : has_sid s id = true -> str_eqb (l id) (l "ISA") = false ->
  line_997 s = l id ++ "*"%char :: Tof s ++ ["~"%char; LF].
Proof.
  intros H N. apply has_sid_E in H. unfold line_997. rewrite format_seg_T, H. cbn [opt_eqb show_sid]. rewrite N.
  rewrite <- app_assoc. cbn [app]. rewrite <- app_assoc. reflexivity.
Qed.
Lemma line999_T s id : has_sid s id = true -> line_999 s = l id ++ "*"%char :: Tof s ++ ["~"%char; LF].
Proof.
  intros H. apply has_sid_E in H. unfold line_999, emit. cbn [wd w_eol w_init]. rewrite format_seg_T, H. cbn [show_sid].
  rewrite <- app_assoc. cbn [app]. rewrite <- app_assoc. reflexivity.
Qed.

(* a handler state as an X12 file with the delimiters ! | > leaves it: one interchange, one group whose
   control number (GS06) is "1~", no transaction set *)
Fixpoint run_events (ms : list (SE errh unit)) (h : errh) : errh :=
  match ms with [] => h | m :: r => run_events r (fst (m h)) end.
Definition D2 : delims := {| seg_term := "!"%char; ele_term := "|"%char; subele_term := ">"%char |}.
Definition xs2 (t : string) : xseg := {| xs_d := D2; xs_s := parse_seg D2 (l t) |}.
Definition src0 : src_info :=
  {| src_isa_id := Some (l "000000001"); src_gs_id := Some (l "1"); src_st_id := None; src_line := Some 1%Z; src_st_count := 0 |}.
Definition events_with (gs06 : string) : list (SE errh unit) :=
  [add_isa_loop (xs2 "ISA|00|          |00|          |ZZ|SENDER         |ZZ|RECEIVER       |250101|1200|^|00501|000000001|0|P|>") src0;
   add_gs_loop (xs2 ("GS|HC|S|R|20250101|1200|" ++ gs06 ++ "|X|005010X222A1")) src0].
Definition cex_h : errh := run_events (events_with "1~") errh_init.
Definition cex_ck : clock :=
  {| ck_ymd6 := l "260101"; ck_hm := l "1200"; ck_ymd8 := l "20260101"; ck_hms := l "120000"; ck_rand := 12345678 |}.
Definition cex_lines : list str :=
  map l ["ISA*00*          *00*          *ZZ*RECEIVER       *ZZ*SENDER         *260101*1200*^*00501*601011200*0*P*:~
"; "GS*FA*R*S*20260101*120000*1~*X*004010~
"; "ST*997*0001~
"; "AK1*HC*1~
"; "AK9*R*0*0*0~
"; "SE*4*0001~
"; "GE*1*1~
"; "IEA*1*601011200~
"]%string.

Example cex997_run : clock_digits cex_ck = true /\ gs06_ok cex_h = false /\
  exists h', render_997 cex_ck cex_h = (h', cex_lines, None).
Proof. split; [reflexivity|]. split; [vm_compute; reflexivity|]. eexists. vm_compute. reflexivity. Qed.

Lemma Tof_from (p T L : str) c a b : p ++ c :: T ++ [a; b] = L -> T = removelast (removelast (skipn (S (length p)) L)).
Proof.
  intros <-. replace (skipn (S (length p)) (p ++ c :: T ++ [a; b])) with (T ++ [a; b]); [rewrite rl2; reflexivity|].
  induction p as [|x p IH]; [reflexivity|exact IH].
Qed.
Ltac Tof_of H :=
  apply Tof_from in H;
  match type of H with _ = ?r => let v := eval vm_compute in r in change r with v in H end.

(* no list of segments at all has these lines and passes the recount: the GE repeats "1", the GS says "1~" *)
Example cex997_no_witness : forall segs, cex_lines = map line_997 segs -> envelope_ok segs = false.
Proof.
  intros segs HL. destruct (envelope_ok segs) eqn:E; [exfalso|reflexivity].
  apply envelope_inv in E as (isa & gs & sets & m & ge & tail & iea & -> & I1 & I2 & G1 & G2 & G3 & G4 & IE & T).
  unfold cex_lines in HL. cbn [map] in HL. injection HL as _ HG HR. rewrite map_app in HR. cbn [map] in HR.
  pose proof (line997_T gs "GS" G1 eq_refl) as LG. rewrite <- HG in LG. clear HG.
  pose proof (line997_T ge "GE" G2 eq_refl) as LE.
  assert (HE : line_997 ge = l "GE*1*1~
").
  { destruct T as [->|(ta1 & _ & ->)]; cbn [map] in HR.
    - match type of HR with ?a :: ?b :: ?c :: ?d :: ?e :: ?f :: [] = _ => change (a :: b :: c :: d :: e :: f :: []) with ([a; b; c; d] ++ [e; f]) in HR end.
      apply tail2 in HR as [HR _]. symmetry. exact HR.
    - match type of HR with ?a :: ?b :: ?c :: ?d :: ?e :: ?f :: [] = _ => change (a :: b :: c :: d :: e :: f :: []) with ([a; b; c] ++ [d; e; f]) in HR end.
      apply tail3 in HR as [HR _]. rewrite LE in HR. discriminate HR. }
  rewrite HE in LE. clear HE HR. symmetry in LE, LG.
  Tof_of LE. Tof_of LG.
  destruct (dec_digits m) as [A _]. destruct (digits_free3 _ A) as (_ & F2 & F3).
  assert (X : In (l "1") (split "*"%char (Tof gs))).
  { apply (no_echo gs ge 5 (dec m) (l "1") G3 G4 F2 F3); [apply nostar; reflexivity|discriminate|].
    exists (l "1"). split; [apply nostar; reflexivity|exact LE]. }
  rewrite LG in X. vm_compute in X. repeat (destruct X as [X|X]; [discriminate X|]). exact X.
Qed.

(* so the statement as given, for EVERY handler state, is false for the 997 — even with a real clock *)
Theorem ack997_envelope_unrestricted_false :
  ~ (forall ck h h' lines, render_997 ck h = (h', lines, None) -> exists segs, lines = map line_997 segs /\ envelope_ok segs = true).
Proof.
  intros H. destruct cex997_run as (_ & _ & h' & R). destruct (H _ _ _ _ R) as (segs & L & E).
  rewrite (cex997_no_witness segs L) in E. discriminate.
Qed.

(* ------------------------------------------------------------------ *)
(* ... and for every clock: a "clock" whose '%H%M' ends with the segment terminator.  (Not a finding about the
   Python code: strftime gives digits; the clock strings are a free parameter of the model.) *)
(* ------------------------------------------------------------------ *)
Lemma Tof_from' (p T suf L : str) c : p ++ c :: T ++ suf = L ->
  T = firstn (length L - S (length p) - length suf) (skipn (S (length p)) L).
Proof.
  intros <-. replace (skipn (S (length p)) (p ++ c :: T ++ suf)) with (T ++ suf) by (induction p as [|x p IH]; [reflexivity|exact IH]).
  rewrite app_length. cbn [length]. rewrite app_length.
  replace (length p + S (length T + length suf) - S (length p) - length suf) with (length T + 0) by lia.
  rewrite firstn_app_2. cbn [firstn]. rewrite app_nil_r. reflexivity.
Qed.
Ltac Tof_of' H :=
  apply Tof_from' in H;
  match type of H with _ = ?r => let v := eval vm_compute in r in change r with v in H end.

Definition ok_h : errh := run_events (events_with "1") errh_init.
Definition odd_ck : clock :=
  {| ck_ymd6 := l "260101"; ck_hm := l "12~"; ck_ymd8 := l "20260101"; ck_hms := l "120000"; ck_rand := 12345678 |}.
Definition odd_lines9 : list str :=
  map l ["ISA*00*          *00*          *ZZ*RECEIVER       *ZZ*SENDER         *260101*12~*^*00501*6010112~*0*P*:~
"; "GS*FA*R*S*20260101*120000*12345678*X*005010X231~
"; "ST*999*0001*005010X231~
"; "AK1*HC*1*005010X222A1~
"; "AK9*R*0*0*0~
"; "SE*4*0001~
"; "GE*1*12345678~
"; "IEA*1*6010112~
"]%string.
Definition odd_lines7 : list str :=
  map l ["ISA*00*          *00*          *ZZ*RECEIVER       *ZZ*SENDER         *260101*12~*^*00501*6010112~*0*P*:~
"; "GS*FA*R*S*20260101*120000*1*X*004010~
"; "ST*997*0001~
"; "AK1*HC*1~
"; "AK9*R*0*0*0~
"; "SE*4*0001~
"; "GE*1*1~
"; "IEA*1*6010112~
"]%string.

Example odd_clock_runs :
  clock_ok odd_ck = false /\ clock_ok9 odd_ck = false /\ gs06_ok ok_h = true /\
  (exists h', render_997 odd_ck ok_h = (h', odd_lines7, None)) /\
  (exists h', render_999 odd_ck ok_h = (h', odd_lines9, None)).
Proof.
  split; [reflexivity|]. split; [reflexivity|]. split; [vm_compute; reflexivity|].
  split; eexists; vm_compute; reflexivity.
Qed.

(* the last line belongs to the IEA *)
Lemma last_is_iea {A} (f : seg -> A) sets ge tail iea (a b c d e g : A) :
  [a; b; c; d; e; g] = map f sets ++ f ge :: map f tail ->
  (tail = [iea] \/ exists ta1 : seg, has_sid ta1 "TA1" = true /\ tail = [ta1; iea]) -> f iea = g.
Proof.
  intros H [->|(ta1 & _ & ->)]; cbn [map] in H.
  - change [a; b; c; d; e; g] with ([a; b; c; d] ++ [e; g]) in H. apply tail2 in H as [_ H]. auto.
  - change [a; b; c; d; e; g] with ([a; b; c] ++ [d; e; g]) in H. apply tail3 in H as (_ & _ & H). auto.
Qed.

Example odd_clock_999_no_witness : forall segs, odd_lines9 = map line_999 segs -> envelope_ok segs = false.
Proof.
  intros segs HL. destruct (envelope_ok segs) eqn:E; [exfalso|reflexivity].
  apply envelope_inv in E as (isa & gs & sets & m & ge & tail & iea & -> & I1 & I2 & G1 & G2 & G3 & G4 & IE & T).
  unfold odd_lines9 in HL. cbn [map] in HL. injection HL as HI _ HR. rewrite map_app in HR. cbn [map] in HR.
  pose proof (last_is_iea line_999 _ _ _ _ _ _ _ _ _ _ HR T) as LE. clear HR.
  unfold iea_ok in IE. rewrite !andb_true_iff in IE. destruct IE as ((E1 & E2) & E3).
  rewrite (line999_T iea "IEA" E1) in LE. rewrite (line999_T isa "ISA" I1) in HI. symmetry in HI.
  Tof_of LE. Tof_of HI.
  destruct (dec_digits 1) as [A _]. destruct (digits_free3 _ A) as (_ & F2 & F3).
  assert (X : In (l "6010112") (split "*"%char (Tof isa))).
  { apply (no_echo isa iea 12 (dec 1) (l "6010112") E2 E3 F2 F3); [apply nostar; reflexivity|discriminate|].
    exists (l "1"). split; [apply nostar; reflexivity|exact LE]. }
  rewrite HI in X. vm_compute in X. repeat (destruct X as [X|X]; [discriminate X|]). exact X.
Qed.

Lemma line997_isa_T s : has_sid s "ISA" = true -> line_997 s = l "ISA" ++ "*"%char :: Tof s ++ ["*"%char; ":"%char; "~"%char; LF].
Proof.
  intros H. apply has_sid_E in H. unfold line_997. rewrite format_seg_T, H. cbn [opt_eqb show_sid str_eqb list_ascii_of_string Ascii.eqb Bool.eqb andb].
  unfold but_last. cbn [app]. change ("I" :: "S" :: "A" :: "*" :: Tof s ++ ["~"])%char%list with (l "ISA*" ++ Tof s ++ ["~"%char]).
  rewrite app_assoc, removelast_last, <- !app_assoc. reflexivity.
Qed.

Example odd_clock_997_no_witness : forall segs, odd_lines7 = map line_997 segs -> envelope_ok segs = false.
Proof.
  intros segs HL. destruct (envelope_ok segs) eqn:E; [exfalso|reflexivity].
  apply envelope_inv in E as (isa & gs & sets & m & ge & tail & iea & -> & I1 & I2 & G1 & G2 & G3 & G4 & IE & T).
  unfold odd_lines7 in HL. cbn [map] in HL. injection HL as HI _ HR. rewrite map_app in HR. cbn [map] in HR.
  pose proof (last_is_iea line_997 _ _ _ _ _ _ _ _ _ _ HR T) as LE. clear HR.
  unfold iea_ok in IE. rewrite !andb_true_iff in IE. destruct IE as ((E1 & E2) & E3).
  rewrite (line997_T iea "IEA" E1 eq_refl) in LE. rewrite (line997_isa_T isa I1) in HI. symmetry in HI.
  Tof_of LE. Tof_of' HI.
  destruct (dec_digits 1) as [A _]. destruct (digits_free3 _ A) as (_ & F2 & F3).
  assert (X : In (l "6010112") (split "*"%char (Tof isa))).
  { apply (no_echo isa iea 12 (dec 1) (l "6010112") E2 E3 F2 F3); [apply nostar; reflexivity|discriminate|].
    exists (l "1"). split; [apply nostar; reflexivity|exact LE]. }
  rewrite HI in X. vm_compute in X. repeat (destruct X as [X|X]; [discriminate X|]). exact X.
Qed.

Theorem ack999_envelope_unrestricted_false :
  ~ (forall ck h h' lines, render_999 ck h = (h', lines, None) -> exists segs, lines = map line_999 segs /\ envelope_ok segs = true).
Proof.
  intros H. destruct odd_clock_runs as (_ & _ & _ & _ & h' & R). destruct (H _ _ _ _ R) as (segs & L & E).
  rewrite (odd_clock_999_no_witness segs L) in E. discriminate.
Qed.

(* ------------------------------------------------------------------ *)
(* how weak is gs06_ok?  It is what makes the visitor's OWN GS and GE segments agree.  When the echoed GS06
   contains the element separator the statement — being existential over abstract segments — can still be
   satisfied, by reading the written GS line as a GS with nine elements (envelope_ok does not count them). *)
(* ------------------------------------------------------------------ *)
Definition star_h : errh := run_events (events_with "1*2") errh_init.
Definition reread (line : str) : seg :=
  let s := parse_seg D (but_last line) in
  if has_sid s "ISA" then {| sid := sid s; els := removelast (els s) ++ [[[]]] |} else s.

Example star_in_gs06 :
  gs06_ok star_h = false /\
  exists h' lines, render_997 cex_ck star_h = (h', lines, None) /\
    nth 1 lines [] = l "GS*FA*R*S*20260101*120000*1*2*X*004010~
" /\ nth 6 lines [] = l "GE*1*1*2~
" /\
    lines = map line_997 (map reread lines) /\ envelope_ok (map reread lines) = true /\
    length (els (nth 1 (map reread lines) {| sid := None; els := [] |})) = 9.
Proof. split; [vm_compute; reflexivity|]. eexists _, _. split; [vm_compute; reflexivity|]. vm_compute. repeat split. Qed.

(* a trailing component separator in GS06 is harmless: it is dropped from the GS and the GE alike *)
Example colon_in_gs06 : gs06_ok (run_events (events_with "1:") errh_init) = true.
Proof. vm_compute. reflexivity. Qed.

(* ------------------------------------------------------------------ *)
(* outside envelope_ok's reach (it counts the elements of the abstract ISA segment, not of its text): when the
   acknowledged ISA has an empty ISA15 the 997's ISA LINE has only 15 elements — Segment.format() drops the
   trailing empty element before _write() replaces the terminator by "*:~".  The 999 (X12Writer) keeps it. *)
(* ------------------------------------------------------------------ *)
Definition isa15_h : errh := run_events
  [add_isa_loop (xs2 "ISA|00|          |00|          |ZZ|SENDER         |ZZ|RECEIVER       |250101|1200|^|00501|000000001|0||>") src0;
   add_gs_loop (xs2 "GS|HC|S|R|20250101|1200|1|X|005010X222A1") src0] errh_init.

Example isa15_empty_short_line :
  (exists h' rest, render_997 cex_ck isa15_h =
     (h', l "ISA*00*          *00*          *ZZ*RECEIVER       *ZZ*SENDER         *260101*1200*^*00501*601011200*0*:~
" :: rest, None)) /\
  (exists h' rest, render_999 cex_ck isa15_h =
     (h', l "ISA*00*          *00*          *ZZ*RECEIVER       *ZZ*SENDER         *260101*1200*^*00501*601011200*0**:~
" :: rest, None)).
Proof. split; eexists _, _; vm_compute; reflexivity. Qed.

Print Assumptions ack997_envelope_partial.
Print Assumptions ack999_envelope_partial.
Print Assumptions ack997_envelope_real_clock.
Print Assumptions ack999_envelope_real_clock.
Print Assumptions cex997_run.
Print Assumptions cex997_no_witness.
Print Assumptions ack997_envelope_unrestricted_false.
Print Assumptions odd_clock_runs.
Print Assumptions odd_clock_997_no_witness.
Print Assumptions odd_clock_999_no_witness.
Print Assumptions ack999_envelope_unrestricted_false.
Print Assumptions star_in_gs06.
