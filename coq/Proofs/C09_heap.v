(* C09_heap.v — the store of the context reader seen as trees.
   1. lists: set_nth, insert_at, subsequences
   2. the store only grows: `hle` (every children list stays a subsequence of its later value), so a
      store whose children lists are in allocation order had them in allocation order all along
   3. abstract trees `T` represented in a store (`repr`), and iterate_segments computed on them
   4. an open tree as a stack of frames along its rightmost path (`ZInv`) and what closing a frame,
      hanging a new node under the deepest frame, and touching a leaf do to it *)
From Coq Require Import String List ZArith Lia Sorted Permutation.
From PX.Lib Require Import Base PyStr.
From PX.Model Require Import Path Segment MapLoad MapTree Walker Context.
From PX.Spec Require Import C09_spec.
Import ListNotations.

(* ------------------------------------------------------------------ *)
(* 1. lists *)

Lemma set_nth_length {A} (xs : list A) n v : length (set_nth xs n v) = length xs.
Proof. revert n; induction xs as [|a xs IH]; intros [|n]; simpl; auto. Qed.

Lemma nth_set_nth_eq {A} (xs : list A) n v : n < length xs -> nth_error (set_nth xs n v) n = Some v.
Proof. revert n; induction xs as [|a xs IH]; intros [|n] H; simpl in *; try lia; auto. apply IH; lia. Qed.

Lemma nth_set_nth_ne {A} (xs : list A) n m v : n <> m -> nth_error (set_nth xs n v) m = nth_error xs m.
Proof.
  revert n m; induction xs as [|a xs IH]; intros [|n] [|m] H; simpl; auto; try congruence.
Qed.

Lemma set_nth_same {A} (xs : list A) n v : nth_error xs n = Some v -> set_nth xs n v = xs.
Proof.
  revert n; induction xs as [|a xs IH]; intros [|n] H; simpl in *; try discriminate.
  - congruence.
  - f_equal. auto.
Qed.

Lemma nth_app_new {A} (xs : list A) v : nth_error (xs ++ [v]) (length xs) = Some v.
Proof. rewrite nth_error_app2 by lia. rewrite Nat.sub_diag. reflexivity. Qed.

Lemma nth_app_old {A} (xs : list A) v o x : nth_error xs o = Some x -> nth_error (xs ++ [v]) o = Some x.
Proof.
  intros H. rewrite nth_error_app1; auto. apply nth_error_Some. congruence.
Qed.

Lemma nth_lt {A} (xs : list A) o x : nth_error xs o = Some x -> o < length xs.
Proof. intros H. apply nth_error_Some. congruence. Qed.

Inductive subl {A} : list A -> list A -> Prop :=
| subl_nil : subl [] []
| subl_skip l1 l2 a : subl l1 l2 -> subl l1 (a :: l2)
| subl_cons l1 l2 a : subl l1 l2 -> subl (a :: l1) (a :: l2).

Lemma subl_refl {A} (l : list A) : subl l l.
Proof. induction l; [apply subl_nil | apply subl_cons; auto]. Qed.

Lemma subl_nil_l {A} (l : list A) : subl [] l.
Proof. induction l; [apply subl_nil | apply subl_skip; auto]. Qed.

Lemma subl_trans {A} (a b c : list A) : subl a b -> subl b c -> subl a c.
Proof.
  intros H1 H2. revert a H1. induction H2; intros x H1.
  - exact H1.
  - apply subl_skip. auto.
  - inversion H1; subst.
    + apply subl_skip. auto.
    + apply subl_cons. auto.
Qed.

Lemma subl_insert_at {A} (l : list A) i v : subl l (insert_at l i v).
Proof.
  revert i; induction l as [|a l IH]; intros [|i]; simpl.
  - apply subl_skip. apply subl_nil.
  - apply subl_skip. apply subl_nil.
  - apply subl_skip. apply subl_refl.
  - apply subl_cons. apply IH.
Qed.

Lemma subl_snoc {A} (l : list A) v : subl l (l ++ [v]).
Proof. induction l; simpl; [apply subl_skip; apply subl_nil | apply subl_cons; auto]. Qed.

Lemma subl_Forall {A} (P : A -> Prop) l1 l2 : subl l1 l2 -> Forall P l2 -> Forall P l1.
Proof.
  induction 1; intros F; auto; inversion F; subst; auto.
Qed.

Lemma subl_sorted l1 l2 : subl l1 l2 -> StronglySorted lt l2 -> StronglySorted lt l1.
Proof.
  induction 1; intros S; auto.
  - inversion S; subst. auto.
  - inversion S; subst. constructor; auto. eapply subl_Forall; eauto.
Qed.

(* a fresh (larger) id put into a list that stays sorted was put at its end *)
Lemma insert_at_sorted_end cs i n :
  Forall (fun c => c < n) cs -> StronglySorted lt (insert_at cs i n) -> insert_at cs i n = cs ++ [n].
Proof.
  revert i; induction cs as [|c cs IH]; intros [|i] F S; simpl in *; auto.
  - inversion S; subst. inversion F; subst. inversion H2; subst. lia.
  - inversion S; subst. inversion F; subst. f_equal. auto.
Qed.

Lemma Forall_set_nth {A} (P : A -> Prop) xs n v : Forall P xs -> P v -> Forall P (set_nth xs n v).
Proof.
  revert n; induction xs as [|a xs IH]; intros [|n] F Pv; simpl; auto; inversion F; subst; constructor; auto.
Qed.

Lemma Forall2_rev {A B} (P : A -> B -> Prop) xs ys : Forall2 P xs ys -> Forall2 P (rev xs) (rev ys).
Proof.
  induction 1; simpl; [constructor|]. apply Forall2_app; auto.
Qed.

(* ------------------------------------------------------------------ *)
(* 2. the store only grows *)

Definition all_live (h : heap) : Prop := Forall (fun x => o_live x = true) h.

Definition hle (h h' : heap) : Prop :=
  forall o x, nth_error h o = Some x -> exists x', nth_error h' o = Some x' /\ subl (o_children x) (o_children x').

Lemma hle_refl h : hle h h.
Proof. intros o x H. exists x. split; auto. apply subl_refl. Qed.

Lemma hle_trans a b c : hle a b -> hle b c -> hle a c.
Proof.
  intros H1 H2 o x E. destruct (H1 o x E) as (y & Ey & S1). destruct (H2 o y Ey) as (z & Ez & S2).
  exists z. split; auto. eapply subl_trans; eauto.
Qed.

Lemma hle_sorted h h' : hle h h' -> children_in_allocation_order h' -> children_in_allocation_order h.
Proof.
  intros L S. apply Forall_forall. intros x I. apply In_nth_error in I. destruct I as [o E].
  destruct (L o x E) as (x' & E' & Sub). eapply subl_sorted; eauto.
  unfold children_in_allocation_order in S. rewrite Forall_forall in S. apply S. eapply nth_error_In; eauto.
Qed.

Lemma sorted_at h o x : children_in_allocation_order h -> nth_error h o = Some x -> StronglySorted lt (o_children x).
Proof.
  intros S E. unfold children_in_allocation_order in S. rewrite Forall_forall in S. apply S. eapply nth_error_In; eauto.
Qed.

Definition Hmono {A} (m : H A) : Prop :=
  forall h h' r, m h = (h', r) -> all_live h -> all_live h' /\ hle h h'.

Lemma Hmono_ret {A} (a : A) : Hmono (h_ret a).
Proof. intros h h' r E L. injection E as <- _. split; auto. apply hle_refl. Qed.
Lemma Hmono_lift {A} (a : result A) : Hmono (h_lift a).
Proof. intros h h' r E L. injection E as <- _. split; auto. apply hle_refl. Qed.
Lemma Hmono_raise {A} e : Hmono (@h_raise A e).
Proof. intros h h' r E L. injection E as <- _. split; auto. apply hle_refl. Qed.
Lemma Hmono_read {A} (f : heap -> result A) : Hmono (h_read f).
Proof. intros h h' r E L. injection E as <- _. split; auto. apply hle_refl. Qed.
Lemma Hmono_obj o : Hmono (h_obj o).
Proof. apply Hmono_read. Qed.

Lemma Hmono_bind {A B} (m : H A) (f : A -> H B) : Hmono m -> (forall a, Hmono (f a)) -> Hmono (h_bind m f).
Proof.
  intros Hm Hf h h' r E L. unfold h_bind in E. destruct (m h) as [h1 [a|e]] eqn:Em.
  - destruct (Hm _ _ _ Em L) as [L1 S1]. destruct (Hf a _ _ _ E L1) as [L2 S2]. split; auto. eapply hle_trans; eauto.
  - injection E as <- _. eapply Hm; eauto.
Qed.

Lemma Hmono_new x : o_live x = true -> Hmono (h_new x).
Proof.
  intros Lx h h' r E L. injection E as <- _. split.
  - apply Forall_app. split; auto.
  - intros o y Ey. exists y. split; [apply nth_app_old; auto | apply subl_refl].
Qed.

(* writing an object whose children extend those of the one it replaces *)
Lemma set_nth_mono h o x y :
  all_live h -> nth_error h o = Some x -> o_live y = true -> subl (o_children x) (o_children y) ->
  all_live (set_nth h o y) /\ hle h (set_nth h o y).
Proof.
  intros L E Ly S. split; [apply Forall_set_nth; auto|].
  intros p z Ez. destruct (Nat.eq_dec o p) as [<-|N].
  - exists y. split; [apply nth_set_nth_eq; eapply nth_lt; eauto|]. congruence.
  - exists z. split; [rewrite nth_set_nth_ne; auto | apply subl_refl].
Qed.

Lemma Hmono_mod o f :
  (forall x, o_live x = true -> o_live (f x) = true) -> (forall x, subl (o_children x) (o_children (f x))) -> Hmono (h_mod o f).
Proof.
  intros Fl Fc h h' r E L. unfold h_mod, h_bind, h_obj, h_read, h_get in E.
  destruct (nth_error h o) as [x|] eqn:Ex.
  - unfold h_put in E. injection E as <- _. apply set_nth_mono with (x := x); auto.
    apply Fl. unfold all_live in L. rewrite Forall_forall in L. apply L. eapply nth_error_In; eauto.
  - injection E as <- _. split; auto. apply hle_refl.
Qed.

Lemma live_of_all_live h cs kids : all_live h -> live_of h cs = Ok kids -> map fst kids = cs.
Proof.
  intros L. revert kids. induction cs as [|c cs IH]; intros kids E; simpl in E.
  - injection E as <-. reflexivity.
  - unfold h_get in E. destruct (nth_error h c) as [x|] eqn:Ex; simpl in E; [|discriminate].
    destruct (live_of h cs) as [more|] eqn:Em; simpl in E; [|discriminate].
    assert (o_live x = true) as Lx.
    { unfold all_live in L. rewrite Forall_forall in L. apply L. eapply nth_error_In; eauto. }
    rewrite Lx in E. injection E as <-. simpl. f_equal. auto.
Qed.

Lemma upd_children_same x : upd_children x (o_children x) = x.
Proof. destruct x; reflexivity. Qed.

(* _cleanup on a store without deleted nodes changes nothing *)
Lemma cleanup_live o h h' r : all_live h -> cleanup o h = (h', r) -> h' = h.
Proof.
  intros L E. unfold cleanup, h_bind, h_obj, h_read, h_get in E.
  destruct (nth_error h o) as [x|] eqn:Ex; [|injection E as <- _; reflexivity].
  destruct (live_of h (o_children x)) as [kids|] eqn:Ek; [|injection E as <- _; reflexivity].
  unfold h_put in E. injection E as <- _.
  rewrite (live_of_all_live _ _ _ L Ek), upd_children_same. apply set_nth_same. exact Ex.
Qed.

Lemma get_insert_idx_live o mn h h' r : all_live h -> get_insert_idx o mn h = (h', r) -> h' = h.
Proof.
  intros L E. unfold get_insert_idx in E. unfold h_bind at 1 in E.
  destruct (cleanup o h) as [h1 [u|e]] eqn:Ec.
  - apply cleanup_live in Ec; auto. subst h1.
    unfold h_bind, h_lift, h_obj, h_read, h_ret in E.
    repeat match type of E with
           | (match ?c with Ok _ => _ | Raise _ => _ end) = _ => destruct c
           | (let (_, _) := ?c in _) = _ => destruct c
           end; injection E as <- _; reflexivity.
  - apply cleanup_live in Ec; auto. subst h1. injection E as <- _. reflexivity.
Qed.

Lemma Hmono_get_insert_idx o mn : Hmono (get_insert_idx o mn).
Proof. intros h h' r E L. apply get_insert_idx_live in E; auto. subst. split; auto. apply hle_refl. Qed.

Lemma Hmono_insert_child o i c : Hmono (insert_child o i c).
Proof.
  apply Hmono_mod; intros x; [destruct x; simpl; auto|]. destruct x; simpl. apply subl_insert_at.
Qed.

Lemma Hmono_add_loop_node o m : Hmono (add_loop_node o m).
Proof.
  unfold add_loop_node. apply Hmono_bind; [apply Hmono_new; reflexivity|]. intros n.
  apply Hmono_bind; [apply Hmono_get_insert_idx|]. intros i.
  apply Hmono_bind; [apply Hmono_insert_child|]. intros _. apply Hmono_ret.
Qed.

(* ------------------------------------------------------------------ *)
(* 3. trees in the store *)

Inductive T := TSeg (o : oid) | TLoop (o : oid) (ks : list T).

Fixpoint T_ind' (P : T -> Prop) (Hs : forall o, P (TSeg o)) (Hl : forall o ks, Forall P ks -> P (TLoop o ks)) (t : T) : P t :=
  match t with
  | TSeg o => Hs o
  | TLoop o ks => Hl o ks ((fix go (l : list T) : Forall P l :=
                              match l with [] => Forall_nil P | k :: r => Forall_cons k (T_ind' P Hs Hl k) (go r) end) ks)
  end.

Definition troot (t : T) : oid := match t with TSeg o => o | TLoop o _ => o end.
Fixpoint toids (t : T) : list oid := match t with TSeg o => [o] | TLoop o ks => o :: flat_map toids ks end.
Fixpoint tleaves (t : T) : list oid := match t with TSeg o => [o] | TLoop _ ks => flat_map tleaves ks end.
Fixpoint tdepth (t : T) : nat :=
  match t with TSeg _ => 0 | TLoop _ ks => S (fold_right (fun k m => Nat.max (tdepth k) m) 0 ks) end.

Fixpoint repr (h : heap) (t : T) {struct t} : Prop :=
  match t with
  | TSeg o => exists x, nth_error h o = Some x /\ o_class x = CSeg /\ o_live x = true
  | TLoop o ks =>
      (exists x, nth_error h o = Some x /\ o_class x = CLoop /\ o_live x = true /\ o_children x = map troot ks) /\
      (fix all (l : list T) : Prop := match l with [] => True | k :: r => repr h k /\ all r end) ks
  end.

Lemma repr_loop h o ks :
  repr h (TLoop o ks) <->
  (exists x, nth_error h o = Some x /\ o_class x = CLoop /\ o_live x = true /\ o_children x = map troot ks) /\ Forall (repr h) ks.
Proof.
  simpl. split; intros [H1 H2]; split; auto.
  - clear H1. induction ks; [constructor|]. destruct H2. constructor; auto.
  - clear H1. induction H2; simpl; auto.
Qed.

Lemma tdepth_le t : tdepth t <= length (toids t).
Proof.
  induction t as [o|o ks IH] using T_ind'; simpl; [lia|].
  apply le_n_S. induction IH; simpl; [lia|]. rewrite app_length. lia.
Qed.

(* the same objects, as far as the tree shape goes *)
Definition osame (x y : dobj) : Prop :=
  o_class x = o_class y /\ o_live x = o_live y /\ o_children x = o_children y /\ o_parent x = o_parent y.
Definition agree (h h' : heap) (o : oid) : Prop :=
  forall x, nth_error h o = Some x -> exists y, nth_error h' o = Some y /\ osame x y.

Lemma repr_agree h h' t : (forall o, In o (toids t) -> agree h h' o) -> repr h t -> repr h' t.
Proof.
  induction t as [o|o ks IH] using T_ind'; intros A R.
  - destruct R as (x & E & C & L). destruct (A o (or_introl eq_refl) x E) as (y & Ey & S1 & S2 & _).
    exists y. repeat split; congruence.
  - apply repr_loop in R. destruct R as [(x & E & C & L & K) F]. apply repr_loop. split.
    + destruct (A o (or_introl eq_refl) x E) as (y & Ey & S1 & S2 & S3 & _). exists y. repeat split; congruence.
    + assert (forall p, In p (flat_map toids ks) -> agree h h' p) as A' by (intros p I; apply A; right; exact I).
      clear A E K. revert IH A'. induction F as [|k ks Rk F IHF]; intros IH A'; [constructor|]. inversion IH; subst. constructor.
      * apply H1; auto. intros p I. apply A'. simpl. apply in_or_app. auto.
      * apply IHF; auto. intros p I. apply A'. simpl. apply in_or_app. auto.
Qed.

(* ---- generator traces ---- *)
Lemma g_app_nil_l {A} (b : gtrace A) : g_app g_nil b = b.
Proof. destruct b. reflexivity. Qed.

Lemma g_app_assoc {A} (a b c : gtrace A) : g_app (g_app a b) c = g_app a (g_app b c).
Proof.
  destruct a as [xa [ea|]]; simpl; auto. destruct b as [xb [eb|]]; simpl; auto.
  destruct c as [xc ec]; simpl. rewrite app_assoc. reflexivity.
Qed.

Lemma g_flat_cons {A B} (f : A -> gtrace B) x r : g_flat f (x :: r) = g_app (f x) (g_flat f r).
Proof. simpl. destruct (f x) as [ys [e|]]; reflexivity. Qed.

Lemma g_flat_app {A B} (f : A -> gtrace B) a b : g_flat f (a ++ b) = g_app (g_flat f a) (g_flat f b).
Proof.
  induction a as [|x a IH].
  - simpl app. change (g_flat f []) with (@g_nil B). rewrite g_app_nil_l. reflexivity.
  - rewrite <- app_comm_cons, !g_flat_cons, IH, g_app_assoc. reflexivity.
Qed.

Lemma g_flat_single {A B} (f : A -> gtrace B) x : g_flat f [x] = f x.
Proof. simpl. destruct (f x) as [ys [e|]]; [reflexivity|]. simpl. rewrite app_nil_r. reflexivity. Qed.

Lemma g_flat_map {A B C} (f : B -> gtrace C) (g : A -> B) xs : g_flat (fun x => f (g x)) xs = g_flat f (map g xs).
Proof. induction xs as [|x xs IH]; [reflexivity|]. simpl map. rewrite !g_flat_cons, IH. reflexivity. Qed.

(* ---- iterate_segments on a represented tree ---- *)
Definition leaf_tr (h : heap) (o : oid) : gtrace seg_item := iter_segments_tr 1 h o.

Lemma iter_S f h o :
  iter_segments_tr (S f) h o =
  g_of_result (
    do x <- h_get h o;
    match o_class x with
    | CLoop => do kids <- live_of h (o_children x);
               Ok (g_flat (fun cx : oid * dobj => iter_segments_tr f h (fst cx)) kids)
    | CSeg =>
        match o_map x with
        | None => Raise AttributeError
        | Some mn =>
            do i <- mn_id mn;
            do xp <- mn_x12path mn;
            Ok (g_one {| it_id := i; it_path := xp; it_node := o; it_seg := o_seg x;
                         it_seg_count := o_seg_count x; it_cur_line := o_cur_line x |})
        end
    end).
Proof. reflexivity. Qed.

Lemma live_of_repr h ks : Forall (repr h) ks -> exists kids, live_of h (map troot ks) = Ok kids /\ map fst kids = map troot ks.
Proof.
  induction 1 as [|k ks R F IH]; simpl; [eexists; split; reflexivity|].
  destruct IH as (kids & E & M).
  assert (exists x, nth_error h (troot k) = Some x /\ o_live x = true) as (x & Ex & Lx).
  { destruct k; simpl in R.
    - destruct R as (x & ? & ? & ?). eauto.
    - destruct R as [(x & ? & ? & ? & ?) _]. eauto. }
  unfold h_get. rewrite Ex. simpl. rewrite E. simpl. rewrite Lx. eexists; split; [reflexivity|]. simpl. congruence.
Qed.

Lemma iter_T h t : forall fuel, repr h t -> tdepth t < fuel -> iter_segments_tr fuel h (troot t) = g_flat (leaf_tr h) (tleaves t).
Proof.
  induction t as [o|o ks IH] using T_ind'; intros fuel R D.
  - destruct fuel as [|f]; [lia|]. simpl tleaves. rewrite g_flat_single. unfold leaf_tr. rewrite !iter_S.
    destruct R as (x & E & C & L). unfold h_get. simpl troot. rewrite E. simpl. rewrite C. reflexivity.
  - destruct fuel as [|f]; [lia|]. apply repr_loop in R. destruct R as [(x & E & C & L & K) F].
    rewrite iter_S. simpl troot. unfold h_get. rewrite E. simpl bind. rewrite C, K.
    destruct (live_of_repr h ks F) as (kids & Ek & Mk). rewrite Ek. simpl bind. unfold g_of_result.
    rewrite (g_flat_map (iter_segments_tr f h) fst), Mk. simpl tleaves.
    simpl in D. apply Nat.succ_lt_mono in D.
    clear E K Ek Mk. induction F as [|k ks Rk F IHF].
    + reflexivity.
    + inversion IH; subst. simpl in D. simpl map. simpl flat_map. rewrite g_flat_cons, g_flat_app.
      rewrite H1 by (auto; lia). rewrite IHF by (auto; lia). reflexivity.
Qed.

(* ------------------------------------------------------------------ *)
(* 4. an open tree: frames along the rightmost path, deepest first.
      Frame (d, L): the loop object d and the trees of its children that are complete; the child after
      them is the loop of the next deeper frame. *)

Definition frame := (oid * list T)%type.

Definition foids (fs : list frame) : list oid := flat_map (fun f : frame => fst f :: flat_map toids (snd f)) fs.
Definition fleaves (fs : list frame) : list oid := flat_map (fun f : frame => flat_map tleaves (snd f)) (rev fs).
Definition froot (fs : list frame) : oid := last (map fst fs) 0.

Fixpoint fchain (h : heap) (fs : list frame) (below : list oid) : Prop :=
  match fs with
  | [] => True
  | f :: r =>
      (exists x, nth_error h (fst f) = Some x /\ o_class x = CLoop /\ o_live x = true /\
                 o_children x = map troot (snd f) ++ below /\
                 o_parent x = match r with [] => RNone | g :: _ => RObj (fst g) end) /\
      fchain h r [fst f]
  end.

Record ZInv (h : heap) (fs : list frame) : Prop := {
  z_trees : Forall (fun f : frame => Forall (repr h) (snd f)) fs;
  z_chain : fchain h fs [];
  z_nodup : NoDup (foids fs);
  z_bound : Forall (fun o => o < length h) (foids fs)
}.

Lemma fleaves_cons f r : fleaves (f :: r) = fleaves r ++ flat_map tleaves (snd f).
Proof. unfold fleaves. simpl rev. rewrite flat_map_app. simpl. rewrite app_nil_r. reflexivity. Qed.

Lemma fchain_agree h h' fs below : (forall o, In o (map fst fs) -> agree h h' o) -> fchain h fs below -> fchain h' fs below.
Proof.
  revert below. induction fs as [|f r IH]; intros below A C; [exact I|].
  destruct C as [(x & E & C1 & C2 & C3 & C4) C]. split.
  - destruct (A (fst f) (or_introl eq_refl) x E) as (y & Ey & S1 & S2 & S3 & S4). exists y. repeat split; congruence.
  - apply IH; auto. intros o I. apply A. right. exact I.
Qed.

Lemma ZInv_agree h h' fs : (forall o, In o (foids fs) -> agree h h' o) -> length h <= length h' -> ZInv h fs -> ZInv h' fs.
Proof.
  intros A Len [Z1 Z2 Z3 Z4]. split; auto.
  - clear Z2 Z3 Z4. induction Z1 as [|f r Zf Z1 IH]; constructor.
    + clear IH. assert (forall o, In o (flat_map toids (snd f)) -> agree h h' o) as A'.
      { intros o I. apply A. simpl. right. apply in_or_app. auto. }
      clear A. induction Zf; constructor.
      * eapply repr_agree; eauto. intros o I. apply A'. simpl. apply in_or_app. auto.
      * apply IHZf. intros o I. apply A'. simpl. apply in_or_app. auto.
    + apply IH. intros o I. apply A. simpl. right. apply in_or_app. auto.
  - eapply fchain_agree; eauto. intros o I. apply A. clear -I. induction fs as [|f r IH]; simpl in *; [tauto|].
    destruct I as [<-|I]; auto. right. apply in_or_app. auto.
  - eapply Forall_impl; eauto. simpl. intros; lia.
Qed.

(* closing the deepest frame: a view change, the store is not touched *)
Lemma ZInv_close h d L d' L' r : ZInv h ((d, L) :: (d', L') :: r) -> ZInv h ((d', L' ++ [TLoop d L]) :: r).
Proof.
  intros [Z1 Z2 Z3 Z4]. inversion Z1 as [|? ? Zd Z1']; subst. inversion Z1' as [|? ? Zd' Z1'']; subst.
  simpl in Zd, Zd'. destruct Z2 as [(x & E & C1 & C2 & C3 & C4) [(x' & E' & C1' & C2' & C3' & C4') Z2]]. simpl in *.
  split.
  - constructor; auto. simpl. apply Forall_app. split; auto. constructor; auto.
    apply repr_loop. split; auto. exists x. rewrite app_nil_r in C3. auto.
  - simpl. split; auto. exists x'. repeat split; auto. rewrite map_app, app_nil_r. simpl. exact C3'.
  - simpl. rewrite flat_map_app. simpl. rewrite app_nil_r.
    eapply Permutation_NoDup; [|exact Z3].
    change (Permutation ((d :: flat_map toids L) ++ (d' :: flat_map toids L') ++ foids r)
                        (d' :: (flat_map toids L' ++ d :: flat_map toids L) ++ foids r)).
    rewrite app_assoc. rewrite (Permutation_app_comm (d :: flat_map toids L)). simpl. rewrite <- app_assoc. reflexivity.
  - simpl. rewrite flat_map_app. simpl. rewrite app_nil_r.
    eapply Permutation_Forall; [|exact Z4].
    change (Permutation ((d :: flat_map toids L) ++ (d' :: flat_map toids L') ++ foids r)
                        (d' :: (flat_map toids L' ++ d :: flat_map toids L) ++ foids r)).
    rewrite app_assoc. rewrite (Permutation_app_comm (d :: flat_map toids L)). simpl. rewrite <- app_assoc. reflexivity.
Qed.

Lemma fleaves_close d L d' L' r : fleaves ((d', L' ++ [TLoop d L]) :: r) = fleaves ((d, L) :: (d', L') :: r).
Proof. rewrite !fleaves_cons. simpl. rewrite flat_map_app. simpl. rewrite app_nil_r, app_assoc. reflexivity. Qed.

Lemma froot_close d L d' L' r : froot ((d', L' ++ [TLoop d L]) :: r) = froot ((d, L) :: (d', L') :: r).
Proof. reflexivity. Qed.

(* hanging a new object n (the next id) under the deepest frame *)
Definition graft (h h' : heap) (d n : oid) (y : dobj) : Prop :=
  n = length h /\ length h' = S (length h) /\ nth_error h' n = Some y /\
  (exists x, nth_error h d = Some x /\ nth_error h' d = Some (upd_children x (o_children x ++ [n]))) /\
  (forall o, o <> d -> o < length h -> nth_error h' o = nth_error h o).

Lemma graft_agree h h' d n y o : graft h h' d n y -> o <> d -> agree h h' o.
Proof.
  intros (Hn & Hl & Hy & Hd & Ho) N x E. exists x. split; [|repeat split].
  rewrite Ho; auto. eapply nth_lt; eauto.
Qed.

Lemma ZInv_graft_common h h' d L r n y :
  ZInv h ((d, L) :: r) -> graft h h' d n y ->
  Forall (repr h') L /\ Forall (fun f : frame => Forall (repr h') (snd f)) r /\ fchain h' r [d] /\
  ~ In n (foids ((d, L) :: r)) /\ Forall (fun o => o < length h') (foids ((d, L) :: r)).
Proof.
  intros [Z1 Z2 Z3 Z4] G.
  assert (forall o, In o (flat_map toids L ++ foids r) -> agree h h' o) as A.
  { intros o I. eapply graft_agree; eauto. intros ->. simpl in Z3. inversion Z3; subst. auto. }
  inversion Z1 as [|? ? Zd Z1']; subst. simpl in Zd. destruct Z2 as [_ Z2]. simpl in Z2.
  destruct G as (Hn & Hl & Hy & Hd & Ho).
  repeat split.
  - clear -Zd A. assert (forall o, In o (flat_map toids L) -> agree h h' o) as A' by (intros; apply A; apply in_or_app; auto).
    clear A. induction Zd; constructor.
    + eapply repr_agree; eauto. intros o I. apply A'. simpl. apply in_or_app. auto.
    + apply IHZd. intros o I. apply A'. simpl. apply in_or_app. auto.
  - assert (forall o, In o (foids r) -> agree h h' o) as A' by (intros; apply A; apply in_or_app; auto).
    clear -Z1' A'. induction Z1' as [|f r Zf Z1 IH]; constructor.
    + assert (forall o, In o (flat_map toids (snd f)) -> agree h h' o) as A''.
      { intros o I. apply A'. simpl. right. apply in_or_app. auto. }
      clear -Zf A''. induction Zf; constructor.
      * eapply repr_agree; eauto. intros o I. apply A''. simpl. apply in_or_app. auto.
      * apply IHZf. intros o I. apply A''. simpl. apply in_or_app. auto.
    + apply IH. intros o I. apply A'. simpl. right. apply in_or_app. auto.
  - eapply fchain_agree; eauto. intros o I. apply A. apply in_or_app. right.
    clear -I. induction r as [|f r IH]; simpl in *; [tauto|]. destruct I as [<-|I]; auto. right. apply in_or_app. auto.
  - intros I. rewrite Forall_forall in Z4. apply Z4 in I. lia.
  - eapply Forall_impl; eauto. simpl. intros; lia.
Qed.

Lemma ZInv_graft_seg h h' d L r n y :
  ZInv h ((d, L) :: r) -> graft h h' d n y -> o_class y = CSeg -> o_live y = true ->
  ZInv h' ((d, L ++ [TSeg n]) :: r).
Proof.
  intros Z G Cy Ly. destruct (ZInv_graft_common _ _ _ _ _ _ _ Z G) as (R1 & R2 & R3 & R4 & R5).
  destruct Z as [Z1 Z2 Z3 Z4]. destruct G as (Hn & Hl & Hy & (x & Ex & Ex') & Ho).
  destruct Z2 as [(x0 & E0 & C1 & C2 & C3 & C4) Z2]. simpl in *. rewrite Ex in E0. injection E0 as <-.
  assert (Permutation (d :: flat_map toids (L ++ [TSeg n]) ++ foids r) (n :: d :: flat_map toids L ++ foids r)) as P.
  { rewrite flat_map_app. simpl. rewrite <- app_assoc. simpl. rewrite perm_swap. apply perm_skip.
    symmetry. apply Permutation_middle. }
  split.
  - constructor; auto. simpl. apply Forall_app. split; auto. constructor; auto. exists y. auto.
  - simpl. split; auto. eexists. split; [exact Ex'|]. simpl. rewrite app_nil_r in C3. repeat split; auto.
    rewrite C3, map_app, app_nil_r. reflexivity.
  - simpl. eapply Permutation_NoDup; [symmetry; exact P|]. constructor; auto.
  - simpl. eapply Permutation_Forall; [symmetry; exact P|]. constructor; auto. lia.
Qed.

Lemma ZInv_graft_loop h h' d L r n y :
  ZInv h ((d, L) :: r) -> graft h h' d n y -> o_class y = CLoop -> o_live y = true -> o_children y = [] -> o_parent y = RObj d ->
  ZInv h' ((n, []) :: (d, L) :: r).
Proof.
  intros Z G Cy Ly Ky Py. destruct (ZInv_graft_common _ _ _ _ _ _ _ Z G) as (R1 & R2 & R3 & R4 & R5).
  destruct Z as [Z1 Z2 Z3 Z4]. destruct G as (Hn & Hl & Hy & (x & Ex & Ex') & Ho).
  destruct Z2 as [(x0 & E0 & C1 & C2 & C3 & C4) Z2]. simpl in *. rewrite Ex in E0. injection E0 as <-.
  split.
  - constructor; [constructor|]. constructor; auto.
  - simpl. split; [exists y; rewrite Ky; auto|]. split; auto. eexists. split; [exact Ex'|]. simpl.
    rewrite app_nil_r in C3. repeat split; auto. rewrite C3. reflexivity.
  - simpl. constructor; auto.
  - simpl. constructor; auto. lia.
Qed.

(* ---- reading the open tree ---- *)
Fixpoint zt (fs : list frame) (sub : list T) : list T :=
  match fs with [] => sub | f :: r => zt r [TLoop (fst f) (snd f ++ sub)] end.

Lemma zt_repr h : forall fs sub,
  Forall (repr h) sub -> fchain h fs (map troot sub) -> Forall (fun f : frame => Forall (repr h) (snd f)) fs ->
  Forall (repr h) (zt fs sub).
Proof.
  induction fs as [|f r IH]; intros sub S C F; simpl; auto.
  destruct C as [(x & E & C1 & C2 & C3 & C4) C]. inversion F; subst. apply IH; auto.
  constructor; auto. apply repr_loop. split.
  - exists x. repeat split; auto. rewrite map_app. exact C3.
  - apply Forall_app. auto.
Qed.

Lemma zt_single fs : forall sub, fs <> [] -> exists t, zt fs sub = [t] /\ troot t = froot fs.
Proof.
  induction fs as [|f r IH]; intros sub N; [congruence|]. simpl. destruct r as [|g r].
  - simpl. eexists; split; reflexivity.
  - destruct (IH [TLoop (fst f) (snd f ++ sub)]) as (t & E & R); [discriminate|]. exists t. split; auto.
Qed.

Lemma zt_leaves fs : forall sub, flat_map tleaves (zt fs sub) = fleaves fs ++ flat_map tleaves sub.
Proof.
  induction fs as [|f r IH]; intros sub; simpl; [reflexivity|].
  rewrite IH, fleaves_cons. simpl. rewrite flat_map_app, app_nil_r, app_assoc. reflexivity.
Qed.

Lemma zt_size fs : forall sub, length (flat_map toids (zt fs sub)) = length (foids fs) + length (flat_map toids sub).
Proof.
  induction fs as [|f r IH]; intros sub; simpl; [reflexivity|].
  rewrite IH. simpl. rewrite flat_map_app, !app_length. simpl. lia.
Qed.

Lemma nodup_bound_length (l : list nat) n : NoDup l -> Forall (fun o => o < n) l -> length l <= n.
Proof.
  intros N F. rewrite <- (seq_length n 0). apply NoDup_incl_length; auto.
  intros o I. apply in_seq. rewrite Forall_forall in F. apply F in I. lia.
Qed.

Lemma open_tree_iter h fs :
  ZInv h fs -> fs <> [] -> node_iterate_segments h (froot fs) = g_flat (leaf_tr h) (fleaves fs).
Proof.
  intros [Z1 Z2 Z3 Z4] N. destruct (zt_single fs [] N) as (t & Et & Rt).
  assert (Forall (repr h) (zt fs [])) as R by (apply zt_repr; auto).
  rewrite Et in R. inversion R; subst.
  pose proof (zt_leaves fs []) as Lv. rewrite Et in Lv. simpl in Lv. rewrite !app_nil_r in Lv.
  pose proof (zt_size fs []) as Sz. rewrite Et in Sz. simpl in Sz. rewrite app_nil_r, Nat.add_0_r in Sz.
  unfold node_iterate_segments. rewrite <- Rt, <- Lv. apply iter_T; auto.
  pose proof (tdepth_le t). pose proof (nodup_bound_length _ _ Z3 Z4). unfold oid in *. lia.
Qed.
