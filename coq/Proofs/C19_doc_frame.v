(* C19_doc_frame.v — what ONE turn of the driver's loop (Driver.step) and Driver.finish leave unchanged, for ANY
   environment (no map fact is used): every change to the error handler goes through call_errh, the reader state
   only has its flag check_837_lx assigned.  Partial correctness: nothing is claimed when the computation raises.

     step_frame / finish_frame   for any reflexive-transitive relation R on driver states that holds across
                                 (a) a completed handler call and (b) any change that leaves the handler alone and
                                 the reader's two counters (seg_count, cur_line) as they were
   instances:
     step_xeq      the reader's counters after step are those before
     step_H2       the handler heap stays a forest (H2) and only grows (ext) *)
From Coq Require Import String.
From PX.Lib Require Import Base PyStr PyInt.
From PX.Model Require Import Path Segment Raw Reader MapLoad MapTree Walker MapEnv Driver.
From PX.Model Require Errh.
From PX.Proofs Require Import C09_reader C07_errh C07_sink_defs C07_sink_errh C07_sink_step.

Section Frame.
  Variable R : dstate -> dstate -> Prop.
  Hypothesis R_refl : forall s, R s s.
  Hypothesis R_trans : forall a b c, R a b -> R b c -> R a c.
  Hypothesis R_call : forall ev s s', call_errh ev s = (s', Ok tt) -> R s s'.
  Hypothesis R_same : forall s s', ds_errh s' = ds_errh s -> xeq (ds_x s') (ds_x s) -> R s s'.

  Definition dfr {A} (m : D A) : Prop := forall s, dpc m s (fun _ s' => R s s').

  Lemma dfr_ret {A} (a : A) : dfr (d_ret a).
  Proof. intros s. apply R_refl. Qed.

  Lemma dfr_bind {A B} (m : D A) (f : A -> D B) : dfr m -> (forall a, dfr (f a)) -> dfr (d_bind m f).
  Proof.
    intros Hm Hf s. specialize (Hm s). unfold dpc, d_bind in *.
    destruct (m s) as [s1 [a|e]]; [|exact I].
    specialize (Hf a s1). unfold dpc in Hf. destruct (f a s1) as [s2 [b|e]]; [|exact I].
    eapply R_trans; eauto.
  Qed.

  Lemma dfr_get : dfr d_get.
  Proof. intros s. apply R_refl. Qed.

  Lemma dfr_lift {A} (r : result A) : dfr (d_lift r).
  Proof. intros s. unfold dpc, d_lift. destruct r; [apply R_refl | exact I]. Qed.

  Lemma dfr_raise {A} e : dfr (@d_raise A e).
  Proof. intros s. exact I. Qed.

  Lemma dfr_mod f : (forall s, ds_errh (f s) = ds_errh s /\ xeq (ds_x (f s)) (ds_x s)) -> dfr (d_mod f).
  Proof. intros H s. destruct (H s). apply R_same; assumption. Qed.

  Lemma dfr_call ev : dfr (call_errh ev).
  Proof.
    intros s. unfold dpc. destruct (call_errh ev s) as [s' [[]|e]] eqn:E; [|exact I]. eapply R_call; eauto.
  Qed.

  Lemma dfr_iter {A} (f : A -> D unit) xs : (forall x, dfr (f x)) -> dfr (d_iter f xs).
  Proof.
    intros H. induction xs as [|x xs IH]; cbn [d_iter]; [apply dfr_ret|].
    apply dfr_bind; [apply H | intros _; exact IH].
  Qed.

  Lemma xeq_refl x : xeq x x.
  Proof. split; reflexivity. Qed.

  Ltac fr_mod := apply dfr_mod; intros ?; split; [reflexivity | first [apply xeq_refl | apply xeq_with_lx]].

  Ltac fr :=
    repeat first
      [ apply dfr_ret | apply dfr_get | apply dfr_lift | apply dfr_raise | apply dfr_call
      | apply dfr_bind; [|intros ?]
      | fr_mod
      | apply dfr_iter; intros ? ].

  Lemma dfr_set_node mp r : dfr (set_node mp r).
  Proof. unfold set_node. fr. Qed.

  Lemma dfr_sel_upd f : dfr (sel_upd f).
  Proof. unfold sel_upd. fr. Qed.

  Lemma dfr_handle_popped : dfr handle_popped.
  Proof.
    unfold handle_popped. fr.
    match goal with |- dfr (match ?c with _ => _ end) => destruct c end; fr.
  Qed.

  Lemma dfr_switch_map E new : dfr (switch_map E new).
  Proof.
    unfold switch_map. apply dfr_bind; [apply dfr_sel_upd | intros _].
    destruct new as [f|]; [|apply dfr_raise].
    apply dfr_bind; [apply dfr_lift | intros mp].
    apply dfr_bind; [apply dfr_sel_upd | intros _]. fr.
  Qed.

  Lemma dfr_cur_info : dfr cur_info.
  Proof. unfold cur_info. fr. Qed.

  Lemma dfr_add_cur_seg x : dfr (add_cur_seg x).
  Proof. unfold add_cur_seg. apply dfr_bind; [apply dfr_cur_info | intros i]. fr. Qed.

  Lemma dfr_find_node E sg : dfr (find_node E sg).
  Proof.
    unfold find_node.
    destruct (sid_is sg "ISA").
    { apply dfr_bind; [apply dfr_lift | intros r]. apply dfr_bind; [apply dfr_set_node | intros _]. fr. }
    destruct (sid_is sg "GS").
    { apply dfr_bind; [apply dfr_lift | intros r]. apply dfr_bind; [apply dfr_set_node | intros _]. fr. }
    apply dfr_bind; [apply dfr_get | intros st].
    destruct (walk_st _ _ _ _ _ _ _ _) as [[w' evs] res].
    apply dfr_bind; [fr | intros _]. apply dfr_bind; [fr | intros _].
    apply dfr_bind; [apply dfr_lift | intros out].
    destruct (fst (fst out)) as [r'|]; [|apply dfr_ret].
    apply dfr_bind; [apply dfr_set_node | intros _; apply dfr_ret].
  Qed.

  Lemma dfr_close (mk : ninfo -> Errh.src_info -> dev) :
    dfr (dod_ handle_popped; dod i <- cur_info; dod st <- d_get; call_errh (mk i (src_of (ds_x st)))).
  Proof.
    apply dfr_bind; [apply dfr_handle_popped | intros _].
    apply dfr_bind; [apply dfr_cur_info | intros i]. fr.
  Qed.

  Lemma dfr_seg_then_popped x : dfr (dod_ add_cur_seg x; handle_popped).
  Proof. apply dfr_bind; [apply dfr_add_cur_seg | intros _; apply dfr_handle_popped]. Qed.

  Lemma dfr_dispatch E sg : dfr (dispatch_seg E sg).
  Proof.
    unfold dispatch_seg. cbv zeta.
    destruct (sid_is sg "ISA").
    { apply dfr_bind; [apply dfr_get | intros st]. apply dfr_bind; [apply dfr_call | intros _].
      apply dfr_bind; [apply dfr_lift | intros v]. apply dfr_bind; [apply dfr_sel_upd | intros _].
      apply dfr_handle_popped. }
    destruct (sid_is sg "IEA"). { apply (dfr_close (fun i src => DCloseIsa i _ src)). }
    destruct (sid_is sg "GS").
    { apply dfr_bind; [apply dfr_lift | intros fic]. apply dfr_bind; [apply dfr_lift | intros vriic].
      apply dfr_bind; [apply dfr_sel_upd | intros _]. apply dfr_bind; [apply dfr_get | intros st].
      apply dfr_bind.
      { destruct (negb _); [|apply dfr_ret]. apply dfr_bind; [apply dfr_switch_map | intros _; apply dfr_ret]. }
      intros _. apply dfr_bind; [apply dfr_get | intros st2].
      destruct (ms_cur (ds_sel st2)) as [mp|]; [|apply dfr_raise].
      apply dfr_bind; [apply dfr_lift | intros r]. apply dfr_bind; [apply dfr_set_node | intros _].
      apply dfr_bind; [apply dfr_call | intros _]. apply dfr_handle_popped. }
    destruct (sid_is sg "BHT").
    { apply dfr_bind; [apply dfr_get | intros st]. cbv zeta.
      apply dfr_bind.
      { destruct (_ || _); [|apply dfr_ret]. apply dfr_bind; [apply dfr_lift | intros tspc].
        destruct (negb _); [|apply dfr_ret]. apply dfr_bind; [apply dfr_switch_map | intros mp].
        apply dfr_bind; [apply dfr_lift | intros r]. apply dfr_set_node. }
      intros _. apply dfr_seg_then_popped. }
    destruct (sid_is sg "GE"). { apply (dfr_close (fun i src => DCloseGs i _ src)). }
    destruct (sid_is sg "ST").
    { apply dfr_bind; [apply dfr_get | intros st]. apply dfr_bind; [apply dfr_call | intros _]. apply dfr_handle_popped. }
    destruct (sid_is sg "SE"). { apply (dfr_close (fun i src => DCloseSt i _ src)). }
    apply dfr_seg_then_popped.
  Qed.

  Lemma dfr_validate E sg : dfr (validate E sg).
  Proof.
    unfold validate. apply dfr_bind; [apply dfr_get | intros st]. apply dfr_bind; [apply dfr_lift | intros n].
    destruct n as [? ? ? ? ? ? ?|sn]; [apply dfr_raise|]. fr.
  Qed.

  Theorem step_frame E sg : dfr (step E sg).
  Proof.
    unfold step. apply dfr_bind; [apply dfr_find_node | intros found].
    destruct found; [|apply dfr_handle_popped].
    apply dfr_bind; [apply dfr_dispatch | intros _; apply dfr_validate].
  Qed.

  Theorem finish_frame : dfr finish.
  Proof.
    unfold finish. apply dfr_bind; [fr | intros _]. apply dfr_bind; [apply dfr_handle_popped | intros _]. fr.
  Qed.
End Frame.

(* ---- instance 1: the reader's counters ---- *)
Definition RX (s s' : dstate) : Prop := xeq (ds_x s') (ds_x s).

Lemma step_xeq E sg d d' : step E sg d = (d', Ok tt) -> xeq (ds_x d') (ds_x d).
Proof.
  intros H.
  assert (F : dfr RX (step E sg)).
  { apply step_frame.
    - intros s. split; reflexivity.
    - intros a b c [A1 A2] [B1 B2]. split; congruence.
    - intros ev s s' C. unfold call_errh in C. cbn [ds_errh with_trace] in C.
      destruct (apply_dev ev (ds_errh s)) as [h' r]. injection C as <- _. split; reflexivity.
    - intros s s' _ X. exact X. }
  specialize (F d). unfold dpc in F. rewrite H in F. exact F.
Qed.

(* ---- instance 2: the handler heap ---- *)
Definition RH (s s' : dstate) : Prop :=
  H2 (ds_errh s) -> H2 (ds_errh s') /\ ext (ds_errh s) (ds_errh s').

Lemma RH_ok :
  (forall s, RH s s) /\ (forall a b c, RH a b -> RH b c -> RH a c) /\
  (forall ev s s', call_errh ev s = (s', Ok tt) -> RH s s') /\
  (forall s s', ds_errh s' = ds_errh s -> xeq (ds_x s') (ds_x s) -> RH s s').
Proof.
  split; [|split; [|split]].
  - intros s H. split; [exact H | apply ext_refl].
  - intros a b c F1 F2 Ha. destruct (F1 Ha) as [Hb X1]. destruct (F2 Hb) as [Hc X2].
    split; [exact Hc | eapply ext_trans; eauto].
  - intros ev s s' C H. unfold call_errh in C. cbn [ds_errh with_trace] in C.
    destruct (apply_dev ev (ds_errh s)) as [h' [[]|e]] eqn:E; [|discriminate C].
    injection C as <-. cbn [ds_errh with_errh]. exact (apply_dev_H2 ev _ _ E H).
  - intros s s' E _ H. rewrite E. split; [exact H | apply ext_refl].
Qed.

Lemma step_H2 E sg d d' :
  step E sg d = (d', Ok tt) -> H2 (ds_errh d) -> H2 (ds_errh d') /\ ext (ds_errh d) (ds_errh d').
Proof.
  intros H. destruct RH_ok as (A & B & C & D0).
  pose proof (step_frame RH A B C D0 E sg d) as F. unfold dpc in F. rewrite H in F. exact F.
Qed.

Lemma finish_H2 d d' b :
  finish d = (d', Ok b) -> H2 (ds_errh d) -> H2 (ds_errh d') /\ ext (ds_errh d) (ds_errh d').
Proof.
  intros H. destruct RH_ok as (A & B & C & D0).
  pose proof (finish_frame RH A B C D0 d) as F. unfold dpc in F. rewrite H in F. exact F.
Qed.

Print Assumptions step_xeq.
Print Assumptions step_H2.
Print Assumptions finish_H2.
