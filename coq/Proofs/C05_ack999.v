(* C05_ack999.v — the CONTENT of the 999 agrees with the error tree (Spec/C05_spec999.v). *)
From Coq Require Import String Lia.
From PX.Lib Require Import Base PyStr PyInt.
From PX.Gen Require Import SrcConsts.
From PX.Model Require Import Show Path Segment Raw Reader Writer Errh Ack997 Ack999.
From PX.Spec Require Import C06_spec C05_spec C05_spec999.
From PX.Proofs Require Import C01_roundtrip C11_writer C06_lemmas C06_build C06_ack997 C06_ack999 C05_build999 C05_ack.

Local Notation l := list_ascii_of_string.
Local Notation LF := (ascii_of_nat 10).
Ltac unl9 := unl; change C05_spec.l with list_ascii_of_string in *; change C05_spec999.l with list_ascii_of_string in *.

(* ------------------------------------------------------------------ *)
(* "m writes F(heap), all plain segments, and leaves the heap alone"   *)
(* ------------------------------------------------------------------ *)
Definition yields9 {A} (m : SE v999 A) (F : errh -> list seg) : Prop :=
  forall v v' a lp gc sc n, WS (y_wr v) lp gc sc n -> m v = (v', Ok a) ->
    wrote9 v v' (F (y_h v)) /\ y_h v' = y_h v /\ WS (y_wr v') lp gc sc (n + Z.of_nat (length (F (y_h v)))).

Lemma wr_write_h s v v' u : wr_write s v = (v', Ok u) -> y_h v' = y_h v.
Proof. intros H. apply wr_write_ok in H as (w' & out & _ & ->). reflexivity. Qed.

Lemma in_hy_get {A} (heap : errh -> list A) i v v' n :
  in_hy (dos h <- se_get; heap_get (heap h) i) v = (v', Ok n) ->
  wrote9 v v' [] /\ y_wr v' = y_wr v /\ y_h v' = y_h v /\ nth_error (heap (y_h v)) i = Some n.
Proof.
  intros H. pose proof (in_hy_ok _ _ _ _ H) as (W & R & _). split; [exact W|]. split; [exact R|].
  unfold in_hy, heap_get, se_bind, se_get, se_lift in H.
  destruct (nth_error (heap (y_h v)) i); [|discriminate]. injection H as <- <-. split; reflexivity.
Qed.

Lemma yields9_ret {A} (x : A) : yields9 (se_ret x) (fun _ => []).
Proof.
  intros v v' a lp gc sc n W H. se_inv H. split; [apply wrote9_refl|]. split; [reflexivity|].
  eapply WS_n; [|exact W]. cbn [length]. lia.
Qed.

Lemma yields9_bind {A B} (m : SE v999 A) (f : A -> SE v999 B) F G :
  yields9 m F -> (forall a, yields9 (f a) G) -> yields9 (se_bind m f) (fun h => F h ++ G h).
Proof.
  intros Hm Hf v v' b lp gc sc n W H. apply bind_ok in H as (v1 & a & H1 & H2).
  destruct (Hm _ _ _ _ _ _ _ W H1) as (W1 & E1 & X1). destruct (Hf _ _ _ _ _ _ _ _ X1 H2) as (W2 & E2 & X2).
  rewrite E1 in W2, X2. split; [eapply wrote9_trans; eauto|]. split; [congruence|].
  eapply WS_n; [|exact X2]. rewrite app_length. lia.
Qed.

Lemma yields9_ext {A} (m : SE v999 A) F G : (forall h, F h = G h) -> yields9 m F -> yields9 m G.
Proof. intros E H v v' a lp gc sc n W R. rewrite <- E. eapply H; eauto. Qed.

Lemma yields9_iter {A} (f : A -> SE v999 unit) (F : A -> errh -> list seg) xs :
  (forall x, yields9 (f x) (F x)) -> yields9 (se_iter f xs) (fun h => flat_map (fun x => F x h) xs).
Proof.
  intros Hf. induction xs as [|x r IH]; cbn [se_iter flat_map]; [apply yields9_ret|].
  apply (yields9_bind _ _ (F x) (fun h => flat_map (fun x => F x h) r)); [apply Hf|intros _; exact IH].
Qed.

Lemma yields9_get {A B} (heap : errh -> list A) i (f : A -> SE v999 B) (F : A -> errh -> list seg) :
  (forall n, yields9 (f n) (F n)) ->
  yields9 (se_bind (in_hy (dos h <- se_get; heap_get (heap h) i)) f) (fun h => at_ (heap h) i (fun n => F n h)).
Proof.
  intros Hf v v' b lp gc sc n0 W H. apply bind_ok in H as (v1 & n & H1 & H2).
  apply in_hy_get in H1 as (W1 & R1 & E1 & N1). rewrite <- R1 in W.
  destruct (Hf _ _ _ _ _ _ _ _ W H2) as (W2 & E2 & X2). unfold at_. rewrite N1, <- E1.
  split; [apply (wrote9_trans _ _ _ _ _ W1 W2)|]. split; [congruence|exact X2].
Qed.

(* a segment the writer passes through *)
Lemma yields9_write s id : sid s = Some (l id) -> plain_id id -> yields9 (wr_write s) (fun _ => [s]).
Proof.
  intros S P v v' a lp gc sc n W H. pose proof (wr_write_h _ _ _ _ H) as E.
  destruct (wr_write_plain _ _ _ _ _ _ _ _ _ W S P H) as [A B]. split; [exact A|]. split; [exact E|exact B].
Qed.

Lemma yields9_lift_write (r : result seg) id : (forall s, r = Ok s -> sid s = Some (l id)) -> plain_id id ->
  yields9 (dos s <- se_lift r; wr_write s) (fun _ => [the_seg r]).
Proof.
  intros S P v v' a lp gc sc n W H. apply bind_ok in H as (v1 & s & H1 & H2). se_inv H1. rewrite E. cbn [the_seg].
  eapply (yields9_write s id); eauto.
Qed.

(* ------------------------------------------------------------------ *)
(* inside a set                                                        *)
(* ------------------------------------------------------------------ *)
Lemma visit_st_pre9_yields n : yields9 (visit_st_pre9 n) (fun _ => [ak2_999 n]).
Proof.
  unfold visit_st_pre9, ak2_999. destruct (tn_id n) as [id|]; [|intros v v' a lp gc sc k W H; se_inv H].
  destruct (tn_ctl n) as [ctl|].
  - intros v v' a lp gc sc k W H. apply bind_ok in H as (v1 & ak2 & H1 & H2). se_inv H1.
    assert (EA : ak2 = mkseg "AK2" ([val (Some id); strip_ws (val (Some ctl))] ++ match tn_vriic n with Some v => [v] | None => [] end)).
    { unl. rewrite parse_AK2', set_ak2_01 in E. cbn [bind] in E. rewrite set_ak2_02 in E. cbn [bind] in E.
      destruct (tn_vriic n) as [vr|]; [rewrite set_ak2_03 in E|]; injection E as <-; reflexivity. }
    subst ak2. eapply (yields9_write _ "AK2"); eauto; reflexivity.
  - intros v v' a lp gc sc k W H. apply bind_ok in H as (v1 & ak2 & H1 & H2). se_inv H1.
    assert (EA : ak2 = mkseg "AK2" ([val (Some id); strip_ws (val None)] ++ match tn_vriic n with Some v => [v] | None => [] end)).
    { unl. rewrite parse_AK2', set_ak2_01 in E. cbn [bind] in E. rewrite set_ak2_02 in E. cbn [bind] in E.
      destruct (tn_vriic n) as [vr|]; [rewrite set_ak2_03 in E|]; injection E as <-; reflexivity. }
    subst ak2. eapply (yields9_write _ "AK2"); eauto; reflexivity.
Qed.

Lemma visit_st_post9_yields t : yields9 (visit_st_post9 t) (fun h => at_ (h_st h) t (fun n => [ik5_999 h n])).
Proof.
  intros v v' a lp gc sc k W H. unfold visit_st_post9 in H. apply bind_ok in H as (v1 & n & H1 & H).
  apply (in_hy_get h_st) in H1 as (W1 & R1 & E1 & N1). apply bind_ok in H as (v2 & vv & H2 & H). se_inv H2.
  unfold at_. rewrite N1. destruct (tn_ack n) as [ack|] eqn:EA; [|se_inv H].
  apply bind_ok in H as (v2 & ik5 & H2 & H). se_inv H2.
  assert (E5 : ik5 = ik5_999 (y_h v) n).
  { r_inv E. unl. rewrite parse_IK5, set_ik5_01 in Hr. injection Hr as <-. rewrite fold_append in Hq0. injection Hq0 as <-.
    unfold ik5_999. rewrite EA, <- E1, Hr0. reflexivity. }
  subst ik5. rewrite <- R1 in W.
  destruct (yields9_write _ "IK5" (eq_refl : sid (ik5_999 (y_h v) n) = Some (l "IK5")) eq_refl _ _ _ _ _ _ _ W H) as (W2 & E2 & X2).
  split; [apply (wrote9_trans _ _ _ _ _ W1 W2)|]. split; [congruence|exact X2].
Qed.

Lemma visit_seg9_yields n : yields9 (visit_seg9 n) (fun h => ik3s_999 h n).
Proof.
  intros v v' a lp gc sc k W H. unfold visit_seg9 in H. apply bind_ok in H as (v0 & vv & H0 & H). se_inv H0.
  apply bind_ok in H as (v1 & seg_str & H1 & H). se_inv H1.
  assert (ES : seg_str = format_seg D (ik3_base n)).
  { r_inv E. unl. rewrite parse_IK3 in *.
    destruct (sn_seg_id n) as [x|] eqn:Ex; [|discriminate].
    destruct (sn_seg_count n) as [c|] eqn:EC; [|discriminate].
    repeat match goal with
           | H : fmt_i (Some _) = Ok _ |- _ => cbn [fmt_i] in H; injection H as <-
           | H : seg_set_opt _ "01" _ = Ok _ |- _ => rewrite set_ik3_01 in H; injection H as <-
           | H : seg_set_opt _ "02" _ = Ok _ |- _ => rewrite set_ik3_02 in H; injection H as <-
           end.
    unfold ik3_base. rewrite Ex, EC. cbn [val valZ].
    destruct (truthy_s (sn_ls_id n)) eqn:T.
    - destruct (sn_ls_id n) as [ls|]; [|discriminate].
      match goal with H : seg_set_opt _ "03" _ = Ok _ |- _ => rewrite set_ik3_03 in H; injection H as <- end.
      match goal with H : Ok _ = Ok _ |- _ => injection H as <- end. reflexivity.
    - repeat match goal with H : Ok _ = Ok _ |- _ => injection H as <- end. reflexivity. }
  subst seg_str. clear E. unfold ik3s_999. apply bind_ok in H as (v1 & u & H1 & H2).
  assert (SID : forall cde s, seg_set D (parse_seg D (format_seg D (ik3_base n))) (l "IK304") cde = Ok s -> sid s = Some (l "IK3")).
  { intros cde s Es. rewrite (seg_set_sid _ _ _ _ _ Es). apply reparse_sid; [reflexivity|apply nostar; reflexivity]. }
  assert (Y1 : yields9 (se_iter (fun cde => if mem_str cde valid_IK3_codes
                                then dos s <- se_lift (seg_set D (parse_seg D (format_seg D (ik3_base n))) (l "IK304") cde); wr_write s
                                else se_ret tt) (sorted_set (seg_error_codes n)))
                       (fun _ => flat_map (fun cde => if mem_str cde valid_IK3_codes then [ik3_999 n cde] else []) (sorted_set (seg_error_codes n)))).
  { apply (yields9_iter _ (fun cde _ => if mem_str cde valid_IK3_codes then [ik3_999 n cde] else [])).
    intros cde. destruct (mem_str cde valid_IK3_codes); [|apply yields9_ret].
    apply (yields9_lift_write _ "IK3"); [apply SID|reflexivity]. }
  destruct (Y1 _ _ _ _ _ _ _ W H1) as (W1 & E1 & X1).
  set (ss1 := flat_map _ _) in *.
  assert (Y : wrote9 v1 v' (if (0 <? seg_child_err_count (y_h v) n) && negb (mem_str (l "8") (seg_error_codes n))
                            then [ik3_999 n (l "8")] else []) /\ y_h v' = y_h v1 /\
              WS (y_wr v') lp gc sc (k + Z.of_nat (length ss1) +
                   Z.of_nat (length (if (0 <? seg_child_err_count (y_h v) n) && negb (mem_str (l "8") (seg_error_codes n))
                                     then [ik3_999 n (l "8")] else [])))).
  { destruct (_ && _).
    - apply (yields9_lift_write _ "IK3" (SID _) eq_refl _ _ _ _ _ _ _ X1 H2).
    - apply (yields9_ret tt _ _ _ _ _ _ _ X1 H2). }
  destruct Y as (W2 & E2 & X2). unl9. split; [eapply wrote9_trans; eauto|]. split; [congruence|].
  eapply WS_n; [|exact X2]. rewrite app_length. lia.
Qed.

Lemma visit_ele9_yields e : yields9 (visit_ele9 e) (fun _ => ik4s_999 e).
Proof.
  intros v v' a lp gc sc k W H. unfold visit_ele9 in H. apply bind_ok in H as (v1 & seg_str & H1 & H). se_inv H1.
  assert (ES : seg_str = format_seg D (ik4_base e)).
  { r_inv E. unl. rewrite parse_IK4 in *.
    match goal with H : seg_set_opt _ "01-1" _ = Ok _ |- _ => rewrite set_ik4_01_1 in H; injection H as <- end.
    unfold ik4_base.
    destruct (truthy_Z (en_subpos e)) eqn:TZ; destruct (truthy_s (en_ref_num e)) eqn:TS;
    repeat match goal with
           | H : seg_set_opt _ "01-2" _ = Ok _ |- _ => rewrite set_ik4_01_2 in H; injection H as <-
           | H : Ok _ = Ok _ |- _ => injection H as <-
           end;
    try (destruct (en_ref_num e) as [r|]; [|discriminate];
         match goal with H : seg_set_opt _ "02" _ = Ok _ |- _ => rewrite set_ik4_02 in H; injection H as <- end;
         repeat match goal with H : Ok _ = Ok _ |- _ => injection H as <- end);
    reflexivity. }
  subst seg_str. clear E. revert v v' a lp gc sc k W H. unfold ik4s_999.
  apply (yields9_iter _ (fun (er : err3) _ => if mem_str (fst (fst er)) valid_IK4_codes then [ik4_999 e er] else [])).
  intros er. destruct (mem_str _ valid_IK4_codes); [|apply yields9_ret].
  unfold ik4_999.
  match goal with |- yields9 (se_bind (se_lift ?r) _) (fun _ => [the_seg ?r']) => replace r' with r end.
  - apply (yields9_lift_write _ "IK4"); [|reflexivity]. intros s Es. r_inv Es.
    assert (S1 : sid a = Some (l "IK4")).
    { rewrite (seg_set_sid _ _ _ _ _ Hr). apply reparse_sid; [reflexivity|apply nostar; reflexivity]. }
    destruct (truthy_s (snd er)); [rewrite (seg_set_sid _ _ _ _ _ Hq); exact S1|injection Hq as <-; exact S1].
  - unl9. destruct (truthy_s (snd er)) eqn:T; [|reflexivity]. destruct (snd er); [reflexivity|discriminate].
Qed.

Lemma accept_seg9_yields k : yields9 (accept_seg9 k) (fun h => at_ (h_seg h) k (seg_body_999 h)).
Proof.
  unfold accept_seg9. apply (yields9_get h_seg k _ (fun n h => seg_body_999 h n)). intros n.
  unfold seg_body_999. apply yields9_bind; [apply visit_seg9_yields|]. intros _.
  eapply yields9_ext; [|apply (yields9_iter _ (fun e h => at_ (h_ele h) e ik4s_999))].
  - intros h. cbv beta. rewrite flat_nodes_at. reflexivity.
  - intros e. apply (yields9_get h_ele e _ (fun en _ => ik4s_999 en)). intros en. apply visit_ele9_yields.
Qed.

Lemma accept_st9_yields t : yields9 (accept_st9 t) (fun h => at_ (h_st h) t (st_body_999 h)).
Proof.
  intros v v' b lp gc sc k W H. unfold accept_st9 in H. apply bind_ok in H as (v1 & n & H1 & H2).
  apply (in_hy_get h_st) in H1 as (W1 & R1 & E1 & N1).
  assert (Y : yields9 (dos_ visit_st_pre9 n; dos_ se_iter accept_seg9 (tn_children n); visit_st_post9 t)
                      (fun h => [ak2_999 n] ++ flat_map (fun k => at_ (h_seg h) k (seg_body_999 h)) (tn_children n)
                                ++ at_ (h_st h) t (fun n => [ik5_999 h n]))).
  { apply yields9_bind; [apply visit_st_pre9_yields|intros _; apply yields9_bind;
      [apply (yields9_iter _ (fun k h => at_ (h_seg h) k (seg_body_999 h))); intros j; apply accept_seg9_yields
      |intros _; apply visit_st_post9_yields]]. }
  rewrite <- R1 in W. destruct (Y _ _ _ _ _ _ _ W H2) as (W2 & E2 & X2).
  rewrite E1 in W2, X2. unfold at_ at 2 in W2. unfold at_ at 2 in X2. rewrite N1 in W2, X2.
  unfold at_ at 1. unfold at_ at 1. rewrite N1. unfold st_body_999. rewrite flat_nodes_at.
  split; [apply (wrote9_trans _ _ _ _ _ W1 W2)|]. split; [congruence|exact X2].
Qed.

(* ------------------------------------------------------------------ *)
(* one group: ST, AK1, the sets, AK9, SE                               *)
(* ------------------------------------------------------------------ *)
Lemma st9_seg_eq k : st9_seg k = st_999 k.
Proof. reflexivity. Qed.

Lemma visit_gs_pre9_content nd v v' u k lp gc sc n :
  WS (y_wr v) lp gc sc n -> y_st_ctl v = Z.of_nat k -> visit_gs_pre9 nd v = (v', Ok u) ->
  y_out v' = y_out v ++ map line_999 [st_999 (S k); ak1_999 nd] /\ y_st_ctl v' = Z.of_nat (S k) /\ y_h v' = y_h v /\
  WS (y_wr v') ((l "ST", Some (dec4 (S k))) :: lp) gc (sc + 1) 2.
Proof.
  intros W K H. unfold visit_gs_pre9 in H. se_inv H.
  match goal with H : wr_write ?s (set_y_st_ctl v _) = (?x, Ok _) |- _ => rename H into H1; rename x into v1; rename s into st end.
  match goal with H : wr_write ?s v1 = (_, Ok _) |- _ => rename H into H2; rename s into ak1 end.
  match goal with H : bind _ _ = Ok st |- _ => r_inv H end.
  cbn [y_st_ctl set_y_st_ctl] in *. rewrite K in *. replace (Z.of_nat k + 1)%Z with (Z.of_nat (S k)) in * by lia.
  rewrite fmt_04_nat in *. unl. rewrite parse_st999 in *.
  repeat match goal with
         | H : seg_set_opt _ "02" _ = Ok ?s |- _ => is_var s; rewrite set_st_02 in H; injection H as <-
         | H : seg_set_opt _ "03" _ = Ok ?s |- _ => is_var s; rewrite set_st_03 in H; injection H as <-
         end.
  rewrite split_dec4 in *. fold (st9_seg (S k)) in *.
  destruct (wr_write_gen _ (set_y_st_ctl v (Z.of_nat (S k))) _ _ _ _ _ _ W H1) as (o1 & X1 & Y1).
  pose proof (wr_write_h _ _ _ _ H1) as EH1. pose proof (wr_write_h _ _ _ _ H2) as EH2.
  cbn [y_wr set_y_st_ctl] in X1.
  destruct (ws_st _ _ _ _ _ _ _ _ W (eq_refl : sid (st9_seg (S k)) = Some (l "ST")) X1) as [-> W1].
  assert (A1 : ak1 = ak1_999 nd).
  { match goal with H : bind _ _ = Ok ak1 |- _ => rename H into EA end. rewrite parse_AK1 in EA.
    destruct (gn_fic nd) as [xa|] eqn:E1; [|discriminate]. rewrite set_ak1_01 in EA. cbn [bind] in EA.
    destruct (gn_ctl nd) as [xb|] eqn:E2; [|discriminate]. rewrite set_ak1_02 in EA. cbn [bind] in EA.
    destruct (gn_vriic nd) as [xc|] eqn:E3; [|discriminate]. rewrite set_ak1_03 in EA. injection EA as <-.
    unfold ak1_999. rewrite E1, E2, E3. reflexivity. }
  subst ak1.
  destruct (wr_write_plain _ _ _ _ _ _ _ _ _ W1 (eq_refl : sid (ak1_999 nd) = Some (l "AK1")) (eq_refl : plain_id "AK1") H2) as [Y2 W2].
  split; [|split; [|split; [|exact W2]]].
  - rewrite (w9_out _ _ _ Y2), (w9_out _ _ _ Y1). cbn [y_out set_y_st_ctl map app]. rewrite <- app_assoc. reflexivity.
  - rewrite (w9_st _ _ _ Y2), (w9_st _ _ _ Y1). reflexivity.
  - rewrite EH2, EH1. reflexivity.
Qed.

Lemma in_hy_get_gs g v v' n : in_hy (get_gs g) v = (v', Ok n) ->
  wrote9 v v' [] /\ y_wr v' = y_wr v /\ y_h v' = y_h v /\ nth_error (h_gs (y_h v)) g = Some n.
Proof. apply (in_hy_get h_gs). Qed.
Lemma in_hy_get_isa g v v' n : in_hy (get_isa g) v = (v', Ok n) ->
  wrote9 v v' [] /\ y_wr v' = y_wr v /\ y_h v' = y_h v /\ nth_error (h_isa (y_h v)) g = Some n.
Proof. apply (in_hy_get h_isa). Qed.

Lemma in_hy_mod_gs g f v v' u : in_hy (mod_gs g f) v = (v', Ok u) ->
  wrote9 v v' [] /\ y_wr v' = y_wr v /\ y_h v' = set_h_gs (y_h v) (upd_nth (h_gs (y_h v)) g f).
Proof.
  intros H. pose proof (in_hy_ok _ _ _ _ H) as (W & R & _). split; [exact W|]. split; [exact R|].
  unfold in_hy, mod_gs, se_mod in H. injection H as <-. reflexivity.
Qed.

Lemma get_gs_errors9_norm h x n : get_gs_errors9 (set_h_gs h x) (norm_gs n) = get_gs_errors9 h n.
Proof.
  destruct (norm_gs_fields n) as (_ & _ & _ & E1 & E2 & _). unfold get_gs_errors9. rewrite E1, E2. reflexivity.
Qed.

Lemma visit_gs_post9_content g v v' u nd id lp gc sc n :
  WS (y_wr v) ((l "ST", id) :: lp) gc sc n -> nth_error (h_gs (y_h v)) g = Some nd -> visit_gs_post9 g v = (v', Ok u) ->
  wrote9 v v' [ak9_999 (y_h v) nd; tr "SE" (n + 2) id] /\ WS (y_wr v') lp gc sc 0 /\
  y_h v' = set_h_gs (y_h v) (upd_nth (h_gs (y_h v)) g norm_gs).
Proof.
  intros W N H. unfold visit_gs_post9 in H.
  apply bind_ok in H as (v1 & n1 & H1 & H). apply in_hy_get_gs in H1 as (Y1 & R1 & E1 & N1). rewrite N in N1. injection N1 as <-.
  apply bind_ok in H as (v2 & u2 & H2 & H).
  assert (S2 : wrote9 v1 v2 [] /\ y_wr v2 = y_wr v1 /\ y_h v2 = set_h_gs (y_h v) (upd_nth (h_gs (y_h v)) g norm_gs)).
  { destruct (truthy_s (gn_ack nd)) eqn:T.
    - assert (v2 = v1) as -> by (cbn [negb andb] in H2; destruct (negb _); se_inv H2; reflexivity).
      split; [apply wrote9_refl|]. split; [reflexivity|]. rewrite (upd_nth_same norm_gs _ _ _ N), set_h_gs_same; [exact E1|].
      unfold norm_gs. rewrite T. reflexivity.
    - cbn [negb andb] in H2. apply in_hy_mod_gs in H2 as (W2 & R2 & E2). split; [exact W2|]. split; [exact R2|]. rewrite E2, E1.
      f_equal. clear - N T. revert g N. induction (h_gs (y_h v)) as [|y xs IH]; intros [|g] N; try discriminate; cbn [upd_nth nth_error] in *.
      + injection N as ->. unfold norm_gs. rewrite T. reflexivity.
      + f_equal. apply IH. exact N. }
  destruct S2 as (Y2 & R2 & E2). clear H2.
  apply bind_ok in H as (v3 & n3 & H3 & H). apply in_hy_get_gs in H3 as (Y3 & R3 & E3 & N3).
  rewrite E2 in N3. cbn [h_gs set_h_gs set_heaps] in N3. rewrite (nth_upd_nth_eq norm_gs _ _ _ N) in N3. injection N3 as <-.
  apply bind_ok in H as (v4 & vv & H4 & H). se_inv H4.
  apply bind_ok in H as (v4 & ak9 & H4 & H). se_inv H4.
  apply bind_ok in H as (v5 & u5 & H5 & H).
  apply bind_ok in H as (v6 & se & H6 & H). se_inv H6.
  assert (W3 : WS (y_wr v3) ((l "ST", id) :: lp) gc sc n) by (rewrite R3, R2, R1; exact W).
  assert (A9 : ak9 = ak9_999 (y_h v) nd).
  { r_inv E. unl. rewrite parse_AK9' in *.
    match goal with H : seg_set_opt _ "01" (gn_ack _) = Ok _ |- _ => rewrite norm_gs_ack in H; destruct (gs_ack_written nd) as [x|] eqn:Ex; [|discriminate H];
      rewrite set_ak9_01 in H; injection H as <- end.
    repeat match goal with
           | H : seg_set_opt _ "02" _ = Ok _ |- _ => rewrite set_ak9_02 in H; injection H as <-
           | H : seg_set_opt _ "03" _ = Ok _ |- _ => rewrite set_ak9_03 in H; injection H as <-
           | H : seg_set_opt _ "04" _ = Ok _ |- _ => rewrite set_ak9_04 in H; injection H as <-
           end.
    match goal with H : get_gs_errors9 _ _ = Ok ?c |- _ => rename H into G; rename c into codes end.
    match goal with H : fold_left _ _ _ = Ok _ |- _ => rewrite fold_append in H; injection H as <- end.
    unfold ak9_999, gs_accepted. rewrite Ex.
    rewrite E3, E2, get_gs_errors9_norm in G. rewrite G. cbn [okl val].
    rewrite E3, E2, failed_st_norm. destruct (norm_gs_fields nd) as (-> & -> & _). reflexivity. }
  subst ak9.
  destruct (wr_write_plain _ _ _ _ _ _ _ _ _ W3 (eq_refl : sid (ak9_999 (y_h v) nd) = Some (l "AK9")) (eq_refl : plain_id "AK9") H5) as [Y5 W5].
  pose proof (wr_write_h _ _ _ _ H5) as E5. pose proof (wr_write_h _ _ _ _ H) as E7.
  assert (SE : sid se = Some (l "SE")).
  { r_inv E0. repeat sid_step. reflexivity. }
  destruct (wr_write_gen _ _ _ _ _ _ _ _ W5 H) as (o7 & X7 & Y7).
  destruct (ws_se _ _ _ _ _ _ _ _ _ W5 SE X7) as [-> W7].
  split; [|split; [exact W7|]].
  - replace (n + 2)%Z with (n + 1 + 1)%Z by lia.
    exact (wrote9_trans _ _ _ _ _ (wrote9_trans _ _ _ _ _ (wrote9_trans _ _ _ _ _ (wrote9_trans _ _ _ _ _ Y1 Y2) Y3) Y5) Y7).
  - rewrite E7, E5, E3, E2. reflexivity.
Qed.

(* ------------------------------------------------------------------ *)
(* the body never contains an envelope segment                         *)
(* ------------------------------------------------------------------ *)
Lemma ik3_body n cde : body_seg (ik3_999 n cde).
Proof.
  unfold ik3_999. destruct (seg_set D _ _ cde) as [s|e] eqn:E; cbn [the_seg]; [|apply body_none].
  body_by "IK3"%string. rewrite (seg_set_sid _ _ _ _ _ E). apply reparse_sid; [reflexivity|apply nostar; reflexivity].
Qed.
Lemma ik4_body e er : body_seg (ik4_999 e er).
Proof.
  unfold ik4_999. destruct (seg_set D _ (C05_spec999.l "IK403") _) as [s|x] eqn:E; cbn [bind the_seg]; [|apply body_none].
  assert (S : sid s = Some (l "IK4")).
  { rewrite (seg_set_sid _ _ _ _ _ E). apply reparse_sid; [reflexivity|apply nostar; reflexivity]. }
  destruct (truthy_s (snd er)); cbn [the_seg]; [|body_by "IK4"%string; exact S].
  destruct (seg_set D s _ _) as [s'|x] eqn:E'; cbn [the_seg]; [|apply body_none].
  body_by "IK4"%string. rewrite (seg_set_sid _ _ _ _ _ E'). exact S.
Qed.

Lemma seg_body9_is_body h n : Forall body_seg (seg_body_999 h n).
Proof.
  unfold seg_body_999, ik3s_999. apply Forall_app. split; [apply Forall_app; split|].
  - apply Forall_flat_map. intros cde. destruct (mem_str _ _); repeat constructor. apply ik3_body.
  - destruct (_ && _); repeat constructor. apply ik3_body.
  - apply Forall_flat_map. intros e. unfold ik4s_999. apply Forall_flat_map. intros er.
    destruct (mem_str _ _); repeat constructor. apply ik4_body.
Qed.

Lemma st_body9_is_body h t : Forall body_seg (st_body_999 h t).
Proof.
  unfold st_body_999. constructor; [body_by "AK2"%string; reflexivity|]. apply Forall_app. split.
  - apply Forall_flat_map. intros n. apply seg_body9_is_body.
  - repeat constructor.
Qed.

Lemma gs_body9_is_body h g : Forall body_seg (gs_body_999 h g).
Proof.
  unfold gs_body_999. constructor; [body_by "AK1"%string; reflexivity|]. apply Forall_app. split.
  - apply Forall_flat_map. intros n. apply st_body9_is_body.
  - repeat constructor.
Qed.

(* ------------------------------------------------------------------ *)
(* the handler during the run                                          *)
(* ------------------------------------------------------------------ *)
Definition Good9 (h : errh) (vis : list nat) (v : v999) : Prop := y_h v = set_h_gs h (norm_at vis (h_gs h)).

Lemma gs_body9_set h x n : gs_body_999 (set_h_gs h x) n = gs_body_999 h n.
Proof. reflexivity. Qed.

Lemma gs_body9_norm h n : gs_body_999 h (norm_gs n) = gs_body_999 h n.
Proof.
  destruct (norm_gs_fields n) as (E1 & E2 & E3 & E4 & E5 & E6 & E7).
  assert (E8 : gn_vriic (norm_gs n) = gn_vriic n) by (unfold norm_gs; destruct (truthy_s (gn_ack n)); reflexivity).
  unfold gs_body_999, ak1_999, ak9_999, gs_accepted, gs_count_failed_st, get_gs_errors9.
  assert (EA : gs_ack_written (norm_gs n) = gs_ack_written n).
  { unfold gs_ack_written at 1. rewrite norm_gs_ack. unfold gs_ack_written.
    destruct (truthy_s (gn_ack n)) eqn:T; [rewrite T|]; reflexivity. }
  rewrite E1, E2, E3, E4, E5, E6, E7, E8, EA. reflexivity.
Qed.

Lemma gs_body9_rel h x a b : grel a b -> gs_body_999 (set_h_gs h x) b = gs_body_999 h a.
Proof. rewrite gs_body9_set. intros [->| ->]; [reflexivity|apply gs_body9_norm]. Qed.

Lemma number_sets9_snoc b : forall done k, number_sets_999 k (done ++ [b]) = number_sets_999 k done ++ set_999 (k + length done) b.
Proof.
  induction done as [|x r IH]; intros k; cbn [app number_sets_999 length].
  - rewrite app_nil_r, Nat.add_0_r. reflexivity.
  - rewrite IH, <- app_assoc. replace (S k + length r) with (k + S (length r)) by lia. reflexivity.
Qed.

Lemma accept_gs9_content h isa gs icn g6 done vis g v v' u :
  Inv9 isa gs icn g6 (length done) (number_sets_999 1 done) v -> Good9 h vis v -> accept_gs9 g v = (v', Ok u) ->
  exists nd, nth_error (h_gs h) g = Some nd /\
    Inv9 isa gs icn g6 (S (length done)) (number_sets_999 1 (done ++ [gs_body_999 h nd])) v' /\ Good9 h (vis ++ [g]) v'.
Proof.
  intros [I1 I2 I3 (n & I4)] HG H. unfold Good9 in HG. set (gl := norm_at vis (h_gs h)) in *.
  pose proof (norm_at_grel vis (h_gs h)) as FG. fold gl in FG.
  set (k := length done) in *. unfold accept_gs9 in H.
  apply bind_ok in H as (v1 & nd' & H1 & H). apply in_hy_get_gs in H1 as (Y1 & R1 & E1 & N1).
  apply bind_ok in H as (v2 & u2 & H2 & H). apply bind_ok in H as (v3 & u3 & H3 & H4).
  assert (W1 : WS (y_wr v1) [(l "GS", g6); (l "ISA", icn)] 1 (Z.of_nat k) n) by (rewrite R1; exact I4).
  assert (K1 : y_st_ctl v1 = Z.of_nat k) by (rewrite (w9_st _ _ _ Y1); exact I3).
  destruct (visit_gs_pre9_content _ _ _ _ _ _ _ _ _ W1 K1 H2) as (O2 & K2 & E2 & W2).
  destruct (yields9_iter _ (fun t h => at_ (h_st h) t (st_body_999 h)) _ accept_st9_yields _ _ _ _ _ _ _ W2 H3) as (Y3 & E3 & W3).
  assert (HV2 : y_h v2 = y_h v) by congruence.
  assert (N3 : nth_error (h_gs (y_h v3)) g = Some nd') by (rewrite E3, HV2; exact N1).
  destruct (visit_gs_post9_content _ _ _ _ _ _ _ _ _ _ W3 N3 H4) as (Y4 & W4 & E4).
  pose proof N1 as N0. rewrite HG in N0. cbn [h_gs set_h_gs set_heaps] in N0.
  destruct (Forall2_nth _ _ _ FG _ _ N0) as (nd & Nn & R).
  exists nd. split; [exact Nn|].
  set (ss := flat_map (fun t => at_ (h_st (y_h v2)) t (st_body_999 (y_h v2))) (gn_children nd')) in *.
  assert (EB : ak1_999 nd' :: ss ++ [ak9_999 (y_h v3) nd'] = gs_body_999 h nd).
  { rewrite <- (gs_body9_rel h gl nd nd' R). subst ss. rewrite E3, HV2, HG. unfold gs_body_999. rewrite flat_nodes_at. reflexivity. }
  replace (2 + Z.of_nat (length ss) + 2)%Z with (Z.of_nat (length (ak1_999 nd' :: ss ++ [ak9_999 (y_h v3) nd']) + 2)) in Y4
    by (cbn [length]; rewrite app_length; cbn [length]; lia).
  rewrite tr_SE, EB in Y4. set (body := gs_body_999 h nd) in *.
  change {| sid := Some (l "SE"); els := [[dec (length body + 2)]; [dec4 (S k)]] |} with (se_997 (S k) (length body)) in Y4.
  rewrite number_sets9_snoc. fold k. replace (1 + k) with (S k) by lia.
  split; [constructor|].
  - rewrite (w9_out _ _ _ Y4), (w9_out _ _ _ Y3), O2, (w9_out _ _ _ Y1), I1.
    unfold set_999. rewrite <- EB.
    cbn [map app]. rewrite !map_app. cbn [map app]. rewrite app_nil_r, <- !app_assoc. cbn [app]. rewrite map_app. reflexivity.
  - apply sets_snoc; [exact I2|]. unfold one_set. repeat split; try reflexivity.
    + apply gs_body9_is_body.
    + apply (elc_is_intro (st_999 (S k)) 2 _ [dec4 (S k)]); reflexivity.
    + apply (elc_is_intro (se_997 (S k) (length body)) 2 _ [dec4 (S k)]); reflexivity.
    + apply (elc_is_intro (se_997 (S k) (length body)) 1 _ [dec (length body + 2)]); reflexivity.
  - rewrite (w9_st _ _ _ Y4), (w9_st _ _ _ Y3). exact K2.
  - exists 0%Z. replace (Z.of_nat (S k)) with (Z.of_nat k + 1)%Z by lia. exact W4.
  - unfold Good9. rewrite E4, E3, HV2, HG. cbn [h_gs set_h_gs set_heaps]. subst gl. rewrite upd_norm_at. reflexivity.
Qed.

(* ------------------------------------------------------------------ *)
(* all groups of all interchanges                                      *)
(* ------------------------------------------------------------------ *)
Definition InvC9 h isa gs icn g6 (done : list (list seg)) (vis : list nat) v : Prop :=
  Inv9 isa gs icn g6 (length done) (number_sets_999 1 done) v /\ Good9 h vis v.

Lemma iter_gs9_content h isa gs icn g6 : forall ids done vis v v' u,
  InvC9 h isa gs icn g6 done vis v -> se_iter accept_gs9 ids v = (v', Ok u) ->
  InvC9 h isa gs icn g6 (done ++ map (gs_body_999 h) (nodes_at (h_gs h) ids)) (vis ++ ids) v'.
Proof.
  induction ids as [|g r IH]; intros done vis v v' u I H; cbn [se_iter] in H.
  - se_inv H. cbn [nodes_at flat_map map]. rewrite !app_nil_r. exact I.
  - apply bind_ok in H as (v1 & u1 & H1 & H2). destruct I as [I G].
    destruct (accept_gs9_content _ _ _ _ _ _ _ _ _ _ _ I G H1) as (n & N & I' & G').
    assert (IC : InvC9 h isa gs icn g6 (done ++ [gs_body_999 h n]) (vis ++ [g]) v1).
    { split; [|exact G']. rewrite app_length. cbn [length]. rewrite Nat.add_1_r. exact I'. }
    apply (IH _ _ _ _ _ IC) in H2. unfold nodes_at in *. cbn [flat_map]. rewrite N. cbn [app map].
    rewrite <- !app_assoc in H2. exact H2.
Qed.

Lemma accept_isa9_content h isa gs icn g6 i done vis v v' u :
  InvC9 h isa gs icn g6 done vis v -> accept_isa9 i v = (v', Ok u) ->
  InvC9 h isa gs icn g6 (done ++ map (gs_body_999 h) (at_ (h_isa h) i (fun n => nodes_at (h_gs h) (in_children n))))
        (vis ++ at_ (h_isa h) i in_children) v'.
Proof.
  intros [I G] H. unfold accept_isa9 in H. apply bind_ok in H as (v1 & n & H1 & H2).
  apply in_hy_get_isa in H1 as (W1 & R1 & E1 & N1).
  assert (IC : InvC9 h isa gs icn g6 done vis v1).
  { split; [eapply Inv9_nil; eauto|]. unfold Good9 in *. congruence. }
  apply (iter_gs9_content _ _ _ _ _ _ _ _ _ _ _ IC) in H2.
  unfold Good9 in G. rewrite G in N1. cbn [h_isa set_h_gs set_heaps] in N1.
  unfold at_. rewrite N1. exact H2.
Qed.

Lemma iter_isa9_content h isa gs icn g6 : forall ids done vis v v' u,
  InvC9 h isa gs icn g6 done vis v -> se_iter accept_isa9 ids v = (v', Ok u) ->
  InvC9 h isa gs icn g6 (done ++ map (gs_body_999 h)
                          (flat_map (fun i => at_ (h_isa h) i (fun n => nodes_at (h_gs h) (in_children n))) ids))
        (vis ++ flat_map (fun i => at_ (h_isa h) i in_children) ids) v'.
Proof.
  induction ids as [|i r IH]; intros done vis v v' u I H; cbn [se_iter] in H.
  - se_inv H. cbn [flat_map map]. rewrite !app_nil_r. exact I.
  - apply bind_ok in H as (v1 & u1 & H1 & H2).
    apply (accept_isa9_content _ _ _ _ _ _ _ _ _ _ _ I) in H1. apply (IH _ _ _ _ _ H1) in H2.
    cbn [flat_map]. rewrite map_app, !app_assoc. exact H2.
Qed.

(* ------------------------------------------------------------------ *)
(* the header and the trailer leave the handler alone                  *)
(* ------------------------------------------------------------------ *)
Definition keeps9 {A} (m : SE v999 A) : Prop := forall v v' a, m v = (v', Ok a) -> y_h v' = y_h v.

Lemma keeps9_bind {A B} (m : SE v999 A) (f : A -> SE v999 B) : keeps9 m -> (forall a, keeps9 (f a)) -> keeps9 (se_bind m f).
Proof. intros Hm Hf v v' b H. apply bind_ok in H as (v1 & a & H1 & H2). apply Hm in H1. apply Hf in H2. congruence. Qed.
Lemma keeps9_get : keeps9 (@se_get v999). Proof. intros v v' a H. se_inv H. reflexivity. Qed.
Lemma keeps9_lift {A} (r : result A) : keeps9 (se_lift r). Proof. intros v v' a H. se_inv H. reflexivity. Qed.
Lemma keeps9_deref {A} (o : option A) : keeps9 (deref o). Proof. intros v v' a H. se_inv H. reflexivity. Qed.
Lemma keeps9_ret {A} (x : A) : keeps9 (se_ret x). Proof. intros v v' a H. se_inv H. reflexivity. Qed.
Lemma keeps9_write s : keeps9 (wr_write s). Proof. intros v v' a H. eapply wr_write_h; eauto. Qed.
Lemma keeps9_mod f : (forall v, y_h (f v) = y_h v) -> keeps9 (se_mod f).
Proof. intros Hf v v' a H. se_inv H. apply Hf. Qed.
Lemma keeps9_get_isa i : keeps9 (in_hy (get_isa i)).
Proof. intros v v' a H. apply in_hy_get_isa in H as (_ & _ & E & _). exact E. Qed.
Lemma keeps9_get_gs i : keeps9 (in_hy (get_gs i)).
Proof. intros v v' a H. apply in_hy_get_gs in H as (_ & _ & E & _). exact E. Qed.

Ltac keeps9_tac :=
  repeat first [ apply keeps9_bind; [|intros ?] | apply keeps9_get | apply keeps9_lift | apply keeps9_deref | apply keeps9_ret
               | apply keeps9_write | apply keeps9_get_isa | apply keeps9_get_gs | apply keeps9_mod; intros ?; reflexivity ].

Lemma visit_root_pre9_keeps ck : keeps9 (visit_root_pre9 ck).
Proof. unfold visit_root_pre9. keeps9_tac. Qed.

Lemma visit_root_post9_keeps : keeps9 visit_root_post9.
Proof.
  unfold visit_root_post9. keeps9_tac.
  match goal with |- keeps9 (if ?c then _ else _) => destruct c end; keeps9_tac.
Qed.

(* ------------------------------------------------------------------ *)
(* the whole run                                                       *)
(* ------------------------------------------------------------------ *)
Definition gctl_of (ck : clock) : str := fmt_Zi (ck_rand ck).
Definition ge_999 (ck : clock) (k : nat) : seg := tr "GE" (Z.of_nat k) (Some (echo (gctl_of ck))).
Definition iea_999 (ck : clock) : seg := tr "IEA" 1 (Some (echo (ctl_of ck))).

Lemma run_content9 ck h h' lines : render_999 ck h = (h', lines, None) ->
  exists a1 a2 a3 a4 a5 a6 a7 a8 a9 a10 a11 a12 a14 a15 b1 b2 b3 b4 b5 b7 b8 tail,
    let isa := {| sid := Some (l "ISA");
                  els := [a1; a2; a3; a4; a5; a6; a7; a8; a9; a10; a11; a12; split ":"%char (ctl_of ck); a14; a15; [l ":"]] |} in
    let gs := {| sid := Some (l "GS"); els := [b1; b2; b3; b4; b5; split ":"%char (gctl_of ck); b7; b8] |} in
    lines = map line_999 (isa :: gs :: number_sets_999 1 (expected_sets_999 h)
                              ++ ge_999 ck (length (expected_sets_999 h)) :: tail) /\
    sets_from 1 (number_sets_999 1 (expected_sets_999 h)) (S (length (expected_sets_999 h))) /\
    (tail = [iea_999 ck] \/ exists ta1, has_sid ta1 "TA1" = true /\ tail = [ta1; iea_999 ck]) /\
    h' = normalise_997 h.
Proof.
  intros H. unfold render_999 in H. destruct (accept_root9 ck (v999_init h)) as [v r] eqn:E.
  destruct r as [u|e]; [|discriminate]. injection H as <- <-.
  unfold accept_root9 in E. apply bind_ok in E as (v1 & u1 & H1 & E).
  pose proof (visit_root_pre9_keeps ck _ _ _ H1) as K1. cbn [y_h v999_init] in K1.
  apply visit_root_pre9_spec in H1 as (a1 & a2 & a3 & a4 & a5 & a6 & a7 & a8 & a9 & a10 & a11 & a12 & a14 & a15 &
                                       b1 & b2 & b3 & b4 & b5 & b7 & b8 & I0). cbn zeta in I0.
  apply bind_ok in E as (v1' & vv & Hg & E). se_inv Hg.
  apply bind_ok in E as (v2 & u2 & H2 & H3).
  match type of I0 with Inv9 ?i ?g ?a ?b 0 [] v1 => set (isa := i) in *; set (gs := g) in *; set (icn := a) in *; set (g6 := b) in * end.
  assert (IC0 : InvC9 h isa gs icn g6 [] [] v1).
  { split; [exact I0|]. unfold Good9. rewrite norm_at_nil, set_h_gs_same. exact K1. }
  apply (iter_isa9_content _ _ _ _ _ _ _ _ _ _ _ IC0) in H2. rewrite K1, !flat_at_all in H2. cbn [app] in H2.
  fold (visited_gs h) in H2. fold (expected_sets_999 h) in H2. destruct H2 as [I2 G2].
  pose proof (visit_root_post9_keeps _ _ _ H3) as K3.
  apply (visit_root_post9_spec _ _ _ _ _ _ _ _ _ I2) in H3 as (tail & O & T).
  exists a1, a2, a3, a4, a5, a6, a7, a8, a9, a10, a11, a12, a14, a15, b1, b2, b3, b4, b5, b7, b8, tail. cbn zeta.
  split; [exact O|]. split; [exact (j_sets _ _ _ _ _ _ _ I2)|]. split; [exact T|].
  rewrite K3, G2. apply norm_at_visited.
Qed.

(* the content, for every handler state and clock *)
Theorem ack999_content_any ck h h' lines :
  render_999 ck h = (h', lines, None) ->
  exists isa gs trailer,
    lines = map line_999 ([isa; gs] ++ number_sets_999 1 (expected_sets_999 h) ++ trailer) /\
    has_sid isa "ISA" = true /\ has_sid gs "GS" = true /\
    (trailer = [ge_999 ck (length (expected_sets_999 h)); iea_999 ck] \/
     exists ta1, has_sid ta1 "TA1" = true /\ trailer = [ge_999 ck (length (expected_sets_999 h)); ta1; iea_999 ck]) /\
    h' = normalise_997 h.
Proof.
  intros H. apply run_content9 in H as (a1 & a2 & a3 & a4 & a5 & a6 & a7 & a8 & a9 & a10 & a11 & a12 & a14 & a15 &
                                        b1 & b2 & b3 & b4 & b5 & b7 & b8 & tail & L & _ & T & HA). cbn zeta in L.
  eexists _, _, (ge_999 ck (length (expected_sets_999 h)) :: tail).
  split; [exact L|]. split; [reflexivity|]. split; [reflexivity|]. split; [|exact HA].
  destruct T as [->|(ta1 & T1 & ->)]; [left; reflexivity|right; exists ta1; auto].
Qed.

(* with the hypothesis of C06 the same list of segments passes the envelope recount *)
Theorem ack999_content ck h h' lines :
  clock_ok9 ck = true ->
  render_999 ck h = (h', lines, None) ->
  exists isa gs trailer,
    lines = map line_999 ([isa; gs] ++ number_sets_999 1 (expected_sets_999 h) ++ trailer) /\
    envelope_ok ([isa; gs] ++ number_sets_999 1 (expected_sets_999 h) ++ trailer) = true /\
    h' = normalise_997 h.
Proof.
  intros CK H. apply run_content9 in H as (a1 & a2 & a3 & a4 & a5 & a6 & a7 & a8 & a9 & a10 & a11 & a12 & a14 & a15 &
                                           b1 & b2 & b3 & b4 & b5 & b7 & b8 & tail & O & SF & T & HA). cbn zeta in O.
  set (k := length (expected_sets_999 h)) in *. set (rest := number_sets_999 1 (expected_sets_999 h)) in *.
  unfold ge_999, iea_999, gctl_of in *.
  set (gctl := fmt_Zi (ck_rand ck)) in *. set (ctl := ctl_of ck) in *.
  set (isa := {| sid := Some (l "ISA"); els := [a1; a2; a3; a4; a5; a6; a7; a8; a9; a10; a11; a12; split ":"%char ctl; a14; a15; [l ":"]] |}) in *.
  set (gs := {| sid := Some (l "GS"); els := [b1; b2; b3; b4; b5; split ":"%char gctl; b7; b8] |}) in *.
  destruct (fmt_Zi_free (ck_rand ck)) as (G1 & G2 & G3). fold gctl in G1, G2, G3.
  rewrite (echo_free gctl G3) in O.
  assert (GE : tr "GE" (Z.of_nat k) (Some gctl) = {| sid := Some (l "GE"); els := [[dec k]; split ":"%char gctl] |}).
  { unfold tr. cbn [show_oid]. rewrite fmt_Z_nat.
    apply parse_trailer; [apply nostar; reflexivity|reflexivity|exact G2|apply ends_with_notin; exact G1]. }
  rewrite GE in O. set (ge := {| sid := Some (l "GE"); els := [[dec k]; split ":"%char gctl] |}) in *.
  apply tail_ok_E in CK as [CK1 CK2]. fold ctl in CK1, CK2.
  set (iea := tr "IEA" 1 (Some (echo ctl))) in *.
  assert (IE : iea = {| sid := Some (l "IEA"); els := [[dec 1]; keep ele_empty (split ":"%char ctl)] |}).
  { subst iea. unfold tr. cbn [show_oid]. change (fmt_Z 1) with (dec 1). rewrite <- split_echo.
    apply parse_trailer; [apply nostar; reflexivity|reflexivity|exact CK1|exact CK2]. }
  set (isa' := {| sid := Some (l "ISA");
                  els := [a1; a2; a3; a4; a5; a6; a7; a8; a9; a10; a11; a12; keep ele_empty (split ":"%char ctl); a14; a15; [l ":"]] |}).
  assert (L : line_999 isa = line_999 isa').
  { unfold line_999, emit. cbn [wd w_init]. f_equal. apply format_seg_like.
    repeat (apply Forall2_cons; [first [apply comp_like_refl|apply comp_like_trim]|]). constructor. }
  exists isa', gs, (ge :: tail). cbn [app]. split; [|split; [|exact HA]].
  - rewrite O. cbn [map]. rewrite L. reflexivity.
  - apply (envelope_intro isa' gs rest k ge tail).
    + reflexivity.
    + reflexivity.
    + reflexivity.
    + exact SF.
    + reflexivity.
    + apply (elc_is_intro ge 1 _ [dec k]); reflexivity.
    + unfold elc_same, ge, gs. cbn [elc els nth_error]. apply comp_eqb_refl.
    + exists iea. split; [|exact T].
      unfold iea_ok. rewrite IE. replace (has_sid _ "IEA") with true by reflexivity.
      rewrite (elc_is_intro _ 1 (dec 1) [dec 1]) by reflexivity. cbn [andb].
      unfold elc_same, isa'. cbn [elc els nth_error]. apply comp_eqb_refl.
Qed.

Print Assumptions ack999_content_any.
Print Assumptions ack999_content.

(* ================================================================== *)
(* the AK1 / AK2 lines of the 999 name every group and every set       *)
(* ================================================================== *)
Lemma ik3_not12 n cde : is_ak12 (ik3_999 n cde) = false.
Proof.
  unfold ik3_999. destruct (seg_set D _ _ cde) as [s|e] eqn:E; cbn [the_seg]; [|reflexivity].
  apply (not_ak12 _ "IK3"); try reflexivity.
  rewrite (seg_set_sid _ _ _ _ _ E). apply reparse_sid; [reflexivity|apply nostar; reflexivity].
Qed.
Lemma ik4_not12 e er : is_ak12 (ik4_999 e er) = false.
Proof.
  unfold ik4_999. destruct (seg_set D _ (C05_spec999.l "IK403") _) as [s|x] eqn:E; cbn [bind the_seg]; [|reflexivity].
  assert (S : sid s = Some (l "IK4")).
  { rewrite (seg_set_sid _ _ _ _ _ E). apply reparse_sid; [reflexivity|apply nostar; reflexivity]. }
  destruct (truthy_s (snd er)); cbn [the_seg]; [|apply (not_ak12 _ "IK4"); try reflexivity; exact S].
  destruct (seg_set D s _ _) as [s'|x] eqn:E'; cbn [the_seg]; [|reflexivity].
  apply (not_ak12 _ "IK4"); try reflexivity. rewrite (seg_set_sid _ _ _ _ _ E'). exact S.
Qed.

Lemma seg_body9_names h n : filter is_ak12 (seg_body_999 h n) = [].
Proof.
  unfold seg_body_999, ik3s_999. rewrite !filter_app, !filter_flat_map.
  rewrite flat_map_nil, flat_map_nil.
  - destruct (_ && _); cbn [filter app]; [rewrite ik3_not12|]; reflexivity.
  - intros e. unfold ik4s_999. rewrite filter_flat_map. apply flat_map_nil. intros er.
    destruct (mem_str _ _); cbn [filter]; [rewrite ik4_not12|]; reflexivity.
  - intros cde. destruct (mem_str _ _); cbn [filter]; [rewrite ik3_not12|]; reflexivity.
Qed.

Lemma st_body9_names h t : filter is_ak12 (st_body_999 h t) = [ak2_999 t].
Proof.
  unfold st_body_999. cbn [filter]. replace (is_ak12 (ak2_999 t)) with true by reflexivity.
  rewrite filter_app, filter_flat_map, flat_map_nil by (intros n; apply seg_body9_names). reflexivity.
Qed.

Lemma gs_body9_names h g : filter is_ak12 (gs_body_999 h g) = ak1_999 g :: map ak2_999 (nodes_at (h_st h) (gn_children g)).
Proof.
  unfold gs_body_999. cbn [filter]. replace (is_ak12 (ak1_999 g)) with true by reflexivity. rewrite filter_app, filter_flat_map.
  rewrite (flat_map_ext _ _ (st_body9_names h)), flat_map_single. cbn [filter].
  replace (is_ak12 (ak9_999 h g)) with false by reflexivity. rewrite app_nil_r. reflexivity.
Qed.

Lemma number_sets9_names h : forall bodies k,
  filter is_ak12 (number_sets_999 k (map (gs_body_999 h) bodies)) =
  flat_map (fun g => ak1_999 g :: map ak2_999 (nodes_at (h_st h) (gn_children g))) bodies.
Proof.
  induction bodies as [|g r IH]; intros k; cbn [map number_sets_999 flat_map]; [reflexivity|].
  rewrite filter_app, IH. unfold set_999. cbn [filter]. replace (is_ak12 (st_999 k)) with false by reflexivity.
  rewrite filter_app, gs_body9_names. cbn [filter]. replace (is_ak12 (se_997 k _)) with false by reflexivity.
  rewrite app_nil_r. reflexivity.
Qed.

Theorem ack999_names_every_group_and_set ck h h' lines :
  render_999 ck h = (h', lines, None) ->
  exists segs, lines = map line_999 segs /\ filter is_ak12 segs = names_999 h.
Proof.
  intros H. apply ack999_content_any in H as (isa & gs & trailer & L & A1 & A2 & T & _).
  eexists. split; [exact L|]. rewrite !filter_app. unfold expected_sets_999. rewrite number_sets9_names.
  cbn [filter]. rewrite (not_ak12_has isa "ISA" A1), (not_ak12_has gs "GS" A2) by reflexivity. cbn [app].
  fold (names_999 h).
  assert (TE : filter is_ak12 trailer = []).
  { assert (GE : forall k, is_ak12 (ge_999 ck k) = false).
    { intros k. apply (not_ak12 _ "GE"); try reflexivity. apply (parse_lit_sid (l "GE")). apply nostar. reflexivity. }
    assert (IE : is_ak12 (iea_999 ck) = false).
    { apply (not_ak12 _ "IEA"); try reflexivity. apply (parse_lit_sid (l "IEA")). apply nostar. reflexivity. }
    destruct T as [->|(ta1 & T1 & ->)]; cbn [filter]; rewrite GE, IE; [reflexivity|].
    rewrite (not_ak12_has ta1 "TA1" T1) by reflexivity. reflexivity. }
  rewrite TE, app_nil_r. reflexivity.
Qed.

(* the IK5 carries the set's ack code, the AK9 the same totals as in the 997 *)
Theorem set_accepted_iff_no_counted_error_999 src h i t :
  c_st h = Some i -> nth_error (h_st h) i = Some t ->
  exists h' t', close_st_loop src h = (h', Ok tt) /\ nth_error (h_st h') i = Some t' /\
    elc_is (ik5_999 h' t') 1 (st_code h t) = true.
Proof.
  intros C N. destruct (close_st_loop_ack src h i t C N) as (h' & t' & R & N' & A & _).
  exists h', t'. split; [exact R|]. split; [exact N'|].
  unfold ik5_999. rewrite A. unfold st_code. destruct (st_err_count h t =? 0); reflexivity.
Qed.

Theorem group_totals_999 h g :
  elc (ak9_999 h g) 1 = Some (split ":"%char (val (gs_ack_written g))) /\
  elc_is (ak9_999 h g) 2 (fmt_Zi (gn_orig g)) = true /\
  elc_is (ak9_999 h g) 3 (fmt_Zi (gn_recv g)) = true /\
  elc_is (ak9_999 h g) 4 (fmt_Zi (gs_accepted h g)) = true.
Proof.
  split; [reflexivity|].
  repeat split; unfold elc_is, ak9_999; cbn [elc els mkseg map app nth_error]; rewrite split_fmt_Zi; apply str_eqb_refl.
Qed.

Print Assumptions ack999_names_every_group_and_set.
Print Assumptions set_accepted_iff_no_counted_error_999.
Print Assumptions group_totals_999.
