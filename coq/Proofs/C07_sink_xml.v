(* C07_sink_xml.v — the XML sink (Model/XmlOut.v: x12xml_simple.seg / __del__ / __init__) raises
   nothing but an allowed exception (X12Error / EngineError), for a segment node of a map that
   satisfies walker_wf and xml_ok (Spec/C07_sinks_spec.v).

   Raise sites of simple_seg and how each is discharged:
     gi_parent_path, cur_path[-1], cur_path[i]   xml_ok: the path is Ok and names at least one loop
     seg_child_by_idx                            raises only EngineError; None is impossible below
                                                 min (len seg_data) (len children)
     seg_data.get('%02i' % (i+1))                for i + 1 <= 99 the designator parses as an element
                                                 index with no segment id: a composite is returned
     write_subeles                               the loop stops at the composite's last child
     the writer                                  pure writes *)
From Coq Require Import String.
From PX.Lib Require Import Base PyStr PyInt.
From PX.Model Require Import Path Segment MapLoad MapTree OutW.
From PX.Model Require XmlOut.
From PX.Spec Require Import C07_walker_wf C07_spec C07_sinks_spec.
From PX.Proofs Require Import C07_walker_lemmas C07_walker C07_errh.

Import XmlOut.

(* ------------------------------------------------------------------ *)
(* the two safety predicates on W computations                          *)

(* never raises *)
Definition wok {S A} (m : W S A) : Prop := forall s, exists s' ws a, m s = (s', ws, Ok a).

(* raises nothing but an allowed exception *)
Definition wsafe {S A} (m : W S A) : Prop :=
  forall s, match m s with (_, _, Ok _) => True | (_, _, Raise e) => allowed e = true end.

Lemma wok_wsafe {S A} (m : W S A) : wok m -> wsafe m.
Proof. intros H s. destruct (H s) as (s' & ws & a & E). rewrite E. exact I. Qed.

Lemma wok_ret {S A} (a : A) : wok (@w_ret S A a).
Proof. intros s. unfold w_ret. eauto. Qed.

Lemma wok_get {S} : wok (@w_get S).
Proof. intros s. unfold w_get. eauto. Qed.

Lemma wok_put {S} (x : S) : wok (w_put x).
Proof. intros s. unfold w_put. eauto. Qed.

Lemma wok_mod {S} (f : S -> S) : wok (w_mod f).
Proof. intros s. unfold w_mod. eauto. Qed.

Lemma wok_write {S} (x : str) : wok (@w_write S x).
Proof. intros s. unfold w_write. eauto. Qed.

Lemma wok_lift {S A} (a : A) : wok (@w_lift S A (Ok a)).
Proof. intros s. unfold w_lift. eauto. Qed.

Lemma wok_bind {S A B} (m : W S A) (f : A -> W S B) :
  wok m -> (forall a, wok (f a)) -> wok (w_bind m f).
Proof.
  intros Hm Hf s. unfold w_bind. destruct (Hm s) as (s1 & o1 & a & E). rewrite E.
  destruct (Hf a s1) as (s2 & o2 & b & E2). rewrite E2. eauto.
Qed.

Lemma wok_iter {S A} (f : A -> W S unit) xs : (forall x, In x xs -> wok (f x)) -> wok (w_iter f xs).
Proof.
  induction xs as [|x xs IH]; intros H; cbn [w_iter]; [apply wok_ret|].
  apply wok_bind; [apply H; left; reflexivity|]. intros _. apply IH. intros y Hy. apply H. right. exact Hy.
Qed.

Lemma wok_times {S} n (m : W S unit) : wok m -> wok (w_times n m).
Proof.
  intros H. induction n as [|n IH]; cbn [w_times]; [apply wok_ret|].
  apply wok_bind; [exact H|]. intros _. exact IH.
Qed.

Lemma wsafe_ret {S A} (a : A) : wsafe (@w_ret S A a).
Proof. apply wok_wsafe, wok_ret. Qed.

Lemma wsafe_raise {S A} e : allowed e = true -> wsafe (@w_raise S A e).
Proof. intros H s. unfold w_raise. exact H. Qed.

Lemma wsafe_bind {S A B} (m : W S A) (f : A -> W S B) :
  wsafe m -> (forall a, wsafe (f a)) -> wsafe (w_bind m f).
Proof.
  intros Hm Hf s. unfold w_bind. specialize (Hm s). destruct (m s) as [[s1 o1] [a|e]]; [|exact Hm].
  specialize (Hf a s1). destruct (f a s1) as [[s2 o2] r]. exact Hf.
Qed.

(* a lifted pure result: the continuation only has to be safe on the value actually returned *)
Lemma wsafe_bind_lift {S A B} (r : result A) (f : A -> W S B) :
  (forall e, r = Raise e -> allowed e = true) ->
  (forall a, r = Ok a -> wsafe (f a)) -> wsafe (w_bind (w_lift r) f).
Proof.
  intros Hr Hf s. unfold w_bind, w_lift. destruct r as [a|e]; [|apply Hr; reflexivity].
  specialize (Hf a eq_refl s). destruct (f a s) as [[s2 o2] r]. exact Hf.
Qed.

(* the state read by w_get *)
Lemma wsafe_bind_get {S B} (f : S -> W S B) : (forall st, wsafe (f st)) -> wsafe (w_bind w_get f).
Proof. intros H. apply wsafe_bind; [apply wok_wsafe, wok_get | exact H]. Qed.

Lemma wsafe_iter {S A} (f : A -> W S unit) xs : (forall x, In x xs -> wsafe (f x)) -> wsafe (w_iter f xs).
Proof.
  induction xs as [|x xs IH]; intros H; cbn [w_iter]; [apply wsafe_ret|].
  apply wsafe_bind; [apply H; left; reflexivity|]. intros _. apply IH. intros y Hy. apply H. right. exact Hy.
Qed.

(* ------------------------------------------------------------------ *)
(* the writer never raises                                              *)

Lemma xw_do_indent_ok : wok xw_do_indent.
Proof. unfold xw_do_indent. apply wok_bind; [apply wok_get|]. intros st. apply wok_write. Qed.

Lemma xw_attrs_ok attrs : wok (xw_attrs attrs).
Proof. unfold xw_attrs. apply wok_iter. intros x _. apply wok_write. Qed.

Lemma xw_push_ok e attrs : wok (xw_push e attrs).
Proof.
  unfold xw_push.
  apply wok_bind; [apply xw_do_indent_ok|]; intros _.
  apply wok_bind; [apply wok_write|]; intros _.
  apply wok_bind; [apply xw_attrs_ok|]; intros _.
  apply wok_bind; [apply wok_write|]; intros _.
  apply wok_mod.
Qed.

Lemma xw_elem_ok e c attrs : wok (xw_elem e c attrs).
Proof.
  unfold xw_elem.
  apply wok_bind; [apply xw_do_indent_ok|]; intros _.
  apply wok_bind; [apply wok_write|]; intros _.
  apply wok_bind; [apply xw_attrs_ok|]; intros _.
  apply wok_write.
Qed.

Lemma xw_pop_ok : wok xw_pop.
Proof.
  unfold xw_pop. apply wok_bind; [apply wok_get|]. intros st.
  destruct (rev (xw_stack st)) as [|e r]; [apply wok_ret|].
  apply wok_bind; [apply wok_put|]; intros _.
  apply wok_bind; [apply xw_do_indent_ok|]; intros _.
  apply wok_write.
Qed.

Lemma xw_init_ok : wok xw_init.
Proof. unfold xw_init. apply wok_write. Qed.

Lemma xw_doctype_ok root p sysid : wok (xw_doctype root p sysid).
Proof. unfold xw_doctype. destruct p; apply wok_write. Qed.

Lemma wok_unit {S} (m : W S unit) : wok m -> forall xs, exists xs' ws, m xs = (xs', ws, Ok tt).
Proof. intros H xs. destruct (H xs) as (s' & ws & [] & E). eauto. Qed.

Lemma simple_del_safe xs : exists xs' ws, simple_del xs = (xs', ws, Ok tt).
Proof.
  apply wok_unit. unfold simple_del. apply wok_bind; [apply wok_get|]. intros st.
  apply wok_times, xw_pop_ok.
Qed.

Lemma simple_init_safe dtd xs : exists xs' ws, simple_init dtd xs = (xs', ws, Ok tt).
Proof.
  apply wok_unit. unfold simple_init.
  apply wok_bind; [apply xw_init_ok|]; intros _.
  apply wok_bind.
  { destruct dtd as [[|c r]|]; [apply wok_ret | apply xw_doctype_ok | apply wok_ret]. }
  intros _. apply wok_bind; [apply xw_push_ok|]; intros _. apply wok_mod.
Qed.

(* ------------------------------------------------------------------ *)
(* Python indexing of a non-empty list with an index in [-1, len)       *)

Lemma py_nth_ok {A} (xs : list A) i :
  xs <> [] -> (-1 <= i < Z.of_nat (length xs))%Z -> exists a, py_nth xs i = Ok a.
Proof.
  intros NE Hi. assert (0 < length xs) by (destruct xs; [congruence | cbn [length]; lia]).
  unfold py_nth. destruct (i <? 0)%Z eqn:L.
  - apply Z.ltb_lt in L. destruct (i + Z.of_nat (length xs) <? 0)%Z eqn:L2; [apply Z.ltb_lt in L2; lia|].
    apply nth_res_lt. lia.
  - apply Z.ltb_ge in L. apply nth_res_lt. lia.
Qed.

Lemma in_zrange a b i : In i (zrange a b) -> (a <= i < b)%Z.
Proof.
  unfold zrange. intros H. apply in_map_iff in H as (k & <- & Hk). apply in_seq in Hk. lia.
Qed.

(* ------------------------------------------------------------------ *)
(* the target of a segment reference                                    *)

Lemma node_at_nil r : node_at [] r = None.
Proof. destruct r as [|i r]; cbn [node_at]; [reflexivity|]. destruct i; reflexivity. Qed.

Lemma target_at_seg : forall r ns pp sn,
  node_at ns r = Some (NSeg sn) -> exists gi, target_at ns pp r = Some (TSeg gi).
Proof.
  induction r as [|i rest IH]; intros ns pp sn H; cbn [node_at] in H; [discriminate|].
  cbn [target_at]. destruct (nth_error ns i) as [n|]; [|discriminate].
  destruct rest as [|j rest'].
  - injection H as ->. eauto.
  - destruct n as [id a b c d e pm|sg]; cbn [node_children] in H.
    + eapply IH. exact H.
    + rewrite node_at_nil in H. discriminate.
Qed.

Lemma target_of_seg m r : seg_ref m r -> exists gi, XmlOut.target_of m r = Some (XmlOut.TSeg gi).
Proof. intros [sn H]. unfold target_of. eapply target_at_seg. exact H. Qed.

(* what xml_ok gives for a segment reference *)
Lemma xml_ok_seg m r gi :
  walker_wf m = true -> xml_ok m = true -> seg_ref m r -> target_of m r = Some (TSeg gi) ->
  (exists pp, gi_parent_path gi = Ok pp /\ path_list pp <> []) /\ length (gi_children gi) <= 99.
Proof.
  intros WF X [sn H] T. unfold walker_wf in WF. apply andb_true_iff in WF as [D _].
  pose proof (all_refs_complete m r _ D H) as I.
  unfold xml_ok in X. rewrite forallb_forall in X. specialize (X r I).
  unfold xml_ref_ok in X. rewrite T in X. apply andb_true_iff in X as [X1 X2].
  apply Nat.leb_le in X2. split; [|exact X2].
  destruct (gi_parent_path gi) as [pp|e]; [|discriminate].
  exists pp. split; [reflexivity|]. destruct (path_list pp); [discriminate | congruence].
Qed.

(* ------------------------------------------------------------------ *)
(* '%02i' % n for 1 <= n <= 99 is an element designator                 *)

Definition des_ok (n : nat) : bool :=
  match parse_path (fmt_02 (N.of_nat n)) with
  | Ok xp => match seg_id xp, ele_idx xp, subele_idx xp with
             | None, Some k, None => N.eqb k (N.of_nat n)
             | _, _, _ => false
             end
  | Raise _ => false
  end.

Lemma des_ok_99 : forallb des_ok (seq 1 99) = true.
Proof. vm_compute. reflexivity. Qed.

Lemma seg_get_comp s i :
  i < length (els s) -> i < 99 ->
  exists c, seg_get s (fmt_02 (N.of_nat (i + 1))) = Ok (GotComp c).
Proof.
  intros L B. pose proof des_ok_99 as F. rewrite forallb_forall in F.
  specialize (F (i + 1)). assert (In (i + 1) (seq 1 99)) as I by (apply in_seq; lia). specialize (F I).
  unfold des_ok in F. unfold seg_get, parse_refdes.
  destruct (parse_path (fmt_02 (N.of_nat (i + 1)))) as [xp|e]; [|discriminate]. cbn [bind].
  destruct (seg_id xp); [discriminate|]. destruct (ele_idx xp) as [k|]; [|discriminate].
  destruct (subele_idx xp); [discriminate|]. apply N.eqb_eq in F. subst k.
  cbn [bind option_map]. unfold get_ix. cbn [fst snd].
  destruct (Z.of_nat (length (els s)) <=? Z.of_N (N.of_nat (i + 1)) - 1)%Z eqn:E; [apply Z.leb_le in E; lia|].
  destruct (py_nth_ok (els s) (Z.of_N (N.of_nat (i + 1)) - 1)) as [c Hc].
  { destruct (els s); [cbn [length] in L; lia | congruence]. }
  { lia. }
  rewrite Hc. cbn [bind]. eauto.
Qed.

(* ------------------------------------------------------------------ *)
(* the parts of seg()                                                   *)

Lemma loop_repeat_ok cur : cur <> [] -> wok (loop_repeat cur).
Proof.
  intros NE. unfold loop_repeat. apply wok_bind; [apply xw_pop_ok|]; intros _.
  destruct (py_nth_ok cur (-1)%Z NE) as [a Ha].
  { destruct cur; [congruence | cbn [length]; lia]. }
  rewrite Ha. apply wok_bind; [apply wok_lift|]. intros id. apply xw_push_ok.
Qed.

Lemma loop_change_ok first last cur : cur <> [] -> wok (loop_change first last cur).
Proof.
  intros NE. unfold loop_change.
  set (mi := if _ && _ then _ else _).
  assert (-1 <= mi)%Z as Hmi by (subst mi; destruct (_ && _); lia).
  apply wok_bind; [apply wok_times, xw_pop_ok|]; intros _.
  apply wok_iter. intros i Hi. apply in_zrange in Hi.
  destruct (py_nth_ok cur i NE) as [a Ha]; [lia|].
  rewrite Ha. apply wok_bind; [apply wok_lift|]. intros id. apply xw_push_ok.
Qed.

Lemma combine_seq_In {A} (xs : list A) j v : In (j, v) (combine (seq 0 (length xs)) xs) -> j < length xs.
Proof. intros H. apply in_combine_l in H. apply in_seq in H. lia. Qed.

Lemma write_subeles_ok c cd : wok (write_subeles c cd).
Proof.
  unfold write_subeles. apply wok_iter. intros [j v] H. cbn [fst snd].
  apply combine_seq_In in H. rewrite firstn_length in H.
  unfold comp_child_by_idx. destruct (nth_error (ci_subids c) j) as [sid|] eqn:E.
  - apply xw_elem_ok.
  - apply nth_error_None in E. lia.
Qed.

Lemma seg_child_by_idx_safe cs i :
  i < length cs ->
  match seg_child_by_idx cs i with
  | Ok (Some _) => True
  | Ok None => False
  | Raise e => allowed e = true
  end.
Proof.
  intros L. unfold seg_child_by_idx. destruct (length cs <=? i) eqn:E; [apply Nat.leb_le in E; lia|].
  destruct (filter _ cs) as [|c [|c' r]]; reflexivity || exact I.
Qed.

Lemma write_child_safe gi d s i :
  i < length (els s) -> i < length (gi_children gi) -> length (gi_children gi) <= 99 ->
  wsafe (write_child gi d s i).
Proof.
  intros Ls Lc B. unfold write_child.
  pose proof (seg_child_by_idx_safe (gi_children gi) i Lc) as C.
  destruct (seg_get_comp s i Ls) as [cp G]; [lia|].
  assert (GV : seg_get_value d s (fmt_02 (N.of_nat (i + 1))) = Ok (Some (format_comp (subele_term d) cp))).
  { unfold seg_get_value. rewrite G. reflexivity. }
  apply wsafe_bind_lift.
  { intros e E. rewrite E in C. exact C. }
  intros [c|] E; rewrite E in C; [clear C | destruct C].
  rewrite G, GV.
  apply wsafe_bind.
  { destruct (opt_eqb str_eqb (ci_usage c) _); [apply wsafe_ret|].
    apply wsafe_bind_lift; [discriminate|]. intros g Eg. injection Eg as <-. apply wsafe_ret. }
  intros [|]; [apply wsafe_ret|].
  destruct (ci_kind c).
  - apply wsafe_bind_lift; [discriminate|]. intros v _.
    destruct (opt_eqb str_eqb v (Some [])); [apply wsafe_ret|].
    apply wsafe_bind_lift; [discriminate|]. intros v2 _. apply wok_wsafe, xw_elem_ok.
  - apply wsafe_bind; [apply wok_wsafe, xw_push_ok|]; intros _.
    apply wsafe_bind_lift; [discriminate|]. intros g Eg. injection Eg as <-.
    apply wsafe_bind_lift; [discriminate|]. intros cd _.
    apply wsafe_bind; [apply wok_wsafe, write_subeles_ok|]; intros _.
    apply wok_wsafe, xw_pop_ok.
Qed.

(* ------------------------------------------------------------------ *)
(* seg()                                                                *)

Theorem simple_seg_safe m r gi d s xs :
  walker_wf m = true -> xml_ok m = true -> seg_ref m r ->
  XmlOut.target_of m r = Some (XmlOut.TSeg gi) ->
  match XmlOut.simple_seg (XmlOut.TSeg gi) d s xs with
  | (_, _, Ok _) => True
  | (_, _, Raise e) => allowed e = true
  end.
Proof.
  intros WF X SR T.
  destruct (xml_ok_seg m r gi WF X SR T) as [(pp & P & NE) B].
  revert xs. change (wsafe (simple_seg (TSeg gi) d s)). unfold simple_seg.
  rewrite P. apply wsafe_bind_lift; [discriminate|]. intros pp' Epp. injection Epp as <-.
  apply wsafe_bind_get. intros st.
  apply wsafe_bind.
  { destruct (_ && _); apply wok_wsafe; [apply loop_repeat_ok | apply loop_change_ok]; exact NE. }
  intros _. apply wsafe_bind; [apply wok_wsafe, xw_push_ok|]; intros _.
  apply wsafe_bind.
  { apply wsafe_iter. intros i Hi. apply in_seq in Hi. apply write_child_safe; lia. }
  intros _. apply wsafe_bind; [apply wok_wsafe, xw_pop_ok|]; intros _.
  apply wok_wsafe, wok_mod.
Qed.

Print Assumptions simple_seg_safe.
