(* C03_doc_examples.v — non-vacuity of Proofs/C03_doc.v on shipped maps (the conformant documents of
   Proofs/C02_doc_examples.v with one fault injected: the theorem applies, and the walker evaluated on the
   faulty document agrees with it) and the corners in which a fault is NOT reported where C03 says. *)
From Coq Require Import String Lia.
From PX.Lib Require Import Base PyStr PyInt Regex Xml.
From PX.Model Require Import Path Segment Syntax MapLoad MapTree Element Counter Walker.
From PX.Spec Require Import C07_walker_wf C02_doc_spec C03_doc_spec.
From PX.Proofs Require Import Counter_keys C07_walker_lemmas C07_walker C02_doc_counter C02_doc_walk C02_doc
                              C03_doc_walk C03_doc_inv C03_doc C02_doc_examples.

(* the walker over a list of data segments: for every segment the node returned (None: not found, the
   position is kept, as x12n_document does), the (code, text) of the errors reported, and the texts left in
   mandatory_segs_missing when walk returns *)
Fixpoint ftrace (m : xmap) (d : delims) (w : wstate) (p : nref) (segs : list seg)
  : list (option nref * list (string * string) * list string) :=
  match segs with
  | [] => []
  | sg :: rest =>
      let pend w' := map (fun e => string_of_list_ascii (me_msg e)) (w_missing w') in
      match walk_st m w p d sg 0 0 None with
      | (w', evs, Ok (Some t', _, _)) => (Some t', errs evs, pend w') :: ftrace m d w' t' rest
      | (w', evs, Ok (None, _, _)) => (None, errs evs, pend w') :: ftrace m d w' p rest
      | (w', evs, Raise _) => [(None, errs evs, [])]
      end
  end.

(* the final state of the same *)
Fixpoint fexec (m : xmap) (d : delims) (w : wstate) (p : nref) (segs : list seg) : wstate :=
  match segs with
  | [] => w
  | sg :: rest =>
      match walk_st m w p d sg 0 0 None with
      | (w', _, Ok (Some t', _, _)) => fexec m d w' t' rest
      | (w', _, _) => fexec m d w' p rest
      end
  end.

Definition ok_at (t : nref) : option nref * list (string * string) * list string := (Some t, [], []).

(* ------------------------------------------------------------------ *)
(* 1. unknown segment: 997.4010, ZZ*1 after the first AK3 of the conformant document of C02_doc_examples *)

Module U997.
  Import M997.
  Local Open Scope string_scope.

  Definition z : seg := P "ZZ*1~".
  Definition pre : list item := firstn 3 body.      (* AK1 AK2 AK3 *)
  Definition post : list item := skipn 3 body.      (* AK4 AK4 AK3 AK5 AK2 AK5 AK9 SE *)

  Example unknown : unknown_id mp z = true /\ unknown_seg mp d0 z = true.
  Proof. vm_compute. auto. Qed.

  (* the theorem applies ... *)
  Example rejected :
    exists wk,
      run mp d0 (start_state mp stl) r_st pre wk /\
      step_unknown mp d0 wk (last_ref pre r_st) z /\
      forall wz, same_counter wk wz ->
        exists w'', run mp d0 wz (last_ref pre r_st) post w'' /\
          forall r n, node_at (root_nodes mp) r = Some n ->
            cnt mp (w_counter w'') r = predicted (pre ++ post) (cnt mp (w_counter (start_state mp stl))) r.
  Proof.
    destruct statics as [WF KO].
    apply (C03_unknown_segment mp d0 WF KO stl (P "ST*997*0001~") pre post (start_state mp stl) z).
    - exact conformant.
    - eexists. eexists. vm_compute. reflexivity.
    - exact start_opened.
    - vm_compute. reflexivity.
  Qed.

  (* ... and this is what the walker does, computed: AK1, AK2, AK3 found; ZZ not found, one error with code 1,
     seven entries left in mandatory_segs_missing (every required node the search met that had not been seen:
     they are dropped when the next walk starts, never reported); the other eight segments found at their
     nodes with nothing reported; the final counts are those of the document without ZZ *)
  Example rejected_computed :
    ftrace mp d0 (start_state mp stl) r_st (map snd pre ++ z :: map snd post) =
      [ok_at r_ak1; ok_at r_ak2; ok_at r_ak3;
       (None,
        [("1", "Segment ZZ*1 not found.  Started at /ISA_LOOP/GS_LOOP/ST_LOOP/HEADER/AK2/AK3/AK3")],
        ["Mandatory segment ""Transaction Set Response Trailer"" (AK5) missing";
         "Mandatory segment ""Functional Group Response Trailer"" (AK9) missing";
         "Mandatory segment ""Transaction Set Trailer"" (SE) missing";
         "Mandatory segment ""Functional Group Trailer"" (GE) missing";
         "Mandatory loop ""Functional Group Header"" (GS_LOOP) missing";
         "Mandatory segment ""Interchange Control Trailer"" (IEA) missing";
         "Mandatory loop ""Interchange Control Header"" (ISA_LOOP) missing"]);
       ok_at r_ak4; ok_at r_ak4; ok_at r_ak3; ok_at r_ak5; ok_at r_ak2; ok_at r_ak5; ok_at r_ak9; ok_at r_se] /\
    map (cnt mp (w_counter (fexec mp d0 (start_state mp stl) r_st (map snd pre ++ z :: map snd post)))) nodes
      = map (predicted body (cnt mp (w_counter (start_state mp stl)))) nodes.
  Proof. vm_compute. auto. Qed.
End U997.

(* ------------------------------------------------------------------ *)
(* deciding the premises of the rules of finst / fbody                  *)

Lemma bsb_dec m L i j g :
  forallb (fun k => match gap_idx g with Some k0 => Nat.eqb k k0 | None => false end
                    || match nth_error (children_of m L) k with Some n => skippable 40 n | None => true end)
          (seq (S i) (j - S i)) = true ->
  between_skippable_but m L i j g.
Proof.
  intros H k n K1 K2 Hx Hk. rewrite forallb_forall in H.
  specialize (H k ltac:(apply in_seq; lia)). apply orb_true_iff in H as [H|H].
  - destruct (gap_idx g) as [k0|]; [|discriminate]. apply Nat.eqb_eq in H. subst k0. congruence.
  - rewrite Hk in H. exact H.
Qed.

Lemma loop_prem_dec' (n : node) (i j : nat) :
  (match n with
   | NLoop _ _ _ u _ rep _ => if seg_first n then used u && is_ok (loop_max_repeat rep) else i <? j
   | NSeg _ => false
   end) = true ->
  match n with
  | NLoop _ _ _ u _ rep _ => if seg_first n then used u = true /\ exists mx, loop_max_repeat rep = Ok mx else i < j
  | NSeg _ => False
  end.
Proof.
  destruct n as [id ty nm u q rep pm | sx]; [|discriminate]. destruct (seg_first _).
  - intros H. apply andb_true_iff in H as [H1 H2]. split; [exact H1|]. destruct (loop_max_repeat rep); [eauto | discriminate].
  - intros H. apply Nat.ltb_lt. exact H.
Qed.

Lemma cut_prem_dec (n : node) :
  (match n with NLoop _ _ _ u _ rep _ => used u && is_ok (loop_max_repeat rep) | NSeg _ => false end) = true ->
  match n with
  | NLoop _ _ _ u _ rep _ => used u = true /\ exists mx, loop_max_repeat rep = Ok mx
  | NSeg _ => False
  end.
Proof.
  destruct n as [id ty nm u q rep pm | sx]; [|discriminate].
  intros H. apply andb_true_iff in H as [H1 H2]. split; [exact H1|]. destruct (loop_max_repeat rep); [eauto | discriminate].
Qed.

Ltac zside := first [ apply Z.leb_le; vm_compute; reflexivity | apply Z.ltb_lt; vm_compute; reflexivity ].

(* gap_ok, by its form *)
Ltac g_none := exact Logic.I.
Ltac g_seg :=
  cbn [gap_ok]; split; [lia|]; split; [lia|]; eexists; split; [vm_compute; reflexivity|];
  split; [vm_compute; reflexivity|]; split; [zside|]; split; [zside|]; first [exact Logic.I | vm_compute; reflexivity].
Ltac g_loop :=
  cbn [gap_ok]; split; [lia|]; split; [lia|]; do 9 eexists; split; [vm_compute; reflexivity|];
  split; [vm_compute; reflexivity|]; split; [vm_compute; reflexivity|]; split; [zside|]; split; [zside|];
  split; [let nL := fresh in let H := fresh in intros nL H; vm_compute in H; injection H as <-; vm_compute; reflexivity|];
  first [exact Logic.I | split; vm_compute; reflexivity].

Ltac fi_seg := eapply FI_seg; [ side | vm_compute; reflexivity | side | ].
Ltac fi_wrap :=
  match goal with
  | |- finst ?m ?d ?W (?a :: (?X ++ ?Y)) => change (finst m d W ((a :: X) ++ Y)); eapply (FI_wrap m d W)
  end;
  [ side | vm_compute; reflexivity | side | apply entry_prem_dec; vm_compute; reflexivity | | ].
Ltac fb_end := apply FB_end; side.
Ltac fb_seg jj gg gtac :=
  match goal with |- fbody ?m ?d ?L ?p ?i ?c _ => eapply (FB_seg m d L p i c jj _ _ _ gg) end;
  [ side | side | vm_compute; reflexivity | side | apply bsb_dec; vm_compute; reflexivity | gtac | side
  | side | vm_compute; reflexivity | side | side | vm_compute; reflexivity | ].
Ltac fb_loop jj gg gtac :=
  match goal with |- fbody ?m ?d ?L ?p ?i ?c _ => eapply (FB_loop m d L p i c jj _ _ _ gg _ (@nil fault)) end;
  [ side | vm_compute; reflexivity | side | side | apply bsb_dec; vm_compute; reflexivity | gtac
  | apply loop_prem_dec'; vm_compute; reflexivity | | side | vm_compute; reflexivity | ].
Ltac fb_cut jj gg gtac :=
  match goal with |- fbody ?m ?d ?L ?p ?i ?c _ => eapply (FB_cut m d L p i c jj _ _ _ _ _ gg _ _ (@nil fault)) end;
  [ side | vm_compute; reflexivity | side | vm_compute; reflexivity | side | apply bsb_dec; vm_compute; reflexivity | gtac
  | apply cut_prem_dec; vm_compute; reflexivity | side | side | vm_compute; reflexivity | | vm_compute; reflexivity | ].

Notation ok r sg := ((r, sg), @nil fault).
Notation bad r sg fs := ((r, sg), fs).

(* what the walker reports at each item (codes and texts) *)
Definition etrace (m : xmap) (d : delims) (w : wstate) (p : nref) (U : list aitem) :=
  map (fun x => (fst (fst x), snd (fst x))) (ftrace m d w p (map snd (items_of U))).

Definition ok_e (t : nref) : option nref * list (string * string) := (Some t, []).

(* ------------------------------------------------------------------ *)
(* 2-4 on 997.4010                                                      *)

Module F997.
  Import M997.
  Local Open Scope string_scope.

  Example side_conditions : walker_wf mp = true /\ keys_ok mp = true /\ first_pos_least mp = true.
  Proof. vm_compute. auto. Qed.

  (* 2, the loop repeats at once: ST AK1 (AK2) (AK2 AK5) AK9 SE — the first instance of loop 2000 consists of AK2
     only, its required AK5 is missing, and the next AK2 follows at once *)
  Definition cut_body : list aitem :=
    (ok r_ak1 (P "AK1*HC*17~") ::
       (bad r_ak2 (P "AK2*837*0001~") [] ::
          ((bad r_ak2 (P "AK2*837*0002~") [MissingSeg r_ak5] :: [ok r_ak5 (P "AK5*A~")]) ++
           [ok r_ak9 (P "AK9*P*2*2*1~")]))) ++
    [ok r_se (P "SE*7*0001~")].

  Example cut_inst : finst mp d0 stl (ok r_st (P "ST*997*0001~") :: cut_body).
  Proof.
    unfold cut_body. fi_seg.
    fb_loop 1 NoGap g_none.                       (* HEADER *)
    { fi_seg. fb_cut 1 NoGap g_none.              (* 2000: AK2 alone, then AK2 AK5 *)
      { fi_seg. fb_seg 2 NoGap g_none. fb_end. }
      fb_seg 2 NoGap g_none. fb_end. }
    fb_seg 4 NoGap g_none. fb_end.
  Qed.

  Example cut_located :
    exists pre it post wk wk' w',
      cut_body = (pre ++ (it, [MissingSeg r_ak5]) :: post)%list /\ faults_of pre = [] /\ faults_of post = [] /\
      run mp d0 (start_state mp stl) r_st (items_of pre) wk /\
      step_ev mp d0 wk (last_ref (items_of pre) r_st) it (fault_ev mp d0 (snd it) (MissingSeg r_ak5)) wk' /\
      run mp d0 wk' (fst it) (items_of post) w' /\
      (forall r n, node_at (root_nodes mp) r = Some n ->
         cnt mp (w_counter w') r = predicted (items_of cut_body) (cnt mp (w_counter (start_state mp stl))) r).
  Proof.
    destruct side_conditions as [WF [KO FPL]].
    apply (single_fault_located mp d0 WF KO FPL stl (P "ST*997*0001~") [] cut_body (start_state mp stl) _ cut_inst).
    - eexists. eexists. vm_compute. reflexivity.
    - exact start_opened.
    - vm_compute. reflexivity.
  Qed.

  Example cut_computed :
    etrace mp d0 (start_state mp stl) r_st cut_body =
      [ok_e r_ak1; ok_e r_ak2;
       (Some r_ak2, [("3", "Mandatory segment ""Transaction Set Response Trailer"" (AK5) missing")]);
       ok_e r_ak5; ok_e r_ak9; ok_e r_se].
  Proof. vm_compute. reflexivity. Qed.

  (* 4: ST SE — the required loop HEADER is missing; reported at SE, under the node AK1 (first segment of HEADER) *)
  Definition nohdr_body : list aitem := [bad r_se (P "SE*2*0001~") [MissingLoop [0; 1; 1; 1]]].

  Example nohdr_inst : finst mp d0 stl (ok r_st (P "ST*997*0001~") :: nohdr_body).
  Proof. unfold nohdr_body. fi_seg. fb_seg 4 (GapLoop 1) g_loop. fb_end. Qed.

  Example nohdr_computed :
    etrace mp d0 (start_state mp stl) r_st nohdr_body =
      [(Some r_se, [("3", "Mandatory loop ""Table 1 - Header"" (HEADER) missing")])].
  Proof. vm_compute. reflexivity. Qed.
End F997.

(* ------------------------------------------------------------------ *)
(* 2-4 on 835.4010.X091.A1: ST [HEADER: BPR TRN (N1 N3 N4) (N1)] [DETAIL: (LX (CLP NM1))] SE with one fault *)

Module F835.
  Import M835.
  Local Open Scope string_scope.

  Example side_conditions : walker_wf mp = true /\ keys_ok mp = true /\ first_pos_least mp = true.
  Proof. vm_compute. auto. Qed.

  Definition hdr : nref := [0; 1; 1; 1].
  Definition l1000a : nref := [0; 1; 1; 1; 6].
  Definition st : seg := P "ST*835*0001~".
  Definition bpr : seg := P "BPR*I*150*C*CHK************20200101~".
  Definition trn : seg := P "TRN*1*12345*1512345678~".
  Definition n1a : seg := P "N1*PR*INSURER~".
  Definition n3a : seg := P "N3*1 MAIN ST~".
  Definition n4a : seg := P "N4*CITY*ST*12345~".
  Definition n1b : seg := P "N1*PE*PROVIDER*FI*123456789~".
  Definition lx : seg := P "LX*1~".
  Definition clp : seg := P "CLP*CLAIM1*1*100*100**12*ICN1~".
  Definition nm1 : seg := P "NM1*QC*1*DOE*JOHN~".
  Definition se : seg := P "SE*11*0001~".

  Definition detail : list aitem := (ok r_lx lx :: (((ok r_clp clp :: [ok r_nm1 nm1]) ++ []) ++ [])).
  Definition detail_x (fs : list fault) : list aitem := (bad r_lx lx fs :: (((ok r_clp clp :: [ok r_nm1 nm1]) ++ []) ++ [])).

  Ltac detail_inst :=
    fi_wrap; [ fi_seg; fb_loop 3 NoGap g_none; [ fi_seg; fb_seg 2 NoGap g_none; fb_end | fb_end ] | fb_end ].

  Ltac apply_thm T body inst :=
    destruct side_conditions as [WF [KO FPL]];
    eapply (T mp d0 WF KO FPL stl st [] body (start_state mp stl));
    [ exact inst | eexists; eexists; vm_compute; reflexivity
    | eapply (opened_by_entry mp WF KO counter_init stl); try (vm_compute; reflexivity); vm_compute; discriminate
    | vm_compute; reflexivity | .. ].

  (* ---- 2a: N3 (required, second child of 1000A) left out; the next segment N4 is a segment of another id and
          another position: reported at N4 ---- *)
  Definition b2a : list aitem :=
    (ok r_bpr bpr :: (ok r_trn trn :: ((ok r_n1a n1a :: [bad r_n4a n4a [MissingSeg r_n3a]]) ++ ((ok r_n1b n1b :: []) ++ [])))) ++
    (detail ++ [ok r_se se]).

  Example i2a : finst mp d0 stl (ok r_st st :: b2a).
  Proof.
    unfold b2a, detail. fi_seg.
    fb_loop 1 NoGap g_none.
    { fi_seg. fb_seg 1 NoGap g_none.
      fb_loop 6 NoGap g_none. { fi_seg. fb_seg 2 (GapSeg 1) g_seg. fb_end. }
      fb_loop 7 NoGap g_none. { fi_seg. fb_end. }
      fb_end. }
    fb_loop 2 NoGap g_none. { detail_inst. }
    fb_seg 4 NoGap g_none. fb_end.
  Qed.

  Example t2a :
    exists pre it post wk wk' w',
      b2a = (pre ++ (it, [MissingSeg r_n3a]) :: post)%list /\ faults_of pre = [] /\ faults_of post = [] /\
      run mp d0 (start_state mp stl) r_st (items_of pre) wk /\
      step_ev mp d0 wk (last_ref (items_of pre) r_st) it (fault_ev mp d0 (snd it) (MissingSeg r_n3a)) wk' /\
      run mp d0 wk' (fst it) (items_of post) w' /\
      (forall r n, node_at (root_nodes mp) r = Some n ->
         cnt mp (w_counter w') r = predicted (items_of b2a) (cnt mp (w_counter (start_state mp stl))) r).
  Proof. apply_thm single_fault_located b2a i2a. Qed.

  Example c2a :
    etrace mp d0 (start_state mp stl) r_st b2a =
      [ok_e r_bpr; ok_e r_trn; ok_e r_n1a;
       (Some r_n4a, [("3", "Mandatory segment ""Payer Address"" (N3) missing")]);
       ok_e r_n1b; ok_e r_lx; ok_e r_clp; ok_e r_nm1; ok_e r_se].
  Proof. vm_compute. reflexivity. Qed.

  (* ---- 2b: TRN (required, second child of HEADER) left out; the next unit is the loop 1000A: reported at N1 ---- *)
  Definition b2b : list aitem :=
    (ok r_bpr bpr :: ((bad r_n1a n1a [MissingSeg r_trn] :: [ok r_n3a n3a; ok r_n4a n4a]) ++ ((ok r_n1b n1b :: []) ++ []))) ++
    (detail ++ [ok r_se se]).

  Example i2b : finst mp d0 stl (ok r_st st :: b2b).
  Proof.
    unfold b2b, detail. fi_seg.
    fb_loop 1 NoGap g_none.
    { fi_seg.
      fb_loop 6 (GapSeg 1) g_seg. { fi_seg. fb_seg 1 NoGap g_none. fb_seg 2 NoGap g_none. fb_end. }
      fb_loop 7 NoGap g_none. { fi_seg. fb_end. }
      fb_end. }
    fb_loop 2 NoGap g_none. { detail_inst. }
    fb_seg 4 NoGap g_none. fb_end.
  Qed.

  Example c2b :
    etrace mp d0 (start_state mp stl) r_st b2b =
      [ok_e r_bpr;
       (Some r_n1a, [("3", "Mandatory segment ""Reassociation Trace Number"" (TRN) missing")]);
       ok_e r_n3a; ok_e r_n4a; ok_e r_n1b; ok_e r_lx; ok_e r_clp; ok_e r_nm1; ok_e r_se].
  Proof. vm_compute. reflexivity. Qed.

  (* ---- 3a: TRN (max_use 1) twice: reported at the second TRN ---- *)
  Definition b3a : list aitem :=
    (ok r_bpr bpr :: (ok r_trn trn :: (bad r_trn trn [SurplusSeg r_trn 2 1] ::
       ((ok r_n1a n1a :: [ok r_n3a n3a; ok r_n4a n4a]) ++ ((ok r_n1b n1b :: []) ++ []))))) ++
    (detail ++ [ok r_se se]).

  Example i3a : finst mp d0 stl (ok r_st st :: b3a).
  Proof.
    unfold b3a, detail. fi_seg.
    fb_loop 1 NoGap g_none.
    { fi_seg. fb_seg 1 NoGap g_none. fb_seg 1 NoGap g_none.
      fb_loop 6 NoGap g_none. { fi_seg. fb_seg 1 NoGap g_none. fb_seg 2 NoGap g_none. fb_end. }
      fb_loop 7 NoGap g_none. { fi_seg. fb_end. }
      fb_end. }
    fb_loop 2 NoGap g_none. { detail_inst. }
    fb_seg 4 NoGap g_none. fb_end.
  Qed.

  Example c3a :
    etrace mp d0 (start_state mp stl) r_st b3a =
      [ok_e r_bpr; ok_e r_trn;
       (Some r_trn, [("5", "Segment TRN exceeded max count.  Found 2, should have 1")]);
       ok_e r_n1a; ok_e r_n3a; ok_e r_n4a; ok_e r_n1b; ok_e r_lx; ok_e r_clp; ok_e r_nm1; ok_e r_se].
  Proof. vm_compute. reflexivity. Qed.

  (* ---- 3b: loop 1000A (repeat 1) twice: reported at the N1 of the second instance, whose N3, N4 are accepted ---- *)
  Definition b3b : list aitem :=
    (ok r_bpr bpr :: (ok r_trn trn ::
       ((ok r_n1a n1a :: [ok r_n3a n3a; ok r_n4a n4a]) ++
        ((bad r_n1a n1a [SurplusLoop l1000a 2 1] :: [ok r_n3a n3a; ok r_n4a n4a]) ++ ((ok r_n1b n1b :: []) ++ []))))) ++
    (detail ++ [ok r_se se]).

  Example i3b : finst mp d0 stl (ok r_st st :: b3b).
  Proof.
    unfold b3b, detail. fi_seg.
    fb_loop 1 NoGap g_none.
    { fi_seg. fb_seg 1 NoGap g_none.
      fb_loop 6 NoGap g_none. { fi_seg. fb_seg 1 NoGap g_none. fb_seg 2 NoGap g_none. fb_end. }
      fb_loop 6 NoGap g_none. { fi_seg. fb_seg 1 NoGap g_none. fb_seg 2 NoGap g_none. fb_end. }
      fb_loop 7 NoGap g_none. { fi_seg. fb_end. }
      fb_end. }
    fb_loop 2 NoGap g_none. { detail_inst. }
    fb_seg 4 NoGap g_none. fb_end.
  Qed.

  Example c3b :
    etrace mp d0 (start_state mp stl) r_st b3b =
      [ok_e r_bpr; ok_e r_trn; ok_e r_n1a; ok_e r_n3a; ok_e r_n4a;
       (Some r_n1a, [("4", "Loop 1000A exceeded max count.  Found 2, should have 1")]);
       ok_e r_n3a; ok_e r_n4a; ok_e r_n1b; ok_e r_lx; ok_e r_clp; ok_e r_nm1; ok_e r_se].
  Proof. vm_compute. reflexivity. Qed.

  (* ---- 4: the required loop HEADER left out; the next unit is DETAIL (entered through 2000): reported at LX ---- *)
  Definition b4 : list aitem := detail_x [MissingLoop hdr] ++ [ok r_se se].

  Example i4 : finst mp d0 stl (ok r_st st :: b4).
  Proof.
    unfold b4, detail_x. fi_seg.
    fb_loop 2 (GapLoop 1) g_loop. { detail_inst. }
    fb_seg 4 NoGap g_none. fb_end.
  Qed.

  Example c4 :
    etrace mp d0 (start_state mp stl) r_st b4 =
      [(Some r_lx, [("3", "Mandatory loop ""Table 1 - Header"" (HEADER) missing")]); ok_e r_clp; ok_e r_nm1; ok_e r_se].
  Proof. vm_compute. reflexivity. Qed.
End F835.

(* ------------------------------------------------------------------ *)
(* 4, the loop repeats at once, on 277.4010.X093.A1: inside an instance of loop 2000C (provider), the
   subscriber loop 2000D = [HL; DMG; 2100D (required) = [NM1]; 2200D; 2000E]:
       HL*3*2*19*1  NM1*1P..  HL*4*3*22*0  HL*5*3*22*0  NM1*QC..
   the first 2000D consists of its HL only, its required loop 2100D is missing, and the next HL*..*22 follows at
   once: one "Mandatory loop (2100D) missing" at the second HL, filed under NM1 (first segment of 2100D) *)
From PX.Gen Require Import MapRegexes.
From PX.Gen.Maps Require M_dataele M_codes M_277_4010_X093_A1.
Local Definition l (x : string) : str := list_ascii_of_string x.

Module F277.
  Local Open Scope string_scope.
  Definition mp : xmap :=
    match load_map map_regexes M_dataele.tree M_codes.tree None (l "B") M_277_4010_X093_A1.tree with
    | Ok m => m
    | Raise _ => M997.empty_map
    end.
  Definition d0 : delims := M997.d0.
  Definition P (s : string) : seg := parse_seg d0 (l s).

  Definition l2000c : nref := [0; 1; 1; 2; 0; 2; 2].
  Definition r_hlc : nref := [0; 1; 1; 2; 0; 2; 2; 0].
  Definition r_nm1c : nref := [0; 1; 1; 2; 0; 2; 2; 1; 0].
  Definition l2000d : nref := [0; 1; 1; 2; 0; 2; 2; 2].
  Definition r_hld : nref := [0; 1; 1; 2; 0; 2; 2; 2; 0].
  Definition l2100d : nref := [0; 1; 1; 2; 0; 2; 2; 2; 2].
  Definition r_nm1d : nref := [0; 1; 1; 2; 0; 2; 2; 2; 2; 0].

  Example side_conditions : walker_wf mp = true /\ keys_ok mp = true /\ first_pos_least mp = true.
  Proof. vm_compute. auto. Qed.

  Definition body : list aitem :=
    ((ok r_nm1c (P "NM1*1P*2*CLINIC*****FI*123456789~") :: []) ++
     (bad r_hld (P "HL*4*3*22*0~") [] ::
        ((bad r_hld (P "HL*5*3*22*0~") [MissingLoop l2100d] :: ((ok r_nm1d (P "NM1*QC*1*DOE*JOHN****MI*ABC123~") :: []) ++ [])) ++
         [])))%list.

  Example inst : finst mp d0 l2000c (ok r_hlc (P "HL*3*2*19*1~") :: body).
  Proof.
    unfold body. fi_seg.
    fb_loop 1 NoGap g_none. { fi_seg. fb_end. }            (* 2100C *)
    fb_cut 2 NoGap g_none.                                  (* 2000D: HL alone, then HL NM1 *)
    { fi_seg. fb_loop 2 NoGap g_none. { fi_seg. fb_end. } fb_end. }
    fb_end.
  Qed.

  Example located :
    exists pre it post wk wk' w',
      body = (pre ++ (it, [MissingLoop l2100d]) :: post)%list /\ faults_of pre = [] /\ faults_of post = [] /\
      run mp d0 (start_state mp l2000c) r_hlc (items_of pre) wk /\
      step_ev mp d0 wk (last_ref (items_of pre) r_hlc) it (fault_ev mp d0 (snd it) (MissingLoop l2100d)) wk' /\
      run mp d0 wk' (fst it) (items_of post) w' /\
      (forall r n, node_at (root_nodes mp) r = Some n ->
         cnt mp (w_counter w') r = predicted (items_of body) (cnt mp (w_counter (start_state mp l2000c))) r).
  Proof.
    destruct side_conditions as [WF [KO FPL]].
    apply (single_fault_located mp d0 WF KO FPL l2000c (P "HL*3*2*19*1~") [] body (start_state mp l2000c) _ inst).
    - eexists. eexists. vm_compute. reflexivity.
    - eapply (opened_by_entry mp WF KO counter_init l2000c); try (vm_compute; reflexivity). vm_compute. discriminate.
    - vm_compute. reflexivity.
  Qed.

  Example computed :
    etrace mp d0 (start_state mp l2000c) r_hlc body =
      [ok_e r_nm1c; ok_e r_hld;
       (Some r_hld, [("3", "Mandatory loop ""Subscriber Name"" (2100D) missing")]);
       ok_e r_nm1d].
  Proof. vm_compute. reflexivity. Qed.
End F277.

(* ------------------------------------------------------------------ *)
(* where a missing required node is NOT reported as C03 says (each reproduced on pyx12, commit 279ef08, with
   walk_tree.walk on the shipped map; these documents are outside finst: see the premises of gap_ok) *)

Module Corners.
  Local Open Scope string_scope.

  (* K1. NEVER reported (every shipped map): the required GE of GS_LOOP (position 030) is left out and the next
     segment is IEA, a SEGMENT child of the enclosing ISA_LOOP that has the SAME position number 030.  The entry
     "GE missing" is made when GS_LOOP is left, _flush_mandatory_segs(errh, 30) keeps it (same position), and the
     next walk starts with an empty list.  (x12n_document still answers False: the reader, x12file.py:438,
     reports the unclosed GS loop; the walker reports nothing.) *)
  Example K1_missing_GE_before_IEA :
    ftrace M997.mp M997.d0 (start_state M997.mp [0]) [0; 0]
      (map M997.P ["GS*FA*SENDER*RECEIVER*20200101*1200*1*X*004010~"; "ST*997*0001~"; "AK1*HC*17~";
                   "AK9*A*1*1*1~"; "SE*4*0001~"; "IEA*1*000000001~"]) =
      [ok_at [0; 1; 0]; ok_at [0; 1; 1; 0]; ok_at [0; 1; 1; 1; 0]; ok_at [0; 1; 1; 1; 2]; ok_at [0; 1; 1; 4];
       (Some [0; 3], [], ["Mandatory segment ""Functional Group Trailer"" (GE) missing"])].
  Proof. vm_compute. reflexivity. Qed.

  (* K2. reported TWICE (835): the required loop 1000A is left out; 1000A and the next loop 1000B have the same
     position 080, so after N1*PE has been found in 1000B the search for LX looks at 1000A again *)
  Example K2_missing_1000A_twice :
    map (fun x => (fst (fst x), snd (fst x)))
      (ftrace M835.mp M835.d0 (start_state M835.mp M835.stl) M835.r_st
        (map M835.P ["BPR*I*150*C*CHK************20200101~"; "TRN*1*12345*1512345678~"; "N1*PE*PROVIDER*FI*123456789~";
                     "LX*1~"; "CLP*CLAIM1*1*100*100**12*ICN1~"; "NM1*QC*1*DOE*JOHN~"; "SE*8*0001~"])) =
      [ok_e M835.r_bpr; ok_e M835.r_trn;
       (Some M835.r_n1b, [("3", "Mandatory loop ""Payer Identification"" (1000A) missing")]);
       (Some M835.r_lx, [("3", "Mandatory loop ""Payer Identification"" (1000A) missing")]);
       ok_e M835.r_clp; ok_e M835.r_nm1; ok_e M835.r_se].
  Proof. vm_compute. reflexivity. Qed.

  (* K3. reported ONE SEGMENT LATE (835, loop 2100): the required NM1*QC is left out and the next segment is
     NM1*IL, a sibling with the same id, the same parent and the same position: the entry is dropped by
     `x[0] != child` (x12_node.__eq__ compares id and parent id) — and would be kept anyway (same position);
     the next walk, from NM1*IL, looks at NM1*QC again and reports it at MOA *)
  Example K3_missing_NM1_late :
    map (fun x => (fst (fst x), snd (fst x)))
      (ftrace M835.mp M835.d0 (start_state M835.mp M835.stl) M835.r_st
        (map M835.P ["BPR*I*150*C*CHK************20200101~"; "TRN*1*12345*1512345678~"; "N1*PR*INSURER~"; "N3*1 MAIN ST~";
                     "N4*CITY*ST*12345~"; "N1*PE*PROVIDER*FI*123456789~"; "LX*1~"; "CLP*CLAIM1*1*100*100**12*ICN1~";
                     "NM1*IL*1*DOE*JANE~"; "MOA***MA01~"; "SE*12*0001~"])) =
      [ok_e M835.r_bpr; ok_e M835.r_trn; ok_e M835.r_n1a; ok_e M835.r_n3a; ok_e M835.r_n4a; ok_e M835.r_n1b;
       ok_e M835.r_lx; ok_e M835.r_clp;
       ok_e [0; 1; 1; 2; 0; 3; 3];
       (Some [0; 1; 1; 2; 0; 3; 9], [("3", "Mandatory segment ""Patient Name"" (NM1) missing")]);
       ok_e M835.r_se].
  Proof. vm_compute. reflexivity. Qed.

  (* K4. the loop that lacks the segment is LEFT (not covered by finst, observed): reported at the first segment
     found after the loop — by a loop opening always (flush without position), by a segment of another position *)
  Example K4_loop_exit :
    map (fun x => (fst (fst x), snd (fst x)))
      (ftrace M997.mp M997.d0 (start_state M997.mp M997.stl) M997.r_st
        (map M997.P ["AK1*HC*17~"; "AK2*837*0001~"; "AK3*NM1*8*2010BA*8~"; "AK2*837*0002~"; "AK5*A~"; "SE*6*0001~"])) =
      [ok_e M997.r_ak1; ok_e M997.r_ak2; ok_e M997.r_ak3;
       (Some M997.r_ak2, [("3", "Mandatory segment ""Transaction Set Response Trailer"" (AK5) missing")]);
       ok_e M997.r_ak5;
       (Some M997.r_se, [("3", "Mandatory segment ""Functional Group Response Trailer"" (AK9) missing")])].
  Proof. vm_compute. reflexivity. Qed.
End Corners.

Print Assumptions U997.rejected.
Print Assumptions U997.rejected_computed.
Print Assumptions F997.cut_located.
Print Assumptions F997.cut_computed.
Print Assumptions F997.nohdr_inst.
Print Assumptions F835.t2a.
Print Assumptions F835.i2b.
Print Assumptions F835.i3a.
Print Assumptions F835.i3b.
Print Assumptions F835.i4.
Print Assumptions F277.located.
Print Assumptions F277.computed.
Print Assumptions Corners.K1_missing_GE_before_IEA.
