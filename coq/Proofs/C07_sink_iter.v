(* C07_sink_iter.v — the error iterator (Model/ErrIter.v) over a well-formed handler heap (H2):
   iter_next never raises anything but IterOutOfBounds, keeps the iterator invariant ItInv, every node it
   stops on can be rendered (vis), and collect_new never runs out of fuel: every successful step strictly
   increases a lexicographic position (key) in the depth-first order of the forest. *)
From Coq Require Import String.
From PX.Lib Require Import Base PyStr PyInt.
From PX.Model Require Import Path Segment Errh ErrIter.
From PX.Proofs Require Import C07_errh C07_sink_defs.

(* ------------------------------------------------------------------ *)
(* lists                                                                *)

Lemma find_idx_some {A} (p : A -> bool) : forall xs k i,
  find_idx p xs k = Some i -> k <= i /\ exists x, nth_error xs (i - k) = Some x /\ p x = true.
Proof.
  induction xs as [|x xs IH]; intros k i H; cbn [find_idx] in H; [discriminate|].
  destruct (p x) eqn:Px.
  - injection H as <-. split; [lia|]. rewrite Nat.sub_diag. exists x. split; [reflexivity | exact Px].
  - apply IH in H as [L (y & N & Py)]. split; [lia|]. exists y. split; [|exact Py].
    replace (i - k) with (S (i - S k)) by lia. exact N.
Qed.

Lemma find_idx_ex {A} (p : A -> bool) : forall xs k j y,
  nth_error xs j = Some y -> p y = true -> exists i, find_idx p xs k = Some i.
Proof.
  induction xs as [|x xs IH]; intros k j y N Py; [destruct j; discriminate|].
  cbn [find_idx]. destruct (p x) eqn:Px; [eauto|].
  destruct j as [|j]; cbn [nth_error] in N; [injection N as ->; congruence|].
  eapply IH; eauto.
Qed.

Lemma mem_nat_In k xs : mem_nat k xs = true <-> In k xs.
Proof.
  unfold mem_nat. rewrite existsb_exists. split.
  - intros (x & I & E). apply Nat.eqb_eq in E. subst x. exact I.
  - intros I. exists k. split; [exact I | apply Nat.eqb_refl].
Qed.

Section Holder.
  Context {A : Type} (f : A -> list nat) (xs : list A).
  Definition holder (g : nat) : option nat := find_idx (fun n => mem_nat g (f n)) xs 0.
  Hypothesis U : forall p p' n n' g, nth_error xs p = Some n -> nth_error xs p' = Some n' ->
                   In g (f n) -> In g (f n') -> p = p'.
  Lemma holder_some g p : holder g = Some p -> exists n, nth_error xs p = Some n /\ In g (f n).
  Proof.
    unfold holder. intros H. apply find_idx_some in H as [_ (n & N & M)].
    rewrite Nat.sub_0_r in N. apply mem_nat_In in M. eauto.
  Qed.
  Lemma holder_of g p n : nth_error xs p = Some n -> In g (f n) -> holder g = Some p.
  Proof.
    intros N I. destruct (find_idx_ex (fun n => mem_nat g (f n)) xs 0 p n N) as [i Hi].
    { apply mem_nat_In. exact I. }
    pose proof Hi as Hi'. apply holder_some in Hi' as (n' & N' & I').
    unfold holder. rewrite Hi. f_equal. eapply U; eauto.
  Qed.
End Holder.

Lemma incr_seq : forall n a, incr (seq a n).
Proof.
  induction n as [|n IH]; intros a; cbn [seq incr]; [exact I|]. split; [|apply IH].
  apply Forall_forall. intros y Hy. apply in_seq in Hy. lia.
Qed.

(* ------------------------------------------------------------------ *)
(* parents under H2                                                     *)

Lemma gs_parent_iff h g p : H2 h ->
  (gs_parent h g = Some p <-> exists n, nth_error (h_isa h) p = Some n /\ In g (in_children n)).
Proof.
  intros I. split.
  - apply (holder_some in_children (h_isa h)).
  - intros (n & N & M). apply (holder_of in_children (h_isa h) (h2_gs_par h I) g p n N M).
Qed.

Lemma st_parent_iff h t p : H2 h ->
  (st_parent h t = Some p <-> exists n, nth_error (h_gs h) p = Some n /\ In t (gn_children n)).
Proof.
  intros I. split.
  - apply (holder_some gn_children (h_gs h)).
  - intros (n & N & M). apply (holder_of gn_children (h_gs h) (h2_st_par h I) t p n N M).
Qed.

Lemma seg_holder_iff h k p : H2 h ->
  (seg_holder h k = Some p <-> exists n, nth_error (h_st h) p = Some n /\ In k (tn_children n)).
Proof.
  intros I. split.
  - apply (holder_some tn_children (h_st h)).
  - intros (n & N & M). apply (holder_of tn_children (h_st h) (h2_seg_par h I) k p n N M).
Qed.

(* a valid index *)
Definition nvalid (h : errh) (r : node_ref) : Prop :=
  match r with
  | RRoot => True
  | RIsa i => i < length (h_isa h) | RGs g => g < length (h_gs h)
  | RSt t => t < length (h_st h) | RSeg k => k < length (h_seg h)
  | REle _ => False
  end.

Lemma idx_ok_In n xs x : idx_ok n xs -> In x xs -> x < n.
Proof. unfold idx_ok. rewrite Forall_forall. auto. Qed.

Lemma attached_valid h r : H2 h -> attached h r -> nvalid h r.
Proof.
  intros I A. destruct r as [|i|g|t|k|e]; cbn [attached nvalid par] in *; try exact A.
  - destruct (gs_parent h g) as [p|] eqn:E; [|cbn in A; congruence].
    apply (gs_parent_iff h g p I) in E as (n & N & M).
    exact (idx_ok_In _ _ _ (proj2 (h2_isa_ch h I p n N)) M).
  - destruct (st_parent h t) as [p|] eqn:E; [|cbn in A; congruence].
    apply (st_parent_iff h t p I) in E as (n & N & M).
    exact (idx_ok_In _ _ _ (proj2 (h2_gs_ch h I p n N)) M).
  - destruct (seg_holder h k) as [p|] eqn:E; [|cbn in A; congruence].
    apply (seg_holder_iff h k p I) in E as (n & N & M).
    exact (idx_ok_In _ _ _ (proj2 (h2_st_ch h I p n N)) M).
Qed.

Lemma par_neq h r p : par h r = Some p -> p <> r.
Proof.
  destruct r as [|i|g|t|k|e]; cbn [par]; try discriminate.
  - intros H. injection H as <-. discriminate.
  - destruct (gs_parent h g); cbn; [|discriminate]. intros H. injection H as <-. discriminate.
  - destruct (st_parent h t); cbn; [|discriminate]. intros H. injection H as <-. discriminate.
  - destruct (seg_holder h k); cbn; [|discriminate]. intros H. injection H as <-. discriminate.
Qed.

(* ------------------------------------------------------------------ *)
(* the invariant survives an extension of the heap                      *)

Lemma par_ext h h' r p : H2 h -> H2 h' -> ext h h' -> par h r = Some p -> par h' r = Some p.
Proof.
  intros I I' X. destruct r as [|i|g|t|k|e]; cbn [par]; try discriminate; auto.
  - destruct (gs_parent h g) as [q|] eqn:E; cbn [option_map]; [|discriminate]. intros H. injection H as <-.
    apply (gs_parent_iff h g q I) in E as (n & N & M).
    destruct (ex_isa h h' X q n N) as (n' & N' & S).
    rewrite (proj2 (gs_parent_iff h' g q I')); [reflexivity|]. exists n'. split; [exact N' | apply S, M].
  - destruct (st_parent h t) as [q|] eqn:E; cbn [option_map]; [|discriminate]. intros H. injection H as <-.
    apply (st_parent_iff h t q I) in E as (n & N & M).
    destruct (ex_gs h h' X q n N) as (n' & N' & S).
    rewrite (proj2 (st_parent_iff h' t q I')); [reflexivity|]. exists n'. split; [exact N' | apply S, M].
  - destruct (seg_holder h k) as [q|] eqn:E; cbn [option_map]; [|discriminate]. intros H. injection H as <-.
    apply (seg_holder_iff h k q I) in E as (n & N & M).
    destruct (ex_st h h' X q n N) as (n' & N' & S).
    rewrite (proj2 (seg_holder_iff h' k q I')); [reflexivity|]. exists n'. split; [exact N' | apply S, M].
Qed.

Lemma attached_ext h h' r : H2 h -> H2 h' -> ext h h' -> attached h r -> attached h' r.
Proof.
  intros I I' X A. destruct r as [|i|g|t|k|e]; try exact A.
  - cbn [attached] in *. destruct (nth_error_lt _ _ A) as [n N].
    destruct (ex_isa h h' X i n N) as (n' & N' & _). apply nth_error_Some. congruence.
  - cbn [attached] in *. destruct (par h (RGs g)) as [p|] eqn:E; [|congruence].
    rewrite (par_ext h h' _ p I I' X E). discriminate.
  - cbn [attached] in *. destruct (par h (RSt t)) as [p|] eqn:E; [|congruence].
    rewrite (par_ext h h' _ p I I' X E). discriminate.
  - cbn [attached] in *. destruct (par h (RSeg k)) as [p|] eqn:E; [|congruence].
    rewrite (par_ext h h' _ p I I' X E). discriminate.
Qed.

(* the parent of an attached node: the same before and after *)
Lemma par_ext_back h h' r p : H2 h -> H2 h' -> ext h h' -> attached h r -> par h' r = Some p -> par h r = Some p.
Proof.
  intros I I' X A H. destruct r as [|i|g|t|k|e]; try exact H; try contradiction.
  - cbn [attached] in A. destruct (par h (RGs g)) as [q|] eqn:E; [|congruence].
    rewrite (par_ext h h' _ q I I' X E) in H. exact H.
  - cbn [attached] in A. destruct (par h (RSt t)) as [q|] eqn:E; [|congruence].
    rewrite (par_ext h h' _ q I I' X E) in H. exact H.
  - cbn [attached] in A. destruct (par h (RSeg k)) as [q|] eqn:E; [|congruence].
    rewrite (par_ext h h' _ q I I' X E) in H. exact H.
Qed.

Lemma SInv_ext h h' st : H2 h -> H2 h' -> ext h h' -> SInv h st -> SInv h' st.
Proof.
  intros I I' X. induction st as [|x rest IH]; cbn [SInv]; [auto|].
  intros (A & P & Sr). split; [exact (attached_ext h h' x I I' X A)|]. split; [|apply IH; exact Sr].
  intros p Hp. apply P. exact (par_ext_back h h' x p I I' X A Hp).
Qed.

Lemma ItInv_ext h h' it : H2 h -> H2 h' -> ext h h' -> ItInv h it -> ItInv h' it.
Proof.
  intros I I' X (A & Sr & P). split; [exact (attached_ext h h' _ I I' X A)|].
  split; [exact (SInv_ext h h' _ I I' X Sr)|].
  intros p Hp. apply P. exact (par_ext_back h h' _ p I I' X A Hp).
Qed.

Lemma ItInv_init h : ItInv h iter_init.
Proof. split; [exact Logic.I|]. split; [exact Logic.I|]. intros p Hp. discriminate Hp. Qed.

(* every entry of a well-formed stack has its parent in the stack *)
Lemma SInv_closed h st : SInv h st -> forall x p, In x st -> par h x = Some p -> In p st.
Proof.
  induction st as [|y rest IH]; cbn [SInv]; [intros _ x p []|].
  intros (A & P & Sr) x p [<-|Hx] Hp; right; [apply P; exact Hp | exact (IH Sr x p Hx Hp)].
Qed.

Lemma SInv_attached h st : SInv h st -> forall x, In x st -> attached h x.
Proof.
  induction st as [|y rest IH]; cbn [SInv]; [intros _ x []|].
  intros (A & P & Sr) x [<-|Hx]; [exact A | exact (IH Sr x Hx)].
Qed.

(* ------------------------------------------------------------------ *)
(* the position of an iterator state in the depth-first order           *)

Definition b2n (b : bool) : nat := if b then 1 else 0.
Definition pgs (h : errh) g := match gs_parent h g with Some p => p | None => 0 end.
Definition pst (h : errh) t := match st_parent h t with Some p => p | None => 0 end.
Definition pseg (h : errh) k := match seg_holder h k with Some p => p | None => 0 end.

Definition key4 := (nat * nat * nat * nat)%type.

Definition key (h : errh) (r : node_ref) (b : bool) : key4 :=
  match r with
  | RRoot => (0, 0, 0, 0)
  | RIsa i => (2 * i + 1 + b2n b, 0, 0, 0)
  | RGs g => (2 * pgs h g + 1, 2 * g + 1 + b2n b, 0, 0)
  | RSt t => (2 * pgs h (pst h t) + 1, 2 * pst h t + 1, 2 * t + 1 + b2n b, 0)
  | RSeg k => (2 * pgs h (pst h (pseg h k)) + 1, 2 * pst h (pseg h k) + 1, 2 * pseg h k + 1, k + 1)
  | REle _ => (0, 0, 0, 0)
  end.

Definition klt (a b : key4) : Prop :=
  match a, b with
  | (a1, a2, a3, a4), (b1, b2, b3, b4) =>
      a1 < b1 \/ (a1 = b1 /\ (a2 < b2 \/ (a2 = b2 /\ (a3 < b3 \/ (a3 = b3 /\ a4 < b4)))))
  end.

Definition kltb (a b : key4) : bool :=
  match a, b with
  | (a1, a2, a3, a4), (b1, b2, b3, b4) =>
      (a1 <? b1) || ((a1 =? b1) && ((a2 <? b2) || ((a2 =? b2) && ((a3 <? b3) || ((a3 =? b3) && (a4 <? b4))))))
  end.

Lemma kltb_spec a b : kltb a b = true <-> klt a b.
Proof.
  destruct a as [[[a1 a2] a3] a4], b as [[[b1 b2] b3] b4]. unfold kltb, klt.
  repeat (rewrite orb_true_iff || rewrite andb_true_iff). rewrite !Nat.ltb_lt, !Nat.eqb_eq. tauto.
Qed.

Lemma klt_trans a b c : klt a b -> klt b c -> klt a c.
Proof.
  destruct a as [[[a1 a2] a3] a4], b as [[[b1 b2] b3] b4], c as [[[c1 c2] c3] c4]. unfold klt. lia.
Qed.

Lemma klt_irrefl a : ~ klt a a.
Proof. destruct a as [[[a1 a2] a3] a4]. unfold klt. lia. Qed.

(* same class, smaller index *)
Definition sib_lt (a b : node_ref) : Prop :=
  match a, b with
  | RIsa x, RIsa y | RGs x, RGs y | RSt x, RSt y | RSeg x, RSeg y => x < y
  | _, _ => False
  end.

Lemma b2n_le b : b2n b <= 1.
Proof. destruct b; cbn; lia. Qed.

Lemma key_child h cur c b' : par h c = Some cur -> klt (key h cur false) (key h c b').
Proof.
  pose proof (b2n_le b') as B.
  destruct c as [|i|g|t|k|e]; cbn [par]; try discriminate.
  - intros H. injection H as <-. cbn [key]. unfold klt. lia.
  - destruct (gs_parent h g) as [p|] eqn:E; cbn [option_map]; [|discriminate]. intros H. injection H as <-.
    cbn [key b2n]. unfold pgs. rewrite E. unfold klt. lia.
  - destruct (st_parent h t) as [p|] eqn:E; cbn [option_map]; [|discriminate]. intros H. injection H as <-.
    cbn [key b2n]. unfold pst. rewrite E. unfold klt. lia.
  - destruct (seg_holder h k) as [p|] eqn:E; cbn [option_map]; [|discriminate]. intros H. injection H as <-.
    cbn [key b2n]. unfold pseg. rewrite E. unfold klt. lia.
Qed.

Lemma key_sib h cur s b b' : par h s = par h cur -> sib_lt cur s -> klt (key h cur b) (key h s b').
Proof.
  pose proof (b2n_le b') as B'. pose proof (b2n_le b) as B.
  destruct cur as [|x|x|x|x|x], s as [|y|y|y|y|y]; cbn [sib_lt]; try contradiction; cbn [par key]; intros P L.
  - unfold klt. lia.
  - assert (E : pgs h y = pgs h x).
    { unfold pgs. destruct (gs_parent h y), (gs_parent h x); cbn in P; congruence. }
    rewrite E. unfold klt. lia.
  - assert (E : pst h y = pst h x).
    { unfold pst. destruct (st_parent h y), (st_parent h x); cbn in P; congruence. }
    rewrite E. unfold klt. lia.
  - assert (E : pseg h y = pseg h x).
    { unfold pseg. destruct (seg_holder h y), (seg_holder h x); cbn in P; congruence. }
    rewrite E. unfold klt. lia.
Qed.

Lemma key_up h cur node b : par h cur = Some node -> node <> RRoot -> klt (key h cur b) (key h node true).
Proof.
  pose proof (b2n_le b) as B.
  destruct cur as [|i|g|t|k|e]; cbn [par]; try discriminate.
  - intros H. injection H as <-. congruence.
  - destruct (gs_parent h g) as [p|] eqn:E; cbn [option_map]; [|discriminate]. intros H _. injection H as <-.
    cbn [key b2n]. unfold pgs. rewrite E. unfold klt. lia.
  - destruct (st_parent h t) as [p|] eqn:E; cbn [option_map]; [|discriminate]. intros H _. injection H as <-.
    cbn [key b2n]. unfold pst. rewrite E. unfold klt. lia.
  - destruct (seg_holder h k) as [p|] eqn:E; cbn [option_map]; [|discriminate]. intros H _. injection H as <-.
    cbn [key b2n]. unfold pseg. rewrite E. unfold klt. lia.
Qed.

(* ------------------------------------------------------------------ *)
(* the node methods on attached nodes                                   *)

Fixpoint ssorted (cs : list node_ref) : Prop :=
  match cs with
  | [] => True
  | x :: r => Forall (sib_lt x) r /\ ssorted r
  end.

Lemma ssorted_map (C : nat -> node_ref) :
  (forall x y, x < y -> sib_lt (C x) (C y)) -> forall xs, incr xs -> ssorted (map C xs).
Proof.
  intros HC. induction xs as [|x xs IH]; cbn [incr map ssorted]; [auto|].
  intros [F Ix]. split; [|apply IH; exact Ix].
  apply Forall_map. eapply Forall_impl; [|exact F]. intros y. apply HC.
Qed.

Lemma heap_nth_ok {A} (xs : list A) i : i < length xs -> exists n, heap_nth xs i = Ok n /\ nth_error xs i = Some n.
Proof. intros L. destruct (nth_error_lt xs i L) as [n N]. exists n. unfold heap_nth. rewrite N. auto. Qed.

(* the children of an attached node that has a `children` attribute *)
Lemma children_ok h cur : H2 h -> attached h cur ->
  match cur with RSeg _ | REle _ => True | _ =>
    exists cs, children_of h cur = Ok cs /\ ssorted cs /\
               (forall c, In c cs -> par h c = Some cur /\ attached h c)
  end.
Proof.
  intros I A. pose proof (attached_valid h cur I A) as V.
  destruct cur as [|i|g|t|k|e]; cbn [nvalid] in V; try exact Logic.I; cbn [children_of].
  - eexists. split; [reflexivity|]. split.
    + apply ssorted_map; [intros x y L; exact L | apply incr_seq].
    + intros c Hc. apply in_map_iff in Hc as (x & <- & Hx). apply in_seq in Hx. split; [reflexivity|]. cbn. lia.
  - destruct (heap_nth_ok (h_isa h) i V) as (n & -> & N). cbn [bind]. eexists. split; [reflexivity|].
    destruct (h2_isa_ch h I i n N) as [Inc _]. split.
    + apply ssorted_map; [intros x y L; exact L | exact Inc].
    + intros c Hc. apply in_map_iff in Hc as (x & <- & Hx).
      assert (P : gs_parent h x = Some i) by (apply (gs_parent_iff h x i I); eauto).
      cbn [par attached]. rewrite P. cbn. split; [reflexivity | discriminate].
  - destruct (heap_nth_ok (h_gs h) g V) as (n & -> & N). cbn [bind]. eexists. split; [reflexivity|].
    destruct (h2_gs_ch h I g n N) as [Inc _]. split.
    + apply ssorted_map; [intros x y L; exact L | exact Inc].
    + intros c Hc. apply in_map_iff in Hc as (x & <- & Hx).
      assert (P : st_parent h x = Some g) by (apply (st_parent_iff h x g I); eauto).
      cbn [par attached]. rewrite P. cbn. split; [reflexivity | discriminate].
  - destruct (heap_nth_ok (h_st h) t V) as (n & -> & N). cbn [bind]. eexists. split; [reflexivity|].
    destruct (h2_st_ch h I t n N) as [Inc _]. split.
    + apply ssorted_map; [intros x y L; exact L | exact Inc].
    + intros c Hc. apply in_map_iff in Hc as (x & <- & Hx).
      assert (P : seg_holder h x = Some t) by (apply (seg_holder_iff h x t I); eauto).
      cbn [par attached]. rewrite P. cbn. split; [reflexivity | discriminate].
Qed.

Lemma first_child_ok h cur : H2 h -> attached h cur ->
  exists o, get_first_child h cur = Ok o /\
            forall c, o = Some c -> par h c = Some cur /\ attached h c.
Proof.
  intros I A. pose proof (children_ok h cur I A) as C.
  destruct cur as [|i|g|t|k|e]; try contradiction;
    try (destruct C as (cs & E & _ & P); unfold get_first_child; rewrite E; cbn [bind];
         eexists; split; [reflexivity|]; intros c Hc; apply P; destruct cs; [discriminate|]; injection Hc as ->; left; reflexivity).
  exists None. split; [reflexivity|]. intros c Hc. discriminate.
Qed.

Lemma get_parent_ok h cur : attached h cur -> get_parent h cur = Ok (par h cur).
Proof.
  destruct cur as [|i|g|t|k|e]; cbn [attached get_parent par]; try reflexivity; try contradiction.
  - destruct (gs_parent h g); cbn; [reflexivity | congruence].
  - destruct (st_parent h t); cbn; [reflexivity | congruence].
  - destruct (seg_holder h k); cbn; [reflexivity | congruence].
Qed.

Lemma node_ref_eqb_eq a b : node_ref_eqb a b = true -> a = b.
Proof.
  destruct a, b; cbn; try discriminate; try reflexivity; intros H; apply Nat.eqb_eq in H; congruence.
Qed.

Lemma node_ref_eqb_refl a : node_ref_eqb a a = true.
Proof. destruct a; cbn; try reflexivity; apply Nat.eqb_refl. Qed.

Lemma next_after_sorted self : forall cs b s,
  ssorted cs -> (b = true -> Forall (sib_lt self) cs) ->
  next_after self cs b = Some s -> In s cs /\ sib_lt self s.
Proof.
  induction cs as [|y r IH]; intros b s S B H; cbn [next_after] in H; [discriminate|].
  cbn [ssorted] in S. destruct S as [Fy Sr].
  destruct b.
  - injection H as <-. split; [left; reflexivity|]. specialize (B eq_refl). inversion B; assumption.
  - assert (B' : node_ref_eqb y self = true -> Forall (sib_lt self) r).
    { intros E. apply node_ref_eqb_eq in E. subst y. exact Fy. }
    destruct (IH _ s Sr B' H) as [In1 L]. split; [right; exact In1 | exact L].
Qed.

Lemma par_attached h cur p : H2 h -> attached h cur -> par h cur = Some p ->
  match p with RSeg _ | REle _ => False | _ => True end.
Proof.
  intros _ _. destruct cur as [|i|g|t|k|e]; cbn [par]; try discriminate.
  - intros H; injection H as <-; exact Logic.I.
  - destruct (gs_parent h g); cbn; [|discriminate]. intros H; injection H as <-; exact Logic.I.
  - destruct (st_parent h t); cbn; [|discriminate]. intros H; injection H as <-; exact Logic.I.
  - destruct (seg_holder h k); cbn; [|discriminate]. intros H; injection H as <-; exact Logic.I.
Qed.

(* get_next_sibling of an attached node whose parent is attached *)
Lemma next_sibling_ok h cur : H2 h -> attached h cur ->
  (forall p, par h cur = Some p -> attached h p) ->
  exists o, get_next_sibling h cur = Ok o /\
            forall s, o = Some s -> par h s = par h cur /\ attached h s /\ sib_lt cur s.
Proof.
  intros I A PA. unfold get_next_sibling.
  destruct (par h cur) as [p|] eqn:EP.
  2:{ destruct cur as [|i|g|t|k|e]; try contradiction; try discriminate EP.
      exists None. split; [reflexivity|]. intros s Hs; discriminate. }
  assert (NR : cur <> RRoot) by (intros ->; discriminate EP).
  rewrite (get_parent_ok h cur A), EP.
  pose proof (children_ok h p I (PA p eq_refl)) as C.
  pose proof (par_attached h cur p I A EP) as PC.
  assert (X : exists cs, children_of h p = Ok cs /\ ssorted cs /\ (forall c, In c cs -> par h c = Some p /\ attached h c)).
  { destruct p; try contradiction; exact C. }
  destruct X as (cs & E & S & P).
  destruct cur as [|i|g|t|k|e]; try congruence; try contradiction; cbn [bind]; rewrite E; cbn [bind];
    (eexists; split; [reflexivity|]; intros s Hs;
     destruct (next_after_sorted _ cs false s S (fun X => ltac:(discriminate X)) Hs) as [In1 L];
     destruct (P s In1) as [P1 A1]; split; [congruence | split; assumption]).
Qed.

Lemma is_closed_ok h r : nvalid h r -> exists b, is_closed h r = Ok b.
Proof.
  destruct r as [|i|g|t|k|e]; cbn [nvalid is_closed]; intros V; try contradiction; eauto.
  - destruct (heap_nth_ok _ _ V) as (n & -> & _). cbn [bind]. eauto.
  - destruct (heap_nth_ok _ _ V) as (n & -> & _). cbn [bind]. eauto.
  - destruct (heap_nth_ok _ _ V) as (n & -> & _). cbn [bind]. eauto.
Qed.

(* ------------------------------------------------------------------ *)
(* one step                                                             *)

Lemma in_stack_iff s : in_stack s = true <-> In (it_cur s) (it_stack s).
Proof.
  unfold in_stack. rewrite existsb_exists. split.
  - intros (x & Hx & E). apply node_ref_eqb_eq in E. subst x. exact Hx.
  - intros H. exists (it_cur s). split; [exact H | apply node_ref_eqb_refl].
Qed.

(* lines 55-70 of err_iter.__next__ *)
Definition iter_rest (h : errh) (s : iter_state) : iter_state * iter_res :=
  let cur := it_cur s in
  match get_next_sibling h cur with
  | Raise e => (s, IExn e)
  | Ok (Some node) => ({| it_cur := node; it_stack := it_stack s |}, IOk)
  | Ok None =>
      match is_closed h cur with
      | Raise e => (s, IExn e)
      | Ok false => (s, IOut)
      | Ok true =>
          match get_parent h cur with
          | Raise e => (s, IExn e)
          | Ok None => (s, IOut)
          | Ok (Some node) =>
              match is_closed h node with
              | Raise e => (s, IExn e)
              | Ok false => (s, IOut)
              | Ok true =>
                  if is_root node then (s, IOut)
                  else
                  let st := if in_stack s then removelast (it_stack s) else it_stack s in
                  let s' := {| it_cur := node; it_stack := st |} in
                  (s', IOk)
              end
          end
      end
  end.

Lemma iter_next_unfold h s :
  iter_next h s =
  match (if in_stack s then Ok None else get_first_child h (it_cur s)) with
  | Raise e => (s, IExn e)
  | Ok (Some node) => ({| it_cur := node; it_stack := it_stack s ++ [it_cur s] |}, IOk)
  | Ok None => iter_rest h s
  end.
Proof. reflexivity. Qed.

Definition st_key (h : errh) (s : iter_state) : key4 := key h (it_cur s) (in_stack s).

Definition step_post (h : errh) (it : iter_state) (out : iter_state * iter_res) : Prop :=
  match out with
  | (it', IOk) => ItInv h it' /\ vis h (it_cur it') /\ klt (st_key h it) (st_key h it')
  | (it', IOut) => it' = it
  | (_, IExn _) => False
  end.

Lemma rev_removelast {A} (xs : list A) : rev (removelast xs) = tl (rev xs).
Proof.
  destruct (rev xs) as [|y r] eqn:E.
  - apply (f_equal (@rev A)) in E. rewrite rev_involutive in E. subst xs. reflexivity.
  - apply (f_equal (@rev A)) in E. rewrite rev_involutive in E. subst xs. cbn [rev tl].
    rewrite removelast_last. apply rev_involutive.
Qed.

Lemma iter_rest_ok h it : H2 h -> ItInv h it -> step_post h it (iter_rest h it).
Proof.
  intros I (A & S & P). unfold iter_rest. cbv zeta.
  assert (PA : forall p, par h (it_cur it) = Some p -> attached h p).
  { intros p Hp. apply (SInv_attached h _ S). apply in_rev. rewrite rev_involutive. apply P. exact Hp. }
  destruct (next_sibling_ok h (it_cur it) I A PA) as (o & -> & Ho).
  destruct o as [sib|].
  { destruct (Ho sib eq_refl) as (P1 & A1 & L1). cbn [step_post]. split; [|split].
    - split; [exact A1|]. split; [exact S|]. cbn [it_cur it_stack]. intros p Hp. apply P. congruence.
    - cbn [it_cur]. split; [exact A1|]. intros ->. destruct (it_cur it); exact L1.
    - unfold st_key. cbn [it_cur]. apply key_sib; assumption. }
  destruct (is_closed_ok h (it_cur it) (attached_valid h _ I A)) as (b & ->).
  destruct b; [|reflexivity].
  rewrite (get_parent_ok h _ A).
  destruct (par h (it_cur it)) as [node|] eqn:EP; [|reflexivity].
  pose proof (PA node eq_refl) as AN.
  destruct (is_closed_ok h node (attached_valid h _ I AN)) as (b & ->).
  destruct b; [|reflexivity].
  destruct (is_root node) eqn:IR; [reflexivity|].
  assert (NR : node <> RRoot) by (intros ->; discriminate IR).
  set (st := if in_stack it then removelast (it_stack it) else it_stack it).
  (* the parent is still on the stack *)
  assert (SI : SInv h (rev st) /\ In node (rev st)).
  { unfold st. destruct (in_stack it) eqn:IS.
    - rewrite rev_removelast. apply in_stack_iff in IS.
      pose proof (P node eq_refl) as PN. apply in_rev in IS. apply in_rev in PN.
      destruct (rev (it_stack it)) as [|y rest] eqn:ER; [contradiction|].
      cbn [tl]. cbn [SInv] in S. destruct S as (Ay & Py & Sr). split; [exact Sr|].
      destruct PN as [<-|PN]; [|exact PN].
      destruct IS as [E|IS].
      + exfalso. apply (par_neq h _ _ EP). exact E.
      + exact (SInv_closed h rest Sr _ _ IS EP).
    - split; [exact S|]. apply in_rev. rewrite rev_involutive. apply P. reflexivity. }
  destruct SI as [S' IN'].
  cbn [step_post]. split; [|split].
  - split; [exact AN|]. split; [exact S'|]. cbn [it_cur it_stack].
    intros p Hp. apply in_rev. exact (SInv_closed h _ S' _ _ IN' Hp).
  - cbn [it_cur]. split; [exact AN | exact NR].
  - unfold st_key at 2. cbn [it_cur].
    assert (IS' : in_stack {| it_cur := node; it_stack := st |} = true).
    { apply in_stack_iff. cbn [it_cur it_stack]. apply in_rev. exact IN'. }
    rewrite IS'. unfold st_key. apply key_up; assumption.
Qed.

Lemma iter_next_ok h it : H2 h -> ItInv h it -> step_post h it (iter_next h it).
Proof.
  intros I V. rewrite iter_next_unfold. destruct (in_stack it) eqn:IS; [apply iter_rest_ok; assumption|].
  destruct V as (A & S & P).
  destruct (first_child_ok h (it_cur it) I A) as (o & -> & Ho).
  destruct o as [c|]; [|apply iter_rest_ok; [exact I | split; [exact A | split; assumption]]].
  destruct (Ho c eq_refl) as [Pc Ac]. cbn [step_post]. split; [|split].
  - split; [exact Ac|]. cbn [it_cur it_stack]. split.
    + rewrite rev_app_distr. cbn [rev app SInv]. split; [exact A|]. split; [|exact S].
      intros p Hp. apply in_rev. rewrite rev_involutive. apply P. exact Hp.
    + intros p Hp. rewrite Pc in Hp. injection Hp as <-. apply in_or_app. right. left. reflexivity.
  - cbn [it_cur]. split; [exact Ac|]. intros ->. discriminate Pc.
  - unfold st_key. rewrite IS. cbn [it_cur]. apply key_child. exact Pc.
Qed.

(* ------------------------------------------------------------------ *)
(* the fuel of collect_new suffices                                     *)

Definition all_nodes (h : errh) : list node_ref :=
  RRoot :: map RIsa (seq 0 (length (h_isa h))) ++ map RGs (seq 0 (length (h_gs h))) ++
           map RSt (seq 0 (length (h_st h))) ++ map RSeg (seq 0 (length (h_seg h))).

Definition all_states (h : errh) : list (node_ref * bool) := list_prod (all_nodes h) [false; true].

Lemma in_all_nodes h r : nvalid h r -> In r (all_nodes h).
Proof.
  unfold all_nodes. destruct r as [|i|g|t|k|e]; cbn [nvalid]; intros V; [left; reflexivity| | | | |contradiction]; right.
  - apply in_or_app. left. apply in_map, in_seq. lia.
  - apply in_or_app. right. apply in_or_app. left. apply in_map, in_seq. lia.
  - apply in_or_app. right. apply in_or_app. right. apply in_or_app. left. apply in_map, in_seq. lia.
  - apply in_or_app. right. apply in_or_app. right. apply in_or_app. right. apply in_map, in_seq. lia.
Qed.

Lemma all_states_length h : length (all_states h) <= 2 * node_count h.
Proof.
  unfold all_states. rewrite prod_length. unfold all_nodes, node_count. cbn [length].
  rewrite !app_length, !map_length, !seq_length. lia.
Qed.

Definition rank (h : errh) (it : iter_state) : nat :=
  length (filter (fun x => kltb (st_key h it) (key h (fst x) (snd x))) (all_states h)).

Lemma filter_le {A} (f f' : A -> bool) : forall xs,
  (forall x, In x xs -> f' x = true -> f x = true) -> length (filter f' xs) <= length (filter f xs).
Proof.
  induction xs as [|x xs IH]; intros H; cbn [filter]; [lia|].
  assert (IH' : length (filter f' xs) <= length (filter f xs)) by (apply IH; intros y Hy; apply H; right; exact Hy).
  destruct (f' x) eqn:F'.
  - rewrite (H x (or_introl eq_refl) F'). cbn [length]. lia.
  - destruct (f x); cbn [length]; lia.
Qed.

Lemma filter_lt {A} (f f' : A -> bool) : forall xs,
  (forall x, In x xs -> f' x = true -> f x = true) ->
  (exists x, In x xs /\ f x = true /\ f' x = false) -> length (filter f' xs) < length (filter f xs).
Proof.
  induction xs as [|x xs IH]; intros H (y & Hy & Fy & F'y); [contradiction|]. cbn [filter].
  assert (Hr : forall z, In z xs -> f' z = true -> f z = true) by (intros z Hz; apply H; right; exact Hz).
  destruct Hy as [->|Hy].
  - rewrite Fy, F'y. cbn [length]. pose proof (filter_le f f' xs Hr). lia.
  - assert (IH' : length (filter f' xs) < length (filter f xs)) by (apply IH; [exact Hr | eauto]).
    destruct (f' x) eqn:F'.
    + rewrite (H x (or_introl eq_refl) F'). cbn [length]. lia.
    + destruct (f x); cbn [length]; lia.
Qed.

Lemma filter_true_all {A} (xs : list A) : filter (fun _ => true) xs = xs.
Proof. induction xs as [|x xs IHx]; cbn [filter]; [reflexivity | rewrite IHx; reflexivity]. Qed.

Lemma rank_step h it it' :
  klt (st_key h it) (st_key h it') -> nvalid h (it_cur it') -> rank h it' < rank h it.
Proof.
  intros K V. unfold rank. apply filter_lt.
  - intros x _ Hx. apply kltb_spec in Hx. apply kltb_spec. eapply klt_trans; eauto.
  - exists (it_cur it', in_stack it'). split; [|split].
    + unfold all_states. apply in_prod; [apply in_all_nodes; exact V|]. destruct (in_stack it'); cbn; auto.
    + cbn [fst snd]. apply kltb_spec. exact K.
    + cbn [fst snd]. destruct (kltb _ _) eqn:E; [|reflexivity]. apply kltb_spec in E. exfalso. exact (klt_irrefl _ E).
Qed.

Lemma collect_fuel_ok h : H2 h -> forall fuel it acc,
  ItInv h it -> Forall (vis h) acc -> rank h it < fuel ->
  exists it' nodes, collect_fuel fuel h it acc = (it', Ok nodes) /\ ItInv h it' /\ Forall (vis h) nodes.
Proof.
  intros I. induction fuel as [|f IH]; intros it acc V F R; [lia|].
  cbn [collect_fuel]. pose proof (iter_next_ok h it I V) as N.
  destruct (iter_next h it) as [it' [| |e]]; cbn [step_post] in N; [| |contradiction].
  - destruct N as (V' & Vc & K). apply IH.
    + exact V'.
    + apply Forall_app. split; [exact F | constructor; [exact Vc | constructor]].
    + pose proof (rank_step h it it' K (attached_valid h _ I (proj1 Vc))). lia.
  - subst it'. exists it, acc. split; [reflexivity|]. split; assumption.
Qed.

Theorem collect_new_ok h it :
  H2 h -> ItInv h it ->
  exists it' nodes, collect_new h it = (it', Ok nodes) /\ ItInv h it' /\ Forall (vis h) nodes.
Proof.
  intros I V. unfold collect_new. apply collect_fuel_ok; [exact I | exact V | constructor|].
  unfold rank. pose proof (all_states_length h).
  pose proof (filter_le (fun _ => true) (fun x => kltb (st_key h it) (key h (fst x) (snd x))) (all_states h) (fun _ _ _ => eq_refl)) as L.
  rewrite (filter_true_all (all_states h)) in L. lia.
Qed.

Print Assumptions collect_new_ok.
Print Assumptions ItInv_ext.
