(* C08_doc_examples.v — non-vacuity of Proofs/C08_parse.v and C08_doc.v on a document of the shipped map 997.4010, and
   the counterexamples that make the hypotheses of the reader theorem necessary.  Every `Example` is checked by
   vm_compute.  The behaviour of the REAL parser (python3.12 xml.etree.ElementTree / expat, on the output of the
   real pyx12.xmlwriter.XMLWriter) is recorded next to each counterexample; it was obtained with
   /venv/bin/python, PYTHONPATH=/repo, and agrees with xml_read in every case. *)
From Coq Require Import String.
From PX.Lib Require Import Base PyStr Xml.
From PX.Gen Require Import MapRegexes.
From PX.Gen.Maps Require M_dataele M_codes M_997_4010.
From PX.Model Require Import Path Segment MapLoad MapTree OutW XmlOut XmlIn.
From PX.Spec Require Import C01_spec C08_spec C08_parse_spec.
From PX.Proofs Require Import C08_lemmas C08_xml C08_parse C08_doc.

Local Definition l (s : string) : str := list_ascii_of_string s.
Definition empty_map : xmap :=
  {| m_id := None; m_name := None; m_pos_map := []; m_dataele := []; m_codes := []; m_exclude := [];
     m_charset := []; m_icvn := None |}.
Definition mp : xmap :=
  match load_map map_regexes M_dataele.tree M_codes.tree None (l "B") M_997_4010.tree with
  | Ok m => m
  | Raise _ => empty_map
  end.

(* source delimiters | > ~ : the round trip must bring back * : ~ *)
Definition d0 : delims := {| seg_term := "~"%char; ele_term := "|"%char; subele_term := ">"%char |}.
Definition loc (r : nref) (t : string) : list located :=
  match target_of mp r with
  | Some (TSeg gi) =>
      match gi_parent_path gi with
      | Ok pp => [{| lc_gi := gi; lc_path := path_list pp; lc_d := d0; lc_seg := parse_seg d0 (l t) |}]
      | Raise _ => []
      end
  | _ => []
  end.

Definition doc997 : list located :=
  loc [0;0] "ISA|00|          |00|          |ZZ|ZZ000          |ZZ|ZZ001          |030828|1128|U|00401|000010121|0|T|>~" ++
  loc [0;1;0] "GS|FA|ZZ000|ZZ001|20030828|1128|17|X|004010~" ++
  loc [0;1;1;0] "ST|997|0001~" ++
  loc [0;1;1;1;0] "AK1|HC|17~" ++
  loc [0;1;1;1;1;0] "AK2|837|0001~" ++
  loc [0;1;1;1;1;1;0] "AK3|NM1|8|2010BA|8~" ++
  loc [0;1;1;1;1;1;1] "AK4|8>2|66|7|a<b&c~" ++
  loc [0;1;1;1;1;2] "AK5|R|5~" ++
  loc [0;1;1;1;2] "AK9|R|1|1|0~" ++
  loc [0;1;1;4] "SE|8|0001~" ++
  loc [0;1;2] "GE|1|17~" ++
  loc [0;3] "IEA|1|000010121~".

Definition str_of (s : str) : string := string_of_list_ascii s.
Definition xml_text (xs : list located) : str := match run_model xs x_empty with (_, chunks, _) => concat chunks end.
Definition back_text (xs : list located) : option (string * result unit) :=
  match xml_read (xml_text xs) with
  | Some doc => match convert doc convert_writer with (_, out, r) => Some (str_of (concat out), r) end
  | None => None
  end.


(* ------------------------------------------------------------------ *)
(* D. a concrete document: ISA GS ST AK1 AK2 AK3 AK4 AK5 AK9 SE GE IEA, written with | > ~ *)

Example doc997_premises :
  length doc997 = 12 /\ inputs_ok [] doc997 = true /\ inputs_fit doc997 = true /\
  doc_xml_ok doc997 = true /\ doc_shallow doc997 = true.
Proof. vm_compute. repeat split. Qed.

(* the XML text the writer model produces (the real x12xml_simple writes the same bytes for this file) *)
Example doc997_xml_text : str_of (xml_text doc997) = "<?xml version=""1.0"" encoding=""utf-8""?>
<x12simple>
  <loop id='ISA_LOOP'>
    <seg id='ISA'>
      <ele id='ISA01'>00</ele>
      <ele id='ISA02'>          </ele>
      <ele id='ISA03'>00</ele>
      <ele id='ISA04'>          </ele>
      <ele id='ISA05'>ZZ</ele>
      <ele id='ISA06'>ZZ000          </ele>
      <ele id='ISA07'>ZZ</ele>
      <ele id='ISA08'>ZZ001          </ele>
      <ele id='ISA09'>030828</ele>
      <ele id='ISA10'>1128</ele>
      <ele id='ISA11'>U</ele>
      <ele id='ISA12'>00401</ele>
      <ele id='ISA13'>000010121</ele>
      <ele id='ISA14'>0</ele>
      <ele id='ISA15'>T</ele>
      <ele id='ISA16'>&gt;</ele>
    </seg>
    <loop id='GS_LOOP'>
      <seg id='GS'>
        <ele id='GS01'>FA</ele>
        <ele id='GS02'>ZZ000</ele>
        <ele id='GS03'>ZZ001</ele>
        <ele id='GS04'>20030828</ele>
        <ele id='GS05'>1128</ele>
        <ele id='GS06'>17</ele>
        <ele id='GS07'>X</ele>
        <ele id='GS08'>004010</ele>
      </seg>
      <loop id='ST_LOOP'>
        <seg id='ST'>
          <ele id='ST01'>997</ele>
          <ele id='ST02'>0001</ele>
        </seg>
        <loop id='HEADER'>
          <seg id='AK1'>
            <ele id='AK101'>HC</ele>
            <ele id='AK102'>17</ele>
          </seg>
          <loop id='AK2'>
            <seg id='AK2'>
              <ele id='AK201'>837</ele>
              <ele id='AK202'>0001</ele>
            </seg>
            <loop id='AK3'>
              <seg id='AK3'>
                <ele id='AK301'>NM1</ele>
                <ele id='AK302'>8</ele>
                <ele id='AK303'>2010BA</ele>
                <ele id='AK304'>8</ele>
              </seg>
              <seg id='AK4'>
                <comp id='AK4'>
                  <subele id='AK401-01'>8</subele>
                  <subele id='AK401-02'>2</subele>
                </comp>
                <ele id='AK402'>66</ele>
                <ele id='AK403'>7</ele>
                <ele id='AK404'>a&lt;b&amp;c</ele>
              </seg>
            </loop>
            <seg id='AK5'>
              <ele id='AK501'>R</ele>
              <ele id='AK502'>5</ele>
            </seg>
          </loop>
          <seg id='AK9'>
            <ele id='AK901'>R</ele>
            <ele id='AK902'>1</ele>
            <ele id='AK903'>1</ele>
            <ele id='AK904'>0</ele>
          </seg>
        </loop>
        <seg id='SE'>
          <ele id='SE01'>8</ele>
          <ele id='SE02'>0001</ele>
        </seg>
      </loop>
      <seg id='GE'>
        <ele id='GE01'>1</ele>
        <ele id='GE02'>17</ele>
      </seg>
    </loop>
    <seg id='IEA'>
      <ele id='IEA01'>1</ele>
      <ele id='IEA02'>000010121</ele>
    </seg>
  </loop>
</x12simple>
"%string.
Proof. vm_compute. reflexivity. Qed.

(* read back: the tree of the events; its seg elements are the segment trees up to container text *)
Example doc997_read :
  exists doc, xml_read (xml_text doc997) = Some doc /\ tree_of (doc_events doc997) = Some doc /\
              map drop_ctext (seg_nodes doc) = map seg_tree_of doc997.
Proof.
  destruct (xml_read (xml_text doc997)) as [doc|] eqn:E; [|vm_compute in E; discriminate E].
  exists doc. split; [reflexivity|]. vm_compute in E. injection E as <-. vm_compute. split; reflexivity.
Qed.

(* converted back by the model of xmlx12_simple.convert through the X12Writer model: delimiters * : ~, ISA16 ':',
   envelope trailers regenerated (here equal to the source ones); the real xmlx12_simple.convert prints the same text *)
Example doc997_back : back_text doc997 = Some ("ISA*00*          *00*          *ZZ*ZZ000          *ZZ*ZZ001          *030828*1128*U*00401*000010121*0*T*:~
GS*FA*ZZ000*ZZ001*20030828*1128*17*X*004010~
ST*997*0001~
AK1*HC*17~
AK2*837*0001~
AK3*NM1*8*2010BA*8~
AK4*8:2*66*7*a<b&c~
AK5*R*5~
AK9*R*1*1*0~
SE*8*0001~
GE*1*17~
IEA*1*000010121~
"%string, Ok tt).
Proof. vm_compute. reflexivity. Qed.

(* the hypotheses of the document theorem hold for it: the theorem applies *)
Example doc997_theorem :
  exists doc, xml_read (xml_text doc997) = Some doc /\
    forall w, convert doc w = w_iter (fun x => write_back (seg_tree_of x)) doc997 w.
Proof.
  destruct doc997_premises as (_ & IO & IF & XO & DS).
  destruct (run_model doc997 x_empty) as [[st chunks] r] eqn:RUN.
  assert (R : r = Ok tt) by (apply (f_equal snd) in RUN; vm_compute in RUN; congruence). subst r.
  destruct (document_read_back doc997 st chunks IO IF XO DS RUN) as (doc & RD & _ & _ & C).
  exists doc. split; [|exact C]. unfold xml_text. rewrite RUN. exact RD.
Qed.

(* which segments satisfy the premises of the existing per-segment theorem C08_segment_tree_roundtrip
   (node_fits, xd_free, ids_parse): all but ISA (xd_free excludes ISA) and AK4 — the composite node of the shipped map
   has no id and its sub-elements are called AK401-01, AK401-02, while node_fits asks for AK401-1, AK401-2 *)
Example doc997_per_segment :
  map (fun x => (node_fits (lc_gi x) (lc_seg x), xd_free (lc_seg x), ids_parse (lc_gi x) (lc_seg x))) doc997 =
  [(true, false, true); (true, true, true); (true, true, true); (true, true, true); (true, true, true); (true, true, true);
   (false, true, true); (true, true, true); (true, true, true); (true, true, true); (true, true, true); (true, true, true)].
Proof. vm_compute. reflexivity. Qed.

(* the sub-document without ISA and AK4 satisfies every premise of document_roundtrip *)
Definition doc997_plain : list located := filter seg_back_ok doc997.
Example doc997_plain_premises :
  length doc997_plain = 10 /\ inputs_ok [] doc997_plain = true /\ inputs_fit doc997_plain = true /\
  doc_xml_ok doc997_plain = true /\ doc_shallow doc997_plain = true /\ forallb seg_back_ok doc997_plain = true.
Proof. vm_compute. repeat split. Qed.

(* ------------------------------------------------------------------ *)
(* counterexamples: what XML cannot carry                              *)

Definition A : str := l "a".
Definition TAB : ascii := ascii_of_nat 9.
Definition CR : ascii := ascii_of_nat 13.
Definition read_evs (evs : list xev) : option xml := xml_read (xml_decl ++ ser 0 evs).

(* 1. a TAB (or LF) in an attribute value comes back as a SPACE (XML 1.0, 3.3.3).
      real: XMLWriter.push('a', {'id': 'x\ty'}) writes <a id='x<TAB>y'>; ElementTree: attrib {'id': 'x y'}; same for LF *)
Definition evs_tab : list xev := [XOpen A (Some (Some (l "x" ++ [TAB] ++ l "y"))); XClose A].
Example cex_attr_tab :
  balanced [] evs_tab = true /\ one_root evs_tab = true /\ evs_ok evs_tab = false /\
  tree_of evs_tab = Some (X A [(l "id", l "x" ++ [TAB] ++ l "y")] (Some NLc) []) /\
  read_evs evs_tab = Some (X A [(l "id", l "x y")] (Some NLc) []).
Proof. vm_compute. repeat split. Qed.

Definition evs_lf : list xev := [XOpen A (Some (Some (l "x" ++ NLc ++ l "y"))); XClose A].
Example cex_attr_lf : read_evs evs_lf = Some (X A [(l "id", l "x y")] (Some NLc) []) /\ read_evs evs_lf <> tree_of evs_lf.
Proof. split; [vm_compute; reflexivity|]. vm_compute. discriminate. Qed.

(* 2. a CR in character data comes back as LF, CR LF as one LF (XML 1.0, 2.11).
      real: XMLWriter.elem('ele', 'p\rq', {'id': 'E'}): ElementTree .text 'p\nq';  'p\r\nq': 'p\nq' *)
Definition evs_cr : list xev := [XOpen A None; XLeaf (l "ele") (Some (l "E")) (l "p" ++ [CR] ++ l "q"); XClose A].
Example cex_text_cr :
  balanced [] evs_cr = true /\ one_root evs_cr = true /\ evs_ok evs_cr = false /\
  read_evs evs_cr = Some (X A [] (Some (NLc ++ l "  ")) [X (l "ele") [(l "id", l "E")] (Some (l "p" ++ NLc ++ l "q")) []]) /\
  read_evs evs_cr <> tree_of evs_cr.
Proof. vm_compute. repeat split. discriminate. Qed.

Definition evs_crlf : list xev := [XOpen A None; XLeaf (l "ele") (Some (l "E")) (l "p" ++ [CR] ++ NLc ++ l "q"); XClose A].
Example cex_text_crlf :
  read_evs evs_crlf = Some (X A [] (Some (NLc ++ l "  ")) [X (l "ele") [(l "id", l "E")] (Some (l "p" ++ NLc ++ l "q")) []]).
Proof. vm_compute. reflexivity. Qed.

(* 3. a control character is not XML 1.0 at all.
      real: 'p\x01q' as content, or 'x\x01y' as id: ParseError, not well-formed (invalid token) *)
Definition evs_ctl : list xev := [XOpen A None; XLeaf (l "ele") (Some (l "E")) (l "p" ++ [ascii_of_nat 1] ++ l "q"); XClose A].
Definition evs_ctl_attr : list xev := [XOpen A (Some (Some (l "x" ++ [ascii_of_nat 1] ++ l "y"))); XClose A].
Example cex_control :
  evs_ok evs_ctl = false /\ read_evs evs_ctl = None /\ tree_of evs_ctl <> None /\
  evs_ok evs_ctl_attr = false /\ read_evs evs_ctl_attr = None /\ tree_of evs_ctl_attr <> None.
Proof. vm_compute. repeat split; discriminate. Qed.

(* 4. an element name that is not a name: XMLWriter prints it as it is.
      real: XMLWriter.push('a b') writes <a b> ... </a b>: ParseError, not well-formed (invalid token) *)
Definition evs_name : list xev := [XOpen (l "a b") None; XClose (l "a b")].
Example cex_name : balanced [] evs_name = true /\ evs_ok evs_name = false /\ read_evs evs_name = None /\ tree_of evs_name <> None.
Proof. vm_compute. repeat split; discriminate. Qed.

(* so the hypothesis evs_ok of xml_read_serialised cannot be dropped *)
Theorem xml_read_needs_evs_ok :
  ~ (forall evs t, balanced [] evs = true -> one_root evs = true -> tree_of evs = Some t -> read_evs evs = Some t).
Proof.
  intros H. destruct cex_attr_tab as (B & O & _ & T & R). specialize (H _ _ B O T). rewrite R in H. vm_compute in H. discriminate H.
Qed.

(* NOT counterexamples (the reader and the real parser keep them): white-space-only character data of a leaf
   (ISA02 above: ten blanks; ' <TAB><LF> ' stays), the three characters ]]> in data (the writer escapes > :
   x]]&gt;y is read as x]]>y), code points 127..255 (as code points; the byte encoding of the file is outside
   the model), None as id or content (printed as the four letters None). *)
Definition evs_keep : list xev :=
  [XOpen A (Some None); XLeaf (l "ele") None (l " " ++ [TAB] ++ NLc ++ l " "); XLeaf (l "ele") (Some (l "E")) (l "x]]>y'""&z");
   XLeaf (l "ele") (Some (l "a'<>&""b")) [ascii_of_nat 127; ascii_of_nat 133; ascii_of_nat 255]; XClose A].
Example keep_ok : evs_ok evs_keep = true /\ read_evs evs_keep = tree_of evs_keep /\ tree_of evs_keep <> None.
Proof. vm_compute. repeat split. discriminate. Qed.

(* the DOCTYPE line x12xml_simple writes when a dtd_urn is given is skipped *)
Example keep_doctype :
  xml_read (xml_decl ++ doctype_line (l "x12simple") (Some x12_pubid) (l "http://example.org/x12simple.dtd") ++ ser 0 evs_keep)
  = tree_of evs_keep.
Proof. vm_compute. reflexivity. Qed.

(* the same at document level: a CR inside an element value (a value the X12 character sets do not allow):
   every premise but doc_xml_ok holds, and the value comes back with LF *)
Definition doc_cr : list located :=
  loc [0;1;1;1;0] (String.append "AK1|H" (String CR "C|17~")).
Example cex_doc_cr :
  inputs_ok [] doc_cr = true /\ inputs_fit doc_cr = true /\ doc_shallow doc_cr = true /\ forallb seg_back_ok doc_cr = true /\
  doc_xml_ok doc_cr = false /\
  back_text doc_cr = Some (String.append "AK1*H" (String (ascii_of_nat 10) (String.append "C*17~" (String (ascii_of_nat 10) ""))), Ok tt).
Proof. vm_compute. repeat split. Qed.

Print Assumptions doc997_theorem.
Print Assumptions doc997_read.
Print Assumptions doc997_back.
Print Assumptions xml_read_needs_evs_ok.
