(* C01_raw.v — the raw tokeniser delivers exactly the terminated, non-empty
   pieces of the text for EVERY read schedule and every buffer size; the reader
   builds exactly the specified segment from each raw line; a source opened by
   path is the same stream as the text itself. *)
From Coq Require Import String.
From PX.Lib Require Import Base PyStr.
From PX.Gen Require Import SrcConsts.
From PX.Model Require Import Path Segment Raw Reader.
From PX.Spec Require Import C01_spec.

(* ---------- auxiliary: read ---------- *)
Lemma read_facts n st more st' :
  read n st = (more, st') ->
  more ++ rest st' = rest st /\ length more <= n /\ (1 <= n -> more = [] -> rest st = []).
Proof.
  unfold read.
  set (k := Nat.min n match sched st with [] => n | c :: _ => Nat.max 1 c end).
  assert (1 <= n -> 1 <= k) as Hk by (unfold k; destruct (sched st); lia).
  assert (k <= n) as Hk' by apply Nat.le_min_l.
  clearbody k. intros H. injection H as <- <-. cbn [rest].
  split; [apply firstn_skipn|]. split.
  - etransitivity; [apply firstn_le_length|]. exact Hk'.
  - intros Hn. specialize (Hk Hn).
    destruct (rest st); [reflexivity|]. destruct k; [lia|]. discriminate.
Qed.

Lemma read_len n st more st' :
  read n st = (more, st') -> length (rest st) = length more + length (rest st').
Proof. intros H. apply read_facts in H as (E & _). rewrite <- E. apply app_length. Qed.

(* ---------- auxiliary: split1 / mem_ascii / pieces ---------- *)
Lemma split1_app T x y a b : split1 T x = Some (a, b) -> split1 T (x ++ y) = Some (a, b ++ y).
Proof.
  revert a b. induction x as [|c x IH]; intros a b; cbn [split1 app]; [discriminate|].
  destruct (Ascii.eqb c T).
  - intros H. injection H as <- <-. reflexivity.
  - destruct (split1 T x) as [[a' b']|]; [|discriminate].
    intros H. injection H as <- <-. rewrite (IH a' b' eq_refl). reflexivity.
Qed.

Lemma split1_eq T x a b : split1 T x = Some (a, b) -> x = a ++ T :: b.
Proof.
  revert a b. induction x as [|c x IH]; intros a b; cbn [split1]; [discriminate|].
  destruct (Ascii.eqb_spec c T).
  - intros H. injection H as <- <-. subst. reflexivity.
  - destruct (split1 T x) as [[a' b']|]; [|discriminate].
    intros H. injection H as <- <-. rewrite (IH a' b' eq_refl). reflexivity.
Qed.

Lemma split1_none_mem T x : split1 T x = None -> mem_ascii T x = false.
Proof.
  induction x as [|c x IH]; cbn [split1 mem_ascii]; [reflexivity|].
  rewrite (Ascii.eqb_sym T c). destruct (Ascii.eqb c T); [discriminate|].
  destruct (split1 T x) as [[a b]|]; [discriminate|]. intros _. apply IH. reflexivity.
Qed.

Lemma pieces_aux_split1 T s : forall cur,
  pieces_aux T s cur =
  match split1 T s with
  | Some (a, b) => (rev cur ++ a) :: pieces_aux T b []
  | None => []
  end.
Proof.
  induction s as [|x s IH]; intros cur; cbn [pieces_aux split1]; [reflexivity|].
  destruct (Ascii.eqb x T).
  - rewrite app_nil_r. reflexivity.
  - rewrite IH. destruct (split1 T s) as [[a b]|]; [|reflexivity].
    cbn [rev]. rewrite <- app_assoc. reflexivity.
Qed.

Lemma raw_spec_some T s line b :
  split1 T s = Some (line, b) ->
  raw_spec T s = match lstrip_set CRLF line with
                 | [] => raw_spec T b
                 | l' => l' :: raw_spec T b
                 end.
Proof.
  intros H. unfold raw_spec, terminated_pieces. rewrite pieces_aux_split1, H.
  cbn [rev app map filter]. destruct (lstrip_set CRLF line); reflexivity.
Qed.

Lemma raw_spec_none T s : split1 T s = None -> raw_spec T s = [].
Proof.
  intros H. unfold raw_spec, terminated_pieces. rewrite pieces_aux_split1, H. reflexivity.
Qed.

(* ---------- auxiliary: refill ---------- *)
Lemma refill_spec bufsize T : 1 <= bufsize ->
  forall f buffer st b' st',
  S (length (rest st)) <= f -> refill f bufsize T buffer st = (b', st') ->
  b' ++ rest st' = buffer ++ rest st /\ (mem_ascii T b' = true \/ rest st' = []).
Proof.
  intros Hb. induction f as [|f IH]; intros buffer st b' st' Hf; [lia|].
  cbn [refill]. destruct (mem_ascii T buffer) eqn:M.
  - intros H. injection H as <- <-. auto.
  - destruct (read bufsize st) as [more st1] eqn:R.
    pose proof (read_len _ _ _ _ R) as L.
    apply read_facts in R as (E & _ & Z).
    destruct more as [|m more].
    + intros H. injection H as <- <-. specialize (Z Hb eq_refl).
      cbn [app] in E. rewrite E. split; [reflexivity|right; exact Z].
    + intros H. apply IH in H; [|cbn [length] in L; lia].
      destruct H as [H1 H2]. split; [|exact H2].
      rewrite H1, <- app_assoc, E. reflexivity.
Qed.

(* GOAL R1: the iteration, for any buffer size >= 1, any stream state, enough fuel *)
Theorem raw_lines_spec bufsize T buffer st fuel :
  1 <= bufsize -> S (length buffer + length (rest st)) <= fuel ->
  raw_lines fuel bufsize T buffer st = raw_spec T (buffer ++ rest st).
Proof.
  intros Hb. revert buffer st. induction fuel as [|f IH]; intros buffer st Hf; [lia|].
  cbn [raw_lines].
  destruct (refill (S (length (rest st))) bufsize T buffer st) as [b1 st1] eqn:RF.
  apply (refill_spec bufsize T Hb) in RF; [|lia]. destruct RF as [E HM].
  rewrite <- E.
  destruct (split1 T b1) as [[line b2]|] eqn:SP.
  - rewrite (raw_spec_some T _ _ _ (split1_app T b1 (rest st1) line b2 SP)).
    change CRLF with NLCR.
    assert (S (length b2 + length (rest st1)) <= f) as Hf'.
    { apply split1_eq in SP. apply (f_equal (@length _)) in E.
      rewrite !app_length in E. subst b1. rewrite app_length in E. cbn [length] in E. lia. }
    destruct (lstrip_set NLCR line); rewrite (IH _ _ Hf'); reflexivity.
  - apply split1_none_mem in SP as M. destruct HM as [HM|HM]; [congruence|].
    rewrite HM, app_nil_r. symmetry. apply raw_spec_none. exact SP.
Qed.

(* ---------- auxiliary: read_upto and the header ---------- *)
Lemma read_upto_spec want : forall fuel line st line' st',
  length line <= want -> want - length line <= fuel ->
  read_upto fuel want line st = (line', st') ->
  line' ++ rest st' = line ++ rest st /\ length line' <= want /\
  (length line' = want \/ rest st' = []).
Proof.
  induction fuel as [|f IH]; intros line st line' st' Hl Hf; cbn [read_upto].
  - intros H. injection H as <- <-. split; [reflexivity|]. split; [exact Hl|left; lia].
  - destruct (length line <? want) eqn:LT.
    + apply Nat.ltb_lt in LT.
      destruct (read (want - length line) st) as [more st1] eqn:R.
      apply read_facts in R as (E & Lm & Z).
      destruct more as [|m more].
      * intros H. injection H as <- <-. cbn [app] in E. rewrite E.
        split; [reflexivity|]. split; [exact Hl|]. right. apply Z; [lia|reflexivity].
      * intros H. apply IH in H.
        -- destruct H as (H1 & H2 & H3). split; [|split; assumption].
           rewrite H1, <- app_assoc, E. reflexivity.
        -- rewrite app_length. lia.
        -- rewrite app_length. cbn [length] in *. lia.
    + apply Nat.ltb_ge in LT. intros H. injection H as <- <-.
      split; [reflexivity|]. split; [exact Hl|left; lia].
Qed.

Lemma header_read t sch :
  let (first, st1) := read ISA_LEN {| rest := t; sched := sch |} in
  let (line, st2) := read_upto ISA_LEN ISA_LEN first st1 in
  line ++ rest st2 = t /\ length line <= ISA_LEN /\ (length line = ISA_LEN \/ rest st2 = []).
Proof.
  destruct (read ISA_LEN {| rest := t; sched := sch |}) as [first st1] eqn:R.
  apply read_facts in R as (E & L & _). cbn [rest] in E.
  destruct (read_upto ISA_LEN ISA_LEN first st1) as [line st2] eqn:U.
  apply read_upto_spec in U; [|exact L|lia].
  destruct U as (U1 & U2 & U3). rewrite U1, E. auto.
Qed.

Lemma firstn_app_le {A} n (a b : list A) : n <= length a -> firstn n (a ++ b) = firstn n a.
Proof.
  intros H. rewrite firstn_app. replace (n - length a) with 0 by lia.
  cbn [firstn]. apply app_nil_r.
Qed.

Lemma slice_app_le (a b : str) lo hi : hi <= length a -> slice (a ++ b) lo hi = slice a lo hi.
Proof.
  intros H. unfold slice. destruct (Nat.le_gt_cases lo hi) as [L|L].
  - rewrite skipn_app. replace (lo - length a) with 0 by lia. cbn [skipn].
    apply firstn_app_le. rewrite skipn_length. lia.
  - replace (hi - lo) with 0 by lia. reflexivity.
Qed.

Lemma nth_res_ok {A} (d : A) : forall (l : list A) k, k < length l -> nth_res l k = Ok (nth k l d).
Proof.
  induction l as [|x l IH]; intros k H; cbn [length] in H; [lia|].
  destruct k; cbn [nth_res nth]; [reflexivity|]. apply IH. lia.
Qed.

Lemma nth_res_app {A} (d : A) (a b : list A) k :
  k < length a -> nth_res a k = Ok (nth k (a ++ b) d).
Proof. intros H. rewrite (nth_res_ok d a k H), app_nth1 by exact H. reflexivity. Qed.

Lemma mem_str_known x :
  mem_str x icvn_known = str_eqb x (cs "00401") || str_eqb x (cs "00501").
Proof. unfold icvn_known. cbn [mem_str]. rewrite orb_false_r. reflexivity. Qed.

(* header_ok on a text whose first 106 characters are `line` *)
Lemma header_ok_app line r : length line = 106 ->
  header_ok (line ++ r) =
  str_eqb (firstn 3 line) (cs "ISA") && mem_str (slice line icvn_lo icvn_hi) icvn_known.
Proof.
  intros L. unfold header_ok. rewrite mem_str_known.
  rewrite firstn_app_le by lia. rewrite slice_app_le by lia.
  replace (106 <=? length (line ++ r)) with true
    by (symmetry; apply Nat.leb_le; rewrite app_length; lia).
  reflexivity.
Qed.

(* GOAL R2: initialisation on a well-formed header, for any schedule *)
Theorem raw_init_ok t sch :
  header_ok t = true ->
  exists r, raw_init {| rest := t; sched := sch |} = Ok r /\
            r_buffer r ++ rest (r_stream r) = t /\ delims_of r = header_delims t.
Proof.
  intros H. unfold raw_init. pose proof (header_read t sch) as HR.
  destruct (read ISA_LEN {| rest := t; sched := sch |}) as [first st1].
  destruct (read_upto ISA_LEN ISA_LEN first st1) as [line st2].
  destruct HR as (E & L1 & L2).
  assert (length line = 106) as L.
  { destruct L2 as [L2|L2]; [exact L2|]. rewrite L2, app_nil_r in E. subst line.
    unfold header_ok in H. apply andb_true_iff in H as [H _]. apply andb_true_iff in H as [H _].
    apply Nat.leb_le in H. unfold ISA_LEN in L1. lia. }
  subst t. rewrite (header_ok_app _ _ L) in H. apply andb_true_iff in H as [H1 H2].
  change (cs "ISA") with (Raw.l "ISA") in H1. rewrite H1, H2.
  replace (length line =? ISA_LEN) with true by (symmetry; apply Nat.eqb_eq; exact L).
  cbn [negb].
  rewrite (nth_res_app " "%char line (rest st2) (ISA_LEN - 1)) by (rewrite L; unfold ISA_LEN; lia).
  rewrite (nth_res_app " "%char line (rest st2) ele_term_pos) by (rewrite L; unfold ele_term_pos; lia).
  rewrite (nth_res_app " "%char line (rest st2) (ISA_LEN - 2)) by (rewrite L; unfold ISA_LEN; lia).
  rewrite (nth_res_app " "%char line (rest st2) rep_term_pos) by (rewrite L; unfold rep_term_pos; lia).
  destruct (read DEFAULT_BUFSIZE st2) as [more st3] eqn:R.
  apply read_facts in R as (E & _).
  eexists. split; [reflexivity|]. cbn [r_buffer r_stream]. split.
  - rewrite <- app_assoc, E. reflexivity.
  - reflexivity.
Qed.

Lemma raw_init_rejects t sch :
  header_ok t = false -> raw_init {| rest := t; sched := sch |} = Raise X12Error.
Proof.
  intros H. unfold raw_init. pose proof (header_read t sch) as HR.
  destruct (read ISA_LEN {| rest := t; sched := sch |}) as [first st1].
  destruct (read_upto ISA_LEN ISA_LEN first st1) as [line st2].
  destruct HR as (E & _ & _).
  destruct (str_eqb (firstn 3 line) (Raw.l "ISA")) eqn:H1; [|reflexivity].
  destruct (length line =? ISA_LEN) eqn:L; [|reflexivity].
  apply Nat.eqb_eq in L. subst t. rewrite (header_ok_app _ _ L) in H.
  change (cs "ISA") with (Raw.l "ISA") in H. rewrite H1 in H. cbn [andb] in H.
  rewrite H. reflexivity.
Qed.

(* GOAL R3: chunk independence *)
Theorem raw_chunk_independent t sch :
  header_ok t = true ->
  exists r, raw_all {| rest := t; sched := sch |} = Ok (r, raw_spec (seg_term (header_delims t)) t) /\
            delims_of r = header_delims t.
Proof.
  intros H. destruct (raw_init_ok t sch H) as (r & I & E & D).
  exists r. split; [|exact D]. unfold raw_all. rewrite I. cbn [bind].
  rewrite raw_lines_spec; [|unfold DEFAULT_BUFSIZE; lia|apply le_n].
  rewrite E, <- D. reflexivity.
Qed.

(* GOAL R4: anything that is not a well-formed header is refused with the documented error *)
Theorem raw_rejects t sch :
  header_ok t = false -> raw_all {| rest := t; sched := sch |} = Raise X12Error.
Proof.
  intros H. unfold raw_all. rewrite (raw_init_rejects t sch H). reflexivity.
Qed.

(* ---------- auxiliary: split ---------- *)
Lemma split_aux_notin c : forall s cur e,
  ~ In c cur -> In e (split_aux c s cur) -> ~ In c e.
Proof.
  induction s as [|x s IH]; intros cur e Hc; cbn [split_aux].
  - intros [<-|[]]. rewrite <- in_rev. exact Hc.
  - destruct (Ascii.eqb_spec x c) as [->|N].
    + intros [<-|H]; [rewrite <- in_rev; exact Hc|]. apply (IH [] e); [intros []|exact H].
    + apply IH. intros [->|H]; [apply N; reflexivity|exact (Hc H)].
Qed.

Lemma split_notin c s e : In e (split c s) -> ~ In c e.
Proof. apply split_aux_notin. intros []. Qed.

Lemma split_aux_whole c : forall e cur, ~ In c e -> split_aux c e cur = [rev cur ++ e].
Proof.
  induction e as [|x e IH]; intros cur H; cbn [split_aux].
  - rewrite app_nil_r. reflexivity.
  - destruct (Ascii.eqb_spec x c) as [->|N]; [exfalso; apply H; left; reflexivity|].
    rewrite IH by (intros H'; apply H; right; exact H').
    cbn [rev]. rewrite <- app_assoc. reflexivity.
Qed.

Lemma split_whole c e : ~ In c e -> split c e = [e].
Proof. intros H. unfold split. rewrite split_aux_whole by exact H. reflexivity. Qed.

Lemma lstrip_ws_incl a : forall s, In a (lstrip_ws s) -> In a s.
Proof.
  induction s as [|x s IH]; cbn [lstrip_ws]; [auto|].
  destruct (is_space x); [intros H; right; apply IH; exact H|auto].
Qed.

Lemma strip_blank_incl a s : In a (strip_blank s) -> In a s.
Proof.
  unfold strip_blank. destruct s as [|c s]; [auto|].
  destruct (Ascii.eqb c " "%char); [apply lstrip_ws_incl|auto].
Qed.

Lemma strip_blank_lead line :
  (if has_leading_blank line then lstrip_ws line else line) = strip_blank line.
Proof. destruct line; reflexivity. Qed.

Definition seg_of_line_body (d : delims) (body : str) : seg :=
  match split (ele_term d) body with
  | [] => {| sid := None; els := [] |}
  | id :: rest =>
      {| sid := Some id;
         els := map (fun e : str => if str_eqb id (cs "ISA") then [e]
                                    else split (subele_term d) e) rest |}
  end.

Lemma parse_seg_spec d line :
  ~ In (seg_term d) line -> parse_seg d (strip_blank line) = seg_of_line d line.
Proof.
  intros H. unfold seg_of_line.
  assert (~ In (seg_term d) (strip_blank line)) as H' by (intros X; apply H, strip_blank_incl, X).
  destruct (strip_blank line) as [|c b]; [reflexivity|].
  unfold parse_seg. remember (c :: b) as body eqn:Hb. clear Hb.
  assert (forall body' : str, body' = body ->
            match split (ele_term d) body' with
            | [] => {| sid := None; els := [] |}
            | id :: rest =>
                {| sid := Some id;
                   els := map (fun e : str => if str_eqb id (Segment.l "ISA")
                                              then split (ele_term d) e
                                              else split (subele_term d) e) rest |}
            end = seg_of_line_body d body) as T.
  { intros ? ->. unfold seg_of_line_body.
    destruct (split (ele_term d) body) as [|id els0] eqn:SP; [reflexivity|].
    f_equal. apply map_ext_in. intros e He.
    change (Segment.l "ISA") with (cs "ISA").
    destruct (str_eqb id (cs "ISA")); [|reflexivity].
    apply split_whole. apply (split_notin _ body). rewrite SP. right. exact He. }
  change (match split (ele_term d) body with
          | [] => {| sid := None; els := [] |}
          | id :: rest =>
              {| sid := Some id;
                 els := map (fun e : str => if str_eqb id (cs "ISA") then [e]
                                            else split (subele_term d) e) rest |}
          end) with (seg_of_line_body d body).
  apply T.
  destruct (rev body) as [|c0 r] eqn:RV; [reflexivity|].
  destruct (Ascii.eqb_spec c0 (seg_term d)) as [->|N]; [|reflexivity].
  exfalso. apply H'. rewrite in_rev, RV. left. reflexivity.
Qed.

(* ---------- auxiliary: the reader's bookkeeping never emits SEG1 ---------- *)
Definition nseg1 (e : err) : bool := negb (str_eqb (e_code e) (cs "SEG1")).

Ltac codes :=
  rewrite ?forallb_app;
  repeat match goal with
         | |- context [if ?b then _ else _] => destruct b
         end;
  repeat match goal with
         | H : forallb nseg1 _ = true |- _ => rewrite H
         end;
  reflexivity.

Lemma base_step_codes d x s x' es :
  base_step d x s = Ok (x', es) -> forallb nseg1 es = true.
Proof.
  intros H. unfold base_step in H. cbv zeta in H.
  repeat match type of H with
         | (if ?b then _ else _) = _ => destruct b
         end; try discriminate H; injection H as _ <-; codes.
Qed.

Lemma reader_step_codes d x s x' es :
  reader_step d x s = Ok (x', es) -> forallb nseg1 es = true.
Proof.
  intros H. unfold reader_step in H.
  destruct (base_step d x s) as [[x1 eb]|] eqn:B; cbn [bind] in H; [|discriminate H].
  apply base_step_codes in B. cbv zeta in H.
  match type of H with
  | context [?p ++ eb] =>
      assert (forallb nseg1 p = true) as P
        by (repeat match goal with
                   | |- context [match ?b with _ => _ end] => destruct b
                   end; reflexivity);
      remember p as pre eqn:Hpre; clear Hpre
  end.
  repeat (cbv beta iota in H;
          first
            [ match type of H with
              | context [match ?b with _ => _ end] => is_var b; destruct b
              end
            | match type of H with
              | context [match loops ?y with _ => _ end] => destruct (loops y)
              end
            | match type of H with
              | context [if ?b then _ else _] =>
                  match type of b with bool => destruct b end
              end ]);
  cbv beta iota in H; injection H as _ <-; codes.
Qed.

Lemma mk_err_seg1_ne line1 : mk_err "seg" "SEG1" line1 <> mk_err "seg" "1" line1.
Proof. unfold mk_err. intros H. injection H as H. discriminate H. Qed.

Lemma nseg1_notin es line1 : forallb nseg1 es = true -> ~ In (mk_err "seg" "SEG1" line1) es.
Proof.
  intros H X. rewrite forallb_forall in H. apply H in X. discriminate X.
Qed.

(* GOAL R5: the reader builds the specified segment from a raw line and flags
   leading blanks / trailing separators *)
Theorem reader_line_spec d x line x' s es :
  reader_line d x line = Ok (x', s, es) -> ~ In (seg_term d) line ->
  s = seg_of_line d line /\
  (In (mk_err "seg" "SEG1" (Some (cur_line x + 1)%Z)) es <-> has_trailing_sep d line = true) /\
  (has_leading_blank line = true -> In (mk_err "seg" "1" (Some (cur_line x + 1)%Z)) es).
Proof.
  intros H NT. unfold reader_line in H. cbv zeta in H.
  change (match line with c :: _ => Ascii.eqb c " "%char | [] => false end)
    with (has_leading_blank line) in H.
  rewrite strip_blank_lead in H.
  destruct (reader_step d x (parse_seg d (strip_blank line))) as [[x1 e3]|] eqn:RS;
    cbn [bind] in H; [|discriminate H].
  apply reader_step_codes in RS.
  injection H as _ <- <-.
  split; [apply parse_seg_spec; exact NT|]. split.
  - rewrite !in_app_iff. unfold has_trailing_sep. split.
    + intros [X|[X|X]].
      * destruct (has_leading_blank line); [|destruct X].
        destruct X as [X|[]]. symmetry in X. destruct (mk_err_seg1_ne _ X).
      * destruct (rev (strip_blank line)) as [|c r]; [destruct X|].
        destruct (Ascii.eqb c (ele_term d)); [reflexivity|destruct X].
      * destruct (nseg1_notin _ _ RS X).
    + intros X. right. left.
      destruct (rev (strip_blank line)) as [|c r]; [discriminate X|].
      rewrite X. left. reflexivity.
  - intros X. rewrite X. rewrite in_app_iff. left. left. reflexivity.
Qed.

(* GOAL R6: a source named by path delivers the file's characters unchanged *)
Theorem path_stream_agree b :
  forallb (fun c => nat_of_ascii c <? 128) b = true ->
  open_path b = Ok {| rest := b; sched := [] |}.
Proof. intros H. unfold open_path. rewrite H. reflexivity. Qed.

Print Assumptions raw_chunk_independent. Print Assumptions raw_lines_spec. Print Assumptions raw_rejects. Print Assumptions reader_line_spec. Print Assumptions path_stream_agree.
Print Assumptions raw_init_ok.

(* a line of nothing but blanks is dropped: no segment, the state is unchanged,
   one leading-space error; every other line goes through reader_line *)
Theorem blank_line_dropped d x line :
  is_segment_line line = false -> line <> [] ->
  reader_line_opt d x line = Ok (x, None, [mk_err "seg" "1" (Some (cur_line x + 1)%Z)]).
Proof.
  intros H NE. unfold reader_line_opt, is_segment_line, strip_blank in *.
  destruct line as [|c r]; [congruence|].
  destruct (Ascii.eqb c " "%char) eqn:E.
  - cbn [andb]. destruct (lstrip_ws (c :: r)); [reflexivity | discriminate H].
  - discriminate H.
Qed.

Theorem segment_line_kept d x line :
  is_segment_line line = true ->
  reader_line_opt d x line =
  match reader_line d x line with
  | Ok (x', s, es) => Ok (x', Some s, es)
  | Raise e => Raise e
  end.
Proof.
  intros H. unfold reader_line_opt, is_segment_line, strip_blank in *.
  destruct line as [|c r]; [discriminate H|].
  destruct (Ascii.eqb c " "%char) eqn:E; cbn [andb].
  - destruct (lstrip_ws (c :: r)) eqn:L; [discriminate H|].
    destruct (reader_line d x (c :: r)) as [[[x' s0] es]|e]; reflexivity.
  - destruct (reader_line d x (c :: r)) as [[[x' s0] es]|e]; reflexivity.
Qed.
Print Assumptions blank_line_dropped. Print Assumptions segment_line_kept.
