(* NV_C04.v — non-vacuity of the hypotheses of the theorems of Props/C04.v. *)
From Coq Require Import String.
From PX.Lib Require Import Base.
From PX.Model Require Import Segment Reader.
From PX.Spec Require Import C04_spec.
From PX.Proofs Require Import C04_reader.

Definition nv_d : delims := {| seg_term := "~"%char; ele_term := "*"%char; subele_term := ":"%char |}.
Definition p (t : string) : seg := parse_seg nv_d (cs t).

Definition nv_isa (icn : string) : seg :=
  p ("ISA*00*          *00*          *ZZ*ZZ000          *ZZ*ZZ001          *030828*1128*U*00401*" ++ icn ++ "*0*T*:").

(* ---- a consistent interchange: two groups; the first with two sets, the
   second with one; bodies with composites and an HL; all counts right ---- *)
Definition nv_good : doc :=
  [ {| i_isa := nv_isa "000010121";
       i_groups :=
         [ {| g_gs := p "GS*HC*ZZ000*ZZ001*20030828*1128*17*X*004010X098A1";
              g_sets :=
                [ {| t_st := p "ST*837*0001";
                     t_body := [p "BHT*0019*00*A1*20030828*1128*CH"; p "HL*1**20*1"; p "SV1*HC:99213:25*40*UN*1"];
                     t_se := Some (p "SE*5*0001") |};
                  {| t_st := p "ST*837*0002"; t_body := [p "REF*87*004010X098A1"]; t_se := Some (p "SE*3*0002") |} ];
              g_ge := Some (p "GE*2*17") |};
           {| g_gs := p "GS*HC*ZZ000*ZZ001*20030828*1128*18*X*004010X098A1";
              g_sets := [ {| t_st := p "ST*837*0001"; t_body := []; t_se := Some (p "SE*2*0001") |} ];
              g_ge := Some (p "GE*1*18") |} ];
       i_iea := Some (p "IEA*2*000010121") |} ].

(* C04_consistent_silent: both hypotheses, and the conclusion computed *)
Example nv_C04_consistent_silent :
  wf_doc nv_good = true /\ consistent nv_d nv_good /\ length (flatten nv_good) = 16 /\
  match run_steps nv_d (fresh true) (flatten nv_good) with
  | Ok (out, xf) => forallb (fun es => match env_codes es with [] => true | _ => false end) out = true /\
                    env_codes (cleanup xf) = []
  | Raise _ => False
  end.
Proof.
  split; [vm_compute; reflexivity|].
  split; [split; [vm_compute; repeat constructor | vm_compute; reflexivity]|].
  vm_compute. repeat split; reflexivity.
Qed.

(* ---- an inconsistent but properly nested document: two interchanges with the
   same control number; wrong and non-numeric counts; a repeated group number
   and a repeated set number; the last interchange ends without SE/GE/IEA ---- *)
Definition nv_bad : doc :=
  [ {| i_isa := nv_isa "000010121";
       i_groups :=
         [ {| g_gs := p "GS*HC*ZZ000*ZZ001*20030828*1128*17*X*004010X098A1";
              g_sets :=
                [ {| t_st := p "ST*837*0001"; t_body := [p "REF*87*X"]; t_se := Some (p "SE*7*0001") |};
                  {| t_st := p "ST*837*0001"; t_body := [p "REF*87*Y"; p "REF*88*Z"]; t_se := Some (p "SE*4*0009") |} ];
              g_ge := Some (p "GE*two*17") |};
           {| g_gs := p "GS*HC*ZZ000*ZZ001*20030828*1128*17*X*004010X098A1";
              g_sets := [];
              g_ge := Some (p "GE") |} ];
       i_iea := Some (p "IEA*1*000010122") |};
    {| i_isa := nv_isa "000010121";
       i_groups :=
         [ {| g_gs := p "GS*HC*ZZ000*ZZ001*20030828*1128*19*X*004010X098A1";
              g_sets := [ {| t_st := p "ST*837*0003"; t_body := [p "REF*87*X"]; t_se := None |} ];
              g_ge := None |} ];
       i_iea := None |} ].

(* C04_reader_exact: the hypothesis, and the three conclusions computed; the
   recount is far from empty on this document *)
Example nv_C04_reader_exact :
  wf_doc nv_bad = true /\
  recount nv_d [] nv_bad =
    [ []; []; []; []; [C "st" "4"]; [C "st" "23"]; []; []; [C "st" "3"]; [C "gs" "5"];
      [C "gs" "6"]; [C "gs" "4"; C "gs" "5"]; [C "isa" "001"; C "isa" "021"];
      [C "isa" "025"]; []; []; [] ] /\
  missing_at_end nv_bad = [C "isa" "023"; C "gs" "3"; C "st" "2"] /\
  match run_steps nv_d (fresh false) (flatten nv_bad) with
  | Ok (out, xf) => map env_codes out = recount nv_d [] nv_bad /\ env_codes (cleanup xf) = missing_at_end nv_bad
  | Raise _ => False
  end.
Proof. vm_compute. repeat split; reflexivity. Qed.

(* C04_ill_nested_detected: three ill-nested arrangements (ST directly inside
   an ISA; a GE closing an open ST; a trailer with nothing open), and an ISA
   with 15 elements inside an ill-nested list (the X12Error branch) *)
Definition nv_ill1 : list seg :=
  [nv_isa "000010121"; p "ST*837*0001"; p "REF*87*X"; p "SE*3*0001"; p "IEA*0*000010121"].
Definition nv_ill2 : list seg :=
  [nv_isa "000010121"; p "GS*HC*ZZ000*ZZ001*20030828*1128*17*X*004010X098A1"; p "ST*837*0001"; p "GE*1*17"; p "IEA*1*000010121"].
Definition nv_ill3 : list seg := [p "SE*1*0001"; nv_isa "000010121"; p "IEA*0*000010121"].
Definition nv_ill4 : list seg := [p "GE*1*17"; p "ISA*00*          *00"; p "IEA*0*000010121"].

Definition detected (r : result (list (list err) * xstate)) : bool :=
  match r with
  | Ok (out, _) => existsb (fun es => match env_codes es with [] => false | _ => true end) out
  | Raise X12Error => true
  | Raise _ => false
  end.

Example nv_C04_ill_nested_detected :
  properly_nested nv_ill1 = false /\ properly_nested nv_ill2 = false /\
  properly_nested nv_ill3 = false /\ properly_nested nv_ill4 = false /\
  detected (run_steps nv_d (fresh false) nv_ill1) = true /\ detected (run_steps nv_d (fresh true) nv_ill2) = true /\
  detected (run_steps nv_d (fresh false) nv_ill3) = true /\
  run_steps nv_d (fresh false) nv_ill4 = Raise X12Error /\
  (* and the hypothesis is not trivially true: the flattened trees are properly nested *)
  properly_nested (flatten nv_good) = true /\ properly_nested (flatten nv_bad) = true.
Proof. vm_compute. repeat split; reflexivity. Qed.

(* C04_reader_total has no hypothesis. *)
