(* C12_doc_pipeline_ex.v — non-vacuity of pipeline_ack_delims_layout_independent on the shipped maps: the 837 of
   Proofs/C12_reader.v written as "~*:" without line breaks and as "|^!" with CRLF; both runs write the same 997. *)
From Coq Require Import String.
From PX.Lib Require Import Base PyStr PyInt.
From PX.Model Require Import Path Segment Raw Reader MapLoad MapTree Element Walker MapEnv Driver Pipeline.
From PX.Model Require Errh Ack997.
From PX.Spec Require Import C01_spec C12_spec C12b_spec C12_doc_spec.
From PX.Proofs Require Import C01_roundtrip C07_driver_maps C07_pipeline_maps C12_reader C12_doc_step C12_doc_run
                              C12_doc_examples C12_doc_pipeline.

Notation prun t := (run_pipeline_gen shipped_load shipped_idx clk0 [] None ack_only t) (only parsing).
Notation text d conv body := (encode d conv (isa_for d ex_fields :: body)) (only parsing).

Theorem nv_ack_837_independent :
  o_result (prun (text da [] ex_body)) = o_result (prun (text db crlf ex_body)) /\
  o_ack (prun (text da [] ex_body)) = o_ack (prun (text db crlf ex_body)) /\
  map strip_dev (o_trace (prun (text da [] ex_body))) = map strip_dev (o_trace (prun (text db crlf ex_body))).
Proof.
  destruct nv_reader_hyps as (A1 & A2 & A3 & A4 & A5 & A6 & A7 & A8 & A9 & A10 & A11 & A12 & A13 & _).
  exact (pipeline_ack_delims_layout_independent shipped_load shipped_idx clk0 [] None da db [] crlf ex_fields ex_body
           A1 A2 A3 A4 A5 A6 A7 A8 A9 A10 A11 A12 A13 isa_valid_same_ab (proj2 nv_layers_837)).
Qed.

Fixpoint has_sub (sub s : str) : bool :=
  starts_with sub s || match s with [] => false | _ :: r => has_sub sub r end.

(* what is written: a 997 that rejects the set (AK5*R) with segment-level errors (AK3), the same from both texts *)
Example nv_ack_text :
  o_result (prun (text db crlf ex_body)) = Ok false /\
  has_sub (sl "AK3*") (o_ack (prun (text db crlf ex_body))) = true /\
  has_sub (sl "AK5*R") (o_ack (prun (text db crlf ex_body))) = true /\
  has_sub (sl "AK9*R*1*1*0") (o_ack (prun (text db crlf ex_body))) = true.
Proof. vm_compute. repeat split. Qed.

Print Assumptions nv_ack_837_independent.
