(* C02_doc_examples.v — non-vacuity of Proofs/C02_doc.v (a shipped map and a concrete conformant document
   that satisfy every hypothesis, the conclusion evaluated) and the reason for each side condition
   (small maps on which the walker rejects or mis-locates a document that walks the map in order). *)
From Coq Require Import String Lia.
From PX.Lib Require Import Base PyStr PyInt Regex Xml.
From PX.Model Require Import Path Segment Syntax MapLoad MapTree Element Counter Walker.
From PX.Spec Require Import C07_walker_wf C02_doc_spec.
From PX.Proofs Require Import Counter_keys C07_walker_lemmas C07_walker C02_doc_counter C02_doc_walk C02_doc.

Local Definition l (x : string) : str := list_ascii_of_string x.

(* ------------------------------------------------------------------ *)
(* deciding the quantified premises of the specification               *)

Lemma between_skippable_dec m L i j :
  forallb (fun k => match nth_error (children_of m L) k with Some n => skippable 40 n | None => true end)
          (seq (S i) (j - S i)) = true ->
  between_skippable m L i j.
Proof.
  intros H k n K1 K2 Hk. rewrite forallb_forall in H.
  specialize (H k ltac:(apply in_seq; lia)). rewrite Hk in H. exact H.
Qed.

Lemma nth_skipn {A} (l0 : list A) a b : nth_error (skipn a l0) b = nth_error l0 (a + b).
Proof. revert l0. induction a as [|a IH]; intros [|x l0]; cbn [skipn Nat.add nth_error]; try reflexivity; [destruct b; reflexivity | apply IH]. Qed.

Lemma rest_skippable_dec m L i :
  forallb (skippable 40) (skipn (S i) (children_of m L)) = true -> rest_skippable m L i.
Proof.
  intros H k n K Hk. rewrite forallb_forall in H. apply H.
  replace k with (S i + (k - S i)) in Hk by lia. rewrite <- nth_skipn in Hk. exact (nth_error_In _ _ Hk).
Qed.

Lemma wrapper_prem_dec m L j :
  (match node_at (root_nodes m) L with
   | Some nL => negb (wrapper nL) ||
                forallb (fun n => negb (node_is_loop n) || skippable 40 n) (skipn (S j) (children_of m L))
   | None => true
   end) = true ->
  forall nL, node_at (root_nodes m) L = Some nL -> wrapper nL = true ->
    forall k n, j < k -> nth_error (children_of m L) k = Some n -> node_is_loop n = true -> skippable 40 n = true.
Proof.
  intros H nL HL W k n K Hk Ln. rewrite HL, W in H. cbn [negb orb] in H. rewrite forallb_forall in H.
  replace k with (S j + (k - S j)) in Hk by lia. rewrite <- nth_skipn in Hk.
  specialize (H _ (nth_error_In _ _ Hk)). rewrite Ln in H. exact H.
Qed.

Lemma loop_prem_dec (n : node) (i j : nat) (c : Z) :
  (match n with
   | NLoop _ _ _ u _ rep _ =>
       if seg_first n
       then used u && match loop_max_repeat rep with Ok mx => (next_count i j c <=? mx)%Z | Raise _ => false end
       else i <? j
   | NSeg _ => false
   end) = true ->
  match n with
  | NLoop _ _ _ u _ rep _ =>
      if seg_first n
      then used u = true /\ exists mx, loop_max_repeat rep = Ok mx /\ (next_count i j c <= mx)%Z
      else i < j
  | NSeg _ => False
  end.
Proof.
  destruct n as [id ty nm u q rep pm | sx]; [|discriminate]. destruct (seg_first _).
  - intros H. apply andb_true_iff in H as [H1 H2]. split; [exact H1|].
    destruct (loop_max_repeat rep) as [mx|e]; [|discriminate]. exists mx. split; [reflexivity | apply Z.leb_le; exact H2].
  - intros H. apply Nat.ltb_lt. exact H.
Qed.

(* running the walker over a list of items: Some final state when every item is found at its node and nothing
   at all is reported *)
Fixpoint exec (m : xmap) (d : delims) (w : wstate) (p : nref) (items : list item) : option wstate :=
  match items with
  | [] => Some w
  | (t, sg) :: rest =>
      match walk_st m w p d sg 0 0 None with
      | (w', [], Ok (Some t', _, _)) => if nref_eqb t' t then exec m d w' t rest else None
      | _ => None
      end
  end.

Definition dummy_path : xpath :=
  {| relative := true; loop_list := []; seg_id := None; id_val := None; ele_idx := None; subele_idx := None |}.
Definition xp_of (m : xmap) (r : nref) : xpath := match node_x12path m r with Ok x => x | Raise _ => dummy_path end.

(* the state after the first segment of an instance of C has been found with nothing counted before *)
Definition start_state (m : xmap) (C : nref) : wstate :=
  Wc (increment (increment (reset_to_node counter_init (xp_of m C)) (xp_of m C)) (xp_of m (C ++ [0]))).

Ltac side :=
  match goal with
  | |- between_skippable _ _ _ _ => apply between_skippable_dec; vm_compute; reflexivity
  | |- rest_skippable _ _ _ => apply rest_skippable_dec; vm_compute; reflexivity
  | |- forall nL, node_at _ _ = Some nL -> _ => apply wrapper_prem_dec; vm_compute; reflexivity
  | |- (_ <= _)%Z => apply Z.leb_le; vm_compute; reflexivity
  | |- _ = _ => vm_compute; reflexivity
  | |- _ <> _ => first [ discriminate | lia | vm_compute; discriminate ]
  | |- _ => lia
  end.

(* ------------------------------------------------------------------ *)
(* 1. a shipped map: 997.4010, one ST_LOOP instance with repeated and nested loops *)

From PX.Gen Require Import MapRegexes.
From PX.Gen.Maps Require M_dataele M_codes M_997_4010.

Module M997.
  Definition empty_map : xmap :=
    {| m_id := None; m_name := None; m_pos_map := []; m_dataele := []; m_codes := []; m_exclude := [];
       m_charset := []; m_icvn := None |}.
  Definition mp : xmap :=
    match load_map map_regexes M_dataele.tree M_codes.tree None (l "B") M_997_4010.tree with
    | Ok m => m
    | Raise _ => empty_map
    end.
  Definition d0 : delims := {| seg_term := "~"%char; ele_term := "*"%char; subele_term := ":"%char |}.
  Definition P (s : string) : seg := parse_seg d0 (l s).

  (* the nodes: ST_LOOP = [ST; HEADER = [AK1; 2000 = [AK2; 2100 = [AK3; AK4]; AK5]; AK9]; DETAIL; FOOTER; SE] *)
  Definition stl : nref := [0; 1; 1].
  Definition r_st : nref := [0; 1; 1; 0].
  Definition r_ak1 : nref := [0; 1; 1; 1; 0].
  Definition r_ak2 : nref := [0; 1; 1; 1; 1; 0].
  Definition r_ak3 : nref := [0; 1; 1; 1; 1; 1; 0].
  Definition r_ak4 : nref := [0; 1; 1; 1; 1; 1; 1].
  Definition r_ak5 : nref := [0; 1; 1; 1; 1; 2].
  Definition r_ak9 : nref := [0; 1; 1; 1; 2].
  Definition r_se : nref := [0; 1; 1; 4].

  Example statics : walker_wf mp = true /\ keys_ok mp = true.
  Proof. vm_compute. auto. Qed.

  (* ST AK1 (AK2 (AK3 AK4 AK4) (AK3) AK5) (AK2 AK5) AK9 SE *)
  Definition body : list item :=
    ((r_ak1, P "AK1*HC*17~") ::
       (((r_ak2, P "AK2*837*0001~") ::
           (((r_ak3, P "AK3*NM1*8*2010BA*8~") :: [(r_ak4, P "AK4*8*66*7*XX~"); (r_ak4, P "AK4*9*67*1~")]) ++
            (((r_ak3, P "AK3*REF*10**3~") :: []) ++
             [(r_ak5, P "AK5*R*5~")]))) ++
        (((r_ak2, P "AK2*837*0002~") :: [(r_ak5, P "AK5*A~")]) ++
         [(r_ak9, P "AK9*P*2*2*1~")]))) ++
    [(r_se, P "SE*12*0001~")].

  Ltac cb_seg jj :=
    match goal with |- conf_body ?m ?d ?L ?p ?i ?c _ => eapply (CB_seg m d L p i c jj) end;
    [ side | side | vm_compute; reflexivity | side | side | side | side | vm_compute; reflexivity | side | side | side | ].
  Ltac cb_loop jj :=
    match goal with |- conf_body ?m ?d ?L ?p ?i ?c _ => eapply (CB_loop m d L p i c jj) end;
    [ side | vm_compute; reflexivity | side | side | side
    | apply loop_prem_dec; vm_compute; reflexivity | | side | ].
  Ltac ci_seg := eapply CI_seg; [ side | vm_compute; reflexivity | side | ].
  Ltac cb_end := apply CB_end; side.

  Example conformant : conf_inst mp d0 stl ((r_st, P "ST*997*0001~") :: body).
  Proof.
    unfold body. ci_seg.
    cb_loop 1.                                   (* HEADER *)
    { ci_seg. cb_loop 1.                         (* 2000, first instance *)
      { ci_seg. cb_loop 1.                       (* 2100, first instance: AK3 AK4 AK4 *)
        { ci_seg. cb_seg 1. cb_seg 1. cb_end. }
        cb_loop 1.                               (* 2100, second instance: AK3 *)
        { ci_seg. cb_end. }
        cb_seg 2. cb_end. }
      cb_loop 1.                                 (* 2000, second instance: AK2 AK5 *)
      { ci_seg. cb_seg 2. cb_end. }
      cb_seg 2. cb_end. }
    cb_seg 4. cb_end.
  Qed.

  Example start_opened : opened mp (start_state mp stl) stl.
  Proof.
    destruct statics as [WF KO].
    eapply (opened_by_entry mp WF KO counter_init stl); try (vm_compute; reflexivity).
    vm_compute. discriminate.
  Qed.

  (* the theorem applies ... *)
  Example accepted :
    exists w', run mp d0 (start_state mp stl) r_st body w' /\
      forall r n, node_at (root_nodes mp) r = Some n ->
        cnt mp (w_counter w') r = predicted body (cnt mp (w_counter (start_state mp stl))) r.
  Proof.
    destruct statics as [WF KO].
    apply (conformant_instance_accepted mp d0 WF KO stl (P "ST*997*0001~") body (start_state mp stl) conformant).
    - eexists. eexists. vm_compute. reflexivity.
    - exact start_opened.
  Qed.

  (* ... and this is what it says, computed: the walker finds all 12 items and reports nothing; the final
     counts (ST_LOOP 1, ST 1, HEADER 1, AK1 1, 2000 2, AK2 1, 2100 0 — forgotten when 2000 was entered again —,
     AK3 0, AK4 0, AK5 1, AK9 1, SE 1) are the predicted ones *)
  Definition nodes : list nref := [stl; r_st; [0;1;1;1]; r_ak1; [0;1;1;1;1]; r_ak2; [0;1;1;1;1;1]; r_ak3; r_ak4; r_ak5; r_ak9; r_se].
  Example accepted_computed :
    option_map (fun w' => map (cnt mp (w_counter w')) nodes) (exec mp d0 (start_state mp stl) r_st body)
      = Some [1; 1; 1; 1; 2; 1; 0; 0; 0; 1; 1; 1]%Z /\
    map (predicted body (cnt mp (w_counter (start_state mp stl)))) nodes = [1; 1; 1; 1; 2; 1; 0; 0; 0; 1; 1; 1]%Z.
  Proof. vm_compute. auto. Qed.
End M997.

(* ------------------------------------------------------------------ *)
(* 2. a shipped map with a wrapper: 835.4010.X091.A1, ST_LOOP = [ST; HEADER; DETAIL = [2000]; FOOTER; SE] *)

Lemma entry_prem_dec (c0 : node) :
  (if seg_first c0
   then match c0 with
        | NLoop _ _ _ u _ rep _ => used u && match loop_max_repeat rep with Ok mx => (1 <=? mx)%Z | Raise _ => false end
        | NSeg _ => false
        end
   else true) = true ->
  seg_first c0 = true ->
  match c0 with
  | NLoop _ _ _ u _ rep _ => used u = true /\ exists mx, loop_max_repeat rep = Ok mx /\ (1 <= mx)%Z
  | NSeg _ => False
  end.
Proof.
  intros H SF. rewrite SF in H. destruct c0 as [id ty nm u q rep pm | sx]; [|discriminate].
  apply andb_true_iff in H as [H1 H2]. split; [exact H1|].
  destruct (loop_max_repeat rep) as [mx|e]; [|discriminate]. exists mx. split; [reflexivity | apply Z.leb_le; exact H2].
Qed.

From PX.Gen.Maps Require M_835_4010_X091_A1.

Module M835.
  Definition mp : xmap :=
    match load_map map_regexes M_dataele.tree M_codes.tree None (l "B") M_835_4010_X091_A1.tree with
    | Ok m => m
    | Raise _ => M997.empty_map
    end.
  Definition d0 : delims := M997.d0.
  Definition P (s : string) : seg := parse_seg d0 (l s).

  Definition stl : nref := [0; 1; 1].
  Definition r_st : nref := [0; 1; 1; 0].
  Definition r_bpr : nref := [0; 1; 1; 1; 0].
  Definition r_trn : nref := [0; 1; 1; 1; 1].
  Definition r_n1a : nref := [0; 1; 1; 1; 6; 0].
  Definition r_n3a : nref := [0; 1; 1; 1; 6; 1].
  Definition r_n4a : nref := [0; 1; 1; 1; 6; 2].
  Definition r_n1b : nref := [0; 1; 1; 1; 7; 0].
  Definition r_lx : nref := [0; 1; 1; 2; 0; 0].
  Definition r_clp : nref := [0; 1; 1; 2; 0; 3; 0].
  Definition r_nm1 : nref := [0; 1; 1; 2; 0; 3; 2].
  Definition r_svc : nref := [0; 1; 1; 2; 0; 3; 16; 0].
  Definition r_dtm : nref := [0; 1; 1; 2; 0; 3; 16; 1].
  Definition r_plb : nref := [0; 1; 1; 3; 0].
  Definition r_se : nref := [0; 1; 1; 4].

  Example statics : walker_wf mp = true /\ keys_ok mp = true.
  Proof. vm_compute. auto. Qed.

  (* ST  BPR TRN (N1 N3 N4) (N1)  [DETAIL: (LX (CLP NM1 (SVC DTM) (SVC)) (CLP NM1)) (LX (CLP NM1))]  (PLB)  SE *)
  Definition body : list item :=
    ((r_bpr, P "BPR*I*150*C*CHK************20200101~") ::
       ((r_trn, P "TRN*1*12345*1512345678~") ::
          (((r_n1a, P "N1*PR*INSURER~") :: [(r_n3a, P "N3*1 MAIN ST~"); (r_n4a, P "N4*CITY*ST*12345~")]) ++
           (((r_n1b, P "N1*PE*PROVIDER*FI*123456789~") :: []) ++ [])))) ++
    (((r_lx, P "LX*1~") ::
        ((((r_clp, P "CLP*CLAIM1*1*100*100**12*ICN1~") ::
             ((r_nm1, P "NM1*QC*1*DOE*JOHN~") ::
                (((r_svc, P "SVC*HC:99213*60*60~") :: [(r_dtm, P "DTM*472*20200101~")]) ++
                 (((r_svc, P "SVC*HC:99214*40*40~") :: []) ++ [])))) ++
          (((r_clp, P "CLP*CLAIM2*1*50*50**12*ICN2~") :: [(r_nm1, P "NM1*QC*1*ROE*JANE~")]) ++ [])) ++
         (((r_lx, P "LX*2~") :: (((r_clp, P "CLP*CLAIM3*1*10*10**12*ICN3~") :: [(r_nm1, P "NM1*QC*1*POE*JIM~")]) ++ [])) ++
          []))) ++
     (((r_plb, P "PLB*123456789*20201231*CV:X*-10~") :: []) ++
      [(r_se, P "SE*20*0001~")])).

  Ltac cb_seg jj :=
    match goal with |- conf_body ?m ?d ?L ?p ?i ?c _ => eapply (CB_seg m d L p i c jj) end;
    [ side | side | vm_compute; reflexivity | side | side | side | side | vm_compute; reflexivity | side | side | side | ].
  Ltac cb_loop jj :=
    match goal with |- conf_body ?m ?d ?L ?p ?i ?c _ => eapply (CB_loop m d L p i c jj) end;
    [ side | vm_compute; reflexivity | side | side | side
    | apply loop_prem_dec; vm_compute; reflexivity | | side | ].
  Ltac ci_seg := eapply CI_seg; [ side | vm_compute; reflexivity | side | ].
  Ltac ci_wrap :=
    match goal with
    | |- conf_inst ?m ?d ?W (?a :: (?X ++ ?Y)) => change (conf_inst m d W ((a :: X) ++ Y)); eapply (CI_wrap m d W)
    end;
    [ side | vm_compute; reflexivity | side | apply entry_prem_dec; vm_compute; reflexivity | | ].
  Ltac cb_end := apply CB_end; side.

  Example conformant : conf_inst mp d0 stl ((r_st, P "ST*835*0001~") :: body).
  Proof.
    unfold body. ci_seg.
    cb_loop 1.                                     (* HEADER *)
    { ci_seg. cb_seg 1.
      cb_loop 6. { ci_seg. cb_seg 1. cb_seg 2. cb_end. }       (* 1000A *)
      cb_loop 7. { ci_seg. cb_end. }                           (* 1000B *)
      cb_end. }
    cb_loop 2.                                     (* DETAIL: entered through 2000 *)
    { ci_wrap.
      { ci_seg.                                    (* 2000, first instance *)
        cb_loop 3.                                 (* 2100, first instance *)
        { ci_seg. cb_seg 2.
          cb_loop 16. { ci_seg. cb_seg 1. cb_end. }            (* 2110 *)
          cb_loop 16. { ci_seg. cb_end. }                      (* 2110 again *)
          cb_end. }
        cb_loop 3. { ci_seg. cb_seg 2. cb_end. }               (* 2100 again *)
        cb_end. }
      cb_loop 0.                                   (* 2000 again, inside the wrapper *)
      { ci_seg. cb_loop 3. { ci_seg. cb_seg 2. cb_end. } cb_end. }
      cb_end. }
    cb_loop 3. { ci_seg. cb_end. }                 (* FOOTER *)
    cb_seg 4. cb_end.
  Qed.

  Example accepted :
    exists w', run mp d0 (start_state mp stl) r_st body w' /\
      forall r n, node_at (root_nodes mp) r = Some n ->
        cnt mp (w_counter w') r = predicted body (cnt mp (w_counter (start_state mp stl))) r.
  Proof.
    destruct statics as [WF KO].
    apply (conformant_instance_accepted mp d0 WF KO stl (P "ST*835*0001~") body (start_state mp stl) conformant).
    - eexists. eexists. vm_compute. reflexivity.
    - eapply (opened_by_entry mp WF KO counter_init stl); try (vm_compute; reflexivity). vm_compute. discriminate.
  Qed.

  (* computed: all 19 items found, nothing reported; counts of ST_LOOP, HEADER, DETAIL (never counted), 2000, LX,
     2100, CLP, NM1, 2110, SVC, FOOTER, PLB, SE *)
  Definition nodes : list nref :=
    [stl; [0;1;1;1]; [0;1;1;2]; [0;1;1;2;0]; r_lx; [0;1;1;2;0;3]; r_clp; r_nm1; [0;1;1;2;0;3;16]; r_svc; [0;1;1;3]; r_plb; r_se].
  Example accepted_computed :
    option_map (fun w' => map (cnt mp (w_counter w')) nodes) (exec mp d0 (start_state mp stl) r_st body)
      = Some [1; 1; 0; 2; 1; 1; 1; 1; 0; 0; 1; 1; 1]%Z /\
    map (predicted body (cnt mp (w_counter (start_state mp stl)))) nodes = [1; 1; 0; 2; 1; 1; 1; 1; 0; 0; 1; 1; 1]%Z.
  Proof. vm_compute. auto. Qed.
End M835.

(* ------------------------------------------------------------------ *)
(* 3. why each side condition is there                                  *)

(* what the walker does with each item: the node it returns and the (code, text) of the errors it reports *)
Definition errs (evs : list wev) : list (string * string) :=
  flat_map (fun e => match e with
                     | WSegErr code msg _ => [(string_of_list_ascii code, string_of_list_ascii msg)]
                     | WAddSeg _ _ _ _ _ => []
                     end) evs.

Fixpoint trace (m : xmap) (d : delims) (w : wstate) (p : nref) (items : list item)
  : list (option nref * list (string * string)) :=
  match items with
  | [] => []
  | (t, sg) :: rest =>
      match walk_st m w p d sg 0 0 None with
      | (w', evs, Ok (Some t', _, _)) => (Some t', errs evs) :: trace m d w' t' rest
      | (w', evs, _) => [(None, errs evs)]
      end
  end.

(* 3a. keys_ok — a SHIPPED map: 999.5010 (and 999.5010X231.A1).  Loop 2100 = [IK3; CTX "Segment Context" (max 9);
   CTX "Business Unit Identifier" (max 1); 2110]: the two CTX nodes have the same position and no qualifier
   guess, hence the same x12path .../2100/CTX and ONE counter.  IK3, one CTX of each kind is an instance of
   2100 by the specification, every segment is found at its node, and the second CTX is reported as
   "exceeded max count.  Found 2, should have 1".  (Reproduced with the implementation: x12n_document returns
   False on such a 999.) *)
From PX.Gen.Maps Require M_999_5010.

Module M999.
  Definition mp : xmap :=
    match load_map map_regexes M_dataele.tree M_codes.tree None (l "B") M_999_5010.tree with
    | Ok m => m
    | Raise _ => M997.empty_map
    end.
  Definition d0 : delims := M997.d0.
  Definition P (s : string) : seg := parse_seg d0 (l s).
  Definition l2100 : nref := [0; 1; 1; 1; 1; 1].
  Definition body : list item :=
    [(l2100 ++ [1], P "CTX*SITUATIONAL TRIGGER*NM1*8**9~"); (l2100 ++ [2], P "CTX*CLM01:123456789~")].

  Ltac cb_seg jj :=
    match goal with |- conf_body ?m ?d ?L ?p ?i ?c _ => eapply (CB_seg m d L p i c jj) end;
    [ side | side | vm_compute; reflexivity | side | side | side | side | vm_compute; reflexivity | side | side | side | ].

  Example keys_shared :
    walker_wf mp = true /\ keys_ok mp = false /\
    node_x12path mp (l2100 ++ [1]) = node_x12path mp (l2100 ++ [2]) /\
    conf_inst mp d0 l2100 ((l2100 ++ [0], P "IK3*NM1*8*2100*8~") :: body) /\
    trace mp d0 (start_state mp l2100) (l2100 ++ [0]) body =
      [(Some (l2100 ++ [1]), []);
       (Some (l2100 ++ [2]), [("5", "Segment CTX exceeded max count.  Found 2, should have 1")]%string)].
  Proof.
    split; [vm_compute; reflexivity|]. split; [vm_compute; reflexivity|]. split; [vm_compute; reflexivity|]. split.
    - unfold body. eapply CI_seg; [ side | vm_compute; reflexivity | side | ].
      cb_seg 1. cb_seg 2. apply CB_end; side.
    - vm_compute. reflexivity.
  Qed.
End M999.

(* small maps *)
From PX.Proofs Require C0203_segment.
Module Tiny.
  Import C0203_segment.Witness.
  Local Open Scope string_scope.
  Local Definition cs (s : string) : str := list_ascii_of_string s.
  Definition sgm (id path usage : string) (pos : Z) (maxu : string) (kids : list sub) : segm :=
    {| s_id := Some (cs id); s_path := Some (cs path); s_type := None; s_name := Some (cs id);
       s_usage := Some (cs usage); s_pos := pos; s_max_use := Some (cs maxu); s_repeat := None; s_end_tag := None;
       s_syntax := []; s_children := kids |}.
  Definition lp (id usage : string) (pos : Z) (rep : string) (pm : list (Z * list node)) : node :=
    NLoop (Some (cs id)) None (Some (cs id)) (Some (cs usage)) pos (Some (cs rep)) pm.
  Definition anyel (id : string) : list sub := [SubE (mk_elem id "200" "R" 1 [])].            (* AN, no code list *)
  Definition keyel (id code : string) : list sub := [SubE (mk_elem id "100" "R" 1 [Some (cs code)])].  (* ID with one code *)
  Definition mk (root : list (Z * list node)) : xmap :=
    {| m_id := Some (cs "M"); m_name := None; m_pos_map := root; m_dataele := x_de c0; m_codes := [];
       m_exclude := []; m_charset := cs "B"; m_icvn := None |}.

  (* 3b. rival_free, sibling case ("837 sibling REF segments with overlapping qualifiers"): L = [A; B (any value); B[XX]].
     A, B*XX walks the map in order towards the third child, but the unqualified B is tried first and matches:
     the walker returns the second child.  Everything else holds; rival_free is false. *)
  Definition m1 : xmap :=
    mk [(10%Z, [lp "L" "R" 10 ">1" [(10%Z, [NSeg (sgm "A" "A" "R" 10 "1" (anyel "A01"))]);
                                    (20%Z, [NSeg (sgm "B" "B" "S" 20 "1" (anyel "B01"));
                                            NSeg (sgm "B" "B[XX]" "S" 20 "1" (keyel "B01" "XX"))])]])].
  Example sibling_ambiguity :
    walker_wf m1 = true /\ keys_ok m1 = true /\
    nomatch_b m1 d0 (P "B*XX~") [0; 1] = false /\ rival_free m1 d0 [0; 0] [0] 2 (P "B*XX~") = false /\
    trace m1 d0 (start_state m1 [0]) [0; 0] [([0; 2], P "B*XX~")] = [(Some [0; 1], [])].
  Proof. vm_compute. auto. Qed.

  (* ... in the other order the qualified node is tried first and both documents are found where intended *)
  Definition m1' : xmap :=
    mk [(10%Z, [lp "L" "R" 10 ">1" [(10%Z, [NSeg (sgm "A" "A" "R" 10 "1" (anyel "A01"))]);
                                    (20%Z, [NSeg (sgm "B" "B[XX]" "S" 20 "1" (keyel "B01" "XX"));
                                            NSeg (sgm "B" "B" "S" 20 "1" (anyel "B01"))])]])].
  Example sibling_ordered :
    rival_free m1' d0 [0; 0] [0] 1 (P "B*XX~") = true /\ rival_free m1' d0 [0; 0] [0] 2 (P "B*YY~") = true /\
    trace m1' d0 (start_state m1' [0]) [0; 0] [([0; 1], P "B*XX~"); ([0; 2], P "B*YY~")] = [(Some [0; 1], []); (Some [0; 2], [])].
  Proof. vm_compute. auto. Qed.

  (* 3c. rival_free, the heads of the loop itself: L = [N (any value); N[PE]].  N*AA, N*PE: the second segment also
     matches the segment that opens L, so the walker opens a second instance of L instead of finding the second child *)
  Definition m2 : xmap :=
    mk [(10%Z, [lp "L" "R" 10 ">1" [(10%Z, [NSeg (sgm "N" "N" "R" 10 "1" (anyel "N01"))]);
                                    (20%Z, [NSeg (sgm "N" "N[PE]" "S" 20 "1" (keyel "N01" "PE"))])]])].
  Example own_head_ambiguity :
    walker_wf m2 = true /\ keys_ok m2 = true /\
    rival_free m2 d0 [0; 0] [0] 1 (P "N*PE~") = false /\
    trace m2 d0 (start_state m2 [0]) [0; 0] [([0; 1], P "N*PE~")] = [(Some [0; 0], [])].
  Proof. vm_compute. auto. Qed.

  (* 3d. the wrapper clause of CB_seg: C = [S; W = [A = [A1]; X; B (required) = [B1]]].  S A1 X B1 walks the map in
     order; when X is found, _is_loop_match(W) (asked because X might open W again) looks at ALL the loops of W,
     records the required loop B as missing, and the error is flushed at X — one segment too early: B1 follows. *)
  Definition m3 : xmap :=
    mk [(10%Z, [lp "C" "R" 10 ">1"
                  [(10%Z, [NSeg (sgm "S" "S" "R" 10 "1" (anyel "S01"))]);
                   (20%Z, [lp "W" "R" 20 "1"
                              [(10%Z, [lp "A" "S" 10 "1" [(10%Z, [NSeg (sgm "A1" "A1" "R" 10 "1" (anyel "A101"))])]]);
                               (20%Z, [NSeg (sgm "X" "X" "S" 20 "1" (anyel "X01"))]);
                               (30%Z, [lp "B" "R" 30 "1" [(10%Z, [NSeg (sgm "B1" "B1" "R" 10 "1" (anyel "B101"))])]])]])]])].
  Example wrapper_segment_then_required_loop :
    walker_wf m3 = true /\ keys_ok m3 = true /\
    trace m3 d0 (start_state m3 [0]) [0; 0]
          [([0; 1; 0; 0], P "A1*1~"); ([0; 1; 1], P "X*1~"); ([0; 1; 2; 0], P "B1*1~")] =
      [(Some [0; 1; 0; 0], []);
       (Some [0; 1; 1], [("3", "Mandatory loop ""B"" (B) missing")]);
       (Some [0; 1; 2; 0], [])].
  Proof. vm_compute. auto. Qed.

  (* (the implementation does the same: walk_tree.walk on this map reports ('3', 'Mandatory loop "B" (B) missing')
     with the segment X.)  With B situational the same document is accepted, as the theorem says *)
  Definition m3' : xmap :=
    mk [(10%Z, [lp "C" "R" 10 ">1"
                  [(10%Z, [NSeg (sgm "S" "S" "R" 10 "1" (anyel "S01"))]);
                   (20%Z, [lp "W" "R" 20 "1"
                              [(10%Z, [lp "A" "S" 10 "1" [(10%Z, [NSeg (sgm "A1" "A1" "R" 10 "1" (anyel "A101"))])]]);
                               (20%Z, [NSeg (sgm "X" "X" "S" 20 "1" (anyel "X01"))]);
                               (30%Z, [lp "B" "S" 30 "1" [(10%Z, [NSeg (sgm "B1" "B1" "R" 10 "1" (anyel "B101"))])]])]])]])].
  Example wrapper_segment_then_situational_loop :
    trace m3' d0 (start_state m3' [0]) [0; 0]
          [([0; 1; 0; 0], P "A1*1~"); ([0; 1; 1], P "X*1~"); ([0; 1; 2; 0], P "B1*1~")] =
      [(Some [0; 1; 0; 0], []); (Some [0; 1; 1], []); (Some [0; 1; 2; 0], [])].
  Proof. vm_compute. auto. Qed.
End Tiny.

Print Assumptions M997.accepted.
Print Assumptions M997.accepted_computed.
Print Assumptions M835.accepted.
Print Assumptions M835.accepted_computed.
Print Assumptions M999.keys_shared.
Print Assumptions Tiny.wrapper_segment_then_required_loop.
