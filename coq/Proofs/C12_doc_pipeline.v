(* C12_doc_pipeline.v — C12 for the whole-document model WITH the acknowledgement sink (Model/Pipeline.v,
   fd_997 given, fd_html and fd_xmldoc None): the same document written with two delimiter triples and two
   line-break conventions gives the same verdict (or exception), the same text on fd_997 (997 or 999, as the
   version of the group asks), and traces equal up to strip_dev.

   (The HTML report prints every segment with the delimiters of the source: it depends on them by design.) *)
From Coq Require Import String Lia.
From PX.Lib Require Import Base PyStr PyInt.
From PX.Model Require Import Path Segment Raw Reader MapLoad MapTree Element Walker MapEnv Driver Pipeline.
From PX.Model Require Errh ErrIter Html XmlOut Ack997 Ack999.
From PX.Spec Require Import C01_spec C12_spec C12b_spec C12_doc_spec.
From PX.Proofs Require Import C01_roundtrip C12_lemmas C12_doc_errh C12_doc_step C12_doc_run C12_doc_ack C12_doc_ack999.

Local Definition l (s : string) : str := list_ascii_of_string s.

Definition ack_only : sinks := {| want_ack := true; want_html := false; want_xml := false |}.

(* ------------------------------------------------------------------ *)
(* the pipeline with the acknowledgement sink alone is the driver followed by the visitor *)

Lemma p_lines_ack E lines : forall s, p_lines E ack_only lines s = p_liftD (run_lines E lines) s.
Proof.
  induction lines as [|ln rest IH]; intros s.
  - destruct s; reflexivity.
  - cbn [p_lines run_lines].
    unfold p_bind, p_liftD, read_line, d_bind, d_get, d_lift, d_mod, d_ret.
    destruct (reader_line_opt (de_d E) (ds_x (ps_d s)) ln) as [[[x' os] es]|e]; cbn; [|reflexivity].
    destruct os as [sg|]; cbn.
    + unfold p_step, p_bind, p_liftD, p_ret; cbn.
      destruct (step E sg _) as [d' [u|e]]; cbn; [|reflexivity].
      rewrite IH. unfold p_liftD. cbn. reflexivity.
    + unfold p_ret. rewrite IH. unfold p_liftD. cbn. reflexivity.
Qed.

(* what lines 246-260 do: the handler afterwards, the batches written to fd_997 (newest first) *)
Definition ack_run (clk : Ack997.clock) (sel : mapsel) (h : Errh.errh) : Errh.errh * sink_text :=
  if negb (ostr_eqb (ms_fic sel) (Some (l "FA"))) then
    let a := if vriic_is (ms_vriic sel) "004010"
             then (fst (fst (Ack997.render_997 clk h)), [snd (fst (Ack997.render_997 clk h))]) else (h, []) in
    if vriic_is (ms_vriic sel) "005010"
    then (fst (fst (Ack999.render_999 clk (fst a))), snd (fst (Ack999.render_999 clk (fst a))) :: snd a) else a
  else (h, []).

Definition ack_outputs (clk : Ack997.clock) (d : dstate) (res : result bool) : outputs :=
  match res with
  | Raise e => {| o_result := Raise e; o_ack := []; o_html := []; o_xml := []; o_trace := rev (ds_trace d); o_html_calls := [] |}
  | Ok _ =>
      {| o_result := Ok (negb (negb (ds_valid d) || (0 <? Errh.get_error_count (fst (ack_run clk (ds_sel d) (ds_errh d))))));
         o_ack := text_of (snd (ack_run clk (ds_sel d) (ds_errh d)));
         o_html := []; o_xml := []; o_trace := rev (ds_trace d); o_html_calls := [] |}
  end.

Lemma pipeline_ack_raw load idx clk htime dtd text r lines :
  raw_all {| rest := text; sched := [] |} = Ok (r, lines) ->
  run_pipeline_gen load idx clk htime dtd ack_only text =
  match (do cm <- load (control_name (r_icvn r)); do ix <- idx; do n0 <- getnode cm "/ISA_LOOP/ISA"; Ok (cm, ix, n0)) with
  | Raise e => no_output (Raise e)
  | Ok (cm, ix, n0) =>
      let E := mkE load ix cm (delims_of r) in
      ack_outputs clk (fst ((dod_ run_lines E lines; finish) (s_init cm n0 (r_icvn r))))
                      (snd ((dod_ run_lines E lines; finish) (s_init cm n0 (r_icvn r))))
  end.
Proof.
  intros H. unfold run_pipeline_gen. rewrite H.
  destruct (bind (load (control_name (r_icvn r))) _) as [[[cm ix] n0]|e]; [|reflexivity].
  cbv zeta. fold (mkE load ix cm (delims_of r)). fold (s_init cm n0 (r_icvn r)).
  set (E := mkE load ix cm (delims_of r)). set (d0 := s_init cm n0 (r_icvn r)).
  set (s0 := {| ps_d := d0; ps_html := _; ps_iter := _; ps_xml := _; ps_xml_live := false; ps_ack_out := [];
                ps_html_out := []; ps_xml_out := []; ps_calls := [] |}).
  unfold p_bind at 1. change (p_open htime dtd ack_only s0) with (s0, @Ok unit tt). cbv iota.
  unfold p_bind at 1. rewrite p_lines_ack. unfold p_liftD at 1. change (ps_d s0) with d0.
  unfold d_bind at 1 2.
  destruct (run_lines E lines d0) as [d1 [u|e]]; [|reflexivity].
  unfold p_finish. unfold p_bind at 1. unfold p_liftD at 1. change (ps_d (set_d s0 d1)) with d1.
  destruct (finish d1) as [d2 [b|e]]; [|reflexivity].
  cbn [fst snd]. unfold ack_outputs, ack_run.
  unfold p_bind at 1. change (want_html ack_only) with false. cbv iota. unfold p_ret at 1.
  unfold p_bind at 1. change (want_xml ack_only) with false. cbv iota. unfold p_ret at 1.
  unfold p_bind at 1. unfold ack_part. unfold p_bind at 1. unfold p_get at 1.
  change (want_ack ack_only) with true. cbn [andb]. cbn [ps_d set_d].
  change (Pipeline.l "FA") with (l "FA").
  destruct (negb (ostr_eqb (ms_fic (ds_sel d2)) (Some (l "FA")))); [|reflexivity].
  unfold p_bind at 1.
  destruct (vriic_is (ms_vriic (ds_sel d2)) "004010").
  - unfold run_visitor at 1. cbn [ps_d set_d].
    destruct (Ack997.render_997 clk (ds_errh d2)) as [[h7 w7] x7]. cbn [fst snd].
    destruct (vriic_is (ms_vriic (ds_sel d2)) "005010").
    + unfold run_visitor. cbn [ps_d add_ack_out set_d with_errh ds_errh].
      destruct (Ack999.render_999 clk h7) as [[h9 w9] x9]. reflexivity.
    + reflexivity.
  - unfold p_ret at 1. cbn [fst snd].
    destruct (vriic_is (ms_vriic (ds_sel d2)) "005010").
    + unfold run_visitor. cbn [ps_d set_d].
      destruct (Ack999.render_999 clk (ds_errh d2)) as [[h9 w9] x9]. reflexivity.
    + reflexivity.
Qed.

(* ------------------------------------------------------------------ *)
(* the visitor part on two related trees                               *)

Lemma vriic_exclusive v : vriic_is v "004010" = true -> vriic_is v "005010" = false.
Proof.
  unfold vriic_is. destruct v as [[|c rest]|]; try discriminate. intros H. apply str_eqb_eq in H.
  destruct (str_eqb _ (Pipeline.l "005010")) eqn:E; [|reflexivity]. apply str_eqb_eq in E. rewrite H in E. discriminate E.
Qed.

Notation PhiP := (map_errh strip_isa_if_plain strip_if_plain strip_if_plain).

Lemma ack_run_same clk sel h1 h2 :
  strip_errh h1 = strip_errh h2 -> stored_plain h1 -> stored_plain h2 ->
  snd (ack_run clk sel h1) = snd (ack_run clk sel h2) /\
  Errh.get_error_count (fst (ack_run clk sel h1)) = Errh.get_error_count (fst (ack_run clk sel h2)).
Proof.
  intros H P1 P2.
  assert (G0 : Errh.get_error_count h1 = Errh.get_error_count h2).
  { rewrite <- (get_error_count_Phi strip_isa_xseg strip_xseg strip_xseg h1),
            <- (get_error_count_Phi strip_isa_xseg strip_xseg strip_xseg h2). f_equal. exact H. }
  assert (GP : forall a b, PhiP a = PhiP b -> Errh.get_error_count a = Errh.get_error_count b).
  { intros a b E. rewrite <- (get_error_count_Phi strip_isa_if_plain strip_if_plain strip_if_plain a),
                          <- (get_error_count_Phi strip_isa_if_plain strip_if_plain strip_if_plain b). f_equal. exact E. }
  unfold ack_run. destruct (negb _); [|split; [reflexivity | exact G0]].
  destruct (vriic_is (ms_vriic sel) "004010") eqn:V4.
  - rewrite (vriic_exclusive _ V4). cbn [fst snd].
    destruct (ack_997_same clk h1 h2 H P1 P2) as (A & _ & C). split; [rewrite A; reflexivity | apply GP, C].
  - cbn [fst snd]. destruct (vriic_is (ms_vriic sel) "005010").
    + cbn [fst snd]. destruct (ack_999_same clk h1 h2 H P1 P2) as (A & _ & C). split; [rewrite A; reflexivity | apply GP, C].
    + split; [reflexivity | exact G0].
Qed.

(* ------------------------------------------------------------------ *)
(* THE THEOREM for the pipeline with the acknowledgement sink          *)

Theorem pipeline_ack_delims_layout_independent :
  forall load idx clk htime dtd d1 d2 conv1 conv2 f body,
    distinct_delims d1 = true -> distinct_delims d2 = true ->
    delims_not_break d1 = true -> delims_not_break d2 = true ->
    is_break conv1 = true -> is_break conv2 = true ->
    isa_fields_ok f = true ->
    clean_seg d1 (isa_for d1 f) = true -> clean_seg d2 (isa_for d2 f) = true ->
    body_ok d1 body = true -> body_ok d2 body = true ->
    forallb id_starts_plain body = true -> forallb ctl_simple body = true ->
    isa_valid_same load d1 d2 f ->
    doc_layers_ok load idx (encode d1 conv1 (isa_for d1 f :: body)) = true ->
    let o1 := run_pipeline_gen load idx clk htime dtd ack_only (encode d1 conv1 (isa_for d1 f :: body)) in
    let o2 := run_pipeline_gen load idx clk htime dtd ack_only (encode d2 conv2 (isa_for d2 f :: body)) in
    o_result o1 = o_result o2 /\ o_ack o1 = o_ack o2 /\ map strip_dev (o_trace o1) = map strip_dev (o_trace o2).
Proof.
  intros load idx clk htime dtd d1 d2 conv1 conv2 f body D1 D2 N1 N2 K1 K2 Hf C1 C2 B1 B2 Hp Hc HI HL.
  pose proof (run_stored_plain load idx d1 conv1 f body D1 N1 K1 Hf C1 B1 Hp Hc) as P1.
  pose proof (run_stored_plain load idx d2 conv2 f body D2 N2 K2 Hf C2 B2 Hp Hc) as P2.
  destruct (raw_all_encode d1 conv1 f body D1 N1 K1 Hf C1 (body_clean body d1 B1) Hp) as (r1 & R1 & Dl1 & V1).
  destruct (raw_all_encode d2 conv2 f body D2 N2 K2 Hf C2 (body_clean body d2 B2) Hp) as (r2 & R2 & Dl2 & V2).
  pose proof HL as HL'. unfold doc_layers_ok in HL'. rewrite (doc_start_raw load idx _ r1 _ R1) in HL'.
  unfold run_state in P1, P2. rewrite (doc_start_raw load idx _ r1 _ R1) in P1. rewrite (doc_start_raw load idx _ r2 _ R2) in P2.
  cbv zeta. rewrite (pipeline_ack_raw load idx clk htime dtd _ r1 _ R1), (pipeline_ack_raw load idx clk htime dtd _ r2 _ R2).
  rewrite V1, Dl1 in *. rewrite V2, Dl2 in *.
  destruct (load (control_name (nth 11 f []))) as [cm|e] eqn:Lcm; cbn [bind] in *; [|repeat split].
  destruct idx as [ix|e]; cbn [bind] in *; [|repeat split].
  destruct (getnode cm "/ISA_LOOP/ISA") as [n0|e] eqn:Gn; cbn [bind] in *; [|repeat split].
  cbv zeta.
  destruct (lines_sim load d1 d2 f body D1 D2 Hf C1 C2 B1 B2 Hp Hc HI cm ix n0 Lcm Gn HL') as [R E].
  set (a1 := (dod_ run_lines (mkE load ix cm d1) _; finish) _) in *.
  set (a2 := (dod_ run_lines (mkE load ix cm d2) _; finish) _) in *.
  rewrite <- E. unfold ack_outputs. destruct (snd a1) as [b|e].
  - apply SPfix_stored_plain in P1, P2.
    destruct (ack_run_same clk (ds_sel (fst a1)) (ds_errh (fst a1)) (ds_errh (fst a2)) (sr_errh _ _ R) P1 P2) as [A G].
    rewrite <- (sr_sel _ _ R), <- (sr_valid _ _ R). cbn [o_result o_ack o_trace].
    split; [rewrite G; reflexivity|]. split; [rewrite A; reflexivity|].
    rewrite !map_rev. f_equal. exact (sr_trace _ _ R).
  - cbn [o_result o_ack o_trace]. split; [reflexivity|]. split; [reflexivity|].
    rewrite !map_rev. f_equal. exact (sr_trace _ _ R).
Qed.

Print Assumptions pipeline_ack_raw.
Print Assumptions pipeline_ack_delims_layout_independent.
