(* C13_lang.v — boolean deciders for the languages of Spec/C13_spec.v and their
   equivalence with the Prop-level definitions. *)
From Coq Require Import String.
From PX.Lib Require Import Base PyStr.
From PX.Spec Require Import C13_spec C13_dec.

Lemma all_digits_iff s : all_digits s = true <-> digits s.
Proof. unfold all_digits, digits. rewrite forallb_forall, Forall_forall. tauto. Qed.

(* ---------- N ---------- *)

Lemma LN_dec_iff s : LN_dec s = true <-> L_N s.
Proof.
  unfold L_N. destruct s as [|x t]; cbn [LN_dec].
  - split; [discriminate|]. intros [d [Hn [_ [H|H]]]]; [congruence | discriminate].
  - destruct (Ascii.eqb x "-"%char) eqn:E.
    + apply Ascii.eqb_eq in E. subst x. rewrite andb_true_iff, negb_true_iff, Nat.eqb_neq, all_digits_iff.
      split.
      * intros [H1 H2]. exists t. split; [destruct t; simpl in *; congruence|]. split; [assumption|]. right; reflexivity.
      * intros [d [Hn [Hd [H|H]]]].
        -- subst d. inversion Hd as [|? ? Hx _]. discriminate Hx.
        -- injection H as <-. split; [destruct t; simpl; congruence | assumption].
    + rewrite all_digits_iff. split.
      * intros H. exists (x :: t). split; [discriminate|]. split; [assumption|]. left; reflexivity.
      * intros [d [Hn [Hd [H|H]]]]; [subst d; assumption|].
        injection H as -> _. rewrite Ascii.eqb_refl in E. discriminate.
Qed.

(* ---------- dates and times ---------- *)

Lemma date_ok_iff y m d : date_ok_b y m d = true <-> real_date y m d.
Proof. unfold date_ok_b, real_date. rewrite !andb_true_iff, !N.leb_le. tauto. Qed.


Lemma date8_iff s : date8_b s = true <-> date8 s.
Proof. unfold date8_b, date8. rewrite !andb_true_iff, Nat.eqb_eq, all_digits_iff, date_ok_iff. tauto. Qed.


Lemma date6_iff s : date6_b s = true <-> date6 s.
Proof. unfold date6_b, date6. rewrite !andb_true_iff, Nat.eqb_eq, all_digits_iff, date_ok_iff. tauto. Qed.


Lemma TM_iff s : TM_b s = true <-> L_TM s.
Proof.
  unfold TM_b, L_TM. rewrite !andb_true_iff, !orb_true_iff, !Nat.eqb_eq, all_digits_iff, !N.leb_le.
  simpl In.
  destruct (Nat.leb_spec 6 (length s)) as [L|L]; rewrite ?N.leb_le; intuition (try lia; try congruence).
Qed.

Lemma hhmm_iff s : hhmm_b s = true <-> hhmm s.
Proof. unfold hhmm_b, hhmm. rewrite andb_true_iff, Nat.eqb_eq, TM_iff. tauto. Qed.


Lemma DT_iff s : DT_b s = true <-> L_DT s.
Proof.
  unfold DT_b, L_DT. rewrite !orb_true_iff, !andb_true_iff, Nat.eqb_eq, date6_iff, !date8_iff, hhmm_iff. tauto.
Qed.

(* ---------- RD8 ---------- *)

Lemma split1_some c s a b : split1 c s = Some (a, b) -> s = a ++ c :: b /\ ~ In c a.
Proof.
  revert a b; induction s as [|x s IH]; intros a b H; simpl in H; [discriminate|].
  destruct (Ascii.eqb x c) eqn:E.
  - apply Ascii.eqb_eq in E. subst x. injection H as <- <-. split; [reflexivity | intros []].
  - destruct (split1 c s) as [[a' b']|] eqn:E2; [|discriminate]. injection H as <- <-.
    destruct (IH a' b' eq_refl) as [H1 H2]. split; [simpl; congruence|].
    intros [H|H]; [subst x; rewrite Ascii.eqb_refl in E; discriminate | exact (H2 H)].
Qed.

Lemma split1_app c a b : ~ In c a -> split1 c (a ++ c :: b) = Some (a, b).
Proof.
  induction a as [|x a IH]; intros H; simpl.
  - rewrite Ascii.eqb_refl. reflexivity.
  - destruct (Ascii.eqb x c) eqn:E.
    + apply Ascii.eqb_eq in E. subst x. exfalso. apply H. left; reflexivity.
    + rewrite IH; [reflexivity|]. intros Hin. apply H. right; assumption.
Qed.

Lemma digits_no_minus a : digits a -> ~ In "-"%char a.
Proof.
  intros H Hin. unfold digits in H. rewrite Forall_forall in H. specialize (H _ Hin). discriminate H.
Qed.

Lemma RD8_iff s : RD8_b s = true <-> L_RD8 s.
Proof.
  unfold RD8_b, L_RD8. split.
  - destruct (split1 "-"%char s) as [[a b]|] eqn:E; [|discriminate].
    rewrite andb_true_iff, !date8_iff. intros [Ha Hb]. exists a, b.
    apply split1_some in E as [E _]. auto.
  - intros [a [b [E [Ha Hb]]]]. subst s. rewrite split1_app.
    + rewrite andb_true_iff, !date8_iff. auto.
    + apply digits_no_minus. destruct Ha as [_ [Hd _]]. exact Hd.
Qed.

(* ---------- character sets ---------- *)

Lemma ID_iff charset icvn s : ID_b charset icvn s = true <-> L_ID charset icvn s.
Proof.
  unfold ID_b, L_ID. rewrite forallb_forall, Forall_forall.
  split; intros H x Hx; specialize (H x Hx); apply mem_ascii_In; assumption.
Qed.

(* ---------- R ---------- *)




Lemma dspan_split t : digits (firstn (dspan t) t) /\
  match skipn (dspan t) t with [] => True | y :: _ => is_digit y = false end.
Proof.
  induction t as [|x t [IH1 IH2]]; simpl; [split; [constructor | exact I]|].
  destruct (is_digit x) eqn:E; simpl.
  - split; [constructor; assumption | exact IH2].
  - split; [constructor | exact E].
Qed.

Lemma dspan_app ip fp : digits ip -> match fp with [] => True | y :: _ => is_digit y = false end ->
  dspan (ip ++ fp) = length ip.
Proof.
  intros Hd Hf. induction Hd as [|x ip Hx Hd IH]; simpl.
  - destruct fp as [|y fp]; simpl; [reflexivity | rewrite Hf; reflexivity].
  - rewrite Hx, IH. reflexivity.
Qed.

Lemma frac_ok_iff u : frac_ok u = true <-> exists f, u = "."%char :: f /\ f <> [] /\ digits f.
Proof.
  destruct u as [|c f]; simpl.
  - split; [discriminate | intros [f [H _]]; discriminate].
  - rewrite !andb_true_iff, negb_true_iff, Nat.eqb_neq, Ascii.eqb_eq, all_digits_iff. split.
    + intros [[-> Hn] Hd]. exists f. split; [reflexivity|]. split; [destruct f; simpl in *; congruence | assumption].
    + intros [f' [H [Hn Hd]]]. injection H as -> ->. split; [split; [reflexivity | destruct f'; simpl; congruence] | assumption].
Qed.

Lemma has_digit_app (a b : str) :
  (exists c, In c (a ++ b) /\ is_digit c = true) <->
  (exists c, In c a /\ is_digit c = true) \/ (exists c, In c b /\ is_digit c = true).
Proof.
  split.
  - intros [c [H D]]. apply in_app_or in H as [H|H]; [left | right]; exists c; auto.
  - intros [[c [H D]] | [c [H D]]]; exists c; split; auto; apply in_or_app; auto.
Qed.

(* the body (after the optional sign): ip ++ fp with a digit somewhere *)
Definition R_body_spec (t : str) : Prop :=
  exists ip fp, t = ip ++ fp /\ digits ip /\
    (fp = [] \/ exists f, fp = "."%char :: f /\ f <> [] /\ digits f) /\
    (exists c, In c t /\ is_digit c = true).

Lemma LR_body_iff t : LR_body t = true <-> R_body_spec t.
Proof.
  unfold LR_body, R_body_spec. destruct (dspan_split t) as [D1 D2].
  pose proof (firstn_skipn (dspan t) t) as FS. split.
  - destruct (dspan t =? 0) eqn:Z.
    + apply Nat.eqb_eq in Z. intros H. apply frac_ok_iff in H as [f [-> [Hn Hd]]].
      exists [], ("."%char :: f). split; [reflexivity|]. split; [constructor|].
      split; [right; exists f; auto|].
      destruct f as [|y f]; [congruence|]. exists y. split; [simpl; auto | inversion Hd; assumption].
    + apply Nat.eqb_neq in Z. intros H.
      exists (firstn (dspan t) t), (skipn (dspan t) t). split; [symmetry; exact FS|]. split; [exact D1|].
      split.
      * destruct (skipn (dspan t) t) as [|y r] eqn:E; [left; reflexivity | right; apply frac_ok_iff; exact H].
      * destruct t as [|x t']; [simpl in Z; congruence|]. simpl in Z. destruct (is_digit x) eqn:Ex; [|congruence].
        exists x. split; [left; reflexivity | exact Ex].
  - intros [ip [fp [E [Hd [Hf Hex]]]]].
    assert (Hfp : match fp with [] => True | y :: _ => is_digit y = false end).
    { destruct Hf as [->|[f [-> _]]]; [exact I | reflexivity]. }
    assert (N : dspan t = length ip) by (rewrite E; apply dspan_app; assumption).
    assert (SK : skipn (dspan t) t = fp) by (rewrite N, E, skipn_app, skipn_all, Nat.sub_diag; reflexivity).
    destruct (dspan t =? 0) eqn:Z.
    + apply Nat.eqb_eq in Z. rewrite N in Z. destruct ip; [|discriminate]. simpl in E. subst t.
      destruct Hf as [->|Hf]; [|apply frac_ok_iff; exact Hf].
      destruct Hex as [c [[] _]].
    + rewrite SK. destruct Hf as [->|Hf]; [reflexivity|].
      destruct fp as [|y r]; [reflexivity|]. apply frac_ok_iff; exact Hf.
Qed.

Lemma LR_dec_iff s : LR_dec s = true <-> L_R s.
Proof.
  unfold L_R. destruct s as [|x t].
  - simpl. split; [discriminate|]. intros [sg [ip [fp [_ [_ [_ [_ [c [[] _]]]]]]]]].
  - cbn [LR_dec]. destruct (Ascii.eqb x "-"%char) eqn:Ex.
    + apply Ascii.eqb_eq in Ex. subst x. rewrite LR_body_iff. unfold R_body_spec. split.
      * intros [ip [fp [E [Hd [Hf [c [Hin Hc]]]]]]]. exists ["-"%char], ip, fp. subst t.
        split; [reflexivity|]. split; [right; reflexivity|]. split; [assumption|]. split; [assumption|].
        exists c. split; [right; assumption | assumption].
      * intros [sg [ip [fp [E [Hs [Hd [Hf [c [Hin Hc]]]]]]]]]. destruct Hs as [->| ->].
        -- (* no sign: then s = ip ++ fp cannot start with '-' *)
           exfalso. simpl in E. destruct ip as [|y ip].
           ++ destruct Hf as [->|[f [-> _]]]; simpl in E; discriminate.
           ++ simpl in E. injection E as <- _. inversion Hd as [|? ? Hx _]. discriminate Hx.
        -- simpl in E. injection E as ->. exists ip, fp. split; [reflexivity|]. split; [assumption|].
           split; [assumption|]. destruct Hin as [<-|Hin]; [discriminate Hc|]. exists c. auto.
    + rewrite LR_body_iff. unfold R_body_spec. split.
      * intros [ip [fp [E [Hd [Hf Hex]]]]]. exists [], ip, fp. simpl. auto 6.
      * intros [sg [ip [fp [E [Hs [Hd [Hf Hex]]]]]]]. destruct Hs as [->| ->].
        -- exists ip, fp. simpl in E. auto.
        -- simpl in E. injection E as -> _. rewrite Ascii.eqb_refl in Ex. discriminate.
Qed.

(* ---------- the dispatcher ---------- *)

Theorem in_language_b_iff ty charset icvn s :
  in_language_b ty charset icvn s = true <-> In_language ty charset icvn s.
Proof.
  unfold in_language_b, In_language. destruct ty as [|c0 ty']; [tauto|].
  destruct (Ascii.eqb c0 "N"%char); [apply LN_dec_iff|].
  destruct (str_eqb (c0 :: ty') (cs "R")); [apply LR_dec_iff|].
  destruct (str_eqb (c0 :: ty') (cs "ID") || str_eqb (c0 :: ty') (cs "AN")); [apply ID_iff|].
  destruct (str_eqb (c0 :: ty') (cs "RD8")); [apply RD8_iff|].
  destruct (str_eqb (c0 :: ty') (cs "DT")); [apply DT_iff|].
  destruct (str_eqb (c0 :: ty') (cs "D8")); [apply date8_iff|].
  destruct (str_eqb (c0 :: ty') (cs "D6")); [apply date6_iff|].
  destruct (str_eqb (c0 :: ty') (cs "TM")); [apply TM_iff|].
  destruct (str_eqb (c0 :: ty') (cs "B")); [tauto|].
  split; [discriminate | intros []].
Qed.
