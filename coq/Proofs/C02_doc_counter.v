(* C02_doc_counter.v — the NodeCounter (Model/Counter.v) seen through the nodes of a map whose
   counter keys are faithful (Spec/C02_doc_spec.v: keys_ok): incrementing the key of a node changes
   the count of that node only, reset_to_node of a loop forgets exactly the nodes below it. *)
From Coq Require Import String Lia.
From PX.Lib Require Import Base PyStr PyInt Regex Xml.
From PX.Model Require Import Path Segment Syntax MapLoad MapTree Element Counter Walker.
From PX.Spec Require Import C07_walker_wf C02_doc_spec.
From PX.Proofs Require Import Counter_keys C07_walker_lemmas.

(* ------------------------------------------------------------------ *)
(* references                                                           *)

Lemma nref_eqb_refl a : nref_eqb a a = true.
Proof. unfold nref_eqb. induction a as [|x a IH]; cbn; [reflexivity|]. rewrite Nat.eqb_refl, IH. reflexivity. Qed.

Lemma nref_eqb_eq a b : nref_eqb a b = true <-> a = b.
Proof.
  split; [|intros ->; apply nref_eqb_refl].
  unfold nref_eqb. revert b. induction a as [|x a IH]; destruct b as [|y b]; cbn; try discriminate; auto.
  intros H. apply andb_true_iff in H as [H1 H2]. apply Nat.eqb_eq in H1. apply IH in H2. congruence.
Qed.

Lemma nref_eqb_neq a b : nref_eqb a b = false <-> a <> b.
Proof.
  split.
  - intros H E. apply nref_eqb_eq in E. congruence.
  - intros H. destruct (nref_eqb a b) eqn:E; [|reflexivity]. apply nref_eqb_eq in E. contradiction.
Qed.

Lemma strict_prefix_app a x y : strict_prefix_b a (a ++ x :: y) = true.
Proof. induction a as [|z a IH]; cbn; [reflexivity|]. rewrite Nat.eqb_refl, IH. reflexivity. Qed.

Lemma strict_prefix_inv a b : strict_prefix_b a b = true -> exists x y, b = a ++ x :: y.
Proof.
  revert b. induction a as [|z a IH]; destruct b as [|y b]; cbn; try discriminate.
  - intros _. exists y, b. reflexivity.
  - intros H. apply andb_true_iff in H as [H1 H2]. apply Nat.eqb_eq in H1. subst y.
    destruct (IH _ H2) as [x [y' ->]]. exists x, y'. reflexivity.
Qed.

Lemma strict_prefix_irrefl a : strict_prefix_b a a = false.
Proof. induction a as [|z a IH]; cbn; [reflexivity|]. rewrite Nat.eqb_refl, IH. reflexivity. Qed.

Lemma strict_prefix_iff a b : strict_prefix_b a b = true <-> exists x y, b = a ++ x :: y.
Proof. split; [apply strict_prefix_inv | intros [x [y ->]]; apply strict_prefix_app]. Qed.

(* ------------------------------------------------------------------ *)
(* the dictionary                                                       *)

Lemma path_eqb_refl k : path_eqb k k = true.
Proof.
  unfold path_eqb. destruct k; cbn [Path.relative Path.loop_list Path.seg_id Path.id_val Path.ele_idx Path.subele_idx].
  assert (LR : forall l, list_eqb str_eqb l l = true)
    by (induction l as [|x l IHl]; cbn; [reflexivity | rewrite str_eqb_refl, IHl; reflexivity]).
  assert (OS : forall o : option str, opt_eqb str_eqb o o = true) by (destruct o; cbn; [apply str_eqb_refl | reflexivity]).
  assert (ON : forall o : option N, opt_eqb N.eqb o o = true) by (destruct o; cbn; [apply N.eqb_refl | reflexivity]).
  rewrite LR, !OS, !ON, eqb_reflx. reflexivity.
Qed.

Lemma path_eqb_sym a b : path_eqb a b = path_eqb b a.
Proof.
  destruct (path_eqb a b) eqn:E1, (path_eqb b a) eqn:E2; try reflexivity.
  - apply path_eqb_eq in E1. subst. rewrite path_eqb_refl in E2. discriminate.
  - apply path_eqb_eq in E2. subst. rewrite path_eqb_refl in E1. discriminate.
Qed.

Lemma find_put c k v k' :
  counter_find (counter_put c k v) k' = if path_eqb k k' then Some v else counter_find c k'.
Proof.
  induction c as [|[k0 v0] c IH]; cbn [counter_put counter_find].
  - reflexivity.
  - destruct (path_eqb k0 k) eqn:E0.
    + apply path_eqb_eq in E0. subst k0. cbn [counter_find].
      destruct (path_eqb k k'); reflexivity.
    + cbn [counter_find]. rewrite IH.
      destruct (path_eqb k0 k') eqn:E1; [|reflexivity].
      apply path_eqb_eq in E1. subst k'. rewrite path_eqb_sym, E0. reflexivity.
Qed.

Lemma get_count_increment c k k' :
  get_count (increment c k) k' = if path_eqb k k' then (get_count c k + 1)%Z else get_count c k'.
Proof.
  unfold get_count, increment.
  destruct (counter_find c k) as [v|] eqn:E; rewrite find_put; destruct (path_eqb k k'); reflexivity.
Qed.

Lemma get_count_reset c p k :
  get_count (reset_to_node c p) k = if is_child_path p (format_path k) then 0%Z else get_count c k.
Proof.
  unfold get_count, reset_to_node.
  induction c as [|[k0 v0] c IH]; cbn [filter counter_find fst].
  - destruct (is_child_path p (format_path k)); reflexivity.
  - destruct (path_eqb k0 k) eqn:E0.
    + apply path_eqb_eq in E0. subst k0.
      destruct (is_child_path p (format_path k)) eqn:EC; cbn [negb].
      * exact IH.
      * cbn [counter_find]. rewrite path_eqb_refl. reflexivity.
    + destruct (negb (is_child_path p (format_path k0))); [cbn [counter_find]; rewrite E0|]; exact IH.
Qed.

(* ------------------------------------------------------------------ *)
(* through the nodes of a map                                           *)

Section Keys.
Variable m : xmap.
Hypothesis WF : walker_wf m = true.
Hypothesis KO : keys_ok m = true.

Notation ns := (root_nodes m).

Lemma keyed_in r n xp : node_at ns r = Some n -> node_x12path m r = Ok xp -> In (r, xp) (keyed_refs m).
Proof.
  intros H X. unfold keyed_refs. apply in_flat_map. exists r. split.
  - unfold walker_wf in WF. apply andb_true_iff in WF as [D _]. exact (all_refs_complete m r n D H).
  - rewrite X. left. reflexivity.
Qed.

Lemma keys_facts r1 n1 x1 r2 n2 x2 :
  node_at ns r1 = Some n1 -> node_x12path m r1 = Ok x1 ->
  node_at ns r2 = Some n2 -> node_x12path m r2 = Ok x2 ->
  path_eqb x1 x2 = nref_eqb r1 r2 /\ is_child_path x1 (format_path x2) = strict_prefix_b r1 r2.
Proof.
  intros H1 X1 H2 X2. unfold keys_ok in KO. rewrite forallb_forall in KO.
  specialize (KO _ (keyed_in _ _ _ H1 X1)). rewrite forallb_forall in KO.
  specialize (KO _ (keyed_in _ _ _ H2 X2)). cbn [fst snd] in KO.
  apply andb_true_iff in KO as [A B]. apply eqb_prop in A. apply eqb_prop in B. split; assumption.
Qed.

(* increment of the key of node t *)
Lemma cnt_increment c t nt xt r n :
  node_at ns t = Some nt -> node_x12path m t = Ok xt -> node_at ns r = Some n ->
  cnt m (increment c xt) r = if nref_eqb r t then (cnt m c t + 1)%Z else cnt m c r.
Proof.
  intros Ht Xt Hr. unfold cnt. rewrite Xt.
  destruct (node_x12path m r) as [xr|e] eqn:Xr.
  - rewrite get_count_increment.
    destruct (keys_facts _ _ _ _ _ _ Ht Xt Hr Xr) as [E _]. rewrite E.
    destruct (nref_eqb t r) eqn:Q.
    + apply nref_eqb_eq in Q. subst r. rewrite nref_eqb_refl. reflexivity.
    + destruct (nref_eqb r t) eqn:Q'; [|reflexivity]. apply nref_eqb_eq in Q'. subst r.
      rewrite nref_eqb_refl in Q. discriminate.
  - destruct (nref_eqb r t) eqn:Q; [|reflexivity]. apply nref_eqb_eq in Q. subst r. congruence.
Qed.

(* reset_to_node of the key of loop C *)
Lemma cnt_reset c C nC xC r n :
  node_at ns C = Some nC -> node_x12path m C = Ok xC -> node_at ns r = Some n ->
  cnt m (reset_to_node c xC) r = if strict_prefix_b C r then 0%Z else cnt m c r.
Proof.
  intros HC XC Hr. unfold cnt.
  destruct (node_x12path m r) as [xr|e] eqn:Xr.
  - rewrite get_count_reset. destruct (keys_facts _ _ _ _ _ _ HC XC Hr Xr) as [_ E]. rewrite E. reflexivity.
  - destruct (strict_prefix_b C r); reflexivity.
Qed.

End Keys.

Print Assumptions cnt_increment.
Print Assumptions cnt_reset.
