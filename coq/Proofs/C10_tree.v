(* C10_tree.v — property C10: the tree editing API of Model/Context.v obeys its
   read / write / copy laws.  Law 3 (copy), law 2 (queries), law 1 (set / get). *)
From Coq Require Import String.
From PX.Lib Require Import Base PyStr.
From PX.Model Require Import Path Segment MapLoad MapTree Walker Context.
From PX.Spec Require Import C10_spec.
From PX.Proofs Require Import Ctx_basics C17_segment.

(* ================================================================== *)
(* one-step lemmas for the state monad                                 *)

Lemma h_bind_ok {A B} (m : H A) (f : A -> H B) h h1 a :
  m h = (h1, Ok a) -> h_bind m f h = f a h1.
Proof. intros E. unfold h_bind. rewrite E. reflexivity. Qed.

Lemma h_bind_raise {A B} (m : H A) (f : A -> H B) h h1 e :
  m h = (h1, Raise e) -> h_bind m f h = (h1, Raise e).
Proof. intros E. unfold h_bind. rewrite E. reflexivity. Qed.

(* inversion of a bind *)
Lemma h_bind_inv {A B} (m : H A) (f : A -> H B) h h2 r :
  h_bind m f h = (h2, r) ->
  (exists h1 a, m h = (h1, Ok a) /\ f a h1 = (h2, r)) \/
  (exists e, m h = (h2, Raise e) /\ r = Raise e).
Proof.
  unfold h_bind. destruct (m h) as [h1 [a|e]]; intros E.
  - left. eauto.
  - right. injection E as <- <-. eauto.
Qed.

Lemma h_obj_eq o h : h_obj o h = (h, h_get h o).
Proof. reflexivity. Qed.
Lemma h_read_eq {A} (f : heap -> result A) h : h_read f h = (h, f h).
Proof. reflexivity. Qed.
Lemma h_lift_eq {A} (r : result A) h : h_lift r h = (h, r).
Proof. reflexivity. Qed.
Lemma h_ret_eq {A} (a : A) h : h_ret a h = (h, Ok a).
Proof. reflexivity. Qed.
Lemma h_raise_eq {A} e h : @h_raise A e h = (h, Raise e).
Proof. reflexivity. Qed.
Lemma h_put_eq o x h : h_put o x h = (set_nth h o x, Ok tt).
Proof. reflexivity. Qed.
Lemma h_new_eq x h : h_new x h = (h ++ [x], Ok (length h)).
Proof. reflexivity. Qed.

Lemma h_get_some h o x : h_get h o = Ok x <-> nth_error h o = Some x.
Proof. unfold h_get. destruct (nth_error h o); split; intros E; inversion E; reflexivity. Qed.

Lemma h_mod_eq o f h :
  h_mod o f h = match nth_error h o with
                | Some x => (set_nth h o (f x), Ok tt)
                | None => (h, Raise OtherError)
                end.
Proof.
  unfold h_mod, h_bind. rewrite h_obj_eq. unfold h_get.
  destruct (nth_error h o); reflexivity.
Qed.

(* ---- set_nth on heaps ---- *)
Lemma len_set_nth {A} (xs : list A) n v : length (set_nth xs n v) = length xs.
Proof. revert n; induction xs as [|x xs IH]; intros [|n]; cbn [set_nth length]; auto. Qed.

Lemma nth_error_set_nth {A} (xs : list A) n v k :
  nth_error (set_nth xs n v) k =
  if k =? n then (match nth_error xs n with Some _ => Some v | None => None end) else nth_error xs k.
Proof.
  revert n k. induction xs as [|x xs IH]; intros n k.
  - cbn [set_nth]. destruct (k =? n); destruct n, k; reflexivity.
  - destruct n as [|n], k as [|k]; cbn [set_nth nth_error Nat.eqb]; try reflexivity. apply IH.
Qed.

Lemma nth_error_set_nth_other {A} (xs : list A) n v k :
  k <> n -> nth_error (set_nth xs n v) k = nth_error xs k.
Proof. intros N. rewrite nth_error_set_nth. apply Nat.eqb_neq in N. rewrite N. reflexivity. Qed.

Lemma nth_error_set_nth_same {A} (xs : list A) n v x :
  nth_error xs n = Some x -> nth_error (set_nth xs n v) n = Some v.
Proof. intros E. rewrite nth_error_set_nth, Nat.eqb_refl, E. reflexivity. Qed.

(* ================================================================== *)
(* LAW 3: a copy shares no mutable data with its original              *)

(* "h' keeps the first n = length h objects of h and is at least as long" *)
Definition grows (h h' : heap) : Prop :=
  length h <= length h' /\ forall x, x < length h -> nth_error h' x = nth_error h x.

Lemma nth_error_snoc_beyond {A} (h : list A) a y : length h < y -> nth_error (h ++ [a]) y = None.
Proof. intros L. apply nth_error_None. rewrite app_length. cbn. lia. Qed.

Lemma grows_refl h : grows h h.
Proof. split; auto. Qed.

Lemma grows_trans a b c : grows a b -> grows b c -> grows a c.
Proof.
  intros [L1 P1] [L2 P2]. split; [lia|]. intros x Hx. rewrite P2 by lia. apply P1, Hx.
Qed.

Lemma grows_app h x : grows h (h ++ [x]).
Proof.
  split; [rewrite app_length; lia|]. intros k Hk. apply nth_error_app1, Hk.
Qed.

Lemma grows_set_nth h n v : length h <= n -> grows h (set_nth h n v).
Proof. intros L. split; [rewrite len_set_nth; lia|]. intros x Hx. apply nth_error_set_nth_other. lia. Qed.

Lemma nth_error_ext' {A} (l1 l2 : list A) : (forall n, nth_error l1 n = nth_error l2 n) -> l1 = l2.
Proof.
  revert l2. induction l1 as [|a l1 IH]; intros [|b l2] E; auto.
  - specialize (E 0); discriminate.
  - specialize (E 0); discriminate.
  - f_equal; [specialize (E 0); cbn in E; congruence|]. apply IH. intros n. apply (E (S n)).
Qed.

Lemma grows_set_nth' h h2 n v : grows h h2 -> length h <= n -> grows h (set_nth h2 n v).
Proof.
  intros [L P] Hn. split; [rewrite len_set_nth; lia|]. intros x Hx.
  rewrite nth_error_set_nth_other by lia. apply P, Hx.
Qed.

Lemma grows_ext h : forall h', grows h h' -> exists ext, h' = h ++ ext.
Proof.
  induction h as [|a h IH]; intros h' [L P].
  - exists h'. reflexivity.
  - destruct h' as [|b h']; [cbn in L; lia|].
    pose proof (P 0 ltac:(cbn; lia)) as E0. cbn in E0. injection E0 as ->.
    destruct (IH h') as [ext ->].
    + split; [cbn in L; lia|]. intros x Hx. apply (P (S x)). cbn; lia.
    + exists ext. reflexivity.
Qed.

(* the region from n on is closed under `children`, which point forward *)
Definition closed_from (n : nat) (h : heap) : Prop :=
  forall x obj k, n <= x -> nth_error h x = Some obj -> In k (o_children obj) -> x < k < length h.

(* every object behind n has a parent inside the region, allocated before it, and that parent
   lists it among its children *)
Definition parents_from (n : nat) (h : heap) : Prop :=
  forall x obj, n < x -> nth_error h x = Some obj ->
    exists y yo, o_parent obj = RObj y /\ n <= y < x /\ nth_error h y = Some yo /\ In x (o_children yo).

(* the same while the children of the root `ret` are still being collected *)
Definition parents_loop (ret : nat) (h : heap) : Prop :=
  forall x obj, ret < x -> nth_error h x = Some obj ->
    exists y, o_parent obj = RObj y /\ ret <= y < x /\
              (y <> ret -> exists yo, nth_error h y = Some yo /\ In x (o_children yo)).

(* the inner loop of node_copy, as a function of the recursive call *)
Definition copy_kids (rec : oid -> H oid) (ret : oid) : list oid -> H (list oid) :=
  fix go (cs : list oid) : H (list oid) :=
    match cs with
    | [] => h_ret []
    | c :: r =>
        doh cx <- h_obj c;
        if negb (o_live cx) then go r
        else doh c' <- rec c;
             doh_ h_mod c' (fun y => upd_parent y (RObj ret));
             doh more <- go r; h_ret (c' :: more)
    end.

Lemma node_copy_S f o :
  node_copy (S f) o =
  (doh x <- h_obj o;
   match o_class x with
   | CLoop =>
       doh ret <- h_new (new_loop (o_map x) (o_end x) (o_parent x));
       doh kids <- copy_kids (node_copy f) ret (o_children x);
       doh_ h_mod ret (fun y => upd_children y kids);
       h_ret ret
   | CSeg =>
       match o_seg x with
       | None => h_raise AttributeError
       | Some sd => h_new (new_seg (o_map x) (sd_x (sd_copy sd)) (o_parent x) (o_start x) (o_end x))
       end
   end).
Proof. reflexivity. Qed.

(* what one call of node_copy guarantees *)
Definition copy_post (h h' : heap) (r : result oid) : Prop :=
  grows h h' /\
  forall c, r = Ok c ->
    c = length h /\ c < length h' /\ closed_from (length h) h' /\ parents_from (length h) h'.

Lemma copy_kids_inv (rec : oid -> H oid) ret :
  (forall c h h' r, rec c h = (h', r) -> copy_post h h' r) ->
  forall cs hc hf r,
    ret < length hc -> closed_from ret hc -> parents_loop ret hc ->
    copy_kids rec ret cs hc = (hf, r) ->
    grows hc hf /\
    forall ks, r = Ok ks ->
      closed_from ret hf /\ parents_loop ret hf /\ (forall k, In k ks -> ret < k < length hf) /\
      (forall x obj, length hc <= x -> nth_error hf x = Some obj -> o_parent obj = RObj ret -> In x ks).
Proof.
  intros IH. induction cs as [|c cs IHcs]; intros hc hf r Hret Hcl Hpa E.
  - cbn [copy_kids] in E. rewrite h_ret_eq in E. injection E as <- <-.
    split; [apply grows_refl|]. intros ks K. injection K as <-. split; [exact Hcl|]. split; [exact Hpa|].
    split; [intros k0 []|]. intros x obj Hx Hn _.
    assert (nth_error hc x = None) by (apply nth_error_None; lia). congruence.
  - cbn [copy_kids] in E. fold (copy_kids rec ret) in E.
    apply h_bind_inv in E as [(h1 & cx & E1 & E)|(e & E1 & ->)].
    2:{ rewrite h_obj_eq in E1. injection E1 as <- _. split; [apply grows_refl|]. intros ks K; discriminate. }
    rewrite h_obj_eq in E1. injection E1 as <- E1.
    destruct (negb (o_live cx)).
    { eapply IHcs; eauto. }
    apply h_bind_inv in E as [(h1 & c' & E2 & E)|(e & E2 & ->)].
    2:{ apply IH in E2 as [G _]. split; [exact G|]. intros ks K; discriminate. }
    apply IH in E2 as [G1 P1]. destruct (P1 c' eq_refl) as (-> & Lc & Cl1 & Pa1). clear P1.
    apply h_bind_inv in E as [(h2 & u & E3 & E)|(e & E3 & ->)].
    2:{ rewrite h_mod_eq in E3. destruct (nth_error h1 (length hc)); [discriminate|]. injection E3 as <- _.
        split; [exact G1|intros ks K; discriminate]. }
    rewrite h_mod_eq in E3. destruct (nth_error h1 (length hc)) as [y|] eqn:Ey; [|discriminate].
    injection E3 as <- _.
    set (h2 := set_nth h1 (length hc) (upd_parent y (RObj ret))) in *.
    assert (G2 : grows hc h2).
    { apply grows_set_nth'; [exact G1|lia]. }
    assert (L2 : length h2 = length h1) by apply len_set_nth.
    assert (Cl2 : closed_from ret h2).
    { intros x obj k Hx Hn Hin. rewrite L2. unfold h2 in Hn. rewrite nth_error_set_nth in Hn.
      destruct (Nat.eqb_spec x (length hc)) as [->|N].
      - rewrite Ey in Hn. injection Hn as <-. cbn [upd_parent o_children] in Hin.
        eapply Cl1; eauto.
      - destruct (Nat.lt_ge_cases x (length hc)) as [Hl|Hl].
        + destruct G1 as [GL GP]. rewrite GP in Hn by exact Hl.
          pose proof (Hcl x obj k Hx Hn Hin). lia.
        + eapply Cl1; eauto. }
    assert (Pa2 : parents_loop ret h2).
    { intros x obj Hx Hn. unfold h2 in Hn. rewrite nth_error_set_nth in Hn.
      destruct (Nat.eqb_spec x (length hc)) as [->|N].
      - rewrite Ey in Hn. injection Hn as <-. cbn [upd_parent o_parent]. exists ret.
        split; [reflexivity|]. split; [lia|]. intros NN; congruence.
      - destruct (Nat.lt_ge_cases x (length hc)) as [Hl|Hl].
        + destruct G1 as [GL GP]. rewrite GP in Hn by exact Hl.
          destruct (Hpa x obj Hx Hn) as (y0 & Py & Hy & Hc). exists y0. split; [exact Py|]. split; [exact Hy|].
          intros NN. destruct (Hc NN) as (yo & Eyo & Iyo). exists yo. split; [|exact Iyo].
          unfold h2. rewrite nth_error_set_nth_other by lia. rewrite GP by lia. exact Eyo.
        + destruct (Pa1 x obj) as (y0 & yo & Py & Hy & Eyo & Iyo); [lia|exact Hn|].
          exists y0. split; [exact Py|]. split; [lia|]. intros _.
          unfold h2. rewrite nth_error_set_nth.
          destruct (Nat.eqb_spec y0 (length hc)) as [->|NN].
          * rewrite Ey. rewrite Ey in Eyo. injection Eyo as ->.
            exists (upd_parent yo (RObj ret)). split; [reflexivity|exact Iyo].
          * exists yo. split; [exact Eyo|exact Iyo]. }
    apply h_bind_inv in E as [(h3 & more & E4 & E)|(e & E4 & ->)].
    2:{ eapply IHcs in E4 as [G3 _]; eauto; [|lia].
        split; [eapply grows_trans; eauto|intros ks K; discriminate]. }
    eapply IHcs in E4 as [G3 P3]; eauto; [|lia].
    rewrite h_ret_eq in E. injection E as <- <-.
    split; [eapply grows_trans; eauto|].
    intros ks K. injection K as <-. destruct (P3 more eq_refl) as (Cl3 & Pa3 & In3 & Par3).
    split; [exact Cl3|]. split; [exact Pa3|]. split.
    + intros k [<-|Hk]; [|apply In3, Hk]. destruct G3 as [GL _]. lia.
    + intros x obj Hx Hn Hp.
      destruct (Nat.eq_dec x (length hc)) as [->|N]; [left; reflexivity|right].
      destruct (Nat.lt_ge_cases x (length h2)) as [Hl|Hl]; [|eapply Par3; eauto].
      exfalso. destruct G3 as [GL GP]. rewrite GP in Hn by exact Hl.
      unfold h2 in Hn. rewrite nth_error_set_nth_other in Hn by exact N.
      destruct (Pa1 x obj) as (y0 & yo & Py & Hy & _); [lia|exact Hn|].
      rewrite Hp in Py. injection Py as <-. lia.
Qed.

Lemma node_copy_inv f : forall o h h' r, node_copy f o h = (h', r) -> copy_post h h' r.
Proof.
  induction f as [|f IH]; intros o h h' r E.
  - cbn [node_copy] in E. rewrite h_raise_eq in E. injection E as <- <-.
    split; [apply grows_refl|]. intros c K; discriminate.
  - rewrite node_copy_S in E.
    apply h_bind_inv in E as [(h1 & x & E1 & E)|(e & E1 & ->)].
    2:{ rewrite h_obj_eq in E1. injection E1 as <- _. split; [apply grows_refl|]. intros c K; discriminate. }
    rewrite h_obj_eq in E1. injection E1 as <- E1.
    destruct (o_class x).
    + (* a segment node *)
      destruct (o_seg x) as [sd|].
      2:{ rewrite h_raise_eq in E. injection E as <- <-. split; [apply grows_refl|]. intros c K; discriminate. }
      rewrite h_new_eq in E. injection E as <- <-.
      split; [apply grows_app|]. intros c K. injection K as <-.
      split; [reflexivity|]. split; [rewrite app_length; cbn; lia|]. split.
      * intros y obj k Hy Hn Hin.
        destruct (Nat.eq_dec y (length h)) as [->|N].
        -- rewrite nth_error_app2, Nat.sub_diag in Hn by lia. injection Hn as <-. destruct Hin.
        -- rewrite nth_error_snoc_beyond in Hn by lia. discriminate.
      * intros y obj Hy Hn. rewrite nth_error_snoc_beyond in Hn by lia. discriminate.
    + (* a loop node *)
      apply h_bind_inv in E as [(h1 & ret & E2 & E)|(e & E2 & ->)]; [|rewrite h_new_eq in E2; discriminate].
      rewrite h_new_eq in E2. injection E2 as <- <-.
      set (h1 := h ++ [new_loop (o_map x) (o_end x) (o_parent x)]) in *.
      assert (G1 : grows h h1) by apply grows_app.
      assert (L1 : length h1 = S (length h)) by (unfold h1; rewrite app_length; cbn; lia).
      assert (N1 : nth_error h1 (length h) = Some (new_loop (o_map x) (o_end x) (o_parent x))).
      { unfold h1. rewrite nth_error_app2, Nat.sub_diag by lia. reflexivity. }
      assert (Cl1 : closed_from (length h) h1).
      { intros y obj k Hy Hn Hin. destruct (Nat.eq_dec y (length h)) as [->|N].
        - rewrite N1 in Hn. injection Hn as <-. destruct Hin.
        - assert (nth_error h1 y = None) by (apply nth_error_None; lia). congruence. }
      assert (Pa1 : parents_loop (length h) h1).
      { intros y obj Hy Hn. assert (nth_error h1 y = None) by (apply nth_error_None; lia). congruence. }
      apply h_bind_inv in E as [(h2 & kids & E3 & E)|(e & E3 & ->)].
      2:{ eapply copy_kids_inv in E3 as [G2 _]; eauto; [|lia].
          split; [eapply grows_trans; eauto|intros c K; discriminate]. }
      eapply copy_kids_inv in E3 as [G2 P2]; eauto; [|lia].
      destruct (P2 kids eq_refl) as (Cl2 & Pa2 & In2 & Par2). clear P2.
      assert (N2 : nth_error h2 (length h) = Some (new_loop (o_map x) (o_end x) (o_parent x))).
      { destruct G2 as [_ GP]. rewrite GP by lia. exact N1. }
      apply h_bind_inv in E as [(h3 & u & E4 & E)|(e & E4 & ->)].
      2:{ rewrite h_mod_eq, N2 in E4. discriminate. }
      rewrite h_mod_eq, N2 in E4. injection E4 as <- _.
      rewrite h_ret_eq in E. injection E as <- <-.
      set (h3 := set_nth h2 (length h) (upd_children (new_loop (o_map x) (o_end x) (o_parent x)) kids)).
      assert (G3 : grows h h3).
      { apply grows_set_nth'; [eapply grows_trans; eauto|lia]. }
      assert (L3 : length h3 = length h2) by apply len_set_nth.
      split; [exact G3|]. intros c K. injection K as <-.
      split; [reflexivity|]. split; [destruct G2; lia|]. split.
      * intros y obj k Hy Hn Hin. rewrite L3. unfold h3 in Hn. rewrite nth_error_set_nth in Hn.
        destruct (Nat.eqb_spec y (length h)) as [->|N].
        -- rewrite N2 in Hn. injection Hn as <-. cbn [upd_children o_children] in Hin. apply In2, Hin.
        -- eapply Cl2; eauto.
      * intros y obj Hy Hn. unfold h3 in Hn. rewrite nth_error_set_nth_other in Hn by lia.
        destruct (Pa2 y obj Hy Hn) as (y0 & Py & Hy0 & Hc).
        exists y0. destruct (Nat.eq_dec y0 (length h)) as [->|NN].
        -- exists (upd_children (new_loop (o_map x) (o_end x) (o_parent x)) kids).
           split; [exact Py|]. split; [lia|]. split.
           ++ unfold h3. eapply nth_error_set_nth_same; eauto.
           ++ cbn [upd_children o_children]. eapply Par2; eauto. lia.
        -- destruct (Hc NN) as (yo & Eyo & Iyo). exists yo.
           split; [exact Py|]. split; [lia|]. split; [|exact Iyo].
           unfold h3. rewrite nth_error_set_nth_other by exact NN. exact Eyo.
Qed.

(* reachability stays inside a closed region *)
Lemma reachable_in_region n h c x :
  closed_from n h -> n <= c -> c < length h -> reachable_children h c x -> n <= x < length h.
Proof.
  intros Cl Hc Lc R. induction R as [|x k obj R IH Hn Hin]; [lia|].
  pose proof (Cl x obj k (proj1 IH) Hn Hin). lia.
Qed.

(* ... and, with consistent parents, fills it *)
Lemma region_reachable n h x :
  parents_from n h -> n <= x < length h -> reachable_children h n x.
Proof.
  intros Pa. induction x as [x IH] using lt_wf_ind. intros Hx.
  destruct (Nat.eq_dec x n) as [->|N]; [constructor|].
  destruct (nth_error h x) as [obj|] eqn:E; [|apply nth_error_None in E; lia].
  destruct (Pa x obj) as (y & yo & Py & Hy & Eyo & Iyo); [lia|exact E|].
  apply (rc_step h n y x yo); [apply IH; lia|exact Eyo|exact Iyo].
Qed.

(* LAW 3, main statement *)
Theorem copy_is_fresh :
  forall h h' o c, copy_node o h = (h', Ok c) ->
    (* the heap only grew, and the copy's root is the first new object *)
    heap_extends h h' /\ c = length h /\
    (* the objects reachable from the copy through `children` are exactly the new ones *)
    (forall x, reachable_children h' c x <-> length h <= x < length h') /\
    (* below the copy's root every parent pointer names a node of the copy, namely the one
       that lists the node among its children *)
    (forall x obj, reachable_children h' c x -> x <> c -> nth_error h' x = Some obj ->
       exists y yo, o_parent obj = RObj y /\ reachable_children h' c y /\ length h <= y /\
                    nth_error h' y = Some yo /\ In x (o_children yo)).
Proof.
  intros h h' o c E. unfold copy_node in E. apply node_copy_inv in E as [G P].
  destruct (P c eq_refl) as (-> & Lc & Cl & Pa). clear P.
  split; [apply grows_ext, G|]. split; [reflexivity|].
  assert (R : forall x, reachable_children h' (length h) x <-> length h <= x < length h').
  { intros x. split; [apply reachable_in_region; auto|apply region_reachable; exact Pa]. }
  split; [exact R|].
  intros x obj Rx Nx Hn. apply R in Rx.
  destruct (Pa x obj) as (y & yo & Py & Hy & Eyo & Iyo); [lia|exact Hn|].
  exists y, yo. split; [exact Py|]. split; [apply R; lia|]. split; [lia|]. split; assumption.
Qed.

(* the form asked for: nothing reachable from the copy, and no parent below its root, is an old object *)
Corollary copy_is_fresh_weak :
  forall h h' o c, copy_node o h = (h', Ok c) ->
    (exists ext, h' = h ++ ext) /\
    (forall x, reachable_children h' c x -> length h <= x) /\
    (forall x obj y, reachable_children h' c x -> x <> c -> nth_error h' x = Some obj ->
                     o_parent obj = RObj y -> length h <= y).
Proof.
  intros h h' o c E. destruct (copy_is_fresh _ _ _ _ E) as (Ex & _ & R & P).
  split; [exact Ex|]. split; [intros x Rx; apply R in Rx; lia|].
  intros x obj y Rx Nx Hn Hp. destruct (P x obj Rx Nx Hn) as (y0 & yo & Py & _ & Hy & _).
  rewrite Hp in Py. injection Py as <-. exact Hy.
Qed.

(* a failed copy also leaves every old object alone *)
Theorem copy_only_allocates :
  forall h h' o r, copy_node o h = (h', r) -> heap_extends h h'.
Proof. intros h h' o r E. apply node_copy_inv in E as [G _]. apply grows_ext, G. Qed.

(* the root of the copy keeps class, map node and parent of the original: the parent is the one
   pointer that leaves the copy *)
Theorem copy_root :
  forall h h' o c x, copy_node o h = (h', Ok c) -> nth_error h o = Some x ->
    exists cx, nth_error h' c = Some cx /\ o_parent cx = o_parent x /\ o_class cx = o_class x /\
               o_map cx = o_map x /\ o_live cx = true.
Proof.
  intros h h' o c x E Hx. unfold copy_node in E. rewrite node_copy_S in E.
  apply h_bind_inv in E as [(h1 & x' & E1 & E)|(e & _ & K)]; [|discriminate].
  rewrite h_obj_eq in E1. injection E1 as <- E1. apply h_get_some in E1. rewrite Hx in E1. injection E1 as <-.
  destruct (o_class x) eqn:Cx.
  - destruct (o_seg x) as [sd|]; [|discriminate].
    rewrite h_new_eq in E. injection E as <- <-. eexists. split.
    + rewrite nth_error_app2, Nat.sub_diag by lia. reflexivity.
    + cbn. auto.
  - apply h_bind_inv in E as [(h1 & ret & E2 & E)|(e & _ & K)]; [|discriminate].
    rewrite h_new_eq in E2. injection E2 as <- <-.
    apply h_bind_inv in E as [(h2 & kids & E3 & E)|(e & _ & K)]; [|discriminate].
    assert (N1 : nth_error (h ++ [new_loop (o_map x) (o_end x) (o_parent x)]) (length h)
                 = Some (new_loop (o_map x) (o_end x) (o_parent x))).
    { rewrite nth_error_app2, Nat.sub_diag by lia. reflexivity. }
    eapply copy_kids_inv in E3 as [[GL GP] _].
    2:{ intros; eapply node_copy_inv; eauto. }
    2:{ rewrite app_length; cbn; lia. }
    2:{ intros y obj k Hy Hn Hin. destruct (Nat.eq_dec y (length h)) as [->|N].
        - rewrite N1 in Hn. injection Hn as <-. destruct Hin.
        - rewrite nth_error_snoc_beyond in Hn by lia. discriminate. }
    2:{ intros y obj Hy Hn. rewrite nth_error_snoc_beyond in Hn by lia. discriminate. }
    assert (N2 : nth_error h2 (length h) = Some (new_loop (o_map x) (o_end x) (o_parent x))).
    { rewrite GP; [exact N1|]. rewrite app_length; cbn; lia. }
    apply h_bind_inv in E as [(h3 & u & E4 & E)|(e & _ & K)]; [|discriminate].
    rewrite h_mod_eq, N2 in E4. injection E4 as <- _.
    rewrite h_ret_eq in E. injection E as <- <-.
    eexists. split; [eapply nth_error_set_nth_same; eauto|]. cbn. auto.
Qed.

(* ================================================================== *)
(* what node_set_value does to the store                               *)

Definition set_target (h : heap) (self : oid) (me : dobj) (p : str) : result (oid * str) :=
  match o_class me with
  | CLoop =>
      do cp <- get_start_node h self p;
      do sd <- ref_gfms h (fst cp) (snd cp);
      match sd with
      | None => Raise X12PathError
      | Some ow => do xp <- parse_path (snd cp); Ok (ow, seg_part xp)
      end
  | CSeg =>
      do sd <- seg_gfms h self p;
      match sd with
      | None => Raise X12PathError
      | Some ow => Ok (ow, p)
      end
  end.

Lemma node_set_value_eq self p v :
  node_set_value self p v =
  (doh me <- h_obj self;
   doh tgt <- h_read (fun h => set_target h self me p);
   doh x <- h_read (fun h => owner_seg h (fst tgt));
   doh x' <- h_lift (sd_set x (snd tgt) v);
   h_mod (fst tgt) (fun ox => upd_seg ox (Some x'))).
Proof. reflexivity. Qed.

Lemma set_target_value_target h self me p t :
  h_get h self = Ok me -> set_target h self me p = Ok t -> value_target h self p = Ok (Some t).
Proof.
  intros Hme E. unfold value_target. rewrite Hme. cbn [bind]. unfold set_target in E.
  destruct (o_class me).
  - destruct (seg_gfms h self p) as [[ow|]|e]; cbn [bind] in *; try discriminate.
    injection E as <-. reflexivity.
  - destruct (get_start_node h self p) as [cp|e]; cbn [bind] in *; [|discriminate].
    destruct (ref_gfms h (fst cp) (snd cp)) as [[ow|]|e]; cbn [bind] in *; try discriminate.
    destruct (parse_path (snd cp)) as [xp|e]; cbn [bind] in *; [|discriminate].
    injection E as <-. reflexivity.
Qed.

Lemma value_target_set_target h self me p t :
  h_get h self = Ok me -> value_target h self p = Ok (Some t) -> set_target h self me p = Ok t.
Proof.
  intros Hme E. unfold value_target in E. rewrite Hme in E. cbn [bind] in E. unfold set_target.
  destruct (o_class me).
  - destruct (seg_gfms h self p) as [[ow|]|e]; cbn [bind] in *; try discriminate.
    injection E as <-. reflexivity.
  - destruct (get_start_node h self p) as [cp|e]; cbn [bind] in *; [|discriminate].
    destruct (ref_gfms h (fst cp) (snd cp)) as [[ow|]|e]; cbn [bind] in *; try discriminate.
    destruct (parse_path (snd cp)) as [xp|e]; cbn [bind] in *; [|discriminate].
    injection E as <-. reflexivity.
Qed.

(* a set_value either fails and leaves the store as it is, or replaces the segment data of the
   one object its path resolves to *)
Lemma set_value_inv self p v h h' r :
  node_set_value self p v h = (h', r) ->
  (h' = h /\ exists e, r = Raise e) \/
  (exists tgt key ox x x',
     r = Ok tt /\ value_target h self p = Ok (Some (tgt, key)) /\
     nth_error h tgt = Some ox /\ o_seg ox = Some x /\ sd_set x key v = Ok x' /\
     h' = set_nth h tgt (upd_seg ox (Some x'))).
Proof.
  rewrite node_set_value_eq. intros E.
  apply h_bind_inv in E as [(h1 & me & E1 & E)|(e & E1 & ->)].
  2:{ rewrite h_obj_eq in E1. injection E1 as <- _. left. eauto. }
  rewrite h_obj_eq in E1. injection E1 as <- E1.
  apply h_bind_inv in E as [(h1 & [tgt key] & E2 & E)|(e & E2 & ->)].
  2:{ rewrite h_read_eq in E2. injection E2 as <- _. left. eauto. }
  rewrite h_read_eq in E2. injection E2 as <- E2. cbn [fst snd] in E.
  apply h_bind_inv in E as [(h1 & x & E3 & E)|(e & E3 & ->)].
  2:{ rewrite h_read_eq in E3. injection E3 as <- _. left. eauto. }
  rewrite h_read_eq in E3. injection E3 as <- E3.
  apply h_bind_inv in E as [(h1 & x' & E4 & E)|(e & E4 & ->)].
  2:{ rewrite h_lift_eq in E4. injection E4 as <- _. left. eauto. }
  rewrite h_lift_eq in E4. injection E4 as <- E4.
  unfold owner_seg in E3. destruct (h_get h tgt) as [ox|] eqn:Eox; cbn [bind] in E3; [|discriminate].
  apply h_get_some in Eox. rewrite h_mod_eq, Eox in E. injection E as <- <-.
  destruct (o_seg ox) as [x0|] eqn:Es; [|discriminate]. injection E3 as ->.
  right. exists tgt, key, ox, x, x'. repeat split; auto.
  eapply set_target_value_target; eauto.
Qed.

(* frame: only the resolved object can change, and only in its segment data *)
Theorem set_value_frame self p v h h' r :
  node_set_value self p v h = (h', r) ->
  length h' = length h /\
  forall o, (forall key, value_target h self p <> Ok (Some (o, key))) -> nth_error h' o = nth_error h o.
Proof.
  intros E. apply set_value_inv in E as [[-> _]|(tgt & key & ox & x & x' & -> & T & Hox & Hs & Hset & ->)].
  - split; auto.
  - split; [apply len_set_nth|]. intros o No. apply nth_error_set_nth_other.
    intros ->. apply (No key). exact T.
Qed.

(* ---- confinement: in a region closed under `children` and `parent`, paths resolve inside ---- *)
Definition confined (n : nat) (h : heap) : Prop :=
  (forall x obj k, n <= x -> nth_error h x = Some obj -> In k (o_children obj) -> n <= k) /\
  (forall x obj y, n <= x -> nth_error h x = Some obj -> o_parent obj = RObj y -> n <= y).

Lemma start_node_confined n h exn0 :
  confined n h ->
  forall len s, length s <= len -> forall c cur rest, n <= c ->
  start_node_from h exn0 (RObj c) s = Ok (cur, rest) ->
  match cur with RObj c' => n <= c' | _ => True end.
Proof.
  intros [_ Cp]. induction len as [|len IH]; intros s Hl c cur rest Hc E.
  - destruct s; [|cbn in Hl; lia]. cbn in E. injection E as <- _. exact Hc.
  - destruct s as [|c1 [|c2 [|c3 s]]]; cbn [start_node_from] in E; try (injection E as <- _; exact Hc).
    destruct (Ascii.eqb c1 "." && Ascii.eqb c2 "." && Ascii.eqb c3 "/")%bool; [|injection E as <- _; exact Hc].
    destruct (h_get h c) as [x|] eqn:Ex; cbn [bind] in E; [|discriminate].
    apply h_get_some in Ex.
    destruct (o_parent x) as [|y|ms] eqn:Ep; [discriminate| |].
    + eapply (IH s); [cbn in Hl; lia| |exact E]. eapply Cp; eauto.
    + (* a list: any further "../" raises, otherwise the list is returned *)
      destruct s as [|d1 [|d2 [|d3 s']]]; cbn [start_node_from] in E; try (injection E as <- _; exact I).
      destruct (Ascii.eqb d1 "." && Ascii.eqb d2 "." && Ascii.eqb d3 "/")%bool; [discriminate|].
      injection E as <- _; exact I.
Qed.

Lemma get_start_confined n h c p cur rest :
  confined n h -> n <= c -> get_start_node h c p = Ok (cur, rest) ->
  match cur with RObj c' => n <= c' | _ => True end.
Proof.
  intros C Hc E. unfold get_start_node in E. destruct (h_get h c); cbn [bind] in E; [|discriminate].
  eapply start_node_confined; eauto.
Qed.

Lemma try_engine_ok {A} (r : result A) a : try_engine r = Ok a -> r = Ok a.
Proof. destruct r; cbn; intros E; [exact E|discriminate]. Qed.

Lemma obj_children_sub x ks : obj_children x = Ok ks -> ks = o_children x.
Proof. unfold obj_children. destruct (o_class x), (o_live x); intros E; inversion E; reflexivity. Qed.

Lemma loop_gfms_confined n h :
  confined n h -> forall fuel c p t, n <= c -> loop_gfms fuel h c p = Ok (Some t) -> n <= t.
Proof.
  intros C. induction fuel as [|f IH]; intros c p t Hc E; [discriminate|].
  cbn [loop_gfms] in E. destruct p as [|a p]; [discriminate|].
  destruct (get_start_node h c (a :: p)) as [[cur rest]|] eqn:Es; cbn [bind] in E; [|discriminate].
  pose proof (get_start_confined _ _ _ _ _ _ C Hc Es) as Hcur.
  cbn [fst snd] in E.
  destruct (parse_path rest) as [xp|]; cbn [bind] in E; [|discriminate].
  destruct (seg_id xp); [|discriminate].
  destruct cur as [|c0|ms]; cbn [bind] in E; try discriminate.
  destruct (h_get h c0) as [cx|] eqn:Ecx; cbn [bind] in E; [|discriminate].
  apply h_get_some in Ecx.
  destruct (obj_children cx) as [kids|] eqn:Ek; cbn [bind] in E; [|discriminate].
  apply obj_children_sub in Ek.
  assert (Hk : forall k, In k kids -> n <= k).
  { intros k Hin. subst kids. destruct C as [Cc _]. eapply Cc; eauto. }
  clear Ek. destruct (loop_list xp) as [|next rest'].
  - apply try_engine_ok in E. induction kids as [|k kids IHk]; [discriminate|].
    destruct (h_get h k) as [kx|]; cbn [bind] in E; [|discriminate].
    destruct (is_seg_typed kx).
    + destruct (match o_map kx with Some mn => _ | None => _ end) as [[|]|]; cbn [bind] in E; try discriminate.
      * injection E as <-. apply Hk. left; reflexivity.
      * apply IHk; [exact E|intros; apply Hk; right; assumption].
    + apply IHk; [exact E|intros; apply Hk; right; assumption].
  - apply try_engine_ok in E. induction kids as [|k kids IHk]; [discriminate|].
    destruct (h_get h k) as [kx|]; cbn [bind] in E; [|discriminate].
    destruct (is_loop_typed kx).
    + destruct (obj_id kx) as [i|]; cbn [bind] in E; [|discriminate].
      destruct (ostr_eqb i (Some next)).
      * destruct (loop_gfms f h k (format_path (set_loop_list xp rest'))) as [[t'|]|] eqn:Er;
          cbn [bind] in E; try discriminate.
        -- injection E as <-. eapply IH; [|exact Er]. apply Hk. left; reflexivity.
        -- apply IHk; [exact E|intros; apply Hk; right; assumption].
      * apply IHk; [exact E|intros; apply Hk; right; assumption].
    + apply IHk; [exact E|intros; apply Hk; right; assumption].
Qed.

Lemma seg_gfms_confined n h c p t :
  confined n h -> n <= c -> seg_gfms h c p = Ok (Some t) -> n <= t.
Proof.
  intros C Hc E. unfold seg_gfms in E.
  destruct (get_start_node h c p) as [[cur rest]|] eqn:Es; cbn [bind] in E; [|discriminate].
  pose proof (get_start_confined _ _ _ _ _ _ C Hc Es) as Hcur. cbn [fst snd] in E.
  destruct cur as [|c0|ms]; try discriminate.
  destruct (negb (c0 =? c)).
  - destruct (h_get h c0) as [cx0|]; cbn [bind] in E; [|discriminate].
    destruct (o_class cx0); [discriminate|]. eapply loop_gfms_confined; eauto.
  - unfold seg_gfms_here in E. cbn [fst snd] in E.
    destruct (parse_path rest) as [xp|]; cbn [bind] in E; [|discriminate].
    destruct (loop_list xp); [|discriminate].
    destruct (h_get h c) as [me|]; cbn [bind] in E; [|discriminate].
    assert (G : (do cx <- h_get h c0;
                 match o_map cx with
                 | None => Raise AttributeError
                 | Some mn =>
                     do v <- mn_view mn;
                     match v, o_seg cx with
                     | MNode (NSeg _), Some sd =>
                         do b <- try_engine (mn_is_match_qual mn (sd_x sd) (seg_id xp) (id_val xp));
                         Ok (if b then Some c0 else None)
                     | _, _ => Raise AttributeError
                     end
                 end) = Ok (Some t) -> n <= t).
    { intros G. destruct (h_get h c0) as [cx|]; cbn [bind] in G; [|discriminate].
      destruct (o_map cx) as [mn|]; [|discriminate].
      destruct (mn_view mn) as [vw|]; cbn [bind] in G; [|discriminate].
      destruct vw as [|[| ]]; try discriminate.
      destruct (o_seg cx); [|discriminate].
      destruct (try_engine _) as [[|]|]; cbn [bind] in G; try discriminate.
      injection G as <-. exact Hcur. }
    destruct (ele_idx xp), (seg_id xp); try (apply G; exact E).
    destruct (o_seg me); [|discriminate]. injection E as <-. exact Hc.
Qed.

Lemma value_target_confined n h x p t key :
  confined n h -> n <= x -> value_target h x p = Ok (Some (t, key)) -> n <= t.
Proof.
  intros C Hx E. unfold value_target in E.
  destruct (h_get h x) as [me|]; cbn [bind] in E; [|discriminate].
  destruct (o_class me).
  - destruct (seg_gfms h x p) as [[ow|]|] eqn:Eg; cbn [bind] in E; try discriminate.
    injection E as <- _. eapply seg_gfms_confined; eauto.
  - destruct (get_start_node h x p) as [[cur rest]|] eqn:Es; cbn [bind] in E; [|discriminate].
    pose proof (get_start_confined _ _ _ _ _ _ C Hx Es) as Hcur. cbn [fst snd] in E.
    destruct (ref_gfms h cur rest) as [[ow|]|] eqn:Eg; cbn [bind] in E; try discriminate.
    destruct (parse_path rest); cbn [bind] in E; [|discriminate]. injection E as <- _.
    unfold ref_gfms in Eg. destruct cur as [|c0|ms]; try discriminate.
    destruct (h_get h c0) as [cx|]; cbn [bind] in Eg; [|discriminate].
    destruct (o_class cx); [eapply seg_gfms_confined|eapply loop_gfms_confined]; eauto.
Qed.

(* ================================================================== *)
(* LAW 3, consequences: editing the copy leaves the original alone     *)

(* delete() on any node of the copy *)
Theorem copy_delete_independent :
  forall h h' o c x h'' r,
    copy_node o h = (h', Ok c) -> reachable_children h' c x ->
    node_delete x h' = (h'', r) ->
    same_below (length h) h' h''.
Proof.
  intros h h' o c x h'' r E Rx D. destruct (copy_is_fresh _ _ _ _ E) as (_ & _ & R & _).
  apply R in Rx. unfold node_delete in D. rewrite h_mod_eq in D.
  intros k Hk. destruct (nth_error h' x); injection D as <- _; [|reflexivity].
  apply nth_error_set_nth_other. lia.
Qed.

(* set_value on any node of the copy, general form: the original is untouched as long as the path
   resolves to a node of the copy *)
Theorem copy_set_value_independent_if :
  forall h h' o c x p v h'' r,
    copy_node o h = (h', Ok c) -> reachable_children h' c x ->
    node_set_value x p v h' = (h'', r) ->
    (forall t key, value_target h' x p = Ok (Some (t, key)) -> length h <= t) ->
    same_below (length h) h' h''.
Proof.
  intros h h' o c x p v h'' r E Rx S Ht k Hk.
  apply set_value_frame in S as [_ F]. apply F. intros key K. apply Ht in K. lia.
Qed.

(* the copy is a closed world when its root has no parent object to climb to *)
Lemma copy_confined :
  forall h h' o c ox, copy_node o h = (h', Ok c) -> nth_error h o = Some ox ->
    (forall y, o_parent ox <> RObj y) -> confined (length h) h'.
Proof.
  intros h h' o c ox E Hox Hp.
  destruct (copy_root _ _ _ _ _ E Hox) as (cx & Hcx & Pcx & _).
  unfold copy_node in E. apply node_copy_inv in E as [G P].
  destruct (P c eq_refl) as (-> & Lc & Cl & Pa). split.
  - intros x obj k Hx Hn Hin. pose proof (Cl x obj k Hx Hn Hin). lia.
  - intros x obj y Hx Hn Hy. destruct (Nat.eq_dec x (length h)) as [->|N].
    + rewrite Hcx in Hn. injection Hn as <-. rewrite Pcx in Hy. exfalso. eapply Hp; eauto.
    + destruct (Pa x obj) as (y0 & yo & Py & Hy0 & _); [lia|exact Hn|].
      rewrite Hy in Py. injection Py as <-. lia.
Qed.

(* set_value on any node of a copy whose original had no parent object (a root, or a node
   produced by iter_segments whose `parent` is a list): every path resolves inside the copy *)
Theorem copy_set_value_independent :
  forall h h' o c ox x p v h'' r,
    copy_node o h = (h', Ok c) -> nth_error h o = Some ox -> (forall y, o_parent ox <> RObj y) ->
    reachable_children h' c x ->
    node_set_value x p v h' = (h'', r) ->
    same_below (length h) h' h''.
Proof.
  intros h h' o c ox x p v h'' r E Hox Hp Rx S.
  eapply copy_set_value_independent_if; eauto.
  intros t key K. eapply value_target_confined; [eapply copy_confined; eauto| |exact K].
  destruct (copy_is_fresh _ _ _ _ E) as (_ & _ & R & _). apply R in Rx. lia.
Qed.

(* ================================================================== *)
(* LAW 2: exists / count / first / select agree                        *)

Lemma checked_all {A} (chk : A -> result unit) xs tail ys :
  g_all (checked chk xs tail) = Ok ys ->
  ys = xs /\ tail = None /\ Forall (fun x => chk x = Ok tt) xs.
Proof.
  revert ys. induction xs as [|x xs IH]; intros ys E.
  - cbn in E. destruct tail; [discriminate|]. injection E as <-. auto.
  - cbn [checked] in E. destruct (chk x) as [[]|] eqn:C; [|discriminate].
    unfold g_all in E. cbn [fst snd] in E.
    destruct (snd (checked chk xs tail)) eqn:S; [discriminate|]. injection E as <-.
    destruct (IH (fst (checked chk xs tail))) as (E1 & E2 & E3).
    { unfold g_all. rewrite S. reflexivity. }
    split; [f_equal; exact E1|]. split; [exact E2|]. constructor; assumption.
Qed.

Lemma checked_pass {A} (chk : A -> result unit) xs :
  Forall (fun x => chk x = Ok tt) xs -> checked chk xs None = (xs, None).
Proof.
  induction 1 as [|x xs Hx _ IH]; [reflexivity|]. cbn [checked]. rewrite Hx, IH. reflexivity.
Qed.

(* when select runs to its end: it yields the trace of _select, which did not raise, and every
   assertion passed *)
Theorem select_completes_iff :
  forall h self p xs,
    g_all (node_select h self p) = Ok xs <->
    exists xp, select_from h self p = Ok (xp, (xs, None)) /\
               Forall (fun n => select_check h xp n = Ok tt) xs.
Proof.
  intros h self p xs. unfold node_select. split.
  - intros E. destruct (h_get h self) as [me|]; cbn [bind g_of_result] in E; [|discriminate].
    destruct (select_from h self p) as [[xp [ys tail]]|]; cbn [bind g_of_result fst snd] in E; [|discriminate].
    apply checked_all in E as (-> & -> & F). exists xp. split; [reflexivity|exact F].
  - intros (xp & E & F).
    assert (exists me, h_get h self = Ok me) as [me Hme].
    { unfold select_from, get_start_node in E. destruct (h_get h self); [eauto|discriminate]. }
    rewrite Hme, E. cbn [bind g_of_result fst snd]. rewrite checked_pass by exact F. reflexivity.
Qed.

Theorem queries_agree :
  forall h self p xs,
    g_all (node_select h self p) = Ok xs ->
    node_exists h self p = Ok (negb (length xs =? 0)) /\
    node_count h self p = Ok (length xs) /\
    node_first h self p = Ok (hd_error xs).
Proof.
  intros h self p xs E. pose proof E as E0. apply select_completes_iff in E as (xp & E & F).
  destruct (exists_count_agree _ _ _ _ _ E) as [Ex Ec].
  split; [exact Ex|]. split; [exact Ec|].
  unfold node_first. rewrite Ex. cbn [bind].
  destruct xs as [|x xs]; [reflexivity|]. cbn [length Nat.eqb negb].
  apply g_first_of_all. exact E0.
Qed.

(* conversely: when count succeeds and the assertions of select hold for the nodes found, select
   completes with that many nodes *)
Theorem count_then_select :
  forall h self p xp t n,
    select_from h self p = Ok (xp, t) -> node_count h self p = Ok n ->
    Forall (fun x => select_check h xp x = Ok tt) (fst t) ->
    g_all (node_select h self p) = Ok (fst t) /\ length (fst t) = n.
Proof.
  intros h self p xp [ys tail] n E C F. unfold node_count in C. rewrite E in C. cbn [bind snd] in C.
  unfold g_all in C. cbn [snd fst] in C. destruct tail; [discriminate|]. cbn [bind] in C. injection C as <-.
  split; [|reflexivity]. apply select_completes_iff. exists xp. split; [exact E|exact F].
Qed.

(* ================================================================== *)
(* LAW 1: set then get                                                 *)

(* ---- on the segment data ---- *)
Lemma parse_refdes_sid s s' ref : sid s' = sid s -> parse_refdes s' ref = parse_refdes s ref.
Proof. intros E. unfold parse_refdes. rewrite E. reflexivity. Qed.

Lemma cell_of_cell s i j : cell_of s i j = cell s i j.
Proof. reflexivity. Qed.
Lemma isa16_is s i : isa16 s i = is_isa16 s i.
Proof. reflexivity. Qed.

(* Segment.set then Segment.get_value at the same designator; every other cell keeps its value
   (C17 frame laws); the id and the delimiters stay; the segment grows exactly as far as needed *)
Theorem sd_set_then_get :
  forall sd ref v sd' i cj,
    let d := xg_d (sd_x sd) in let s := xg_s (sd_x sd) in
    refdes_pos s ref i cj -> C10_spec.value_ok d s i cj v ->
    sd_set sd ref v = Ok sd' ->
    sd_get_value sd' ref = Ok (Some v) /\
    xg_d (sd_x sd') = d /\ sid (xg_s (sd_x sd')) = sid s /\
    seg_len (xg_s (sd_x sd')) = Nat.max (seg_len s) (S i) /\
    forall i' j', cell_of (xg_s (sd_x sd')) i' j' = cell_after s i cj v i' j'.
Proof.
  intros sd ref v sd' i cj d s Hpos Hok E.
  unfold sd_set in E. fold s d in E. unfold refdes_pos in Hpos. rewrite Hpos in E. cbn [bind] in E.
  destruct (set_ix d s (Some (Z.of_nat i), option_map Z.of_nat cj) v) as [s'|] eqn:Es; cbn [bind] in E; [|discriminate].
  injection E as <-. cbn [sd_x xg_d xg_s].
  destruct (set_extends _ _ _ _ _ _ Es) as [Hlen Hsid].
  assert (Hp' : parse_refdes s' ref = Ok (Some (Z.of_nat i), option_map Z.of_nat cj)).
  { rewrite (parse_refdes_sid s s') by exact Hsid. exact Hpos. }
  split; [|split; [reflexivity|split; [exact Hsid|split; [exact Hlen|]]]].
  - unfold sd_get_value. cbn [sd_x xg_s xg_d]. rewrite Hp'. cbn [bind].
    destruct cj as [j|]; cbn [option_map C10_spec.value_ok] in *.
    + destruct (set_get_comp d s i j v Hok) as (s2 & Es2 & Eg). unfold zi in *.
      rewrite Es in Es2. injection Es2 as <-. rewrite Eg. reflexivity.
    + destruct (set_get_ele d s i v Hok) as (s2 & Es2 & Eg & _). unfold zi in *.
      rewrite Es in Es2. injection Es2 as <-. rewrite Eg. cbn [bind].
      rewrite format_comp_single. reflexivity.
  - intros i' j'. rewrite cell_of_cell. destruct cj as [j|]; cbn [option_map C10_spec.value_ok cell_after] in *.
    + apply (set_frame_comp d s i j v s' Hok Es).
    + apply (set_frame_ele d s i v s' Hok Es).
Qed.

(* ---- on the tree ---- *)
Lemma node_get_value_eq h self p :
  node_get_value h self p =
  (do t <- value_target h self p;
   match t with
   | None => Ok None
   | Some (ow, key) => do x <- owner_seg h ow; sd_get_value x key
   end).
Proof.
  unfold node_get_value, value_target.
  destruct (h_get h self) as [me|]; cbn [bind]; [|reflexivity].
  destruct (o_class me).
  - destruct (seg_gfms h self p) as [[ow|]|]; reflexivity.
  - destruct (get_start_node h self p) as [cp|]; cbn [bind]; [|reflexivity].
    destruct (ref_gfms h (fst cp) (snd cp)) as [[ow|]|]; cbn [bind]; try reflexivity.
    destruct (parse_path (snd cp)); reflexivity.
Qed.

(* what a successful set_value changes: exactly one object, the segment node its path resolves to,
   and of that only the segment data, by Segment.set at the designator the path resolves to *)
Theorem set_value_effect :
  forall h h' self p v, node_set_value self p v h = (h', Ok tt) ->
    exists tgt key ox sd sd',
      value_target h self p = Ok (Some (tgt, key)) /\
      nth_error h tgt = Some ox /\ o_seg ox = Some sd /\ sd_set sd key v = Ok sd' /\
      nth_error h' tgt = Some (upd_seg ox (Some sd')) /\
      length h' = length h /\
      (forall o, o <> tgt -> nth_error h' o = nth_error h o).
Proof.
  intros h h' self p v E.
  apply set_value_inv in E as [[_ [e K]]|(tgt & key & ox & x & x' & _ & T & Hox & Hs & Hset & ->)]; [discriminate|].
  exists tgt, key, ox, x, x'. repeat split; auto.
  - eapply nth_error_set_nth_same; eauto.
  - apply len_set_nth.
  - intros o N. apply nth_error_set_nth_other, N.
Qed.

(* set_value then get_value at the same path, under the three conditions that are needed (see the
   counterexamples below): an ordinary designator, a value that survives Segment.set, and a path
   that still resolves to the same segment afterwards *)
Theorem set_then_get :
  forall h h' self p v, node_set_value self p v h = (h', Ok tt) ->
    exists tgt key ox sd sd',
      value_target h self p = Ok (Some (tgt, key)) /\
      nth_error h tgt = Some ox /\ o_seg ox = Some sd /\
      nth_error h' tgt = Some (upd_seg ox (Some sd')) /\
      length h' = length h /\
      (forall o, o <> tgt -> nth_error h' o = nth_error h o) /\
      forall i cj,
        refdes_pos (xg_s (sd_x sd)) key i cj ->
        C10_spec.value_ok (xg_d (sd_x sd)) (xg_s (sd_x sd)) i cj v ->
        (* the segment: only the addressed cell changed *)
        (xg_d (sd_x sd') = xg_d (sd_x sd) /\ sid (xg_s (sd_x sd')) = sid (xg_s (sd_x sd)) /\
         seg_len (xg_s (sd_x sd')) = Nat.max (seg_len (xg_s (sd_x sd))) (S i) /\
         forall i' j', cell_of (xg_s (sd_x sd')) i' j' = cell_after (xg_s (sd_x sd)) i cj v i' j') /\
        (* the value is read back, provided the path still finds the segment *)
        (value_target h' self p = value_target h self p -> node_get_value h' self p = Ok (Some v)).
Proof.
  intros h h' self p v E.
  destruct (set_value_effect _ _ _ _ _ E) as (tgt & key & ox & sd & sd' & T & Hox & Hs & Hset & Hox' & L & F).
  exists tgt, key, ox, sd, sd'. repeat (split; [assumption|]).
  intros i cj Hpos Hok.
  destruct (sd_set_then_get sd key v sd' i cj Hpos Hok Hset) as (G & D & S & Ln & C).
  split; [auto|]. intros R.
  rewrite node_get_value_eq, R, T. cbn [bind]. unfold owner_seg, h_get. rewrite Hox'. cbn [bind upd_seg o_seg].
  exact G.
Qed.

(* ---- when does the path still find the segment?  Whenever the write does not change the
        outcome of the qualifier test (is_match_qual) on the segment written to. ---- *)

Definition obj_sim (a b : dobj) : Prop :=
  same_but_seg a b /\
  match o_seg a, o_seg b with
  | Some sa, Some sb =>
      forall mn si q, o_map a = Some mn ->
        mn_is_match_qual mn (sd_x sb) si q = mn_is_match_qual mn (sd_x sa) si q
  | None, None => True
  | _, _ => False
  end.

Definition heap_sim (h h' : heap) : Prop :=
  forall o, match nth_error h o, nth_error h' o with
            | Some a, Some b => obj_sim a b
            | None, None => True
            | _, _ => False
            end.

Lemma sbs_fields a b :
  same_but_seg a b ->
  o_class b = o_class a /\ o_live b = o_live a /\ o_map b = o_map a /\ o_parent b = o_parent a /\
  o_children b = o_children a.
Proof. unfold same_but_seg, upd_seg. intros H. injection H. intros. repeat split; symmetry; assumption. Qed.

Lemma obj_sim_refl a : obj_sim a a.
Proof. split; [reflexivity|]. destruct (o_seg a); auto. Qed.

(* reading an object from either store *)
Lemma h_get_sim h h' o :
  heap_sim h h' ->
  (exists a b, h_get h o = Ok a /\ h_get h' o = Ok b /\ obj_sim a b) \/
  (h_get h o = Raise OtherError /\ h_get h' o = Raise OtherError).
Proof.
  intros S. specialize (S o). unfold h_get.
  destruct (nth_error h o) as [a|], (nth_error h' o) as [b|]; try contradiction.
  - left. eauto.
  - right. auto.
Qed.

Lemma start_node_sim h h' exn0 :
  heap_sim h h' ->
  forall len s, length s <= len -> forall cur,
  start_node_from h' exn0 cur s = start_node_from h exn0 cur s.
Proof.
  intros S. induction len as [|len IH]; intros s Hl cur.
  - destruct s; [reflexivity|cbn in Hl; lia].
  - destruct s as [|c1 [|c2 [|c3 s]]]; try reflexivity. cbn [start_node_from].
    destruct (Ascii.eqb c1 "." && Ascii.eqb c2 "." && Ascii.eqb c3 "/")%bool; [|reflexivity].
    destruct cur as [|o|ms]; try reflexivity.
    destruct (h_get_sim h h' o S) as [(a & b & -> & -> & [Sb _])|[-> ->]]; [|reflexivity].
    cbn [bind]. destruct (sbs_fields _ _ Sb) as (_ & _ & _ & -> & _).
    destruct (o_parent a); try reflexivity; apply IH; cbn in Hl; lia.
Qed.

Lemma get_start_sim h h' self p :
  heap_sim h h' -> get_start_node h' self p = get_start_node h self p.
Proof.
  intros S. unfold get_start_node.
  destruct (h_get_sim h h' self S) as [(a & b & -> & -> & [Sb _])|[-> ->]]; [|reflexivity].
  cbn [bind]. destruct (sbs_fields _ _ Sb) as (_ & _ & -> & _).
  eapply start_node_sim; eauto.
Qed.

Lemma obj_children_sim a b : same_but_seg a b -> obj_children b = obj_children a.
Proof. intros Sb. destruct (sbs_fields _ _ Sb) as (C & L & _ & _ & K). unfold obj_children. rewrite C, L, K. reflexivity. Qed.
Lemma obj_id_sim a b : same_but_seg a b -> obj_id b = obj_id a.
Proof. intros Sb. destruct (sbs_fields _ _ Sb) as (_ & _ & M & _). unfold obj_id. rewrite M. reflexivity. Qed.
Lemma seg_typed_sim a b : same_but_seg a b -> is_seg_typed b = is_seg_typed a.
Proof. intros Sb. destruct (sbs_fields _ _ Sb) as (C & L & _). unfold is_seg_typed. rewrite C, L. reflexivity. Qed.
Lemma loop_typed_sim a b : same_but_seg a b -> is_loop_typed b = is_loop_typed a.
Proof. intros Sb. destruct (sbs_fields _ _ Sb) as (C & L & _). unfold is_loop_typed. rewrite C, L. reflexivity. Qed.

(* the qualifier test on a node of either store *)
Lemma match_sim a b si q :
  obj_sim a b ->
  match o_map b, o_seg b with
  | Some mn, Some sd => mn_is_match_qual mn (sd_x sd) si q
  | _, _ => Raise AttributeError
  end =
  match o_map a, o_seg a with
  | Some mn, Some sd => mn_is_match_qual mn (sd_x sd) si q
  | _, _ => Raise AttributeError
  end.
Proof.
  intros [Sb Q]. destruct (sbs_fields _ _ Sb) as (_ & _ & -> & _).
  destruct (o_map a) as [mn|]; [|reflexivity].
  destruct (o_seg a), (o_seg b); try contradiction; [|reflexivity]. apply Q. reflexivity.
Qed.

Lemma loop_gfms_sim h h' :
  heap_sim h h' -> forall fuel self p, loop_gfms fuel h' self p = loop_gfms fuel h self p.
Proof.
  intros S. induction fuel as [|f IH]; intros self p; [reflexivity|].
  cbn [loop_gfms]. destruct p as [|c0 p]; [reflexivity|].
  rewrite (get_start_sim h h') by exact S.
  destruct (get_start_node h self (c0 :: p)) as [[cur rest]|]; cbn [bind fst snd]; [|reflexivity].
  destruct (parse_path rest) as [xp|]; cbn [bind]; [|reflexivity].
  destruct (seg_id xp) as [sg|]; [|reflexivity].
  assert (K : match cur with
              | RObj c => do cx <- h_get h' c; obj_children cx
              | _ => Raise AttributeError
              end =
              match cur with
              | RObj c => do cx <- h_get h c; obj_children cx
              | _ => Raise AttributeError
              end).
  { destruct cur as [|c|ms]; try reflexivity.
    destruct (h_get_sim h h' c S) as [(a & b & -> & -> & [Sb _])|[-> ->]]; [|reflexivity].
    cbn [bind]. apply obj_children_sim, Sb. }
  rewrite K. clear K.
  destruct (match cur with RObj c => do cx <- h_get h c; obj_children cx | _ => Raise AttributeError end)
    as [kids|]; cbn [bind]; [|reflexivity].
  destruct (loop_list xp) as [|next rest']; f_equal.
  - induction kids as [|k kids IHk]; [reflexivity|].
    destruct (h_get_sim h h' k S) as [(a & b & -> & -> & Sab)|[-> ->]]; [|reflexivity].
    cbn [bind]. rewrite (seg_typed_sim a b) by apply Sab.
    destruct (is_seg_typed a); [|exact IHk].
    rewrite (match_sim a b _ _ Sab).
    destruct (match o_map a with Some mn => _ | None => _ end) as [[|]|]; cbn [bind]; try reflexivity.
    exact IHk.
  - induction kids as [|k kids IHk]; [reflexivity|].
    destruct (h_get_sim h h' k S) as [(a & b & -> & -> & Sab)|[-> ->]]; [|reflexivity].
    cbn [bind]. rewrite (loop_typed_sim a b) by apply Sab.
    destruct (is_loop_typed a); [|exact IHk].
    rewrite (obj_id_sim a b) by apply Sab.
    destruct (obj_id a) as [i|]; cbn [bind]; [|reflexivity].
    destruct (ostr_eqb i (Some next)); [|exact IHk].
    rewrite IH.
    destruct (loop_gfms f h k (format_path (set_loop_list xp rest'))) as [[t'|]|]; cbn [bind];
      [reflexivity|exact IHk|reflexivity].
Qed.

Lemma seg_gfms_sim h h' self p :
  heap_sim h h' -> seg_gfms h' self p = seg_gfms h self p.
Proof.
  intros S. unfold seg_gfms. rewrite (get_start_sim h h') by exact S.
  destruct (get_start_node h self p) as [[cur rest]|]; cbn [bind fst snd]; [|reflexivity].
  destruct cur as [|c0|ms]; try reflexivity.
  destruct (negb (c0 =? self)).
  - destruct (h_get_sim h h' c0 S) as [(a & b & -> & -> & [Sb _])|[-> ->]]; [|reflexivity].
    cbn [bind]. destruct (sbs_fields _ _ Sb) as (-> & _).
    destruct (o_class a); [reflexivity|]. apply loop_gfms_sim, S.
  - unfold seg_gfms_here. cbn [fst snd].
    destruct (parse_path rest) as [xp|]; cbn [bind]; [|reflexivity].
    destruct (loop_list xp); [|reflexivity].
    assert (G : (do cx <- h_get h' c0;
                 match o_map cx with
                 | None => Raise AttributeError
                 | Some mn =>
                     do v <- mn_view mn;
                     match v, o_seg cx with
                     | MNode (NSeg _), Some sd =>
                         do b <- try_engine (mn_is_match_qual mn (sd_x sd) (seg_id xp) (id_val xp));
                         Ok (if b then Some c0 else None)
                     | _, _ => Raise AttributeError
                     end
                 end) =
                (do cx <- h_get h c0;
                 match o_map cx with
                 | None => Raise AttributeError
                 | Some mn =>
                     do v <- mn_view mn;
                     match v, o_seg cx with
                     | MNode (NSeg _), Some sd =>
                         do b <- try_engine (mn_is_match_qual mn (sd_x sd) (seg_id xp) (id_val xp));
                         Ok (if b then Some c0 else None)
                     | _, _ => Raise AttributeError
                     end
                 end)).
    { destruct (h_get_sim h h' c0 S) as [(a & b & -> & -> & [Sb Q])|[-> ->]]; [|reflexivity].
      cbn [bind]. destruct (sbs_fields _ _ Sb) as (_ & _ & -> & _).
      destruct (o_map a) as [mn|] eqn:Em; [|reflexivity].
      destruct (mn_view mn) as [vw|]; cbn [bind]; [|reflexivity].
      destruct vw as [|[| ]]; try reflexivity.
      destruct (o_seg a), (o_seg b); try contradiction; [|reflexivity].
      rewrite (Q mn _ _ eq_refl). reflexivity. }
    destruct (h_get_sim h h' self S) as [(a & b & -> & -> & [Sb Q])|[-> ->]]; [|reflexivity].
    cbn [bind].
    destruct (ele_idx xp), (seg_id xp); try exact G.
    destruct (o_seg a), (o_seg b); try contradiction; reflexivity.
Qed.

Lemma value_target_sim h h' self p :
  heap_sim h h' -> value_target h' self p = value_target h self p.
Proof.
  intros S. unfold value_target.
  destruct (h_get_sim h h' self S) as [(a & b & -> & -> & [Sb _])|[-> ->]]; [|reflexivity].
  cbn [bind]. destruct (sbs_fields _ _ Sb) as (-> & _).
  destruct (o_class a).
  - rewrite (seg_gfms_sim h h') by exact S. reflexivity.
  - rewrite (get_start_sim h h') by exact S.
    destruct (get_start_node h self p) as [[cur rest]|]; cbn [bind fst snd]; [|reflexivity].
    assert (R : ref_gfms h' cur rest = ref_gfms h cur rest).
    { unfold ref_gfms. destruct cur as [|c|ms]; try reflexivity.
      destruct (h_get_sim h h' c S) as [(a' & b' & -> & -> & [Sb' _])|[-> ->]]; [|reflexivity].
      cbn [bind]. destruct (sbs_fields _ _ Sb') as (-> & _).
      destruct (o_class a'); [apply seg_gfms_sim|apply loop_gfms_sim]; exact S. }
    rewrite R. reflexivity.
Qed.

(* the write does not change how the segment answers the qualifier test *)
Definition qual_stable (ox : dobj) (sd sd' : sdata) : Prop :=
  forall mn si q, o_map ox = Some mn ->
    mn_is_match_qual mn (sd_x sd') si q = mn_is_match_qual mn (sd_x sd) si q.

Theorem set_value_still_resolves :
  forall h h' self p v tgt key ox sd sd',
    node_set_value self p v h = (h', Ok tt) ->
    value_target h self p = Ok (Some (tgt, key)) ->
    nth_error h tgt = Some ox -> o_seg ox = Some sd -> sd_set sd key v = Ok sd' ->
    qual_stable ox sd sd' ->
    forall self2 p2, value_target h' self2 p2 = value_target h self2 p2.
Proof.
  intros h h' self p v tgt key ox sd sd' E T Hox Hs Hset Q self2 p2.
  destruct (set_value_effect _ _ _ _ _ E) as (tgt0 & key0 & ox0 & sd0 & sd0' & T0 & Hox0 & Hs0 & Hset0 & Hox' & L & F).
  rewrite T in T0. injection T0 as <- <-. rewrite Hox in Hox0. injection Hox0 as <-.
  rewrite Hs in Hs0. injection Hs0 as <-. rewrite Hset in Hset0. injection Hset0 as <-.
  apply value_target_sim. intros o. destruct (Nat.eq_dec o tgt) as [->|N].
  - rewrite Hox, Hox'. split; [reflexivity|]. cbn [upd_seg o_seg]. rewrite Hs. exact Q.
  - rewrite (F o N). destruct (nth_error h o); [apply obj_sim_refl|exact I].
Qed.

(* the round trip in one statement *)
Corollary set_then_get_stable :
  forall h h' self p v tgt key ox sd sd' i cj,
    node_set_value self p v h = (h', Ok tt) ->
    value_target h self p = Ok (Some (tgt, key)) ->
    nth_error h tgt = Some ox -> o_seg ox = Some sd -> sd_set sd key v = Ok sd' ->
    refdes_pos (xg_s (sd_x sd)) key i cj ->
    C10_spec.value_ok (xg_d (sd_x sd)) (xg_s (sd_x sd)) i cj v ->
    qual_stable ox sd sd' ->
    node_get_value h' self p = Ok (Some v).
Proof.
  intros h h' self p v tgt key ox sd sd' i cj E T Hox Hs Hset Hpos Hok Q.
  destruct (set_then_get _ _ _ _ _ E) as (tgt0 & key0 & ox0 & sd0 & sd0' & T0 & Hox0 & Hs0 & Hox' & _ & _ & K).
  rewrite T in T0. injection T0 as <- <-. rewrite Hox in Hox0. injection Hox0 as <-.
  rewrite Hs in Hs0. injection Hs0 as <-.
  destruct (K i cj Hpos Hok) as [_ G]. apply G.
  eapply set_value_still_resolves; eauto.
Qed.

(* ================================================================== *)
(* counterexamples: why each hypothesis is there                       *)
Module CE.
Definition s (x : string) : str := list_ascii_of_string x.
Definition e_ (dn : string) (codes : list (option str)) : elem :=
  {| e_id := None; e_data_ele := Some (s dn); e_usage := Some (s "R"); e_name := None; e_seq := 1%Z; e_path := None;
     e_max_use := None; e_res := None; e_rec := None; e_codes := codes; e_external := None |}.
Definition seg_ (id : string) (kids : list sub) : segm :=
  {| s_id := Some (s id); s_path := Some (s id); s_type := None; s_name := None; s_usage := None; s_pos := 1%Z;
     s_max_use := None; s_repeat := None; s_end_tag := None; s_syntax := []; s_children := kids |}.
(* REF01 is a required ID element with codes 1W, EA: the qualifier of REF[..] paths *)
Definition REFm := seg_ "REF" [SubE (e_ "128" [Some (s "1W"); Some (s "EA")]); SubE (e_ "127" [])].
(* map: loop A { REF, loop B { REF } } *)
Definition tmap : xmap :=
  {| m_id := Some (s "T"); m_name := None;
     m_pos_map := [(1%Z, [NLoop (Some (s "A")) None None None 1%Z None
                           [(1%Z, [NSeg REFm]); (2%Z, [NLoop (Some (s "B")) None None None 2%Z None [(1%Z, [NSeg REFm])]])]])];
     m_dataele := [ {| de_num := Some (s "128"); de_type := Some (s "ID"); de_min := 1; de_max := 3; de_name := None |};
                    {| de_num := Some (s "127"); de_type := Some (s "AN"); de_min := 1; de_max := 30; de_name := None |} ];
     m_codes := []; m_exclude := []; m_charset := []; m_icvn := None |}.
Definition mA := {| mn_map := tmap; mn_ref := [0] |}.
Definition mREF := {| mn_map := tmap; mn_ref := [0;0] |}.
Definition mB := {| mn_map := tmap; mn_ref := [0;1] |}.
Definition mBREF := {| mn_map := tmap; mn_ref := [0;1;0] |}.
Definition dl := {| seg_term := "~"; ele_term := "*"; subele_term := ":" |}.
Definition xs (t : string) : xsg := {| xg_d := dl; xg_s := parse_seg dl (s t) |}.

(* 0 = loop A (a root) [ 1 = REF*1W*X ; 2 = REF*EA*Y ; 3 = loop B [ 4 = REF*EA*Z ] ] *)
Definition h0 : heap :=
  [ upd_children (new_loop (Some mA) [] RNone) [1;2;3];
    new_seg (Some mREF) (xs "REF*1W*X~") (RObj 0) [] [];
    new_seg (Some mREF) (xs "REF*EA*Y~") (RObj 0) [] [];
    upd_children (new_loop (Some mB) [] (RObj 0)) [4];
    new_seg (Some mBREF) (xs "REF*EA*Z~") (RObj 3) [] [] ].

(* LAW 3: the copy of a loop that HAS a parent keeps that parent, and a "../" path climbs through it
   into the original tree: set_value on the copy's root rewrites a segment of the original. *)
Example copy_with_parent_escapes :
  exists h' h'',
    copy_node 3 h0 = (h', Ok 5) /\
    node_set_value 5 (s "../REF02") (s "Q") h' = (h'', Ok tt) /\
    node_get_value h' 0 (s "REF02") = Ok (Some (s "X")) /\
    node_get_value h'' 0 (s "REF02") = Ok (Some (s "Q")).
Proof. eexists. eexists. split; [vm_compute; reflexivity|]. split; [vm_compute; reflexivity|]. split; vm_compute; reflexivity. Qed.

(* LAW 1, qualified path: writing the qualifier element itself makes the path miss the segment *)
Example set_qualifier_then_get_misses :
  exists h', node_set_value 0 (s "REF[1W]01") (s "EA") h0 = (h', Ok tt) /\
             value_target h0 0 (s "REF[1W]01") = Ok (Some (1, s "REF01")) /\
             value_target h' 0 (s "REF[1W]01") = Ok None /\
             node_get_value h' 0 (s "REF[1W]01") = Ok None.
Proof. eexists. split; [vm_compute; reflexivity|]. split; [vm_compute; reflexivity|]. split; vm_compute; reflexivity. Qed.

(* LAW 1, value: a value ending in the sub-element separator loses it (Composite.format drops
   trailing empty components) *)
Example set_value_trailing_separator :
  exists h', node_set_value 0 (s "REF02") (s "a:b:") h0 = (h', Ok tt) /\
             node_get_value h' 0 (s "REF02") = Ok (Some (s "a:b")).
Proof. eexists. split; vm_compute; reflexivity. Qed.

(* LAW 1, ISA16 with a component number: Segment.set ignores the component number there and
   replaces the whole element, get_value then looks for the component *)
Definition isa : sdata :=
  mk_sdata (xs "ISA*00*          *00*          *ZZ*A              *ZZ*B              *030101*1253*U*00401*000000905*1*T*:~").
Example isa16_component :
  exists sd', sd_set isa (s "ISA16-2") (s "x") = Ok sd' /\ sd_get_value sd' (s "ISA16-2") = Ok None.
Proof. eexists. split; vm_compute; reflexivity. Qed.
Example isa16_trailing_separator :
  exists sd', sd_set isa (s "ISA16") (s "a*") = Ok sd' /\ sd_get_value sd' (s "ISA16") = Ok (Some (s "a")).
Proof. eexists. split; vm_compute; reflexivity. Qed.

(* LAW 1, element number 00 (Python index -1, the last element): outside refdes_pos, so not covered
   by set_then_get; on a segment node the write and the read both address the last element *)
Example element_00_is_last :
  exists h', node_set_value 1 (s "REF00") (s "K") h0 = (h', Ok tt) /\
             node_get_value h' 1 (s "REF00") = Ok (Some (s "K")) /\
             node_get_value h' 1 (s "REF02") = Ok (Some (s "K")).
Proof. eexists. split; [vm_compute; reflexivity|]. split; vm_compute; reflexivity. Qed.
(* on a loop node the designator is re-printed without the 00 and Segment.set raises *)
Example element_00_on_loop : snd (node_set_value 0 (s "REF00") (s "K") h0) = Raise TypeError.
Proof. vm_compute; reflexivity. Qed.

(* LAW 2: count and exists do not run the assertions of select.  A child whose `parent` is None:
   count = 1, exists = True, but select and first raise AssertionError. *)
Definition h2 : heap :=
  [ upd_children (new_loop (Some mA) [] RNone) [1];
    new_seg (Some mREF) (xs "REF*1W*X~") RNone [] [] ].
Example count_without_select :
  node_count h2 0 (s "REF") = Ok 1 /\ node_exists h2 0 (s "REF") = Ok true /\
  g_all (node_select h2 0 (s "REF")) = Raise OtherError /\ node_first h2 0 (s "REF") = Raise OtherError.
Proof. repeat split; vm_compute; reflexivity. Qed.

(* LAW 3, looks the same: a `children` list naming an object that does not exist (yet).  The copy
   allocates its root at exactly that index, finds it there, and succeeds; iterating the original
   raises. *)
Definition h3 : heap := [ upd_children (new_loop (Some mA) [] RNone) [1] ].
Example dangling_child :
  exists h', copy_node 0 h3 = (h', Ok 1) /\
             node_iterate_segments h' 1 = ([], None) /\
             node_iterate_segments h3 0 = ([], Some OtherError).
Proof. eexists. split; [vm_compute; reflexivity|]. split; vm_compute; reflexivity. Qed.
End CE.

(* ================================================================== *)
(* LAW 3, one more consequence: delete_node on a node of a detached copy *)

Lemma g_flat_in {A B} (f : A -> gtrace B) xs y :
  In y (fst (g_flat f xs)) -> exists x, In x xs /\ In y (fst (f x)).
Proof.
  induction xs as [|x xs IH]; cbn [g_flat]; [intros []|].
  destruct (f x) as [ys [e|]] eqn:Ef; cbn [fst].
  - intros Hy. exists x. split; [left; reflexivity|]. rewrite Ef. exact Hy.
  - intros Hy. apply in_app_or in Hy as [Hy|Hy].
    + exists x. split; [left; reflexivity|]. rewrite Ef. exact Hy.
    + destruct (IH Hy) as (x' & Hx' & Hy'). exists x'. split; [right; exact Hx'|exact Hy'].
Qed.

Lemma live_of_in h cs kids c cx : live_of h cs = Ok kids -> In (c, cx) kids -> In c cs.
Proof.
  revert kids. induction cs as [|k cs IH]; intros kids E Hin.
  - cbn in E. injection E as <-. destruct Hin.
  - cbn [live_of] in E. destruct (h_get h k) as [kx|]; cbn [bind] in E; [|discriminate].
    destruct (live_of h cs) as [more|]; cbn [bind] in E; [|discriminate]. injection E as <-.
    destruct (o_live kx).
    + destruct Hin as [Hin|Hin]; [injection Hin as <- _; left; reflexivity|right; eapply IH; eauto].
    + right; eapply IH; eauto.
Qed.

Lemma g_of_result_in {A} (r : result (gtrace A)) y :
  In y (fst (g_of_result r)) -> exists t, r = Ok t /\ In y (fst t).
Proof. destruct r as [t|e]; cbn; [eauto|intros []]. Qed.

Lemma loop_select_confined n h :
  confined n h -> forall ll xp o k, n <= o -> In k (fst (loop_select h ll xp o)) -> n <= k.
Proof.
  intros C. induction ll as [|cur rest IH]; intros xp o k Ho Hin.
  - cbn [loop_select] in Hin. apply g_of_result_in in Hin as (t & Et & Hin).
    destruct (h_get h o) as [x|] eqn:Ex; cbn [bind] in Et; [|discriminate]. apply h_get_some in Ex.
    destruct (live_of h (o_children x)) as [kids|] eqn:El; cbn [bind] in Et; [|discriminate].
    injection Et as <-. apply g_flat_in in Hin as ([c cx] & Hc & Hin).
    assert (n <= c) as Hn.
    { destruct C as [Cc _]. eapply Cc; [exact Ho|exact Ex|]. eapply live_of_in; eauto. }
    destruct (is_seg_typed cx).
    + destruct (match o_map cx with Some mn => _ | None => _ end) as [[|]|]; cbn in Hin;
        try contradiction. destruct Hin as [<-|[]]. exact Hn.
    + destruct (obj_id cx) as [i|]; cbn in Hin; [|contradiction].
      destruct (ostr_eqb i (seg_id xp)); cbn in Hin; [|contradiction]. destruct Hin as [<-|[]]. exact Hn.
  - cbn [loop_select] in Hin. apply g_of_result_in in Hin as (t & Et & Hin).
    destruct (h_get h o) as [x|] eqn:Ex; cbn [bind] in Et; [|discriminate]. apply h_get_some in Ex.
    destruct (live_of h (o_children x)) as [kids|] eqn:El; cbn [bind] in Et; [|discriminate].
    injection Et as <-. apply g_flat_in in Hin as ([c cx] & Hc & Hin).
    assert (n <= c) as Hn.
    { destruct C as [Cc _]. eapply Cc; [exact Ho|exact Ex|]. eapply live_of_in; eauto. }
    destruct (obj_id cx) as [i|]; cbn [fst g_fail] in Hin; [|contradiction].
    destruct (ostr_eqb i (Some cur)); [|contradiction].
    assert (G : In k (fst (match parse_path (format_path (set_loop_list xp (cur :: rest))) with
                           | Raise e => g_fail e
                           | Ok cp => match o_class cx with
                                      | CSeg => g_nil
                                      | CLoop => loop_select h rest (set_loop_list cp rest) c
                                      end
                           end)) -> n <= k).
    { intros G. destruct (parse_path _) as [cp|]; [|contradiction].
      destruct (o_class cx); [contradiction|]. eapply IH; eauto. }
    destruct rest as [|r1 rest']; [|exact (G Hin)].
    destruct (seg_id xp); [exact (G Hin)|]. destruct Hin as [<-|[]]. exact Hn.
Qed.

Lemma select_from_confined n h x p xp t k :
  confined n h -> n <= x -> select_from h x p = Ok (xp, t) -> In k (fst t) -> n <= k.
Proof.
  intros C Hx E Hin. unfold select_from in E.
  destruct (get_start_node h x p) as [[cur rest]|] eqn:Es; cbn [bind] in E; [|discriminate].
  pose proof (get_start_confined _ _ _ _ _ _ C Hx Es) as Hcur. cbn [fst snd] in E.
  destruct (parse_path rest) as [xp0|]; cbn [bind] in E; [|discriminate]. injection E as <- <-.
  unfold ref_select in Hin. destruct cur as [|c0|ms]; try contradiction.
  destruct (h_get h c0) as [cx|]; [|contradiction].
  destruct (o_class cx); [contradiction|]. eapply loop_select_confined; eauto.
Qed.

Theorem copy_delete_node_independent :
  forall h h' o c ox x p h'' r,
    copy_node o h = (h', Ok c) -> nth_error h o = Some ox -> (forall y, o_parent ox <> RObj y) ->
    reachable_children h' c x ->
    delete_node x p h' = (h'', r) ->
    same_below (length h) h' h''.
Proof.
  intros h h' o c ox x p h'' r E Hox Hp Rx D.
  pose proof (copy_confined _ _ _ _ _ E Hox Hp) as C.
  destruct (copy_is_fresh _ _ _ _ E) as (_ & _ & R & _). apply R in Rx.
  unfold delete_node in D.
  apply h_bind_inv in D as [(h1 & me & D1 & D)|(e & D1 & ->)].
  2:{ unfold loop_self in D1. apply h_bind_inv in D1 as [(h2 & me & D1 & D2)|(e' & D1 & _)].
      - rewrite h_obj_eq in D1. injection D1 as <- _.
        destruct (o_class me); [rewrite h_raise_eq in D2|rewrite h_ret_eq in D2]; injection D2 as <- _; intros k Hk; reflexivity.
      - rewrite h_obj_eq in D1. injection D1 as <- _. intros k Hk; reflexivity. }
  assert (h1 = h') as ->.
  { unfold loop_self in D1. apply h_bind_inv in D1 as [(h2 & me' & D1 & D2)|(e' & D1 & K)]; [|discriminate].
    rewrite h_obj_eq in D1. injection D1 as <- _.
    destruct (o_class me'); [rewrite h_raise_eq in D2|rewrite h_ret_eq in D2]; injection D2 as <- _; reflexivity. }
  apply h_bind_inv in D as [(h1 & [xp t] & D2 & D)|(e & D2 & ->)].
  2:{ rewrite h_read_eq in D2. injection D2 as <- _. intros k Hk; reflexivity. }
  rewrite h_read_eq in D2. injection D2 as <- D2.
  apply h_bind_inv in D as [(h1 & f & D3 & D)|(e & D3 & ->)].
  2:{ rewrite h_lift_eq in D3. injection D3 as <- _. intros k Hk; reflexivity. }
  rewrite h_lift_eq in D3. injection D3 as <- D3. cbn [snd] in D3.
  destruct f as [nd|]; [|rewrite h_ret_eq in D; injection D as <- _; intros k Hk; reflexivity].
  assert (length h <= nd) as Hnd.
  { eapply select_from_confined; [exact C| |exact D2|]; [lia|].
    destruct t as [[|y ys] tl]; cbn in D3.
    - destruct tl; discriminate.
    - injection D3 as <-. left; reflexivity. }
  assert (forall hh rr, node_delete nd h' = (hh, rr) -> same_below (length h) h' hh) as ND.
  { intros hh rr N. unfold node_delete in N. rewrite h_mod_eq in N.
    intros k Hk. destruct (nth_error h' nd); injection N as <- _; [|reflexivity].
    apply nth_error_set_nth_other. lia. }
  apply h_bind_inv in D as [(h1 & u & D4 & D)|(e & D4 & ->)]; [|eapply ND; eauto].
  rewrite h_ret_eq in D. injection D as <- _. eapply ND; eauto.
Qed.

(* ================================================================== *)
(* LAW 3, the copy looks the same: iterate_segments on the copy yields, in the same order, what it
   yields on the original, with the segment data re-parsed (Segment.copy) and without the counters *)

Definition mp (a : dobj) : dobj := upd_parent a RNone.      (* an object without its parent pointer *)

Definition agree_from (n : nat) (h1 h2 : heap) : Prop :=
  forall x a, n <= x -> nth_error h1 x = Some a -> exists b, nth_error h2 x = Some b /\ mp b = mp a.

Lemma agree_refl n h : agree_from n h h.
Proof. intros x a _ E. eauto. Qed.
Lemma agree_trans n a b c : agree_from n a b -> agree_from n b c -> agree_from n a c.
Proof.
  intros A B x o Hx E. destruct (A x o Hx E) as (o' & E' & M). destruct (B x o' Hx E') as (o'' & E'' & M').
  exists o''. split; [exact E''|congruence].
Qed.
Lemma agree_mono n m a b : n <= m -> agree_from n a b -> agree_from m a b.
Proof. intros L A x o Hx E. apply A; [lia|exact E]. Qed.
Lemma agree_grows n a b : grows a b -> agree_from n a b.
Proof.
  intros [L P] x o _ E. exists o. split; [|reflexivity]. rewrite P; [exact E|].
  apply nth_error_Some. congruence.
Qed.
Lemma agree_set_parent n h k y p :
  nth_error h k = Some y -> agree_from n h (set_nth h k (upd_parent y p)).
Proof.
  intros Ey x a _ E. rewrite nth_error_set_nth. destruct (Nat.eqb_spec x k) as [->|N].
  - rewrite Ey. rewrite Ey in E. injection E as <-. eexists. split; reflexivity.
  - eauto.
Qed.
Lemma agree_set_below n h k v : k < n -> agree_from n h (set_nth h k v).
Proof. intros L x a Hx E. exists a. split; [|reflexivity]. rewrite nth_error_set_nth_other by lia. exact E. Qed.

Lemma mp_fields a b :
  mp b = mp a ->
  o_class b = o_class a /\ o_live b = o_live a /\ o_map b = o_map a /\ o_seg b = o_seg a /\
  o_children b = o_children a /\ o_seg_count b = o_seg_count a /\ o_cur_line b = o_cur_line a.
Proof. unfold mp, upd_parent. intros H. injection H. intros. repeat split; assumption. Qed.

Lemma iter_S f h o :
  iter_segments_tr (S f) h o =
  g_of_result (
    do x <- h_get h o;
    match o_class x with
    | CLoop => do kids <- live_of h (o_children x);
               Ok (g_flat (fun cx : oid * dobj => iter_segments_tr f h (fst cx)) kids)
    | CSeg =>
        match o_map x with
        | None => Raise AttributeError
        | Some mn =>
            do i <- mn_id mn;
            do xp <- mn_x12path mn;
            Ok (g_one {| it_id := i; it_path := xp; it_node := o; it_seg := o_seg x;
                         it_seg_count := o_seg_count x; it_cur_line := o_cur_line x |})
        end
    end).
Proof. reflexivity. Qed.

Lemma g_flat_fst {A B C} (F : A -> gtrace C) (kids : list (A * B)) :
  g_flat (fun cx => F (fst cx)) kids = g_flat F (map fst kids).
Proof.
  induction kids as [|[a b] kids IH]; [reflexivity|]. cbn [g_flat map fst].
  destruct (F a) as [ys [e|]]; [reflexivity|]. rewrite IH. reflexivity.
Qed.

Lemma g_flat_same {A B} (F : A -> gtrace seg_item) (G : B -> gtrace seg_item) xs ys :
  Forall2 (fun a b => iter_same_as_copy (G b) (F a)) xs ys ->
  iter_same_as_copy (g_flat G ys) (g_flat F xs).
Proof.
  induction 1 as [|a b xs ys [Hv Ht] _ IH]; [split; reflexivity|].
  cbn [g_flat]. destruct (G b) as [gs ge], (F a) as [fs fe]. cbn [fst snd] in Hv, Ht. subst ge.
  destruct fe as [e|]; [split; [exact Hv|reflexivity]|].
  destruct IH as [IHv IHt]. split; cbn [fst snd]; [|exact IHt].
  rewrite !map_app. rewrite Hv, IHv. reflexivity.
Qed.

(* live_of on a list of live objects *)
Lemma live_of_all_live h ks :
  (forall k, In k ks -> exists b, nth_error h k = Some b /\ o_live b = true) ->
  exists kids, live_of h ks = Ok kids /\ map fst kids = ks.
Proof.
  induction ks as [|k ks IH]; intros L; [exists []; split; reflexivity|].
  destruct (L k (or_introl eq_refl)) as (b & Eb & Lb).
  destruct IH as (kids & Ek & Mk); [intros; apply L; right; assumption|].
  exists ((k, b) :: kids). cbn [live_of]. unfold h_get. rewrite Eb. cbn [bind]. rewrite Ek. cbn [bind].
  rewrite Lb. split; [reflexivity|]. cbn [map fst]. rewrite Mk. reflexivity.
Qed.

Lemma Forall2_right_in {A B} (P : A -> B -> Prop) xs ys y :
  Forall2 P xs ys -> In y ys -> exists x, P x y.
Proof.
  induction 1 as [|a b xs ys Hab _ IH]; [intros []|]. intros [<-|Hin]; [eauto|apply IH, Hin].
Qed.

Lemma Forall2_imp {A B} (P Q : A -> B -> Prop) xs ys :
  (forall a b, P a b -> Q a b) -> Forall2 P xs ys -> Forall2 Q xs ys.
Proof. intros I. induction 1; constructor; auto. Qed.

Definition copy_looks (f : nat) (h0 : heap) (o : oid) (h' : heap) (c : oid) : Prop :=
  forall hfin f', f <= f' -> agree_from c h' hfin ->
    iter_same_as_copy (iter_segments_tr f' hfin c) (iter_segments_tr f h0 o).

Definition looks_post (f : nat) (h0 : heap) (o : oid) (h h' : heap) (c : oid) : Prop :=
  copy_looks f h0 o h' c /\ c = length h /\ grows h h' /\
  exists b, nth_error h' c = Some b /\ o_live b = true.

Lemma copy_kids_looks (rec : oid -> H oid) ret f h0 :
  (forall k h h' c', grows h0 h -> k < length h0 -> rec k h = (h', Ok c') -> looks_post f h0 k h h' c') ->
  forall cs hc hf ks,
    grows h0 hc -> (forall k, In k cs -> k < length h0) -> ret < length hc ->
    copy_kids rec ret cs hc = (hf, Ok ks) ->
    grows hc hf /\
    exists kids, live_of h0 cs = Ok kids /\
      Forall2 (fun k k' => copy_looks f h0 k hf k' /\ ret < k' /\
                           exists b, nth_error hf k' = Some b /\ o_live b = true) (map fst kids) ks.
Proof.
  intros IH. induction cs as [|c cs IHcs]; intros hc hf ks G0 Hcs Hret E.
  - cbn [copy_kids] in E. rewrite h_ret_eq in E. injection E as <- <-.
    split; [apply grows_refl|]. exists []. split; [reflexivity|constructor].
  - cbn [copy_kids] in E. fold (copy_kids rec ret) in E.
    apply h_bind_inv in E as [(h1 & cx & E1 & E)|(e & _ & K)]; [|discriminate].
    rewrite h_obj_eq in E1. injection E1 as <- E1.
    assert (Hc : c < length h0) by (apply Hcs; left; reflexivity).
    assert (E0 : h_get h0 c = Ok cx).
    { apply h_get_some. apply h_get_some in E1. destruct G0 as [_ GP]. rewrite <- GP by exact Hc. exact E1. }
    cbn [live_of]. rewrite E0. cbn [bind].
    destruct (o_live cx) eqn:Lcx; cbn [negb] in E.
    2:{ destruct (IHcs hc hf ks G0) as (G & kids & Ek & F); auto; [intros; apply Hcs; right; assumption|].
        split; [exact G|]. exists kids. rewrite Ek. cbn [bind]. split; [reflexivity|exact F]. }
    apply h_bind_inv in E as [(h1 & c' & E2 & E)|(e & _ & K)]; [|discriminate].
    destruct (IH _ _ _ _ G0 Hc E2) as (Lk & -> & G1 & b1 & Eb1 & Lb1).
    apply h_bind_inv in E as [(h2 & u & E3 & E)|(e & _ & K)]; [|discriminate].
    rewrite h_mod_eq, Eb1 in E3. injection E3 as <- _.
    set (h2 := set_nth h1 (length hc) (upd_parent b1 (RObj ret))) in *.
    assert (G2 : grows hc h2) by (apply grows_set_nth'; [exact G1|lia]).
    apply h_bind_inv in E as [(h3 & more & E4 & E)|(e & _ & K)]; [|discriminate].
    rewrite h_ret_eq in E. injection E as <- <-.
    destruct (IHcs h2 h3 more) as (G3 & kids & Ek & F); auto.
    { eapply grows_trans; eauto. }
    { intros; apply Hcs; right; assumption. }
    { destruct G2; lia. }
    split; [eapply grows_trans; eauto|].
    exists ((c, cx) :: kids). rewrite Ek. cbn [bind map fst]. split; [reflexivity|].
    constructor; [|exact F].
    assert (A13 : agree_from (length hc) h1 h3).
    { eapply agree_trans; [apply (agree_set_parent _ _ _ _ (RObj ret) Eb1)|]. apply agree_grows, G3. }
    split; [|split; [lia|]].
    + intros hfin f' Hf A. apply Lk; [exact Hf|]. eapply agree_trans; eauto.
    + destruct (A13 (length hc) b1 (le_n _) Eb1) as (b3 & Eb3 & M).
      exists b3. split; [exact Eb3|]. destruct (mp_fields _ _ M) as (_ & -> & _). exact Lb1.
Qed.

Lemma node_copy_looks h0 :
  heap_wf h0 ->
  forall f o h h' c, grows h0 h -> o < length h0 -> node_copy f o h = (h', Ok c) ->
  looks_post f h0 o h h' c.
Proof.
  intros W. induction f as [|f IH]; intros o h h' c G0 Ho E; [discriminate|].
  pose proof E as Epost. apply node_copy_inv in Epost as [Gh Ppost].
  destruct (Ppost c eq_refl) as (Hc & Lc & _ & _). clear Ppost.
  rewrite node_copy_S in E.
  apply h_bind_inv in E as [(h1 & x & E1 & E)|(e & _ & K)]; [|discriminate].
  rewrite h_obj_eq in E1. injection E1 as <- E1.
  assert (E0 : h_get h0 o = Ok x).
  { apply h_get_some. apply h_get_some in E1. destruct G0 as [_ GP]. rewrite <- GP by exact Ho. exact E1. }
  destruct (o_class x) eqn:Cx.
  - (* segment *)
    destruct (o_seg x) as [sd|] eqn:Sx; [|discriminate].
    rewrite h_new_eq in E. injection E as <- <-.
    set (ns := new_seg (o_map x) (sd_x (sd_copy sd)) (o_parent x) (o_start x) (o_end x)).
    assert (En : nth_error (h ++ [ns]) (length h) = Some ns).
    { rewrite nth_error_app2, Nat.sub_diag by lia. reflexivity. }
    split; [|split; [reflexivity|split; [exact Gh|exists ns; split; [exact En|reflexivity]]]].
    intros hfin f' Hf A. destruct f' as [|f']; [lia|].
    destruct (A (length h) ns (le_n _) En) as (b & Eb & M).
    destruct (mp_fields _ _ M) as (Cb & _ & Mb & Sb & _ & SCb & CLb).
    rewrite !iter_S. unfold h_get at 1. rewrite Eb. rewrite E0. cbn [bind]. rewrite Cb, Cx. cbn [ns new_seg o_class].
    rewrite Mb. cbn [ns new_seg o_map].
    destruct (o_map x) as [mn|]; [|split; reflexivity].
    destruct (mn_id mn) as [i|]; cbn [bind]; [|split; reflexivity].
    destruct (mn_x12path mn) as [xp|]; cbn [bind]; [|split; reflexivity].
    split; [|reflexivity]. cbn [g_of_result g_one fst map]. unfold item_view, item_view_copied. cbn.
    rewrite Sb, SCb, CLb, Sx. reflexivity.
  - (* loop *)
    apply h_bind_inv in E as [(h1 & ret & E2 & E)|(e & _ & K)]; [|discriminate].
    rewrite h_new_eq in E2. injection E2 as <- <-.
    set (nl := new_loop (o_map x) (o_end x) (o_parent x)) in *.
    set (h1 := h ++ [nl]) in *.
    assert (G1 : grows h h1) by apply grows_app.
    assert (L1 : length h1 = S (length h)) by (unfold h1; rewrite app_length; cbn; lia).
    assert (N1 : nth_error h1 (length h) = Some nl).
    { unfold h1. rewrite nth_error_app2, Nat.sub_diag by lia. reflexivity. }
    apply h_bind_inv in E as [(h2 & ks & E3 & E)|(e & _ & K)]; [|discriminate].
    eapply (copy_kids_looks (node_copy f) (length h) f h0) in E3 as (G2 & kids & Ek & F).
    2:{ intros k hk hk' c' Gk Hk Ekk. eapply IH; eauto. }
    2:{ eapply grows_trans; eauto. }
    2:{ intros k Hin. apply h_get_some in E0. eapply W; eauto. }
    2:{ lia. }
    assert (N2 : nth_error h2 (length h) = Some nl).
    { destruct G2 as [_ GP]. rewrite GP by lia. exact N1. }
    apply h_bind_inv in E as [(h3 & u & E4 & E)|(e & _ & K)]; [|discriminate].
    rewrite h_mod_eq, N2 in E4. injection E4 as <- _.
    rewrite h_ret_eq in E. injection E as <- <-.
    set (h3 := set_nth h2 (length h) (upd_children nl ks)) in *.
    assert (N3 : nth_error h3 (length h) = Some (upd_children nl ks)).
    { unfold h3. eapply nth_error_set_nth_same; eauto. }
    split; [|split; [reflexivity|split; [exact Gh|exists (upd_children nl ks); split; [exact N3|reflexivity]]]].
    intros hfin f' Hf A. destruct f' as [|f']; [lia|].
    destruct (A (length h) _ (le_n _) N3) as (b & Eb & M).
    destruct (mp_fields _ _ M) as (Cb & _ & _ & _ & Kb & _).
    rewrite !iter_S. unfold h_get at 1. rewrite Eb. rewrite E0. cbn [bind]. rewrite Cb, Cx, Kb.
    cbn [upd_children nl new_loop o_class o_children].
    rewrite Ek. cbn [bind].
    (* the children of the copy are all live in hfin *)
    assert (Lv : forall k', In k' ks -> exists b', nth_error hfin k' = Some b' /\ o_live b' = true).
    { intros k' Hin. destruct (Forall2_right_in _ _ _ _ F Hin) as (k0 & _ & Hk & b2 & Eb2 & Lb2).
      assert (nth_error h3 k' = Some b2) as Eb3.
      { unfold h3. rewrite nth_error_set_nth_other by lia. exact Eb2. }
      destruct (A k' b2 ltac:(lia) Eb3) as (b' & Eb' & M').
      exists b'. split; [exact Eb'|]. destruct (mp_fields _ _ M') as (_ & -> & _). exact Lb2. }
    destruct (live_of_all_live hfin ks Lv) as (kids' & Ek' & Mk').
    rewrite Ek'. cbn [bind g_of_result].
    rewrite (g_flat_fst (iter_segments_tr f' hfin)), (g_flat_fst (iter_segments_tr f h0)), Mk'.
    apply g_flat_same.
    eapply Forall2_imp; [|exact F]. intros k0 k0' (Lk & Hk & _).
    apply Lk; [lia|]. eapply agree_trans; [apply (agree_set_below _ h2 (length h)); lia|].
    fold h3. eapply agree_mono; [|exact A]. lia.
Qed.

Theorem copy_looks_the_same :
  forall h h' o c, heap_wf h -> copy_node o h = (h', Ok c) ->
    iter_same_as_copy (node_iterate_segments h' c) (node_iterate_segments h o).
Proof.
  intros h h' o c W E. unfold copy_node in E.
  assert (Ho : o < length h).
  { rewrite node_copy_S in E. apply h_bind_inv in E as [(h1 & x & E1 & _)|(e & _ & K)]; [|discriminate].
    rewrite h_obj_eq in E1. injection E1 as _ E1. apply h_get_some in E1. apply nth_error_Some. congruence. }
  destruct (node_copy_looks h W _ _ _ _ _ (grows_refl h) Ho E) as (Lk & _ & [GL _] & _).
  unfold node_iterate_segments. apply Lk; [lia|apply agree_refl].
Qed.

(* ================================================================== *)
(* LAW 1: a static condition under which the path keeps resolving.  The qualifier test reads
   elements 01, 02 (ENT), 03 (HL) and component 01-1 only: a write to element 04 or later of a
   segment that already has three elements never changes it. *)

Lemma set_ix_keeps_low d s i cj v s' k :
  set_ix d s (Some (Z.of_nat i), option_map Z.of_nat cj) v = Ok s' -> k < i -> k < length (els s) ->
  nth k (els s') [] = nth k (els s) [].
Proof.
  intros E Hk Hl.
  assert (G : forall X es', py_set (pad_to (els s) (Z.of_nat i) [[]]) (Z.of_nat i) X = Ok es' ->
                            nth k es' [] = nth k (els s) []).
  { intros X es' P. rewrite py_set_nat in P by apply pad_lt. injection P as <-.
    rewrite nth_set_nth by apply pad_lt.
    assert (k =? i = false) as -> by (apply Nat.eqb_neq; lia).
    rewrite nth_pad_to. assert (k <? length (els s) = true) as -> by (apply Nat.ltb_lt; lia). reflexivity. }
  unfold set_ix in E. cbn [fst snd] in E.
  destruct (_ && _).
  - destruct (py_set _ _ _) eqn:P; cbn [bind] in E; [|discriminate]. injection E as <-. eapply G; exact P.
  - destruct cj as [j|]; cbn [option_map] in E.
    + destruct (py_nth _ _) as [c|]; cbn [bind] in E; [|discriminate].
      destruct (py_set (pad_to c _ _) _ _) as [c''|]; cbn [bind] in E; [|discriminate].
      destruct (py_set _ _ _) eqn:P; cbn [bind] in E; [|discriminate]. injection E as <-. eapply G; exact P.
    + destruct (py_set _ _ _) eqn:P; cbn [bind] in E; [|discriminate]. injection E as <-. eapply G; exact P.
Qed.

Lemma seg_is_match_qual_low d de n s s' si q :
  3 <= length (els s) -> 3 <= length (els s') ->
  (forall k, k < 3 -> nth k (els s') [] = nth k (els s) []) ->
  seg_is_match_qual d de n s' si q = seg_is_match_qual d de n s si q.
Proof.
  intros L L' N.
  assert (V : forall k, 1 <= k <= 3 -> seg_val d s' k = seg_val d s k).
  { intros [|k] Hk; [lia|]. unfold seg_val.
    assert (length (els s') <=? k = false) as -> by (apply Nat.leb_gt; lia).
    assert (length (els s) <=? k = false) as -> by (apply Nat.leb_gt; lia).
    rewrite N by lia. reflexivity. }
  assert (SV : seg_subval s' 1 1 = seg_subval s 1 1).
  { unfold seg_subval.
    assert (length (els s') <=? 0 = false) as -> by (apply Nat.leb_gt; lia).
    assert (length (els s) <=? 0 = false) as -> by (apply Nat.leb_gt; lia).
    rewrite N by lia. reflexivity. }
  unfold seg_is_match_qual. rewrite (V 1), (V 2), (V 3), SV by lia. reflexivity.
Qed.

Theorem qual_stable_from_04 :
  forall ox sd sd' key v i cj,
    refdes_pos (xg_s (sd_x sd)) key i cj -> sd_set sd key v = Ok sd' ->
    3 <= i -> 3 <= seg_len (xg_s (sd_x sd)) ->
    qual_stable ox sd sd'.
Proof.
  intros ox sd sd' key v i cj Hpos E Hi Hl mn si q _.
  unfold sd_set in E. unfold refdes_pos in Hpos. rewrite Hpos in E. cbn [bind] in E.
  destruct (set_ix _ _ _ v) as [s'|] eqn:Es; cbn [bind] in E; [|discriminate].
  injection E as <-. cbn [sd_x].
  destruct (set_extends _ _ _ _ _ _ Es) as [Hlen _]. unfold seg_len in *.
  unfold mn_is_match_qual. destruct (mn_view mn) as [[|[| sn]]|]; cbn [bind]; try reflexivity.
  cbn [xg_d xg_s]. apply seg_is_match_qual_low; [exact Hl|lia|].
  intros k Hk. eapply set_ix_keeps_low; [exact Es|lia|lia].
Qed.

Corollary set_then_get_from_04 :
  forall h h' self p v tgt key ox sd i cj,
    node_set_value self p v h = (h', Ok tt) ->
    value_target h self p = Ok (Some (tgt, key)) ->
    nth_error h tgt = Some ox -> o_seg ox = Some sd ->
    refdes_pos (xg_s (sd_x sd)) key i cj ->
    C10_spec.value_ok (xg_d (sd_x sd)) (xg_s (sd_x sd)) i cj v ->
    3 <= i -> 3 <= seg_len (xg_s (sd_x sd)) ->
    node_get_value h' self p = Ok (Some v).
Proof.
  intros h h' self p v tgt key ox sd i cj E T Hox Hs Hpos Hok Hi Hl.
  destruct (set_value_effect _ _ _ _ _ E) as (tgt0 & key0 & ox0 & sd0 & sd' & T0 & Hox0 & Hs0 & Hset & _).
  rewrite T in T0. injection T0 as <- <-. rewrite Hox in Hox0. injection Hox0 as <-.
  rewrite Hs in Hs0. injection Hs0 as <-.
  eapply set_then_get_stable; eauto. eapply qual_stable_from_04; eauto.
Qed.

(* ================================================================== *)
(* the object a value path addresses is the one get_first_matching_segment finds *)

Definition gfms_body (rec : oid -> str -> result (option oid)) (h : heap) (cp : pyref * str)
  : result (option oid) :=
  do xp <- parse_path (snd cp);
  match seg_id xp with
  | None => Ok None
  | Some _ =>
      do kids <- (match fst cp with
                  | RObj c => do cx <- h_get h c; obj_children cx
                  | _ => Raise AttributeError
                  end);
      match loop_list xp with
      | [] =>
          try_engine (
            (fix go (cs : list oid) : result (option oid) :=
               match cs with
               | [] => Ok None
               | c :: r =>
                   do cx <- h_get h c;
                   if is_seg_typed cx then
                     do b <- (match o_map cx, o_seg cx with
                              | Some mn, Some sd => mn_is_match_qual mn (sd_x sd) (seg_id xp) (id_val xp)
                              | _, _ => Raise AttributeError
                              end);
                     if b then Ok (Some c) else go r
                   else go r
               end) kids)
      | next :: rest =>
          try_engine (
            (fix go (cs : list oid) : result (option oid) :=
               match cs with
               | [] => Ok None
               | c :: r =>
                   do cx <- h_get h c;
                   if is_loop_typed cx then
                     do i <- obj_id cx;
                     if ostr_eqb i (Some next) then
                       (do res <- rec c (format_path (set_loop_list xp rest));
                        match res with Some t => Ok (Some t) | None => go r end)
                     else go r
                   else go r
               end) kids)
      end
  end.

Lemma loop_gfms_S f h self p :
  loop_gfms (S f) h self p =
  match p with
  | [] => Raise X12PathError
  | _ => do cp <- get_start_node h self p; gfms_body (loop_gfms f h) h cp
  end.
Proof. destruct p; reflexivity. Qed.

Lemma try_engine_some {A} (r : result (option A)) t : r = Ok (Some t) -> try_engine r = Ok (Some t).
Proof. intros ->. reflexivity. Qed.

Lemma try_engine_ok_any {A} (r : result A) a : r = Ok a -> try_engine r = Ok a.
Proof. intros ->. reflexivity. Qed.

(* a repeat of the intermediate loop that yields nothing is passed over, so a normal outcome of the
   recursive call of either kind (a node, or nothing) has to be stable, not only a found node *)
Lemma gfms_body_mono (rec rec' : oid -> str -> result (option oid)) h cp :
  (forall c q r, rec c q = Ok r -> rec' c q = Ok r) ->
  forall r, gfms_body rec h cp = Ok r -> gfms_body rec' h cp = Ok r.
Proof.
  intros M r E. unfold gfms_body in *.
  destruct (parse_path (snd cp)) as [xp|]; cbn [bind] in *; [|discriminate].
  destruct (seg_id xp); [|exact E].
  destruct (match fst cp with RObj c => _ | _ => _ end) as [kids|]; cbn [bind] in *; [|discriminate].
  destruct (loop_list xp) as [|next rest]; [exact E|].
  apply try_engine_ok in E. apply try_engine_ok_any.
  induction kids as [|k kids IHk]; [exact E|].
  destruct (h_get h k) as [kx|]; cbn [bind] in *; [|discriminate].
  destruct (is_loop_typed kx); [|exact (IHk E)].
  destruct (obj_id kx) as [i|]; cbn [bind] in *; [|discriminate].
  destruct (ostr_eqb i (Some next)); [|exact (IHk E)].
  destruct (rec k (format_path (set_loop_list xp rest))) as [res|] eqn:Er; cbn [bind] in E; [|discriminate].
  rewrite (M _ _ _ Er). cbn [bind].
  destruct res as [t'|]; [exact E|exact (IHk E)].
Qed.

Lemma loop_gfms_mono_ok h : forall f f' c q r, f <= f' -> loop_gfms f h c q = Ok r -> loop_gfms f' h c q = Ok r.
Proof.
  induction f as [|f IH]; intros f' c q r L E; [discriminate|].
  destruct f' as [|f']; [lia|]. rewrite loop_gfms_S in *.
  destruct q; [discriminate|].
  destruct (get_start_node h c (a :: q)) as [cp|]; cbn [bind] in *; [|discriminate].
  eapply gfms_body_mono; [|exact E]. intros c' q' r' E'. eapply IH; [|exact E']. lia.
Qed.

Lemma loop_gfms_mono h t : forall f f' c q, f <= f' -> loop_gfms f h c q = Ok (Some t) -> loop_gfms f' h c q = Ok (Some t).
Proof. intros f f' c q. apply loop_gfms_mono_ok. Qed.

(* _get_start_node returns a rest that does not begin with "../": resolving it again is the identity *)
Lemma start_node_rest h e :
  forall len s, length s <= len -> forall cur cur' rest,
  start_node_from h e cur s = Ok (cur', rest) ->
  length rest <= length s /\ forall e2 cur2, start_node_from h e2 cur2 rest = Ok (cur2, rest).
Proof.
  induction len as [|len IH]; intros s Hl cur cur' rest E.
  - destruct s; [|cbn in Hl; lia]. cbn in E. injection E as _ <-. split; [lia|reflexivity].
  - destruct s as [|c1 [|c2 [|c3 s]]]; cbn [start_node_from] in E;
      try (injection E as _ <-; split; [lia|reflexivity]).
    destruct (Ascii.eqb c1 "." && Ascii.eqb c2 "." && Ascii.eqb c3 "/")%bool eqn:B.
    + destruct cur as [|o|ms]; try discriminate.
      destruct (h_get h o) as [x|]; cbn [bind] in E; [|discriminate].
      destruct (o_parent x) as [|y|ms]; [discriminate| |];
        (destruct (IH s ltac:(cbn in Hl; lia) _ _ _ E) as [L R]; split; [cbn [length]; lia|exact R]).
    + injection E as _ <-. split; [lia|]. intros e2 cur2. cbn [start_node_from]. rewrite B. reflexivity.
Qed.

Theorem value_target_is_gfms :
  forall h self p t key,
    value_target h self p = Ok (Some (t, key)) ->
    (* the parent of a node is never a segment node: the node a loop's "../" steps lead to is a loop *)
    (forall me c0 rest cx, nth_error h self = Some me -> o_class me = CLoop ->
        get_start_node h self p = Ok (RObj c0, rest) -> nth_error h c0 = Some cx -> o_class cx = CLoop) ->
    node_gfms h self p = Ok (Some t).
Proof.
  intros h self p t key E Hloop. unfold value_target in E. unfold node_gfms, ref_gfms.
  destruct (h_get h self) as [me|] eqn:Eme; cbn [bind] in *; [|discriminate].
  destruct (o_class me) eqn:Cme.
  - destruct (seg_gfms h self p) as [[ow|]|]; cbn [bind] in E; try discriminate.
    injection E as <- _. reflexivity.
  - destruct (get_start_node h self p) as [[cur rest]|] eqn:Es; cbn [bind fst snd] in E; [|discriminate].
    destruct (ref_gfms h cur rest) as [[ow|]|] eqn:Eg; cbn [bind] in E; try discriminate.
    destruct (parse_path rest); cbn [bind] in E; [|discriminate]. injection E as <- _.
    unfold ref_gfms in Eg. destruct cur as [|c0|ms]; try discriminate.
    destruct (h_get h c0) as [cx|] eqn:Ecx; cbn [bind] in Eg; [|discriminate].
    apply h_get_some in Eme. pose proof Ecx as Ecx'. apply h_get_some in Ecx'.
    rewrite (Hloop me c0 rest cx Eme Cme eq_refl Ecx') in Eg.
    (* both sides run the same body on the same start node; the fuel differs *)
    pose proof Es as Es'. unfold get_start_node in Es'.
    assert (h_get h self = Ok me) as Eme' by (apply h_get_some; exact Eme).
    rewrite Eme' in Es'. cbn [bind] in Es'.
    destruct (start_node_rest h _ (length p) p (le_n _) _ _ _ Es') as [Lr Idem].
    rewrite loop_gfms_S in Eg. destruct rest as [|r0 rest]; [discriminate|].
    assert (get_start_node h c0 (r0 :: rest) = Ok (RObj c0, r0 :: rest)) as Es2.
    { unfold get_start_node. rewrite Ecx. cbn [bind]. apply Idem. }
    rewrite Es2 in Eg. cbn [bind] in Eg.
    rewrite loop_gfms_S. destruct p as [|p0 p]; [cbn in Lr; lia|].
    rewrite Es. cbn [bind].
    eapply gfms_body_mono; [|exact Eg]. intros c q r. apply loop_gfms_mono_ok. lia.
Qed.
