(* C19_doc_grow.v — the error handler only ever APPENDS: across any API call (completed or not) every node keeps
   its index, its error list and its element list up to new entries at the end.  Hence whatever a gen_seg call
   prints for a node (Spec/C19_spec.v node_errors / node_elements on the handler at that moment) is still in the
   error tree when the run ends, in the same order (views_kept, doc_errors_kept).  Any environment. *)
From Coq Require Import String Lia.
From PX.Lib Require Import Base PyStr PyInt.
From PX.Model Require Import Path Segment Raw Reader MapLoad MapTree Walker MapEnv Driver Pipeline.
From PX.Model Require Import Errh ErrIter Html.
From PX.Spec Require Import C19_spec C19_doc_spec.
From PX.Proofs Require Import C09_reader C19_doc_frame C19_doc_run.

(* ------------------------------------------------------------------ *)
(* prefixes                                                             *)

Definition pre {A} (a b : list A) : Prop := exists c, b = a ++ c.

Lemma pre_refl {A} (a : list A) : pre a a.
Proof. exists []. rewrite app_nil_r. reflexivity. Qed.
Lemma pre_trans {A} (a b c : list A) : pre a b -> pre b c -> pre a c.
Proof. intros [x ->] [y ->]. exists (x ++ y). rewrite app_assoc. reflexivity. Qed.
Lemma pre_app {A} (a x : list A) : pre a (a ++ x).
Proof. exists x. reflexivity. Qed.
Lemma pre_nil {A} (a : list A) : pre [] a.
Proof. exists a. reflexivity. Qed.
Lemma pre_filter {A} (f : A -> bool) a b : pre a b -> pre (filter f a) (filter f b).
Proof. intros [x ->]. rewrite filter_app. apply pre_app. Qed.
Lemma pre_map {A B} (f : A -> B) a b : pre a b -> pre (map f a) (map f b).
Proof. intros [x ->]. rewrite map_app. apply pre_app. Qed.

(* ------------------------------------------------------------------ *)
(* heaps that grow                                                      *)

Definition hgrow {N} (P : N -> N -> Prop) (xs ys : list N) : Prop :=
  forall i n, nth_error xs i = Some n -> exists n', nth_error ys i = Some n' /\ P n n'.

Lemma hgrow_refl {N} (P : N -> N -> Prop) xs : (forall n, P n n) -> hgrow P xs xs.
Proof. intros R i n H. eauto. Qed.

Lemma hgrow_trans {N} (P : N -> N -> Prop) xs ys zs :
  (forall a b c, P a b -> P b c -> P a c) -> hgrow P xs ys -> hgrow P ys zs -> hgrow P xs zs.
Proof.
  intros T H1 H2 i n E. destruct (H1 i n E) as (n1 & E1 & P1). destruct (H2 i n1 E1) as (n2 & E2 & P2). eauto.
Qed.

Lemma hgrow_snoc {N} (P : N -> N -> Prop) xs a : (forall n, P n n) -> hgrow P xs (xs ++ [a]).
Proof.
  intros R i n E. exists n. split; [|apply R].
  rewrite nth_error_app1; [exact E|]. apply nth_error_Some. congruence.
Qed.

Lemma nth_upd_nth {N} (f : N -> N) : forall xs i j,
  nth_error (upd_nth xs i f) j = if Nat.eqb i j then option_map f (nth_error xs j) else nth_error xs j.
Proof.
  induction xs as [|x xs IH]; intros i j; cbn [upd_nth].
  - destruct j; destruct (Nat.eqb i _); reflexivity.
  - destruct i as [|i], j as [|j]; cbn [nth_error Nat.eqb upd_nth option_map]; try reflexivity. apply IH.
Qed.

Lemma hgrow_upd {N} (P : N -> N -> Prop) xs i f : (forall n, P n n) -> (forall n, P n (f n)) -> hgrow P xs (upd_nth xs i f).
Proof.
  intros R F j n E. rewrite nth_upd_nth. destruct (Nat.eqb i j).
  - rewrite E. cbn. eauto.
  - eauto.
Qed.

Definition Pseg (n n' : seg_node) : Prop := pre (sn_errors n) (sn_errors n') /\ pre (sn_elements n) (sn_elements n').
Definition Pele (n n' : ele_node) : Prop := pre (en_errors n) (en_errors n').
Definition Pst (n n' : st_node) : Prop := pre (tn_errors n) (tn_errors n') /\ pre (tn_elements n) (tn_elements n').
Definition Pgs (n n' : gs_node) : Prop := pre (gn_errors n) (gn_errors n') /\ pre (gn_elements n) (gn_elements n').
Definition Pisa (n n' : isa_node) : Prop := pre (in_errors n) (in_errors n') /\ pre (in_elements n) (in_elements n').

Definition errs_grow (h h' : errh) : Prop :=
  hgrow Pisa (h_isa h) (h_isa h') /\ hgrow Pgs (h_gs h) (h_gs h') /\ hgrow Pst (h_st h) (h_st h') /\
  hgrow Pseg (h_seg h) (h_seg h') /\ hgrow Pele (h_ele h) (h_ele h').

Lemma P_refl :
  (forall n, Pisa n n) /\ (forall n, Pgs n n) /\ (forall n, Pst n n) /\ (forall n, Pseg n n) /\ (forall n, Pele n n).
Proof.
  split; [intros n; split; apply pre_refl|]. split; [intros n; split; apply pre_refl|].
  split; [intros n; split; apply pre_refl|]. split; [intros n; split; apply pre_refl|]. intros n; apply pre_refl.
Qed.

Lemma P_trans :
  (forall a b c, Pisa a b -> Pisa b c -> Pisa a c) /\ (forall a b c, Pgs a b -> Pgs b c -> Pgs a c) /\
  (forall a b c, Pst a b -> Pst b c -> Pst a c) /\ (forall a b c, Pseg a b -> Pseg b c -> Pseg a c) /\
  (forall a b c, Pele a b -> Pele b c -> Pele a c).
Proof.
  split; [intros a b c [A1 A2] [B1 B2]; split; eapply pre_trans; eauto|].
  split; [intros a b c [A1 A2] [B1 B2]; split; eapply pre_trans; eauto|].
  split; [intros a b c [A1 A2] [B1 B2]; split; eapply pre_trans; eauto|].
  split; [intros a b c [A1 A2] [B1 B2]; split; eapply pre_trans; eauto|].
  intros a b c A B. eapply pre_trans; eauto.
Qed.

Lemma eg_refl h : errs_grow h h.
Proof.
  destruct P_refl as (A & B & C & D & E). unfold errs_grow.
  split; [apply hgrow_refl; assumption|]. split; [apply hgrow_refl; assumption|].
  split; [apply hgrow_refl; assumption|]. split; apply hgrow_refl; assumption.
Qed.

Lemma eg_trans a b c : errs_grow a b -> errs_grow b c -> errs_grow a c.
Proof.
  destruct P_trans as (A & B & C & D & E).
  intros (A1 & B1 & C1 & D1 & E1) (A2 & B2 & C2 & D2 & E2).
  unfold errs_grow.
  split; [eapply hgrow_trans; eauto|]. split; [eapply hgrow_trans; eauto|].
  split; [eapply hgrow_trans; eauto|]. split; eapply hgrow_trans; eauto.
Qed.

(* a change of the heaps, component by component *)
Lemma eg_heaps h hi hg ht hs he :
  hgrow Pisa (h_isa h) hi -> hgrow Pgs (h_gs h) hg -> hgrow Pst (h_st h) ht -> hgrow Pseg (h_seg h) hs ->
  hgrow Pele (h_ele h) he -> errs_grow h (set_heaps h hi hg ht hs he).
Proof. intros. unfold errs_grow. cbn [set_heaps h_isa h_gs h_st h_seg h_ele]. tauto. Qed.

Lemma eg_cursors h ci cg ct cs sa ce ea : errs_grow h (set_cursors h ci cg ct cs sa ce ea).
Proof. exact (eg_refl h). Qed.

(* ------------------------------------------------------------------ *)
(* the computations of the handler                                      *)

Definition sgrow {A} (m : SE errh A) : Prop := forall h h' r, m h = (h', r) -> errs_grow h h'.

Lemma sg_ret {A} (a : A) : sgrow (se_ret a).
Proof. intros h h' r [= <- _]. apply eg_refl. Qed.
Lemma sg_lift {A} (x : result A) : sgrow (se_lift x).
Proof. intros h h' r [= <- _]. apply eg_refl. Qed.
Lemma sg_raise {A} e : sgrow (@se_raise errh A e).
Proof. intros h h' r [= <- _]. apply eg_refl. Qed.
Lemma sg_get : sgrow (@se_get errh).
Proof. intros h h' r [= <- _]. apply eg_refl. Qed.
Lemma sg_mod f : (forall h, errs_grow h (f h)) -> sgrow (se_mod f).
Proof. intros F h h' r [= <- _]. apply F. Qed.
Lemma sg_bind {A B} (m : SE errh A) (f : A -> SE errh B) : sgrow m -> (forall a, sgrow (f a)) -> sgrow (se_bind m f).
Proof.
  intros Hm Hf h h' r. unfold se_bind. destruct (m h) as [h1 [a|e]] eqn:E1.
  - intros E2. eapply eg_trans; [eapply Hm; eauto | eapply Hf; eauto].
  - intros [= <- _]. eapply Hm; eauto.
Qed.
Lemma sg_try {A} (m : SE errh A) : sgrow m -> sgrow (se_try m).
Proof. intros Hm h h' r. unfold se_try. destruct (m h) as [h1 [a|e]] eqn:E1; intros [= <- _]; eapply Hm; eauto. Qed.
Lemma sg_deref {A} (o : option A) : sgrow (deref o).
Proof. apply sg_lift. Qed.
Lemma sg_heap_get {A} (xs : list A) i : sgrow (heap_get xs i).
Proof. apply sg_lift. Qed.

Lemma sg_mod_isa i f : (forall n, Pisa n (f n)) -> sgrow (mod_isa i f).
Proof.
  intros F. apply sg_mod. intros h. destruct P_refl as (A & B & C & D & E). unfold set_h_isa.
  apply eg_heaps; try (apply hgrow_refl; assumption). apply hgrow_upd; assumption.
Qed.
Lemma sg_mod_gs i f : (forall n, Pgs n (f n)) -> sgrow (mod_gs i f).
Proof.
  intros F. apply sg_mod. intros h. destruct P_refl as (A & B & C & D & E). unfold set_h_gs.
  apply eg_heaps; try (apply hgrow_refl; assumption). apply hgrow_upd; assumption.
Qed.
Lemma sg_mod_st i f : (forall n, Pst n (f n)) -> sgrow (mod_st i f).
Proof.
  intros F. apply sg_mod. intros h. destruct P_refl as (A & B & C & D & E). unfold set_h_st.
  apply eg_heaps; try (apply hgrow_refl; assumption). apply hgrow_upd; assumption.
Qed.
Lemma sg_mod_seg i f : (forall n, Pseg n (f n)) -> sgrow (mod_seg i f).
Proof.
  intros F. apply sg_mod. intros h. destruct P_refl as (A & B & C & D & E). unfold set_h_seg.
  apply eg_heaps; try (apply hgrow_refl; assumption). apply hgrow_upd; assumption.
Qed.
Lemma sg_mod_ele i f : (forall n, Pele n (f n)) -> sgrow (mod_ele i f).
Proof.
  intros F. apply sg_mod. intros h. destruct P_refl as (A & B & C & D & E). unfold set_h_ele.
  apply eg_heaps; try (apply hgrow_refl; assumption). apply hgrow_upd; assumption.
Qed.

Ltac pp := intros ?; first [split; cbn; first [apply pre_refl | apply pre_app] | cbn; first [apply pre_refl | apply pre_app]].

Ltac sg :=
  repeat first
    [ apply sg_ret | apply sg_get | apply sg_lift | apply sg_raise | apply sg_deref | apply sg_heap_get
    | apply sg_bind; [|intros ?]
    | apply sg_try
    | apply sg_mod_isa; pp | apply sg_mod_gs; pp | apply sg_mod_st; pp | apply sg_mod_seg; pp | apply sg_mod_ele; pp
    | apply sg_mod; intros ?; apply eg_cursors ].

Lemma sg_get_isa i : sgrow (get_isa i). Proof. unfold get_isa. sg. Qed.
Lemma sg_get_gs i : sgrow (get_gs i). Proof. unfold get_gs. sg. Qed.
Lemma sg_get_st i : sgrow (get_st i). Proof. unfold get_st. sg. Qed.
Lemma sg_get_seg i : sgrow (get_seg i). Proof. unfold get_seg. sg. Qed.

Lemma sg_snoc_isa n : sgrow (se_mod (fun h => set_h_isa h (h_isa h ++ [n]))).
Proof.
  apply sg_mod. intros h. destruct P_refl as (A & B & C & D & E). unfold set_h_isa.
  apply eg_heaps; try (apply hgrow_refl; assumption). apply hgrow_snoc; assumption.
Qed.

Lemma sg_add_isa_loop x src : sgrow (add_isa_loop x src).
Proof.
  unfold add_isa_loop. apply sg_bind; [apply sg_lift | intros n]. apply sg_mod. intros h.
  eapply eg_trans; [|apply eg_cursors]. destruct P_refl as (A & B & C & D & E). unfold set_h_isa.
  apply eg_heaps; try (apply hgrow_refl; assumption). apply hgrow_snoc; assumption.
Qed.

Lemma sg_add_gs_loop x src : sgrow (add_gs_loop x src).
Proof.
  unfold add_gs_loop. apply sg_bind; [apply sg_get | intros h0]. apply sg_bind; [apply sg_deref | intros p].
  apply sg_bind; [apply sg_lift | intros n]. apply sg_bind.
  { apply sg_mod. intros h. destruct P_refl as (A & B & C & D & E). unfold set_h_gs.
    apply eg_heaps; try (apply hgrow_refl; assumption). apply hgrow_snoc; assumption. }
  intros _. sg.
Qed.

Lemma sg_add_st_loop x src : sgrow (add_st_loop x src).
Proof.
  unfold add_st_loop. apply sg_bind; [apply sg_get | intros h0]. apply sg_bind; [apply sg_deref | intros p].
  apply sg_bind; [apply sg_lift | intros n]. apply sg_bind.
  { apply sg_mod. intros h. destruct P_refl as (A & B & C & D & E). unfold set_h_st.
    apply eg_heaps; try (apply hgrow_refl; assumption). apply hgrow_snoc; assumption. }
  intros _. sg.
Qed.

Lemma sg_add_seg mn x sc cl ls : sgrow (add_seg mn x sc cl ls).
Proof.
  unfold add_seg. apply sg_mod. intros h. unfold set_cur_seg. eapply eg_trans; [|apply eg_cursors].
  destruct P_refl as (A & B & C & D & E). unfold set_h_seg.
  apply eg_heaps; try (apply hgrow_refl; assumption). apply hgrow_snoc; assumption.
Qed.

Lemma sg_add_ele mn : sgrow (add_ele mn).
Proof.
  unfold add_ele. apply sg_bind; [apply sg_get | intros h0]. apply sg_bind; [apply sg_deref | intros r].
  apply sg_mod. intros h. eapply eg_trans; [|apply eg_cursors].
  destruct P_refl as (A & B & C & D & E). unfold set_h_ele.
  apply eg_heaps; try (apply hgrow_refl; assumption). apply hgrow_snoc; assumption.
Qed.

Lemma sg_add_cur_seg : sgrow add_cur_seg.
Proof.
  unfold add_cur_seg. apply sg_bind; [apply sg_get | intros h0].
  destruct (seg_added h0); [apply sg_ret|]. destruct (c_st h0) as [t|]; [|apply sg_ret].
  destruct (c_seg h0) as [[i|i|i|k]|]; try apply sg_raise.
  apply sg_bind; [apply sg_mod_st; pp | intros _]. apply sg_mod. intros h. apply eg_cursors.
Qed.

Lemma sg_append_element r e : sgrow (append_element r e).
Proof. destruct r; cbn [append_element]; sg. Qed.

Lemma sg_add_cur_ele : sgrow add_cur_ele.
Proof.
  unfold add_cur_ele. apply sg_bind; [apply sg_add_cur_seg | intros _]. apply sg_bind; [apply sg_get | intros h0].
  apply sg_bind; [apply sg_deref | intros ea]. destruct (negb ea); [|apply sg_ret].
  destruct (c_seg h0) as [r|]; [|apply sg_ret]. destruct (c_ele h0) as [e|]; [|apply sg_raise].
  apply sg_bind; [apply sg_append_element | intros _]. sg.
Qed.

Lemma sg_isa_error c m : sgrow (isa_error c m).
Proof.
  unfold isa_error. apply sg_bind; [apply sg_get | intros h0]. apply sg_bind; [apply sg_deref | intros i].
  apply sg_bind; [apply sg_get_isa | intros n]. sg.
Qed.

Lemma sg_gs_error c m : sgrow (gs_error c m).
Proof.
  unfold gs_error. apply sg_bind; [apply sg_get | intros h0]. destruct (c_gs h0) as [i|].
  - apply sg_bind; [apply sg_get_gs | intros n]. sg.
  - destruct (c_isa h0); [apply sg_isa_error | apply sg_ret].
Qed.

Lemma sg_st_error c m : sgrow (st_error c m).
Proof.
  unfold st_error. apply sg_bind; [apply sg_get | intros h0]. destruct (c_st h0) as [i|].
  - apply sg_bind; [apply sg_get_st | intros n]. sg.
  - destruct (c_isa h0); [apply sg_isa_error | apply sg_ret].
Qed.

Lemma sg_node_cur_line r : sgrow (node_cur_line r).
Proof.
  destruct r; cbn [node_cur_line];
    (apply sg_bind; [first [apply sg_get_isa | apply sg_get_gs | apply sg_get_st | apply sg_get_seg] | intros ?; apply sg_ret]).
Qed.

Lemma sg_seg_error c m v ln : sgrow (seg_error c m v ln).
Proof.
  unfold seg_error. apply sg_bind.
  { apply sg_try. apply sg_bind; [apply sg_add_cur_seg | intros _]. apply sg_bind; [apply sg_get | intros h0].
    apply sg_bind; [apply sg_deref | intros r]. destruct r; sg. }
  intros _. apply sg_bind; [apply sg_get | intros h0]. destruct (truthy_Z ln); [apply sg_ret|].
  destruct (c_seg h0) as [r|]; [|apply sg_ret]. apply sg_bind; [apply sg_node_cur_line | intros l0]. sg.
Qed.

Lemma sg_ele_error c m bad : sgrow (ele_error c m bad).
Proof.
  unfold ele_error. apply sg_bind; [apply sg_add_cur_ele | intros _]. apply sg_bind; [apply sg_get | intros h0].
  apply sg_bind; [apply sg_deref | intros e]. apply sg_bind; [sg | intros _].
  apply sg_bind; [apply sg_deref | intros r]. apply sg_bind; [apply sg_node_cur_line | intros l0]. sg.
Qed.

Lemma sg_close_isa src : sgrow (close_isa_loop src).
Proof. unfold close_isa_loop. sg. Qed.

Lemma sg_close_gs sd src : sgrow (close_gs_loop sd src).
Proof.
  unfold close_gs_loop. apply sg_bind; [apply sg_get | intros h0]. apply sg_bind; [apply sg_deref | intros g].
  apply sg_bind; [apply sg_get_gs | intros n]. sg.
Qed.

Lemma sg_close_st src : sgrow (close_st_loop src).
Proof.
  unfold close_st_loop. apply sg_bind; [apply sg_get | intros h0]. apply sg_bind; [apply sg_deref | intros t].
  apply sg_bind; [apply sg_get_st | intros n]. sg.
Qed.

Theorem apply_dev_grow ev : sgrow (apply_dev ev).
Proof.
  destruct ev; cbn [apply_dev].
  - apply sg_add_isa_loop. - apply sg_add_gs_loop. - apply sg_add_st_loop. - apply sg_add_seg. - apply sg_add_ele.
  - apply sg_isa_error. - apply sg_gs_error. - apply sg_st_error. - apply sg_seg_error. - apply sg_ele_error.
  - apply sg_close_isa. - apply sg_close_gs. - apply sg_close_st.
Qed.

(* ------------------------------------------------------------------ *)
(* one turn of the loop, the finish                                     *)

Definition RG (s s' : dstate) : Prop := errs_grow (ds_errh s) (ds_errh s').

Lemma RG_ok :
  (forall s, RG s s) /\ (forall a b c, RG a b -> RG b c -> RG a c) /\
  (forall ev s s', call_errh ev s = (s', Ok tt) -> RG s s') /\
  (forall s s', ds_errh s' = ds_errh s -> xeq (ds_x s') (ds_x s) -> RG s s').
Proof.
  split; [|split; [|split]].
  - intros s. apply eg_refl.
  - intros a b c. apply eg_trans.
  - intros ev s s' C. unfold call_errh in C. cbn [ds_errh with_trace] in C.
    destruct (apply_dev ev (ds_errh s)) as [h' r] eqn:E. injection C as <- _. cbn [ds_errh with_errh].
    exact (apply_dev_grow ev _ _ _ E).
  - intros s s' E _. unfold RG. rewrite E. apply eg_refl.
Qed.

Lemma step_grow E sg d d' : step E sg d = (d', Ok tt) -> errs_grow (ds_errh d) (ds_errh d').
Proof.
  intros H. destruct RG_ok as (A & B & C & D0).
  pose proof (step_frame RG A B C D0 E sg d) as F. unfold C07_sink_step.dpc in F. rewrite H in F. exact F.
Qed.

Lemma finish_grow d d' b : finish d = (d', Ok b) -> errs_grow (ds_errh d) (ds_errh d').
Proof.
  intros H. destruct RG_ok as (A & B & C & D0).
  pose proof (finish_frame RG A B C D0 d) as F. unfold C07_sink_step.dpc in F. rewrite H in F. exact F.
Qed.

Theorem views_grow E : forall lines d it views d',
  doc_views E lines d it = Ok (views, d') ->
  errs_grow (ds_errh d) (ds_errh d') /\ Forall (fun v => errs_grow (sv_errh v) (ds_errh d')) views.
Proof.
  induction lines as [|ln rest IH]; intros d it views d' H; cbn [doc_views] in H.
  - injection H as <- <-. split; [apply eg_refl | constructor].
  - destruct (read_line E ln d) as [d1 [os|e]] eqn:ER; [|discriminate H].
    apply read_line_inv in ER as (x' & es & _ & ->).
    destruct os as [sg|].
    + destruct (step E sg _) as [d2 [[]|e]] eqn:ES; [|discriminate H].
      destruct (heading_of (ds_node d2)) as [info|e]; cbn [bind] in H; [|discriminate H].
      destruct (collect_new (ds_errh d2) it) as [it' [nodes|e]]; [|discriminate H].
      destruct (doc_views E rest d2 it') as [[more d3]|e] eqn:EV; cbn [bind fst snd] in H; [|discriminate H].
      injection H as <- <-.
      pose proof (step_grow _ _ _ _ ES) as G1. cbn [ds_errh with_pending with_x] in G1.
      destruct (IH d2 it' more d3 EV) as (G2 & GS).
      split; [eapply eg_trans; eauto|]. constructor; [exact G2 | exact GS].
    + exact (IH _ it views d' H).
Qed.

(* ------------------------------------------------------------------ *)
(* what gen_seg reads                                                   *)

Lemma heap_nth_grow {N} (P : N -> N -> Prop) xs ys i n :
  hgrow P xs ys -> heap_nth xs i = Ok n -> exists n', heap_nth ys i = Ok n' /\ P n n'.
Proof.
  intros G H. unfold heap_nth in *. destruct (nth_error xs i) as [m|] eqn:E; [|discriminate H]. injection H as ->.
  destruct (G i n E) as (n' & E' & Pn). rewrite E'. eauto.
Qed.

Lemma node_errors_grow h h' o r : errs_grow h h' -> pre (node_errors h o r) (node_errors h' o r).
Proof.
  intros (GI & GG & GT & GS & GE). unfold node_errors, error_list_of.
  destruct r as [|i|g|t|k|e]; cbn [bind]; try apply pre_nil.
  - destruct (heap_nth (h_isa h) i) as [n|] eqn:E; cbn [bind]; [|apply pre_nil].
    destruct (heap_nth_grow _ _ _ _ _ GI E) as (n' & -> & [P1 _]). cbn [bind].
    destruct o as [s|]; [|apply pre_refl]. unfold isa_error_list.
    destruct (str_eqb s _); [apply pre_filter, P1|]. destruct (str_eqb s _); [apply pre_filter, P1 | apply pre_refl].
  - destruct (heap_nth (h_gs h) g) as [n|] eqn:E; cbn [bind]; [|apply pre_nil].
    destruct (heap_nth_grow _ _ _ _ _ GG E) as (n' & -> & [P1 _]). cbn [bind].
    destruct o as [s|]; [|apply pre_refl]. unfold gs_error_list.
    destruct (str_eqb s _); [apply pre_filter, P1|]. destruct (str_eqb s _); [apply pre_filter, P1 | apply pre_refl].
  - destruct (heap_nth (h_st h) t) as [n|] eqn:E; cbn [bind]; [|apply pre_nil].
    destruct (heap_nth_grow _ _ _ _ _ GT E) as (n' & -> & [P1 _]). cbn [bind].
    destruct o as [s|]; [|apply pre_refl]. unfold st_error_list.
    destruct (str_eqb s _); [apply pre_filter, P1|]. destruct (str_eqb s _); [apply pre_filter, P1 | apply pre_refl].
  - destruct (heap_nth (h_seg h) k) as [n|] eqn:E; cbn [bind]; [|apply pre_nil].
    destruct (heap_nth_grow _ _ _ _ _ GS E) as (n' & -> & [P1 _]). cbn [bind]. apply pre_map, P1.
  - destruct (heap_nth (h_ele h) e) as [n|] eqn:E; cbn [bind]; [|apply pre_nil].
    destruct (heap_nth_grow _ _ _ _ _ GE E) as (n' & -> & P1). cbn [bind]. apply pre_map, P1.
Qed.

Lemma node_elements_grow h h' r : errs_grow h h' -> pre (node_elements h r) (node_elements h' r).
Proof.
  intros (GI & GG & GT & GS & GE). unfold node_elements, elements_of.
  destruct r as [|i|g|t|k|e]; cbn [bind]; try apply pre_nil.
  - destruct (heap_nth (h_isa h) i) as [n|] eqn:E; cbn [bind]; [|apply pre_nil].
    destruct (heap_nth_grow _ _ _ _ _ GI E) as (n' & -> & [_ P2]). exact P2.
  - destruct (heap_nth (h_gs h) g) as [n|] eqn:E; cbn [bind]; [|apply pre_nil].
    destruct (heap_nth_grow _ _ _ _ _ GG E) as (n' & -> & [_ P2]). exact P2.
  - destruct (heap_nth (h_st h) t) as [n|] eqn:E; cbn [bind]; [|apply pre_nil].
    destruct (heap_nth_grow _ _ _ _ _ GT E) as (n' & -> & [_ P2]). exact P2.
  - destruct (heap_nth (h_seg h) k) as [n|] eqn:E; cbn [bind]; [|apply pre_nil].
    destruct (heap_nth_grow _ _ _ _ _ GS E) as (n' & -> & [_ P2]). exact P2.
Qed.

(* everything a call can print for a node — its errors, its elements, the errors of those — is in the error tree
   at the end of the run, at the same node, in the same order *)
Theorem doc_errors_kept :
  forall E lines d0 views d1 d2 b',
    doc_views E lines d0 iter_init = Ok (views, d1) ->
    finish d1 = (d2, Ok b') ->
    Forall (fun v => forall o r,
              pre (node_errors (sv_errh v) o r) (node_errors (ds_errh d2) o r) /\
              pre (node_elements (sv_errh v) r) (node_elements (ds_errh d2) r)) views.
Proof.
  intros E lines d0 views d1 d2 b' EV EF.
  destruct (views_grow E lines d0 iter_init views d1 EV) as (_ & GS).
  pose proof (finish_grow _ _ _ EF) as GF.
  apply Forall_forall. intros v Hv. rewrite Forall_forall in GS. specialize (GS v Hv).
  assert (G : errs_grow (sv_errh v) (ds_errh d2)) by (eapply eg_trans; eauto).
  intros o r. split; [apply node_errors_grow | apply node_elements_grow]; exact G.
Qed.

Print Assumptions apply_dev_grow.
Print Assumptions doc_errors_kept.
