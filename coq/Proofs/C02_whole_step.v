(* C02_whole_step.v — C02 composed, the pieces of one turn of the driver's loop (Driver.step) on a segment that
   the reader read silently, the walker located silently and that conforms to its node: find_node, the branch on
   the segment id, validation — each returns, reports no error, and keeps the invariant `Clean`. *)
From Coq Require Import String Lia.
From PX.Lib Require Import Base PyStr PyInt Regex Xml.
From PX.Model Require Import Path Segment Raw Reader Syntax MapLoad MapTree Element Counter Walker MapEnv Driver.
From PX.Model Require Errh.
From PX.Spec Require Import C01_spec C12_spec C12_doc_spec C07_walker_wf C07_valid_wf C07_spec C0203_spec C02_doc_spec C04_spec C02_whole_spec.
From PX.Proofs Require Import C07_errh C07_valid C15_element C0203_segment C04_reader C02_doc_counter C02_whole_errh C02_whole_reader.
Import Driver.

Local Definition l (x : string) : str := list_ascii_of_string x.

(* ------------------------------------------------------------------ *)
(* the monad                                                            *)

Lemma bind_ok {A B} (m : D A) (f : A -> D B) s s' a : m s = (s', Ok a) -> d_bind m f s = f a s'.
Proof. intros H. unfold d_bind. rewrite H. reflexivity. Qed.

Lemma bind_get {A} (k : dstate -> D A) s : d_bind d_get k s = k s s.
Proof. reflexivity. Qed.

Lemma bind_mod {A} f (k : unit -> D A) s : d_bind (d_mod f) k s = k tt (f s).
Proof. reflexivity. Qed.

Lemma bind_ret {A B} (a : A) (k : A -> D B) s : d_bind (d_ret a) k s = k a s.
Proof. reflexivity. Qed.

Lemma bind_lift_ok {A B} (r : result A) a (k : A -> D B) s : r = Ok a -> d_bind (d_lift r) k s = k a s.
Proof. intros ->. reflexivity. Qed.

(* ------------------------------------------------------------------ *)
(* the invariant between two handler calls                              *)

Definition Tok (tr : list dev) : Prop := forallb (fun e => negb (err_dev e)) tr = true.

Record Clean (s : dstate) : Prop := {
  cl_pending : ds_pending s = [];
  cl_valid : ds_valid s = true;
  cl_hok : Hok (ds_errh s);
  cl_tok : Tok (ds_trace s)
}.

(* what a computation that only talks to the handler keeps *)
Record Keep (s s' : dstate) : Prop := {
  kp_x : ds_x s' = ds_x s;
  kp_w : ds_w s' = ds_w s;
  kp_node : ds_node s' = ds_node s;
  kp_sel : ds_sel s' = ds_sel s;
  kp_mono : mono (ds_errh s) (ds_errh s')
}.

Lemma Keep_refl s : Keep s s.
Proof. constructor; try reflexivity. apply mono_refl. Qed.

Lemma Keep_trans a b c : Keep a b -> Keep b c -> Keep a c.
Proof. intros [a1 a2 a3 a4 a5] [b1 b2 b3 b4 b5]. constructor; try congruence. eapply mono_trans; eauto. Qed.

Lemma call_ok ev s h' :
  Clean s -> apply_dev ev (ds_errh s) = (h', Ok tt) -> Hok h' -> mono (ds_errh s) h' -> err_dev ev = false ->
  exists s', call_errh ev s = (s', Ok tt) /\ Clean s' /\ Keep s s' /\ ds_errh s' = h'.
Proof.
  intros [C1 C2 C3 C4] A H M Ev. unfold call_errh. cbn [ds_errh with_trace]. rewrite A.
  eexists. split; [reflexivity|]. split; [|split; [|reflexivity]].
  - constructor; cbn [with_errh with_trace ds_pending ds_valid ds_errh ds_trace]; try assumption.
    unfold Tok. cbn [forallb]. rewrite Ev. exact C4.
  - constructor; cbn [with_errh with_trace ds_x ds_w ds_node ds_sel ds_errh]; try reflexivity. exact M.
Qed.

Lemma handle_popped_nil s : ds_pending s = [] -> handle_popped s = (with_pending s [], Ok tt).
Proof. intros H. unfold handle_popped. rewrite bind_get, bind_mod, H. reflexivity. Qed.

Lemma Clean_with_pending s : Clean s -> Clean (with_pending s []).
Proof. intros [C1 C2 C3 C4]. constructor; cbn [with_pending ds_pending ds_valid ds_errh ds_trace]; try assumption; reflexivity. Qed.

Lemma Keep_with_pending s v : Keep s (with_pending s v).
Proof. constructor; try reflexivity. apply mono_refl. Qed.

Lemma handle_popped_clean s :
  Clean s -> exists s', handle_popped s = (s', Ok tt) /\ Clean s' /\ Keep s s' /\ ds_errh s' = ds_errh s.
Proof.
  intros C. rewrite (handle_popped_nil s (cl_pending s C)). eexists. split; [reflexivity|].
  split; [apply Clean_with_pending, C|]. split; [apply Keep_with_pending | reflexivity].
Qed.

(* the element events of a validation that found no error: add_ele only *)
Lemma iter_hev_ok evs : no_error_event evs -> forall s, Clean s -> Errh.c_seg (ds_errh s) <> None ->
  exists s', d_iter (fun h => call_errh (dev_of_hev h)) evs s = (s', Ok tt) /\ Clean s' /\ Keep s s'.
Proof.
  induction evs as [|h evs IH]; intros NE s C Cs.
  - exists s. split; [reflexivity|]. split; [exact C | apply Keep_refl].
  - cbn [d_iter]. pose proof (NE h (or_introl eq_refl)) as Eh.
    destruct h as [i | c0 m0 v0 rd]; [|discriminate]. cbn [dev_of_hev].
    destruct (add_ele_ok (to_ele_info i) (ds_errh s) (cl_hok s C) Cs) as (h' & A & H' & M & _).
    destruct (call_ok (DAddEle i) s h' C A H' M eq_refl) as (s1 & R1 & C1 & K1 & E1).
    rewrite (bind_ok _ _ _ _ _ R1).
    destruct (IH (fun h Hin => NE h (or_intror Hin)) s1 C1) as (s2 & R2 & C2 & K2).
    { rewrite E1. destruct M as (_ & _ & _ & M4 & _). apply M4, Cs. }
    exists s2. split; [exact R2|]. split; [exact C2 | eapply Keep_trans; eauto].
Qed.

(* ------------------------------------------------------------------ *)
(* validation of a conformant segment                                   *)

Section Step.
Variables (load : str -> result xmap) (ix : list map_entry) (cm : xmap) (d : delims).
Definition mkE : denv := {| de_load := load; de_idx := ix; de_cm := cm; de_d := d |}.
Notation E := mkE.

Lemma get_node_at m r n : node_at (root_nodes m) r = Some n -> get_node m r = Ok n.
Proof. intros H. unfold get_node. rewrite H. reflexivity. Qed.

Lemma validate_ok m t sg s :
  valid_wf m = true -> fmt_wf m = true -> item_conf m d (t, sg) = true ->
  ds_node s = (m, t) -> Clean s -> Errh.c_seg (ds_errh s) <> None ->
  exists s', validate E sg s = (s', Ok tt) /\ Clean s' /\ Keep s s'.
Proof.
  intros VW FW IC Nd C Cs. unfold item_conf in IC. cbn [fst snd] in IC.
  destruct (node_at (root_nodes m) t) as [[? ? ? ? ? ? ?|sn]|] eqn:Ht; try discriminate.
  apply andb_true_iff in IC as [NW SC].
  destruct (conformant_segment_accepted m sn d sg VW FW (ex_intro _ t Ht) NW SC) as (evs & V & NE).
  unfold validate. rewrite bind_get, Nd. cbn [fst snd].
  rewrite (bind_lift_ok _ _ _ _ (get_node_at _ _ _ Ht)). cbn [de_d mkE].
  rewrite (bind_lift_ok _ _ _ _ V). cbn [fst snd].
  destruct (iter_hev_ok evs NE s C Cs) as (s1 & R1 & C1 & K1).
  rewrite (bind_ok _ _ _ _ _ R1). unfold d_mod. eexists. split; [reflexivity|].
  destruct C1 as [D1 D2 D3 D4]. destruct K1 as [K1 K2 K3 K4 K5]. split.
  - constructor; cbn [with_valid ds_pending ds_valid ds_errh ds_trace]; try assumption. rewrite D2. reflexivity.
  - constructor; cbn [with_valid ds_x ds_w ds_node ds_sel ds_errh]; assumption.
Qed.

Lemma cur_info_ok m t n s :
  ds_node s = (m, t) -> node_at (root_nodes m) t = Some n -> cur_info s = (s, Ok (info_of n)).
Proof.
  intros Nd Ht. unfold cur_info. rewrite bind_get, Nd. cbn [fst snd].
  rewrite (bind_lift_ok _ _ _ _ (get_node_at _ _ _ Ht)). reflexivity.
Qed.

(* ------------------------------------------------------------------ *)
(* the branch on the segment id                                         *)

Definition xof (sg : seg) : xsg := {| xg_d := d; xg_s := sg |}.

Lemma sid_is_sid sg k : sid_is sg k = true -> sid sg = Some (l k).
Proof.
  unfold sid_is, opt_eqb. destruct (sid sg) as [i|]; [|discriminate]. intros H. apply str_eqb_eq in H. subst. reflexivity.
Qed.

Ltac other_ids Hs :=
  repeat match goal with
         | |- context [sid_is ?sg ?k] =>
             let Hk := fresh "Hk" in
             assert (Hk : sid_is sg k = false) by (unfold sid_is; rewrite Hs; reflexivity); rewrite Hk; clear Hk
         end.

Lemma add_cur_seg_ok m t n sg s :
  ds_node s = (m, t) -> node_at (root_nodes m) t = Some n -> Clean s ->
  exists s', add_cur_seg (xof sg) s = (s', Ok tt) /\ Clean s' /\ Keep s s' /\ Errh.c_seg (ds_errh s') <> None.
Proof.
  intros Nd Ht C. unfold add_cur_seg. rewrite (bind_ok _ _ _ _ _ (cur_info_ok _ _ _ _ Nd Ht)), bind_get.
  destruct (add_seg_ok (option_map to_seg_info (Some (info_of n))) (to_xseg (xof sg)) (seg_count (ds_x s)) (cur_line (ds_x s)) None
              (ds_errh s) (cl_hok s C)) as (h' & A & H' & M & Q).
  destruct (call_ok (DAddSeg (Some (info_of n)) (xof sg) (seg_count (ds_x s)) (cur_line (ds_x s)) None) s h' C A H' M eq_refl)
    as (s1 & R1 & C1 & K1 & E1).
  exists s1. split; [exact R1|]. split; [exact C1|]. split; [exact K1|]. rewrite E1. exact Q.
Qed.

Lemma dispatch_plain m t n sg s :
  sid_is sg "ISA" = false -> sid_is sg "IEA" = false -> sid_is sg "GS" = false -> sid_is sg "GE" = false ->
  sid_is sg "ST" = false -> sid_is sg "SE" = false ->
  (sid_is sg "BHT" = true -> is_278_switch (ms_vriic (ds_sel s)) = false) ->
  ds_node s = (m, t) -> node_at (root_nodes m) t = Some n -> Clean s ->
  exists s', dispatch_seg E sg s = (s', Ok tt) /\ Clean s' /\ Keep s s' /\ Errh.c_seg (ds_errh s') <> None.
Proof.
  intros N1 N2 N3 N4 N5 N6 B Nd Ht C. unfold dispatch_seg. rewrite N1, N2, N3, N4, N5, N6. cbv zeta.
  destruct (add_cur_seg_ok m t n sg s Nd Ht C) as (s1 & R1 & C1 & K1 & Q1).
  destruct (handle_popped_clean s1 C1) as (s2 & R2 & C2 & K2 & E2).
  assert (Fin : (dod_ add_cur_seg {| xg_d := de_d E; xg_s := sg |}; handle_popped) s = (s2, Ok tt)).
  { change {| xg_d := de_d E; xg_s := sg |} with (xof sg). rewrite (bind_ok _ _ _ _ _ R1). exact R2. }
  exists s2. split.
  - destruct (sid_is sg "BHT") eqn:Bh; [|exact Fin].
    rewrite bind_get. cbv zeta. specialize (B eq_refl).
    match goal with |- context [if ?c then _ else _] => change c with (is_278_switch (ms_vriic (ds_sel s))) end.
    rewrite B. rewrite bind_ret. exact Fin.
  - split; [exact C2|]. split; [eapply Keep_trans; eauto|]. rewrite E2. exact Q1.
Qed.

Lemma dispatch_st sg s :
  sid_is sg "ST" = true -> Clean s -> Errh.c_gs (ds_errh s) <> None ->
  exists s', dispatch_seg E sg s = (s', Ok tt) /\ Clean s' /\ Keep s s' /\ Errh.c_seg (ds_errh s') <> None /\ Errh.c_st (ds_errh s') <> None.
Proof.
  intros Hst C Cg. pose proof (sid_is_sid _ _ Hst) as Hs. unfold dispatch_seg. other_ids Hs. rewrite Hst. cbv zeta.
  rewrite bind_get.
  destruct (add_st_loop_ok (to_xseg {| xg_d := de_d E; xg_s := sg |}) (src_of (ds_x s)) (ds_errh s) (cl_hok s C))
    as (h' & A & H' & M & Q1 & Q2); [discriminate | exact Cg | exact Hs |].
  destruct (call_ok (DAddSt {| xg_d := de_d E; xg_s := sg |} (src_of (ds_x s))) s h' C A H' M eq_refl) as (s1 & R1 & C1 & K1 & E1).
  rewrite (bind_ok _ _ _ _ _ R1).
  destruct (handle_popped_clean s1 C1) as (s2 & R2 & C2 & K2 & E2).
  exists s2. split; [exact R2|]. split; [exact C2|]. split; [eapply Keep_trans; eauto|]. rewrite E2, E1. split; assumption.
Qed.

Lemma close_pattern_ok (mk : ninfo -> Errh.src_info -> dev) m t n s :
  ds_node s = (m, t) -> node_at (root_nodes m) t = Some n -> Clean s ->
  (forall src, err_dev (mk (info_of n) src) = false) ->
  (exists h', apply_dev (mk (info_of n) (src_of (ds_x s))) (ds_errh s) = (h', Ok tt) /\ Hok h' /\ mono (ds_errh s) h' /\ Errh.c_seg h' <> None) ->
  exists s', (dod_ handle_popped; dod i <- cur_info; dod st <- d_get; call_errh (mk i (src_of (ds_x st)))) s = (s', Ok tt) /\ Clean s' /\ Keep s s' /\ Errh.c_seg (ds_errh s') <> None.
Proof.
  intros Nd Ht C Ev (h' & A & H' & M & Q).
  rewrite (bind_ok _ _ _ _ _ (handle_popped_nil s (cl_pending s C))).
  set (s0 := with_pending s []).
  assert (C0 : Clean s0) by (apply Clean_with_pending, C).
  assert (Nd0 : ds_node s0 = (m, t)) by exact Nd.
  rewrite (bind_ok _ _ _ _ _ (cur_info_ok _ _ _ _ Nd0 Ht)), bind_get.
  destruct (call_ok (mk (info_of n) (src_of (ds_x s0))) s0 h' C0 A H' M (Ev _)) as (s1 & R1 & C1 & K1 & E1).
  exists s1. split; [exact R1|]. split; [exact C1|]. split; [|rewrite E1; exact Q].
  eapply Keep_trans; [apply (Keep_with_pending s [])|exact K1].
Qed.

Lemma dispatch_se m t n sg s :
  sid_is sg "SE" = true -> ds_node s = (m, t) -> node_at (root_nodes m) t = Some n -> Clean s ->
  Errh.c_st (ds_errh s) <> None ->
  exists s', dispatch_seg E sg s = (s', Ok tt) /\ Clean s' /\ Keep s s' /\ Errh.c_seg (ds_errh s') <> None.
Proof.
  intros Hse Nd Ht C Ct. pose proof (sid_is_sid _ _ Hse) as Hs. unfold dispatch_seg. other_ids Hs. rewrite Hse. cbv zeta.
  apply (close_pattern_ok (fun i src => DCloseSt i {| xg_d := de_d E; xg_s := sg |} src) m t n s Nd Ht C); [reflexivity|].
  cbn [apply_dev]. destruct (close_st_loop_ok (src_of (ds_x s)) (ds_errh s) (cl_hok s C) Ct) as (h' & A & H' & M & Q).
  exists h'. auto.
Qed.

Lemma dispatch_ge m t n sg s :
  sid_is sg "GE" = true -> ds_node s = (m, t) -> node_at (root_nodes m) t = Some n -> Clean s ->
  Errh.c_gs (ds_errh s) <> None ->
  exists s', dispatch_seg E sg s = (s', Ok tt) /\ Clean s' /\ Keep s s' /\ Errh.c_seg (ds_errh s') <> None.
Proof.
  intros Hge Nd Ht C Cg. pose proof (sid_is_sid _ _ Hge) as Hs. unfold dispatch_seg. other_ids Hs. rewrite Hge. cbv zeta.
  apply (close_pattern_ok (fun i src => DCloseGs i {| xg_d := de_d E; xg_s := sg |} src) m t n s Nd Ht C); [reflexivity|].
  cbn [apply_dev].
  destruct (close_gs_loop_ok (to_xseg {| xg_d := de_d E; xg_s := sg |}) (src_of (ds_x s)) (ds_errh s) (cl_hok s C) Cg Hs)
    as (h' & A & H' & M & Q).
  exists h'. auto.
Qed.

Lemma dispatch_iea m t n sg s :
  sid_is sg "IEA" = true -> ds_node s = (m, t) -> node_at (root_nodes m) t = Some n -> Clean s ->
  Errh.c_isa (ds_errh s) <> None ->
  exists s', dispatch_seg E sg s = (s', Ok tt) /\ Clean s' /\ Keep s s' /\ Errh.c_seg (ds_errh s') <> None.
Proof.
  intros Hi Nd Ht C Ci. pose proof (sid_is_sid _ _ Hi) as Hs. unfold dispatch_seg. other_ids Hs. rewrite Hi. cbv zeta.
  apply (close_pattern_ok (fun i src => DCloseIsa i {| xg_d := de_d E; xg_s := sg |} src) m t n s Nd Ht C); [reflexivity|].
  cbn [apply_dev]. destruct (close_isa_loop_ok (src_of (ds_x s)) (ds_errh s) (cl_hok s C) Ci) as (h' & A & H' & M & Q).
  exists h'. auto.
Qed.

(* ------------------------------------------------------------------ *)
(* find_node through the walker                                         *)

Lemma find_node_walk m p t sg s w1 :
  sid_is sg "ISA" = false -> sid_is sg "GS" = false -> ds_node s = (m, p) ->
  step_ok m d (ds_w s) p (t, sg) w1 ->
  find_node E sg s = (with_node (with_w s w1) (m, t), Ok true).
Proof.
  intros N1 N2 Nd S. unfold find_node. rewrite N1, N2, bind_get, Nd. cbn [fst snd de_d mkE].
  destruct (S (seg_count (ds_x s)) (cur_line (ds_x s)) None) as (pop & push & W). cbn [fst snd] in W. rewrite W.
  rewrite bind_mod. cbn [d_iter]. rewrite bind_ret. unfold d_lift. unfold d_bind at 1. cbn [fst snd].
  unfold set_node. rewrite bind_mod. reflexivity.
Qed.

(* ------------------------------------------------------------------ *)
(* LAYER (a): one segment inside an interchange                         *)

(* the handler has an open group / set whenever the reader has one *)
Definition Link (x : xstate) (h : Errh.errh) : Prop :=
  (has_kind x "GS" = true -> Errh.c_gs h <> None) /\ (has_kind x "ST" = true -> Errh.c_st h <> None).

Lemma top_has x k : top_kind_is (loops x) k = true -> has_kind x k = true.
Proof.
  unfold top_kind_is, has_kind. destruct (loops x) as [|[kd i] r]; [discriminate|]. intros H. cbn [existsb fst].
  change (Reader.l k) with (C02_whole_reader.l k) in H. rewrite H. reflexivity.
Qed.

Lemma Link_incl x x' h h' :
  Link x h -> (forall a, In a (loops x') -> In a (loops x)) -> mono h h' -> Link x' h'.
Proof.
  intros [L1 L2] I (_ & M2 & M3 & _). split; intros H; [apply M2, L1 | apply M3, L2]; eapply has_kind_incl; eauto.
Qed.

(* the state handed to `step` after the reader has read the line silently *)
Definition after_read (s : dstate) (x' : xstate) : dstate := with_pending (with_x s x') (ds_pending s ++ []).

Lemma Clean_after_read s x' : Clean s -> Clean (after_read s x').
Proof.
  intros [C1 C2 C3 C4]. constructor; cbn [after_read with_pending with_x ds_pending ds_valid ds_errh ds_trace]; try assumption.
  rewrite C1. reflexivity.
Qed.

Theorem item_step m p t sg s x' w1 :
  valid_wf m = true -> fmt_wf m = true -> item_conf m d (t, sg) = true ->
  sid_is sg "ISA" = false -> sid_is sg "GS" = false ->
  (sid_is sg "BHT" = true -> is_278_switch (ms_vriic (ds_sel s)) = false) ->
  ds_node s = (m, p) -> Clean s -> Errh.c_isa (ds_errh s) <> None -> Link (ds_x s) (ds_errh s) ->
  reader_step d (ds_x s) sg = Ok (x', []) ->
  step_ok m d (ds_w s) p (t, sg) w1 ->
  exists s', step E sg (after_read s x') = (s', Ok tt) /\ Clean s' /\
             ds_x s' = x' /\ ds_w s' = w1 /\ ds_node s' = (m, t) /\ ds_sel s' = ds_sel s /\
             mono (ds_errh s) (ds_errh s') /\ Link x' (ds_errh s') /\ Errh.c_seg (ds_errh s') <> None.
Proof.
  intros VW FW IC N1 N2 B Nd C Ci [Lg Lt] R S.
  pose proof (Clean_after_read s x' C) as C0.
  set (s0 := after_read s x') in *.
  assert (F : find_node E sg s0 = (with_node (with_w s0 w1) (m, t), Ok true)).
  { apply (find_node_walk m p t sg s0 w1 N1 N2); [exact Nd | exact S]. }
  set (s1 := with_node (with_w s0 w1) (m, t)) in *.
  assert (C1 : Clean s1) by (destruct C0 as [a b c e]; constructor; assumption).
  assert (Nd1 : ds_node s1 = (m, t)) by reflexivity.
  assert (Hn : exists sn, node_at (root_nodes m) t = Some (NSeg sn)).
  { unfold item_conf in IC. cbn [fst] in IC. destruct (node_at (root_nodes m) t) as [[? ? ? ? ? ? ?|sn]|]; try discriminate. eauto. }
  destruct Hn as [sn Ht].
  (* the branch *)
  assert (Dp : exists s2, dispatch_seg E sg s1 = (s2, Ok tt) /\ Clean s2 /\ Keep s1 s2 /\ Errh.c_seg (ds_errh s2) <> None /\
                          Link x' (ds_errh s2)).
  { destruct (sid_is sg "IEA") eqn:K1.
    { destruct (dispatch_iea m t _ sg s1 K1 Nd1 Ht C1 Ci) as (s2 & D2 & C2 & K2 & Q2).
      exists s2. repeat (split; [assumption|]).
      apply (Link_incl (ds_x s) x' (ds_errh s)); [split; assumption| |exact (kp_mono _ _ K2)].
      apply (reader_trailer_incl d (ds_x s) sg x' [] N1 N2); [|exact R].
      pose proof (sid_is_sid _ _ K1) as Hs. unfold sid_is. rewrite Hs. reflexivity. }
    destruct (sid_is sg "GE") eqn:K2.
    { destruct (silent_GE d (ds_x s) sg x' K2 R) as (i & rest & L1 & L2).
      assert (Cg : Errh.c_gs (ds_errh s1) <> None).
      { apply Lg. unfold has_kind. rewrite L1. cbn [existsb fst]. rewrite str_eqb_refl. reflexivity. }
      destruct (dispatch_ge m t _ sg s1 K2 Nd1 Ht C1 Cg) as (s2 & D2 & C2 & Kp & Q2).
      exists s2. repeat (split; [assumption|]).
      apply (Link_incl (ds_x s) x' (ds_errh s)); [split; assumption| |exact (kp_mono _ _ Kp)].
      intros a Ha. rewrite L1. right. rewrite <- L2. exact Ha. }
    destruct (sid_is sg "ST") eqn:K3.
    { destruct (silent_ST d (ds_x s) sg x' K3 R) as (Tk & i & L1).
      assert (Cg : Errh.c_gs (ds_errh s1) <> None) by (apply Lg, top_has, Tk).
      destruct (dispatch_st sg s1 K3 C1 Cg) as (s2 & D2 & C2 & Kp & Q2 & Q3).
      exists s2. repeat (split; [assumption|]).
      destruct (kp_mono _ _ Kp) as (_ & M2 & M3 & _). split.
      - intros _. apply M2, Cg.
      - intros _. exact Q3. }
    destruct (sid_is sg "SE") eqn:K4.
    { destruct (silent_SE d (ds_x s) sg x' K4 R) as (i & rest & L1 & L2).
      assert (Ct : Errh.c_st (ds_errh s1) <> None).
      { apply Lt. unfold has_kind. rewrite L1. cbn [existsb fst]. rewrite str_eqb_refl. reflexivity. }
      destruct (dispatch_se m t _ sg s1 K4 Nd1 Ht C1 Ct) as (s2 & D2 & C2 & Kp & Q2).
      exists s2. repeat (split; [assumption|]).
      apply (Link_incl (ds_x s) x' (ds_errh s)); [split; assumption| |exact (kp_mono _ _ Kp)].
      intros a Ha. rewrite L1. right. rewrite <- L2. exact Ha. }
    destruct (dispatch_plain m t _ sg s1 N1 K1 N2 K2 K3 K4 B Nd1 Ht C1) as (s2 & D2 & C2 & Kp & Q2).
    exists s2. repeat (split; [assumption|]).
    apply (Link_incl (ds_x s) x' (ds_errh s)); [split; assumption| |exact (kp_mono _ _ Kp)].
    apply (reader_trailer_incl d (ds_x s) sg x' [] N1 N2 K3 R). }
  destruct Dp as (s2 & D2 & C2 & K2 & Q2 & L2).
  assert (Nd2 : ds_node s2 = (m, t)) by (rewrite (kp_node _ _ K2); exact Nd1).
  destruct (validate_ok m t sg s2 VW FW IC Nd2 C2 Q2) as (s3 & V3 & C3 & K3).
  exists s3. split.
  { unfold step. rewrite (bind_ok _ _ _ _ _ F). rewrite (bind_ok _ _ _ _ _ D2). exact V3. }
  pose proof (Keep_trans _ _ _ K2 K3) as K.
  split; [exact C3|]. split; [rewrite (kp_x _ _ K); reflexivity|]. split; [rewrite (kp_w _ _ K); reflexivity|].
  split; [rewrite (kp_node _ _ K); reflexivity|]. split; [rewrite (kp_sel _ _ K); reflexivity|].
  split; [exact (kp_mono _ _ K)|].
  destruct (kp_mono _ _ K3) as (_ & M2 & M3 & M4 & _). split.
  - destruct L2 as [A1 A2]. split; intros H; [apply M2, A1, H | apply M3, A2, H].
  - apply M4, Q2.
Qed.

End Step.

Print Assumptions item_step.
