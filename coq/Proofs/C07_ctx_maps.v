(* C07_ctx_maps.v — the conditions of Spec/C07_ctx_spec.v evaluated on the shipped maps, the theorem on
   the shipped configuration, and the counterexample to the statement over `env_ok` alone.

   RESULTS (each line below is an Example proved by vm_compute):
   - ctx_wf holds on every shipped map file that loads (unusable maps included).
   - For every shipped map, the loop ids for which NO alternative k = 0..3 of `ctx_ok k` holds are listed
     by `bad_lids`: DETAIL in 17 maps (its first child is the loop 2000A / 2000 / ...), TABLE2AREA2 and
     TABLE2AREA3 in 820.5010.X218 (same shape); nothing else.
   - On the shipped environment (`shipped_load`, without 277.5010.X212, 820.4010.X061.A1, 830.4010.PS
     which already fail map_ok): the alternative is 0 for ISA_LOOP, 2 for GS_LOOP and ST_LOOP, 3 for
     HEADER, 1 for every other loop id and for "no loop id". *)
From Coq Require Import String List.
From PX.Lib Require Import Base PyStr Xml.
From PX.Gen Require Import MapRegexes.
From PX.Gen.Maps Require M_dataele M_codes M_maps.
From PX.Model Require Import Segment MapLoad MapTree Walker Driver Context CtxReader.
From PX.Spec Require C01_spec.
From PX.Spec Require Import C07_walker_wf C07_valid_wf C07_spec C07_ctx_spec.
From PX.Proofs Require Import C07_walker_lemmas C07_driver_maps C07_ctx_step.
Import ListNotations.

(* ---- per map ---- *)
Definition ctx_wf_tree (t : xml) : bool :=
  match load_tree t with Ok m => ctx_wf m | Raise _ => false end.

Fixpoint dedup (xs : list str) : list str :=
  match xs with [] => [] | x :: r => if existsb (str_eqb x) r then dedup r else x :: dedup r end.

Definition loop_ids (m : xmap) : list str :=
  dedup (flat_map (fun r => match node_at (root_nodes m) r with Some (NLoop (Some i) _ _ _ _ _ _) => [i] | _ => [] end)
                  (all_refs m)).

(* the loop ids of the map for which none of the four alternatives holds *)
Definition bad_lids (t : xml) : list string :=
  match load_tree t with
  | Ok m => map string_of_list_ascii
              (filter (fun i => negb (existsb (fun k => ctx_ok k (Some i) m) [0; 1; 2; 3])) (loop_ids m))
  | Raise _ => []
  end.

(* without a loop id *)
Definition none_ok_tree (t : xml) : bool :=
  match load_tree t with Ok m => ctx_ok 1 None m | Raise _ => false end.


From PX.Gen.Maps Require M_270_4010_X092_A1.
Example ctx_wf_270_4010_X092_A1 : ctx_wf_tree M_270_4010_X092_A1.tree = true.
Proof. vm_compute. reflexivity. Qed.
Example none_ok_270_4010_X092_A1 : none_ok_tree M_270_4010_X092_A1.tree = true.
Proof. vm_compute. reflexivity. Qed.
Example bad_lids_270_4010_X092_A1 : bad_lids M_270_4010_X092_A1.tree = ["DETAIL"%string].
Proof. vm_compute. reflexivity. Qed.

From PX.Gen.Maps Require M_271_4010_X092_A1.
Example ctx_wf_271_4010_X092_A1 : ctx_wf_tree M_271_4010_X092_A1.tree = true.
Proof. vm_compute. reflexivity. Qed.
Example none_ok_271_4010_X092_A1 : none_ok_tree M_271_4010_X092_A1.tree = true.
Proof. vm_compute. reflexivity. Qed.
Example bad_lids_271_4010_X092_A1 : bad_lids M_271_4010_X092_A1.tree = ["DETAIL"%string].
Proof. vm_compute. reflexivity. Qed.

From PX.Gen.Maps Require M_276_4010_X093_A1.
Example ctx_wf_276_4010_X093_A1 : ctx_wf_tree M_276_4010_X093_A1.tree = true.
Proof. vm_compute. reflexivity. Qed.
Example none_ok_276_4010_X093_A1 : none_ok_tree M_276_4010_X093_A1.tree = true.
Proof. vm_compute. reflexivity. Qed.
Example bad_lids_276_4010_X093_A1 : bad_lids M_276_4010_X093_A1.tree = ["DETAIL"%string].
Proof. vm_compute. reflexivity. Qed.

From PX.Gen.Maps Require M_277U_4010_X070.
Example ctx_wf_277U_4010_X070 : ctx_wf_tree M_277U_4010_X070.tree = true.
Proof. vm_compute. reflexivity. Qed.
Example none_ok_277U_4010_X070 : none_ok_tree M_277U_4010_X070.tree = true.
Proof. vm_compute. reflexivity. Qed.
Example bad_lids_277U_4010_X070 : bad_lids M_277U_4010_X070.tree = ["DETAIL"%string].
Proof. vm_compute. reflexivity. Qed.

From PX.Gen.Maps Require M_277_4010_X093_A1.
Example ctx_wf_277_4010_X093_A1 : ctx_wf_tree M_277_4010_X093_A1.tree = true.
Proof. vm_compute. reflexivity. Qed.
Example none_ok_277_4010_X093_A1 : none_ok_tree M_277_4010_X093_A1.tree = true.
Proof. vm_compute. reflexivity. Qed.
Example bad_lids_277_4010_X093_A1 : bad_lids M_277_4010_X093_A1.tree = ["DETAIL"%string].
Proof. vm_compute. reflexivity. Qed.

From PX.Gen.Maps Require M_277_5010_X214.
Example ctx_wf_277_5010_X214 : ctx_wf_tree M_277_5010_X214.tree = true.
Proof. vm_compute. reflexivity. Qed.
Example none_ok_277_5010_X214 : none_ok_tree M_277_5010_X214.tree = true.
Proof. vm_compute. reflexivity. Qed.
Example bad_lids_277_5010_X214 : bad_lids M_277_5010_X214.tree = ["DETAIL"%string].
Proof. vm_compute. reflexivity. Qed.

From PX.Gen.Maps Require M_278_4010_X094_27_A1.
Example ctx_wf_278_4010_X094_27_A1 : ctx_wf_tree M_278_4010_X094_27_A1.tree = true.
Proof. vm_compute. reflexivity. Qed.
Example none_ok_278_4010_X094_27_A1 : none_ok_tree M_278_4010_X094_27_A1.tree = true.
Proof. vm_compute. reflexivity. Qed.
Example bad_lids_278_4010_X094_27_A1 : bad_lids M_278_4010_X094_27_A1.tree = ["DETAIL"%string].
Proof. vm_compute. reflexivity. Qed.

From PX.Gen.Maps Require M_278_4010_X094_A1.
Example ctx_wf_278_4010_X094_A1 : ctx_wf_tree M_278_4010_X094_A1.tree = true.
Proof. vm_compute. reflexivity. Qed.
Example none_ok_278_4010_X094_A1 : none_ok_tree M_278_4010_X094_A1.tree = true.
Proof. vm_compute. reflexivity. Qed.
Example bad_lids_278_4010_X094_A1 : bad_lids M_278_4010_X094_A1.tree = ["DETAIL"%string].
Proof. vm_compute. reflexivity. Qed.

From PX.Gen.Maps Require M_820_5010_X218.
Example ctx_wf_820_5010_X218 : ctx_wf_tree M_820_5010_X218.tree = true.
Proof. vm_compute. reflexivity. Qed.
Example none_ok_820_5010_X218 : none_ok_tree M_820_5010_X218.tree = true.
Proof. vm_compute. reflexivity. Qed.
Example bad_lids_820_5010_X218 : bad_lids M_820_5010_X218.tree = ["TABLE2AREA2"%string; "TABLE2AREA3"%string].
Proof. vm_compute. reflexivity. Qed.

From PX.Gen.Maps Require M_820_5010_X218_v2.
Example ctx_wf_820_5010_X218_v2 : ctx_wf_tree M_820_5010_X218_v2.tree = true.
Proof. vm_compute. reflexivity. Qed.
Example none_ok_820_5010_X218_v2 : none_ok_tree M_820_5010_X218_v2.tree = true.
Proof. vm_compute. reflexivity. Qed.
Example bad_lids_820_5010_X218_v2 : bad_lids M_820_5010_X218_v2.tree = [].
Proof. vm_compute. reflexivity. Qed.

From PX.Gen.Maps Require M_834_4010_X095_A1.
Example ctx_wf_834_4010_X095_A1 : ctx_wf_tree M_834_4010_X095_A1.tree = true.
Proof. vm_compute. reflexivity. Qed.
Example none_ok_834_4010_X095_A1 : none_ok_tree M_834_4010_X095_A1.tree = true.
Proof. vm_compute. reflexivity. Qed.
Example bad_lids_834_4010_X095_A1 : bad_lids M_834_4010_X095_A1.tree = ["DETAIL"%string].
Proof. vm_compute. reflexivity. Qed.

From PX.Gen.Maps Require M_834_5010_X220_A1.
Example ctx_wf_834_5010_X220_A1 : ctx_wf_tree M_834_5010_X220_A1.tree = true.
Proof. vm_compute. reflexivity. Qed.
Example none_ok_834_5010_X220_A1 : none_ok_tree M_834_5010_X220_A1.tree = true.
Proof. vm_compute. reflexivity. Qed.
Example bad_lids_834_5010_X220_A1 : bad_lids M_834_5010_X220_A1.tree = ["DETAIL"%string].
Proof. vm_compute. reflexivity. Qed.

From PX.Gen.Maps Require M_834_5010_X220_A1_v2.
Example ctx_wf_834_5010_X220_A1_v2 : ctx_wf_tree M_834_5010_X220_A1_v2.tree = true.
Proof. vm_compute. reflexivity. Qed.
Example none_ok_834_5010_X220_A1_v2 : none_ok_tree M_834_5010_X220_A1_v2.tree = true.
Proof. vm_compute. reflexivity. Qed.
Example bad_lids_834_5010_X220_A1_v2 : bad_lids M_834_5010_X220_A1_v2.tree = [].
Proof. vm_compute. reflexivity. Qed.

From PX.Gen.Maps Require M_835_4010_X091_A1.
Example ctx_wf_835_4010_X091_A1 : ctx_wf_tree M_835_4010_X091_A1.tree = true.
Proof. vm_compute. reflexivity. Qed.
Example none_ok_835_4010_X091_A1 : none_ok_tree M_835_4010_X091_A1.tree = true.
Proof. vm_compute. reflexivity. Qed.
Example bad_lids_835_4010_X091_A1 : bad_lids M_835_4010_X091_A1.tree = ["DETAIL"%string].
Proof. vm_compute. reflexivity. Qed.

From PX.Gen.Maps Require M_835_5010_X221_A1.
Example ctx_wf_835_5010_X221_A1 : ctx_wf_tree M_835_5010_X221_A1.tree = true.
Proof. vm_compute. reflexivity. Qed.
Example none_ok_835_5010_X221_A1 : none_ok_tree M_835_5010_X221_A1.tree = true.
Proof. vm_compute. reflexivity. Qed.
Example bad_lids_835_5010_X221_A1 : bad_lids M_835_5010_X221_A1.tree = ["DETAIL"%string].
Proof. vm_compute. reflexivity. Qed.

From PX.Gen.Maps Require M_835_5010_X221_A1_v2.
Example ctx_wf_835_5010_X221_A1_v2 : ctx_wf_tree M_835_5010_X221_A1_v2.tree = true.
Proof. vm_compute. reflexivity. Qed.
Example none_ok_835_5010_X221_A1_v2 : none_ok_tree M_835_5010_X221_A1_v2.tree = true.
Proof. vm_compute. reflexivity. Qed.
Example bad_lids_835_5010_X221_A1_v2 : bad_lids M_835_5010_X221_A1_v2.tree = [].
Proof. vm_compute. reflexivity. Qed.

From PX.Gen.Maps Require M_837Q3_I_5010_X223_A1.
Example ctx_wf_837Q3_I_5010_X223_A1 : ctx_wf_tree M_837Q3_I_5010_X223_A1.tree = true.
Proof. vm_compute. reflexivity. Qed.
Example none_ok_837Q3_I_5010_X223_A1 : none_ok_tree M_837Q3_I_5010_X223_A1.tree = true.
Proof. vm_compute. reflexivity. Qed.
Example bad_lids_837Q3_I_5010_X223_A1 : bad_lids M_837Q3_I_5010_X223_A1.tree = ["DETAIL"%string].
Proof. vm_compute. reflexivity. Qed.

From PX.Gen.Maps Require M_837Q3_I_5010_X223_A1_v2.
Example ctx_wf_837Q3_I_5010_X223_A1_v2 : ctx_wf_tree M_837Q3_I_5010_X223_A1_v2.tree = true.
Proof. vm_compute. reflexivity. Qed.
Example none_ok_837Q3_I_5010_X223_A1_v2 : none_ok_tree M_837Q3_I_5010_X223_A1_v2.tree = true.
Proof. vm_compute. reflexivity. Qed.
Example bad_lids_837Q3_I_5010_X223_A1_v2 : bad_lids M_837Q3_I_5010_X223_A1_v2.tree = [].
Proof. vm_compute. reflexivity. Qed.

From PX.Gen.Maps Require M_837_4010_X096_A1.
Example ctx_wf_837_4010_X096_A1 : ctx_wf_tree M_837_4010_X096_A1.tree = true.
Proof. vm_compute. reflexivity. Qed.
Example none_ok_837_4010_X096_A1 : none_ok_tree M_837_4010_X096_A1.tree = true.
Proof. vm_compute. reflexivity. Qed.
Example bad_lids_837_4010_X096_A1 : bad_lids M_837_4010_X096_A1.tree = ["DETAIL"%string].
Proof. vm_compute. reflexivity. Qed.

From PX.Gen.Maps Require M_837_4010_X097_A1.
Example ctx_wf_837_4010_X097_A1 : ctx_wf_tree M_837_4010_X097_A1.tree = true.
Proof. vm_compute. reflexivity. Qed.
Example none_ok_837_4010_X097_A1 : none_ok_tree M_837_4010_X097_A1.tree = true.
Proof. vm_compute. reflexivity. Qed.
Example bad_lids_837_4010_X097_A1 : bad_lids M_837_4010_X097_A1.tree = ["DETAIL"%string].
Proof. vm_compute. reflexivity. Qed.

From PX.Gen.Maps Require M_837_4010_X098_A1.
Example ctx_wf_837_4010_X098_A1 : ctx_wf_tree M_837_4010_X098_A1.tree = true.
Proof. vm_compute. reflexivity. Qed.
Example none_ok_837_4010_X098_A1 : none_ok_tree M_837_4010_X098_A1.tree = true.
Proof. vm_compute. reflexivity. Qed.
Example bad_lids_837_4010_X098_A1 : bad_lids M_837_4010_X098_A1.tree = ["DETAIL"%string].
Proof. vm_compute. reflexivity. Qed.

From PX.Gen.Maps Require M_837_5010_X222_A1.
Example ctx_wf_837_5010_X222_A1 : ctx_wf_tree M_837_5010_X222_A1.tree = true.
Proof. vm_compute. reflexivity. Qed.
Example none_ok_837_5010_X222_A1 : none_ok_tree M_837_5010_X222_A1.tree = true.
Proof. vm_compute. reflexivity. Qed.
Example bad_lids_837_5010_X222_A1 : bad_lids M_837_5010_X222_A1.tree = ["DETAIL"%string].
Proof. vm_compute. reflexivity. Qed.

From PX.Gen.Maps Require M_841_4010_XXXC.
Example ctx_noload_841_4010_XXXC : load_tree M_841_4010_XXXC.tree = Raise EngineError.
Proof. vm_compute. reflexivity. Qed.

From PX.Gen.Maps Require M_997_4010.
Example ctx_wf_997_4010 : ctx_wf_tree M_997_4010.tree = true.
Proof. vm_compute. reflexivity. Qed.
Example none_ok_997_4010 : none_ok_tree M_997_4010.tree = true.
Proof. vm_compute. reflexivity. Qed.
Example bad_lids_997_4010 : bad_lids M_997_4010.tree = [].
Proof. vm_compute. reflexivity. Qed.

From PX.Gen.Maps Require M_999_5010.
Example ctx_wf_999_5010 : ctx_wf_tree M_999_5010.tree = true.
Proof. vm_compute. reflexivity. Qed.
Example none_ok_999_5010 : none_ok_tree M_999_5010.tree = true.
Proof. vm_compute. reflexivity. Qed.
Example bad_lids_999_5010 : bad_lids M_999_5010.tree = [].
Proof. vm_compute. reflexivity. Qed.

From PX.Gen.Maps Require M_999_5010X231_A1.
Example ctx_wf_999_5010X231_A1 : ctx_wf_tree M_999_5010X231_A1.tree = true.
Proof. vm_compute. reflexivity. Qed.
Example none_ok_999_5010X231_A1 : none_ok_tree M_999_5010X231_A1.tree = true.
Proof. vm_compute. reflexivity. Qed.
Example bad_lids_999_5010X231_A1 : bad_lids M_999_5010X231_A1.tree = [].
Proof. vm_compute. reflexivity. Qed.

From PX.Gen.Maps Require M_comp_test.
Example ctx_wf_comp_test : ctx_wf_tree M_comp_test.tree = true.
Proof. vm_compute. reflexivity. Qed.
Example none_ok_comp_test : none_ok_tree M_comp_test.tree = true.
Proof. vm_compute. reflexivity. Qed.
Example bad_lids_comp_test : bad_lids M_comp_test.tree = [].
Proof. vm_compute. reflexivity. Qed.

From PX.Gen.Maps Require M_x12_control_00401.
Example ctx_wf_x12_control_00401 : ctx_wf_tree M_x12_control_00401.tree = true.
Proof. vm_compute. reflexivity. Qed.
Example none_ok_x12_control_00401 : none_ok_tree M_x12_control_00401.tree = true.
Proof. vm_compute. reflexivity. Qed.
Example bad_lids_x12_control_00401 : bad_lids M_x12_control_00401.tree = [].
Proof. vm_compute. reflexivity. Qed.

From PX.Gen.Maps Require M_x12_control_00501.
Example ctx_wf_x12_control_00501 : ctx_wf_tree M_x12_control_00501.tree = true.
Proof. vm_compute. reflexivity. Qed.
Example none_ok_x12_control_00501 : none_ok_tree M_x12_control_00501.tree = true.
Proof. vm_compute. reflexivity. Qed.
Example bad_lids_x12_control_00501 : bad_lids M_x12_control_00501.tree = [].
Proof. vm_compute. reflexivity. Qed.

(* ---- the environment ---- *)
Definition centry_ok (k : nat) (lid : option str) (p : string * xml) : bool :=
  match load_tree (snd p) with Ok m => cmap_ok k lid m | Raise e => allowed e end.

Definition shipped_lid_ok (k : nat) (lid : option str) : bool := forallb (centry_ok k lid) shipped.

Lemma assoc_cenv_ok e ix k lid : forallb (centry_ok k lid) e = true -> cenv_ok lid (assoc_load e) (Ok ix).
Proof.
  intros H. exists k. split; [|split].
  - induction e as [|[n t] e IH]; intros name m L; cbn [assoc_load] in L; [discriminate L|].
    cbn [forallb] in H. apply andb_true_iff in H as [H1 H2].
    destruct (str_eqb (sl n) name); [|exact (IH H2 name m L)].
    unfold centry_ok in H1. cbn [snd] in H1. rewrite L in H1. exact H1.
  - induction e as [|[n t] e IH]; intros name x L; cbn [assoc_load] in L; [injection L as <-; reflexivity|].
    cbn [forallb] in H. apply andb_true_iff in H as [H1 H2].
    destruct (str_eqb (sl n) name); [|exact (IH H2 name x L)].
    unfold centry_ok in H1. cbn [snd] in H1. rewrite L in H1. exact H1.
  - intros x L. discriminate L.
Qed.

(* the theorem on the shipped configuration, for a loop id that passes the (computable) check *)
Theorem shipped_ctx_total :
  forall k loop_id text,
    shipped_lid_ok k loop_id = true -> plain_delims text = true ->
    match ir_res (iter_segments_gen shipped_load shipped_idx loop_id text) with Ok _ => True | Raise e => allowed e = true end.
Proof.
  intros k lid text H P. apply ctx_reader_total; [|exact P]. unfold shipped_load, shipped_idx. apply assoc_cenv_ok with (k := k). exact H.
Qed.

(* the check on some loop ids *)
Example shipped_none : shipped_lid_ok 1 None = true.
Proof. vm_compute. reflexivity. Qed.
Example shipped_ISA_LOOP : shipped_lid_ok 0 (Some (sl "ISA_LOOP")) = true.
Proof. vm_compute. reflexivity. Qed.
Example shipped_GS_LOOP : shipped_lid_ok 2 (Some (sl "GS_LOOP")) = true.
Proof. vm_compute. reflexivity. Qed.
Example shipped_ST_LOOP : shipped_lid_ok 2 (Some (sl "ST_LOOP")) = true.
Proof. vm_compute. reflexivity. Qed.
Example shipped_HEADER : shipped_lid_ok 3 (Some (sl "HEADER")) = true.
Proof. vm_compute. reflexivity. Qed.
Example shipped_2000A : shipped_lid_ok 1 (Some (sl "2000A")) = true.
Proof. vm_compute. reflexivity. Qed.
Example shipped_2300 : shipped_lid_ok 1 (Some (sl "2300")) = true.
Proof. vm_compute. reflexivity. Qed.
Example shipped_2400 : shipped_lid_ok 1 (Some (sl "2400")) = true.
Proof. vm_compute. reflexivity. Qed.
Example shipped_DETAIL : map (fun k => shipped_lid_ok k (Some (sl "DETAIL"))) [0; 1; 2; 3] = [false; false; false; false].
Proof. vm_compute. reflexivity. Qed.

Corollary shipped_ctx_total_none :
  forall text, plain_delims text = true ->
    match ir_res (iter_segments_gen shipped_load shipped_idx None text) with Ok _ => True | Raise e => allowed e = true end.
Proof. intros text P. exact (shipped_ctx_total 1 None text shipped_none P). Qed.

(* ---- the statement over env_ok alone is false ---- *)
(* ISA, GS (837 004010X098A1), ST, HL with loop_id = "DETAIL": DETAIL starts with the loop 2000A, so the
   HL is `in the requested loop` but not `at its start`; cur_data_node is the plain node built for ST,
   whose `parent` is the list of pushed loops: _add_segment reads `[...].x12_map_node`: AttributeError
   (x12context.py:973).  Confirmed on the implementation. *)
Definition ctx_detail_text : str :=
  sl ("ISA*00*          *00*          *ZZ*ZZ000          *ZZ*ZZ001          *030828*1128*U*00401*000010121*0*T*:~" ++
      "GS*HC*ZZ000*ZZ001*20030828*1128*17*X*004010X098A1~ST*837*11280001~HL*1**20*1~").

Example ctx_detail_plain : plain_delims ctx_detail_text = true.
Proof. vm_compute. reflexivity. Qed.

Example ctx_detail_raises :
  ir_res (iter_segments_gen shipped_load shipped_idx (Some (sl "DETAIL")) ctx_detail_text) = Raise AttributeError.
Proof. vm_compute. reflexivity. Qed.

(* the same text without a loop id, or with a loop that starts with a segment, is read to the end *)
Example ctx_detail_none_ok :
  ir_res (iter_segments_gen shipped_load shipped_idx None ctx_detail_text) = Ok tt.
Proof. vm_compute. reflexivity. Qed.
Example ctx_detail_2000A_ok :
  ir_res (iter_segments_gen shipped_load shipped_idx (Some (sl "2000A")) ctx_detail_text) = Ok tt.
Proof. vm_compute. reflexivity. Qed.

Theorem ctx_reader_total_env_ok_false : ~ ctx_reader_total_env_ok_stmt.
Proof.
  intros H. specialize (H shipped_load shipped_idx (Some (sl "DETAIL")) ctx_detail_text shipped_env_ok ctx_detail_plain).
  rewrite ctx_detail_raises in H. discriminate H.
Qed.

Print Assumptions shipped_ctx_total.
Print Assumptions shipped_ctx_total_none.
Print Assumptions ctx_reader_total_env_ok_false.
