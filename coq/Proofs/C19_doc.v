(* C19_doc.v — property C19 at the DOCUMENT level: for ANY environment (load, idx), clock, dtd, text and sink
   mask with the HTML sink on, whenever x12n_document completes (o_result = Ok b):

     doc_structure   the gen_seg calls are exactly those of the views of the sink-less run (one per segment, in
                     order, each completing), and the report is header ++ the writes of those calls ++ footer
     doc_calls       (segment, line number) of the calls = the reader's segments of the source with the reader's
                     line numbers (Spec/C09_spec.v source_items): every source segment once, in source order
     doc_strip       what a tag stripper leaves of the report (under the side conditions of C19_segment_text)
     doc_tags        every tag of the report is one of the template's

   The only completed run without a report: the reader cannot read the ISA header (X12Error) — x12n_document
   returns False before any sink object is created, fd_html stays EMPTY (no header, no footer). *)
From Coq Require Import String.
From PX.Lib Require Import Base PyStr PyInt.
From PX.Model Require Import Path Segment Raw Reader MapLoad MapTree Walker MapEnv Driver Pipeline.
From PX.Model Require Errh ErrIter OutW Html XmlOut Ack997 Ack999.
From PX.Spec Require Import C09_spec C19_spec C19_doc_spec.
From PX.Proofs Require Import C09_reader C19_lemmas C19_html C19_doc_frame C19_doc_run.

(* ------------------------------------------------------------------ *)
(* small list facts                                                     *)

Lemma concat_concat_map {A B} (f : A -> list (list B)) xs :
  concat (concat (map f xs)) = concat (map (fun x => concat (f x)) xs).
Proof.
  induction xs as [|x xs IH]; [reflexivity|]. cbn [map concat]. rewrite concat_app, IH. reflexivity.
Qed.

Lemma concat_concat_map_str {A} (f : A -> list str) xs :
  concat (concat (map f xs)) = concat (map (fun x => concat (f x)) xs).
Proof. exact (concat_concat_map f xs). Qed.

Lemma text_of_snoc (t : sink_text) ws : text_of (ws :: t) = text_of t ++ concat ws.
Proof.
  unfold text_of. cbn [rev]. rewrite concat_app, concat_app. cbn [concat]. rewrite !app_nil_r. reflexivity.
Qed.

(* ------------------------------------------------------------------ *)
(* the structure of a completed run                                     *)

Theorem doc_structure :
  forall load idx clk htime dtd sk text b,
    want_html sk = true ->
    let r := run_pipeline_gen load idx clk htime dtd sk text in
    o_result r = Ok b ->
    (raw_all {| rest := text; sched := [] |} = Raise X12Error /\ r = no_output (Ok false))
    \/
    exists E lines d0 views d1 d2 b' fw,
      doc_setup load idx text = Ok (E, lines, d0) /\
      doc_views E lines d0 ErrIter.iter_init = Ok (views, d1) /\
      finish d1 = (d2, Ok b') /\
      Html.html_footer (ds_errh d2) tt = (tt, fw, Ok tt) /\
      Forall (view_ok (de_d E)) views /\
      o_html_calls r = map (view_call (de_d E)) views /\
      o_html r = concat (Html.html_header htime) ++
                 concat (map (fun v => concat (view_writes (de_d E) v)) views) ++
                 concat fw.
Proof.
  intros load idx clk htime dtd sk text b WH r. subst r. unfold run_pipeline_gen, doc_setup.
  destruct (raw_all _) as [[r0 lines]|e] eqn:RA.
  2:{ destruct e; cbn [o_result no_output]; intros H; try discriminate H. left. split; reflexivity. }
  cbn [bind fst snd].
  destruct (load (control_name (r_icvn r0))) as [cm|e]; cbn [bind]; [|discriminate].
  destruct idx as [ix|e]; cbn [bind]; [|discriminate].
  destruct (getnode cm "/ISA_LOOP/ISA") as [n0|e]; cbn [bind]; [|discriminate].
  set (E := {| de_load := load; de_idx := ix; de_cm := cm; de_d := delims_of r0 |}).
  set (d0 := Build_dstate _ _ _ _ _ _ _ _).
  set (s0 := Build_pstate _ _ _ _ _ _ _ _ _).
  destruct ((dop_ p_open htime dtd sk; dop_ p_lines E sk lines; p_finish clk sk) s0) as [s1 res] eqn:RUN.
  cbn [o_result outputs_of]. intros ->. right.
  apply p_bind_ok in RUN as (sa & [] & OP & RUN).
  apply p_bind_ok in RUN as (sb & [] & LN & FN).
  (* p_open *)
  assert (OA : ps_d sa = d0 /\ ps_iter sa = ErrIter.iter_init /\ ps_html sa = Html.html_init /\
               ps_html_out sa = [Html.html_header htime] /\ ps_calls sa = []).
  { unfold p_open in OP. rewrite WH in OP.
    apply p_bind_ok in OP as (sc & [] & O1 & O2). unfold p_mod in O1. injection O1 as <-.
    destruct (want_xml sk).
    - apply p_bind_ok in O2 as (sd & [] & O3 & O4). unfold p_mod in O3. injection O3 as <-.
      pose proof (p_xml_same (XmlOut.simple_init dtd) (set_xml_live (add_html_out s0 (Html.html_header htime)) true))
        as (A1 & A2 & A3 & A4 & A5).
      rewrite O4 in A1, A2, A3, A4, A5. cbn [fst] in *. repeat split; assumption.
    - unfold p_ret in O2. injection O2 as <-. repeat split. }
  destruct OA as (OD & OI & OH & OO & OC).
  destruct (p_lines_views E sk WH lines sa sb OH LN) as (views & EV & HF & VO & VC & VW).
  destruct (p_finish_inv clk sk sb s1 b WH FN) as (d2 & b' & fw & EF & EFT & FO & FC).
  rewrite OD, OI in EV.
  exists E, lines, d0, views, (ps_d sb), d2, b', fw.
  split; [reflexivity|]. split; [exact EV|]. split; [exact EF|]. split; [exact EFT|]. split; [exact VO|].
  assert (SX : ps_html_out (if ps_xml_live s1 then fst (p_xml XmlOut.simple_del s1) else s1) = ps_html_out s1 /\
               ps_calls (if ps_xml_live s1 then fst (p_xml XmlOut.simple_del s1) else s1) = ps_calls s1).
  { destruct (ps_xml_live s1); [|split; reflexivity].
    pose proof (p_xml_same XmlOut.simple_del s1) as (_ & _ & _ & A4 & A5). split; assumption. }
  destruct SX as [SO SC]. unfold outputs_of. cbv zeta. cbn [o_html_calls o_html]. rewrite SO, SC, FO, FC, VC, VW, OO, OC.
  split.
  - rewrite app_nil_r, rev_involutive. reflexivity.
  - rewrite text_of_snoc. unfold text_of. rewrite rev_app_distr, rev_involutive. cbn [rev app].
    cbn [concat]. rewrite concat_app, concat_concat_map_str, <- app_assoc. reflexivity.
Qed.

(* ------------------------------------------------------------------ *)
(* the views against the reader's own account of the source             *)

Lemma xeq_trans a b c : xeq a b -> xeq b c -> xeq a c.
Proof. intros [A1 A2] [B1 B2]. split; congruence. Qed.

Lemma views_source E : forall lines d it x views d',
  xeq (ds_x d) x -> doc_views E lines d it = Ok (views, d') ->
  exists its, source_fold (de_d E) x lines = Ok its /\
              map (fun v => (sv_seg v, sv_line v)) views = map (fun t : seg * Z * Z => (fst (fst t), snd t)) its.
Proof.
  induction lines as [|ln rest IH]; intros d it x views d' XQ H; cbn [doc_views] in H.
  - injection H as <- _. exists []. split; reflexivity.
  - destruct (read_line E ln d) as [d1 [os|e]] eqn:ER; [|discriminate H].
    apply read_line_inv in ER as (x' & es & RL & ->).
    pose proof (rlo_proj (de_d E) (ds_x d) x ln XQ) as PJ. rewrite RL in PJ. cbn [lproj] in PJ.
    cbn [source_fold].
    destruct (reader_line_opt (de_d E) x ln) as [[[y' os'] es']|e]; cbn [lproj] in PJ; [|discriminate PJ].
    injection PJ as -> SC CL. cbn [bind].
    assert (XQ1 : xeq x' y') by (split; assumption).
    destruct os' as [sg|].
    + destruct (step E sg _) as [d2 [[]|e]] eqn:ES; [|discriminate H].
      destruct (heading_of (ds_node d2)) as [info|e]; cbn [bind] in H; [|discriminate H].
      destruct (ErrIter.collect_new (ds_errh d2) it) as [it' [nodes|e]]; [|discriminate H].
      destruct (doc_views E rest d2 it') as [[more d3]|e] eqn:EV; cbn [bind fst snd] in H; [|discriminate H].
      injection H as <- <-.
      pose proof (step_xeq _ _ _ _ ES) as SX. cbn [ds_x with_pending with_x] in SX.
      assert (XQ2 : xeq (ds_x d2) y') by (eapply xeq_trans; eauto).
      destruct (IH d2 it' y' more d3 XQ2 EV) as (its & SF & EM).
      rewrite SF. cbn [bind]. eexists. split; [reflexivity|].
      cbn [map fst snd sv_seg sv_line]. rewrite EM. destruct XQ2 as [_ ->]. reflexivity.
    + destruct (IH _ it y' views d' (XQ1 : xeq (ds_x (with_pending (with_x d x') (ds_pending d ++ es))) y') H) as (its & SF & EM).
      rewrite SF. cbn [bind]. exists its. split; [reflexivity | exact EM].
Qed.

(* 1. every source segment, once, in source order, with the reader's line number *)
Theorem doc_calls :
  forall load idx clk htime dtd sk text b,
    want_html sk = true ->
    let r := run_pipeline_gen load idx clk htime dtd sk text in
    o_result r = Ok b ->
    (source_lines text = Raise X12Error /\ shown_segments r = [] /\ o_html r = [] /\ b = false)
    \/
    (source_lines text = Ok (shown_segments r) /\
     exists ra, raw_all {| rest := text; sched := [] |} = Ok ra /\
                Forall (fun c => Errh.xs_d (fst (fst c)) = delims_of (fst ra)) (o_html_calls r)).
Proof.
  intros load idx clk htime dtd sk text b WH r RES.
  destruct (doc_structure load idx clk htime dtd sk text b WH RES) as [[RA EQ]|ST].
  - left. fold r in EQ. rewrite EQ in *. unfold source_lines, source_items. rewrite RA. cbn [bind].
    cbn [o_result no_output] in RES. injection RES as <-. repeat split.
  - right. destruct ST as (E & lines & d0 & views & d1 & d2 & b' & fw & SU & EV & _ & _ & _ & EC & _).
    fold r in EC. unfold doc_setup in SU.
    destruct (raw_all _) as [ra|e] eqn:RA; cbn [bind] in SU; [|discriminate SU].
    destruct (load _) as [cm|e]; cbn [bind] in SU; [|discriminate SU].
    destruct idx as [ix|e]; cbn [bind] in SU; [|discriminate SU].
    destruct (getnode cm _) as [n0|e]; cbn [bind] in SU; [|discriminate SU].
    injection SU as <- <- <-.
    split.
    + unfold source_lines, source_items. rewrite RA. cbn [bind].
      match type of EV with doc_views ?E0 _ ?d _ = _ =>
        destruct (views_source E0 (snd ra) d ErrIter.iter_init x_init views d1 (conj eq_refl eq_refl) EV) as (its & SF & EM) end.
      cbn [de_d] in SF. rewrite SF. cbn [bind]. f_equal.
      unfold shown_segments. rewrite EC, map_map. cbn [view_call fst snd Errh.xs_s].
      transitivity (map (fun p : seg * Z => (fst p, Some (snd p))) (map (fun v => (sv_seg v, sv_line v)) views)).
      * rewrite EM, map_map. reflexivity.
      * rewrite map_map. reflexivity.
    + exists ra. split; [reflexivity|]. rewrite EC. apply Forall_forall. intros c Hc.
      apply in_map_iff in Hc as (v & <- & _). reflexivity.
Qed.

Print Assumptions doc_structure.
Print Assumptions doc_calls.
