(* C09_reader.v — the segments the X12Reader delivers and its two counters seg_count / cur_line do not
   depend on anything else in the reader state (in particular not on check_837_lx, which the context
   reader assigns while iterating). *)
From Coq Require Import String List ZArith Lia.
From PX.Lib Require Import Base PyStr PyInt.
From PX.Model Require Import Path Segment Raw Reader.
From PX.Spec Require Import C09_spec.
Import ListNotations.

Definition xeq (x y : xstate) : Prop := seg_count x = seg_count y /\ cur_line x = cur_line y.

Definition bproj (r : result (xstate * list err)) : result (Z * Z) :=
  match r with Ok (x', _) => Ok (seg_count x', cur_line x') | Raise e => Raise e end.

Lemma base_proj d x y s : xeq x y -> bproj (base_step d x s) = bproj (base_step d y s).
Proof.
  intros [H1 H2]. unfold base_step.
  destruct (sid_is s "ISA").
  { destruct (negb (length (els s) =? 16)); simpl; [reflexivity|]. rewrite H1, H2. reflexivity. }
  destruct (sid_is s "GS"). { simpl. rewrite H1, H2. reflexivity. }
  destruct (sid_is s "ST"). { simpl. rewrite H2. reflexivity. }
  destruct (sid_is s "HL"). { simpl. rewrite H1, H2. reflexivity. }
  destruct (check_837_lx x), (check_837_lx y), (sid_is s "CLM"), (sid_is s "LX"); simpl; rewrite H1, H2; reflexivity.
Qed.

Lemma step_proj d x y s : xeq x y -> bproj (reader_step d x s) = bproj (reader_step d y s).
Proof.
  intros H. pose proof (base_proj d x y s H) as B. unfold reader_step.
  destruct (base_step d x s) as [[x1 e1]|ex], (base_step d y s) as [[y1 e2]|ey]; simpl in B; try discriminate;
    [|simpl; exact B].
  injection B as B1 B2. simpl.
  destruct (sid_is s "IEA").
  { destruct (loops x1) as [|[k i] r1], (loops y1) as [|[k' i'] r2]; simpl;
      repeat match goal with |- context [if ?c then _ else _] => destruct c end; simpl;
      repeat match goal with |- context [match ?c with [] => _ | _ :: _ => _ end] => destruct c as [|[? ?] ?] end; simpl;
      rewrite ?B1, ?B2; reflexivity. }
  destruct (sid_is s "GE").
  { destruct (loops x1) as [|[k i] r1], (loops y1) as [|[k' i'] r2]; simpl;
      repeat match goal with |- context [if ?c then _ else _] => destruct c end; simpl;
      repeat match goal with |- context [match ?c with [] => _ | _ :: _ => _ end] => destruct c as [|[? ?] ?] end; simpl;
      rewrite ?B1, ?B2; reflexivity. }
  destruct (sid_is s "SE").
  { destruct (loops x1) as [|[k i] r1], (loops y1) as [|[k' i'] r2]; simpl; rewrite ?B1, ?B2; reflexivity. }
  simpl. rewrite B1, B2. reflexivity.
Qed.

Definition lproj (r : result (xstate * option seg * list err)) : result (option seg * Z * Z) :=
  match r with Ok (x', os, _) => Ok (os, seg_count x', cur_line x') | Raise e => Raise e end.

(* the projection of one turn of the reader's loop depends on the two counters only *)
Lemma rlo_proj d x y ln : xeq x y -> lproj (reader_line_opt d x ln) = lproj (reader_line_opt d y ln).
Proof.
  intros H. unfold reader_line_opt.
  destruct (_ && _).
  { simpl. destruct H as [-> ->]. reflexivity. }
  unfold reader_line.
  set (ln' := if match ln with [] => false | c :: _ => Ascii.eqb c " " end then lstrip_ws ln else ln).
  pose proof (step_proj d x y (parse_seg d ln') H) as B.
  destruct (reader_step d x (parse_seg d ln')) as [[x1 e1]|ex], (reader_step d y (parse_seg d ln')) as [[y1 e2]|ey];
    simpl in B; try discriminate; simpl; [|injection B as ->; reflexivity].
  injection B as -> ->. reflexivity.
Qed.

(* the flag itself *)
Lemma xeq_with_lx x b : xeq (Driver.with_lx x b) x.
Proof. split; reflexivity. Qed.
