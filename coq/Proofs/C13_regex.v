(* C13_regex.v — what each generated regular expression of validation.py does
   under Python's search/group(0) protocol, as a direct boolean function. *)
From Coq Require Import String.
From PX.Lib Require Import Base PyStr Regex.
From PX.Gen Require Import Regexes.
From PX.Model Require Import Validation.
From PX.Proofs Require Import RegexLemmas.

Definition DIG : cls := Cls false [(48, 57)].
Definition MINUS : cls := Cls false [(45, 45)].
Definition DOT : cls := Cls false [(46, 46)].

Lemma dig_mem : forall a, cls_mem DIG a = is_digit a.
Proof. apply sweep_eq. vm_compute. reflexivity. Qed.

Lemma minus_mem : forall a, cls_mem MINUS a = Ascii.eqb a "-"%char.
Proof. apply sweep_eq. vm_compute. reflexivity. Qed.

Lemma dot_mem : forall a, cls_mem DOT a = Ascii.eqb a "."%char.
Proof. apply sweep_eq. vm_compute. reflexivity. Qed.

Ltac arith_eq :=
  match goal with
  | |- Some (?a, ?b, ?c) = Some (?a', ?b', ?c') => replace b with b' by lia; reflexivity
  end.

Definition sp (s : str) : nat := span DIG None s.

Lemma sp_all s : sp s = length s <-> all_digits s = true.
Proof.
  unfold sp, all_digits. rewrite span_all. split; intros H; rewrite forallb_forall in *; intros x Hx;
    specialize (H x Hx); rewrite dig_mem in *; assumption.
Qed.

Lemma sp_cons x s : sp (x :: s) = if is_digit x then S (sp s) else 0.
Proof. unfold sp. simpl. rewrite dig_mem. reflexivity. Qed.

(* ---- character-class searches: not_match_re ---- *)

Lemma not_match_cls c val : not_match_re_with (RCls c) val = existsb (cls_mem c) val.
Proof.
  unfold not_match_re_with, search. destruct (existsb (cls_mem c) val) eqn:E.
  - destruct (search_from_cls_some c 0 val E) as [i [Hi Hs]]. rewrite Hs.
    pose proof (group0_nonempty val (0 + i) (S (0 + i)) [] ltac:(lia) ltac:(lia)) as G.
    destruct (group0 val (0 + i, S (0 + i), [])) eqn:Eg; [exfalso; exact (G Eg) | reflexivity].
  - rewrite search_from_cls_none by assumption. reflexivity.
Qed.

Lemma not_match_rep1 c val : not_match_re_with (RRep c 1 None) val = existsb (cls_mem c) val.
Proof.
  unfold not_match_re_with, search. destruct (existsb (cls_mem c) val) eqn:E.
  - destruct (search_from_rep1_some c 0 val E) as [i [n [Hn [Hl Hs]]]]. rewrite Hs.
    pose proof (group0_nonempty val (0 + i) (0 + i + n) [] ltac:(lia) ltac:(lia)) as G.
    destruct (group0 val (0 + i, 0 + i + n, [])) eqn:Eg; [exfalso; exact (G Eg) | reflexivity].
  - rewrite search_from_rep1_none by assumption. reflexivity.
Qed.

(* rec_DT and rec_TM: "contains a non-digit" *)
Lemma existsb_nondigit val : existsb (cls_mem (Cls true [(48, 57)])) val = negb (all_digits val).
Proof.
  induction val as [|x v IH]; simpl; [reflexivity|]. rewrite IH.
  assert (E : cls_mem (Cls true [(48, 57)]) x = negb (is_digit x)).
  { rewrite <- dig_mem. unfold cls_mem, DIG. destruct (in_ranges _ _); reflexivity. }
  rewrite E. unfold all_digits. destruct (is_digit x); simpl; reflexivity.
Qed.

Lemma rec_DT_char val : not_match_re_with rec_DT val = negb (all_digits val).
Proof. unfold rec_DT. rewrite not_match_rep1. apply existsb_nondigit. Qed.

Lemma rec_TM_char val : not_match_re_with rec_TM val = negb (all_digits val).
Proof. unfold rec_TM. rewrite not_match_rep1. apply existsb_nondigit. Qed.

(* ---- greedy digit runs under an always-succeeding continuation ---- *)

Lemma try_down_greedy {R} n mn (g : nat -> R) :
  try_down n mn (fun j => Some (g j)) = if n <? mn then None else Some (g n).
Proof.
  destruct (n <? mn) eqn:E.
  - apply try_down_lt. apply Nat.ltb_lt; assumption.
  - apply try_down_top; [apply Nat.ltb_ge; assumption | reflexivity].
Qed.

Lemma firstn_whole (s : str) n : str_eqb (firstn n s) s = (length s <=? n).
Proof.
  destruct (length s <=? n) eqn:E.
  - apply Nat.leb_le in E. apply str_eqb_eq. apply firstn_all2; assumption.
  - apply Nat.leb_gt in E. apply str_eqb_neq. intros H.
    assert (L : length (firstn n s) = length s) by (rewrite H; reflexivity).
    rewrite firstn_length in L. lia.
Qed.

(* ---- rec_N ---- *)

Definition LN_b (s : str) : bool :=
  match s with
  | x :: t => if Ascii.eqb x "-"%char then negb (length t =? 0) && all_digits t
              else all_digits s
  | [] => false
  end.

Lemma all_digits_sp s : all_digits s = (sp s =? length s).
Proof.
  destruct (sp s =? length s) eqn:E.
  - apply Nat.eqb_eq in E. apply sp_all; assumption.
  - apply Nat.eqb_neq in E. destruct (all_digits s) eqn:A; [|reflexivity]. apply sp_all in A. contradiction.
Qed.

Lemma sp_le s : sp s <= length s.
Proof. apply span_le. Qed.

Lemma rec_N_char s : match_re_with rec_N s = LN_b s.
Proof.
  unfold match_re_with, rec_N. rewrite search_bol. unfold match_at. cbn [m Nat.eqb].
  fold DIG MINUS. fold (sp s).
  destruct s as [|x t].
  - vm_compute. reflexivity.
  - cbn [span]. rewrite minus_mem. cbn [LN_b]. destruct (Ascii.eqb x "-"%char) eqn:Ex.
    + (* leading minus: first try with it consumed *)
      cbn [span]. change (span MINUS (Some 0) t) with (span MINUS (Some 0) t).
      assert (S0 : span MINUS (Some 0) t = 0) by (destruct t; reflexivity). rewrite S0.
      assert (Xd : is_digit x = false) by (apply Ascii.eqb_eq in Ex; subst x; reflexivity).
      destruct (sp t =? 0) eqn:Z.
      * (* no digit after the minus: both attempts fail *)
        apply Nat.eqb_eq in Z.
        rewrite try_down_step; [|lia|].
        2:{ cbn [skipn]. fold (sp t). rewrite Z. apply try_down_lt. lia. }
        cbn [try_down Nat.ltb Nat.leb skipn]. fold (sp (x :: t)). rewrite sp_cons, Xd.
        rewrite try_down_lt by lia.
        rewrite all_digits_sp, Z. destruct t; simpl; reflexivity.
      * apply Nat.eqb_neq in Z.
        erewrite try_down_top; [| lia |].
        2:{ cbn [skipn]. fold (sp t). rewrite try_down_greedy.
            destruct (sp t <? 1) eqn:L; [apply Nat.ltb_lt in L; lia | reflexivity]. }
        unfold group0. cbn [skipn]. rewrite Nat.sub_0_r.
        change (0 + 1 + sp t) with (S (sp t)).
        change (firstn (S (sp t)) (x :: t)) with (x :: firstn (sp t) t).
        cbn [str_eqb]. rewrite Ascii.eqb_refl. cbn [andb]. rewrite firstn_whole.
        rewrite all_digits_sp. pose proof (sp_le t).
        destruct (length t =? 0) eqn:L0; [apply Nat.eqb_eq in L0; lia|]. cbn [negb andb].
        destruct (Nat.leb_spec (length t) (sp t)); destruct (Nat.eqb_spec (sp t) (length t)); try lia; reflexivity.
    + (* no minus *)
      cbn [try_down Nat.ltb Nat.leb skipn Nat.add]. fold (sp (x :: t)).
      rewrite try_down_greedy. destruct (sp (x :: t) <? 1) eqn:L.
      * apply Nat.ltb_lt in L. rewrite all_digits_sp. simpl length.
        destruct (Nat.eqb_spec (sp (x :: t)) (S (length t))); [lia | reflexivity].
      * unfold group0. cbn [skipn]. rewrite Nat.sub_0_r, firstn_whole, all_digits_sp.
        pose proof (sp_le (x :: t)).
        destruct (Nat.leb_spec (length (x :: t)) (sp (x :: t)));
          destruct (Nat.eqb_spec (sp (x :: t)) (length (x :: t))); try lia; reflexivity.
Qed.

(* ---- rec_R ---- *)

(* a fraction at the head of u: '.' followed by one or more digits; characters consumed *)
Definition frac (u : str) : option nat :=
  match u with
  | c :: f => if Ascii.eqb c "."%char then (if sp f =? 0 then None else Some (S (sp f))) else None
  | [] => None
  end.

(* end of the match of  [0-9]+(\.[0-9]+)? | \.[0-9]+  at the head of t *)
Definition R_end (t : str) : option nat :=
  if sp t =? 0 then frac t
  else Some (sp t + match frac (skipn (sp t) t) with Some k => k | None => 0 end).

Definition LR_b (s : str) : bool :=
  match s with
  | x :: t =>
      if Ascii.eqb x "-"%char
      then match R_end t with Some e => length t <=? e | None => false end
      else match R_end s with Some e => length s <=? e | None => false end
  | [] => false
  end.

Definition KF : nat -> str -> caps -> option mres := fun pos' _ cs0 => Some (0, pos', cs0).

Lemma frac_m p u :
  m (RSeq (RCls DOT) (RRep DIG 1 None)) p u [] KF = option_map (fun k => (0, p + k, [])) (frac u).
Proof.
  rewrite m_seq, m_cls. destruct u as [|c f]; [reflexivity|]. rewrite dot_mem. cbn [frac].
  destruct (Ascii.eqb c "."%char); [|reflexivity]. rewrite m_rep. fold (sp f). unfold KF. rewrite try_down_greedy.
  destruct (sp f) as [|k] eqn:E; cbn [Nat.ltb Nat.leb Nat.eqb option_map]; [reflexivity|].
  arith_eq.
Qed.

Lemma R_body p t :
  m (RAlt (RSeq (RRep DIG 1 None) (ROpt (RSeq (RCls DOT) (RRep DIG 1 None))))
          (RSeq (RCls DOT) (RRep DIG 1 None))) p t [] KF
  = option_map (fun e => (0, p + e, [])) (R_end t).
Proof.
  rewrite m_alt. rewrite (m_seq (RRep DIG 1 None)), m_rep. fold (sp t). unfold R_end.
  destruct (sp t =? 0) eqn:Z.
  - apply Nat.eqb_eq in Z. rewrite Z. rewrite try_down_lt by lia. apply frac_m.
  - apply Nat.eqb_neq in Z.
    erewrite try_down_top; [reflexivity | lia |].
    cbv beta. rewrite m_opt, frac_m.
    destruct (frac (skipn (sp t) t)); cbn [option_map]; unfold KF; arith_eq.
Qed.

Lemma try_down_00 {R} (f : nat -> option R) : try_down 0 0 f = f 0.
Proof. cbn. destruct (f 0); reflexivity. Qed.

Lemma rec_R_char s : match_re_with rec_R s = LR_b s.
Proof.
  unfold match_re_with, rec_R. rewrite search_bol. unfold match_at.
  change (fun (pos' : nat) (_ : str) (cs0 : caps) => Some (0, pos', cs0)) with KF.
  fold DIG MINUS DOT.
  rewrite m_seq, m_bol. cbn [Nat.eqb]. rewrite m_seq, m_rep.
  destruct s as [|x t]; [vm_compute; reflexivity|].
  cbn [span]. rewrite minus_mem. cbn [LR_b]. destruct (Ascii.eqb x "-"%char) eqn:Ex.
  - assert (S0 : span MINUS (Some 0) t = 0) by (destruct t; reflexivity). rewrite S0.
    assert (Xd : is_digit x = false) by (apply Ascii.eqb_eq in Ex; subst x; reflexivity).
    assert (Xp : Ascii.eqb x "."%char = false) by (apply Ascii.eqb_eq in Ex; subst x; reflexivity).
    destruct (R_end t) as [e|] eqn:Re.
    + erewrite try_down_top; [| lia | cbv beta; cbn [skipn]; rewrite R_body, Re; reflexivity].
      unfold group0. cbn [skipn]. rewrite Nat.sub_0_r. change (0 + 1 + e) with (S e).
      change (firstn (S e) (x :: t)) with (x :: firstn e t).
      cbn [str_eqb]. rewrite Ascii.eqb_refl. cbn [andb]. apply firstn_whole.
    + rewrite try_down_step; [| lia | cbv beta; cbn [skipn]; rewrite R_body, Re; reflexivity].
      rewrite try_down_00. cbn [skipn]. rewrite R_body. unfold R_end. rewrite sp_cons, Xd. cbn [Nat.eqb frac].
      rewrite Xp. reflexivity.
  - rewrite try_down_00. cbn [skipn]. rewrite R_body.
    destruct (R_end (x :: t)) as [e|]; cbn [option_map]; [|reflexivity].
    unfold group0. cbn [skipn]. rewrite Nat.sub_0_r. change (0 + 0 + e) with e. apply firstn_whole.
Qed.

(* ---- the three character-set classes, against explicit character lists ---- *)

Lemma not_match_cls_neg rs (chars : str) val :
  (forall a, cls_mem (Cls true rs) a = negb (mem_ascii a chars)) ->
  not_match_re_with (RCls (Cls true rs)) val = negb (forallb (fun a => mem_ascii a chars) val).
Proof.
  intros H. rewrite not_match_cls. induction val as [|x v IH]; simpl; [reflexivity|].
  rewrite IH, H. destruct (mem_ascii x chars); reflexivity.
Qed.
