(* C17_segment.v — laws of Segment.get / Segment.set on the index level
   (after the reference designator has been translated to indices). *)
From Coq Require Import String.
From PX.Lib Require Import Base PyStr.
From PX.Model Require Import Path Segment.

(* the value at element i, component j (both 0-based); "" where absent *)
Definition cell (s : seg) (i j : nat) : str := nth j (nth i (els s) []) [].

Definition is_isa16 (s : seg) (i : nat) : bool :=
  opt_eqb str_eqb (sid s) (Some (list_ascii_of_string "ISA")) && (i =? 15).

Definition zi (i : nat) : option Z := Some (Z.of_nat i).

(* the value may not contain the separator that `set` would split it at *)
Definition value_ok (d : delims) (s : seg) (i : nat) (v : str) : Prop :=
  if is_isa16 s i then ~ In (ele_term d) v else ~ In (subele_term d) v.


(* ---------- auxiliary list facts ---------- *)
Section Aux.
Context {A : Type}.

Lemma py_nth_nat (xs : list A) i : py_nth xs (Z.of_nat i) = nth_res xs i.
Proof.
  unfold py_nth. destruct (Z.ltb_spec (Z.of_nat i) 0); [lia|].
  rewrite Nat2Z.id. reflexivity.
Qed.

Lemma nth_res_ok (xs : list A) i d : i < length xs -> nth_res xs i = Ok (nth i xs d).
Proof.
  revert i; induction xs as [|x xs IH]; intros [|i] H; cbn in *; try lia; auto.
  apply IH; lia.
Qed.

Lemma set_nth_length (xs : list A) i v : length (set_nth xs i v) = length xs.
Proof. revert i; induction xs as [|x xs IH]; intros [|i]; cbn; auto. Qed.

Lemma nth_set_nth (xs : list A) i v k d : i < length xs ->
  nth k (set_nth xs i v) d = if k =? i then v else nth k xs d.
Proof.
  revert i k; induction xs as [|x xs IH]; intros [|i] [|k] H; cbn in *; try lia; auto.
  apply IH; lia.
Qed.

Lemma py_set_nat (xs : list A) i v :
  i < length xs -> py_set xs (Z.of_nat i) v = Ok (set_nth xs i v).
Proof.
  intros H. unfold py_set. cbv zeta.
  assert (E1 : (Z.of_nat i <? 0)%Z = false) by (apply Z.ltb_ge; lia).
  rewrite E1. rewrite E1.
  assert (E2 : (Z.of_nat (length xs) <=? Z.of_nat i)%Z = false) by (apply Z.leb_gt; lia).
  rewrite E2. cbn [orb]. rewrite Nat2Z.id. reflexivity.
Qed.

Lemma py_set_length (xs ys : list A) z v : py_set xs z v = Ok ys -> length ys = length xs.
Proof.
  unfold py_set. cbv zeta. destruct (_ || _); [discriminate|].
  intros [= <-]. apply set_nth_length.
Qed.

Lemma nth_repeat' (b d : A) n m : nth n (repeat b m) d = if n <? m then b else d.
Proof. revert n; induction m; intros [|n]; cbn; auto. apply IHm. Qed.

Lemma pad_to_length (xs : list A) i b :
  length (pad_to xs (Z.of_nat i) b) = Nat.max (length xs) (S i).
Proof. unfold pad_to. rewrite app_length, repeat_length. lia. Qed.

Lemma nth_pad_to (xs : list A) i b k d :
  nth k (pad_to xs (Z.of_nat i) b) d =
  if k <? length xs then nth k xs d else if k <=? i then b else d.
Proof.
  unfold pad_to. destruct (Nat.ltb_spec k (length xs)).
  - apply app_nth1; auto.
  - rewrite app_nth2 by lia. rewrite nth_repeat'.
    destruct (Nat.ltb_spec (k - length xs)
                (Z.to_nat (Z.of_nat i + 1 - Z.of_nat (length xs)))),
             (Nat.leb_spec k i); auto; lia.
Qed.
End Aux.


(* ---------- split / format on separator-free values ---------- *)
Lemma split_aux_notin c s cur : ~ In c s -> split_aux c s cur = [rev cur ++ s].
Proof.
  revert cur; induction s as [|x s IH]; intros cur H; cbn [split_aux].
  - rewrite app_nil_r. reflexivity.
  - destruct (Ascii.eqb_spec x c) as [->|N].
    + exfalso. apply H. left. reflexivity.
    + rewrite IH by (intros HI; apply H; right; exact HI).
      cbn [rev]. rewrite <- app_assoc. reflexivity.
Qed.

Lemma split_notin c v : ~ In c v -> split c v = [v].
Proof. intros H. unfold split. rewrite split_aux_notin by exact H. reflexivity. Qed.

Lemma format_comp_single sub v : format_comp sub [v] = v.
Proof. reflexivity. Qed.

(* ---------- cells of padded / updated lists ---------- *)
Lemma cell_pad_els (xs : list (list str)) i k j :
  nth j (nth k (pad_to xs (Z.of_nat i) [[]]) []) [] = nth j (nth k xs []) [].
Proof.
  rewrite nth_pad_to. destruct (Nat.ltb_spec k (length xs)); [reflexivity|].
  rewrite (nth_overflow xs) by lia.
  destruct (k <=? i); destruct j as [|[|j]]; reflexivity.
Qed.

Lemma cell_pad_comp (c : list str) jj j :
  nth j (pad_to c (Z.of_nat jj) []) [] = nth j c [].
Proof.
  rewrite nth_pad_to. destruct (Nat.ltb_spec j (length c)); [reflexivity|].
  rewrite (nth_overflow c) by lia. destruct (j <=? jj); reflexivity.
Qed.

(* ---------- closed forms of set_ix ---------- *)
Lemma isa_cond s i :
  opt_eqb str_eqb (sid s) (Some (list_ascii_of_string "ISA")) && (Z.of_nat i =? 15)%Z
  = is_isa16 s i.
Proof.
  unfold is_isa16. f_equal.
  destruct (Z.eqb_spec (Z.of_nat i) 15), (Nat.eqb_spec i 15); auto; lia.
Qed.

Lemma pad_lt {A} (xs : list A) i b : i < length (pad_to xs (Z.of_nat i) b).
Proof. rewrite pad_to_length. lia. Qed.

Lemma set_ix_ele d s i v :
  set_ix d s (zi i, None) v =
  Ok {| sid := sid s;
        els := set_nth (pad_to (els s) (Z.of_nat i) [[]]) i
                 (split (if is_isa16 s i then ele_term d else subele_term d) v) |}.
Proof.
  unfold set_ix. cbn [fst snd zi].
  change (Segment.l "ISA") with (list_ascii_of_string "ISA").
  rewrite isa_cond. destruct (is_isa16 s i);
    rewrite py_set_nat by apply pad_lt; reflexivity.
Qed.

Lemma set_ix_comp d s i j v :
  is_isa16 s i = false ->
  set_ix d s (zi i, zi j) v =
  Ok {| sid := sid s;
        els := set_nth (pad_to (els s) (Z.of_nat i) [[]]) i
                 (set_nth (pad_to (nth i (pad_to (els s) (Z.of_nat i) [[]]) []) (Z.of_nat j) []) j v) |}.
Proof.
  intros HI. unfold set_ix. cbn [fst snd zi].
  change (Segment.l "ISA") with (list_ascii_of_string "ISA").
  rewrite isa_cond, HI.
  rewrite py_nth_nat. rewrite (nth_res_ok _ _ ([] : composite)) by apply pad_lt. cbn [bind].
  rewrite py_set_nat by apply pad_lt. cbn [bind].
  rewrite py_set_nat by apply pad_lt. reflexivity.
Qed.


Lemma pad_leb {A} (xs : list A) i b :
  (Z.of_nat (length (pad_to xs (Z.of_nat i) b)) <=? Z.of_nat i)%Z = false.
Proof. apply Z.leb_gt. pose proof (pad_lt xs i b). lia. Qed.

Lemma split_value_ok d s i v :
  value_ok d s i v ->
  split (if is_isa16 s i then ele_term d else subele_term d) v = [v].
Proof.
  unfold value_ok. intros HV. destruct (is_isa16 s i); apply split_notin; exact HV.
Qed.

(* GOAL B1: element-level set then get *)
Lemma set_get_ele d s i v :
  value_ok d s i v ->
  exists s', set_ix d s (zi i, None) v = Ok s' /\
             get_ix s' (zi i, None) = Ok (GotComp [v]) /\
             value_of d (GotComp [v]) = Some v.
Proof.
  intros HV. eexists. split; [apply set_ix_ele|].
  rewrite (split_value_ok d s i v HV). split; [|reflexivity].
  unfold get_ix. cbn [fst snd zi els].
  rewrite set_nth_length, pad_leb.
  rewrite py_nth_nat.
  rewrite (nth_res_ok _ _ ([] : composite)) by (rewrite set_nth_length; apply pad_lt).
  cbn [bind]. rewrite nth_set_nth by apply pad_lt. rewrite Nat.eqb_refl. reflexivity.
Qed.

(* GOAL B2: component-level set then get *)
Lemma set_get_comp d s i j v :
  is_isa16 s i = false ->
  exists s', set_ix d s (zi i, zi j) v = Ok s' /\ get_ix s' (zi i, zi j) = Ok (GotEle v).
Proof.
  intros HI. eexists. split; [apply set_ix_comp; exact HI|].
  unfold get_ix. cbn [fst snd zi els].
  rewrite set_nth_length, pad_leb.
  rewrite py_nth_nat.
  rewrite (nth_res_ok _ _ ([] : composite)) by (rewrite set_nth_length; apply pad_lt).
  cbn [bind]. rewrite nth_set_nth by apply pad_lt. rewrite Nat.eqb_refl.
  rewrite set_nth_length, pad_leb.
  rewrite py_nth_nat.
  rewrite (nth_res_ok _ _ ([] : str)) by (rewrite set_nth_length; apply pad_lt).
  cbn [bind]. rewrite nth_set_nth by apply pad_lt. rewrite Nat.eqb_refl. reflexivity.
Qed.

(* GOAL B3: the segment is extended exactly as far as needed, the id is kept *)
Lemma set_extends d s i cj v s' :
  set_ix d s (zi i, option_map Z.of_nat cj) v = Ok s' ->
  seg_len s' = Nat.max (seg_len s) (S i) /\ sid s' = sid s.
Proof.
  unfold set_ix. cbn [fst snd zi]. intros H.
  assert (G : forall x es',
    py_set (pad_to (els s) (Z.of_nat i) [[]]) (Z.of_nat i) x = Ok es' ->
    seg_len {| sid := sid s; els := es' |} = Nat.max (seg_len s) (S i) /\
    sid {| sid := sid s; els := es' |} = sid s).
  { intros x es' E. apply py_set_length in E. unfold seg_len; cbn [els sid].
    rewrite E, pad_to_length. split; reflexivity. }
  destruct (_ && _).
  - destruct (py_set _ _ _) eqn:E; cbn [bind] in H; [|discriminate].
    injection H as <-. eapply G; exact E.
  - destruct cj as [j|]; cbn [option_map] in H.
    + destruct (py_nth _ _) as [c|]; cbn [bind] in H; [|discriminate].
      destruct (py_set (pad_to c _ _) _ _) as [c''|]; cbn [bind] in H; [|discriminate].
      destruct (py_set _ _ _) eqn:E; cbn [bind] in H; [|discriminate].
      injection H as <-. eapply G; exact E.
    + destruct (py_set _ _ _) eqn:E; cbn [bind] in H; [|discriminate].
      injection H as <-. eapply G; exact E.
Qed.

(* GOAL B4: frame — every other position is unchanged, new positions are empty *)
Lemma set_frame_ele d s i v s' :
  value_ok d s i v -> set_ix d s (zi i, None) v = Ok s' ->
  forall i' j', cell s' i' j' = if i' =? i then (if j' =? 0 then v else []) else cell s i' j'.
Proof.
  intros HV H. rewrite set_ix_ele in H. injection H as <-.
  intros i' j'. unfold cell; cbn [els].
  rewrite (split_value_ok d s i v HV).
  rewrite nth_set_nth by apply pad_lt.
  destruct (i' =? i).
  - destruct j' as [|[|j']]; reflexivity.
  - apply cell_pad_els.
Qed.

Lemma set_frame_comp d s i j v s' :
  is_isa16 s i = false -> set_ix d s (zi i, zi j) v = Ok s' ->
  forall i' j', cell s' i' j' = if (i' =? i) && (j' =? j) then v else cell s i' j'.
Proof.
  intros HI H. rewrite set_ix_comp in H by exact HI. injection H as <-.
  intros i' j'. unfold cell; cbn [els].
  rewrite nth_set_nth by apply pad_lt.
  destruct (Nat.eqb_spec i' i) as [->|N]; cbn [andb].
  - rewrite nth_set_nth by apply pad_lt. destruct (j' =? j); [reflexivity|].
    rewrite cell_pad_comp. apply cell_pad_els.
  - apply cell_pad_els.
Qed.

(* GOAL B5: get agrees with the cell view *)
Lemma get_cell s i j :
  match get_ix s (zi i, zi j) with
  | Ok (GotEle v) => v = cell s i j
  | Ok GotNone => cell s i j = []
  | Ok (GotComp _) => False
  | Raise _ => False
  end.
Proof.
  unfold get_ix, cell. cbn [fst snd zi].
  destruct (Z.leb_spec (Z.of_nat (length (els s))) (Z.of_nat i)).
  - rewrite (nth_overflow (els s)) by lia. destruct j; reflexivity.
  - rewrite py_nth_nat. rewrite (nth_res_ok _ _ ([] : composite)) by lia. cbn [bind].
    destruct (Z.leb_spec (Z.of_nat (length (nth i (els s) []))) (Z.of_nat j)).
    + apply nth_overflow; lia.
    + rewrite py_nth_nat. rewrite (nth_res_ok _ _ ([] : str)) by lia. cbn [bind].
      reflexivity.
Qed.

(* GOAL B6: a designator naming another segment is refused, for set and get *)
Lemma other_segment_refused d s rd v xp x :
  parse_path rd = Ok xp -> seg_id xp = Some x -> sid s <> Some x ->
  seg_set d s rd v = Raise EngineError /\ seg_get s rd = Raise EngineError.
Proof.
  intros HP HS HN. unfold seg_set, seg_get, parse_refdes. rewrite HP. cbn [bind].
  rewrite HS.
  assert (E : opt_eqb str_eqb (Some x) (sid s) = false).
  { destruct (sid s) as [y|]; cbn [opt_eqb]; [|reflexivity].
    apply str_eqb_neq. congruence. }
  rewrite E. cbn [bind]. split; reflexivity.
Qed.

(* GOAL B7: arbitrary sequences of component-level writes refine a finite map *)
Inductive wop := WSet (i j : nat) (v : str).

Definition upd (f : nat -> nat -> str) (o : wop) : nat -> nat -> str :=
  match o with WSet i j v => fun i' j' => if (i' =? i) && (j' =? j) then v else f i' j' end.

Fixpoint run_sets (d : delims) (s : seg) (ops : list wop) : result seg :=
  match ops with
  | [] => Ok s
  | WSet i j v :: ops' =>
      match set_ix d s (zi i, zi j) v with
      | Ok s' => run_sets d s' ops'
      | Raise e => Raise e
      end
  end.

Definition no_isa16 (s : seg) (ops : list wop) : Prop :=
  forall i j v, In (WSet i j v) ops -> is_isa16 s i = false.

Lemma fold_upd_ext ops : forall f g, (forall i j, f i j = g i j) ->
  forall i j, fold_left upd ops f i j = fold_left upd ops g i j.
Proof.
  induction ops as [|o ops IH]; intros f g H; cbn [fold_left]; auto.
  apply IH. intros i j. destruct o. cbn [upd]. rewrite H. reflexivity.
Qed.

Lemma is_isa16_sid s s' i : sid s' = sid s -> is_isa16 s' i = is_isa16 s i.
Proof. unfold is_isa16. intros ->. reflexivity. Qed.

Lemma run_sets_refines d s ops :
  no_isa16 s ops ->
  exists s', run_sets d s ops = Ok s' /\
    forall i j, cell s' i j = fold_left upd ops (cell s) i j.
Proof.
  revert s; induction ops as [|[i j v] ops IH]; intros s HN.
  - exists s. split; reflexivity.
  - assert (HI : is_isa16 s i = false) by (eapply HN; left; reflexivity).
    destruct (set_get_comp d s i j v HI) as [s1 [HS _]].
    destruct (set_extends d s i (Some j) v s1 HS) as [_ Hsid].
    destruct (IH s1) as [s' [HR HC]].
    { intros i0 j0 v0 HIn. rewrite (is_isa16_sid s s1) by exact Hsid.
      eapply HN. right. exact HIn. }
    exists s'. split.
    + cbn [run_sets]. rewrite HS. exact HR.
    + intros a b. rewrite HC. cbn [fold_left]. apply fold_upd_ext.
      intros a' b'. cbn [upd]. apply (set_frame_comp d s i j v s1 HI HS).
Qed.

Print Assumptions run_sets_refines.
Print Assumptions set_get_ele.
Print Assumptions set_frame_comp.
Print Assumptions other_segment_refused.
