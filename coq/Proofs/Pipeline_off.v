(* Pipeline_off.v — sanity of the composition: with no sink requested the whole-document model is the
   sink-less driver model (Driver.run_document_gen): same verdict / escaping exception, same trace, no output. *)
From Coq Require Import String.
From PX.Lib Require Import Base PyStr.
From PX.Model Require Import Raw Reader MapLoad MapTree Walker Driver Pipeline.
From PX.Model Require Errh ErrIter Html XmlOut Ack997.

Definition off : sinks := {| want_ack := false; want_html := false; want_xml := false |}.

Lemma p_lines_off E lines : forall s,
  p_lines E off lines s = p_liftD (run_lines E lines) s.
Proof.
  induction lines as [|ln rest IH]; intros s.
  - destruct s; reflexivity.
  - cbn [p_lines run_lines].
    unfold p_bind, p_liftD, read_line, d_bind, d_get, d_lift, d_mod, d_ret.
    destruct (reader_line_opt (de_d E) (ds_x (ps_d s)) ln) as [[[x' os] es]|e]; cbn; [|reflexivity].
    destruct os as [sg|]; cbn.
    + unfold p_step, p_bind, p_liftD, p_ret; cbn.
      destruct (step E sg _) as [d' [u|e]]; cbn; [|reflexivity].
      rewrite IH. unfold p_liftD. cbn. reflexivity.
    + unfold p_ret. rewrite IH. unfold p_liftD. cbn. reflexivity.
Qed.

Definition verdict_of (d : dstate) : bool :=
  negb (negb (ds_valid d) || (0 <? Errh.get_error_count (ds_errh d))).

Lemma finish_verdict d d2 b : finish d = (d2, Ok b) -> b = verdict_of d2.
Proof.
  unfold finish, d_bind, d_mod, d_get, d_ret. cbv beta iota.
  destruct (handle_popped _) as [d3 [u|e]]; [|discriminate].
  intros H. injection H as <- <-. reflexivity.
Qed.

Lemma p_finish_off clk s :
  p_finish clk off s =
  match finish (ps_d s) with
  | (d2, Ok _) => (set_d s d2, Ok (verdict_of d2))
  | (d2, Raise e) => (set_d s d2, Raise e)
  end.
Proof.
  unfold p_finish, p_bind, p_liftD.
  destruct (finish (ps_d s)) as [d2 [b|e]]; reflexivity.
Qed.

Lemma p_open_off htime dtd s : p_open htime dtd off s = (s, Ok tt).
Proof. reflexivity. Qed.

Theorem pipeline_off_is_driver load idx clk htime dtd text :
  run_pipeline_gen load idx clk htime dtd off text =
  {| o_result := snd (run_document_gen load idx text); o_ack := []; o_html := []; o_xml := [];
     o_trace := fst (run_document_gen load idx text); o_html_calls := [] |}.
Proof.
  unfold run_pipeline_gen, run_document_gen.
  destruct (raw_all _) as [[r lines]|e].
  2:{ destruct e; reflexivity. }
  destruct (bind (load (control_name (r_icvn r))) _) as [[[cm ix] n0]|e]; [|reflexivity].
  set (E := {| de_load := load; de_idx := ix; de_cm := cm; de_d := delims_of r |}).
  set (d0 := {| ds_x := x_init; ds_pending := []; ds_errh := Errh.errh_init; ds_w := wstate_init; ds_node := (cm, n0);
                ds_sel := _; ds_valid := true; ds_trace := [] |}).
  set (s0 := {| ps_d := d0; ps_html := _; ps_iter := _; ps_xml := _; ps_xml_live := false; ps_ack_out := [];
                ps_html_out := []; ps_xml_out := []; ps_calls := [] |}).
  cbv zeta.
  unfold p_bind at 1. rewrite p_open_off.
  unfold p_bind. rewrite p_lines_off. unfold p_liftD. change (ps_d s0) with d0.
  unfold d_bind.
  destruct (run_lines E lines d0) as [d1 [u|e]].
  2:{ reflexivity. }
  rewrite p_finish_off. change (ps_d (set_d s0 d1)) with d1.
  destruct (finish d1) as [d2 [b|e]] eqn:F.
  - apply finish_verdict in F. subst b. reflexivity.
  - reflexivity.
Qed.

Print Assumptions pipeline_off_is_driver.
