(* C07_walker_maps.v — `walker_wf` (Spec/C07_walker_wf.v) evaluated on the shipped maps.

   walker_wf is true on every shipped map that loads (31 of 32; 841.4010.XXXC does not load at all:
   data element 795 is missing from dataele.xml, known finding C16-841-unloadable), so by
   Proofs/C07_walker.v: walker_total the walker cannot raise on any of them, whatever the data segment.

   walker_first_wf (the extra shape under which the found node is always entered through FIRST children
   only, walker_entry) is true on all of them except 277.5010.X212, 820.4010.X061.A1 and 830.4010.PS,
   where a loop that starts with a loop has further child loops (e.g. 820: DETAIL = [2000A; 2000B];
   `ENT*1*2J` after ST is found at DETAIL/2000B/ENT = [0;1;1;2;1;0], entered through the SECOND child of
   DETAIL).  For those maps only walker_entry_gen applies. *)
From Coq Require Import String.
From PX.Lib Require Import Base Xml.
From PX.Gen Require Import MapRegexes.
From PX.Gen.Maps Require M_dataele M_codes.
From PX.Spec Require Import C07_walker_wf.

Definition walker_wf_of_tree (t : xml) : bool := walker_wf_tree map_regexes M_dataele.tree M_codes.tree t.
Definition walker_first_wf_of_tree (t : xml) : bool := walker_first_wf_tree map_regexes M_dataele.tree M_codes.tree t.

(* ---- the maps asked for ---- *)
From PX.Gen.Maps Require M_x12_control_00401.
Example wf_x12_control_00401 : walker_wf_of_tree M_x12_control_00401.tree = true.
Proof. vm_compute. reflexivity. Qed.
Example first_wf_x12_control_00401 : walker_first_wf_of_tree M_x12_control_00401.tree = true.
Proof. vm_compute. reflexivity. Qed.

From PX.Gen.Maps Require M_x12_control_00501.
Example wf_x12_control_00501 : walker_wf_of_tree M_x12_control_00501.tree = true.
Proof. vm_compute. reflexivity. Qed.
Example first_wf_x12_control_00501 : walker_first_wf_of_tree M_x12_control_00501.tree = true.
Proof. vm_compute. reflexivity. Qed.

From PX.Gen.Maps Require M_837_4010_X098_A1.
Example wf_837_4010_X098_A1 : walker_wf_of_tree M_837_4010_X098_A1.tree = true.
Proof. vm_compute. reflexivity. Qed.
Example first_wf_837_4010_X098_A1 : walker_first_wf_of_tree M_837_4010_X098_A1.tree = true.
Proof. vm_compute. reflexivity. Qed.

From PX.Gen.Maps Require M_837_5010_X222_A1.
Example wf_837_5010_X222_A1 : walker_wf_of_tree M_837_5010_X222_A1.tree = true.
Proof. vm_compute. reflexivity. Qed.
Example first_wf_837_5010_X222_A1 : walker_first_wf_of_tree M_837_5010_X222_A1.tree = true.
Proof. vm_compute. reflexivity. Qed.

From PX.Gen.Maps Require M_834_5010_X220_A1.
Example wf_834_5010_X220_A1 : walker_wf_of_tree M_834_5010_X220_A1.tree = true.
Proof. vm_compute. reflexivity. Qed.
Example first_wf_834_5010_X220_A1 : walker_first_wf_of_tree M_834_5010_X220_A1.tree = true.
Proof. vm_compute. reflexivity. Qed.

From PX.Gen.Maps Require M_835_4010_X091_A1.
Example wf_835_4010_X091_A1 : walker_wf_of_tree M_835_4010_X091_A1.tree = true.
Proof. vm_compute. reflexivity. Qed.
Example first_wf_835_4010_X091_A1 : walker_first_wf_of_tree M_835_4010_X091_A1.tree = true.
Proof. vm_compute. reflexivity. Qed.

From PX.Gen.Maps Require M_270_4010_X092_A1.
Example wf_270_4010_X092_A1 : walker_wf_of_tree M_270_4010_X092_A1.tree = true.
Proof. vm_compute. reflexivity. Qed.
Example first_wf_270_4010_X092_A1 : walker_first_wf_of_tree M_270_4010_X092_A1.tree = true.
Proof. vm_compute. reflexivity. Qed.

From PX.Gen.Maps Require M_278_4010_X094_A1.
Example wf_278_4010_X094_A1 : walker_wf_of_tree M_278_4010_X094_A1.tree = true.
Proof. vm_compute. reflexivity. Qed.
Example first_wf_278_4010_X094_A1 : walker_first_wf_of_tree M_278_4010_X094_A1.tree = true.
Proof. vm_compute. reflexivity. Qed.

From PX.Gen.Maps Require M_997_4010.
Example wf_997_4010 : walker_wf_of_tree M_997_4010.tree = true.
Proof. vm_compute. reflexivity. Qed.
Example first_wf_997_4010 : walker_first_wf_of_tree M_997_4010.tree = true.
Proof. vm_compute. reflexivity. Qed.

From PX.Gen.Maps Require M_999_5010.
Example wf_999_5010 : walker_wf_of_tree M_999_5010.tree = true.
Proof. vm_compute. reflexivity. Qed.
Example first_wf_999_5010 : walker_first_wf_of_tree M_999_5010.tree = true.
Proof. vm_compute. reflexivity. Qed.

From PX.Gen.Maps Require M_277_5010_X214.
Example wf_277_5010_X214 : walker_wf_of_tree M_277_5010_X214.tree = true.
Proof. vm_compute. reflexivity. Qed.
Example first_wf_277_5010_X214 : walker_first_wf_of_tree M_277_5010_X214.tree = true.
Proof. vm_compute. reflexivity. Qed.

(* ---- the other shipped maps ---- *)
From PX.Gen.Maps Require M_271_4010_X092_A1.
Example wf_271_4010_X092_A1 : walker_wf_of_tree M_271_4010_X092_A1.tree = true.
Proof. vm_compute. reflexivity. Qed.
Example first_wf_271_4010_X092_A1 : walker_first_wf_of_tree M_271_4010_X092_A1.tree = true.
Proof. vm_compute. reflexivity. Qed.

From PX.Gen.Maps Require M_276_4010_X093_A1.
Example wf_276_4010_X093_A1 : walker_wf_of_tree M_276_4010_X093_A1.tree = true.
Proof. vm_compute. reflexivity. Qed.
Example first_wf_276_4010_X093_A1 : walker_first_wf_of_tree M_276_4010_X093_A1.tree = true.
Proof. vm_compute. reflexivity. Qed.

From PX.Gen.Maps Require M_277U_4010_X070.
Example wf_277U_4010_X070 : walker_wf_of_tree M_277U_4010_X070.tree = true.
Proof. vm_compute. reflexivity. Qed.
Example first_wf_277U_4010_X070 : walker_first_wf_of_tree M_277U_4010_X070.tree = true.
Proof. vm_compute. reflexivity. Qed.

From PX.Gen.Maps Require M_277_4010_X093_A1.
Example wf_277_4010_X093_A1 : walker_wf_of_tree M_277_4010_X093_A1.tree = true.
Proof. vm_compute. reflexivity. Qed.
Example first_wf_277_4010_X093_A1 : walker_first_wf_of_tree M_277_4010_X093_A1.tree = true.
Proof. vm_compute. reflexivity. Qed.

From PX.Gen.Maps Require M_277_5010_X212.
Example wf_277_5010_X212 : walker_wf_of_tree M_277_5010_X212.tree = true.
Proof. vm_compute. reflexivity. Qed.
Example first_wf_277_5010_X212 : walker_first_wf_of_tree M_277_5010_X212.tree = false.
Proof. vm_compute. reflexivity. Qed.

From PX.Gen.Maps Require M_278_4010_X094_27_A1.
Example wf_278_4010_X094_27_A1 : walker_wf_of_tree M_278_4010_X094_27_A1.tree = true.
Proof. vm_compute. reflexivity. Qed.
Example first_wf_278_4010_X094_27_A1 : walker_first_wf_of_tree M_278_4010_X094_27_A1.tree = true.
Proof. vm_compute. reflexivity. Qed.

From PX.Gen.Maps Require M_820_4010_X061_A1.
Example wf_820_4010_X061_A1 : walker_wf_of_tree M_820_4010_X061_A1.tree = true.
Proof. vm_compute. reflexivity. Qed.
Example first_wf_820_4010_X061_A1 : walker_first_wf_of_tree M_820_4010_X061_A1.tree = false.
Proof. vm_compute. reflexivity. Qed.

From PX.Gen.Maps Require M_820_5010_X218.
Example wf_820_5010_X218 : walker_wf_of_tree M_820_5010_X218.tree = true.
Proof. vm_compute. reflexivity. Qed.
Example first_wf_820_5010_X218 : walker_first_wf_of_tree M_820_5010_X218.tree = true.
Proof. vm_compute. reflexivity. Qed.

From PX.Gen.Maps Require M_820_5010_X218_v2.
Example wf_820_5010_X218_v2 : walker_wf_of_tree M_820_5010_X218_v2.tree = true.
Proof. vm_compute. reflexivity. Qed.
Example first_wf_820_5010_X218_v2 : walker_first_wf_of_tree M_820_5010_X218_v2.tree = true.
Proof. vm_compute. reflexivity. Qed.

From PX.Gen.Maps Require M_830_4010_PS.
Example wf_830_4010_PS : walker_wf_of_tree M_830_4010_PS.tree = true.
Proof. vm_compute. reflexivity. Qed.
Example first_wf_830_4010_PS : walker_first_wf_of_tree M_830_4010_PS.tree = false.
Proof. vm_compute. reflexivity. Qed.

From PX.Gen.Maps Require M_834_4010_X095_A1.
Example wf_834_4010_X095_A1 : walker_wf_of_tree M_834_4010_X095_A1.tree = true.
Proof. vm_compute. reflexivity. Qed.
Example first_wf_834_4010_X095_A1 : walker_first_wf_of_tree M_834_4010_X095_A1.tree = true.
Proof. vm_compute. reflexivity. Qed.

From PX.Gen.Maps Require M_834_5010_X220_A1_v2.
Example wf_834_5010_X220_A1_v2 : walker_wf_of_tree M_834_5010_X220_A1_v2.tree = true.
Proof. vm_compute. reflexivity. Qed.
Example first_wf_834_5010_X220_A1_v2 : walker_first_wf_of_tree M_834_5010_X220_A1_v2.tree = true.
Proof. vm_compute. reflexivity. Qed.

From PX.Gen.Maps Require M_835_5010_X221_A1.
Example wf_835_5010_X221_A1 : walker_wf_of_tree M_835_5010_X221_A1.tree = true.
Proof. vm_compute. reflexivity. Qed.
Example first_wf_835_5010_X221_A1 : walker_first_wf_of_tree M_835_5010_X221_A1.tree = true.
Proof. vm_compute. reflexivity. Qed.

From PX.Gen.Maps Require M_835_5010_X221_A1_v2.
Example wf_835_5010_X221_A1_v2 : walker_wf_of_tree M_835_5010_X221_A1_v2.tree = true.
Proof. vm_compute. reflexivity. Qed.
Example first_wf_835_5010_X221_A1_v2 : walker_first_wf_of_tree M_835_5010_X221_A1_v2.tree = true.
Proof. vm_compute. reflexivity. Qed.

From PX.Gen.Maps Require M_837Q3_I_5010_X223_A1.
Example wf_837Q3_I_5010_X223_A1 : walker_wf_of_tree M_837Q3_I_5010_X223_A1.tree = true.
Proof. vm_compute. reflexivity. Qed.
Example first_wf_837Q3_I_5010_X223_A1 : walker_first_wf_of_tree M_837Q3_I_5010_X223_A1.tree = true.
Proof. vm_compute. reflexivity. Qed.

From PX.Gen.Maps Require M_837Q3_I_5010_X223_A1_v2.
Example wf_837Q3_I_5010_X223_A1_v2 : walker_wf_of_tree M_837Q3_I_5010_X223_A1_v2.tree = true.
Proof. vm_compute. reflexivity. Qed.
Example first_wf_837Q3_I_5010_X223_A1_v2 : walker_first_wf_of_tree M_837Q3_I_5010_X223_A1_v2.tree = true.
Proof. vm_compute. reflexivity. Qed.

From PX.Gen.Maps Require M_837_4010_X096_A1.
Example wf_837_4010_X096_A1 : walker_wf_of_tree M_837_4010_X096_A1.tree = true.
Proof. vm_compute. reflexivity. Qed.
Example first_wf_837_4010_X096_A1 : walker_first_wf_of_tree M_837_4010_X096_A1.tree = true.
Proof. vm_compute. reflexivity. Qed.

From PX.Gen.Maps Require M_837_4010_X097_A1.
Example wf_837_4010_X097_A1 : walker_wf_of_tree M_837_4010_X097_A1.tree = true.
Proof. vm_compute. reflexivity. Qed.
Example first_wf_837_4010_X097_A1 : walker_first_wf_of_tree M_837_4010_X097_A1.tree = true.
Proof. vm_compute. reflexivity. Qed.

From PX.Gen.Maps Require M_999_5010X231_A1.
Example wf_999_5010X231_A1 : walker_wf_of_tree M_999_5010X231_A1.tree = true.
Proof. vm_compute. reflexivity. Qed.
Example first_wf_999_5010X231_A1 : walker_first_wf_of_tree M_999_5010X231_A1.tree = true.
Proof. vm_compute. reflexivity. Qed.

From PX.Gen.Maps Require M_comp_test.
Example wf_comp_test : walker_wf_of_tree M_comp_test.tree = true.
Proof. vm_compute. reflexivity. Qed.
Example first_wf_comp_test : walker_first_wf_of_tree M_comp_test.tree = true.
Proof. vm_compute. reflexivity. Qed.

(* ---- 841.4010.XXXC: load_map raises EngineError, so there is no map to walk ---- *)
From PX.Gen.Maps Require M_841_4010_XXXC.
Example wf_841_4010_XXXC_unloadable : walker_wf_of_tree M_841_4010_XXXC.tree = false.
Proof. vm_compute. reflexivity. Qed.
