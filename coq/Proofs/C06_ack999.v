(* C06_ack999.v — the 999 visitor, writing through the X12Writer, produces a complete, correctly counted interchange. *)
From Coq Require Import String Lia.
From PX.Lib Require Import Base PyStr PyInt.
From PX.Gen Require Import SrcConsts.
From PX.Model Require Import Show Path Segment Raw Reader Writer Errh Ack997 Ack999.
From PX.Spec Require Import C06_spec.
From PX.Proofs Require Import C01_roundtrip C11_writer C06_lemmas C06_build C06_ack997.

Local Notation l := list_ascii_of_string.
Local Notation LF := (ascii_of_nat 10).

(* the line the writer emits for a segment: Writer.emit with the 999 visitor's writer (delimiters ~ * :, eol "\n") *)
Definition line_999 (s : seg) : str := emit (w_init D (l "^") [LF]) s.

(* ------------------------------------------------------------------ *)
(* the writer, one segment at a time                                   *)
(* ------------------------------------------------------------------ *)
(* what matters of the writer's state: delimiters, open loops and the three counts *)
Record WS (w : wstate) (lp : list (str * option str)) (gc sc n : Z) : Prop := {
  ws_d : wd w = D; ws_eol : w_eol w = [LF]; ws_rep : w_rep w = l "^";
  ws_lx : check_837_lx (wx w) = false;
  ws_loops : loops (wx w) = lp; ws_gc : gs_count (wx w) = gc; ws_sc : st_count (wx w) = sc;
  ws_n : seg_count (wx w) = n }.

Lemma sid_is_lit s a b : sid s = Some (l a) -> sid_is s b = str_eqb (l a) (l b).
Proof. intros S. unfold sid_is. rewrite S. reflexivity. Qed.

Ltac lits :=
  repeat match goal with
         | |- context [str_eqb (list_ascii_of_string ?a) (list_ascii_of_string ?b)] =>
             let v := eval vm_compute in (str_eqb (list_ascii_of_string a) (list_ascii_of_string b)) in
             change (str_eqb (list_ascii_of_string a) (list_ascii_of_string b)) with v
         end.

Definition plain_id (id : string) : Prop :=
  forallb (fun e => negb (str_eqb (l id) (l e))) ["ISA"; "GS"; "ST"; "HL"; "IEA"; "GE"; "SE"]%string = true.

Lemma uncounted_eq : uncounted_ids = [l "ISA"; l "IEA"; l "GS"; l "GE"; l "ST"; l "SE"].
Proof. reflexivity. Qed.

Lemma ws_plain w s id lp gc sc n w' out :
  WS w lp gc sc n -> sid s = Some (l id) -> plain_id id ->
  w_write_segs w D s = Ok (w', out) -> out = [s] /\ WS w' lp gc sc (n + 1).
Proof.
  intros [W1 W2 W3 W4 W5 W6 W7 W8] S P. unfold plain_id in P. cbn [forallb] in P.
  rewrite !andb_true_iff, !negb_true_iff in P. destruct P as (P1 & P2 & P3 & P4 & P5 & P6 & P7 & _).
  unfold w_write_segs, base_step. rewrite !(sid_is_lit _ _ _ S), P1, P2, P3, P4, W4, S. cbn [andb bind fst].
  rewrite ?P1, ?P5, ?P6, ?P7. cbn [with_x wx check_837_lx]. rewrite ?W4. cbn [andb].
  rewrite uncounted_eq. cbn [mem_str]. rewrite P1, P2, P3, P5, P6, P7. cbn [orb].
  intros H. injection H as <- <-. split; [reflexivity|]. constructor; cbn; auto. rewrite W8. reflexivity.
Qed.

Definition isa_fixed (s s2 : seg) : Prop :=
  (do s1 <- (if opt_eqb str_eqb (ev D s 12) (Some (l "00501")) then set_ix D s (Some 10%Z, None) (l "^") else Ok s);
   set_ix D s1 (Some 15%Z, None) [":"%char]) = Ok s2.

Lemma ws_isa w s lp gc sc n w' out :
  WS w lp gc sc n -> sid s = Some (l "ISA") ->
  w_write_segs w D s = Ok (w', out) ->
  length (els s) = 16 /\ (exists s2, out = [s2] /\ isa_fixed s s2) /\ WS w' ((l "ISA", ev D s 13) :: lp) 0 sc n.
Proof.
  intros [W1 W2 W3 W4 W5 W6 W7 W8] S. unfold w_write_segs, base_step. rewrite !(sid_is_lit _ _ _ S), S. unl. lits.
  destruct (length (els s) =? 16) eqn:L; cbn [negb bind]; [|discriminate]. apply Nat.eqb_eq in L.
  cbn [fst with_x wx check_837_lx]. rewrite W4, W1, W3. cbn [andb subele_term D].
  match goal with |- bind ?c _ = _ -> _ => destruct c as [s1|e] eqn:F1; cbn [bind]; [|discriminate] end.
  destruct (set_ix D s1 _ _) as [s2|e] eqn:F2; cbn [bind]; [|discriminate].
  intros H. injection H as <- <-. split; [exact L|].
  split; [exists s2; split; [reflexivity|unfold isa_fixed;
    match goal with |- bind ?c _ = _ => replace c with (@Ok seg s1) by (symmetry; exact F1) end; exact F2]|].
  constructor; cbn; auto. rewrite W5. reflexivity.
Qed.

Lemma ws_gs w s lp gc sc n w' out :
  WS w lp gc sc n -> sid s = Some (l "GS") ->
  w_write_segs w D s = Ok (w', out) -> out = [s] /\ WS w' ((l "GS", ev D s 6) :: lp) (gc + 1) 0 n.
Proof.
  intros [W1 W2 W3 W4 W5 W6 W7 W8] S. unfold w_write_segs, base_step. rewrite !(sid_is_lit _ _ _ S), S. unl. lits.
  cbn [bind fst with_x wx check_837_lx]. rewrite W4. cbn [andb].
  intros H. injection H as <- <-. split; [reflexivity|]. constructor; cbn [wd w_eol w_rep wx with_x check_837_lx loops gs_count st_count seg_count]; auto; try congruence; rewrite W5; reflexivity.
Qed.

Lemma ws_st w s lp gc sc n w' out :
  WS w lp gc sc n -> sid s = Some (l "ST") ->
  w_write_segs w D s = Ok (w', out) -> out = [s] /\ WS w' ((l "ST", ev D s 2) :: lp) gc (sc + 1) 1.
Proof.
  intros [W1 W2 W3 W4 W5 W6 W7 W8] S. unfold w_write_segs, base_step. rewrite !(sid_is_lit _ _ _ S), S. unl. lits.
  cbn [bind fst with_x wx check_837_lx]. rewrite W4. cbn [andb].
  intros H. injection H as <- <-. split; [reflexivity|]. constructor; cbn [wd w_eol w_rep wx with_x check_837_lx loops gs_count st_count seg_count]; auto; try congruence; rewrite W5; reflexivity.
Qed.

(* the trailer the writer builds itself *)
Definition tr (id : string) (count : Z) (loop_id : option str) : seg :=
  parse_seg D (l id ++ "*"%char :: fmt_Z count ++ "*"%char :: show_oid loop_id).

Lemma trailer_tr w id c o : wd w = D -> trailer w id c o = tr id c o.
Proof. intros W. unfold trailer, tr. rewrite W. unl. cbn [ele_term D app]. reflexivity. Qed.

Lemma ws_se w s id lp gc sc n w' out :
  WS w ((l "ST", id) :: lp) gc sc n -> sid s = Some (l "SE") ->
  w_write_segs w D s = Ok (w', out) -> out = [tr "SE" (n + 1) id] /\ WS w' lp gc sc 0.
Proof.
  intros [W1 W2 W3 W4 W5 W6 W7 W8] S. unfold w_write_segs, base_step. rewrite !(sid_is_lit _ _ _ S), S, W4. unl. lits.
  cbn [bind fst andb]. unfold pop_to. cbn [with_x wx loops]. rewrite W5. unl. cbn [pop_to_loop].
  unfold close_loop. unl. lits. cbn [wx with_x with_loops seg_count].
  rewrite trailer_tr by exact W1. rewrite uncounted_eq. cbn [mem_str]. lits. cbn [orb].
  intros H. injection H as <- <-. split; [rewrite W8; reflexivity|].
  constructor; cbn [wd w_eol w_rep wx with_x with_loops set_seg_count check_837_lx loops gs_count st_count seg_count]; auto.
Qed.

Lemma ws_ge w s id lp gc sc n w' out :
  WS w ((l "GS", id) :: lp) gc sc n -> sid s = Some (l "GE") ->
  w_write_segs w D s = Ok (w', out) -> out = [tr "GE" sc id] /\ WS w' lp gc 0 n.
Proof.
  intros [W1 W2 W3 W4 W5 W6 W7 W8] S. unfold w_write_segs, base_step. rewrite !(sid_is_lit _ _ _ S), S, W4. unl. lits.
  cbn [bind fst andb]. unfold pop_to. cbn [with_x wx loops]. rewrite W5. unl. cbn [pop_to_loop].
  unfold close_loop. unl. lits. cbn [wx with_x with_loops st_count].
  rewrite trailer_tr by exact W1. rewrite uncounted_eq. cbn [mem_str]. lits. cbn [orb].
  intros H. injection H as <- <-. split; [rewrite W7; reflexivity|].
  constructor; cbn [wd w_eol w_rep wx with_x with_loops set_st_count check_837_lx loops gs_count st_count seg_count]; auto.
Qed.

Lemma ws_iea w s id lp gc sc n w' out :
  WS w ((l "ISA", id) :: lp) gc sc n -> sid s = Some (l "IEA") ->
  w_write_segs w D s = Ok (w', out) -> out = [tr "IEA" gc id] /\ WS w' lp 0 sc n.
Proof.
  intros [W1 W2 W3 W4 W5 W6 W7 W8] S. unfold w_write_segs, base_step. rewrite !(sid_is_lit _ _ _ S), S, W4. unl. lits.
  cbn [bind fst andb]. unfold pop_to. cbn [with_x wx loops]. rewrite W5. unl. cbn [pop_to_loop].
  unfold close_loop. unl. lits. cbn [wx with_x with_loops gs_count].
  rewrite trailer_tr by exact W1. rewrite uncounted_eq. cbn [mem_str]. lits. cbn [orb].
  intros H. injection H as <- <-. split; [rewrite W6; reflexivity|].
  constructor; cbn [wd w_eol w_rep wx with_x with_loops set_gs_count check_837_lx loops gs_count st_count seg_count]; auto.
Qed.

(* ------------------------------------------------------------------ *)
(* the visitor                                                         *)
(* ------------------------------------------------------------------ *)
Lemma emit_line w s : wd w = D -> w_eol w = [LF] -> emit w s = line_999 s.
Proof. intros A B. unfold line_999, emit. rewrite A, B. reflexivity. Qed.

Lemma wr_write_ok s v v' u : wr_write s v = (v', Ok u) ->
  exists w' out, w_write_segs (y_wr v) D s = Ok (w', out) /\
    v' = {| y_h := y_h v; y_out := y_out v ++ map (emit (y_wr v)) out; y_wr := w'; y_isa_ctl := y_isa_ctl v;
            y_gs_ctl := y_gs_ctl v; y_st_ctl := y_st_ctl v |}.
Proof.
  unfold wr_write, w_write. destruct (w_write_segs (y_wr v) D s) as [[w' out]|e]; cbn [bind fst snd]; [|discriminate].
  intros H. injection H as <-. eauto.
Qed.

Record wrote9 (v v' : v999) (ss : list seg) : Prop := {
  w9_out : y_out v' = y_out v ++ map line_999 ss;
  w9_isa : y_isa_ctl v' = y_isa_ctl v;
  w9_gs : y_gs_ctl v' = y_gs_ctl v;
  w9_st : y_st_ctl v' = y_st_ctl v }.

Lemma wrote9_refl v : wrote9 v v [].
Proof. constructor; try reflexivity. cbn [map]. rewrite app_nil_r. reflexivity. Qed.
Lemma wrote9_trans v1 v2 v3 a b : wrote9 v1 v2 a -> wrote9 v2 v3 b -> wrote9 v1 v3 (a ++ b).
Proof.
  intros [A1 A2 A3 A4] [B1 B2 B3 B4]. constructor; try congruence. rewrite B1, A1, map_app, app_assoc. reflexivity.
Qed.

Lemma in_hy_ok {A} (m : SE errh A) v v' a : in_hy m v = (v', Ok a) ->
  wrote9 v v' [] /\ y_wr v' = y_wr v /\ exists h', m (y_h v) = (h', Ok a).
Proof.
  unfold in_hy. destruct (m (y_h v)) as [h' r] eqn:E. intros H. injection H as <- ->.
  split; [|split; [reflexivity|eauto]]. constructor; try reflexivity. cbn [map y_out set_y_h]. rewrite app_nil_r. reflexivity.
Qed.

(* writing a segment the writer passes through unchanged *)
Lemma wr_write_plain s id v v' u lp gc sc n :
  WS (y_wr v) lp gc sc n -> sid s = Some (l id) -> plain_id id -> wr_write s v = (v', Ok u) ->
  wrote9 v v' [s] /\ WS (y_wr v') lp gc sc (n + 1).
Proof.
  intros W S P H. apply wr_write_ok in H as (w' & out & H & ->).
  destruct (ws_plain _ _ _ _ _ _ _ _ _ W S P H) as [-> W']. split; [|exact W'].
  constructor; try reflexivity. cbn [y_out map]. rewrite (emit_line _ _ (ws_d _ _ _ _ _ W) (ws_eol _ _ _ _ _ W)). reflexivity.
Qed.

Definition emits9 {A} (P : seg -> Prop) (m : SE v999 A) : Prop :=
  forall v v' a lp gc sc n, WS (y_wr v) lp gc sc n -> m v = (v', Ok a) ->
  exists ss, wrote9 v v' ss /\ Forall P ss /\ WS (y_wr v') lp gc sc (n + Z.of_nat (length ss)).

Section Emits9.
Variable P : seg -> Prop.
Lemma WS_n w lp gc sc n m : n = m -> WS w lp gc sc n -> WS w lp gc sc m.
Proof. intros ->. auto. Qed.
Lemma emits9_ret {A} (x : A) : emits9 P (se_ret x).
Proof.
  intros v v' a lp gc sc n W H. se_inv H. exists []. split; [apply wrote9_refl|]. split; [constructor|].
  eapply WS_n; [|exact W]. cbn [length]. lia.
Qed.
Lemma emits9_raise {A} e : emits9 P (@se_raise v999 A e).
Proof. intros v v' a lp gc sc n W H. se_inv H. Qed.
Lemma emits9_write s id : sid s = Some (l id) -> plain_id id -> P s -> emits9 P (wr_write s).
Proof.
  intros S Pl Ps v v' a lp gc sc n W H. destruct (wr_write_plain _ _ _ _ _ _ _ _ _ W S Pl H) as [A B].
  exists [s]. split; [exact A|]. split; [repeat constructor; exact Ps|exact B].
Qed.
Lemma emits9_bind {A B} (m : SE v999 A) (f : A -> SE v999 B) :
  emits9 P m -> (forall a, emits9 P (f a)) -> emits9 P (se_bind m f).
Proof.
  intros Hm Hf v v' b lp gc sc n W H. apply bind_ok in H as (v1 & a & H1 & H2).
  destruct (Hm _ _ _ _ _ _ _ W H1) as (s1 & W1 & F1 & X1). destruct (Hf _ _ _ _ _ _ _ _ X1 H2) as (s2 & W2 & F2 & X2).
  exists (s1 ++ s2). split; [eapply wrote9_trans; eauto|]. split; [apply Forall_app; auto|].
  eapply WS_n; [|exact X2]. rewrite app_length. lia.
Qed.
Lemma emits9_get_bind {B} (f : v999 -> SE v999 B) : (forall x, emits9 P (f x)) -> emits9 P (se_bind se_get f).
Proof. intros Hf v v' b lp gc sc n W H. apply bind_ok in H as (v1 & a & H1 & H2). se_inv H1. eapply Hf; eauto. Qed.
Lemma emits9_lift_bind {A B} (r : result A) (f : A -> SE v999 B) :
  (forall a, r = Ok a -> emits9 P (f a)) -> emits9 P (se_bind (se_lift r) f).
Proof. intros Hf v v' b lp gc sc n W H. apply bind_ok in H as (v1 & a & H1 & H2). se_inv H1. eapply Hf; eauto. Qed.
Lemma emits9_in_hy {A} (m : SE errh A) : emits9 P (in_hy m).
Proof.
  intros v v' a lp gc sc n W H. apply in_hy_ok in H as (A1 & A2 & _). exists []. split; [exact A1|]. split; [constructor|].
  rewrite A2. eapply WS_n; [|exact W]. cbn [length]. lia.
Qed.
Lemma emits9_iter {A} (f : A -> SE v999 unit) xs : (forall x, emits9 P (f x)) -> emits9 P (se_iter f xs).
Proof.
  intros Hf. induction xs as [|x r IH]; cbn [se_iter]; [apply emits9_ret|].
  apply emits9_bind; [apply Hf|intros _; exact IH].
Qed.
End Emits9.

(* ------------------------------------------------------------------ *)
(* inside a set                                                        *)
(* ------------------------------------------------------------------ *)
Ltac plain9 id :=
  match goal with
  | |- emits9 _ (wr_write ?s) =>
      let S := fresh "S" in
      assert (S : sid s = Some (l id));
      [|apply (emits9_write body_seg _ id S); [reflexivity|apply (body_sid _ id S); cbn [In]; tauto]]
  end.

Lemma visit_st_pre9_emits n : emits9 body_seg (visit_st_pre9 n).
Proof.
  unfold visit_st_pre9. destruct (tn_id n) as [id|]; [|apply emits9_raise]. destruct (tn_ctl n) as [ctl|].
  all: apply emits9_lift_bind; intros ak2 E; r_inv E; plain9 "AK2"%string;
    match goal with H : match ?c with Some _ => _ | None => _ end = Ok _ |- _ => revert H; destruct c; intros H end; repeat sid_step; reflexivity.
Qed.

Lemma visit_st_post9_emits t : emits9 body_seg (visit_st_post9 t).
Proof.
  unfold visit_st_post9. apply emits9_bind; [apply emits9_in_hy|]. intros n. apply emits9_get_bind. intros v.
  destruct (tn_ack n) as [ack|]; [|apply emits9_raise].
  apply emits9_lift_bind. intros ik5 E. r_inv E. plain9 "IK5"%string. repeat sid_step. reflexivity.
Qed.

Lemma visit_seg9_emits n : emits9 body_seg (visit_seg9 n).
Proof.
  unfold visit_seg9. apply emits9_get_bind. intros v. apply emits9_lift_bind. intros seg_str E. r_inv E.
  match goal with H : Ok (format_seg D ?s) = Ok _ |- _ => injection H as <-; set (s3 := s) end.
  assert (S3 : sid s3 = Some (l "IK3")).
  { subst s3. destruct (truthy_s (sn_ls_id n)); repeat sid_step; reflexivity. }
  assert (R : sid (parse_seg D (format_seg D s3)) = Some (l "IK3")) by (apply reparse_sid; [exact S3|apply nostar; reflexivity]).
  apply emits9_bind.
  - apply emits9_iter. intros cde. destruct (mem_str cde valid_IK3_codes); [|apply emits9_ret].
    apply emits9_lift_bind. intros s Es. plain9 "IK3"%string. repeat sid_step. exact R.
  - intros _. destruct (_ && _); [|apply emits9_ret].
    apply emits9_lift_bind. intros s Es. plain9 "IK3"%string. repeat sid_step. exact R.
Qed.

Lemma visit_ele9_emits e : emits9 body_seg (visit_ele9 e).
Proof.
  unfold visit_ele9. apply emits9_lift_bind. intros seg_str E. r_inv E.
  match goal with H : Ok (format_seg D ?s) = Ok _ |- _ => injection H as <-; set (s4 := s) end.
  assert (S4 : sid s4 = Some (l "IK4")).
  { subst s4. destruct (truthy_s (en_ref_num e)); destruct (truthy_Z (en_subpos e)); repeat sid_step; reflexivity. }
  assert (R : sid (parse_seg D (format_seg D s4)) = Some (l "IK4")) by (apply reparse_sid; [exact S4|apply nostar; reflexivity]).
  apply emits9_iter. intros er. destruct (mem_str _ valid_IK4_codes); [|apply emits9_ret].
  apply emits9_lift_bind. intros s Es. r_inv Es. plain9 "IK4"%string.
  destruct (truthy_s (snd er)); repeat sid_step; exact R.
Qed.

Lemma accept_seg9_emits k : emits9 body_seg (accept_seg9 k).
Proof.
  unfold accept_seg9. apply emits9_bind; [apply emits9_in_hy|]. intros n.
  apply emits9_bind; [apply visit_seg9_emits|]. intros _.
  apply emits9_iter. intros e. apply emits9_bind; [apply emits9_in_hy|]. intros en. apply visit_ele9_emits.
Qed.

Lemma accept_st9_emits t : emits9 body_seg (accept_st9 t).
Proof.
  unfold accept_st9. apply emits9_bind; [apply emits9_in_hy|]. intros n.
  apply emits9_bind; [apply visit_st_pre9_emits|]. intros _.
  apply emits9_bind; [apply emits9_iter; intros k; apply accept_seg9_emits|]. intros _.
  apply visit_st_post9_emits.
Qed.

(* ------------------------------------------------------------------ *)
(* one group node = one transaction set                                *)
(* ------------------------------------------------------------------ *)
Lemma wr_write_gen s v v' u lp gc sc n : WS (y_wr v) lp gc sc n -> wr_write s v = (v', Ok u) ->
  exists out, w_write_segs (y_wr v) D s = Ok (y_wr v', out) /\ wrote9 v v' out.
Proof.
  intros W H. apply wr_write_ok in H as (w' & out & H & ->). exists out. split; [exact H|].
  constructor; try reflexivity. cbn [y_out]. f_equal. apply map_ext. intros x.
  apply emit_line; [exact (ws_d _ _ _ _ _ W)|exact (ws_eol _ _ _ _ _ W)].
Qed.

Lemma parse_st999 : parse_seg D (l "ST*999") = {| sid := Some (l "ST"); els := [[l "999"]] |}.
Proof. vm_compute. reflexivity. Qed.

Definition st9_seg (k : nat) : seg := {| sid := Some (l "ST"); els := [[l "999"]; [dec4 k]; split ":"%char vriic] |}.

Lemma visit_gs_pre9_spec nd v v' u k lp gc sc n :
  WS (y_wr v) lp gc sc n -> y_st_ctl v = Z.of_nat k -> visit_gs_pre9 nd v = (v', Ok u) ->
  exists ak1, y_out v' = y_out v ++ map line_999 [st9_seg (S k); ak1] /\ y_st_ctl v' = Z.of_nat (S k) /\
              sid ak1 = Some (l "AK1") /\
              WS (y_wr v') ((l "ST", Some (dec4 (S k))) :: lp) gc (sc + 1) 2.
Proof.
  intros W K H. unfold visit_gs_pre9 in H. se_inv H.
  match goal with H : wr_write ?s (set_y_st_ctl v _) = (?x, Ok _) |- _ => rename H into H1; rename x into v1; rename s into st end.
  match goal with H : wr_write ?s v1 = (_, Ok _) |- _ => rename H into H2; rename s into ak1 end.
  match goal with H : bind _ _ = Ok st |- _ => r_inv H end.
  cbn [y_st_ctl set_y_st_ctl] in *. rewrite K in *. replace (Z.of_nat k + 1)%Z with (Z.of_nat (S k)) in * by lia.
  rewrite fmt_04_nat in *. unl. rewrite parse_st999 in *.
  repeat match goal with
         | H : seg_set_opt _ "02" _ = Ok ?s |- _ => is_var s; rewrite set_st_02 in H; injection H as <-
         | H : seg_set_opt _ "03" _ = Ok ?s |- _ => is_var s; rewrite set_st_03 in H; injection H as <-
         end.
  rewrite split_dec4 in *. fold (st9_seg (S k)) in *.
  destruct (wr_write_gen _ (set_y_st_ctl v (Z.of_nat (S k))) _ _ _ _ _ _ W H1) as (o1 & X1 & Y1).
  cbn [y_wr set_y_st_ctl] in X1.
  destruct (ws_st _ _ _ _ _ _ _ _ W (eq_refl : sid (st9_seg (S k)) = Some (l "ST")) X1) as [-> W1].
  assert (S1 : sid ak1 = Some (l "AK1")).
  { match goal with H : bind _ _ = Ok ak1 |- _ => r_inv H end. repeat sid_step. reflexivity. }
  destruct (wr_write_plain _ _ _ _ _ _ _ _ _ W1 S1 (eq_refl : plain_id "AK1") H2) as [Y2 W2].
  exists ak1. split; [|split; [|split; [exact S1|]]].
  - rewrite (w9_out _ _ _ Y2), (w9_out _ _ _ Y1). cbn [y_out set_y_st_ctl map app]. rewrite <- app_assoc. reflexivity.
  - rewrite (w9_st _ _ _ Y2), (w9_st _ _ _ Y1). reflexivity.
  - exact W2.
Qed.

Lemma visit_gs_post9_spec g v v' u id lp gc sc n :
  WS (y_wr v) ((l "ST", id) :: lp) gc sc n -> visit_gs_post9 g v = (v', Ok u) ->
  exists ak9, wrote9 v v' [ak9; tr "SE" (n + 2) id] /\ sid ak9 = Some (l "AK9") /\ WS (y_wr v') lp gc sc 0.
Proof.
  intros W H. unfold visit_gs_post9 in H. se_inv H.
  match goal with H : in_hy _ v = (?x, Ok _) |- _ => apply in_hy_ok in H as (Y1 & R1 & _); rename x into v1 end.
  match goal with H : _ v1 = (?x, Ok _) |- _ => rename x into v2; rename H into HIF end.
  assert (Y2 : wrote9 v1 v2 [] /\ y_wr v2 = y_wr v1).
  { destruct (negb _); [destruct (negb _)|]; [apply in_hy_ok in HIF as (A & B & _); auto| |]; se_inv HIF; split; try reflexivity; apply wrote9_refl. }
  destruct Y2 as [Y2 R2].
  match goal with H : in_hy _ v2 = (?x, Ok _) |- _ => apply in_hy_ok in H as (Y3 & R3 & _); rename x into v3 end.
  match goal with H : wr_write ?s v3 = (?x, Ok _) |- _ => rename H into H4; rename x into v4; rename s into ak9 end.
  match goal with H : wr_write ?s v4 = (_, Ok _) |- _ => rename H into H5; rename s into se end.
  assert (W3 : WS (y_wr v3) ((l "ST", id) :: lp) gc sc n) by (rewrite R3, R2, R1; exact W).
  assert (S9 : sid ak9 = Some (l "AK9")).
  { match goal with H : bind _ _ = Ok ak9 |- _ => r_inv H end. repeat sid_step. reflexivity. }
  destruct (wr_write_plain _ _ _ _ _ _ _ _ _ W3 S9 (eq_refl : plain_id "AK9") H4) as [Y4 W4].
  assert (SE : sid se = Some (l "SE")).
  { match goal with H : bind _ _ = Ok se |- _ => r_inv H end. repeat sid_step. reflexivity. }
  destruct (wr_write_gen _ _ _ _ _ _ _ _ W4 H5) as (o5 & X5 & Y5).
  destruct (ws_se _ _ _ _ _ _ _ _ _ W4 SE X5) as [-> W5].
  exists ak9. split; [|split; [exact S9|exact W5]].
  replace (n + 2)%Z with (n + 1 + 1)%Z by lia.
  exact (wrote9_trans _ _ _ _ _ (wrote9_trans _ _ _ _ _ (wrote9_trans _ _ _ _ _ (wrote9_trans _ _ _ _ _ Y1 Y2) Y3) Y4) Y5).
Qed.

Record Inv9 (isa gs : seg) (icn g6 : option str) (k : nat) (rest : list seg) (v : v999) : Prop := {
  j_out : y_out v = map line_999 (isa :: gs :: rest);
  j_sets : sets_from 1 rest (S k);
  j_stc : y_st_ctl v = Z.of_nat k;
  j_ws : exists n, WS (y_wr v) [(l "GS", g6); (l "ISA", icn)] 1 (Z.of_nat k) n }.

Lemma tr_SE n k : tr "SE" (Z.of_nat n) (Some (dec4 k)) = {| sid := Some (l "SE"); els := [[dec n]; [dec4 k]] |}.
Proof.
  unfold tr. cbn [show_oid]. rewrite fmt_Z_nat. destruct (dec4_digits k) as [A NE]. destruct (digits_free3 _ A) as (F1 & F2 & F3).
  rewrite parse_trailer; [rewrite split_dec4; reflexivity|apply nostar; reflexivity|reflexivity|exact F2|apply ends_with_notin; exact F1].
Qed.

Lemma accept_gs9_step isa gs icn g6 k rest g v v' u :
  Inv9 isa gs icn g6 k rest v -> accept_gs9 g v = (v', Ok u) ->
  exists set, Inv9 isa gs icn g6 (S k) (rest ++ set) v'.
Proof.
  intros [I1 I2 I3 (n & I4)] H. unfold accept_gs9 in H. se_inv H.
  match goal with H : in_hy _ v = (?x, Ok ?a) |- _ => apply in_hy_ok in H as (Y1 & R1 & _); rename x into v1; rename a into nd end.
  match goal with H : visit_gs_pre9 nd v1 = (?x, Ok _) |- _ => rename H into H2; rename x into v2 end.
  match goal with H : se_iter accept_st9 _ v2 = (?x, Ok _) |- _ => rename H into H3; rename x into v3 end.
  match goal with H : visit_gs_post9 g v3 = _ |- _ => rename H into H4 end.
  assert (W1 : WS (y_wr v1) [(l "GS", g6); (l "ISA", icn)] 1 (Z.of_nat k) n) by (rewrite R1; exact I4).
  assert (K1 : y_st_ctl v1 = Z.of_nat k) by (rewrite (w9_st _ _ _ Y1); exact I3).
  destruct (visit_gs_pre9_spec _ _ _ _ _ _ _ _ _ W1 K1 H2) as (ak1 & O2 & K2 & S1 & W2).
  destruct (emits9_iter body_seg accept_st9 _ accept_st9_emits _ _ _ _ _ _ _ W2 H3) as (ss & Y3 & F3 & W3).
  destruct (visit_gs_post9_spec _ _ _ _ _ _ _ _ _ W3 H4) as (ak9 & Y4 & S9 & W4).
  replace (2 + Z.of_nat (length ss) + 2)%Z with (Z.of_nat (length (ak1 :: ss ++ [ak9]) + 2)) in Y4
    by (cbn [length]; rewrite app_length; cbn [length]; lia).
  rewrite tr_SE in Y4.
  set (se := {| sid := Some (l "SE"); els := [[dec (length (ak1 :: ss ++ [ak9]) + 2)]; [dec4 (S k)]] |}) in *.
  exists (st9_seg (S k) :: (ak1 :: ss ++ [ak9]) ++ [se]). constructor.
  - rewrite (w9_out _ _ _ Y4), (w9_out _ _ _ Y3), O2, (w9_out _ _ _ Y1), I1.
    cbn [map app]. rewrite !map_app. cbn [map app]. rewrite app_nil_r, <- !app_assoc. cbn [app]. rewrite map_app. reflexivity.
  - apply sets_snoc; [exact I2|]. unfold one_set. repeat split; try reflexivity.
    + constructor; [|apply Forall_app; split; [exact F3|repeat constructor]].
      * body_by "AK1"%string. exact S1.
      * body_by "AK9"%string. exact S9.
    + apply (elc_is_intro (st9_seg (S k)) 2 _ [dec4 (S k)]); reflexivity.
    + apply (elc_is_intro se 2 _ [dec4 (S k)]); reflexivity.
    + apply (elc_is_intro se 1 _ [dec (length (ak1 :: ss ++ [ak9]) + 2)]); reflexivity.
  - rewrite (w9_st _ _ _ Y4), (w9_st _ _ _ Y3). exact K2.
  - exists 0%Z. replace (Z.of_nat (S k)) with (Z.of_nat k + 1)%Z by lia. exact W4.
Qed.

Lemma Inv9_nil isa gs icn g6 k rest v v' : Inv9 isa gs icn g6 k rest v -> wrote9 v v' [] -> y_wr v' = y_wr v ->
  Inv9 isa gs icn g6 k rest v'.
Proof.
  intros [I1 I2 I3 I4] Y R. constructor; try assumption.
  - rewrite (w9_out _ _ _ Y), I1. cbn [map]. apply app_nil_r.
  - rewrite (w9_st _ _ _ Y). exact I3.
  - rewrite R. exact I4.
Qed.

Definition InvE9 isa gs icn g6 v : Prop := exists k rest, Inv9 isa gs icn g6 k rest v.

Lemma accept_isa9_step isa gs icn g6 i v v' u : InvE9 isa gs icn g6 v -> accept_isa9 i v = (v', Ok u) -> InvE9 isa gs icn g6 v'.
Proof.
  intros I H. unfold accept_isa9 in H. se_inv H.
  match goal with H : in_hy _ v = (?x, Ok _) |- _ => apply in_hy_ok in H as (Y & R & _); rename x into v1 end.
  match goal with H : se_iter accept_gs9 _ v1 = _ |- _ => revert H end.
  apply iter_inv.
  - intros g s s' u' (k & rest & Is) Hg. destruct (accept_gs9_step _ _ _ _ _ _ _ _ _ _ Is Hg) as (set & I'). exists (S k), (rest ++ set). exact I'.
  - destruct I as (k & rest & I). exists k, rest. eapply Inv9_nil; eauto.
Qed.

(* ------------------------------------------------------------------ *)
(* the header                                                          *)
(* ------------------------------------------------------------------ *)
Lemma WS_init : WS (w_init D (l "^") [LF]) [] 0 0 0.
Proof. constructor; reflexivity. Qed.

Ltac sets9 :=
  repeat match goal with
         | H : seg_set_opt _ _ ?a = Ok _ |- _ => is_var a; destruct a; [|discriminate H]
         | H : rstrip_o ?a = Ok _ |- _ => is_var a; destruct a; [|discriminate H]
         end;
  repeat match goal with
         | H : rstrip_o (Some _) = Ok ?s |- _ => is_var s; cbv beta iota delta [rstrip_o] in H; injection H as <-
         | H : seg_set_opt _ _ (Some _) = Ok ?s |- _ =>
             is_var s;
             first [rewrite set_isa_05 in H|rewrite set_isa_06 in H|rewrite set_isa_07 in H|rewrite set_isa_08 in H
                   |rewrite set_isa_09 in H|rewrite set_isa_10 in H|rewrite set_isa_11 in H|rewrite set_isa_12 in H
                   |rewrite set_isa_13 in H|rewrite set_isa_14 in H|rewrite set_isa_15 in H|rewrite set_isa_16 in H
                   |rewrite set_gs_01 in H|rewrite set_gs_02 in H|rewrite set_gs_03 in H|rewrite set_gs_04 in H
                   |rewrite set_gs_05 in H|rewrite set_gs_06 in H|rewrite set_gs_07 in H|rewrite set_gs_08 in H];
             injection H as <-
         end.

Lemma visit_root_pre9_spec ck h v' u : visit_root_pre9 ck (v999_init h) = (v', Ok u) ->
  exists a1 a2 a3 a4 a5 a6 a7 a8 a9 a10 a11 a12 a14 a15 b1 b2 b3 b4 b5 b7 b8,
    let isa := {| sid := Some (l "ISA");
                  els := [a1; a2; a3; a4; a5; a6; a7; a8; a9; a10; a11; a12; split ":"%char (ctl_of ck); a14; a15; [l ":"]] |} in
    let gs := {| sid := Some (l "GS"); els := [b1; b2; b3; b4; b5; split ":"%char (fmt_Zi (ck_rand ck)); b7; b8] |} in
    Inv9 isa gs (Some (echo (ctl_of ck))) (Some (echo (fmt_Zi (ck_rand ck)))) 0 [] v'.
Proof.
  intros H. unfold visit_root_pre9 in H. se_inv H. fold (ctl_of ck) in *.
  match goal with H : in_hy (get_isa _) _ = (?x, Ok ?n) |- _ => apply in_hy_ok in H as (Y1 & R1 & _); rename x into v1 end.
  match goal with H : wr_write ?s (set_y_ctls v1 _ _) = (?x, Ok _) |- _ => rename H into H2; rename x into v2; rename s into isa end.
  match goal with H : in_hy (get_gs _) v2 = (?x, Ok _) |- _ => apply in_hy_ok in H as (Y3 & R3 & _); rename x into v3 end.
  match goal with H : wr_write ?s v3 = (_, Ok _) |- _ => rename H into H4; rename s into gs end.
  match goal with H : bind _ _ = Ok isa |- _ => r_inv H end.
  match goal with H : bind _ _ = Ok gs |- _ => r_inv H end.
  unl. rewrite parse_isa_lit in *. rewrite (parse_id_lit (l "GS")) in * by (try apply nostar; try discriminate; reflexivity).
  sets9.
  assert (W1 : WS (y_wr (set_y_ctls v1 (Some (ctl_of ck)) (Some (fmt_Zi (ck_rand ck))))) [] 0 0 0).
  { cbn [y_wr set_y_ctls]. rewrite R1. apply WS_init. }
  destruct (wr_write_gen _ _ _ _ _ _ _ _ W1 H2) as (o2 & X2 & Y2).
  eapply ws_isa in X2; [|exact W1|reflexivity]. destruct X2 as (_ & (isa2 & -> & FX) & W2).
  assert (W3 : WS (y_wr v3) [(l "ISA", Some (echo (ctl_of ck)))] 0 0 0) by (rewrite R3; exact W2).
  destruct (wr_write_gen _ _ _ _ _ _ _ _ W3 H4) as (o4 & X4 & Y4).
  eapply ws_gs in X4; [|exact W3|reflexivity]. destruct X4 as (-> & W4).
  unfold isa_fixed in FX.
  destruct (opt_eqb str_eqb _ _) in FX; [rewrite fix_isa_10 in FX; cbn [bind] in FX|cbn [bind] in FX];
    rewrite fix_isa_15 in FX; injection FX as <-.
  all: do 21 eexists; cbn zeta; constructor;
    [ rewrite (w9_out _ _ _ Y4), (w9_out _ _ _ Y3), (w9_out _ _ _ Y2); cbn [y_out set_y_ctls]; rewrite (w9_out _ _ _ Y1); reflexivity
    | constructor
    | rewrite (w9_st _ _ _ Y4), (w9_st _ _ _ Y3), (w9_st _ _ _ Y2); cbn [y_st_ctl set_y_ctls]; rewrite (w9_st _ _ _ Y1); reflexivity
    | exists 0%Z; exact W4 ].
Qed.

(* ------------------------------------------------------------------ *)
(* the trailer                                                         *)
(* ------------------------------------------------------------------ *)
Lemma visit_root_post9_spec isa gs icn g6 k rest v v' u :
  Inv9 isa gs icn g6 k rest v -> visit_root_post9 v = (v', Ok u) ->
  exists tail,
    y_out v' = map line_999 (isa :: gs :: rest ++ tr "GE" (Z.of_nat k) g6 :: tail) /\
    (tail = [tr "IEA" 1 icn] \/ exists ta1, has_sid ta1 "TA1" = true /\ tail = [ta1; tr "IEA" 1 icn]).
Proof.
  intros [I1 I2 I3 (n & I4)] H. unfold visit_root_post9 in H. se_inv H.
  match goal with H : wr_write ?s v = (?x, Ok _) |- _ => rename H into H1; rename x into v1; rename s into ge end.
  match goal with H : in_hy _ v1 = (?x, Ok ?nd) |- _ => apply in_hy_ok in H as (Y2 & R2 & _); rename x into v2; rename nd into inode end.
  match goal with H : wr_write _ ?y = (v', Ok _) |- _ => rename H into H4; rename y into v3 end.
  match goal with H : _ v2 = (v3, Ok _) |- _ => rename H into HT end.
  assert (SG : sid ge = Some (l "GE")).
  { match goal with H : seg_set_opt _ _ _ = Ok ge |- _ => rewrite (seg_set_opt_sid _ _ _ _ H) end. reflexivity. }
  destruct (wr_write_gen _ _ _ _ _ _ _ _ I4 H1) as (o1 & X1 & Y1).
  destruct (ws_ge _ _ _ _ _ _ _ _ _ I4 SG X1) as [-> W1].
  assert (W2 : WS (y_wr v2) [(l "ISA", icn)] 1 0 n) by (rewrite R2; exact W1).
  assert (C3 : exists tl m, wrote9 v2 v3 tl /\ WS (y_wr v3) [(l "ISA", icn)] 1 0 m /\
                            (tl = [] \/ exists ta1, has_sid ta1 "TA1" = true /\ tl = [ta1])).
  { destruct (opt_eqb str_eqb (in_ta1 inode) _).
    - se_inv HT. match goal with H : wr_write ?s v2 = _ |- _ => rename s into ta1; rename H into HW end.
      assert (S : sid ta1 = Some (l "TA1")).
      { match goal with H : bind _ _ = Ok ta1 |- _ => r_inv H end.
        match goal with H : match ?c with [] => _ | _ => _ end = Ok ta1 |- _ => destruct c; r_inv H end; repeat sid_step; reflexivity. }
      destruct (wr_write_plain _ _ _ _ _ _ _ _ _ W2 S (eq_refl : plain_id "TA1") HW) as [A B].
      exists [ta1], (n + 1)%Z. split; [exact A|]. split; [exact B|]. right. exists ta1. split; [|reflexivity].
      unfold has_sid. rewrite S. reflexivity.
    - se_inv HT. exists [], n. split; [apply wrote9_refl|]. split; [exact W2|left; reflexivity]. }
  destruct C3 as (tl & m & Y3 & W3 & T3).
  destruct (wr_write_gen _ _ _ _ _ _ _ _ W3 H4) as (o4 & X4 & Y4).
  eapply ws_iea in X4; [|exact W3|reflexivity]. destruct X4 as [-> W4].
  exists (tl ++ [tr "IEA" 1 icn]). split.
  - rewrite (w9_out _ _ _ Y4), (w9_out _ _ _ Y3), (w9_out _ _ _ Y2), (w9_out _ _ _ Y1), I1.
    cbn [map app]. rewrite !map_app. cbn [map app]. rewrite app_nil_r, <- !app_assoc. cbn [app]. rewrite map_app. reflexivity.
  - destruct T3 as [->|(ta1 & T & ->)]; [left; reflexivity|right; exists ta1; split; [exact T|reflexivity]].
Qed.

(* ------------------------------------------------------------------ *)
(* the theorem                                                         *)
(* ------------------------------------------------------------------ *)
Lemma fmt_Zi_free z : ~ In "~"%char (fmt_Zi z) /\ ~ In "*"%char (fmt_Zi z) /\ ~ In ":"%char (fmt_Zi z).
Proof.
  assert (F : forall n, ~ In "~"%char (fmt_d n) /\ ~ In "*"%char (fmt_d n) /\ ~ In ":"%char (fmt_d n)).
  { intros n. destruct (fmt_d_spec n) as (ds & -> & A & _). apply digits_free3. exact A. }
  unfold fmt_Zi. destruct z as [|p|p]; try apply F.
  destruct (F (N.pos p)) as (A & B & C). repeat split; intros [H|H]; try discriminate; auto.
Qed.

Lemma echo_free x : ~ In ":"%char x -> echo x = x.
Proof. intros H. unfold echo. rewrite (split_free _ _ H). reflexivity. Qed.

(* the interchange control number as the writer reads it back from ISA13 *)
Definition clock_ok9 (ck : clock) : bool := tail_ok (echo (ctl_of ck)).

Theorem ack999_envelope_partial ck h h' lines :
  clock_ok9 ck = true ->
  render_999 ck h = (h', lines, None) ->
  exists segs, lines = map line_999 segs /\ envelope_ok segs = true.
Proof.
  intros CK H. unfold render_999 in H. destruct (accept_root9 ck (v999_init h)) as [v r] eqn:E.
  destruct r as [u|e]; [|discriminate]. injection H as _ <-.
  unfold accept_root9 in E. se_inv E.
  match goal with H : visit_root_pre9 _ _ = (?x, Ok _) |- _ =>
    apply visit_root_pre9_spec in H as (a1 & a2 & a3 & a4 & a5 & a6 & a7 & a8 & a9 & a10 & a11 & a12 & a14 & a15 &
                                        b1 & b2 & b3 & b4 & b5 & b7 & b8 & I0); cbn zeta in I0; rename x into v1 end.
  set (gctl := fmt_Zi (ck_rand ck)) in *. set (ctl := ctl_of ck) in *.
  set (isa := {| sid := Some (l "ISA"); els := [a1; a2; a3; a4; a5; a6; a7; a8; a9; a10; a11; a12; split ":"%char ctl; a14; a15; [l ":"]] |}) in *.
  set (gs := {| sid := Some (l "GS"); els := [b1; b2; b3; b4; b5; split ":"%char gctl; b7; b8] |}) in *.
  match goal with H : se_iter accept_isa9 _ v1 = (?x, Ok _) |- _ =>
    apply (iter_inv (InvE9 isa gs (Some (echo ctl)) (Some (echo gctl))) accept_isa9
                    (accept_isa9_step isa gs (Some (echo ctl)) (Some (echo gctl)))) in H; [|eexists _, _; exact I0];
    destruct H as (k & rest & I1); rename x into v2 end.
  match goal with H : visit_root_post9 v2 = _ |- _ =>
    apply (visit_root_post9_spec _ _ _ _ _ _ _ _ _ I1) in H as (tail & O & T) end.
  destruct (fmt_Zi_free (ck_rand ck)) as (G1 & G2 & G3). fold gctl in G1, G2, G3.
  rewrite (echo_free gctl G3) in O.
  assert (GE : tr "GE" (Z.of_nat k) (Some gctl) = {| sid := Some (l "GE"); els := [[dec k]; split ":"%char gctl] |}).
  { unfold tr. cbn [show_oid]. rewrite fmt_Z_nat.
    apply parse_trailer; [apply nostar; reflexivity|reflexivity|exact G2|apply ends_with_notin; exact G1]. }
  rewrite GE in O. set (ge := {| sid := Some (l "GE"); els := [[dec k]; split ":"%char gctl] |}) in *.
  apply tail_ok_E in CK as [CK1 CK2]. fold ctl in CK1, CK2.
  set (iea := tr "IEA" 1 (Some (echo ctl))) in *.
  assert (IE : iea = {| sid := Some (l "IEA"); els := [[dec 1]; keep ele_empty (split ":"%char ctl)] |}).
  { subst iea. unfold tr. cbn [show_oid]. change (fmt_Z 1) with (dec 1). rewrite <- split_echo.
    apply parse_trailer; [apply nostar; reflexivity|reflexivity|exact CK1|exact CK2]. }
  set (isa' := {| sid := Some (l "ISA");
                  els := [a1; a2; a3; a4; a5; a6; a7; a8; a9; a10; a11; a12; keep ele_empty (split ":"%char ctl); a14; a15; [l ":"]] |}).
  assert (L : line_999 isa = line_999 isa').
  { unfold line_999, emit. cbn [wd w_init]. f_equal. apply format_seg_like.
    repeat (apply Forall2_cons; [first [apply comp_like_refl|apply comp_like_trim]|]). constructor. }
  exists (isa' :: gs :: rest ++ ge :: tail). split.
  - rewrite O. cbn [map]. rewrite L. reflexivity.
  - apply (envelope_intro isa' gs rest k ge tail).
    + reflexivity.
    + reflexivity.
    + reflexivity.
    + exact (j_sets _ _ _ _ _ _ _ I1).
    + reflexivity.
    + apply (elc_is_intro ge 1 _ [dec k]); reflexivity.
    + unfold elc_same, ge, gs. cbn [elc els nth_error]. apply comp_eqb_refl.
    + exists iea. split; [|exact T].
      unfold iea_ok. rewrite IE. replace (has_sid _ "IEA") with true by reflexivity.
      rewrite (elc_is_intro _ 1 (dec 1) [dec 1]) by reflexivity. cbn [andb].
      unfold elc_same, isa'. cbn [elc els nth_error]. apply comp_eqb_refl.
Qed.

