(* NV_C15.v — non-vacuity of the hypotheses of the theorems of Props/C15.v:
   a concrete validation context (data-element table, an external code set, an
   excluded one, extended character set), concrete element definitions (ID
   with an inline code list and an external code set, AN 2/5 with a pattern,
   R 1/6, DT 8/8, a not-used element, a qualifier-formatted element inside an
   optional composite) and values hitting several clauses at once. *)
From Coq Require Import String.
From PX.Lib Require Import Base PyStr Regex.
From PX.Model Require Import MapLoad MapTree Element.
From PX.Spec Require Import C15_spec C15_link.
From PX.Proofs Require Import C15_element.

Definition S' (x : string) : option str := Some (cs x).

Definition nv_c : ectx :=
  {| x_de := [ {| de_num := S' "66";   de_type := S' "ID"; de_min := 1; de_max := 2;  de_name := S' "Identification Code Qualifier" |};
               {| de_num := S' "93";   de_type := S' "AN"; de_min := 2; de_max := 5;  de_name := S' "Name" |};
               {| de_num := S' "782";  de_type := S' "R";  de_min := 1; de_max := 6;  de_name := S' "Monetary Amount" |};
               {| de_num := S' "373";  de_type := S' "DT"; de_min := 8; de_max := 8;  de_name := S' "Date" |};
               {| de_num := S' "337";  de_type := S' "TM"; de_min := 4; de_max := 8;  de_name := S' "Time" |};
               {| de_num := S' "1251"; de_type := S' "AN"; de_min := 1; de_max := 35; de_name := S' "Date Time Period" |};
               {| de_num := S' "156";  de_type := S' "ID"; de_min := 2; de_max := 2;  de_name := S' "State" |} ];
     x_codes := [ {| cs_id := S' "states"; cs_codes := [S' "CA"; S' "NY"; S' "TX"] |};
                  {| cs_id := S' "taxonomy"; cs_codes := [S' "101Y00000X"] |} ];
     x_exclude := [cs "taxonomy"];
     x_charset := cs "E"; x_icvn := S' "00401" |}.

Definition nv_c_B : ectx :=
  {| x_de := x_de nv_c; x_codes := x_codes nv_c; x_exclude := x_exclude nv_c; x_charset := cs "B"; x_icvn := S' "00501" |}.

Definition mk_elem (id de usage : string) (seq : Z) (rx : option re) (codes : list (option str)) (ext : option str) : elem :=
  {| e_id := S' id; e_data_ele := S' de; e_usage := S' usage; e_name := S' "a name"; e_seq := seq;
     e_path := None; e_max_use := None; e_res := S' "(source text of the pattern)"; e_rec := rx;
     e_codes := codes; e_external := ext |}.

(* ID 1/2, required, inline codes ZZ 01 *)
Definition nv_e_id : elem := mk_elem "NM108" "66" "R" 8 None [S' "ZZ"; S' "01"] None.
(* ID 2/2, situational, external code set "states" *)
Definition nv_e_state : elem := mk_elem "N402" "156" "S" 2 None [] (S' "states").
(* ID 2/2, required, external code set "taxonomy", which the parameters exclude *)
Definition nv_e_tax : elem := mk_elem "PRV03" "156" "R" 3 None [] (S' "taxonomy").
(* AN 2/5, situational, pattern ^[A-Z]+$ *)
Definition nv_rx : re := RSeq RBol (RSeq (RRep (Cls false [(65, 90)]) 1 None) REol).
Definition nv_e_an : elem := mk_elem "NM103" "93" "S" 3 (Some nv_rx) [] None.
(* R 1/6, required *)
Definition nv_e_r : elem := mk_elem "AMT02" "782" "R" 2 None [] None.
(* DT 8/8, situational *)
Definition nv_e_dt : elem := mk_elem "BHT04" "373" "S" 4 None [] None.
(* TM 4/8, required *)
Definition nv_e_tm : elem := mk_elem "BHT05" "337" "R" 5 None [] None.
(* not used *)
Definition nv_e_nu : elem := mk_elem "NM110" "93" "N" 10 None [] None.
(* AN 1/35 whose format is selected by a qualifier (DTP03) *)
Definition nv_e_q : elem := mk_elem "DTP03" "1251" "R" 3 None [] None.
(* first component (required) of a composite *)
Definition nv_e_sub : elem := mk_elem "SV101-01" "66" "R" 1 None [S' "HC"] None.

Definition nv_de (c : ectx) (e : elem) : dataele :=
  match get_by_elem_num (x_de c) (e_data_ele e) with Ok d => d
  | Raise _ => {| de_num := None; de_type := None; de_min := 0; de_max := 0; de_name := None |} end.

(* ---- boolean forms of the Prop hypotheses ---- *)
Definition wf_def_b (c : ectx) (e : elem) (de : dataele) : bool :=
  match get_by_elem_num (x_de c) (e_data_ele e) with
  | Ok d => ostr_eqb (de_num d) (de_num de) && ostr_eqb (de_type d) (de_type de) && (de_min d =? de_min de)%Z &&
            (de_max d =? de_max de)%Z && ostr_eqb (de_name d) (de_name de)
  | Raise _ => false end &&
  (C15_spec.usage_is (e_usage e) "R" || C15_spec.usage_is (e_usage e) "S" || C15_spec.usage_is (e_usage e) "N") &&
  negb (ostr_eqb (de_type de) (Some [])) &&
  match e_external e with
  | Some k => negb (str_eqb k []) && (mem_str k (x_exclude c) || match cs_find (x_codes c) (Some k) None with Some _ => true | None => false end)
  | None => true end &&
  (str_eqb (x_charset c) (cs "B") || str_eqb (x_charset c) (cs "E")).

Lemma ostr_eq a b : ostr_eqb a b = true -> a = b.
Proof. apply ostr_eqb_eq. Qed.

Lemma wf_def_intro c e de : wf_def_b c e de = true -> wf_def c e de.
Proof.
  unfold wf_def_b, wf_def. intros H.
  repeat (apply andb_true_iff in H; destruct H as [H ?]).
  repeat split.
  - destruct (get_by_elem_num (x_de c) (e_data_ele e)) as [d|]; [|discriminate].
    repeat (apply andb_true_iff in H; destruct H as [H ?]).
    apply ostr_eq in H. apply ostr_eq in H7. apply ostr_eq in H4. apply Z.eqb_eq in H5. apply Z.eqb_eq in H6.
    destruct d, de; cbn in *; congruence.
  - apply orb_true_iff in H3 as [H3|H3]; [apply orb_true_iff in H3 as [H3|H3]|]; auto.
  - intros E. rewrite E in H2. discriminate.
  - destruct (e_external e) as [k|]; [|exact I].
    apply andb_true_iff in H1 as [K1 K2]. split.
    + intros ->. discriminate.
    + apply orb_true_iff in K2 as [K2|K2]; [left; exact K2 | right].
      destruct (cs_find (x_codes c) (Some k) None); [discriminate | discriminate].
  - apply orb_true_iff in H0 as [K|K]; apply str_eqb_eq in K; auto.
Qed.

Definition formats_b (fs : list (option str)) : bool :=
  forallb (fun t => match t with Some x => mem_str x [cs "RD8"; cs "DT"; cs "D8"; cs "D6"; cs "TM"] | None => false end) fs.
Lemma formats_intro fs : formats_b fs = true -> formats_datetime fs.
Proof.
  intros H. apply Forall_forall. intros t Ht. unfold formats_b in H. rewrite forallb_forall in H. specialize (H t Ht).
  destruct t; [apply mem_str_In; exact H | discriminate].
Qed.

(* ---- the shape of one instance: every hypothesis, and the conclusion evaluated ---- *)
Definition val_of (v : option str) : str := match v with Some x => x | None => [] end.

(* conclusion of C15_exact, restricted to the eight codes an element check can report *)
Definition agree (c : ectx) (e : elem) (pc : option (option str * Z)) (fs : list (option str)) (v : option str) (evs : list hev) : bool :=
  forallb (fun code => Bool.eqb (mem_str code (codes_of evs))
                                (implies (x_charset c) (icvn_of c) (def_of c e (nv_de c e) pc) fs v code)) all_codes &&
  forallb (fun code => mem_str code all_codes) (codes_of evs).

(* all four hypotheses of C15_exact (b, evs given by the run), the reported codes, the conclusion *)
Definition exact_case c e pc (v : option str) fs (b : bool) (codes : list str) : Prop :=
  wf_def c e (nv_de c e) /\ formats_datetime fs /\ has_control_char (val_of v) = false /\
  exists evs, elem_is_valid ":"%char c e pc (edata_of v) fs = Ok (b, evs) /\
              codes_of evs = codes /\ agree c e pc fs v evs = true.

Ltac wf := apply wf_def_intro; vm_compute; reflexivity.
Ltac xcase :=
  split; [wf | split; [apply formats_intro; vm_compute; reflexivity | split; [vm_compute; reflexivity |
  eexists; split; [vm_compute; reflexivity | split; vm_compute; reflexivity]]]].

Local Open Scope string_scope.
Definition V (x : string) : option str := Some (cs x).
Definition K (l : list string) : list str := map cs l.

(* C15_total: hypothesis wf_def, for ten definitions in two contexts *)
Example nv_C15_total :
  Forall (fun e => wf_def nv_c e (nv_de nv_c e))
         [nv_e_id; nv_e_state; nv_e_tax; nv_e_an; nv_e_r; nv_e_dt; nv_e_tm; nv_e_nu; nv_e_q; nv_e_sub] /\
  wf_def nv_c_B nv_e_id (nv_de nv_c_B nv_e_id) /\
  (exists b evs, elem_is_valid ":"%char nv_c nv_e_an None (edata_of (Some [ascii_of_nat 7; "A"%char])) [] = Ok (b, evs)) /\
  (exists b evs, elem_is_valid ":"%char nv_c nv_e_r None (edata_of (V "-.")) [V "XX"; None] = Ok (b, evs)).
Proof.
  split; [repeat (constructor; [wf|]); constructor|]. split; [wf|].
  split; eexists; eexists; vm_compute; reflexivity.
Qed.

(* C15_exact: ID with inline list; too long + needless blanks + not in list *)
Example nv_C15_exact :
  exact_case nv_c nv_e_id None (V "ZZ9 ") [] false (K ["5"; "6"; "7"]) /\
  (* lower case: a code error with the extended set, also a type error with the basic one *)
  exact_case nv_c nv_e_id None (V "zz") [] false (K ["7"]) /\
  exact_case nv_c_B nv_e_id None (V "zz") [] false (K ["7"; "6"]) /\
  exact_case nv_c nv_e_id None (V "01") [] true [] /\
  (* absent: required / situational *)
  exact_case nv_c nv_e_id None None [] false (K ["1"]) /\
  exact_case nv_c nv_e_state None (V "") [] true [] /\
  (* external code set: member, too short non-member; excluded set accepts anything *)
  exact_case nv_c nv_e_state None (V "NY") [] true [] /\
  exact_case nv_c nv_e_state None (V "N") [] false (K ["4"; "7"]) /\
  exact_case nv_c nv_e_tax None (V "QQ") [] true [] /\
  (* AN 2/5 with a pattern *)
  exact_case nv_c nv_e_an None (V "Doe  ") [] false (K ["6"; "7"]) /\
  exact_case nv_c nv_e_an None (V "D ") [] false (K ["7"]) /\
  exact_case nv_c nv_e_an None (V "SMITHSON") [] false (K ["5"]) /\
  exact_case nv_c nv_e_an None (V "SMITH") [] true [] /\
  (* R 1/6: sign and point not counted *)
  exact_case nv_c nv_e_r None (V "-1234.56") [] true [] /\
  exact_case nv_c nv_e_r None (V "-12345.678") [] false (K ["5"]) /\
  exact_case nv_c nv_e_r None (V "12a") [] false (K ["6"]) /\
  (* DT 8/8, TM 4/8 *)
  exact_case nv_c nv_e_dt None (V "20030231") [] false (K ["8"]) /\
  exact_case nv_c nv_e_dt None (V "030228") [] false (K ["4"]) /\
  exact_case nv_c nv_e_tm None (V "2560") [] false (K ["9"]) /\
  (* not used *)
  exact_case nv_c nv_e_nu None (V "X") [] false (K ["10"]) /\
  (* qualifier-selected formats *)
  exact_case nv_c nv_e_q None (V "20030231") [V "D8"; V "RD8"] false (K ["8"]) /\
  exact_case nv_c nv_e_q None (V "20030201-20030228") [V "D8"; V "RD8"] true [] /\
  exact_case nv_c nv_e_q None (V "2575") [V "TM"] false (K ["9"]) /\
  (* first component of an optional / a required composite, absent (the composite itself being present); present and wrong *)
  exact_case nv_c nv_e_sub (Some (V "S", 1%Z)) None [] false (K ["1"]) /\
  exact_case nv_c nv_e_sub (Some (V "R", 1%Z)) None [] false (K ["1"]) /\
  exact_case nv_c nv_e_sub (Some (V "S", 1%Z)) (V "HCX") [] false (K ["5"; "7"]).
Proof.
  repeat (split; [xcase|]). xcase.
Qed.

(* C15_sound: its three hypotheses (a control character is allowed here), and
   every reported code implied *)
Definition nv_bel : str := (cs "AB" ++ [ascii_of_nat 7] ++ cs "CDEF ")%list.
Example nv_C15_sound :
  wf_def nv_c nv_e_an (nv_de nv_c nv_e_an) /\ formats_datetime [V "D8"; V "TM"] /\
  has_control_char nv_bel = true /\
  exists evs, elem_is_valid ":"%char nv_c nv_e_an None (edata_of (Some nv_bel)) [V "D8"; V "TM"] = Ok (false, evs) /\
    codes_of evs = K ["5"; "6"] /\
    forallb (fun code => implies (x_charset nv_c) (icvn_of nv_c) (def_of nv_c nv_e_an (nv_de nv_c nv_e_an) None)
                                 [V "D8"; V "TM"] (Some nv_bel) code) (codes_of evs) = true /\
    (* the specification implies more than is reported: the recorded finding *)
    filter (implies (x_charset nv_c) (icvn_of nv_c) (def_of nv_c nv_e_an (nv_de nv_c nv_e_an) None)
                    [V "D8"; V "TM"] (Some nv_bel)) all_codes = K ["5"; "6"; "7"; "9"].
Proof.
  split; [wf|]. split; [apply formats_intro; vm_compute; reflexivity|]. split; [vm_compute; reflexivity|].
  eexists. split; [vm_compute; reflexivity|]. vm_compute. repeat split; reflexivity.
Qed.

(* C15_control_char_preempts: four hypotheses; conclusion evaluated *)
Example nv_C15_control_char_preempts :
  wf_def nv_c nv_e_an (nv_de nv_c nv_e_an) /\ has_control_char nv_bel = true /\
  C15_spec.usage_is (e_usage nv_e_an) "N" = false /\
  exists evs, elem_is_valid ":"%char nv_c nv_e_an None (Some [nv_bel]) [V "D8"; V "TM"] = Ok (false, evs) /\
    codes_of evs = K ["5"; "6"] /\
    filter (implies_with_control_char (def_of nv_c nv_e_an (nv_de nv_c nv_e_an) None) nv_bel) all_codes = K ["5"; "6"].
Proof.
  split; [wf|]. split; [vm_compute; reflexivity|]. split; [vm_compute; reflexivity|].
  eexists. split; [vm_compute; reflexivity|]. vm_compute. repeat split; reflexivity.
Qed.

(* C15_bool_iff_error: three hypotheses; one instance with b = true and no
   code, one with b = false and codes, one with a control character *)
Example nv_C15_bool_iff_error :
  wf_def nv_c nv_e_q (nv_de nv_c nv_e_q) /\ wf_def nv_c nv_e_an (nv_de nv_c nv_e_an) /\
  formats_datetime [V "D8"; V "RD8"] /\
  (exists evs, elem_is_valid ":"%char nv_c nv_e_q None (edata_of (V "20030201-20030228")) [V "D8"; V "RD8"] = Ok (true, evs) /\ codes_of evs = []) /\
  (exists evs, elem_is_valid ":"%char nv_c nv_e_q None (edata_of (V "2003020 ")) [V "D8"; V "RD8"] = Ok (false, evs) /\ codes_of evs = K ["6"; "8"]) /\
  (exists evs, elem_is_valid ":"%char nv_c nv_e_an None (edata_of (Some nv_bel)) [V "D8"; V "RD8"] = Ok (false, evs) /\ codes_of evs = K ["5"; "6"]).
Proof.
  split; [wf|]. split; [wf|]. split; [apply formats_intro; vm_compute; reflexivity|].
  repeat split; eexists; split; vm_compute; reflexivity.
Qed.
