(* C05_build999.v — generated: Segment.set with a position-only designator on an explicit element list appends the
   next element (one vm_compute each; the values stay symbolic) *)
From Coq Require Import String.
From PX.Lib Require Import Base PyStr PyInt.
From PX.Model Require Import Path Segment Errh Ack997.
Local Notation l := list_ascii_of_string.

Lemma set_ak1_01  x :
  seg_set_opt {| sid := Some (l "AK1"); els := [] |} "01" (Some x) =
  Ok {| sid := Some (l "AK1"); els := [split ":"%char x] |}.
Proof. vm_compute. reflexivity. Qed.

Lemma set_ak1_02 e1 x :
  seg_set_opt {| sid := Some (l "AK1"); els := [e1] |} "02" (Some x) =
  Ok {| sid := Some (l "AK1"); els := [e1; split ":"%char x] |}.
Proof. vm_compute. reflexivity. Qed.

Lemma set_ak1_03 e1 e2 x :
  seg_set_opt {| sid := Some (l "AK1"); els := [e1; e2] |} "03" (Some x) =
  Ok {| sid := Some (l "AK1"); els := [e1; e2; split ":"%char x] |}.
Proof. vm_compute. reflexivity. Qed.

Lemma set_ak2_01  x :
  seg_set_opt {| sid := Some (l "AK2"); els := [] |} "01" (Some x) =
  Ok {| sid := Some (l "AK2"); els := [split ":"%char x] |}.
Proof. vm_compute. reflexivity. Qed.

Lemma set_ak2_02 e1 x :
  seg_set_opt {| sid := Some (l "AK2"); els := [e1] |} "02" (Some x) =
  Ok {| sid := Some (l "AK2"); els := [e1; split ":"%char x] |}.
Proof. vm_compute. reflexivity. Qed.

Lemma set_ak2_03 e1 e2 x :
  seg_set_opt {| sid := Some (l "AK2"); els := [e1; e2] |} "03" (Some x) =
  Ok {| sid := Some (l "AK2"); els := [e1; e2; split ":"%char x] |}.
Proof. vm_compute. reflexivity. Qed.

Lemma set_ik3_01  x :
  seg_set_opt {| sid := Some (l "IK3"); els := [] |} "01" (Some x) =
  Ok {| sid := Some (l "IK3"); els := [split ":"%char x] |}.
Proof. vm_compute. reflexivity. Qed.

Lemma set_ik3_02 e1 x :
  seg_set_opt {| sid := Some (l "IK3"); els := [e1] |} "02" (Some x) =
  Ok {| sid := Some (l "IK3"); els := [e1; split ":"%char x] |}.
Proof. vm_compute. reflexivity. Qed.

Lemma set_ik3_03 e1 e2 x :
  seg_set_opt {| sid := Some (l "IK3"); els := [e1; e2] |} "03" (Some x) =
  Ok {| sid := Some (l "IK3"); els := [e1; e2; split ":"%char x] |}.
Proof. vm_compute. reflexivity. Qed.

Lemma set_ik5_01  x :
  seg_set_opt {| sid := Some (l "IK5"); els := [] |} "01" (Some x) =
  Ok {| sid := Some (l "IK5"); els := [split ":"%char x] |}.
Proof. vm_compute. reflexivity. Qed.

Lemma set_ak9_01  x :
  seg_set_opt {| sid := Some (l "AK9"); els := [] |} "01" (Some x) =
  Ok {| sid := Some (l "AK9"); els := [split ":"%char x] |}.
Proof. vm_compute. reflexivity. Qed.

Lemma set_ak9_02 e1 x :
  seg_set_opt {| sid := Some (l "AK9"); els := [e1] |} "02" (Some x) =
  Ok {| sid := Some (l "AK9"); els := [e1; split ":"%char x] |}.
Proof. vm_compute. reflexivity. Qed.

Lemma set_ak9_03 e1 e2 x :
  seg_set_opt {| sid := Some (l "AK9"); els := [e1; e2] |} "03" (Some x) =
  Ok {| sid := Some (l "AK9"); els := [e1; e2; split ":"%char x] |}.
Proof. vm_compute. reflexivity. Qed.

Lemma set_ak9_04 e1 e2 e3 x :
  seg_set_opt {| sid := Some (l "AK9"); els := [e1; e2; e3] |} "04" (Some x) =
  Ok {| sid := Some (l "AK9"); els := [e1; e2; e3; split ":"%char x] |}.
Proof. vm_compute. reflexivity. Qed.

Lemma set_ik4_01_1 x :
  seg_set_opt {| sid := Some (l "IK4"); els := [] |} "01-1" (Some x) = Ok {| sid := Some (l "IK4"); els := [[x]] |}.
Proof. vm_compute. reflexivity. Qed.
Lemma set_ik4_01_2 p x :
  seg_set_opt {| sid := Some (l "IK4"); els := [[p]] |} "01-2" (Some x) = Ok {| sid := Some (l "IK4"); els := [[p; x]] |}.
Proof. vm_compute. reflexivity. Qed.
Lemma set_ik4_02 e1 x :
  seg_set_opt {| sid := Some (l "IK4"); els := [e1] |} "02" (Some x) = Ok {| sid := Some (l "IK4"); els := [e1; split ":"%char x] |}.
Proof. vm_compute. reflexivity. Qed.
Lemma parse_IK3 : parse_seg D (l "IK3") = {| sid := Some (l "IK3"); els := [] |}. Proof. vm_compute. reflexivity. Qed.
Lemma parse_IK4 : parse_seg D (l "IK4") = {| sid := Some (l "IK4"); els := [] |}. Proof. vm_compute. reflexivity. Qed.
Lemma parse_IK5 : parse_seg D (l "IK5") = {| sid := Some (l "IK5"); els := [] |}. Proof. vm_compute. reflexivity. Qed.
Lemma parse_AK1 : parse_seg D (l "AK1") = {| sid := Some (l "AK1"); els := [] |}. Proof. vm_compute. reflexivity. Qed.
Lemma parse_AK2' : parse_seg D (l "AK2") = {| sid := Some (l "AK2"); els := [] |}. Proof. vm_compute. reflexivity. Qed.
Lemma parse_AK9' : parse_seg D (l "AK9") = {| sid := Some (l "AK9"); els := [] |}. Proof. vm_compute. reflexivity. Qed.
